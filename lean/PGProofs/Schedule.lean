/-
PGProofs.Schedule — the control structure of the vectorised evaluation
(`PGModel.Accumulate`): sorting / scatter, the running product, the search loops.
-/
import PGModel.Accumulate
import Mathlib.Algebra.Order.Field.Rat
import Mathlib.Algebra.Order.Field.Basic
import Mathlib.Algebra.Order.Ring.Abs
import Mathlib.Algebra.BigOperators.Group.List.Basic
import Mathlib.Data.List.Sort
import Mathlib.Data.Nat.Cast.Order.Ring
import Mathlib.Tactic.Linarith
import Mathlib.Tactic.Ring

namespace PG

/-! ## Part 1 — sorting and scatter -/

/-- the order used by `insertSorted`: by value, ties by original index. -/
def le2 (x y : ℚ × ℕ) : Prop := x.1 < y.1 ∨ (x.1 = y.1 ∧ x.2 ≤ y.2)

theorem le2_total (x y : ℚ × ℕ) : le2 x y ∨ le2 y x := by
  unfold le2
  rcases lt_trichotomy x.1 y.1 with h | h | h
  · exact Or.inl (Or.inl h)
  · rcases Nat.le_total x.2 y.2 with h' | h'
    · exact Or.inl (Or.inr ⟨h, h'⟩)
    · exact Or.inr (Or.inr ⟨h.symm, h'⟩)
  · exact Or.inr (Or.inl h)

theorem le2_trans {x y z : ℚ × ℕ} (h1 : le2 x y) (h2 : le2 y z) : le2 x z := by
  unfold le2 at *
  rcases h1 with h1 | ⟨h1, h1'⟩ <;> rcases h2 with h2 | ⟨h2, h2'⟩
  · exact Or.inl (lt_trans h1 h2)
  · exact Or.inl (h2 ▸ h1)
  · exact Or.inl (h1 ▸ h2)
  · exact Or.inr ⟨h1.trans h2, h1'.trans h2'⟩

theorem le2_fst {x y : ℚ × ℕ} (h : le2 x y) : x.1 ≤ y.1 := by
  rcases h with h | ⟨h, _⟩
  · exact le_of_lt h
  · exact le_of_eq h

theorem insertSorted_perm (x : ℚ × ℕ) : ∀ l, (insertSorted x l).Perm (x :: l)
  | [] => .refl _
  | y :: ys => by
    unfold insertSorted
    split
    · exact .refl _
    · exact ((insertSorted_perm x ys).cons y).trans (.swap x y ys)

theorem insertSorted_pairwise (x : ℚ × ℕ) :
    ∀ l, l.Pairwise le2 → (insertSorted x l).Pairwise le2
  | [] => by intro _; simp [insertSorted]
  | y :: ys => by
    intro h
    unfold insertSorted
    split
    · rename_i hxy
      refine List.pairwise_cons.2 ⟨?_, h⟩
      intro z hz
      rcases List.mem_cons.1 hz with rfl | hz
      · exact hxy
      · exact le2_trans hxy (List.rel_of_pairwise_cons h hz)
    · rename_i hxy
      have hyx : le2 y x := (le2_total x y).resolve_left hxy
      refine List.pairwise_cons.2 ⟨?_, insertSorted_pairwise x ys (List.pairwise_cons.1 h).2⟩
      intro z hz
      have hz' := (insertSorted_perm x ys).subset hz
      rcases List.mem_cons.1 hz' with rfl | hz'
      · exact hyx
      · exact List.rel_of_pairwise_cons h hz'

theorem foldr_insertSorted_perm : ∀ l : List (ℚ × ℕ), (l.foldr insertSorted []).Perm l
  | [] => .refl _
  | x :: l => (insertSorted_perm x _).trans ((foldr_insertSorted_perm l).cons x)

theorem foldr_insertSorted_pairwise : ∀ l : List (ℚ × ℕ), (l.foldr insertSorted []).Pairwise le2
  | [] => List.Pairwise.nil
  | x :: l => insertSorted_pairwise x _ (foldr_insertSorted_pairwise l)

/-- 1a. `sortWithIdx` permutes the (value, index) pairs. -/
theorem sortWithIdx_perm (ts : List ℚ) : (sortWithIdx ts).Perm ts.zipIdx :=
  foldr_insertSorted_perm _

/-- 1b. the result is sorted by `(value, index)`. -/
theorem sortWithIdx_pairwise (ts : List ℚ) : (sortWithIdx ts).Pairwise le2 :=
  foldr_insertSorted_pairwise _

/-- 1c. `argsort` is a permutation of `0 … n-1`. -/
theorem argsort_perm (ts : List ℚ) : (argsort ts).Perm (List.range ts.length) := by
  have h := (sortWithIdx_perm ts).map Prod.snd
  rw [List.zipIdx_map_snd, ← List.range_eq_range'] at h
  exact h

theorem sortRat_perm (ts : List ℚ) : (sortRat ts).Perm ts := by
  have h := (sortWithIdx_perm ts).map Prod.fst
  rw [List.zipIdx_map_fst] at h
  exact h

@[simp] theorem sortWithIdx_length (ts : List ℚ) : (sortWithIdx ts).length = ts.length := by
  simpa using (sortWithIdx_perm ts).length_eq

/-- 1d. -/
@[simp] theorem sortRat_length (ts : List ℚ) : (sortRat ts).length = ts.length := by
  simp [sortRat]

@[simp] theorem argsort_length (ts : List ℚ) : (argsort ts).length = ts.length := by
  simp [argsort]

/-- 1e. the sorted values are sorted. -/
theorem sortRat_sorted (ts : List ℚ) : (sortRat ts).Pairwise (· ≤ ·) := by
  unfold sortRat
  rw [List.pairwise_map]
  exact (sortWithIdx_pairwise ts).imp le2_fst

theorem argsort_lt (ts : List ℚ) (i : ℕ) (hi : i < (argsort ts).length) :
    (argsort ts)[i] < ts.length := by
  have hm : (argsort ts)[i] ∈ List.range ts.length :=
    (argsort_perm ts).subset (List.getElem_mem hi)
  exact List.mem_range.1 hm

/-- 1f. the `i`-th sorted value is the input value at position `(argsort ts)[i]`. -/
theorem sortRat_getElem (ts : List ℚ) (i : ℕ) (hi : i < ts.length) :
    (sortRat ts)[i]'(by rw [sortRat_length]; exact hi)
      = ts[(argsort ts)[i]'(by rw [argsort_length]; exact hi)]'(argsort_lt ts i _) := by
  have hi' : i < (sortWithIdx ts).length := by rw [sortWithIdx_length]; exact hi
  have hm : (sortWithIdx ts)[i] ∈ ts.zipIdx := (sortWithIdx_perm ts).subset (List.getElem_mem hi')
  rw [List.mem_zipIdx_iff_getElem?] at hm
  have h1 : (sortRat ts)[i]'(by rw [sortRat_length]; exact hi) = ((sortWithIdx ts)[i]).1 := by
    simp [sortRat]
  have h2 : (argsort ts)[i]'(by rw [argsort_length]; exact hi) = ((sortWithIdx ts)[i]).2 := by
    simp [argsort]
  rw [h1]
  obtain ⟨h, e⟩ := List.getElem?_eq_some_iff.1 hm
  rw [← e]
  exact getElem_congr_idx h2.symm


/-! ### scatter -/

theorem getD_eq_getElem' {α} (l : List α) (d : α) {n : ℕ} (h : n < l.length) :
    l.getD n d = l[n] := (List.getElem_eq_getD d).symm

theorem argsortNat_length (xs : List ℕ) : (argsortNat xs).length = xs.length := by
  simp [argsortNat]

theorem argsortNat_lt (xs : List ℕ) (k : ℕ) (hk : k < (argsortNat xs).length) :
    (argsortNat xs)[k] < xs.length := by
  have := argsort_lt (xs.map fun (x : ℕ) => (x : ℚ)) k hk
  rw [List.length_map] at this
  exact this

/-- sorting a permutation of `0 … n-1` (cast to `ℚ`) gives `0 … n-1`. -/
theorem sortRat_cast_perm_range (σ : List ℕ) (n : ℕ) (hσ : σ.Perm (List.range n)) :
    sortRat (σ.map fun (x : ℕ) => (x : ℚ)) = (List.range n).map fun (x : ℕ) => (x : ℚ) := by
  refine List.Perm.eq_of_pairwise' (r := (· ≤ ·)) (sortRat_sorted _) ?_
    ((sortRat_perm _).trans (hσ.map _))
  rw [List.pairwise_map]
  exact List.pairwise_lt_range.imp fun h => Nat.cast_le.2 (Nat.le_of_lt h)

/-- Key fact: `argsortNat σ` is the inverse permutation of `σ`. -/
theorem argsortNat_inverse (σ : List ℕ) (n : ℕ) (hσ : σ.Perm (List.range n)) (k : ℕ) (hk : k < n) :
    ∃ (h1 : k < (argsortNat σ).length) (h2 : (argsortNat σ)[k] < σ.length),
      σ[(argsortNat σ)[k]] = k := by
  have hlen : σ.length = n := by simpa using hσ.length_eq
  have h1 : k < (argsortNat σ).length := by rw [argsortNat_length, hlen]; exact hk
  have h2 := argsortNat_lt σ k h1
  refine ⟨h1, h2, ?_⟩
  set xs := σ.map fun (x : ℕ) => (x : ℚ) with hxs
  have hxl : xs.length = n := by simp [hxs, hlen]
  have hg := sortRat_getElem xs k (by rw [hxl]; exact hk)
  have hs := sortRat_cast_perm_range σ n hσ
  have : ((k : ℕ) : ℚ) = ((σ[(argsortNat σ)[k]] : ℕ) : ℚ) := by
    have e1 : (sortRat xs)[k]'(by rw [sortRat_length, hxl]; exact hk) = (k : ℚ) := by
      simp [hxs, hs]
    rw [← e1, hg]
    simp [hxs, argsortNat]
  exact (Nat.cast_injective this).symm

/-- 2. the repaired scatter returns, in position `k`, the value computed for `ts[k]`
(any order, any duplicates). -/
theorem scatter_argsort' {α} [Inhabited α] (ts : List ℚ) (f : ℚ → α) (vals : List α)
    (hlen : vals.length = ts.length)
    (hvals : ∀ (i : ℕ) (hi : i < ts.length),
      vals[i] = f ((sortRat ts)[i]'(by rw [sortRat_length]; exact hi))) :
    scatterBack ts vals = ts.map f := by
  apply List.ext_getElem
  · simp [scatterBack, argsortNat_length]
  · intro k hk1 hk2
    have hk : k < ts.length := by simpa using hk2
    obtain ⟨h1, h2, hinv⟩ := argsortNat_inverse (argsort ts) ts.length (argsort_perm ts) k hk
    have h2' : (argsortNat (argsort ts))[k] < ts.length := by simpa using h2
    simp only [scatterBack, List.getElem_map]
    rw [getD_eq_getElem' _ _ (by rw [hlen]; exact h2'), hvals _ h2', sortRat_getElem ts _ h2']
    congr 1
    exact getElem_congr_idx hinv

theorem scatter_argsort {α} [Inhabited α] (ts : List ℚ) (f : ℚ → α) :
    scatterBack ts ((sortRat ts).map f) = ts.map f :=
  scatter_argsort' ts f _ (by simp) (by intro i hi; simp)

/-- 3. the pinned gather is wrong for a 3-cycle. -/
theorem gatherPinned_counterexample :
    gatherPinned [2, 1/2, 1] ((sortRat [2, 1/2, 1]).map fun t => t) ≠ [2, 1/2, 1].map fun t => t := by
  decide +kernel

/-- … the repaired scatter on the same input. -/
example : scatterBack [2, 1/2, 1] ((sortRat [2, 1/2, 1]).map fun t => t) = [2, 1/2, 1] := by
  decide +kernel

/-- the pinned gather is right when the sorting permutation is an involution
(in particular for sorted input, or two times). -/
theorem gatherPinned_of_involutive {α} [Inhabited α] (ts : List ℚ) (f : ℚ → α)
    (hinv : ∀ (i : ℕ) (hi : i < ts.length),
      (argsort ts)[(argsort ts)[i]'(by rw [argsort_length]; exact hi)]'(lt_of_lt_of_eq
        (argsort_lt ts i _) (argsort_length ts).symm) = i) :
    gatherPinned ts ((sortRat ts).map f) = ts.map f := by
  apply List.ext_getElem
  · simp [gatherPinned]
  · intro k hk1 hk2
    have hk : k < ts.length := by simpa using hk2
    have h2 : (argsort ts)[k]'(by rw [argsort_length]; exact hk) < ts.length := argsort_lt ts k _
    simp only [gatherPinned, List.getElem_map]
    rw [getD_eq_getElem' _ _ (by simpa using h2), List.getElem_map, sortRat_getElem ts _ h2]
    congr 1
    exact getElem_congr_idx (hinv k hk)


/-! ## Part 2 — the running product equals direct evaluation -/

/-- well-formed epoch list tiling `[t0, ∞)`: the first epoch starts at `t0`, a finite stop `s`
satisfies `start < s` and the next epoch starts at `s`; exactly the last epoch has `stop = none`. -/
def WF : List EpochT → ℚ → Prop
  | [], _ => False
  | e :: rest, t0 => e.start = t0 ∧
      match e.stop with
      | none => rest = []
      | some s => t0 < s ∧ WF rest s

/-- `WF` is satisfiable: three epochs `[0,1)`, `[1,3)`, `[3,∞)`. -/
example : WF [⟨0, some 1⟩, ⟨1, some 3⟩, ⟨3, none⟩] 0 := by
  refine ⟨rfl, by norm_num, rfl, by norm_num, rfl, rfl⟩

/-- the boundary case of item 4: stopping exactly at `u = 1 = stop` does not switch epochs; the
next call first emits the zero-duration factor `(0, 0)`. -/
example : (advance [⟨0, some 1⟩, ⟨1, none⟩] 0 0 1).2 = (0, [(0, 1)]) ∧
    (advance [⟨0, some 1⟩, ⟨1, none⟩] 0 1 2).2 = (1, [(0, 0), (1, 1)]) ∧
    (advance [⟨0, some 1⟩, ⟨1, none⟩] 0 0 2).2 = (1, [(0, 1), (1, 1)]) := by
  decide +kernel

/-- abstract semantics of a factor `(e, τ)` ("`exp(τ · V_e)`") in a monoid. -/
structure FactorSem (M : Type) [Monoid M] where
  F : ℕ → ℚ → M
  zero : ∀ e, F e 0 = 1
  add : ∀ e s t, F e (s + t) = F e s * F e t

variable {M : Type} [Monoid M]

def evalF (sem : FactorSem M) (fs : List Factor) : M := (fs.map fun f => sem.F f.1 f.2).prod

@[simp] theorem evalF_nil (sem : FactorSem M) : evalF sem [] = 1 := by simp [evalF]

@[simp] theorem evalF_cons (sem : FactorSem M) (f : Factor) (fs : List Factor) :
    evalF sem (f :: fs) = sem.F f.1 f.2 * evalF sem fs := by simp [evalF]

@[simp] theorem evalF_append (sem : FactorSem M) (fs gs : List Factor) :
    evalF sem (fs ++ gs) = evalF sem fs * evalF sem gs := by simp [evalF]

/-! ### equations of `advance` -/

theorem advance_none {e : EpochT} (h : e.stop = none) (rest : List EpochT) (idx : ℕ) (uPrev u : ℚ) :
    advance (e :: rest) idx uPrev u = (e :: rest, idx, [(idx, u - uPrev)]) := by
  rw [advance]; simp [h]

theorem advance_some_le {e : EpochT} {en : ℚ} (h : e.stop = some en) (rest : List EpochT) (idx : ℕ)
    (uPrev : ℚ) {u : ℚ} (hu : u ≤ en) :
    advance (e :: rest) idx uPrev u = (e :: rest, idx, [(idx, u - uPrev)]) := by
  rw [advance]; simp [h, not_lt.2 hu]

theorem advance_some_gt {e : EpochT} {en : ℚ} (h : e.stop = some en) (rest : List EpochT) (idx : ℕ)
    (uPrev : ℚ) {u : ℚ} (hu : en < u) :
    advance (e :: rest) idx uPrev u =
      ((advance rest (idx + 1) en u).1, (advance rest (idx + 1) en u).2.1,
        (idx, en - uPrev) :: (advance rest (idx + 1) en u).2.2) := by
  rw [advance]; simp [h, hu]

/-- 4. advancing `uPrev → u → u'` is the same as advancing `uPrev → u'`: same final cursor,
and the concatenated factors evaluate to the same monoid element.  (When `u` is exactly an epoch
boundary the second call first emits a zero-duration factor for the old epoch.)
Only `u ≤ u'` is needed because `FactorSem.add` holds for all durations. -/
theorem advance_compose (sem : FactorSem M) :
    ∀ (eps : List EpochT) (idx : ℕ) (uPrev u u' : ℚ), u ≤ u' →
      (advance (advance eps idx uPrev u).1 (advance eps idx uPrev u).2.1 u u').1
          = (advance eps idx uPrev u').1 ∧
      (advance (advance eps idx uPrev u).1 (advance eps idx uPrev u).2.1 u u').2.1
          = (advance eps idx uPrev u').2.1 ∧
      evalF sem ((advance eps idx uPrev u).2.2 ++
          (advance (advance eps idx uPrev u).1 (advance eps idx uPrev u).2.1 u u').2.2)
          = evalF sem (advance eps idx uPrev u').2.2
  | [], idx, uPrev, u, u', _ => by simp [advance]
  | e :: rest, idx, uPrev, u, u', huu => by
    have key : ∀ a b c : ℚ, sem.F idx (b - a) * sem.F idx (c - b) = sem.F idx (c - a) := by
      intro a b c; rw [← sem.add]; congr 1; ring
    cases hstop : e.stop with
    | none =>
      simp only [advance_none hstop, evalF_append, evalF_cons, evalF_nil, mul_one, key, true_and]
    | some en =>
      by_cases h1 : en < u
      · have h2 : en < u' := lt_of_lt_of_le h1 huu
        obtain ⟨ih1, ih2, ih3⟩ := advance_compose sem rest (idx + 1) en u u' huu
        rw [advance_some_gt hstop rest idx uPrev h1, advance_some_gt hstop rest idx uPrev h2]
        refine ⟨ih1, ih2, ?_⟩
        simp only [List.cons_append, evalF_cons, ih3]
      · have h1' : u ≤ en := not_lt.1 h1
        rw [advance_some_le hstop rest idx uPrev h1']
        by_cases h2 : en < u'
        · rw [advance_some_gt hstop rest idx u h2, advance_some_gt hstop rest idx uPrev h2]
          simp only [List.cons_append, List.nil_append, evalF_cons, ← mul_assoc, key, true_and]
        · have h2' : u' ≤ en := not_lt.1 h2
          rw [advance_some_le hstop rest idx u h2', advance_some_le hstop rest idx uPrev h2']
          simp only [evalF_append, evalF_cons, evalF_nil, mul_one, key, true_and]


/-! ### the sweep -/

/-- running concatenations: what `cumFactors` computes, as a structural recursion. -/
def prefixesFrom (acc : List Factor) : List (List Factor) → List (List Factor)
  | [] => []
  | fs :: r => (acc ++ fs) :: prefixesFrom (acc ++ fs) r

theorem cumFactors_foldl (news : List (List Factor)) :
    ∀ (acc : List Factor) (out : List (List Factor)),
      (news.foldl (fun (a : List Factor × List (List Factor)) fs =>
        (a.1 ++ fs, a.2 ++ [a.1 ++ fs])) (acc, out)).2 = out ++ prefixesFrom acc news := by
  induction news with
  | nil => intro acc out; simp [prefixesFrom]
  | cons fs r ih => intro acc out; simp [List.foldl_cons, ih, prefixesFrom]

theorem cumFactors_eq (news : List (List Factor)) : cumFactors news = prefixesFrom [] news := by
  simp [cumFactors, cumFactors_foldl]

@[simp] theorem prefixesFrom_length (news : List (List Factor)) :
    ∀ acc, (prefixesFrom acc news).length = news.length := by
  induction news with
  | nil => intro acc; rfl
  | cons fs r ih => intro acc; simp [prefixesFrom, ih]

@[simp] theorem newFactors_length (us : List ℚ) :
    ∀ eps idx uPrev, (newFactors eps idx uPrev us).length = us.length := by
  induction us with
  | nil => intro eps idx uPrev; simp [newFactors]
  | cons u us ih => intro eps idx uPrev; simp [newFactors, ih]

/-- 5a. one product per query time. -/
@[simp] theorem codeFactors_length (eps : List EpochT) (us : List ℚ) :
    (codeFactors eps us).length = us.length := by
  simp [codeFactors, cumFactors_eq]

theorem prefixesFrom_getElem_take (news : List (List Factor)) :
    ∀ (acc : List Factor) (i : ℕ) (hi : i < (prefixesFrom acc news).length),
      (prefixesFrom acc news)[i] = acc ++ (news.take (i + 1)).flatten := by
  induction news with
  | nil => intro acc i hi; simp [prefixesFrom] at hi
  | cons fs r ih =>
    intro acc i hi
    cases i with
    | zero => simp [prefixesFrom]
    | succ i =>
      simp only [prefixesFrom, List.getElem_cons_succ]
      rw [ih]; simp

/-- the sweep invariant: if the prefix `acc` followed by a direct advance from the cursor
`(eps', idx', uPrev)` evaluates to `G u'` for every `u'` above some remaining time, then every
recorded product evaluates to `G` of its time. -/
theorem sweep_eval (sem : FactorSem M) (G : ℚ → M) :
    ∀ (us : List ℚ) (eps' : List EpochT) (idx' : ℕ) (uPrev : ℚ) (acc : List Factor),
      us.Pairwise (· ≤ ·) →
      (∀ x ∈ us, ∀ u', x ≤ u' → evalF sem (acc ++ (advance eps' idx' uPrev u').2.2) = G u') →
      ∀ (i : ℕ) (hi : i < us.length),
        evalF sem ((prefixesFrom acc (newFactors eps' idx' uPrev us))[i]'(by simpa using hi))
          = G us[i]
  | [], _, _, _, _, _, _, i, hi => by simp at hi
  | u :: us, eps', idx', uPrev, acc, hs, hinv, i, hi => by
    cases i with
    | zero =>
      simp only [newFactors, prefixesFrom, List.getElem_cons_zero]
      exact hinv u List.mem_cons_self u le_rfl
    | succ i =>
      simp only [newFactors, prefixesFrom, List.getElem_cons_succ]
      refine sweep_eval sem G us _ _ u _ (List.pairwise_cons.1 hs).2 ?_ i (by simpa using hi)
      intro x hx u' hxu
      have hux : u ≤ x := List.rel_of_pairwise_cons hs hx
      have huu : u ≤ u' := hux.trans hxu
      obtain ⟨_, _, h3⟩ := advance_compose sem eps' idx' uPrev u u' huu
      rw [List.append_assoc, evalF_append, h3, ← evalF_append]
      exact hinv u List.mem_cons_self u' huu

/-- 5. every running product of the sweep evaluates to the direct evaluation at its time.
(Holds for any epoch list and any sorted times; `WF` / non-negativity are not needed.) -/
theorem codeFactors_eq_spec (sem : FactorSem M) (eps : List EpochT) (us : List ℚ)
    (hs : us.Pairwise (· ≤ ·)) (i : ℕ) (hi : i < us.length) :
    evalF sem ((codeFactors eps us)[i]'(by rw [codeFactors_length]; exact hi))
      = evalF sem (specFactors eps us[i]) := by
  have h := sweep_eval sem (fun t => evalF sem (specFactors eps t)) us eps 0 0 [] hs
    (by intro x _ u' _; simp [specFactors]) i hi
  simpa [codeFactors, cumFactors_eq] using h

/-- 6. the vectorised routine returns, for each supplied time (any order, duplicates allowed),
the direct evaluation at that time. -/
theorem codeVectorised_pointwise {α} [Inhabited α] (sem : FactorSem M) (h : M → α)
    (ev : List Factor → α) (hev : ∀ fs, ev fs = h (evalF sem fs))
    (eps : List EpochT) (ts : List ℚ) :
    codeVectorised ev eps ts = ts.map fun t => ev (specFactors eps t) := by
  unfold codeVectorised
  refine scatter_argsort' ts (fun t => ev (specFactors eps t)) _ (by simp) ?_
  · intro i hi
    have hi' : i < (sortRat ts).length := by rw [sortRat_length]; exact hi
    rw [List.getElem_map, hev, hev, codeFactors_eq_spec sem eps (sortRat ts) (sortRat_sorted ts) i hi']


/-! ### 7. the durations of a direct evaluation -/

/-- `min(stop, t)` with `stop = none` read as `∞`. -/
def capStop (e : EpochT) (t : ℚ) : ℚ :=
  match e.stop with
  | none => t
  | some s => min s t

theorem WF_start_ge : ∀ (eps : List EpochT) (s : ℚ), WF eps s → ∀ e ∈ eps, s ≤ e.start
  | [], _, h, _, _ => h.elim
  | e :: rest, s, h, x, hx => by
    obtain ⟨h1, h2⟩ := h
    rcases List.mem_cons.1 hx with rfl | hx
    · exact le_of_eq h1.symm
    · cases hstop : e.stop with
      | none => rw [hstop] at h2; simp only at h2; subst h2; simp at hx
      | some en =>
        rw [hstop] at h2
        exact le_trans (le_of_lt h2.1) (WF_start_ge rest en h2.2 x hx)

/-- at or before the start of the head epoch nothing moves: one factor for the head epoch. -/
theorem advance_of_le : ∀ (eps : List EpochT) (idx : ℕ) (s0 uPrev t : ℚ), WF eps s0 → t ≤ s0 →
    advance eps idx uPrev t = (eps, idx, [(idx, t - uPrev)])
  | [], _, _, _, _, h, _ => h.elim
  | e :: rest, idx, s0, uPrev, t, h, ht => by
    cases hstop : e.stop with
    | none => exact advance_none hstop ..
    | some en =>
      have h2 := h.2
      rw [hstop] at h2
      exact advance_some_le hstop _ _ _ (le_trans ht (le_of_lt h2.1))

theorem specFactors_zero (eps : List EpochT) (h : WF eps 0) : specFactors eps 0 = [(0, 0)] := by
  simp [specFactors, advance_of_le eps 0 0 0 0 h le_rfl]

/-- explicit form of a direct advance from the start of the head epoch. -/
theorem advance_durations : ∀ (eps : List EpochT) (idx : ℕ) (s0 t : ℚ), WF eps s0 → s0 < t →
    (advance eps idx s0 t).2.2 =
      ((eps.zipIdx idx).filter fun p => decide (p.1.start < t)).map
        fun p => (p.2, capStop p.1 t - p.1.start)
  | [], _, _, _, h, _ => h.elim
  | e :: rest, idx, s0, t, h, ht => by
    obtain ⟨h1, h2⟩ := h
    have hpass : decide (e.start < t) = true := by simpa [h1] using ht
    cases hstop : e.stop with
    | none =>
      rw [hstop] at h2; simp only at h2; subst h2
      rw [advance_none hstop]
      simp only [List.zipIdx_cons, List.zipIdx_nil, List.filter_cons, hpass, if_true,
        List.filter_nil, List.map_cons, List.map_nil]
      simp [capStop, hstop, h1]
    | some en =>
      rw [hstop] at h2
      obtain ⟨h2, h3⟩ := h2
      by_cases hu : en < t
      · rw [advance_some_gt hstop _ _ _ hu]
        simp only [List.zipIdx_cons, List.filter_cons, hpass, if_true, List.map_cons]
        rw [advance_durations rest (idx + 1) en t h3 hu]
        simp [capStop, hstop, h1, min_eq_left (le_of_lt hu)]
      · have hu' : t ≤ en := not_lt.1 hu
        rw [advance_some_le hstop _ _ _ hu']
        have hnone : ((rest.zipIdx (idx + 1)).filter fun p => decide (p.1.start < t)) = [] := by
          rw [List.filter_eq_nil_iff]
          intro p hp
          have := WF_start_ge rest en h3 p.1 (List.fst_mem_of_mem_zipIdx hp)
          simpa using le_trans hu' this
        simp only [List.zipIdx_cons, List.filter_cons, hpass, if_true, List.map_cons, hnone,
          List.map_nil]
        simp [capStop, hstop, h1, min_eq_right hu']

/-- 7a. for `t > 0` the factors are `(i, min(stop_i, t) - start_i)` for exactly the epochs with
`start_i < t`, in order (for `t = 0` see `specFactors_zero`). -/
theorem specFactors_durations (eps : List EpochT) (t : ℚ) (h : WF eps 0) (ht : 0 < t) :
    specFactors eps t =
      (eps.zipIdx.filter fun p => decide (p.1.start < t)).map
        fun p => (p.2, capStop p.1 t - p.1.start) :=
  advance_durations eps 0 0 t h ht

theorem advance_nonneg_sum : ∀ (eps : List EpochT) (idx : ℕ) (s0 t : ℚ), WF eps s0 → s0 ≤ t →
    (∀ f ∈ (advance eps idx s0 t).2.2, 0 ≤ f.2) ∧
      ((advance eps idx s0 t).2.2.map (·.2)).sum = t - s0
  | [], _, _, _, h, _ => h.elim
  | e :: rest, idx, s0, t, h, ht => by
    obtain ⟨h1, h2⟩ := h
    cases hstop : e.stop with
    | none =>
      rw [advance_none hstop]
      simpa using ht
    | some en =>
      rw [hstop] at h2
      obtain ⟨h2, h3⟩ := h2
      by_cases hu : en < t
      · rw [advance_some_gt hstop _ _ _ hu]
        obtain ⟨ih1, ih2⟩ := advance_nonneg_sum rest (idx + 1) en t h3 (le_of_lt hu)
        refine ⟨?_, ?_⟩
        · intro f hf
          rcases List.mem_cons.1 hf with rfl | hf
          · simpa using le_of_lt h2
          · exact ih1 f hf
        · simp only [List.map_cons, List.sum_cons, ih2]; ring
      · rw [advance_some_le hstop _ _ _ (not_lt.1 hu)]
        simpa using ht

/-- 7b. all durations are non-negative and they add up to `t`. -/
theorem specFactors_nonneg_sum (eps : List EpochT) (t : ℚ) (h : WF eps 0) (ht : 0 ≤ t) :
    (∀ f ∈ specFactors eps t, 0 ≤ f.2) ∧ ((specFactors eps t).map (·.2)).sum = t := by
  simpa [specFactors] using advance_nonneg_sum eps 0 0 t h ht


/-! ### Part 2 again, for a semigroup semantics (law only for non-negative durations)

With `FactorSem.add` available for all durations, items 4–6 need no well-formedness at all.
Here the same results are proved from the weaker law `F e (s + t) = F e s * F e t` for
`0 ≤ s`, `0 ≤ t` only; now the cursor must be valid (`Pos`) and the times ordered. -/

structure FactorSemNN (M : Type) [Monoid M] where
  F : ℕ → ℚ → M
  zero : ∀ e, F e 0 = 1
  add : ∀ e s t, 0 ≤ s → 0 ≤ t → F e (s + t) = F e s * F e t

def FactorSem.toNN (sem : FactorSem M) : FactorSemNN M :=
  { F := sem.F, zero := sem.zero, add := fun e s t _ _ => sem.add e s t }

def evalNN (sem : FactorSemNN M) (fs : List Factor) : M := (fs.map fun f => sem.F f.1 f.2).prod

@[simp] theorem evalNN_nil (sem : FactorSemNN M) : evalNN sem [] = 1 := by simp [evalNN]

@[simp] theorem evalNN_cons (sem : FactorSemNN M) (f : Factor) (fs : List Factor) :
    evalNN sem (f :: fs) = sem.F f.1 f.2 * evalNN sem fs := by simp [evalNN]

@[simp] theorem evalNN_append (sem : FactorSemNN M) (fs gs : List Factor) :
    evalNN sem (fs ++ gs) = evalNN sem fs * evalNN sem gs := by simp [evalNN]

theorem evalNN_toNN (sem : FactorSem M) (fs : List Factor) : evalNN sem.toNN fs = evalF sem fs := rfl

/-- a valid cursor: the current time `u` does not exceed the stop of the head epoch, and the
remaining epochs tile `[stop, ∞)`. -/
def Pos : List EpochT → ℚ → Prop
  | [], _ => False
  | e :: rest, u =>
      match e.stop with
      | none => rest = []
      | some s => u ≤ s ∧ WF rest s

theorem Pos_cons_none {e : EpochT} (h : e.stop = none) (rest : List EpochT) (u : ℚ) :
    Pos (e :: rest) u ↔ rest = [] := by
  show (match e.stop with | none => rest = [] | some s => u ≤ s ∧ WF rest s) ↔ _
  rw [h]

theorem Pos_cons_some {e : EpochT} {en : ℚ} (h : e.stop = some en) (rest : List EpochT) (u : ℚ) :
    Pos (e :: rest) u ↔ u ≤ en ∧ WF rest en := by
  show (match e.stop with | none => rest = [] | some s => u ≤ s ∧ WF rest s) ↔ _
  rw [h]

/-- the hypotheses of item 4 as stated (epochs well-formed from the head's start, current time
within the closed head epoch) give a valid cursor. -/
theorem Pos_of_WF {e : EpochT} {rest : List EpochT} {u : ℚ} (h : WF (e :: rest) e.start)
    (hu : ∀ s, e.stop = some s → u ≤ s) : Pos (e :: rest) u := by
  obtain ⟨_, h2⟩ := h
  cases hstop : e.stop with
  | none => rw [hstop] at h2; exact (Pos_cons_none hstop _ _).2 h2
  | some en => rw [hstop] at h2; exact (Pos_cons_some hstop _ _).2 ⟨hu en hstop, h2.2⟩

theorem Pos_of_WF_start : ∀ (eps : List EpochT) (s : ℚ), WF eps s → Pos eps s
  | [], _, h => h.elim
  | e :: rest, s, h => by
    obtain ⟨_, h2⟩ := h
    cases hstop : e.stop with
    | none => rw [hstop] at h2; exact (Pos_cons_none hstop _ _).2 h2
    | some en => rw [hstop] at h2; exact (Pos_cons_some hstop _ _).2 ⟨le_of_lt h2.1, h2.2⟩

/-- the cursor returned by `advance` is valid for the new time. -/
theorem advance_pos : ∀ (eps : List EpochT) (idx : ℕ) (uPrev u : ℚ), Pos eps uPrev →
    Pos (advance eps idx uPrev u).1 u
  | [], _, _, _, h => h.elim
  | e :: rest, idx, uPrev, u, h => by
    cases hstop : e.stop with
    | none =>
      rw [Pos_cons_none hstop] at h
      rw [advance_none hstop]
      exact (Pos_cons_none hstop _ _).2 h
    | some en =>
      rw [Pos_cons_some hstop] at h
      by_cases h1 : en < u
      · rw [advance_some_gt hstop _ _ _ h1]
        exact advance_pos rest (idx + 1) en u (Pos_of_WF_start rest en h.2)
      · rw [advance_some_le hstop _ _ _ (not_lt.1 h1)]
        exact (Pos_cons_some hstop _ _).2 ⟨not_lt.1 h1, h.2⟩

/-- 4 (semigroup form). -/
theorem advance_compose_nn (sem : FactorSemNN M) :
    ∀ (eps : List EpochT) (idx : ℕ) (uPrev u u' : ℚ), Pos eps uPrev → uPrev ≤ u → u ≤ u' →
      (advance (advance eps idx uPrev u).1 (advance eps idx uPrev u).2.1 u u').1
          = (advance eps idx uPrev u').1 ∧
      (advance (advance eps idx uPrev u).1 (advance eps idx uPrev u).2.1 u u').2.1
          = (advance eps idx uPrev u').2.1 ∧
      evalNN sem ((advance eps idx uPrev u).2.2 ++
          (advance (advance eps idx uPrev u).1 (advance eps idx uPrev u).2.1 u u').2.2)
          = evalNN sem (advance eps idx uPrev u').2.2
  | [], _, _, _, _, h, _, _ => h.elim
  | e :: rest, idx, uPrev, u, u', hpos, hpu, huu => by
    have key : ∀ a b c : ℚ, a ≤ b → b ≤ c →
        sem.F idx (b - a) * sem.F idx (c - b) = sem.F idx (c - a) := by
      intro a b c hab hbc
      rw [← sem.add _ _ _ (by linarith) (by linarith)]; congr 1; ring
    cases hstop : e.stop with
    | none =>
      simp only [advance_none hstop, evalNN_append, evalNN_cons, evalNN_nil, mul_one,
        key _ _ _ hpu huu, true_and]
    | some en =>
      rw [Pos_cons_some hstop] at hpos
      obtain ⟨_, hwf⟩ := hpos
      by_cases h1 : en < u
      · have h2 : en < u' := lt_of_lt_of_le h1 huu
        obtain ⟨ih1, ih2, ih3⟩ := advance_compose_nn sem rest (idx + 1) en u u'
          (Pos_of_WF_start rest en hwf) (le_of_lt h1) huu
        rw [advance_some_gt hstop rest idx uPrev h1, advance_some_gt hstop rest idx uPrev h2]
        refine ⟨ih1, ih2, ?_⟩
        simp only [List.cons_append, evalNN_cons, ih3]
      · have h1' : u ≤ en := not_lt.1 h1
        rw [advance_some_le hstop rest idx uPrev h1']
        by_cases h2 : en < u'
        · rw [advance_some_gt hstop rest idx u h2, advance_some_gt hstop rest idx uPrev h2]
          simp only [List.cons_append, List.nil_append, evalNN_cons, ← mul_assoc,
            key _ _ _ hpu h1', true_and]
        · have h2' : u' ≤ en := not_lt.1 h2
          rw [advance_some_le hstop rest idx u h2', advance_some_le hstop rest idx uPrev h2']
          simp only [evalNN_append, evalNN_cons, evalNN_nil, mul_one, key _ _ _ hpu huu, true_and]

theorem sweep_eval_nn (sem : FactorSemNN M) (G : ℚ → M) :
    ∀ (us : List ℚ) (eps' : List EpochT) (idx' : ℕ) (uPrev : ℚ) (acc : List Factor),
      Pos eps' uPrev → us.Pairwise (· ≤ ·) → (∀ x ∈ us, uPrev ≤ x) →
      (∀ u', uPrev ≤ u' → evalNN sem (acc ++ (advance eps' idx' uPrev u').2.2) = G u') →
      ∀ (i : ℕ) (hi : i < us.length),
        evalNN sem ((prefixesFrom acc (newFactors eps' idx' uPrev us))[i]'(by simpa using hi))
          = G us[i]
  | [], _, _, _, _, _, _, _, _, i, hi => by simp at hi
  | u :: us, eps', idx', uPrev, acc, hpos, hs, hlo, hinv, i, hi => by
    have hpu : uPrev ≤ u := hlo u List.mem_cons_self
    cases i with
    | zero =>
      simp only [newFactors, prefixesFrom, List.getElem_cons_zero]
      exact hinv u hpu
    | succ i =>
      simp only [newFactors, prefixesFrom, List.getElem_cons_succ]
      refine sweep_eval_nn sem G us _ _ u _ (advance_pos eps' idx' uPrev u hpos)
        (List.pairwise_cons.1 hs).2 (fun x hx => List.rel_of_pairwise_cons hs hx) ?_ i
        (by simpa using hi)
      intro u' huu
      obtain ⟨_, _, h3⟩ := advance_compose_nn sem eps' idx' uPrev u u' hpos hpu huu
      rw [List.append_assoc, evalNN_append, h3, ← evalNN_append]
      exact hinv u' (hpu.trans huu)

/-- 5 (semigroup form): `WF eps 0`, sorted non-negative times. -/
theorem codeFactors_eq_spec_nn (sem : FactorSemNN M) (eps : List EpochT) (hwf : WF eps 0)
    (us : List ℚ) (hs : us.Pairwise (· ≤ ·)) (hnn : ∀ x ∈ us, 0 ≤ x) (i : ℕ) (hi : i < us.length) :
    evalNN sem ((codeFactors eps us)[i]'(by rw [codeFactors_length]; exact hi))
      = evalNN sem (specFactors eps us[i]) := by
  have h := sweep_eval_nn sem (fun t => evalNN sem (specFactors eps t)) us eps 0 0 []
    (Pos_of_WF_start eps 0 hwf) hs hnn (by intro u' _; simp [specFactors]) i hi
  simpa [codeFactors, cumFactors_eq] using h

/-- 6 (semigroup form). -/
theorem codeVectorised_pointwise_nn {α} [Inhabited α] (sem : FactorSemNN M) (h : M → α)
    (ev : List Factor → α) (hev : ∀ fs, ev fs = h (evalNN sem fs))
    (eps : List EpochT) (hwf : WF eps 0) (ts : List ℚ) (hnn : ∀ t ∈ ts, 0 ≤ t) :
    codeVectorised ev eps ts = ts.map fun t => ev (specFactors eps t) := by
  unfold codeVectorised
  refine scatter_argsort' ts (fun t => ev (specFactors eps t)) _ (by simp) ?_
  · intro i hi
    have hi' : i < (sortRat ts).length := by rw [sortRat_length]; exact hi
    rw [List.getElem_map, hev, hev, codeFactors_eq_spec_nn sem eps hwf (sortRat ts)
      (sortRat_sorted ts) (fun x hx => hnn x ((sortRat_perm ts).subset hx)) i hi']

/-! ## Part 3 — the search loops -/

/-- the expansion loop multiplies by `expansion` exactly `used ≤ fuel` times, every earlier
bracket was too small, and if it stopped with fuel left the bracket reaches the quantile. -/
theorem expandLoop_spec (F : ℚ → ℚ) (q expansion : ℚ) :
    ∀ (fuel : ℕ) (b : ℚ),
      (expandLoop F q expansion fuel b).2 ≤ fuel ∧
      (expandLoop F q expansion fuel b).1 = b * expansion ^ (expandLoop F q expansion fuel b).2 ∧
      ((expandLoop F q expansion fuel b).2 < fuel → q ≤ F (expandLoop F q expansion fuel b).1) ∧
      (∀ k < (expandLoop F q expansion fuel b).2, F (b * expansion ^ k) < q)
  | 0, b => by simp [expandLoop]
  | fuel + 1, b => by
    by_cases h : F b < q
    · obtain ⟨i1, i2, i3, i4⟩ := expandLoop_spec F q expansion fuel (b * expansion)
      have e : expandLoop F q expansion (fuel + 1) b =
          ((expandLoop F q expansion fuel (b * expansion)).1,
            (expandLoop F q expansion fuel (b * expansion)).2 + 1) := by
        rw [expandLoop]; simp [h]
      rw [e]
      refine ⟨Nat.succ_le_succ i1, ?_, ?_, ?_⟩
      · simp only; rw [i2]; ring
      · intro hlt; exact i3 (Nat.lt_of_succ_lt_succ hlt)
      · intro k hk
        cases k with
        | zero => simpa using h
        | succ k =>
          have := i4 k (Nat.lt_of_succ_lt_succ hk)
          rwa [mul_assoc, ← pow_succ'] at this
    · have e : expandLoop F q expansion (fuel + 1) b = (b, 0) := by
        rw [expandLoop]; simp [h]
      rw [e]
      simpa using h

/-- invariant of the bisection: `a ≤ b`, `F a ≤ q ≤ F b`, the bracket only shrinks. -/
theorem bisectLoop_inv (F : ℚ → ℚ) (q precision : ℚ) :
    ∀ (fuel : ℕ) (a b : ℚ), a ≤ b → F a ≤ q → q ≤ F b →
      (bisectLoop F q precision fuel a b).1 ≤ (bisectLoop F q precision fuel a b).2 ∧
      F (bisectLoop F q precision fuel a b).1 ≤ q ∧
      q ≤ F (bisectLoop F q precision fuel a b).2 ∧
      a ≤ (bisectLoop F q precision fuel a b).1 ∧
      (bisectLoop F q precision fuel a b).2 ≤ b
  | 0, a, b, hab, ha, hb => by simp [bisectLoop, hab, ha, hb]
  | fuel + 1, a, b, hab, ha, hb => by
    have ham : a ≤ (a + b) / 2 := by linarith
    have hmb : (a + b) / 2 ≤ b := by linarith
    by_cases h : F b - F a > precision
    · by_cases hm : F ((a + b) / 2) < q
      · have e : bisectLoop F q precision (fuel + 1) a b =
            bisectLoop F q precision fuel ((a + b) / 2) b := by
          rw [bisectLoop]; simp [h, hm]
        rw [e]
        obtain ⟨i1, i2, i3, i4, i5⟩ :=
          bisectLoop_inv F q precision fuel ((a + b) / 2) b hmb (le_of_lt hm) hb
        exact ⟨i1, i2, i3, le_trans ham i4, i5⟩
      · have e : bisectLoop F q precision (fuel + 1) a b =
            bisectLoop F q precision fuel a ((a + b) / 2) := by
          rw [bisectLoop]; simp [h, hm]
        rw [e]
        obtain ⟨i1, i2, i3, i4, i5⟩ :=
          bisectLoop_inv F q precision fuel a ((a + b) / 2) ham ha (not_lt.1 hm)
        exact ⟨i1, i2, i3, i4, le_trans i5 hmb⟩
    · have e : bisectLoop F q precision (fuel + 1) a b = (a, b) := by
        rw [bisectLoop]; simp [h]
      rw [e]
      exact ⟨hab, ha, hb, le_rfl, le_rfl⟩

/-- the bisection stops either on its precision test or after halving the bracket `fuel` times. -/
theorem bisectLoop_stop (F : ℚ → ℚ) (q precision : ℚ) :
    ∀ (fuel : ℕ) (a b : ℚ),
      F (bisectLoop F q precision fuel a b).2 - F (bisectLoop F q precision fuel a b).1 ≤ precision ∨
      (bisectLoop F q precision fuel a b).2 - (bisectLoop F q precision fuel a b).1
        = (b - a) / 2 ^ fuel
  | 0, a, b => by simp [bisectLoop]
  | fuel + 1, a, b => by
    by_cases h : F b - F a > precision
    · by_cases hm : F ((a + b) / 2) < q
      · have e : bisectLoop F q precision (fuel + 1) a b =
            bisectLoop F q precision fuel ((a + b) / 2) b := by
          rw [bisectLoop]; simp [h, hm]
        rw [e]
        rcases bisectLoop_stop F q precision fuel ((a + b) / 2) b with i | i
        · exact Or.inl i
        · refine Or.inr (i.trans ?_)
          have e2 : b - (a + b) / 2 = (b - a) / 2 := by ring
          rw [pow_succ, e2, div_div, mul_comm]
      · have e : bisectLoop F q precision (fuel + 1) a b =
            bisectLoop F q precision fuel a ((a + b) / 2) := by
          rw [bisectLoop]; simp [h, hm]
        rw [e]
        rcases bisectLoop_stop F q precision fuel a ((a + b) / 2) with i | i
        · exact Or.inl i
        · refine Or.inr (i.trans ?_)
          have e2 : (a + b) / 2 - a = (b - a) / 2 := by ring
          rw [pow_succ, e2, div_div, mul_comm]
    · have e : bisectLoop F q precision (fuel + 1) a b = (a, b) := by
        rw [bisectLoop]; simp [h]
      rw [e]
      exact Or.inl (not_lt.1 h)

theorem quantileLoop_eq (F : ℚ → ℚ) (q expansion precision : ℚ) (maxIter : ℕ) :
    quantileLoop F q expansion precision maxIter =
      ((bisectLoop F q precision (maxIter - (expandLoop F q expansion maxIter 1).2) 0
          (expandLoop F q expansion maxIter 1).1).1 +
       (bisectLoop F q precision (maxIter - (expandLoop F q expansion maxIter 1).2) 0
          (expandLoop F q expansion maxIter 1).1).2) / 2 := rfl

/-- 8. if the expansion reached the quantile and the bisection stopped on its precision test,
the returned midpoint `m` has `|F m - q| ≤ precision`. -/
theorem quantile_spec (F : ℚ → ℚ) (hmono : ∀ a b, a ≤ b → F a ≤ F b)
    (q expansion precision : ℚ) (maxIter : ℕ) (h0 : F 0 ≤ q) (hexp : 1 < expansion) :
    let r := expandLoop F q expansion maxIter 1
    let r2 := bisectLoop F q precision (maxIter - r.2) 0 r.1
    q ≤ F r.1 → F r2.2 - F r2.1 ≤ precision →
      quantileLoop F q expansion precision maxIter = (r2.1 + r2.2) / 2 ∧
      F r2.1 ≤ q ∧ q ≤ F r2.2 ∧ 0 ≤ r2.1 ∧ r2.1 ≤ r2.2 ∧ r2.2 ≤ r.1 ∧
      |F (quantileLoop F q expansion precision maxIter) - q| ≤ precision := by
  intro r r2 hreach hprec
  have hb0 : (0 : ℚ) ≤ r.1 := by
    have := (expandLoop_spec F q expansion maxIter 1).2.1
    show 0 ≤ (expandLoop F q expansion maxIter 1).1
    rw [this, one_mul]
    exact pow_nonneg (by linarith) _
  obtain ⟨i1, i2, i3, i4, i5⟩ :=
    bisectLoop_inv F q precision (maxIter - r.2) 0 r.1 hb0 h0 hreach
  have hq : quantileLoop F q expansion precision maxIter = (r2.1 + r2.2) / 2 :=
    quantileLoop_eq F q expansion precision maxIter
  refine ⟨hq, i2, i3, i4, i1, i5, ?_⟩
  rw [hq]
  have i1' : r2.1 ≤ r2.2 := i1
  have hm1 : F r2.1 ≤ F ((r2.1 + r2.2) / 2) := hmono _ _ (by linarith)
  have hm2 : F ((r2.1 + r2.2) / 2) ≤ F r2.2 := hmono _ _ (by linarith)
  have i2' : F r2.1 ≤ q := i2
  have i3' : q ≤ F r2.2 := i3
  rw [abs_le]
  constructor <;> linarith

/-- the doubling loop doubles exactly `j ≤ fuel` times, all earlier horizons were too short, and
it stops early only when the absorption probability is reached. -/
theorem doubleLoop_spec (F : ℚ → ℚ) (pAbs : ℚ) :
    ∀ (fuel : ℕ) (t : ℚ), ∃ j ≤ fuel, doubleLoop F pAbs fuel t = t * 2 ^ j ∧
      (j < fuel → pAbs ≤ F (t * 2 ^ j)) ∧ ∀ k < j, F (t * 2 ^ k) < pAbs
  | 0, t => ⟨0, le_rfl, by simp [doubleLoop]⟩
  | fuel + 1, t => by
    by_cases h : F t < pAbs
    · obtain ⟨j, hj, e, i1, i2⟩ := doubleLoop_spec F pAbs fuel (t * 2)
      refine ⟨j + 1, Nat.succ_le_succ hj, ?_, ?_, ?_⟩
      · rw [doubleLoop]; simp only [h, if_true]; rw [e]; ring
      · intro hlt
        have := i1 (Nat.lt_of_succ_lt_succ hlt)
        rwa [mul_assoc, ← pow_succ'] at this
      · intro k hk
        cases k with
        | zero => simpa using h
        | succ k =>
          have := i2 k (Nat.lt_of_succ_lt_succ hk)
          rwa [mul_assoc, ← pow_succ'] at this
    · refine ⟨0, Nat.zero_le _, ?_, ?_, ?_⟩
      · rw [doubleLoop]; simp [h]
      · intro _; simpa using h
      · intro k hk; exact absurd hk (Nat.not_lt_zero k)

/-- 9. the returned horizon is `t0 · 2^j` for the least `j ≤ maxIter` reaching `pAbs` (or
`j = maxIter`); the warning is raised iff `pAbs` is not reached, and then `j = maxIter`. -/
theorem absorption_spec (F : ℚ → ℚ) (t0 pAbs : ℚ) (maxIter : ℕ) (t : ℚ) (warn : Bool)
    (h : absorptionLoop F t0 pAbs maxIter = (t, warn)) :
    (warn = false ↔ pAbs ≤ F t) ∧
    ∃ j ≤ maxIter, t = t0 * 2 ^ j ∧ (∀ k < j, F (t0 * 2 ^ k) < pAbs) ∧
      (warn = true → j = maxIter) := by
  unfold absorptionLoop at h
  simp only [Prod.mk.injEq] at h
  obtain ⟨ht, hw⟩ := h
  have hw' : (warn = false ↔ pAbs ≤ F t) := by
    rw [← hw, ht]; simp
  refine ⟨hw', ?_⟩
  obtain ⟨j, hj, e, i1, i2⟩ := doubleLoop_spec F pAbs maxIter t0
  refine ⟨j, hj, by rw [← ht, e], i2, ?_⟩
  intro hwt
  by_contra hne
  have hlt : j < maxIter := lt_of_le_of_ne hj hne
  have := i1 hlt
  rw [← e, ht] at this
  have := hw'.2 this
  rw [hwt] at this
  exact Bool.noConfusion this

end PG

#print axioms PG.sortWithIdx_perm
#print axioms PG.sortWithIdx_pairwise
#print axioms PG.argsort_perm
#print axioms PG.sortRat_length
#print axioms PG.sortRat_sorted
#print axioms PG.sortRat_getElem
#print axioms PG.argsortNat_inverse
#print axioms PG.scatter_argsort'
#print axioms PG.scatter_argsort
#print axioms PG.gatherPinned_counterexample
#print axioms PG.gatherPinned_of_involutive
#print axioms PG.advance_compose
#print axioms PG.codeFactors_length
#print axioms PG.codeFactors_eq_spec
#print axioms PG.codeVectorised_pointwise
#print axioms PG.specFactors_zero
#print axioms PG.specFactors_durations
#print axioms PG.specFactors_nonneg_sum
#print axioms PG.advance_pos
#print axioms PG.advance_compose_nn
#print axioms PG.codeFactors_eq_spec_nn
#print axioms PG.codeVectorised_pointwise_nn
#print axioms PG.expandLoop_spec
#print axioms PG.bisectLoop_inv
#print axioms PG.bisectLoop_stop
#print axioms PG.quantile_spec
#print axioms PG.doubleLoop_spec
#print axioms PG.absorption_spec
