/-
  PGProofs/MutConfig.lean

  Mutational-configuration probabilities (`SFSDistribution._get_P`, `get_mutation_config`,
  `utils.multiset_permutations`, `StateSpace._get_partitions`, `FoldedSFSDistribution._unfold`).

  Part A: exact matrix algebra over a field.
  Part B: combinatorics of the executable definitions in `PGModel.Eval`.
-/
import PGModel.Eval
import Mathlib.Data.Matrix.Basic
import Mathlib.Data.Matrix.Mul
import Mathlib.Algebra.BigOperators.Field
import Mathlib.Data.Matrix.Diagonal
import Mathlib.Algebra.BigOperators.Fin
import Mathlib.Algebra.BigOperators.Ring.List
import Mathlib.Algebra.Field.Basic
import Mathlib.Data.List.Perm.Basic
import Mathlib.Data.List.Perm.Lattice
import Mathlib.Data.List.Nodup
import Mathlib.Data.List.Count
import Mathlib.Data.List.Forall2
import Mathlib.Data.List.Range
import Mathlib.Data.List.GetD
import Mathlib.Algebra.BigOperators.Group.List.Basic
import Mathlib.Algebra.BigOperators.Group.Finset.Basic
import Mathlib.Tactic.Ring
import Mathlib.Tactic.Linarith
import Mathlib.Tactic.NoncommRing

set_option linter.unusedSectionVars false

namespace PG

open Matrix

/-! # Part A — matrix algebra of `_get_P` -/

section PartA

variable {K : Type*} [Field K]
variable {ι : Type*} [Fintype ι] [DecidableEq ι]
variable {n : ℕ}

/-- total branch-length reward `r_total = Rᵀ 1` -/
def mcRtot (R : Fin n → ι → K) (s : ι) : K := ∑ i, R i s

/-- `D = diag r_total` -/
def mcD (R : Fin n → ι → K) : Matrix ι ι K := diagonal (mcRtot R)

/-- `(θ D)⁻¹ = diag(1 / r_total) / θ` as the code forms it -/
def mcDinv (θ : K) (R : Fin n → ι → K) : Matrix ι ι K := diagonal fun s => (θ * mcRtot R s)⁻¹

/-- the matrix the code inverts: `I - diag(1/r_total)/θ · S` -/
def mcCode (θ : K) (R : Fin n → ι → K) (S : Matrix ι ι K) : Matrix ι ι K := 1 - mcDinv θ R * S

/-- `P_total`, in resolvent form `(θD - S)⁻¹ θD` -/
def mcPtot (G : Matrix ι ι K) (θ : K) (R : Fin n → ι → K) : Matrix ι ι K := G * (θ • mcD R)

/-- `P_i = P_total · diag(R_i / r_total)` -/
def mcP (G : Matrix ι ι K) (θ : K) (R : Fin n → ι → K) (i : Fin n) : Matrix ι ι K :=
  mcPtot G θ R * diagonal fun s => R i s / mcRtot R s

/-- `p_total = (I - P_total) 1` -/
def mcptot (G : Matrix ι ι K) (θ : K) (R : Fin n → ι → K) : ι → K := (1 - mcPtot G θ R) *ᵥ 1

variable {θ : K} {R : Fin n → ι → K} {S G : Matrix ι ι K}

theorem mcDinv_mul_D (hθ : θ ≠ 0) (hr : ∀ s, mcRtot R s ≠ 0) : mcDinv θ R * (θ • mcD R) = 1 := by
  unfold mcDinv mcD
  rw [← diagonal_smul, diagonal_mul_diagonal, ← diagonal_one]
  congr 1; funext s
  simp only [Pi.smul_apply, smul_eq_mul]
  exact inv_mul_cancel₀ (mul_ne_zero hθ (hr s))

theorem mcD_mul_Dinv (hθ : θ ≠ 0) (hr : ∀ s, mcRtot R s ≠ 0) : (θ • mcD R) * mcDinv θ R = 1 := by
  unfold mcDinv mcD
  rw [← diagonal_smul, diagonal_mul_diagonal, ← diagonal_one]
  congr 1; funext s
  simp only [Pi.smul_apply, smul_eq_mul]
  exact mul_inv_cancel₀ (mul_ne_zero hθ (hr s))

theorem mcCode_eq (hθ : θ ≠ 0) (hr : ∀ s, mcRtot R s ≠ 0) :
    mcCode θ R S = mcDinv θ R * (θ • mcD R - S) := by
  unfold mcCode
  rw [Matrix.mul_sub, mcDinv_mul_D hθ hr]

/-- `P_total` is a right inverse of the matrix the code inverts -/
theorem C16_code_mul_Ptot (hθ : θ ≠ 0) (hr : ∀ s, mcRtot R s ≠ 0)
    (hGr : (θ • mcD R - S) * G = 1) : mcCode θ R S * mcPtot G θ R = 1 := by
  rw [mcCode_eq hθ hr]
  unfold mcPtot
  calc mcDinv θ R * (θ • mcD R - S) * (G * (θ • mcD R))
      = mcDinv θ R * (((θ • mcD R - S) * G) * (θ • mcD R)) := by
        simp only [Matrix.mul_assoc]
    _ = 1 := by rw [hGr, Matrix.one_mul, mcDinv_mul_D hθ hr]

/-- `P_total` is a left inverse of the matrix the code inverts -/
theorem C16_Ptot_mul_code (hθ : θ ≠ 0) (hr : ∀ s, mcRtot R s ≠ 0)
    (hGl : G * (θ • mcD R - S) = 1) : mcPtot G θ R * mcCode θ R S = 1 := by
  rw [mcCode_eq hθ hr]
  unfold mcPtot
  calc G * (θ • mcD R) * (mcDinv θ R * (θ • mcD R - S))
      = G * (((θ • mcD R) * mcDinv θ R) * (θ • mcD R - S)) := by
        simp only [Matrix.mul_assoc]
    _ = 1 := by rw [mcD_mul_Dinv hθ hr, Matrix.one_mul, hGl]

/-- 1. the `P_i` sum to `P_total` -/
theorem C16_Ptotal (hr : ∀ s, mcRtot R s ≠ 0) : ∑ i, mcP G θ R i = mcPtot G θ R := by
  unfold mcP
  rw [← Matrix.mul_sum]
  have : (∑ i, diagonal fun s => R i s / mcRtot R s) = (1 : Matrix ι ι K) := by
    rw [← diagonal_one]
    ext a b
    by_cases hab : a = b
    · subst hab
      simp only [Matrix.sum_apply, diagonal_apply_eq]
      rw [← Finset.sum_div]
      exact div_self (hr a)
    · simp [Matrix.sum_apply, diagonal_apply_ne _ hab]
  rw [this, Matrix.mul_one]

/-- sum over all words of length `m` of the ordered product, in any semiring -/
theorem sum_words_prod {M : Type*} [Semiring M] {κ : Type*} [Fintype κ] (f : κ → M) (m : ℕ) :
    ∑ w : Fin m → κ, (List.ofFn fun j => f (w j)).prod = (∑ i, f i) ^ m := by
  induction m with
  | zero => simp
  | succ m ih =>
    rw [← (Fin.consEquiv fun _ : Fin (m + 1) => κ).sum_comp, Fintype.sum_prod_type, pow_succ',
      Finset.sum_mul]
    refine Finset.sum_congr rfl fun x _ => ?_
    rw [← ih, Finset.mul_sum]
    refine Finset.sum_congr rfl fun w _ => ?_
    simp [List.ofFn_succ]

/-- 2. summing the products `P_{w_1} ⋯ P_{w_m}` over all words of length `m` gives `P_total ^ m` -/
theorem C16_words (hr : ∀ s, mcRtot R s ≠ 0) (m : ℕ) :
    ∑ w : Fin m → Fin n, (List.ofFn fun j => mcP G θ R (w j)).prod = mcPtot G θ R ^ m := by
  rw [sum_words_prod, C16_Ptotal hr]

theorem mcptot_eq : mcptot G θ R = 1 - mcPtot G θ R *ᵥ 1 := by
  unfold mcptot
  rw [Matrix.sub_mulVec, Matrix.one_mulVec]

/-- 3. telescoping: total mass of all configurations with at most `M` mutations -/
theorem C16_mass (α : ι → K) (M : ℕ) :
    ∑ m' ∈ Finset.range (M + 1), α ⬝ᵥ ((mcPtot G θ R ^ m') *ᵥ mcptot G θ R)
      = (∑ s, α s) - α ⬝ᵥ ((mcPtot G θ R ^ (M + 1)) *ᵥ 1) := by
  have h : ∀ m', α ⬝ᵥ ((mcPtot G θ R ^ m') *ᵥ mcptot G θ R)
      = α ⬝ᵥ ((mcPtot G θ R ^ m') *ᵥ 1) - α ⬝ᵥ ((mcPtot G θ R ^ (m' + 1)) *ᵥ 1) := by
    intro m'
    rw [mcptot_eq, Matrix.mulVec_sub, dotProduct_sub, Matrix.mulVec_mulVec, ← pow_succ]
  simp only [h]
  rw [Finset.sum_range_sub']
  simp [dotProduct]

/-- `I - P_total = (θD - S)⁻¹ (-S)` -/
theorem one_sub_mcPtot (hGl : G * (θ • mcD R - S) = 1) : 1 - mcPtot G θ R = G * (-S) := by
  unfold mcPtot
  rw [← hGl, Matrix.mul_sub, Matrix.mul_neg]
  abel

/-- 4. `p_total` in resolvent form: `prob ∅ = α (θD - S)⁻¹ (-S 1)` -/
theorem C16_empty (hGl : G * (θ • mcD R - S) = 1) : mcptot G θ R = G *ᵥ ((-S) *ᵥ 1) := by
  unfold mcptot
  rw [one_sub_mcPtot hGl, Matrix.mulVec_mulVec]

theorem mcD_mul_diag (hr : ∀ s, mcRtot R s ≠ 0) (i : Fin n) :
    mcD R * (diagonal fun s => R i s / mcRtot R s) = diagonal (R i) := by
  unfold mcD
  rw [diagonal_mul_diagonal]
  congr 1; funext s
  exact mul_div_cancel₀ _ (hr s)

/-- 6. first-step identity `(θD - S) P_i = θ diag(R_i)` -/
theorem C16_first_step (hr : ∀ s, mcRtot R s ≠ 0) (hGr : (θ • mcD R - S) * G = 1) (i : Fin n) :
    (θ • mcD R - S) * mcP G θ R i = θ • diagonal (R i) := by
  unfold mcP mcPtot
  rw [← Matrix.mul_assoc, ← Matrix.mul_assoc, hGr, Matrix.one_mul, Matrix.smul_mul, mcD_mul_diag hr]

/-- 6'. first-step recursion in vector form -/
theorem C16_first_step_vec (hr : ∀ s, mcRtot R s ≠ 0) (hGr : (θ • mcD R - S) * G = 1)
    (v : Fin n → ι → K) :
    (θ • mcD R - S) *ᵥ (∑ i, mcP G θ R i *ᵥ v i) = θ • ∑ i, diagonal (R i) *ᵥ v i := by
  rw [Matrix.mulVec_sum, Finset.smul_sum]
  refine Finset.sum_congr rfl fun i _ => ?_
  rw [Matrix.mulVec_mulVec, C16_first_step hr hGr, Matrix.smul_mulVec]

/-- 5. expected mutation counts: `(I - P_total)⁻¹ = -(S⁻¹ (θD - S))` and
`(I - P_total)⁻¹ P_i = θ · (-S)⁻¹ diag(R_i)` -/
theorem C16_expected_counts (hr : ∀ s, mcRtot R s ≠ 0)
    (hGl : G * (θ • mcD R - S) = 1) (hGr : (θ • mcD R - S) * G = 1)
    {Sinv : Matrix ι ι K} (hSl : Sinv * S = 1) (hSr : S * Sinv = 1) (i : Fin n) :
    (1 - mcPtot G θ R) * (-(Sinv * (θ • mcD R - S))) = 1 ∧
    (-(Sinv * (θ • mcD R - S))) * (1 - mcPtot G θ R) = 1 ∧
    (-(Sinv * (θ • mcD R - S))) * mcP G θ R i = θ • ((-Sinv) * diagonal (R i)) := by
  refine ⟨?_, ?_, ?_⟩
  · rw [one_sub_mcPtot hGl]
    calc G * (-S) * (-(Sinv * (θ • mcD R - S)))
        = G * ((S * Sinv) * (θ • mcD R - S)) := by
          simp only [Matrix.mul_neg, Matrix.neg_mul, neg_neg, Matrix.mul_assoc]
      _ = 1 := by rw [hSr, Matrix.one_mul, hGl]
  · rw [one_sub_mcPtot hGl]
    calc (-(Sinv * (θ • mcD R - S))) * (G * (-S))
        = Sinv * (((θ • mcD R - S) * G) * S) := by
          simp only [Matrix.mul_neg, Matrix.neg_mul, neg_neg, Matrix.mul_assoc]
      _ = 1 := by rw [hGr, Matrix.one_mul, hSl]
  · rw [Matrix.neg_mul, Matrix.mul_assoc, C16_first_step hr hGr, Matrix.mul_smul, Matrix.neg_mul,
      smul_neg]

end PartA


/-! # Part B — combinatorics of the executable definitions -/

section DedupList

variable {α : Type} [BEq α] [LawfulBEq α]

theorem dedupList_foldl_spec (l acc : List α) (hacc : acc.Nodup) :
    (l.foldl (fun acc x => if acc.contains x then acc else acc ++ [x]) acc).Nodup ∧
    ∀ a, a ∈ l.foldl (fun acc x => if acc.contains x then acc else acc ++ [x]) acc ↔
      a ∈ acc ∨ a ∈ l := by
  induction l generalizing acc with
  | nil => simp [hacc]
  | cons x l ih =>
    simp only [List.foldl_cons]
    by_cases hx : acc.contains x = true
    · rw [if_pos hx]
      obtain ⟨h1, h2⟩ := ih acc hacc
      refine ⟨h1, fun a => ?_⟩
      rw [h2, List.mem_cons]
      have := List.contains_iff_mem.mp hx
      constructor
      · rintro (h | h)
        · exact Or.inl h
        · exact Or.inr (Or.inr h)
      · rintro (h | rfl | h)
        · exact Or.inl h
        · exact Or.inl this
        · exact Or.inr h
    · rw [if_neg hx]
      have hx' : x ∉ acc := fun h => hx (List.contains_iff_mem.mpr h)
      have hn : (acc ++ [x]).Nodup := by
        rw [List.nodup_append]
        refine ⟨hacc, List.nodup_singleton x, ?_⟩
        intro a ha b hb
        rw [List.mem_singleton] at hb
        subst hb
        rintro rfl
        exact hx' ha
      obtain ⟨h1, h2⟩ := ih (acc ++ [x]) hn
      refine ⟨h1, fun a => ?_⟩
      rw [h2, List.mem_append, List.mem_singleton, List.mem_cons, or_assoc]

theorem dedupList_nodup (l : List α) : (dedupList l).Nodup :=
  (dedupList_foldl_spec l [] List.nodup_nil).1

@[simp] theorem mem_dedupList (l : List α) (a : α) : a ∈ dedupList l ↔ a ∈ l := by
  have := (dedupList_foldl_spec l [] List.nodup_nil).2 a
  exact this.trans (by simp)

end DedupList

/-! ## 8. `distinctOrderings` lists every distinct ordering exactly once -/

theorem distinctOrderingsAux_spec (fuel : ℕ) (q : List ℕ) (h : q.length ≤ fuel) :
    (distinctOrderingsAux fuel q).Nodup ∧ ∀ w, w ∈ distinctOrderingsAux fuel q ↔ w.Perm q := by
  induction fuel generalizing q with
  | zero =>
    have : q = [] := List.length_eq_zero_iff.mp (Nat.le_zero.mp h)
    subst this
    simp [distinctOrderingsAux]
  | succ fuel ih =>
    rw [distinctOrderingsAux]
    by_cases hq : q.isEmpty = true
    · rw [if_pos hq]
      have : q = [] := List.isEmpty_iff.mp hq
      subst this
      simp
    · rw [if_neg hq]
      have hlen : ∀ x ∈ q, (q.erase x).length ≤ fuel := by
        intro x hx
        rw [List.length_erase_of_mem hx]
        omega
      constructor
      · rw [List.nodup_flatMap]
        constructor
        · intro x hx
          rw [mem_dedupList] at hx
          exact (ih _ (hlen x hx)).1.map (fun a b hab => (List.cons.inj hab).2)
        · refine (dedupList_nodup q).pairwise_of_forall_ne ?_
          intro x _ y _ hxy
          simp only [Function.onFun]
          intro w hw1 hw2
          rw [List.mem_map] at hw1 hw2
          obtain ⟨w1, _, rfl⟩ := hw1
          obtain ⟨w2, _, h2⟩ := hw2
          exact hxy (List.cons.inj h2).1.symm
      · intro w
        rw [List.mem_flatMap]
        constructor
        · rintro ⟨x, hx, hw⟩
          rw [mem_dedupList] at hx
          rw [List.mem_map] at hw
          obtain ⟨w', hw', rfl⟩ := hw
          rw [(ih _ (hlen x hx)).2] at hw'
          exact List.cons_perm_iff_perm_erase.mpr ⟨hx, hw'⟩
        · intro hw
          cases w with
          | nil =>
            exfalso
            have := hw.length_eq
            simp only [List.length_nil] at this
            rw [eq_comm, List.length_eq_zero_iff] at this
            subst this
            simp at hq
          | cons x w' =>
            obtain ⟨hx, hw'⟩ := List.cons_perm_iff_perm_erase.mp hw
            refine ⟨x, (mem_dedupList q x).mpr hx, ?_⟩
            rw [List.mem_map]
            exact ⟨w', ((ih _ (hlen x hx)).2 w').mpr hw', rfl⟩

theorem distinctOrderings_spec (q : List ℕ) :
    (distinctOrderings q).Nodup ∧ ∀ w, w ∈ distinctOrderings q ↔ w.Perm q :=
  distinctOrderingsAux_spec q.length q le_rfl

/-! ## 9. definitional unfolding and the first-step recursion -/

theorem distinctOrderingsAux_fuel (fuel : ℕ) (q : List ℕ) (h : q.length ≤ fuel) :
    distinctOrderingsAux fuel q = distinctOrderings q := by
  induction fuel generalizing q with
  | zero =>
    have : q = [] := List.length_eq_zero_iff.mp (Nat.le_zero.mp h)
    subst this
    simp [distinctOrderings, distinctOrderingsAux]
  | succ fuel ih =>
    cases q with
    | nil => simp [distinctOrderings, distinctOrderingsAux]
    | cons a q =>
      simp only [distinctOrderings, List.length_cons]
      rw [distinctOrderingsAux, distinctOrderingsAux]
      simp only [List.isEmpty_cons, Bool.false_eq_true, if_false]
      refine List.flatMap_congr fun x hx => ?_
      rw [mem_dedupList] at hx
      have hl : ((a :: q).erase x).length = q.length := by
        rw [List.length_erase_of_mem hx]; simp
      rw [ih _ (by rw [hl]; simpa using h), ← hl, ← distinctOrderings]

theorem distinctOrderings_nil : distinctOrderings [] = [[]] := by
  simp [distinctOrderings, distinctOrderingsAux]

/-- definitional unfolding of `distinctOrderings` on a nonempty list -/
theorem distinctOrderings_cons_decomp (q : List ℕ) (hq : q ≠ []) :
    distinctOrderings q =
      (dedupList q).flatMap fun x => (distinctOrderings (q.erase x)).map (x :: ·) := by
  cases q with
  | nil => exact absurd rfl hq
  | cons a q =>
    conv_lhs => rw [distinctOrderings, List.length_cons, distinctOrderingsAux]
    simp only [List.isEmpty_cons, Bool.false_eq_true, if_false]
    refine List.flatMap_congr fun x hx => ?_
    rw [mem_dedupList] at hx
    rw [distinctOrderingsAux_fuel]
    rw [List.length_erase_of_mem hx]; simp

theorem list_sum_map_flatMap {M β γ : Type*} [AddMonoid M] (l : List β) (f : β → List γ) (g : γ → M) :
    ((l.flatMap f).map g).sum = (l.map fun a => ((f a).map g).sum).sum := by
  induction l with
  | nil => simp
  | cons a l ih => simp [List.flatMap_cons, List.sum_append, ih]

/-- `U(q) = Σ_{w ∈ distinctOrderings q} P(w₁) ⋯ P(w_m)` -/
def orderingsSum {M : Type*} [Semiring M] (P : ℕ → M) (q : List ℕ) : M :=
  ((distinctOrderings q).map fun w => (w.map P).prod).sum

theorem orderingsSum_nil {M : Type*} [Semiring M] (P : ℕ → M) : orderingsSum P [] = 1 := by
  simp [orderingsSum, distinctOrderings_nil]

/-- 9. first-step recursion `U(q) = Σ_{x distinct in q} P x · U(q.erase x)` in any semiring
(in particular for `P : ℕ → Matrix ι ι K`). -/
theorem C16_orderings_recursion {M : Type*} [Semiring M] (P : ℕ → M) (q : List ℕ) (hq : q ≠ []) :
    orderingsSum P q = ((dedupList q).map fun x => P x * orderingsSum P (q.erase x)).sum := by
  unfold orderingsSum
  rw [distinctOrderings_cons_decomp q hq, list_sum_map_flatMap]
  congr 1
  refine List.map_congr_left fun x _ => ?_
  rw [List.map_map, ← List.sum_map_mul_left]
  simp [Function.comp_def]


/-! ## 10. regrouping all words by configuration -/

/-- `_get_partitions(m, n)` lists every vector of length `n ≥ 1` with sum `m` exactly once -/
theorem partitionsOf_spec_aux (k : ℕ) : ∀ m : ℕ, (partitionsOf m (k + 1)).Nodup ∧
    ∀ c, c ∈ partitionsOf m (k + 1) ↔ c.length = k + 1 ∧ c.sum = m := by
  induction k with
  | zero =>
    intro m
    rw [partitionsOf.eq_2]
    refine ⟨List.nodup_singleton _, fun c => ?_⟩
    rw [List.mem_singleton]
    constructor
    · rintro rfl; simp
    · rintro ⟨hl, hs⟩
      match c, hl with
      | [a], _ => simp at hs; rw [hs]
  | succ k ih =>
    intro m
    rw [partitionsOf.eq_3 m (k + 1) (by omega)]
    constructor
    · rw [List.nodup_flatMap]
      constructor
      · intro i _
        exact (ih (m - i)).1.map (fun a b hab => List.append_cancel_right hab)
      · refine List.nodup_range.pairwise_of_forall_ne ?_
        intro i _ j _ hij
        simp only [Function.onFun]
        intro w hw1 hw2
        rw [List.mem_map] at hw1 hw2
        obtain ⟨w1, _, rfl⟩ := hw1
        obtain ⟨w2, _, h2⟩ := hw2
        have := List.append_inj_right' h2 rfl
        exact hij (List.cons.inj this).1.symm
    · intro c
      rw [List.mem_flatMap]
      constructor
      · rintro ⟨i, hi, hc⟩
        rw [List.mem_range] at hi
        rw [List.mem_map] at hc
        obtain ⟨c', hc', rfl⟩ := hc
        obtain ⟨hl, hs⟩ := ((ih (m - i)).2 c').mp hc'
        simp only [List.length_append, List.length_singleton, List.sum_append, List.sum_singleton]
        omega
      · rintro ⟨hl, hs⟩
        rcases List.eq_nil_or_concat c with rfl | ⟨c', i, rfl⟩
        · simp at hl
        · rw [List.concat_eq_append] at hl hs ⊢
          simp only [List.length_append, List.length_singleton, List.sum_append,
            List.sum_singleton] at hl hs
          refine ⟨i, List.mem_range.mpr (by omega), ?_⟩
          rw [List.mem_map]
          exact ⟨c', ((ih (m - i)).2 c').mpr ⟨by omega, by omega⟩, rfl⟩

theorem partitionsOf_spec (m n : ℕ) (hn : 1 ≤ n) :
    (partitionsOf m n).Nodup ∧ ∀ c, c ∈ partitionsOf m n ↔ c.length = n ∧ c.sum = m := by
  obtain ⟨k, rfl⟩ : ∃ k, n = k + 1 := ⟨n - 1, by omega⟩
  exact partitionsOf_spec_aux k m

/-- the sorted word `q` that `mutConfigProb` builds from a configuration `c`:
`c_i` copies of `i` (1-based) -/
def configWord (c : List ℕ) : List ℕ :=
  (c.zipIdx).flatMap fun (ci, i) => List.replicate ci (i + 1)

/-- `configWord` is literally the `q` of `mutConfigProb` -/
example (c : List ℕ) :
    configWord c = ((c.zipIdx).flatMap fun (c, i) => List.replicate c (i + 1)) := rfl

def configWordFrom (k : ℕ) (c : List ℕ) : List ℕ :=
  (c.zipIdx k).flatMap fun (ci, i) => List.replicate ci (i + 1)

theorem configWord_eq (c : List ℕ) : configWord c = configWordFrom 0 c := rfl

@[simp] theorem configWordFrom_nil (k : ℕ) : configWordFrom k [] = [] := rfl

@[simp] theorem configWordFrom_cons (k a : ℕ) (c : List ℕ) :
    configWordFrom k (a :: c) = List.replicate a (k + 1) ++ configWordFrom (k + 1) c := by
  simp [configWordFrom, List.zipIdx_cons, List.flatMap_cons]

theorem count_configWordFrom (k x : ℕ) (c : List ℕ) :
    (configWordFrom k c).count x = if k + 1 ≤ x then c.getD (x - (k + 1)) 0 else 0 := by
  induction c generalizing k with
  | nil => simp
  | cons a c ih =>
    rw [configWordFrom_cons, List.count_append, ih, List.count_replicate]
    by_cases h1 : k + 1 = x
    · subst h1; simp
    · by_cases h2 : k + 1 ≤ x
      · have h3 : k + 1 + 1 ≤ x := by omega
        obtain ⟨d, rfl⟩ : ∃ d, x = k + 1 + 1 + d := ⟨x - (k + 1 + 1), by omega⟩
        have e1 : k + 1 + 1 + d - (k + 1) = d + 1 := by omega
        have e2 : k + 1 + 1 + d - (k + 1 + 1) = d := by omega
        simp [h1, h2, h3, e1, e2]
      · have h3 : ¬ k + 1 + 1 ≤ x := by omega
        simp [h1, h2, h3]

theorem count_configWord (x : ℕ) (c : List ℕ) :
    (configWord c).count x = if 1 ≤ x then c.getD (x - 1) 0 else 0 := by
  rw [configWord_eq, count_configWordFrom]

theorem length_configWordFrom (k : ℕ) (c : List ℕ) : (configWordFrom k c).length = c.sum := by
  induction c generalizing k with
  | nil => simp
  | cons a c ih => simp [ih]

theorem length_configWord (c : List ℕ) : (configWord c).length = c.sum :=
  length_configWordFrom 0 c

theorem mem_configWord {x : ℕ} {c : List ℕ} (hx : x ∈ configWord c) : 1 ≤ x ∧ x ≤ c.length := by
  have := List.count_pos_iff.mpr hx
  rw [count_configWord] at this
  by_cases h1 : 1 ≤ x
  · rw [if_pos h1] at this
    refine ⟨h1, ?_⟩
    by_contra h2
    rw [List.getD_eq_default _ _ (by omega)] at this
    exact lt_irrefl _ this
  · rw [if_neg h1] at this; exact absurd this (lt_irrefl _)

/-- the map `c ↦ configWord c` is injective on configurations of equal length -/
theorem configWord_perm_inj {c c' : List ℕ} (hl : c.length = c'.length)
    (h : (configWord c).Perm (configWord c')) : c = c' := by
  refine List.ext_getElem hl fun i h1 h2 => ?_
  have := List.perm_iff_count.mp h (i + 1)
  rw [count_configWord, count_configWord] at this
  simpa [List.getD_eq_getElem?_getD, h1, h2] using this

/-- the configuration of a word: `c_i` = number of occurrences of `i+1` -/
def wordConfig (n : ℕ) (w : List ℕ) : List ℕ := (List.range n).map fun i => w.count (i + 1)

theorem perm_configWord_wordConfig (n : ℕ) (w : List ℕ) (hw : ∀ x ∈ w, 1 ≤ x ∧ x ≤ n) :
    w.Perm (configWord (wordConfig n w)) := by
  rw [List.perm_iff_count]
  intro x
  rw [count_configWord]
  by_cases hx : x ∈ w
  · obtain ⟨h1, h2⟩ := hw x hx
    rw [if_pos h1]
    have : x - 1 < n := by omega
    simp [wordConfig, List.getD_eq_getElem?_getD, this, Nat.sub_add_cancel h1]
  · rw [List.count_eq_zero.mpr hx]
    by_cases h1 : 1 ≤ x
    · rw [if_pos h1]
      by_cases h2 : x - 1 < n
      · simp [wordConfig, List.getD_eq_getElem?_getD, h2, Nat.sub_add_cancel h1,
          List.count_eq_zero.mpr hx]
      · rw [List.getD_eq_default]
        simp [wordConfig]; omega
    · rw [if_neg h1]

/-- all words of length `m` over the alphabet `{1, …, n}` -/
def wordsOver (n : ℕ) : ℕ → List (List ℕ)
  | 0 => [[]]
  | m + 1 => (List.range n).flatMap fun i => (wordsOver n m).map (fun w => (i + 1) :: w)

theorem wordsOver_spec (n m : ℕ) : (wordsOver n m).Nodup ∧
    ∀ w, w ∈ wordsOver n m ↔ w.length = m ∧ ∀ x ∈ w, 1 ≤ x ∧ x ≤ n := by
  induction m with
  | zero =>
    refine ⟨List.nodup_singleton _, fun w => ?_⟩
    simp only [wordsOver, List.mem_singleton, List.length_eq_zero_iff]
    constructor
    · rintro rfl; simp
    · exact fun h => h.1
  | succ m ih =>
    rw [wordsOver]
    constructor
    · rw [List.nodup_flatMap]
      constructor
      · intro i _
        exact ih.1.map (fun a b hab => (List.cons.inj hab).2)
      · refine List.nodup_range.pairwise_of_forall_ne ?_
        intro i _ j _ hij
        simp only [Function.onFun]
        intro w hw1 hw2
        rw [List.mem_map] at hw1 hw2
        obtain ⟨w1, _, rfl⟩ := hw1
        obtain ⟨w2, _, h2⟩ := hw2
        have := (List.cons.inj h2).1
        omega
    · intro w
      rw [List.mem_flatMap]
      constructor
      · rintro ⟨i, hi, hw⟩
        rw [List.mem_range] at hi
        rw [List.mem_map] at hw
        obtain ⟨w', hw', rfl⟩ := hw
        obtain ⟨hl, hx⟩ := (ih.2 w').mp hw'
        refine ⟨by simp [hl], ?_⟩
        intro x hx'
        rcases List.mem_cons.mp hx' with rfl | h
        · omega
        · exact hx x h
      · rintro ⟨hl, hx⟩
        cases w with
        | nil => simp at hl
        | cons a w' =>
          obtain ⟨h1, h2⟩ := hx a (List.mem_cons_self)
          refine ⟨a - 1, List.mem_range.mpr (by omega), ?_⟩
          rw [List.mem_map]
          refine ⟨w', (ih.2 w').mpr ⟨by simpa using hl, fun x h => hx x (List.mem_cons_of_mem _ h)⟩, ?_⟩
          rw [Nat.sub_add_cancel h1]

theorem sum_wordsOver {M : Type*} [Semiring M] (P : ℕ → M) (n m : ℕ) :
    ((wordsOver n m).map fun w => (w.map P).prod).sum
      = (((List.range n).map fun i => P (i + 1)).sum) ^ m := by
  induction m with
  | zero => simp [wordsOver]
  | succ m ih =>
    rw [wordsOver, list_sum_map_flatMap, pow_succ', ← ih, ← List.sum_map_mul_right]
    congr 1
    refine List.map_congr_left fun i _ => ?_
    rw [List.map_map, ← List.sum_map_mul_left]
    simp [Function.comp_def]

/-- every word of length `m` over `{1..n}` is an ordering of the word of exactly one configuration -/
theorem wordsOver_perm_configs (n m : ℕ) (hn : 1 ≤ n) :
    (wordsOver n m).Perm
      ((partitionsOf m n).flatMap fun c => distinctOrderings (configWord c)) := by
  obtain ⟨hpn, hpm⟩ := partitionsOf_spec m n hn
  have hnd : ((partitionsOf m n).flatMap fun c => distinctOrderings (configWord c)).Nodup := by
    rw [List.nodup_flatMap]
    refine ⟨fun c _ => (distinctOrderings_spec _).1, ?_⟩
    refine hpn.pairwise_of_forall_ne ?_
    intro c hc c' hc' hne
    simp only [Function.onFun]
    intro w hw1 hw2
    rw [(distinctOrderings_spec _).2] at hw1 hw2
    have hl : c.length = c'.length := by
      rw [((hpm c).mp hc).1, ((hpm c').mp hc').1]
    exact hne (configWord_perm_inj hl (hw1.symm.trans hw2))
  rw [List.perm_ext_iff_of_nodup (wordsOver_spec n m).1 hnd]
  intro w
  rw [(wordsOver_spec n m).2, List.mem_flatMap]
  constructor
  · rintro ⟨hl, hx⟩
    have hp := perm_configWord_wordConfig n w hx
    refine ⟨wordConfig n w, (hpm _).mpr ⟨by simp [wordConfig], ?_⟩, ?_⟩
    · rw [← length_configWord, ← hp.length_eq, hl]
    · exact ((distinctOrderings_spec _).2 w).mpr hp
  · rintro ⟨c, hc, hw⟩
    rw [(distinctOrderings_spec _).2] at hw
    obtain ⟨hcl, hcs⟩ := (hpm c).mp hc
    refine ⟨by rw [hw.length_eq, length_configWord, hcs], fun x hx => ?_⟩
    have := mem_configWord (hw.subset hx)
    rw [hcl] at this
    exact this

theorem list_sum_range_eq_finset {M : Type*} [AddCommMonoid M] (f : ℕ → M) (n : ℕ) :
    ((List.range n).map f).sum = ∑ i ∈ Finset.range n, f i := by
  induction n with
  | zero => simp
  | succ n ih => rw [List.range_succ, List.map_append, List.sum_append, ih, Finset.sum_range_succ]; simp

/-- 10. summing `U(q)` over the words `q` of all configurations with `m` mutations (the
configurations enumerated by `_get_partitions(m, n)`) gives `(Σ_{i=1..n} P i) ^ m`. -/
theorem C16_words_by_config {M : Type*} [Semiring M] (P : ℕ → M) (n m : ℕ) (hn : 1 ≤ n) :
    ((partitionsOf m n).map fun c => orderingsSum P (configWord c)).sum
      = (∑ i ∈ Finset.range n, P (i + 1)) ^ m := by
  rw [← list_sum_range_eq_finset, ← sum_wordsOver]
  have := ((wordsOver_perm_configs n m hn).map fun w => (w.map P).prod).sum_eq
  rw [this, list_sum_map_flatMap]
  rfl


/-! ## 11. `_unfold` -/

theorem mem_boxes_forall₂ (b lo : List ℕ) : lo ∈ boxes b ↔ List.Forall₂ (· ≤ ·) lo b := by
  induction b generalizing lo with
  | nil => simp [boxes]
  | cons b bs ih =>
    rw [boxes, List.mem_flatMap, List.forall₂_cons_right_iff]
    constructor
    · rintro ⟨i, hi, hlo⟩
      rw [List.mem_map] at hlo
      obtain ⟨r, hr, rfl⟩ := hlo
      exact ⟨i, r, Nat.lt_succ_iff.mp (List.mem_range.mp hi), (ih r).mp hr, rfl⟩
    · rintro ⟨i, r, hi, hr, rfl⟩
      exact ⟨i, List.mem_range.mpr (Nat.lt_succ_iff.mpr hi), List.mem_map.mpr ⟨r, (ih r).mpr hr, rfl⟩⟩

theorem list_ext_getD_nat {l₁ l₂ : List ℕ} (hl : l₁.length = l₂.length)
    (h : ∀ i, i < l₁.length → l₁.getD i 0 = l₂.getD i 0) : l₁ = l₂ := by
  refine List.ext_getElem hl fun i h1 h2 => ?_
  have := h i h1
  rwa [List.getD_eq_getElem _ _ h1, List.getD_eq_getElem _ _ h2] at this

/-- `boxes b` = `itertools.product(range(b₀+1), range(b₁+1), …)`: all vectors bounded by `b` -/
theorem mem_boxes (b lo : List ℕ) : lo ∈ boxes b ↔
    lo.length = b.length ∧ ∀ i, lo.getD i 0 ≤ b.getD i 0 := by
  rw [mem_boxes_forall₂, List.forall₂_iff_get]
  refine and_congr_right fun hlen => ?_
  constructor
  · intro h i
    by_cases hi : i < lo.length
    · rw [List.getD_eq_getElem _ _ hi, List.getD_eq_getElem _ _ (hlen ▸ hi)]
      exact h i hi (hlen ▸ hi)
    · rw [List.getD_eq_default _ _ (by omega)]
      exact Nat.zero_le _
  · intro h i h1 h2
    have := h i
    rwa [List.getD_eq_getElem _ _ h1, List.getD_eq_getElem _ _ h2] at this

/-- fold an unfolded configuration `u` (length `n - 1`, entry `i` = number of mutations of
frequency `i + 1`) into the folded configuration of length `n / 2`: bin `i + 1` collects the
frequencies `i + 1` and `n - (i + 1)` -/
def foldConfig (n : ℕ) (u : List ℕ) : List ℕ :=
  (List.range (n / 2)).map fun i =>
    if i + 1 ≠ n - (i + 1) then u.getD i 0 + u.getD (n - 2 - i) 0 else u.getD i 0

@[simp] theorem length_foldConfig (n : ℕ) (u : List ℕ) : (foldConfig n u).length = n / 2 := by
  simp [foldConfig]

theorem getD_foldConfig (n : ℕ) (u : List ℕ) (j : ℕ) (hj : j < n / 2) :
    (foldConfig n u).getD j 0 =
      if j + 1 ≠ n - (j + 1) then u.getD j 0 + u.getD (n - 2 - j) 0 else u.getD j 0 := by
  rw [List.getD_eq_getElem _ _ (by simpa using hj)]
  simp only [foldConfig, List.getElem_map, List.getElem_range]

/-- entries of `lower ++ reverse (take k (config - lower))` -/
theorem getD_unfold (config lower : List ℕ) (k i : ℕ) (hlen : lower.length = config.length)
    (hk : k ≤ config.length) :
    (lower ++ ((List.zipWith (· - ·) config lower).take k).reverse).getD i 0 =
      if i < lower.length then lower.getD i 0
      else if i < lower.length + k then
        config.getD (lower.length + k - 1 - i) 0 - lower.getD (lower.length + k - 1 - i) 0
      else 0 := by
  rw [List.getD_eq_getElem?_getD, List.getElem?_append]
  split_ifs with h1 h2
  · rw [List.getD_eq_getElem?_getD]
  · have hlt : i - lower.length < ((List.zipWith (· - ·) config lower).take k).reverse.length := by
      simp; omega
    rw [List.getElem?_eq_getElem hlt, List.getElem_reverse, List.getElem_take,
      List.getElem_zipWith]
    simp only [Option.getD_some, List.length_take, List.length_zipWith]
    have e : min k (min config.length lower.length) - 1 - (i - lower.length)
        = lower.length + k - 1 - i := by omega
    simp only [e]
    rw [List.getD_eq_getElem _ _ (by omega), List.getD_eq_getElem _ _ (by omega)]
  · rw [List.getElem?_eq_none (by simp; omega)]
    rfl

/-- folding an unfolded configuration built from an admissible `lower` gives back `config` -/
theorem fold_unfold (n : ℕ) (hn : 2 ≤ n) (config lower : List ℕ) (hc : config.length = n / 2)
    (hlen : lower.length = n / 2) (hle : ∀ i, lower.getD i 0 ≤ config.getD i 0)
    (hlast : n % 2 = 0 → lower.getD (n / 2 - 1) 0 = config.getD (n / 2 - 1) 0) :
    foldConfig n (lower ++ ((List.zipWith (· - ·) config lower).take (n - 1 - n / 2)).reverse)
      = config := by
  refine list_ext_getD_nat (by simp [hc]) fun i hi => ?_
  rw [length_foldConfig] at hi
  rw [getD_foldConfig n _ i hi, getD_unfold _ _ _ _ (by omega) (by omega),
    getD_unfold _ _ _ _ (by omega) (by omega), hlen]
  rw [if_pos hi]
  by_cases hcond : i + 1 ≠ n - (i + 1)
  · rw [if_pos hcond, if_neg (by omega), if_pos (by omega)]
    have e : n / 2 + (n - 1 - n / 2) - 1 - (n - 2 - i) = i := by omega
    rw [e]
    have := hle i
    omega
  · rw [if_neg hcond]
    have e : i = n / 2 - 1 := by omega
    rw [e]
    exact hlast (by omega)

theorem getD_take_nat (u : List ℕ) (k i : ℕ) :
    (u.take k).getD i 0 = if i < k then u.getD i 0 else 0 := by
  simp only [List.getD_eq_getElem?_getD, List.getElem?_take]
  split_ifs <;> rfl

/-- every `u` of the right length is the unfolding of its folding with `lower = u[: n/2]` -/
theorem unfold_fold (n : ℕ) (hn : 2 ≤ n) (u : List ℕ) (hul : u.length = n - 1) :
    u.take (n / 2) ++
      ((List.zipWith (· - ·) (foldConfig n u) (u.take (n / 2))).take (n - 1 - n / 2)).reverse
      = u := by
  have hlt : (u.take (n / 2)).length = n / 2 := by simp; omega
  refine list_ext_getD_nat (by simp; omega) fun i hi => ?_
  have hi' : i < n - 1 := by
    simp at hi; omega
  rw [getD_unfold _ _ _ _ (by simp; omega) (by simp; omega), hlt]
  by_cases h1 : i < n / 2
  · rw [if_pos h1, getD_take_nat, if_pos h1]
  · rw [if_neg h1, if_pos (by omega)]
    have e : n / 2 + (n - 1 - n / 2) - 1 - i = n - 2 - i := by omega
    rw [e, getD_foldConfig n u _ (by omega), if_pos (by omega), getD_take_nat, if_pos (by omega)]
    have e2 : n - 2 - (n - 2 - i) = i := by omega
    rw [e2]
    omega

theorem mem_unfoldConfig (n : ℕ) (config u : List ℕ) :
    u ∈ unfoldConfig n config ↔
      ∃ lower ∈ (boxes (if n % 2 = 1 then config else config.dropLast)).map
          (fun lo => if n % 2 = 1 then lo else lo ++ [config.getLastD 0]),
        lower ++ ((List.zipWith (· - ·) config lower).take
          (if n % 2 = 1 then config.length else config.length - 1)).reverse = u := by
  unfold unfoldConfig
  simp only [mem_dedupList]
  rw [List.mem_map]

/-- the admissible `lower` halves -/
theorem mem_lowers (n : ℕ) (hn : 2 ≤ n) (config lower : List ℕ) (hc : config.length = n / 2) :
    lower ∈ (boxes (if n % 2 = 1 then config else config.dropLast)).map
          (fun lo => if n % 2 = 1 then lo else lo ++ [config.getLastD 0]) ↔
      lower.length = n / 2 ∧ (∀ i, lower.getD i 0 ≤ config.getD i 0) ∧
        (n % 2 = 0 → lower.getD (n / 2 - 1) 0 = config.getD (n / 2 - 1) 0) := by
  by_cases hodd : n % 2 = 1
  · simp only [if_pos hodd, List.map_id', mem_boxes, hc]
    constructor
    · rintro ⟨h1, h2⟩
      exact ⟨h1, h2, fun h => by omega⟩
    · rintro ⟨h1, h2, _⟩
      exact ⟨h1, h2⟩
  · simp only [if_neg hodd]
    have hlast : config.getLastD 0 = config.getD (n / 2 - 1) 0 := by
      rw [List.getLastD_eq_getLast?, List.getLast?_eq_getElem?, hc, List.getD_eq_getElem?_getD]
    rw [hlast, List.mem_map]
    have hdl : ∀ i, config.dropLast.getD i 0 = if i < n / 2 - 1 then config.getD i 0 else 0 := by
      intro i
      rw [List.dropLast_eq_take, getD_take_nat, hc]
    constructor
    · rintro ⟨lo, hlo, rfl⟩
      rw [mem_boxes, List.length_dropLast, hc] at hlo
      obtain ⟨hlen, hle⟩ := hlo
      have hget : ∀ i, (lo ++ [config.getD (n / 2 - 1) 0]).getD i 0 =
          if i < n / 2 - 1 then lo.getD i 0 else if i = n / 2 - 1 then config.getD (n / 2 - 1) 0
            else 0 := by
        intro i
        simp only [List.getD_eq_getElem?_getD, List.getElem?_append, hlen]
        split_ifs with h1 h2
        · rfl
        · rw [h2, Nat.sub_self]; rfl
        · rw [List.getElem?_eq_none (by simp; omega)]; rfl
      refine ⟨by simp [hlen]; omega, fun i => ?_, fun _ => ?_⟩
      · rw [hget]
        have := hle i
        rw [hdl] at this
        split_ifs with h1 h2
        · rwa [if_pos h1] at this
        · rw [h2]
        · exact Nat.zero_le _
      · rw [hget, if_neg (by omega), if_pos rfl]
    · rintro ⟨hlen, hle, hl⟩
      refine ⟨lower.take (n / 2 - 1), ?_, ?_⟩
      · rw [mem_boxes, List.length_dropLast, hc]
        refine ⟨by simp; omega, fun i => ?_⟩
        rw [hdl, getD_take_nat]
        split_ifs
        · exact hle i
        · exact le_rfl
      · refine list_ext_getD_nat (by simp; omega) fun i hi => ?_
        simp only [List.getD_eq_getElem?_getD, List.getElem?_append, List.length_take, hlen,
          List.getElem?_take]
        have hi' : i < n / 2 := by simp at hi; omega
        by_cases h1 : i < n / 2 - 1
        · rw [if_pos (by omega), if_pos h1]
        · have e : i = n / 2 - 1 := by omega
          rw [if_neg (by omega), e]
          have := hl (by omega)
          simp only [List.getD_eq_getElem?_getD] at this
          rw [this]
          simp

/-- 11. `_unfold(config)` lists exactly once every unfolded configuration that folds to `config` -/
theorem unfoldConfig_spec (n : ℕ) (config : List ℕ) (hl : config.length = n / 2) (hn : 2 ≤ n) :
    (unfoldConfig n config).Nodup ∧
    ∀ u, u ∈ unfoldConfig n config ↔ (u.length = n - 1 ∧ foldConfig n u = config) := by
  refine ⟨dedupList_nodup _, fun u => ?_⟩
  rw [mem_unfoldConfig]
  have hk : (if n % 2 = 1 then config.length else config.length - 1) = n - 1 - n / 2 := by
    split_ifs <;> omega
  rw [hk]
  constructor
  · rintro ⟨lower, hlow, rfl⟩
    rw [mem_lowers n hn config lower hl] at hlow
    obtain ⟨hlen, hle, hlast⟩ := hlow
    exact ⟨by simp; omega, fold_unfold n hn config lower hl hlen hle hlast⟩
  · rintro ⟨hul, rfl⟩
    refine ⟨u.take (n / 2), ?_, unfold_fold n hn u hul⟩
    rw [mem_lowers n hn _ _ hl]
    refine ⟨by simp; omega, fun i => ?_, fun heven => ?_⟩
    · rw [getD_take_nat]
      split_ifs with h1
      · rw [getD_foldConfig n u i h1]
        split_ifs
        · exact Nat.le_add_right _ _
        · exact le_rfl
      · exact Nat.zero_le _
    · rw [getD_take_nat, if_pos (by omega), getD_foldConfig n u _ (by omega), if_neg (by omega)]

/-! ## Part A ∘ Part B: probability mass of all configurations with exactly `m` mutations -/

section Mass

open Matrix

variable {K : Type*} [Field K]
variable {ι : Type*} [Fintype ι] [DecidableEq ι]
variable {n : ℕ}

/-- the `P_i` indexed as in `mutConfigProb` (`P[i - 1]` for the 1-based letter `i`) -/
def mcPnat (G : Matrix ι ι K) (θ : K) (R : Fin n → ι → K) (i : ℕ) : Matrix ι ι K :=
  if h : i - 1 < n then mcP G θ R ⟨i - 1, h⟩ else 0

theorem list_sum_map_dot (α p : ι → K) {β : Type*} (l : List β) (g : β → Matrix ι ι K) :
    (l.map fun b => α ⬝ᵥ (g b *ᵥ p)).sum = α ⬝ᵥ ((l.map g).sum *ᵥ p) := by
  induction l with
  | nil => simp
  | cons b l ih => simp [ih, Matrix.add_mulVec, dotProduct_add]

/-- the probabilities `α · U(q_c) · p_total` of all configurations `c` with exactly `m` mutations
sum to `α · P_total^m · p_total` -/
theorem C16_config_mass {θ : K} {R : Fin n → ι → K} {G : Matrix ι ι K}
    (hr : ∀ s, mcRtot R s ≠ 0) (hn : 1 ≤ n) (α : ι → K) (m : ℕ) :
    ((partitionsOf m n).map fun c =>
        α ⬝ᵥ (orderingsSum (mcPnat G θ R) (configWord c) *ᵥ mcptot G θ R)).sum
      = α ⬝ᵥ ((mcPtot G θ R ^ m) *ᵥ mcptot G θ R) := by
  rw [list_sum_map_dot, C16_words_by_config _ n m hn, Finset.sum_range, ← C16_Ptotal hr]
  congr 4
  funext i
  simp [mcPnat]

end Mass

/-! ## sanity checks on concrete inputs -/

example : distinctOrderings [1, 1, 2] = [[1, 1, 2], [1, 2, 1], [2, 1, 1]] := by decide
example : partitionsOf 2 2 = [[2, 0], [1, 1], [0, 2]] := by decide
example : configWord [2, 0, 1] = [1, 1, 3] := by decide
example : unfoldConfig 4 [1, 2] = [[0, 2, 1], [1, 2, 0]] := by decide
example : unfoldConfig 5 [1, 1] = [[0, 0, 1, 1], [0, 1, 0, 1], [1, 0, 1, 0], [1, 1, 0, 0]] := by
  decide
example : foldConfig 4 [0, 2, 1] = [1, 2] := by decide
example : foldConfig 5 [0, 1, 0, 1] = [1, 1] := by decide

end PG

open PG in
#print axioms C16_code_mul_Ptot
open PG in
#print axioms C16_Ptot_mul_code
open PG in
#print axioms C16_Ptotal
open PG in
#print axioms C16_words
open PG in
#print axioms C16_mass
open PG in
#print axioms C16_empty
open PG in
#print axioms C16_expected_counts
open PG in
#print axioms C16_first_step
open PG in
#print axioms C16_first_step_vec
open PG in
#print axioms distinctOrderings_spec
open PG in
#print axioms distinctOrderings_cons_decomp
open PG in
#print axioms C16_orderings_recursion
open PG in
#print axioms partitionsOf_spec
open PG in
#print axioms wordsOver_perm_configs
open PG in
#print axioms C16_words_by_config
open PG in
#print axioms unfoldConfig_spec
open PG in
#print axioms C16_config_mass
