/-
PGProofs.PdfVec — the model of `TreeHeightDistribution.pdf(t, dx)` (distributions.py l.1188-1207):

    x1 = max(t - dx/2, 0);  x2 = x1 + dx;  return (cdf(x2) - cdf(x1)) / dx

on a whole container of times.  `pdf` makes two *vector* calls of `cdf`; each of them sorts, sweeps and
scatters back (`codeVectorised`).  Proved here, for every finite sequence of times in any order and with
any duplicates: entry `i` of the result is the difference quotient of the direct cdf at `times[i]`
(C07 for the `pdf` entry point), the evaluation points are never negative (so the cdf's own
negative-time guard cannot fire from inside `pdf`, C20), the window is centred on `t` as soon as
`t ≥ dx/2`, and the one-element call (the scalar route) is the same number as any entry of a vector call
holding that time.
-/
import PGProofs.Glue

namespace PG

open Matrix

variable {K : Type} [Field K] [LinearOrder K] [IsStrictOrderedRing K]
variable {ι : Type} [Fintype ι] [DecidableEq ι]

/-- lower evaluation point of `pdf`: `np.max([t - dx/2, 0])` -/
def pdfX1 (dx t : ℚ) : ℚ := max (t - dx / 2) 0

/-- upper evaluation point: `x1 + dx` -/
def pdfX2 (dx t : ℚ) : ℚ := pdfX1 dx t + dx

/-- the code: two vector cdf calls, entrywise difference quotient -/
def codePdf (cdfVec : List ℚ → List K) (dx : ℚ) (ts : List ℚ) : List K :=
  List.zipWith (fun a b => (a - b) / (dx : K)) (cdfVec (ts.map (pdfX2 dx))) (cdfVec (ts.map (pdfX1 dx)))

/-- the specification at one time: difference quotient of a pointwise cdf `F` -/
def pdfAt (F : ℚ → K) (dx t : ℚ) : K := (F (pdfX2 dx t) - F (pdfX1 dx t)) / (dx : K)

theorem pdfX1_nonneg (dx t : ℚ) : 0 ≤ pdfX1 dx t := le_max_right _ _

theorem pdfX2_nonneg (dx t : ℚ) (hdx : 0 ≤ dx) : 0 ≤ pdfX2 dx t :=
  add_nonneg (pdfX1_nonneg dx t) hdx

/-- away from zero the window is centred on `t` -/
theorem pdf_window_centred (dx t : ℚ) (h : dx / 2 ≤ t) :
    pdfX1 dx t = t - dx / 2 ∧ pdfX2 dx t = t + dx / 2 := by
  have h1 : pdfX1 dx t = t - dx / 2 := max_eq_left (by linarith)
  refine ⟨h1, ?_⟩
  unfold pdfX2; rw [h1]; ring

/-- near zero the window is `[0, dx]` -/
theorem pdf_window_at_zero (dx t : ℚ) (h : t ≤ dx / 2) :
    pdfX1 dx t = 0 ∧ pdfX2 dx t = dx := by
  have h1 : pdfX1 dx t = 0 := max_eq_right (by linarith)
  refine ⟨h1, ?_⟩
  unfold pdfX2; rw [h1]; ring

omit [LinearOrder K] [IsStrictOrderedRing K] in
/-- whenever the vector cdf routine is pointwise, so is `pdf` -/
theorem codePdf_of_pointwise (cdfVec : List ℚ → List K) (F : ℚ → K)
    (hF : ∀ ts, cdfVec ts = ts.map F) (dx : ℚ) (ts : List ℚ) :
    codePdf cdfVec dx ts = ts.map (pdfAt F dx) := by
  unfold codePdf
  rw [hF, hF, List.map_map, List.map_map, List.zipWith_map, List.zipWith_self]
  rfl

/-- **C07 (`pdf`).** Entry `i` of `pdf(times, dx)` is the difference quotient of the direct cdf at
`times[i]`, for any order of the times and any duplicates. -/
theorem code_pdf_pointwise (L : ExpLaw K) (S : ℕ → Matrix ι ι K) (α exitVec : ι → K)
    (eps : List EpochT) (dx : ℚ) (ts : List ℚ) :
    codePdf (codeVectorised (fun fs => cdfVal L S α exitVec (castF fs)) eps) dx ts
      = ts.map (pdfAt (fun t => cdfVal L S α exitVec (castF (specFactors eps t))) dx) :=
  codePdf_of_pointwise _ _ (fun ts => code_cdf_pointwise L S α exitVec eps ts) dx ts

/-- the result has one entry per supplied time -/
theorem code_pdf_length (L : ExpLaw K) (S : ℕ → Matrix ι ι K) (α exitVec : ι → K)
    (eps : List EpochT) (dx : ℚ) (ts : List ℚ) :
    (codePdf (codeVectorised (fun fs => cdfVal L S α exitVec (castF fs)) eps) dx ts).length = ts.length := by
  rw [code_pdf_pointwise, List.length_map]

/-- **C07 (`pdf`, order independence).** Any entry of a vector call equals the one-element call for that
time: the other times, their order and their multiplicity have no influence. -/
theorem code_pdf_entry_eq_single (L : ExpLaw K) (S : ℕ → Matrix ι ι K) (α exitVec : ι → K)
    (eps : List EpochT) (dx : ℚ) (ts : List ℚ) (i : ℕ) (hi : i < ts.length) :
    (codePdf (codeVectorised (fun fs => cdfVal L S α exitVec (castF fs)) eps) dx ts)[i]'(by
        rw [code_pdf_length]; exact hi)
      = (codePdf (codeVectorised (fun fs => cdfVal L S α exitVec (castF fs)) eps) dx [ts[i]])[0]'(by
        rw [code_pdf_length]; exact Nat.zero_lt_one) := by
  simp only [code_pdf_pointwise, List.getElem_map, List.map_cons, List.map_nil,
    List.getElem_cons_zero]

/-- permuting the supplied times permutes the result in the same way -/
theorem code_pdf_perm (L : ExpLaw K) (S : ℕ → Matrix ι ι K) (α exitVec : ι → K)
    (eps : List EpochT) (dx : ℚ) {ts ts' : List ℚ} (h : ts.Perm ts') :
    (codePdf (codeVectorised (fun fs => cdfVal L S α exitVec (castF fs)) eps) dx ts).Perm
      (codePdf (codeVectorised (fun fs => cdfVal L S α exitVec (castF fs)) eps) dx ts') := by
  rw [code_pdf_pointwise, code_pdf_pointwise]
  exact h.map _

/-- non-vacuity: on the three-cycle `[2, 1/2, 1]` with `dx = 1` the windows are `[3/2,5/2]`, `[0,1]`,
`[1/2,3/2]` — the second one is clipped at zero. -/
example : [2, 1/2, 1].map (fun t => (pdfX1 1 t, pdfX2 1 t)) = [(3/2, 5/2), (0, 1), (1/2, 3/2)] := by
  decide +kernel

end PG

#print axioms PG.code_pdf_pointwise
#print axioms PG.code_pdf_entry_eq_single
#print axioms PG.code_pdf_perm
#print axioms PG.pdf_window_centred
#print axioms PG.pdf_window_at_zero
#print axioms PG.pdfX1_nonneg
