import Mathlib.Algebra.BigOperators.Group.Finset.Basic
import Mathlib.Algebra.BigOperators.Pi
import Mathlib.Algebra.BigOperators.Ring.Finset
import Mathlib.Data.Nat.Choose.Basic
import Mathlib.Data.Nat.Choose.Cast
import Mathlib.Data.List.Sublists
import Mathlib.Data.Pi.Interval
import Mathlib.Data.Fintype.BigOperators
import Mathlib.Data.Fintype.Sum
import Mathlib.Data.Fintype.Prod
import Mathlib.Order.Interval.Finset.Nat
import Mathlib.Algebra.Order.BigOperators.Group.Finset
import Mathlib.Algebra.Field.Basic
import Mathlib.Tactic.Ring
import Mathlib.Tactic.Linarith

/-!
# The count chains are the exact lumping of the labelled ancestral process
-/

open Finset

namespace PG

section Core

variable {T : Type*} [DecidableEq T] [Fintype T] {M : Type*} [AddCommMonoid M]

def cntF (x : List T) : T → ℕ := fun t => x.count t

def wt (c κ : T → ℕ) : ℕ := ∏ t, (c t).choose (κ t)

abbrev e1 (a : T) : T → ℕ := Pi.single a 1

omit [Fintype T] in
theorem cntF_cons (a : T) (l : List T) : cntF (a :: l) = cntF l + e1 a := by
  funext t
  by_cases h : t = a
  · subst h; simp [cntF, e1]
  · have : a ≠ t := fun h' => h h'.symm
    simp [cntF, e1, h, this]

/-- Pascal's rule lifted to the product weight. -/
theorem wt_succ (c κ : T → ℕ) (a : T) :
    wt (c + e1 a) κ = wt c κ + (if 1 ≤ κ a then wt c (κ - e1 a) else 0) := by
  unfold wt
  have hsplit : ∀ f : T → ℕ, ∏ t, f t = f a * ∏ t ∈ univ.erase a, f t := fun f => by
    rw [mul_prod_erase _ _ (mem_univ a)]
  rw [hsplit, hsplit (fun t => (c t).choose (κ t))]
  have hrest : ∏ t ∈ univ.erase a, ((c + e1 a) t).choose (κ t)
      = ∏ t ∈ univ.erase a, (c t).choose (κ t) := by
    refine prod_congr rfl fun t ht => ?_
    have : t ≠ a := (mem_erase.mp ht).1
    simp [e1, this]
  rw [hrest]
  split_ifs with h
  · rw [hsplit (fun t => (c t).choose ((κ - e1 a) t))]
    have hrest2 : ∏ t ∈ univ.erase a, (c t).choose ((κ - e1 a) t)
        = ∏ t ∈ univ.erase a, (c t).choose (κ t) := by
      refine prod_congr rfl fun t ht => ?_
      have : t ≠ a := (mem_erase.mp ht).1
      simp [e1, this]
    rw [hrest2]
    obtain ⟨j, hj⟩ : ∃ j, κ a = j + 1 := ⟨κ a - 1, by omega⟩
    simp only [Pi.add_apply, e1, Pi.single_eq_same, Pi.sub_apply, hj, Nat.add_sub_cancel]
    rw [Nat.choose_succ_succ]
    ring
  · have h0 : κ a = 0 := by omega
    simp [h0]

theorem subselect (x : List T) (F : (T → ℕ) → M) :
    ((x.sublists'.map fun c => F (cntF c)).sum) = ∑ κ ∈ Iic (cntF x), wt (cntF x) κ • F κ := by
  induction x generalizing F with
  | nil =>
    have h0 : cntF ([] : List T) = 0 := by funext t; simp [cntF]
    have hI : (Iic (0 : T → ℕ)) = {0} := by
      ext κ; rw [mem_Iic, mem_singleton]
      constructor
      · intro h; funext t; have := h t; simpa using this
      · intro h; rw [h]
    simp [h0, hI, wt, one_nsmul]
  | cons a l ih =>
    rw [List.sublists'_cons, List.map_append, List.sum_append, List.map_map]
    have hF : ((fun c => F (cntF c)) ∘ List.cons a) = fun c => (fun κ => F (κ + e1 a)) (cntF c) := by
      funext c; simp [cntF_cons]
    rw [hF, ih F, ih (fun κ => F (κ + e1 a)), cntF_cons]
    set c := cntF l with hc
    -- RHS: expand weight by Pascal
    simp_rw [wt_succ, add_nsmul]
    rw [sum_add_distrib]
    congr 1
    · -- first part: extra terms vanish
      apply sum_subset
      · intro κ hκ; rw [mem_Iic] at hκ ⊢; intro t; exact (hκ t).trans (by simp)
      · intro κ hκ' hκ
        rw [mem_Iic] at hκ' hκ
        -- κ ≤ c + e1 a but not κ ≤ c ⇒ κ a = c a + 1
        have : c a < κ a := by
          by_contra hlt
          rw [not_lt] at hlt
          apply hκ
          intro t
          by_cases ht : t = a
          · subst ht; exact hlt
          · have := hκ' t; simpa [e1, ht] using this
        have hz : wt c κ = 0 := by
          unfold wt
          exact prod_eq_zero (mem_univ a) (Nat.choose_eq_zero_of_lt this)
        simp [hz]
    · -- second part: reindex κ ↦ κ + e1 a
      symm
      rw [← sum_filter_add_sum_filter_not (Iic (c + e1 a)) (fun κ => 1 ≤ κ a)]
      have hzero : ∑ κ ∈ filter (fun κ => ¬ 1 ≤ κ a) (Iic (c + e1 a)),
          (if 1 ≤ κ a then wt c (κ - e1 a) else 0) • F κ = 0 := by
        apply sum_eq_zero; intro κ hκ; rw [mem_filter] at hκ; simp [hκ.2]
      rw [hzero, add_zero]
      symm
      refine sum_nbij' (fun κ => κ + e1 a) (fun κ => κ - e1 a) ?_ ?_ ?_ ?_ ?_
      · intro κ hκ; rw [mem_Iic] at hκ; rw [mem_filter, mem_Iic]
        refine ⟨fun t => ?_, by simp [e1]⟩
        have h1 : κ t ≤ c t := hκ t
        simp only [Pi.add_apply]; exact Nat.add_le_add_right h1 _
      · intro κ hκ; rw [mem_filter, mem_Iic] at hκ; rw [mem_Iic]
        intro t
        have := hκ.1 t
        by_cases ht : t = a
        · subst ht; simp [e1] at this ⊢; omega
        · simpa [e1, ht] using this
      · intro κ _; funext t; simp
      · intro κ hκ; rw [mem_filter] at hκ; funext t
        by_cases ht : t = a
        · subst ht; simp [e1]; omega
        · simp [e1, ht]
      · intro κ _
        have : (κ + e1 a - e1 a) = κ := by funext t; simp
        simp [e1, this]


end Core

section General
variable {T : Type*} [DecidableEq T] [Fintype T] {K : Type*} [CommRing K]

omit [Fintype T] in
theorem cntF_perm {x y : List T} (h : List.Perm x y) : cntF x = cntF y := by
  funext t; exact h.count_eq t

theorem exists_list_cntF (c : T → ℕ) : ∃ x : List T, cntF x = c := by
  refine ⟨(∑ t, c t • ({t} : Multiset T)).toList, ?_⟩
  funext a
  unfold cntF
  rw [← Multiset.coe_count, Multiset.coe_toList, Multiset.count_sum']
  simp [Multiset.count_nsmul, Multiset.count_singleton]

theorem sum_cntF (x : List T) : ∑ t, cntF x t = x.length := by
  have := Multiset.sum_count_eq_card (s := (univ : Finset T)) (m := (x : Multiset T)) (fun a _ => mem_univ a)
  simpa [cntF] using this

/-- generator of the labelled particle system (one event kind) applied to `g ∘ cnt`, at the
labelled state `x` -/
def QL (rate : (T → ℕ) → (T → ℕ) → K) (res : (T → ℕ) → (T → ℕ)) (g : (T → ℕ) → K)
    (x : List T) : K :=
  (x.sublists'.map fun Ksub => rate (cntF x) (cntF Ksub) *
    (g (cntF x - cntF Ksub + res (cntF Ksub)) - g (cntF x))).sum

/-- generator of the count chain (one event kind) applied to `g`, at the count vector `c` -/
def QC (rate : (T → ℕ) → (T → ℕ) → K) (res : (T → ℕ) → (T → ℕ)) (g : (T → ℕ) → K)
    (c : T → ℕ) : K :=
  ∑ κ ∈ Finset.Iic c, (wt c κ : K) * (rate c κ * (g (c - κ + res κ) - g c))

theorem lumping (rate : (T → ℕ) → (T → ℕ) → K) (res : (T → ℕ) → (T → ℕ)) (g : (T → ℕ) → K)
    (x : List T) : QL rate res g x = QC rate res g (cntF x) := by
  unfold QL QC
  rw [subselect x (fun κ => rate (cntF x) κ * (g (cntF x - κ + res κ) - g (cntF x)))]
  simp only [nsmul_eq_mul]

theorem QL_perm (rate : (T → ℕ) → (T → ℕ) → K) (res : (T → ℕ) → (T → ℕ)) (g : (T → ℕ) → K)
    {x y : List T} (h : List.Perm x y) : QL rate res g x = QL rate res g y := by
  rw [lumping, lumping, cntF_perm h]

variable {ε : Type*} [Fintype ε]

/-- labelled generator for a finite family of event kinds -/
def QLs (rate : ε → (T → ℕ) → (T → ℕ) → K) (res : ε → (T → ℕ) → (T → ℕ)) (g : (T → ℕ) → K)
    (x : List T) : K := ∑ e, QL (rate e) (res e) g x

def QCs (rate : ε → (T → ℕ) → (T → ℕ) → K) (res : ε → (T → ℕ) → (T → ℕ)) (g : (T → ℕ) → K)
    (c : T → ℕ) : K := ∑ e, QC (rate e) (res e) g c

theorem lumpings (rate : ε → (T → ℕ) → (T → ℕ) → K) (res : ε → (T → ℕ) → (T → ℕ))
    (g : (T → ℕ) → K) (x : List T) : QLs rate res g x = QCs rate res g (cntF x) := by
  unfold QLs QCs; exact sum_congr rfl fun e _ => lumping _ _ _ _

theorem QLs_perm (rate : ε → (T → ℕ) → (T → ℕ) → K) (res : ε → (T → ℕ) → (T → ℕ))
    (g : (T → ℕ) → K) {x y : List T} (h : List.Perm x y) :
    QLs rate res g x = QLs rate res g y := by
  rw [lumpings, lumpings, cntF_perm h]

end General

section Vandermonde
variable {T : Type*} [DecidableEq T] [Fintype T]

omit [DecidableEq T] [Fintype T] in
theorem sum_sublists'_length_eq (x : List T) (k : ℕ) :
    (x.sublists'.map fun s => if s.length = k then 1 else 0).sum = x.length.choose k := by
  induction x generalizing k with
  | nil => cases k <;> simp
  | cons a l ih =>
    rw [List.sublists'_cons, List.map_append, List.sum_append, List.map_map]
    cases k with
    | zero =>
      have : ((fun s : List T => if s.length = 0 then 1 else 0) ∘ List.cons a) = fun _ => 0 := by
        funext s; simp
      rw [ih, this]; simp
    | succ k =>
      have : ((fun s : List T => if s.length = k + 1 then 1 else 0) ∘ List.cons a)
          = fun s => if s.length = k then 1 else 0 := by
        funext s; simp
      rw [ih, this, ih, List.length_cons, Nat.choose_succ_succ, add_comm]

theorem vandermonde (c : T → ℕ) (k : ℕ) :
    ∑ κ ∈ (Iic c).filter (fun κ => ∑ t, κ t = k), wt c κ = (∑ t, c t).choose k := by
  obtain ⟨x, rfl⟩ := exists_list_cntF c
  rw [sum_cntF, ← sum_sublists'_length_eq, sum_filter]
  have := subselect x (fun κ => if ∑ t, κ t = k then 1 else 0)
  simp only [sum_cntF, smul_eq_mul, mul_ite, mul_one, mul_zero] at this
  exact this.symm

end Vandermonde
section Tools
variable {T : Type*} [DecidableEq T] [Fintype T] {K : Type*} [CommRing K]

omit [DecidableEq T] in
theorem wt_eq_zero_of_not_le {c κ : T → ℕ} (h : ¬ κ ≤ c) : wt c κ = 0 := by
  rw [Pi.le_def, not_forall] at h
  obtain ⟨t, ht⟩ := h
  exact prod_eq_zero (mem_univ t) (Nat.choose_eq_zero_of_lt (not_le.mp ht))

theorem wt_single (c : T → ℕ) (a : T) (k : ℕ) : wt c (Pi.single a k) = (c a).choose k := by
  unfold wt
  rw [Fintype.prod_eq_single a]
  · simp
  · intro t ht; simp [ht]

theorem wt_e1 (c : T → ℕ) (a : T) : wt c (e1 a) = c a := by
  rw [e1, wt_single, Nat.choose_one_right]

theorem wt_pair (c : T → ℕ) (a b : T) :
    wt c (e1 a + e1 b) = if a = b then (c a).choose 2 else c a * c b := by
  split_ifs with h
  · subst h
    have : e1 a + e1 a = Pi.single a 2 := by
      funext t; by_cases ht : t = a
      · subst ht; simp [e1]
      · simp [e1, ht]
    rw [this, wt_single]
  · unfold wt
    rw [Fintype.prod_eq_mul a b h]
    · have hba : b ≠ a := fun h' => h h'.symm
      simp [e1, h, hba]
    · intro t ht; simp [e1, ht.1, ht.2]

/-- an event kind that fires only on the sub-collections of one fixed profile `κ0` -/
theorem QC_single (κ0 : T → ℕ) (p : Prop) [Decidable p] (r : (T → ℕ) → K)
    (res : (T → ℕ) → (T → ℕ)) (g : (T → ℕ) → K) (c : T → ℕ) :
    QC (fun c κ => if κ = κ0 ∧ p then r c else 0) res g c
      = if p then (wt c κ0 : K) * (r c * (g (c - κ0 + res κ0) - g c)) else 0 := by
  unfold QC
  by_cases hp : p
  · simp only [hp, and_true, if_true]
    by_cases hle : κ0 ≤ c
    · rw [sum_eq_single_of_mem κ0 (mem_Iic.mpr hle)]
      · simp
      · intro κ _ hne; simp [hne]
    · rw [wt_eq_zero_of_not_le hle]
      simp only [Nat.cast_zero, zero_mul]
      apply sum_eq_zero
      intro κ hκ
      have : κ ≠ κ0 := by rintro rfl; exact hle (mem_Iic.mp hκ)
      simp [this]
  · simp [hp]

/-- an event kind that fires on `k ≥ 2` particles of one type `a` -/
theorem QC_mono (a : T) (r : (T → ℕ) → ℕ → K)
    (res : (T → ℕ) → (T → ℕ)) (g : (T → ℕ) → K) (c : T → ℕ) :
    QC (fun c κ => if κ = Pi.single a (κ a) ∧ 2 ≤ κ a then r c (κ a) else 0) res g c
      = ∑ k ∈ Icc 2 (c a), ((c a).choose k : K) *
          (r c k * (g (c - Pi.single a k + res (Pi.single a k)) - g c)) := by
  unfold QC
  simp only [ite_mul, zero_mul, mul_ite, mul_zero]
  rw [← sum_filter]
  refine sum_nbij' (fun κ => κ a) (fun k => Pi.single a k) ?_ ?_ ?_ ?_ ?_
  · intro κ hκ
    rw [mem_filter, mem_Iic] at hκ
    rw [mem_Icc]
    exact ⟨hκ.2.2, hκ.1 a⟩
  · intro k hk
    rw [mem_Icc] at hk
    rw [mem_filter, mem_Iic]
    refine ⟨?_, by simp, by simpa using hk.1⟩
    intro t
    by_cases ht : t = a
    · subst ht; simpa using hk.2
    · simp [ht]
  · intro κ hκ
    rw [mem_filter] at hκ
    exact hκ.2.1.symm
  · intro k _; simp
  · intro κ hκ
    rw [mem_filter] at hκ
    have h := hκ.2.1
    generalize κ a = k at h
    subst h
    rw [wt_single]

end Tools

section Lineage
variable {D : ℕ} {K : Type*} [Field K]

/-- event kinds: `inl (d, d')` = a particle moves from deme `d` to deme `d'`;
`inr d` = a merger in deme `d`. -/
abbrev LKind (D : ℕ) := (Fin D × Fin D) ⊕ Fin D

def linRate (lam : ℕ → ℕ → K) (ts : Fin D → K) (mig : Fin D → Fin D → K) :
    LKind D → (Fin D → ℕ) → (Fin D → ℕ) → K
  | .inl (d, d'), _, κ => if κ = e1 d ∧ d ≠ d' then mig d d' else 0
  | .inr d, c, κ => if κ = Pi.single d (κ d) ∧ 2 ≤ κ d then lam (c d) (κ d) / ts d else 0

def linRes : LKind D → (Fin D → ℕ) → (Fin D → ℕ)
  | .inl (_, d'), _ => e1 d'
  | .inr d, _ => e1 d

theorem lineage_closed_form (lam : ℕ → ℕ → K) (ts : Fin D → K) (mig : Fin D → Fin D → K)
    (g : (Fin D → ℕ) → K) (c : Fin D → ℕ) :
    QCs (linRate lam ts mig) linRes g c
      = ∑ d, ∑ d', (if d ≠ d' then (c d : K) * mig d d' * (g (c - e1 d + e1 d') - g c) else 0)
        + ∑ d, ∑ k ∈ Icc 2 (c d), ((c d).choose k : K) * (lam (c d) k / ts d) *
            (g (c - (k - 1) • e1 d) - g c) := by
  unfold QCs
  rw [Fintype.sum_sum_type, Fintype.sum_prod_type]
  congr 1
  · refine sum_congr rfl fun d _ => sum_congr rfl fun d' _ => ?_
    refine (QC_single (e1 d) (d ≠ d') (fun _ => mig d d') (fun _ => e1 d') g c).trans ?_
    rw [wt_e1]
    simp only [mul_assoc]
  · refine sum_congr rfl fun d _ => ?_
    refine (QC_mono d (fun c k => lam (c d) k / ts d) (fun _ => e1 d) g c).trans ?_
    refine sum_congr rfl fun k hk => ?_
    rw [mem_Icc] at hk
    have : c - Pi.single d k + e1 d = c - (k - 1) • e1 d := by
      funext t
      by_cases ht : t = d
      · subst ht; simp [e1]; omega
      · simp [e1, ht]
    rw [this, mul_assoc]

theorem lineage_lumping (lam : ℕ → ℕ → K) (ts : Fin D → K) (mig : Fin D → Fin D → K)
    (g : (Fin D → ℕ) → K) (x : List (Fin D)) :
    QLs (linRate lam ts mig) linRes g x
      = ∑ d, ∑ d', (if d ≠ d' then ((cntF x d : ℕ) : K) * mig d d' *
            (g (cntF x - e1 d + e1 d') - g (cntF x)) else 0)
        + ∑ d, ∑ k ∈ Icc 2 (cntF x d), ((cntF x d).choose k : K) * (lam (cntF x d) k / ts d) *
            (g (cntF x - (k - 1) • e1 d) - g (cntF x)) := by
  rw [lumpings, lineage_closed_form]

end Lineage
section Fiber
variable {A S : Type*} [DecidableEq A] [Fintype A] [DecidableEq S] [Fintype S]
variable {K : Type*} [CommRing K]

/-- restriction of a count vector on `A × S` to the fibre over `a` -/
def fib (a : A) (c : A × S → ℕ) : S → ℕ := fun i => c (a, i)

/-- extension by zero of a count vector on the fibre over `a` -/
def emb (a : A) (κ' : S → ℕ) : A × S → ℕ := fun t => if t.1 = a then κ' t.2 else 0

omit [Fintype A] [DecidableEq S] [Fintype S] in
@[simp] theorem fib_emb (a : A) (κ' : S → ℕ) : fib a (emb a κ') = κ' := by
  funext i; simp [fib, emb]

omit [DecidableEq S] in
theorem wt_emb (c : A × S → ℕ) (a : A) (κ' : S → ℕ) : wt c (emb a κ') = wt (fib a c) κ' := by
  unfold wt
  rw [Fintype.prod_prod_type, Fintype.prod_eq_single a]
  · simp [emb, fib]
  · intro a' ha'
    simp [emb, ha']

/-- an event kind that fires on sub-collections supported in the fibre over `a` whose
fibre profile satisfies `p` -/
theorem QC_fiber (a : A) (r : (A × S → ℕ) → (S → ℕ) → K) (p : (S → ℕ) → Prop) [DecidablePred p]
    (res : (A × S → ℕ) → (A × S → ℕ)) (g : (A × S → ℕ) → K) (c : A × S → ℕ) :
    QC (fun c κ => if κ = emb a (fib a κ) ∧ p (fib a κ) then r c (fib a κ) else 0) res g c
      = ∑ κ' ∈ (Iic (fib a c)).filter p, (wt (fib a c) κ' : K) *
          (r c κ' * (g (c - emb a κ' + res (emb a κ')) - g c)) := by
  unfold QC
  simp only [ite_mul, zero_mul, mul_ite, mul_zero]
  rw [← sum_filter]
  refine sum_nbij' (fib a) (emb a) ?_ ?_ ?_ ?_ ?_
  · intro κ hκ
    rw [mem_filter, mem_Iic] at hκ
    rw [mem_filter, mem_Iic]
    exact ⟨fun i => hκ.1 (a, i), hκ.2.2⟩
  · intro κ' hκ'
    rw [mem_filter, mem_Iic] at hκ'
    rw [mem_filter, mem_Iic]
    refine ⟨?_, by simp, by simpa using hκ'.2⟩
    rintro ⟨a', i⟩
    by_cases h : a' = a
    · subst h
      have h1 : κ' i ≤ c (a', i) := hκ'.1 i
      simpa [emb] using h1
    · simp [emb, h]
  · intro κ hκ
    rw [mem_filter] at hκ
    exact hκ.2.1.symm
  · intro κ' _; simp
  · intro κ hκ
    rw [mem_filter] at hκ
    have h := hκ.2.1
    generalize fib a κ = κ' at h ⊢
    subst h
    rw [wt_emb]

end Fiber

section Blocks
variable {D n : ℕ} [NeZero n] {K : Type*} [Field K]

/-- event kinds: `inl (d, d', i)` = a block of size `i+1` moves from deme `d` to `d'`;
`inr d` = a merger of blocks in deme `d`. -/
abbrev BKind (D n : ℕ) := (Fin D × Fin D × Fin n) ⊕ Fin D

def blkRate (lam : ℕ → ℕ → K) (ts : Fin D → K) (mig : Fin D → Fin D → K) :
    BKind D n → (Fin D × Fin n → ℕ) → (Fin D × Fin n → ℕ) → K
  | .inl (d, d', i), _, κ => if κ = e1 (d, i) ∧ d ≠ d' then mig d d' else 0
  | .inr d, c, κ => if κ = emb d (fib d κ) ∧ 2 ≤ ∑ i, κ (d, i)
      then lam (∑ i, c (d, i)) (∑ i, κ (d, i)) / ts d else 0

/-- total number of sampled lineages subtended by a fibre profile (block `i` has size `i+1`) -/
def blkSize (κ' : Fin n → ℕ) : ℕ := ∑ i : Fin n, (i.val + 1) * κ' i

def blkRes : BKind D n → (Fin D × Fin n → ℕ) → (Fin D × Fin n → ℕ)
  | .inl (_, d', i), _ => e1 (d', i)
  | .inr d, κ => e1 (d, Fin.ofNat n (blkSize (fib d κ) - 1))

theorem blkTarget_val (κ' : Fin n → ℕ) (h : blkSize κ' ≤ n) :
    (Fin.ofNat n (blkSize κ' - 1)).val = blkSize κ' - 1 := by
  have := NeZero.pos n
  simp only [Fin.ofNat]
  exact Nat.mod_eq_of_lt (by omega)

theorem block_closed_form (lam : ℕ → ℕ → K) (ts : Fin D → K) (mig : Fin D → Fin D → K)
    (g : (Fin D × Fin n → ℕ) → K) (c : Fin D × Fin n → ℕ) :
    QCs (blkRate lam ts mig) blkRes g c
      = ∑ d, ∑ d', ∑ i, (if d ≠ d' then (c (d, i) : K) * mig d d' *
            (g (c - e1 (d, i) + e1 (d', i)) - g c) else 0)
        + ∑ d, ∑ κ' ∈ (Iic (fun i => c (d, i))).filter (fun κ' => 2 ≤ ∑ i, κ' i),
            ((∏ i, (c (d, i)).choose (κ' i) : ℕ) : K) *
              (lam (∑ i, c (d, i)) (∑ i, κ' i) / ts d) *
              (g (c - emb d κ' + e1 (d, Fin.ofNat n (blkSize κ' - 1))) - g c) := by
  unfold QCs
  rw [Fintype.sum_sum_type, Fintype.sum_prod_type]
  congr 1
  · refine sum_congr rfl fun d _ => ?_
    rw [Fintype.sum_prod_type]
    refine sum_congr rfl fun d' _ => sum_congr rfl fun i _ => ?_
    refine (QC_single (e1 (d, i)) (d ≠ d') (fun _ => mig d d') (fun _ => e1 (d', i)) g c).trans ?_
    rw [wt_e1]
    simp only [mul_assoc]
  · refine sum_congr rfl fun d _ => ?_
    refine (QC_fiber d (fun c κ' => lam (∑ i, c (d, i)) (∑ i, κ' i) / ts d)
      (fun κ' => 2 ≤ ∑ i, κ' i) (fun κ => e1 (d, Fin.ofNat n (blkSize (fib d κ) - 1))) g c).trans ?_
    refine sum_congr rfl fun κ' _ => ?_
    rw [fib_emb, mul_assoc]
    rfl

theorem block_lumping (lam : ℕ → ℕ → K) (ts : Fin D → K) (mig : Fin D → Fin D → K)
    (g : (Fin D × Fin n → ℕ) → K) (x : List (Fin D × Fin n)) :
    QLs (blkRate lam ts mig) blkRes g x = QCs (blkRate lam ts mig) blkRes g (cntF x) :=
  lumpings _ _ _ _

end Blocks
section TwoLocus

/-- class of a lineage: carries both loci / only locus 1 / only locus 2 -/
inductive LCls | L | U1 | U2
  deriving DecidableEq

instance : Fintype LCls := ⟨{LCls.L, LCls.U1, LCls.U2}, fun x => by cases x <;> decide⟩

/-- the six kinds of pair mergers -/
inductive PairK | LL | LU1 | LU2 | U1U1 | U2U2 | U1U2
  deriving DecidableEq

instance : Fintype PairK :=
  ⟨{PairK.LL, PairK.LU1, PairK.LU2, PairK.U1U1, PairK.U2U2, PairK.U1U2},
    fun x => by cases x <;> decide⟩

open LCls in
/-- classes of the two merging lineages, and class of the merged lineage -/
def PairK.fst : PairK → LCls
  | .LL => L | .LU1 => L | .LU2 => L | .U1U1 => U1 | .U2U2 => U2 | .U1U2 => U1
open LCls in
def PairK.snd : PairK → LCls
  | .LL => L | .LU1 => U1 | .LU2 => U2 | .U1U1 => U1 | .U2U2 => U2 | .U1U2 => U2
open LCls in
def PairK.out : PairK → LCls
  | .LL => L | .LU1 => L | .LU2 => L | .U1U1 => U1 | .U2U2 => U2 | .U1U2 => L

/-- unconditional version of `QC_single` -/
theorem QC_single' {T : Type*} [DecidableEq T] [Fintype T] {K : Type*} [CommRing K]
    (κ0 : T → ℕ) (r : (T → ℕ) → K) (res : (T → ℕ) → (T → ℕ)) (g : (T → ℕ) → K) (c : T → ℕ) :
    QC (fun c κ => if κ = κ0 then r c else 0) res g c
      = (wt c κ0 : K) * (r c * (g (c - κ0 + res κ0) - g c)) := by
  simpa using QC_single κ0 True r res g c

variable {D : ℕ} {K : Type*} [Field K]

/-- event kinds: `inl (d, d', cl)` = a lineage of class `cl` moves from deme `d` to `d'`;
`inr (inl d)` = recombination of a linked lineage in deme `d`;
`inr (inr (d, p))` = pair merger of kind `p` in deme `d`. -/
abbrev AKind (D : ℕ) := (Fin D × Fin D × LCls) ⊕ (Fin D ⊕ (Fin D × PairK))

def argRate (r : K) (ts : Fin D → K) (mig : Fin D → Fin D → K) :
    AKind D → (Fin D × LCls → ℕ) → (Fin D × LCls → ℕ) → K
  | .inl (d, d', cl), _, κ => if κ = e1 (d, cl) ∧ d ≠ d' then mig d d' else 0
  | .inr (.inl d), _, κ => if κ = e1 (d, LCls.L) then r else 0
  | .inr (.inr (d, p)), _, κ => if κ = e1 (d, p.fst) + e1 (d, p.snd) then 1 / ts d else 0

def argRes : AKind D → (Fin D × LCls → ℕ) → (Fin D × LCls → ℕ)
  | .inl (_, d', cl), _ => e1 (d', cl)
  | .inr (.inl d), _ => e1 (d, LCls.U1) + e1 (d, LCls.U2)
  | .inr (.inr (d, p)), _ => e1 (d, p.out)

theorem univ_PairK : (univ : Finset PairK)
    = {PairK.LL, PairK.LU1, PairK.LU2, PairK.U1U1, PairK.U2U2, PairK.U1U2} := rfl

open LCls in
theorem arg_closed_form (r : K) (ts : Fin D → K) (mig : Fin D → Fin D → K)
    (g : (Fin D × LCls → ℕ) → K) (c : Fin D × LCls → ℕ) :
    QCs (argRate r ts mig) argRes g c
      = ∑ d, ∑ d', ∑ cl, (if d ≠ d' then (c (d, cl) : K) * mig d d' *
            (g (c - e1 (d, cl) + e1 (d', cl)) - g c) else 0)
        + (∑ d, (c (d, L) : K) * r * (g (c - e1 (d, L) + (e1 (d, U1) + e1 (d, U2))) - g c)
        + ∑ d,
          ( ((c (d, L)).choose 2 : K) * (1 / ts d) *
              (g (c - (e1 (d, L) + e1 (d, L)) + e1 (d, L)) - g c)
          + ((c (d, L) : K) * (c (d, U1) : K)) * (1 / ts d) *
              (g (c - (e1 (d, L) + e1 (d, U1)) + e1 (d, L)) - g c)
          + ((c (d, L) : K) * (c (d, U2) : K)) * (1 / ts d) *
              (g (c - (e1 (d, L) + e1 (d, U2)) + e1 (d, L)) - g c)
          + ((c (d, U1)).choose 2 : K) * (1 / ts d) *
              (g (c - (e1 (d, U1) + e1 (d, U1)) + e1 (d, U1)) - g c)
          + ((c (d, U2)).choose 2 : K) * (1 / ts d) *
              (g (c - (e1 (d, U2) + e1 (d, U2)) + e1 (d, U2)) - g c)
          + ((c (d, U1) : K) * (c (d, U2) : K)) * (1 / ts d) *
              (g (c - (e1 (d, U1) + e1 (d, U2)) + e1 (d, L)) - g c))) := by
  unfold QCs
  rw [Fintype.sum_sum_type, Fintype.sum_sum_type, Fintype.sum_prod_type, Fintype.sum_prod_type]
  congr 1
  · refine sum_congr rfl fun d _ => ?_
    rw [Fintype.sum_prod_type]
    refine sum_congr rfl fun d' _ => sum_congr rfl fun cl _ => ?_
    refine (QC_single (e1 (d, cl)) (d ≠ d') (fun _ => mig d d') (fun _ => e1 (d', cl)) g c).trans ?_
    rw [wt_e1]
    simp only [mul_assoc]
  · congr 1
    · refine sum_congr rfl fun d _ => ?_
      refine (QC_single' (e1 (d, L)) (fun _ => r) (fun _ => e1 (d, U1) + e1 (d, U2)) g c).trans ?_
      rw [wt_e1, mul_assoc]
    · refine sum_congr rfl fun d _ => ?_
      have key : ∀ p : PairK, QC (argRate r ts mig (.inr (.inr (d, p)))) (argRes (.inr (.inr (d, p)))) g c
          = ((wt c (e1 (d, p.fst) + e1 (d, p.snd)) : ℕ) : K) * (1 / ts d) *
            (g (c - (e1 (d, p.fst) + e1 (d, p.snd)) + e1 (d, p.out)) - g c) := by
        intro p
        refine (QC_single' (e1 (d, p.fst) + e1 (d, p.snd)) (fun _ => 1 / ts d)
          (fun _ => e1 (d, p.out)) g c).trans ?_
        rw [mul_assoc]
      simp only [key, univ_PairK]
      simp [wt_pair, PairK.fst, PairK.snd, PairK.out, add_assoc]

theorem arg_lumping (r : K) (ts : Fin D → K) (mig : Fin D → Fin D → K)
    (g : (Fin D × LCls → ℕ) → K) (x : List (Fin D × LCls)) :
    QLs (argRate r ts mig) argRes g x = QCs (argRate r ts mig) argRes g (cntF x) :=
  lumpings _ _ _ _

end TwoLocus
end PG

#print axioms PG.subselect
#print axioms PG.lumping
#print axioms PG.QL_perm
#print axioms PG.lumpings
#print axioms PG.QLs_perm
#print axioms PG.vandermonde
#print axioms PG.lineage_closed_form
#print axioms PG.lineage_lumping
#print axioms PG.block_closed_form
#print axioms PG.block_lumping
#print axioms PG.arg_closed_form
#print axioms PG.arg_lumping
