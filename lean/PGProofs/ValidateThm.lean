/-
PGProofs.ValidateThm — `validate` rejects exactly the invalid classes of property C20.

* `validate_ok_iff`   `validate r = .ok () ↔ ¬ invalid r`
* `C20_complete`      `invalid r → (validate r).isOk = false`
* `C20_sound`         `¬ invalid r → validate r = .ok ()`
* `boundary_*`        `decide`d boundary members of every class
* `pinned_defect`     the pinned variant accepts a negative recombination rate next to a LocusConfig
* `order0_*`          the two order-0 escapes of the real code (documented in PGModel/Validate.lean)
-/
import PGModel.Validate
import Mathlib.Data.Rat.Defs
import Mathlib.Algebra.Order.Ring.Rat
import Mathlib.Tactic.Tauto
import Mathlib.Tactic.Linarith

namespace PG.Validate

@[simp] theorem check_ok (p : Prop) [Decidable p] (e : Err) : check p e = .ok () ↔ ¬ p := by
  unfold check; by_cases h : p <;> simp [h]

@[simp] theorem seq_ok (a b : Res) : (a ;; b) = .ok () ↔ a = .ok () ∧ b = .ok () := by
  unfold andThen
  cases a with
  | ok u => cases u; simp
  | error e => simp

theorem isOk_false_iff (a : Res) : a.isOk = false ↔ a ≠ .ok () := by
  cases a with
  | ok u => cases u; simp [Except.isOk, Except.toBool]
  | error e => simp [Except.isOk, Except.toBool]

theorem checkModel_ok (r : Request) : checkModel r = .ok () ↔ ¬ badModelParam r := by
  unfold checkModel badModelParam
  cases h : r.model <;> simp

theorem checkDemography_ok (r : Request) : checkDemography r = .ok () ↔ ¬ badDemography r := by
  unfold checkDemography badDemography
  simp only [seq_ok, check_ok, not_or]
  exact ⟨fun ⟨a, c, b⟩ => ⟨a, b, c⟩, fun ⟨a, b, c⟩ => ⟨a, c, b⟩⟩

theorem checkLocusConfig_ok (n u : Int) (x : Rat) :
    checkLocusConfig n u x = .ok () ↔ 1 ≤ n ∧ n ≤ 2 ∧ 0 ≤ u ∧ 0 ≤ x := by
  unfold checkLocusConfig
  simp only [seq_ok, check_ok, not_lt, gt_iff_lt]

theorem checkLoci_ok (r : Request) :
    checkLoci true r = .ok () ↔ ¬ badLociNumber r ∧ ¬ negUnlinked r ∧ ¬ negRecombination r := by
  unfold checkLoci badLociNumber negUnlinked negRecombination
  by_cases hv : r.viaConfig = true
  · simp only [hv, if_true, seq_ok, checkLocusConfig_ok, check_ok, true_and, not_or, not_lt,
      gt_iff_lt]
    tauto
  · have hv' : r.viaConfig = false := by simpa using hv
    simp only [hv', Bool.false_eq_true, if_false, checkLocusConfig_ok, false_and, not_false_eq_true,
      true_and, false_or, not_or, not_lt, gt_iff_lt, le_refl]
    cases hr : r.recArg with
    | none => simp [optLt]
    | some x => simp [optLt, and_assoc]

theorem buildSpace_ok (r : Request) : buildSpace r = .ok () ↔ ¬ (r.loci = 2 ∧ r.model ≠ .kingman) := by
  unfold buildSpace; simp only [check_ok]

theorem accumulateCheck_ok (r : Request) (k rl : Nat) (neg : Prop) [Decidable neg] :
    accumulateCheck r k rl neg = .ok () ↔
      k = rl ∧ (k ≠ 0 → ¬ neg ∧ ¬ (r.loci = 2 ∧ r.model ≠ .kingman)) := by
  unfold accumulateCheck
  by_cases hk : k = 0
  · simp [hk]
  · simp only [hk, if_false, seq_ok, check_ok, buildSpace_ok, not_not, ne_eq, not_false_eq_true,
      true_imp_iff]

theorem tMax_ok (r : Request) :
    tMax r = .ok () ↔ (r.endTime = none → ¬ (r.loci = 2 ∧ r.model ≠ .kingman)) := by
  unfold tMax
  cases h : r.endTime with
  | none => simp [buildSpace_ok]
  | some e => simp

theorem momentCheck_ok (r : Request) (k rl : Nat) (e : Option Rat) :
    momentCheck r k rl e = .ok () ↔
      (e = none → r.endTime = none → ¬ (r.loci = 2 ∧ r.model ≠ .kingman)) ∧
      k = rl ∧ (k ≠ 0 → ¬ optLt e 0 ∧ ¬ (r.loci = 2 ∧ r.model ≠ .kingman)) := by
  unfold momentCheck
  rw [seq_ok, accumulateCheck_ok]
  cases e with
  | none => simp [tMax_ok]
  | some x => simp

theorem queryCheck_ok (r : Request) (q : Query) :
    queryCheck r q = .ok () ↔
      ¬ badQueryQ r q ∧ ¬ (r.loci = 2 ∧ r.model ≠ .kingman ∧ reachesSpaceQ r q) := by
  cases q with
  | mean =>
    simp only [queryCheck, momentCheck_ok, badQueryQ, reachesSpaceQ, optLt]
    tauto
  | cdf ts =>
    simp only [queryCheck, seq_ok, check_ok, buildSpace_ok, badQueryQ, reachesSpaceQ]
    generalize (∃ t ∈ ts, t < 0) = A
    tauto
  | accumulate k rl ts =>
    simp only [queryCheck, accumulateCheck_ok, badQueryQ, reachesSpaceQ]
    generalize (∃ t ∈ ts, t < 0) = A
    tauto
  | moment k rl e =>
    simp only [queryCheck, momentCheck_ok, badQueryQ, reachesSpaceQ]
    tauto
  | quantile q =>
    simp only [queryCheck, seq_ok, check_ok, buildSpace_ok, badQueryQ, reachesSpaceQ]
    tauto
  | mutationConfig len theta nEp =>
    simp only [queryCheck, seq_ok, check_ok, badQueryQ, reachesSpaceQ]
    tauto

theorem checkTreeHeight_ok (r : Request) : checkTreeHeight r = .ok () ↔ ¬ badConstructionTimes r := by
  unfold checkTreeHeight badConstructionTimes
  simp only [seq_ok, check_ok]
  tauto

theorem checkQuery_ok (r : Request) (h1 : 1 ≤ r.loci) (h2 : r.loci ≤ 2) :
    checkQuery r = .ok () ↔
      ¬ twoLociSFS r ∧ ¬ badConstructionTimes r ∧ ¬ badQuery r ∧ ¬ twoLociMMC r := by
  unfold checkQuery twoLociSFS badQuery twoLociMMC
  rw [seq_ok, seq_ok, check_ok, checkTreeHeight_ok, queryCheck_ok]
  have : r.loci > 1 ↔ r.loci = 2 := by omega
  rw [this]
  tauto

/-- `validate` accepts exactly the requests outside every invalid class. -/
theorem validate_ok_iff (r : Request) : validate r = .ok () ↔ ¬ invalid r := by
  unfold validate validateWith invalid
  rw [seq_ok, seq_ok, seq_ok, checkModel_ok, checkDemography_ok, checkLoci_ok]
  by_cases hl : badLociNumber r
  · simp [hl]
  · have h1 : 1 ≤ r.loci := by unfold badLociNumber at hl; omega
    have h2 : r.loci ≤ 2 := by unfold badLociNumber at hl; omega
    rw [checkQuery_ok r h1 h2]
    simp only [not_or]
    constructor
    · rintro ⟨a, b, ⟨c, d, e⟩, f, h, i, g⟩
      exact ⟨a, b, c, d, e, f, g, h, i⟩
    · rintro ⟨a, b, c, d, e, f, g, h, i⟩
      exact ⟨a, b, ⟨c, d, e⟩, f, h, i, g⟩

/-- **C20 (completeness)**: every request in one of the invalid classes raises. -/
theorem C20_complete (r : Request) (h : invalid r) : (validate r).isOk = false := by
  rw [isOk_false_iff]
  intro hok
  exact (validate_ok_iff r).1 hok h

/-- **C20 (soundness)**: a request outside all invalid classes passes every check. -/
theorem C20_sound (r : Request) (h : ¬ invalid r) : validate r = .ok () :=
  (validate_ok_iff r).2 h

/-- The pinned variant differs from the repaired one only on a negative separate recombination rate
next to a LocusConfig. -/
theorem pinned_agrees (r : Request) (h : ¬ (r.viaConfig = true ∧ optLt r.recArg 0)) :
    validatePinned r = validate r := by
  unfold validatePinned validate validateWith checkLoci
  by_cases hv : r.viaConfig = true
  · have hx : ¬ optLt r.recArg 0 := fun hx => h ⟨hv, hx⟩
    have : check (optLt r.recArg 0) Err.valueError = .ok () := (check_ok _ _).2 hx
    simp [hv, this]
  · simp [hv]

/-! ### boundary members of every class (`decide`) -/

/-- the default request is valid -/
theorem boundary_default : validate {} = .ok () ∧ ¬ invalid {} := by decide

/-- alpha: 1 and 2 accepted, just outside rejected; psi: 0 and 1 rejected -/
theorem boundary_model :
    validate { model := .beta, alpha := 1 } = .ok () ∧
    validate { model := .beta, alpha := 2 } = .ok () ∧
    validate { model := .beta, alpha := 999 / 1000 } = .error .valueError ∧
    validate { model := .beta, alpha := 2001 / 1000 } = .error .valueError ∧
    validate { model := .dirac, psi := 0 } = .error .valueError ∧
    validate { model := .dirac, psi := 1 } = .error .valueError ∧
    validate { model := .dirac, psi := 1 / 1000, c := -1 } = .ok () := by
  decide +kernel

/-- sizes `<= 0` rejected (0 itself too), rates `< 0` rejected (0 accepted), negative change time -/
theorem boundary_demography :
    validate { sizes := [(0, 1), (1, 0)] } = .error .valueError ∧
    validate { sizes := [(0, 1)], rates := [(0, 0)] } = .ok () ∧
    validate { sizes := [(0, 1)], rates := [(0, -1 / 1000)] } = .error .valueError ∧
    validate { sizes := [(0, 1), (-1, 1)] } = .error .valueError := by
  decide +kernel

/-- loci `< 1`: ValueError, `> 2`: NotImplementedError, by both routes; negative `n_unlinked` -/
theorem boundary_loci :
    validate { loci := 0 } = .error .valueError ∧
    validate { loci := 3 } = .error .notImplemented ∧
    validate { loci := 0, viaConfig := true } = .error .valueError ∧
    validate { loci := 3, viaConfig := true } = .error .notImplemented ∧
    validate { loci := 2 } = .ok () ∧
    validate { loci := 2, viaConfig := true, nUnlinked := -1 } = .error .valueError ∧
    validate { loci := 2, viaConfig := true, nUnlinked := 0 } = .ok () := by
  decide

/-- negative recombination rate by every route (0 accepted) -/
theorem boundary_recombination :
    validate { loci := 2, recArg := some (-1) } = .error .valueError ∧
    validate { loci := 2, recArg := some 0 } = .ok () ∧
    validate { loci := 2, viaConfig := true, recLocus := -1 } = .error .valueError ∧
    validate { loci := 2, viaConfig := true, recLocus := 0, recArg := some (-1) } = .error .valueError ∧
    validate { loci := 2, viaConfig := true, recLocus := 1, recArg := some 0 } = .ok () := by
  decide

/-- two loci with SFS statistics or with a multiple-merger model -/
theorem boundary_two_loci :
    validate { loci := 2, sfs := true } = .error .notImplemented ∧
    validate { loci := 2, sfs := true, folded := true, query := .moment 2 2 none } = .error .notImplemented ∧
    validate { loci := 2, query := .mutationConfig 3 1 1 } = .error .notImplemented ∧
    validate { loci := 2, model := .beta } = .error .notImplemented ∧
    validate { loci := 2, model := .dirac, query := .cdf [1] } = .error .notImplemented ∧
    validate { loci := 2, model := .beta, query := .quantile (1 / 2) } = .error .notImplemented ∧
    validate { loci := 1, model := .beta, sfs := true } = .ok () := by
  decide +kernel

/-- construction times: negative start/end, end before start; equality accepted -/
theorem boundary_times :
    validate { startTime := -1 } = .error .valueError ∧
    validate { endTime := some (-1) } = .error .valueError ∧
    validate { startTime := 2, endTime := some 1 } = .error .valueError ∧
    validate { startTime := 2, endTime := some 2 } = .ok () ∧
    validate { startTime := 0, endTime := some 0 } = .ok () := by
  decide

/-- query arguments -/
theorem boundary_query :
    validate { query := .cdf [0, 1] } = .ok () ∧
    validate { query := .cdf [1, -1 / 1000] } = .error .valueError ∧
    validate { query := .accumulate 2 2 [0, 1] } = .ok () ∧
    validate { query := .accumulate 2 1 [0, 1] } = .error .valueError ∧
    validate { query := .accumulate 2 3 [0, 1] } = .error .valueError ∧
    validate { query := .accumulate 1 1 [1, -1] } = .error .valueError ∧
    validate { query := .moment 1 1 (some 0) } = .ok () ∧
    validate { query := .moment 1 1 (some (-1)) } = .error .valueError ∧
    validate { query := .moment 2 1 none } = .error .valueError ∧
    validate { query := .quantile 0 } = .ok () ∧
    validate { query := .quantile 1 } = .ok () ∧
    validate { query := .quantile (-1 / 1000) } = .error .valueError ∧
    validate { query := .quantile (1001 / 1000) } = .error .valueError := by
  decide +kernel

/-- mutation configurations: length `n - 1` unfolded / `n // 2` folded, theta `>= 0`, one epoch -/
theorem boundary_mutation_config :
    validate { n := 5, query := .mutationConfig 4 0 1 } = .ok () ∧
    validate { n := 5, query := .mutationConfig 3 1 1 } = .error .valueError ∧
    validate { n := 5, query := .mutationConfig 5 1 1 } = .error .valueError ∧
    validate { n := 5, folded := true, query := .mutationConfig 2 1 1 } = .ok () ∧
    validate { n := 5, folded := true, query := .mutationConfig 3 1 1 } = .error .valueError ∧
    validate { n := 5, query := .mutationConfig 4 (-1 / 1000) 1 } = .error .valueError ∧
    validate { n := 5, query := .mutationConfig 4 1 2 } = .error .notImplemented := by
  decide +kernel

/-- **The pinned defect**: a negative recombination rate passed next to a `LocusConfig` is in an
invalid class, is rejected by the repaired checks and accepted by the pinned ones. -/
theorem pinned_defect :
    let r : Request := { loci := 2, viaConfig := true, recArg := some (-1) }
    invalid r ∧ validate r = .error .valueError ∧ validatePinned r = .ok () := by
  decide

/-- The order-0 escapes of the real code, which is why `invalid` carves them out: `accumulate(0, …)`
returns ones before looking at the times or the state space. -/
theorem order0_escapes :
    validate { query := .accumulate 0 0 [-1] } = .ok () ∧
    validate { loci := 2, model := .beta, query := .accumulate 0 0 [1] } = .ok () ∧
    validate { loci := 2, model := .beta, query := .moment 0 0 (some 1) } = .ok () ∧
    validate { loci := 2, model := .beta, query := .moment 0 0 none } = .error .notImplemented ∧
    validate { loci := 2, model := .beta, endTime := some 1, query := .moment 0 0 none } = .ok () := by
  decide +kernel

end PG.Validate

#print axioms PG.Validate.validate_ok_iff
#print axioms PG.Validate.C20_complete
#print axioms PG.Validate.C20_sound
#print axioms PG.Validate.pinned_agrees
#print axioms PG.Validate.pinned_defect
#print axioms PG.Validate.boundary_model
#print axioms PG.Validate.boundary_query
#print axioms PG.Validate.order0_escapes
