/-
PGProofs.Bridge — the executable state-space code model (`PGModel.Space`) builds, on lineage
counts, exactly the generator which `PGProofs.Labelled` proves to be the lumping of the labelled
particle system.
-/
import PGModel.Space
import PGProofs.RatesThm
import PGProofs.Labelled
import Mathlib.Data.List.FinRange
import Mathlib.Data.List.Basic
import Mathlib.Logic.Relation
import Mathlib.Algebra.BigOperators.Fin
import Mathlib.Algebra.BigOperators.Intervals
import Mathlib.Algebra.BigOperators.Group.List.Basic
import Mathlib.Algebra.Order.Field.Rat
import Mathlib.Tactic.Ring
import Mathlib.Tactic.Linarith

set_option linter.unusedSectionVars false
set_option linter.unusedSimpArgs false

open Finset

namespace PG

/-! ## 0. Definitions -/

/-- the generator row encoded by a target dictionary, applied to a function `g` -/
def genOf (tr : Targets) (g : State → ℚ) (s : State) : ℚ :=
  (tr.map fun p => p.2 * (g p.1 - g s)).sum

/-- lineage-counting state (one locus, one block column) with `c d` lineages in deme `d` -/
def encLC {D : ℕ} (c : Fin D → ℕ) : State :=
  { lin := [List.ofFn fun d => [c d]], lnk := [List.ofFn fun _ : Fin D => [0]] }

/-- epoch parameters as lists, from functions -/
def mkEpoch {D : ℕ} (ts : Fin D → ℚ) (mig : Fin D → Fin D → ℚ) (r : ℚ) : EpochP :=
  { ts := List.ofFn ts, mig := List.ofFn fun a => List.ofFn fun b => mig a b, recRate := r }

/-! ## 1. Dictionaries -/

section Dict
variable {κ : Type} {ν : Type}

/-- the key list of a dictionary -/
def keys (d : Dict κ ν) : List κ := d.map Prod.fst

/-- weighted sum over a dictionary -/
def genD (d : Dict κ ℚ) (G : κ → ℚ) : ℚ := (d.map fun p => p.2 * G p.1).sum

theorem genOf_eq_genD (tr : Targets) (g : State → ℚ) (s : State) :
    genOf tr g s = genD tr (fun t => g t - g s) := rfl

@[simp] theorem keys_nil : keys ([] : Dict κ ν) = [] := rfl
@[simp] theorem keys_append (d e : Dict κ ν) : keys (d ++ e) = keys d ++ keys e := by
  simp [keys]
@[simp] theorem keys_cons (p : κ × ν) (d : Dict κ ν) : keys (p :: d) = p.1 :: keys d := rfl
theorem nodup_keys_nil : (keys ([] : Dict κ ν)).Nodup := List.nodup_nil
@[simp] theorem genD_nil (G : κ → ℚ) : genD ([] : Dict κ ℚ) G = 0 := rfl
@[simp] theorem genD_cons (p : κ × ℚ) (d : Dict κ ℚ) (G : κ → ℚ) :
    genD (p :: d) G = p.2 * G p.1 + genD d G := by simp [genD]
@[simp] theorem genD_append (d e : Dict κ ℚ) (G : κ → ℚ) :
    genD (d ++ e) G = genD d G + genD e G := by simp [genD]

theorem genD_flatMap {α : Type} (l : List α) (F : α → Dict κ ℚ) (G : κ → ℚ) :
    genD (l.flatMap F) G = (l.map fun x => genD (F x) G).sum := by
  induction l with
  | nil => simp
  | cons x xs ih => simp [List.flatMap_cons, ih]

variable [BEq κ] [LawfulBEq κ]

theorem any_key_iff (d : Dict κ ν) (k : κ) :
    d.any (fun p => p.1 == k) = true ↔ k ∈ keys d := by
  simp only [List.any_eq_true, beq_iff_eq, keys, List.mem_map]

theorem addTarget_of_not_mem (d : Dict κ ℚ) (k : κ) (r : ℚ) (h : k ∉ keys d) :
    Dict.addTarget d k r = d ++ [(k, r)] := by
  unfold Dict.addTarget
  rw [if_neg]
  rwa [any_key_iff]

theorem addTarget_of_mem (d : Dict κ ℚ) (k : κ) (r : ℚ) (h : k ∈ keys d) :
    Dict.addTarget d k r = d.map (fun p => if p.1 == k then (p.1, p.2 + r) else p) := by
  unfold Dict.addTarget
  rw [if_pos]
  rwa [any_key_iff]

theorem insert_of_not_mem (d : Dict κ ν) (k : κ) (v : ν) (h : k ∉ keys d) :
    Dict.insert d k v = d ++ [(k, v)] := by
  unfold Dict.insert
  rw [if_neg]
  rwa [any_key_iff]

theorem keys_map_upd (d : Dict κ ℚ) (k : κ) (r : ℚ) :
    keys (d.map (fun p => if p.1 == k then (p.1, p.2 + r) else p)) = keys d := by
  unfold keys
  rw [List.map_map]
  apply List.map_congr_left
  intro p _
  simp only [Function.comp]
  split_ifs <;> rfl

/-- keys of `addTarget` (present key) -/
theorem keys_addTarget_of_mem (d : Dict κ ℚ) (k : κ) (r : ℚ) (h : k ∈ keys d) :
    keys (Dict.addTarget d k r) = keys d := by
  rw [addTarget_of_mem d k r h, keys_map_upd]

/-- keys of `addTarget` (new key) -/
theorem keys_addTarget_of_not_mem (d : Dict κ ℚ) (k : κ) (r : ℚ) (h : k ∉ keys d) :
    keys (Dict.addTarget d k r) = keys d ++ [k] := by
  rw [addTarget_of_not_mem d k r h]; simp

theorem mem_keys_addTarget (d : Dict κ ℚ) (k : κ) (r : ℚ) (x : κ) :
    x ∈ keys (Dict.addTarget d k r) ↔ x ∈ keys d ∨ x = k := by
  by_cases h : k ∈ keys d
  · rw [keys_addTarget_of_mem d k r h]
    constructor
    · exact Or.inl
    · rintro (h' | rfl); exacts [h', h]
  · rw [keys_addTarget_of_not_mem d k r h]; simp

theorem nodup_keys_addTarget (d : Dict κ ℚ) (k : κ) (r : ℚ) (hn : (keys d).Nodup) :
    (keys (Dict.addTarget d k r)).Nodup := by
  by_cases h : k ∈ keys d
  · rwa [keys_addTarget_of_mem d k r h]
  · rw [keys_addTarget_of_not_mem d k r h]
    exact List.Nodup.append hn (List.nodup_singleton k) (by simpa using h)

theorem genD_map_upd (d : Dict κ ℚ) (k : κ) (r : ℚ) (G : κ → ℚ) (hn : (keys d).Nodup)
    (hk : k ∈ keys d) :
    genD (d.map fun p => if p.1 == k then (p.1, p.2 + r) else p) G = genD d G + r * G k := by
  induction d with
  | nil => simp at hk
  | cons p d ih =>
    rw [keys_cons, List.nodup_cons] at hn
    rw [List.map_cons, genD_cons, genD_cons]
    by_cases hp : p.1 = k
    · have hmap : d.map (fun q => if q.1 == k then (q.1, q.2 + r) else q) = d := by
        conv_rhs => rw [← List.map_id d]
        apply List.map_congr_left
        intro q hq
        have : q.1 ≠ k := by
          rintro rfl
          exact hn.1 (hp ▸ List.mem_map_of_mem (f := Prod.fst) hq)
        simp [this]
      rw [hmap]
      simp only [hp, beq_self_eq_true, if_true]
      ring
    · have hk' : k ∈ keys d := by
        rw [keys_cons, List.mem_cons] at hk
        rcases hk with rfl | h
        · exact absurd rfl hp
        · exact h
      rw [ih hn.2 hk']
      simp only [hp, beq_iff_eq, if_false]
      ring

/-- **`add_target` adds `r * G k` to the encoded generator row**, whether or not the key was
present (on dictionaries with unique keys, which is what `add_target` maintains). -/
theorem genD_addTarget (d : Dict κ ℚ) (k : κ) (r : ℚ) (G : κ → ℚ) (hn : (keys d).Nodup) :
    genD (Dict.addTarget d k r) G = genD d G + r * G k := by
  by_cases h : k ∈ keys d
  · rw [addTarget_of_mem d k r h, genD_map_upd d k r G hn h]
  · rw [addTarget_of_not_mem d k r h]; simp

/-- right-biased union with fresh unique keys is concatenation -/
theorem union_eq_append (d e : Dict κ ν) (hn : (keys e).Nodup) (hd : ∀ k ∈ keys e, k ∉ keys d) :
    Dict.union d e = d ++ e := by
  unfold Dict.union
  induction e generalizing d with
  | nil => simp
  | cons p e ih =>
    rw [keys_cons, List.nodup_cons] at hn
    rw [List.foldl_cons, insert_of_not_mem d p.1 p.2 (hd _ (by simp))]
    rw [ih _ hn.2]
    · simp
    · intro k hk
      rw [keys_append, List.mem_append, not_or]
      refine ⟨hd k (by simp [hk]), ?_⟩
      simp only [keys_cons, keys_nil, List.mem_singleton]
      rintro rfl
      exact hn.1 hk

theorem union_nil_left (e : Dict κ ν) (hn : (keys e).Nodup) : Dict.union [] e = e := by
  rw [union_eq_append [] e hn (by simp)]; simp

theorem union_nil_right (d : Dict κ ν) : Dict.union d [] = d := rfl

theorem genD_union (d e : Dict κ ℚ) (G : κ → ℚ) (hn : (keys e).Nodup)
    (hd : ∀ k ∈ keys e, k ∉ keys d) :
    genD (Dict.union d e) G = genD d G + genD e G := by
  rw [union_eq_append d e hn hd, genD_append]

/-- successive `add_target`s -/
def addAll (d : Dict κ ℚ) (L : List (κ × ℚ)) : Dict κ ℚ :=
  L.foldl (fun acc q => Dict.addTarget acc q.1 q.2) d

@[simp] theorem addAll_nil (d : Dict κ ℚ) : addAll d [] = d := rfl
@[simp] theorem addAll_cons (d : Dict κ ℚ) (q : κ × ℚ) (L : List (κ × ℚ)) :
    addAll d (q :: L) = addAll (Dict.addTarget d q.1 q.2) L := rfl
theorem addAll_append (d : Dict κ ℚ) (L M : List (κ × ℚ)) :
    addAll d (L ++ M) = addAll (addAll d L) M := by
  simp [addAll, List.foldl_append]

theorem nodup_keys_addAll (d : Dict κ ℚ) (L : List (κ × ℚ)) (hn : (keys d).Nodup) :
    (keys (addAll d L)).Nodup := by
  induction L generalizing d with
  | nil => exact hn
  | cons q L ih => exact ih _ (nodup_keys_addTarget d q.1 q.2 hn)

theorem genD_addAll (d : Dict κ ℚ) (L : List (κ × ℚ)) (G : κ → ℚ) (hn : (keys d).Nodup) :
    genD (addAll d L) G = genD d G + genD L G := by
  induction L generalizing d with
  | nil => simp
  | cons q L ih =>
    rw [addAll_cons, ih _ (nodup_keys_addTarget d q.1 q.2 hn), genD_addTarget d q.1 q.2 G hn,
      genD_cons]
    ring

theorem mem_keys_addAll (d : Dict κ ℚ) (L : List (κ × ℚ)) (x : κ) :
    x ∈ keys (addAll d L) ↔ x ∈ keys d ∨ x ∈ keys L := by
  induction L generalizing d with
  | nil => simp
  | cons q L ih =>
    rw [addAll_cons, ih, mem_keys_addTarget, keys_cons, List.mem_cons]
    tauto

/-- a guarded `add_target` loop is `addAll` of the list of its effective insertions -/
theorem foldl_if_addTarget {α : Type} (l : List α) (p : α → Prop) [DecidablePred p]
    (t : α → κ) (r : α → ℚ) (init : Dict κ ℚ) :
    l.foldl (fun acc x => if p x then Dict.addTarget acc (t x) (r x) else acc) init
      = addAll init ((l.filter fun x => decide (p x)).map fun x => (t x, r x)) := by
  induction l generalizing init with
  | nil => rfl
  | cons x xs ih =>
    rw [List.foldl_cons, ih]
    by_cases hp : p x
    · simp [hp, List.filter_cons]
    · simp [hp, List.filter_cons]

theorem foldl_addTarget {α : Type} (l : List α) (t : α → κ) (r : α → ℚ) (init : Dict κ ℚ) :
    l.foldl (fun acc x => Dict.addTarget acc (t x) (r x)) init
      = addAll init (l.map fun x => (t x, r x)) := by
  unfold addAll
  rw [List.foldl_map]

theorem foldl_addAll {α : Type} (l : List α) (F : α → List (κ × ℚ)) (init : Dict κ ℚ) :
    l.foldl (fun acc x => addAll acc (F x)) init = addAll init (l.flatMap F) := by
  induction l generalizing init with
  | nil => rfl
  | cons x xs ih => rw [List.foldl_cons, ih, List.flatMap_cons, addAll_append]

/-- the fold characterisation asked for: a guarded `add_target` loop adds the guarded terms -/
theorem genD_foldl_if_addTarget {α : Type} (l : List α) (p : α → Prop) [DecidablePred p]
    (t : α → κ) (r : α → ℚ) (init : Dict κ ℚ) (G : κ → ℚ) (hn : (keys init).Nodup) :
    genD (l.foldl (fun acc x => if p x then Dict.addTarget acc (t x) (r x) else acc) init) G
      = genD init G + ((l.filter fun x => decide (p x)).map fun x => r x * G (t x)).sum := by
  rw [foldl_if_addTarget, genD_addAll _ _ _ hn]
  simp [genD, List.map_map, Function.comp_def]

end Dict

deriving instance ReflBEq, LawfulBEq for State

/-! ### The same facts for `genOf` -/

/-- `add_target` merges equal keys by adding the rates, so the encoded generator row gains
`r * (g t - g s)` whether or not the key was present. (The dictionary must have unique keys —
which `add_target` itself maintains, `nodup_keys_addTarget`; on `[(k,1),(k,1)]` the code would
add `r` twice.) -/
theorem genOf_addTarget (d : Targets) (t : State) (r : ℚ) (g : State → ℚ) (s : State)
    (hn : (keys d).Nodup) :
    genOf (Dict.addTarget d t r) g s = genOf d g s + r * (g t - g s) := by
  simp only [genOf_eq_genD]
  exact genD_addTarget d t r _ hn

/-- `|=` of dictionaries with disjoint key sets adds the generator rows -/
theorem genOf_union (d e : Targets) (g : State → ℚ) (s : State) (hn : (keys e).Nodup)
    (hd : ∀ k ∈ keys e, k ∉ keys d) :
    genOf (Dict.union d e) g s = genOf d g s + genOf e g s := by
  simp only [genOf_eq_genD]
  exact genD_union d e _ hn hd

theorem genOf_union_nil (e : Targets) (g : State → ℚ) (s : State) (hn : (keys e).Nodup) :
    genOf (Dict.union [] e) g s = genOf e g s := by
  rw [union_nil_left e hn]

/-- the fold characterisation for `genOf` -/
theorem genOf_foldl_if_addTarget {α : Type} (l : List α) (p : α → Prop) [DecidablePred p]
    (t : α → State) (r : α → ℚ) (init : Targets) (g : State → ℚ) (s : State)
    (hn : (keys init).Nodup) :
    genOf (l.foldl (fun acc x => if p x then Dict.addTarget acc (t x) (r x) else acc) init) g s
      = genOf init g s
        + ((l.filter fun x => decide (p x)).map fun x => r x * (g (t x) - g s)).sum := by
  simp only [genOf_eq_genD]
  exact genD_foldl_if_addTarget l p t r init _ hn

/-! ## 2. The encoding of count vectors -/

section Enc
variable {D : ℕ}

theorem ofFn_modify {α : Type} (F : Fin D → α) (d : Fin D) (h : α → α) :
    (List.ofFn F).modify d.val h = List.ofFn (Function.update F d (h (F d))) := by
  apply List.ext_getElem?
  intro j
  rw [List.getElem?_modify, List.getElem?_ofFn, List.getElem?_ofFn]
  by_cases hj : j < D
  · simp only [hj, dite_true, Option.map_eq_map, Option.map_some, Option.some.injEq]
    by_cases hdj : d.val = j
    · have : (⟨j, hj⟩ : Fin D) = d := Fin.ext hdj.symm
      simp [hdj, this]
    · have : (⟨j, hj⟩ : Fin D) ≠ d := fun h => hdj (by rw [← h])
      simp [hdj, this]
  · simp [hj]

theorem ofFn_set {α : Type} (F : Fin D → α) (d : Fin D) (a : α) :
    (List.ofFn F).set d.val a = List.ofFn (Function.update F d a) := by
  rw [List.set_eq_modify, ofFn_modify]

theorem ofFn_singleton_update (c : Fin D → ℕ) (d : Fin D) (b : ℕ) :
    Function.update (fun t => [c t]) d [b] = fun t => [Function.update c d b t] := by
  funext t
  by_cases h : t = d
  · subst h; simp
  · simp [h]

theorem modify3_enc (c : Fin D → ℕ) (d : Fin D) (f : ℕ → ℕ) :
    modify3 [List.ofFn fun t => [c t]] 0 d.val 0 f
      = [List.ofFn fun t => [Function.update c d (f (c d)) t]] := by
  unfold modify3
  rw [List.modify_zero_cons, ofFn_modify]
  simp only [List.modify_zero_cons]
  rw [ofFn_singleton_update]

theorem get3_enc (c : Fin D → ℕ) (d : Fin D) :
    get3 [List.ofFn fun t => [c t]] 0 d.val 0 = c d := by
  simp [get3, List.getD_eq_getElem?_getD, List.getElem?_ofFn]

theorem get3_enc_zero (d : Fin D) :
    get3 [List.ofFn fun _ : Fin D => [0]] 0 d.val 0 = 0 := get3_enc (fun _ => 0) d

theorem nLoci_enc (c : Fin D → ℕ) : (encLC c).nLoci = 1 := rfl

theorem nDemes_enc (c : Fin D → ℕ) : (encLC c).nDemes = D := by
  simp [State.nDemes, encLC]

theorem nBlocks_enc (c : Fin D → ℕ) (hD : 0 < D) : (encLC c).nBlocks = 1 := by
  simp [State.nBlocks, encLC, List.getD_eq_getElem?_getD, List.getElem?_ofFn, hD]

theorem unl_enc (c : Fin D → ℕ) (d : Fin D) : (encLC c).unl 0 d.val 0 = c d := by
  unfold State.unl
  simp only [encLC]
  rw [get3_enc, get3_enc_zero, Nat.sub_zero]

theorem blocks_enc (c : Fin D → ℕ) (d : Fin D) :
    ((encLC c).lin.getD 0 []).getD d.val [] = [c d] := by
  simp [encLC, List.getD_eq_getElem?_getD, List.getElem?_ofFn]

theorem locusTotal_enc (c : Fin D → ℕ) : (encLC c).locusTotal 0 = ∑ d, c d := by
  unfold State.locusTotal
  rw [sumNat_eq, Fin.sum_univ_def]
  simp [encLC, List.ofFn_eq_map, sumNat_eq, Function.comp_def]

theorem encLC_injective : Function.Injective (encLC (D := D)) := by
  intro c c' h
  funext d
  have := congrArg (fun s => get3 s.lin 0 d.val 0) h
  simpa [encLC, get3_enc] using this

theorem m_mkEpoch (ts : Fin D → ℚ) (mig : Fin D → Fin D → ℚ) (r : ℚ) (d d' : Fin D) :
    (mkEpoch ts mig r).m d.val d'.val = mig d d' := by
  simp [EpochP.m, mkEpoch, List.getD_eq_getElem?_getD, List.getElem?_ofFn]

theorem getR_mkEpoch (ts : Fin D → ℚ) (mig : Fin D → Fin D → ℚ) (r : ℚ) (d : Fin D) :
    getR (mkEpoch ts mig r).ts d.val = ts d := by
  simp [getR, mkEpoch, List.getD_eq_getElem?_getD, List.getElem?_ofFn]

/-- the target of a migration event in the code is the encoding of `c - e1 d + e1 d'` -/
theorem migTarget_enc (c : Fin D → ℕ) (d d' : Fin D) :
    ({ encLC c with lin := modify3 (modify3 (encLC c).lin 0 d.val 0 (· - 1)) 0 d'.val 0 (· + 1) }
      : State) = encLC (c - e1 d + e1 d') := by
  simp only [encLC]
  rw [modify3_enc, modify3_enc]
  congr 3
  funext t
  congr 1
  by_cases h' : t = d'
  · subst h'
    by_cases h : t = d
    · subst h; simp [e1]
    · simp [e1, h]
  · by_cases h : t = d
    · subst h; simp [e1, h']
    · simp [e1, h, h']

/-- the target of a merger event in the code is the encoding of the updated count vector -/
theorem coalTarget_enc (c : Fin D → ℕ) (d : Fin D) (b : ℕ) :
    ({ encLC c with lin := (encLC c).lin.modify 0 fun x => x.set d.val [b] } : State)
      = encLC (Function.update c d b) := by
  simp only [encLC]
  rw [List.modify_zero_cons, ofFn_set, ofFn_singleton_update]

end Enc

/-! ## 3. Migration -/

section Migrate
variable {D : ℕ}

/-- all ordered pairs of demes, in the order of `pairs` -/
def finPairs (D : ℕ) : List (Fin D × Fin D) :=
  (List.finRange D).flatMap fun i => (List.finRange D).map fun j => (i, j)

theorem pairs_eq (D : ℕ) : pairs D = (finPairs D).map fun p => (p.1.val, p.2.val) := by
  unfold pairs finPairs
  simp only [← List.map_coe_finRange_eq_range (n := D), List.flatMap_map, List.map_flatMap,
    List.map_map, Function.comp_def]

theorem sum_map_filter {α : Type} (l : List α) (p : α → Bool) (f : α → ℚ) :
    ((l.filter p).map f).sum = (l.map fun x => if p x then f x else 0).sum := by
  induction l with
  | nil => rfl
  | cons x xs ih =>
    by_cases hp : p x
    · simp [List.filter_cons, hp, ih]
    · simp [List.filter_cons, hp, ih]

theorem sum_finPairs (f : Fin D × Fin D → ℚ) :
    ((finPairs D).map f).sum = ∑ d, ∑ d', f (d, d') := by
  have h := genD_flatMap (List.finRange D)
    (fun i => (List.finRange D).map fun j => (((i, j) : Fin D × Fin D), (1 : ℚ))) f
  simp only [genD, List.map_flatMap, List.map_map, Function.comp_def, one_mul] at h
  unfold finPairs
  rw [List.map_flatMap]
  simp only [List.map_map, Function.comp_def]
  rw [h, Fin.sum_univ_def]
  simp only [Fin.sum_univ_def]

/-- the list of migration events of the count state `c`, in the order of the code -/
def migList (mig : Fin D → Fin D → ℚ) (c : Fin D → ℕ) : List (State × ℚ) :=
  ((finPairs D).filter fun p => decide (p.1 ≠ p.2) && decide (0 < c p.1)).map fun p =>
    (encLC (c - e1 p.1 + e1 p.2), mig p.1 p.2 * (c p.1 : ℚ))

theorem migrateUnlinked_enc (ts : Fin D → ℚ) (mig : Fin D → Fin D → ℚ) (r : ℚ) (c : Fin D → ℕ) :
    migrateUnlinked (mkEpoch ts mig r) (encLC c) = addAll [] (migList mig c) := by
  unfold migrateUnlinked
  simp only [nLoci_enc, nDemes_enc]
  rcases Nat.eq_zero_or_pos D with rfl | hD
  · simp [pairs, migList, finPairs]
  simp only [nBlocks_enc c hD, List.range_one, List.foldl_cons, List.foldl_nil]
  rw [pairs_eq, List.filter_map, List.foldl_map]
  rw [List.foldl_ext _ (fun acc p => if 0 < c p.1
      then Dict.addTarget acc (encLC (c - e1 p.1 + e1 p.2)) (mig p.1 p.2 * (c p.1 : ℚ)) else acc)]
  · rw [foldl_if_addTarget, List.filter_filter]
    unfold migList
    congr 2
    apply List.filter_congr
    intro p _
    rw [Bool.eq_iff_iff]
    simp [Fin.ext_iff, and_comm]
  · intro acc p _
    simp only [unl_enc, m_mkEpoch]
    rw [migTarget_enc]
    simp only [encLC, get3_enc, and_self]

theorem migrateLinked_enc (ep : EpochP) (c : Fin D → ℕ) : migrateLinked ep (encLC c) = [] := by
  unfold migrateLinked
  rw [if_pos (nLoci_enc c)]

theorem migrate_enc (ts : Fin D → ℚ) (mig : Fin D → Fin D → ℚ) (r : ℚ) (c : Fin D → ℕ) :
    migrate (mkEpoch ts mig r) (encLC c) = addAll [] (migList mig c) := by
  unfold migrate
  rw [migrateUnlinked_enc, migrateLinked_enc,
    union_nil_left _ (nodup_keys_addAll _ _ nodup_keys_nil)]

theorem genD_migList (mig : Fin D → Fin D → ℚ) (c : Fin D → ℕ) (G : State → ℚ) :
    genD (migList mig c) G
      = ∑ d, ∑ d', if d ≠ d' then (c d : ℚ) * mig d d' * G (encLC (c - e1 d + e1 d')) else 0 := by
  unfold migList genD
  rw [List.map_map, sum_map_filter, sum_finPairs]
  refine sum_congr rfl fun d _ => sum_congr rfl fun d' _ => ?_
  by_cases h : d = d'
  · simp [h]
  · rcases Nat.eq_zero_or_pos (c d) with h0 | h0
    · simp [h, h0]
    · simp only [Function.comp, h, h0, ne_eq, not_false_eq_true, decide_true, Bool.and_self,
        if_true]
      ring

/-- **Migration part of the generator row built by the code.** -/
theorem genOf_migrate (ts : Fin D → ℚ) (mig : Fin D → Fin D → ℚ) (r : ℚ) (c : Fin D → ℕ)
    (g : State → ℚ) :
    genOf (migrate (mkEpoch ts mig r) (encLC c)) g (encLC c)
      = ∑ d, ∑ d', if d ≠ d' then (c d : ℚ) * mig d d' *
          (g (encLC (c - e1 d + e1 d')) - g (encLC c)) else 0 := by
  rw [genOf_eq_genD, migrate_enc, genD_addAll _ _ _ nodup_keys_nil, genD_nil, zero_add,
    genD_migList]

/-- every migration target has the same number of lineages as the source -/
theorem migrate_keys_total (ts : Fin D → ℚ) (mig : Fin D → Fin D → ℚ) (r : ℚ) (c : Fin D → ℕ)
    (t : State) (ht : t ∈ keys (migrate (mkEpoch ts mig r) (encLC c))) :
    ∃ c' : Fin D → ℕ, t = encLC c' ∧ ∑ d, c' d = ∑ d, c d := by
  rw [migrate_enc, mem_keys_addAll] at ht
  rcases ht with ht | ht
  · simp at ht
  · unfold migList keys at ht
    rw [List.map_map, List.mem_map] at ht
    obtain ⟨p, hp, rfl⟩ := ht
    rw [List.mem_filter] at hp
    have hpos : 0 < c p.1 := by have := hp.2; simp at this; exact this.2
    refine ⟨_, rfl, ?_⟩
    have h1 : ∑ d, (c - e1 p.1 + e1 p.2) d + ∑ d, e1 p.1 d = ∑ d, c d + ∑ d, e1 p.2 d := by
      rw [← sum_add_distrib, ← sum_add_distrib]
      refine sum_congr rfl fun d _ => ?_
      by_cases h : d = p.1
      · subst h; simp only [Pi.add_apply, Pi.sub_apply, e1, Pi.single_eq_same]; omega
      · simp only [Pi.add_apply, Pi.sub_apply, e1, Pi.single_eq_of_ne h]; omega
    simp only [e1, Finset.sum_pi_single', mem_univ, if_true] at h1 ⊢
    omega

end Migrate

/-! ## 4. Coalescence -/

section Coalesce
variable {D : ℕ}

theorem sum_map_range_rat (n : ℕ) (f : ℕ → ℚ) :
    ((List.range n).map f).sum = ∑ i ∈ Finset.range n, f i := by
  induction n with
  | zero => simp
  | succ n ih => simp [List.range_succ, Finset.sum_range_succ, ih]

theorem drop_one_range (b : ℕ) : (List.range b).drop 1 = (List.range (b - 1)).map (· + 1) := by
  apply List.ext_getElem
  · simp
  · intro i h1 h2
    simp [Nat.add_comm]

theorem coalesceBlocks_kingman_single (b : ℕ) :
    coalesceBlocks .kingman [b] = if b > 1 then [([b - 1], kingmanRate b 2)] else [] := by
  simp [coalesceBlocks, coalesceStd, getN]

theorem coalesceBlocks_mm_single (m : Model) (hm : m ≠ .kingman) (b : ℕ) :
    coalesceBlocks m [b]
      = (List.range (b - 1)).map fun j => ([b - (j + 1)], getRate m b (j + 2)) := by
  have : coalesceBlocks m [b] = coalesceMM m [b] := by
    cases m with
    | kingman => exact absurd rfl hm
    | beta a st => rfl
    | dirac psi c st => rfl
  rw [this]
  unfold coalesceMM
  simp only [List.length_singleton, if_true, getN, List.getD_cons_zero]
  rw [drop_one_range, List.map_map]
  rfl

/-- all single-block merger outcomes have strictly fewer lineages -/
theorem coalesceBlocks_single_lt (m : Model) (b : ℕ) (q : List ℕ × ℚ)
    (hq : q ∈ coalesceBlocks m [b]) : ∃ b', b' < b ∧ q.1 = [b'] := by
  by_cases hm : m = .kingman
  · subst hm
    rw [coalesceBlocks_kingman_single] at hq
    split_ifs at hq with hb
    · simp only [List.mem_singleton] at hq
      subst hq
      exact ⟨b - 1, by omega, rfl⟩
    · simp at hq
  · rw [coalesceBlocks_mm_single m hm, List.mem_map] at hq
    obtain ⟨j, hj, rfl⟩ := hq
    rw [List.mem_range] at hj
    exact ⟨b - (j + 1), by omega, rfl⟩

/-- **The merger events of one deme**: outcome `[b - (k-1)]` at total rate
`C(b,k) λ_{b,k}`, `k = 2..b`, for all three models. -/
theorem coal_sum (m : Model) (b : ℕ) (tsd : ℚ) (H : List ℕ → ℚ) :
    ((coalesceBlocks m [b]).map fun q => q.2 / tsd * H q.1).sum
      = ∑ k ∈ Icc 2 b, (b.choose k : ℚ) * (lam m b k / tsd) * H [b - (k - 1)] := by
  by_cases hm : m = .kingman
  · subst hm
    rw [coalesceBlocks_kingman_single]
    split_ifs with hb
    · rw [Finset.sum_eq_single_of_mem 2 (mem_Icc.mpr ⟨le_rfl, hb⟩)]
      · simp only [List.map_cons, List.map_nil, List.sum_cons, List.sum_nil, add_zero,
          kingmanRate_eq, lam, if_true, mul_one]
        ring_nf
      · intro k _ hk
        simp [lam, hk]
    · rw [Finset.Icc_eq_empty (by omega)]
      simp
  · rw [coalesceBlocks_mm_single m hm, List.map_map, sum_map_range_rat]
    have hI : Icc 2 b = Ico 2 (b + 1) := by ext k; rw [mem_Icc, mem_Ico]; omega
    rw [hI, Finset.sum_Ico_eq_sum_range, show b + 1 - 2 = b - 1 by omega]
    refine sum_congr rfl fun j hj => ?_
    rw [mem_range] at hj
    simp only [Function.comp]
    rw [getRate_eq m b (j + 2) (by omega) (by omega), show 2 + j = j + 2 by omega,
      show j + 2 - 1 = j + 1 by omega]
    ring

/-- the list of merger events of the count state `c`, in the order of the code -/
def coalList (m : Model) (ts : Fin D → ℚ) (c : Fin D → ℕ) : List (State × ℚ) :=
  (List.finRange D).flatMap fun d => (coalesceBlocks m [c d]).map fun q =>
    (({ encLC c with lin := (encLC c).lin.modify 0 fun x => x.set d.val q.1 } : State), q.2 / ts d)

theorem coalesce1_enc (m : Model) (ts : Fin D → ℚ) (mig : Fin D → Fin D → ℚ) (r : ℚ)
    (c : Fin D → ℕ) :
    coalesce1 m (mkEpoch ts mig r) (encLC c) = addAll [] (coalList m ts c) := by
  unfold coalesce1
  simp only [nDemes_enc]
  rw [← List.map_coe_finRange_eq_range, List.foldl_map]
  rw [List.foldl_ext _ (fun acc d => addAll acc ((coalesceBlocks m [c d]).map fun q =>
    (({ encLC c with lin := (encLC c).lin.modify 0 fun x => x.set d.val q.1 } : State),
      q.2 / ts d)))]
  · rw [foldl_addAll]; rfl
  · intro acc d _
    rw [blocks_enc, getR_mkEpoch]
    exact foldl_addTarget _ _ _ _

theorem update_eq_sub (c : Fin D → ℕ) (d : Fin D) (k : ℕ) :
    Function.update c d (c d - (k - 1)) = c - (k - 1) • e1 d := by
  funext t
  by_cases h : t = d
  · subst h; simp [e1]
  · simp [e1, h]

theorem genD_coalList (m : Model) (ts : Fin D → ℚ) (c : Fin D → ℕ) (G : State → ℚ) :
    genD (coalList m ts c) G
      = ∑ d, ∑ k ∈ Icc 2 (c d), ((c d).choose k : ℚ) * (lam m (c d) k / ts d) *
          G (encLC (c - (k - 1) • e1 d)) := by
  unfold coalList
  rw [genD_flatMap, Fin.sum_univ_def]
  congr 1
  apply List.map_congr_left
  intro d _
  unfold genD
  rw [List.map_map]
  have := coal_sum m (c d) (ts d) (fun blk =>
    G ({ encLC c with lin := (encLC c).lin.modify 0 fun x => x.set d.val blk } : State))
  simp only [Function.comp_def]
  rw [this]
  refine sum_congr rfl fun k _ => ?_
  rw [coalTarget_enc, update_eq_sub]

/-- **Coalescence part of the generator row built by the code**, for all three models. -/
theorem genOf_coalesce1 (m : Model) (ts : Fin D → ℚ) (mig : Fin D → Fin D → ℚ) (r : ℚ)
    (c : Fin D → ℕ) (g : State → ℚ) :
    genOf (coalesce1 m (mkEpoch ts mig r) (encLC c)) g (encLC c)
      = ∑ d, ∑ k ∈ Icc 2 (c d), ((c d).choose k : ℚ) * (lam m (c d) k / ts d) *
          (g (encLC (c - (k - 1) • e1 d)) - g (encLC c)) := by
  rw [genOf_eq_genD, coalesce1_enc, genD_addAll _ _ _ nodup_keys_nil, genD_nil, zero_add,
    genD_coalList]

theorem sum_update_lt (c : Fin D → ℕ) (d : Fin D) (b' : ℕ) (h : b' < c d) :
    ∑ t, Function.update c d b' t < ∑ t, c t := by
  have h1 : ∑ t, Function.update c d b' t + c d = ∑ t, c t + b' := by
    rw [← Finset.add_sum_erase _ _ (mem_univ d), ← Finset.add_sum_erase _ c (mem_univ d)]
    have : ∑ t ∈ univ.erase d, Function.update c d b' t = ∑ t ∈ univ.erase d, c t := by
      refine sum_congr rfl fun t ht => ?_
      rw [Function.update_of_ne (mem_erase.mp ht).1]
    rw [this, Function.update_self]
    omega
  omega

/-- every merger target has strictly fewer lineages than the source -/
theorem coalesce1_keys_total (m : Model) (ts : Fin D → ℚ) (mig : Fin D → Fin D → ℚ) (r : ℚ)
    (c : Fin D → ℕ) (t : State) (ht : t ∈ keys (coalesce1 m (mkEpoch ts mig r) (encLC c))) :
    ∃ c' : Fin D → ℕ, t = encLC c' ∧ ∑ d, c' d < ∑ d, c d := by
  rw [coalesce1_enc, mem_keys_addAll] at ht
  rcases ht with ht | ht
  · simp at ht
  · unfold coalList keys at ht
    rw [List.mem_map] at ht
    obtain ⟨p, hp, rfl⟩ := ht
    rw [List.mem_flatMap] at hp
    obtain ⟨d, _, hp⟩ := hp
    rw [List.mem_map] at hp
    obtain ⟨q, hq, rfl⟩ := hp
    obtain ⟨b', hb', hq1⟩ := coalesceBlocks_single_lt m (c d) q hq
    refine ⟨Function.update c d b', ?_, sum_update_lt c d b' hb'⟩
    simp only [hq1]
    exact coalTarget_enc c d b'

end Coalesce

/-! ## 5. `transit` on count states: the bridge -/

section Transit
variable {D : ℕ}

theorem recombine_one_locus (ep : EpochP) (s : State) (h : s.nLoci = 1) : recombine ep s = [] := by
  unfold recombine
  rw [if_pos h]

theorem recombine_enc (ep : EpochP) (c : Fin D → ℕ) : recombine ep (encLC c) = [] :=
  recombine_one_locus ep _ (nLoci_enc c)

theorem isAbsorbing_enc (c : Fin D → ℕ) : (encLC c).isAbsorbing = true ↔ ∑ d, c d = 1 := by
  unfold State.isAbsorbing
  rw [nLoci_enc]
  simp [locusTotal_enc]

/-- for an absorbing state `transit` is by definition the migration dictionary -/
theorem transit_absorbing (m : Model) (ep : EpochP) (s : State) (h : s.isAbsorbing = true) :
    transit m ep s = Dict.union [] (migrate ep s) := by
  unfold transit
  simp only [h, if_true]

theorem nodup_keys_migrate_enc (ts : Fin D → ℚ) (mig : Fin D → Fin D → ℚ) (r : ℚ)
    (c : Fin D → ℕ) : (keys (migrate (mkEpoch ts mig r) (encLC c))).Nodup := by
  rw [migrate_enc]; exact nodup_keys_addAll _ _ nodup_keys_nil

theorem nodup_keys_coalesce1_enc (m : Model) (ts : Fin D → ℚ) (mig : Fin D → Fin D → ℚ) (r : ℚ)
    (c : Fin D → ℕ) : (keys (coalesce1 m (mkEpoch ts mig r) (encLC c))).Nodup := by
  rw [coalesce1_enc]; exact nodup_keys_addAll _ _ nodup_keys_nil

/-- the dictionary built by `transit` on a non-absorbing count state is the concatenation of the
migration and the coalescence dictionaries (their key sets are disjoint) -/
theorem transit_enc (m : Model) (ts : Fin D → ℚ) (mig : Fin D → Fin D → ℚ) (r : ℚ)
    (c : Fin D → ℕ) (hc : ∑ d, c d ≠ 1) :
    transit m (mkEpoch ts mig r) (encLC c)
      = migrate (mkEpoch ts mig r) (encLC c) ++ coalesce1 m (mkEpoch ts mig r) (encLC c) := by
  have hab : (encLC c).isAbsorbing = false := by
    rw [← Bool.not_eq_true, isAbsorbing_enc]; exact hc
  unfold transit
  simp only [hab, Bool.false_eq_true, if_false, nLoci_enc, if_true, recombine_enc]
  rw [union_nil_right, union_nil_left _ (nodup_keys_migrate_enc ts mig r c)]
  apply union_eq_append _ _ (nodup_keys_coalesce1_enc m ts mig r c)
  intro t ht hmem
  obtain ⟨c1, h1, hlt⟩ := coalesce1_keys_total m ts mig r c t ht
  obtain ⟨c2, h2, heq⟩ := migrate_keys_total ts mig r c t hmem
  have : c1 = c2 := encLC_injective (h1.symm.trans h2)
  subst this
  omega

theorem transit_enc_absorbing (m : Model) (ts : Fin D → ℚ) (mig : Fin D → Fin D → ℚ) (r : ℚ)
    (c : Fin D → ℕ) (hc : ∑ d, c d = 1) :
    transit m (mkEpoch ts mig r) (encLC c) = migrate (mkEpoch ts mig r) (encLC c) := by
  rw [transit_absorbing _ _ _ ((isAbsorbing_enc c).mpr hc),
    union_nil_left _ (nodup_keys_migrate_enc ts mig r c)]

/-- the generator row which the code builds at a non-absorbing count state, in closed form -/
theorem genOf_transit_closed (m : Model) (ts : Fin D → ℚ) (mig : Fin D → Fin D → ℚ) (r : ℚ)
    (c : Fin D → ℕ) (hc : ∑ d, c d ≠ 1) (g : State → ℚ) :
    genOf (transit m (mkEpoch ts mig r) (encLC c)) g (encLC c)
      = ∑ d, ∑ d', (if d ≠ d' then (c d : ℚ) * mig d d' *
            (g (encLC (c - e1 d + e1 d')) - g (encLC c)) else 0)
        + ∑ d, ∑ k ∈ Icc 2 (c d), ((c d).choose k : ℚ) * (lam m (c d) k / ts d) *
            (g (encLC (c - (k - 1) • e1 d)) - g (encLC c)) := by
  rw [transit_enc m ts mig r c hc, ← genOf_migrate ts mig r, ← genOf_coalesce1 m ts mig r]
  simp only [genOf_eq_genD, genD_append]

/-- **The bridge.** At every non-absorbing count state the generator row encoded by the
dictionary that `Transition.transit` builds is the count generator `QCs` of the lineage
process — for every number of demes, every count vector, each of the three coalescent models and
all rates. -/
theorem genOf_transit_lineage (m : Model) (ts : Fin D → ℚ) (mig : Fin D → Fin D → ℚ) (r : ℚ)
    (c : Fin D → ℕ) (hc : 2 ≤ ∑ d, c d) (g : State → ℚ) :
    genOf (transit m (mkEpoch ts mig r) (encLC c)) g (encLC c)
      = QCs (linRate (lam m) ts mig) linRes (fun c' => g (encLC c')) c := by
  rw [genOf_transit_closed m ts mig r c (by omega) g, lineage_closed_form]

/-- At an absorbing count state (one lineage left) only migration remains. -/
theorem genOf_transit_absorbing (m : Model) (ts : Fin D → ℚ) (mig : Fin D → Fin D → ℚ) (r : ℚ)
    (c : Fin D → ℕ) (hc : ∑ d, c d = 1) (g : State → ℚ) :
    genOf (transit m (mkEpoch ts mig r) (encLC c)) g (encLC c)
      = ∑ d, ∑ d', if d ≠ d' then (c d : ℚ) * mig d d' *
          (g (encLC (c - e1 d + e1 d')) - g (encLC c)) else 0 := by
  rw [transit_enc_absorbing m ts mig r c hc, genOf_migrate]

/-- At an absorbing count state the count generator `QCs` has no merger part either, so the
bridge holds there as well. -/
theorem genOf_transit_lineage_absorbing (m : Model) (ts : Fin D → ℚ) (mig : Fin D → Fin D → ℚ)
    (r : ℚ) (c : Fin D → ℕ) (hc : ∑ d, c d = 1) (g : State → ℚ) :
    genOf (transit m (mkEpoch ts mig r) (encLC c)) g (encLC c)
      = QCs (linRate (lam m) ts mig) linRes (fun c' => g (encLC c')) c := by
  rw [genOf_transit_absorbing m ts mig r c hc g, lineage_closed_form]
  have hz : ∑ d, ∑ k ∈ Icc 2 (c d), ((c d).choose k : ℚ) * (lam m (c d) k / ts d) *
      (g (encLC (c - (k - 1) • e1 d)) - g (encLC c)) = 0 := by
    refine sum_eq_zero fun d _ => ?_
    have : c d ≤ 1 := by
      rw [← hc]; exact Finset.single_le_sum (f := c) (fun _ _ => Nat.zero_le _) (mem_univ d)
    rw [Finset.Icc_eq_empty (by omega), Finset.sum_empty]
  rw [hz, add_zero]

/-- **C04 (lumping, lineage counting).** The generator which the code builds on counts is the
projection of the generator of the labelled particle system: for every labelled configuration
`x` of at least two lineages, the labelled generator applied to a function of the counts equals
the row of `Transition.transit` at the count state of `x`. -/
theorem C04_lumping_lineage (m : Model) (ts : Fin D → ℚ) (mig : Fin D → Fin D → ℚ) (r : ℚ)
    (g : State → ℚ) (x : List (Fin D)) (hx : 2 ≤ x.length) :
    QLs (linRate (lam m) ts mig) linRes (fun c' => g (encLC c')) x
      = genOf (transit m (mkEpoch ts mig r) (encLC (cntF x))) g (encLC (cntF x)) := by
  rw [lumpings, genOf_transit_lineage m ts mig r (cntF x) (by rw [sum_cntF]; exact hx) g]

/-- the same for every non-empty labelled configuration (absorbing ones included) -/
theorem C04_lumping_lineage' (m : Model) (ts : Fin D → ℚ) (mig : Fin D → Fin D → ℚ) (r : ℚ)
    (g : State → ℚ) (x : List (Fin D)) (hx : 1 ≤ x.length) :
    QLs (linRate (lam m) ts mig) linRes (fun c' => g (encLC c')) x
      = genOf (transit m (mkEpoch ts mig r) (encLC (cntF x))) g (encLC (cntF x)) := by
  rw [lumpings]
  rcases Nat.lt_or_ge x.length 2 with h | h
  · rw [genOf_transit_lineage_absorbing m ts mig r (cntF x) (by rw [sum_cntF]; omega) g]
  · rw [genOf_transit_lineage m ts mig r (cntF x) (by rw [sum_cntF]; exact h) g]

/-- the bridge at every count state, absorbing or not (also the empty one) -/
theorem genOf_transit_lineage_all (m : Model) (ts : Fin D → ℚ) (mig : Fin D → Fin D → ℚ) (r : ℚ)
    (c : Fin D → ℕ) (g : State → ℚ) :
    genOf (transit m (mkEpoch ts mig r) (encLC c)) g (encLC c)
      = QCs (linRate (lam m) ts mig) linRes (fun c' => g (encLC c')) c := by
  by_cases hc : ∑ d, c d = 1
  · exact genOf_transit_lineage_absorbing m ts mig r c hc g
  · rw [genOf_transit_closed m ts mig r c hc g, lineage_closed_form]

/-- the dictionary built by `transit` at a count state has unique keys … -/
theorem nodup_keys_transit_enc (m : Model) (ts : Fin D → ℚ) (mig : Fin D → Fin D → ℚ) (r : ℚ)
    (c : Fin D → ℕ) : (keys (transit m (mkEpoch ts mig r) (encLC c))).Nodup := by
  by_cases hc : ∑ d, c d = 1
  · rw [transit_enc_absorbing m ts mig r c hc]; exact nodup_keys_migrate_enc ts mig r c
  · rw [transit_enc m ts mig r c hc, keys_append]
    refine List.Nodup.append (nodup_keys_migrate_enc ts mig r c)
      (nodup_keys_coalesce1_enc m ts mig r c) ?_
    intro t hmem ht
    obtain ⟨c1, h1, hlt⟩ := coalesce1_keys_total m ts mig r c t ht
    obtain ⟨c2, h2, heq⟩ := migrate_keys_total ts mig r c t hmem
    have : c1 = c2 := encLC_injective (h1.symm.trans h2)
    subst this
    omega

/-- … and no self-loop -/
theorem transit_enc_no_self_loop (m : Model) (ts : Fin D → ℚ) (mig : Fin D → Fin D → ℚ) (r : ℚ)
    (c : Fin D → ℕ) : encLC c ∉ keys (transit m (mkEpoch ts mig r) (encLC c)) := by
  have hmig : encLC c ∉ keys (migrate (mkEpoch ts mig r) (encLC c)) := by
    rw [migrate_enc, mem_keys_addAll]
    rintro (h | h)
    · simp at h
    · unfold migList keys at h
      rw [List.map_map, List.mem_map] at h
      obtain ⟨p, hp, he⟩ := h
      rw [List.mem_filter] at hp
      have hp2 := hp.2
      simp only [ne_eq, Bool.and_eq_true, decide_eq_true_eq] at hp2
      have := congrFun (encLC_injective he) p.2
      have hne : p.2 ≠ p.1 := fun h => hp2.1 h.symm
      simp [e1, hne] at this
  by_cases hc : ∑ d, c d = 1
  · rw [transit_enc_absorbing m ts mig r c hc]; exact hmig
  · rw [transit_enc m ts mig r c hc, keys_append, List.mem_append, not_or]
    refine ⟨hmig, fun ht => ?_⟩
    obtain ⟨c1, h1, hlt⟩ := coalesce1_keys_total m ts mig r c _ ht
    have : c = c1 := encLC_injective h1
    subst this
    omega

/-- every target of `transit` at a count state is a count state with at most as many lineages -/
theorem transit_enc_keys (m : Model) (ts : Fin D → ℚ) (mig : Fin D → Fin D → ℚ) (r : ℚ)
    (c : Fin D → ℕ) (t : State) (ht : t ∈ keys (transit m (mkEpoch ts mig r) (encLC c))) :
    ∃ c' : Fin D → ℕ, t = encLC c' ∧ ∑ d, c' d ≤ ∑ d, c d := by
  by_cases hc : ∑ d, c d = 1
  · rw [transit_enc_absorbing m ts mig r c hc] at ht
    obtain ⟨c', h, he⟩ := migrate_keys_total ts mig r c t ht
    exact ⟨c', h, he.le⟩
  · rw [transit_enc m ts mig r c hc, keys_append, List.mem_append] at ht
    rcases ht with ht | ht
    · obtain ⟨c', h, he⟩ := migrate_keys_total ts mig r c t ht
      exact ⟨c', h, he.le⟩
    · obtain ⟨c', h, he⟩ := coalesce1_keys_total m ts mig r c t ht
      exact ⟨c', h, he.le⟩

end Transit

/-! ## 6. Shape of the generator built by `transit` (all states, any number of loci) -/

section Nonneg
variable {κ : Type} [BEq κ]

/-- all rates of a dictionary are non-negative -/
def NN (d : Dict κ ℚ) : Prop := ∀ p ∈ d, 0 ≤ p.2

theorem NN_nil : NN ([] : Dict κ ℚ) := fun _ h => absurd h List.not_mem_nil

theorem NN_addTarget (d : Dict κ ℚ) (k : κ) (r : ℚ) (hd : NN d) (hr : 0 ≤ r) :
    NN (Dict.addTarget d k r) := by
  unfold Dict.addTarget
  split_ifs
  · intro p hp
    rw [List.mem_map] at hp
    obtain ⟨q, hq, rfl⟩ := hp
    have := hd q hq
    split_ifs
    · exact add_nonneg this hr
    · exact this
  · intro p hp
    rw [List.mem_append, List.mem_singleton] at hp
    rcases hp with hp | rfl
    · exact hd p hp
    · exact hr

theorem mem_insert {ν : Type} (d : Dict κ ν) (k : κ) (v : ν) (p : κ × ν)
    (hp : p ∈ Dict.insert d k v) : p ∈ d ∨ p = (k, v) := by
  unfold Dict.insert at hp
  split_ifs at hp
  · rw [List.mem_map] at hp
    obtain ⟨q, hq, rfl⟩ := hp
    split_ifs
    · exact Or.inr rfl
    · exact Or.inl hq
  · rw [List.mem_append, List.mem_singleton] at hp
    exact hp

/-- every entry of a union comes from one of the two dictionaries -/
theorem mem_union {ν : Type} (d e : Dict κ ν) (p : κ × ν) (hp : p ∈ Dict.union d e) :
    p ∈ d ∨ p ∈ e := by
  unfold Dict.union at hp
  induction e generalizing d with
  | nil => exact Or.inl hp
  | cons q e ih =>
    rw [List.foldl_cons] at hp
    rcases ih _ hp with h | h
    · rcases mem_insert d q.1 q.2 p h with h' | h'
      · exact Or.inl h'
      · exact Or.inr (by rw [h']; exact List.mem_cons_self)
    · exact Or.inr (List.mem_cons_of_mem _ h)

theorem NN_union (d e : Dict κ ℚ) (hd : NN d) (he : NN e) : NN (Dict.union d e) := by
  intro p hp
  rcases mem_union d e p hp with h | h
  · exact hd p h
  · exact he p h

theorem foldl_inv_br {α β : Type} (P : β → Prop) (f : β → α → β) (l : List α) (init : β)
    (h0 : P init) (hs : ∀ acc x, x ∈ l → P acc → P (f acc x)) : P (l.foldl f init) := by
  induction l generalizing init with
  | nil => exact h0
  | cons x xs ih =>
    rw [List.foldl_cons]
    exact ih _ (hs _ _ List.mem_cons_self h0) fun acc y hy => hs acc y (List.mem_cons_of_mem _ hy)

end Nonneg

section RatesNonneg

theorem kingmanRate_nonneg (b k : ℕ) : 0 ≤ kingmanRate b k := by
  rw [kingmanRate_eq]
  split_ifs <;> simp

theorem kingmanRateBC_nonneg (bs ks : List ℕ) : 0 ≤ kingmanRateBC bs ks := by
  unfold kingmanRateBC
  split
  · exact kingmanRate_nonneg _ _
  · exact mul_nonneg (Nat.cast_nonneg _) (Nat.cast_nonneg _)
  · exact le_rfl

theorem binomPmf_nonneg (k n : ℕ) (p : ℚ) (h0 : 0 ≤ p) (h1 : p ≤ 1) : 0 ≤ binomPmf k n p := by
  rw [binomPmf_eq]
  have : 0 ≤ 1 - p := by linarith
  positivity

/-- `_get_rate` is non-negative for all arguments (valid parameters) -/
theorem getRate_nonneg_all (m : Model) (hm : m.Valid) (b k : ℕ) : 0 ≤ getRate m b k := by
  cases m with
  | kingman => exact kingmanRate_nonneg b k
  | beta a st =>
    obtain ⟨h1, h2⟩ := hm
    simp only [getRate]
    split_ifs
    · exact le_rfl
    · exact mul_nonneg (Nat.cast_nonneg _) (betaBase_nonneg a (by linarith) h2 b k)
  | dirac psi c st =>
    obtain ⟨h0, h1, hc⟩ := hm
    simp only [getRate]
    exact add_nonneg (kingmanRate_nonneg b k) (mul_nonneg (binomPmf_nonneg k b psi h0 h1) hc)

theorem zipWith_binomPmf_prod_nonneg (psi : ℚ) (h0 : 0 ≤ psi) (h1 : psi ≤ 1) (bs ks : List ℕ) :
    0 ≤ (List.zipWith (fun b k => binomPmf k b psi) bs ks).prod := by
  induction bs generalizing ks with
  | nil => simp
  | cons b bs ih =>
    cases ks with
    | nil => simp
    | cons k ks =>
      rw [List.zipWith_cons_cons, List.prod_cons]
      exact mul_nonneg (binomPmf_nonneg k b psi h0 h1) (ih ks)

/-- `_get_rate_block_counting` is non-negative for all arguments (valid parameters) -/
theorem getRateBC_nonneg_all (m : Model) (hm : m.Valid) (n : ℕ) (bs ks : List ℕ) :
    0 ≤ getRateBC m n bs ks := by
  cases m with
  | kingman => exact kingmanRateBC_nonneg bs ks
  | beta a st =>
    obtain ⟨h1, h2⟩ := hm
    simp only [getRateBC]
    exact mul_nonneg (Nat.cast_nonneg _) (betaBase_nonneg a (by linarith) h2 _ _)
  | dirac psi c st =>
    obtain ⟨h0, h1, hc⟩ := hm
    simp only [getRateBC, prodRat_eq]
    refine add_nonneg (kingmanRateBC_nonneg bs ks) (mul_nonneg ?_ hc)
    have hp := zipWith_binomPmf_prod_nonneg psi h0 h1 bs ks
    split_ifs
    · exact mul_nonneg hp (binomPmf_nonneg _ _ psi h0 h1)
    · exact hp

/-- all rates returned by `model.coalesce(n, blocks)` are non-negative -/
theorem coalesceBlocks_nonneg (m : Model) (hm : m.Valid) (blocks : List ℕ) :
    ∀ q ∈ coalesceBlocks m blocks, 0 ≤ q.2 := by
  have hMM : ∀ q ∈ coalesceMM m blocks, 0 ≤ q.2 := by
    intro q hq
    unfold coalesceMM at hq
    simp only at hq
    split_ifs at hq
    · rw [List.mem_map] at hq
      obtain ⟨k, _, rfl⟩ := hq
      exact getRate_nonneg_all m hm _ _
    · rw [List.mem_filterMap] at hq
      obtain ⟨comb, _, hq⟩ := hq
      split_ifs at hq
      · simp only [Option.some.injEq] at hq
        subst hq
        exact getRateBC_nonneg_all m hm _ _ _
  cases m with
  | kingman =>
    intro q hq
    simp only [coalesceBlocks] at hq
    unfold coalesceStd at hq
    simp only at hq
    split_ifs at hq
    · rw [List.mem_singleton] at hq; subst hq; exact kingmanRate_nonneg _ _
    · simp at hq
    · rw [List.mem_flatMap] at hq
      obtain ⟨⟨i, j⟩, _, hq⟩ := hq
      simp only at hq
      split_ifs at hq
      · rw [List.mem_singleton] at hq; subst hq; exact kingmanRateBC_nonneg _ _
      · simp at hq
      · rw [List.mem_singleton] at hq; subst hq; exact kingmanRateBC_nonneg _ _
      · simp at hq
      · simp at hq
  | beta a st => exact hMM
  | dirac psi c st => exact hMM

end RatesNonneg

section TransitNonneg

/-- hypotheses on an epoch: positive time scales, non-negative migration and recombination -/
structure EpochP.Valid (ep : EpochP) : Prop where
  ts_pos : ∀ t ∈ ep.ts, 0 < t
  mig_nonneg : ∀ row ∈ ep.mig, ∀ x ∈ row, 0 ≤ x
  rec_nonneg : 0 ≤ ep.recRate

theorem getD_nonneg (l : List ℚ) (h : ∀ x ∈ l, 0 ≤ x) (i : ℕ) : 0 ≤ l.getD i 0 := by
  rw [List.getD_eq_getElem?_getD]
  cases hi : l[i]? with
  | none => exact le_rfl
  | some x => exact h x (List.mem_of_getElem? hi)

theorem EpochP.Valid.m_nonneg {ep : EpochP} (h : ep.Valid) (a b : ℕ) : 0 ≤ ep.m a b := by
  unfold EpochP.m
  apply getD_nonneg
  rw [List.getD_eq_getElem?_getD]
  cases hi : ep.mig[a]? with
  | none => simp
  | some row => exact h.mig_nonneg row (List.mem_of_getElem? hi)

theorem EpochP.Valid.ts_nonneg {ep : EpochP} (h : ep.Valid) (d : ℕ) : 0 ≤ getR ep.ts d :=
  getD_nonneg _ (fun x hx => (h.ts_pos x hx).le) d

theorem mkEpoch_valid {D : ℕ} (ts : Fin D → ℚ) (mig : Fin D → Fin D → ℚ) (r : ℚ)
    (hts : ∀ d, 0 < ts d) (hmig : ∀ d d', 0 ≤ mig d d') (hr : 0 ≤ r) : (mkEpoch ts mig r).Valid := by
  refine ⟨?_, ?_, hr⟩
  · intro t ht
    simp only [mkEpoch, List.mem_ofFn] at ht
    obtain ⟨d, rfl⟩ := ht
    exact hts d
  · intro row hrow x hx
    simp only [mkEpoch, List.mem_ofFn] at hrow
    obtain ⟨d, rfl⟩ := hrow
    rw [List.mem_ofFn] at hx
    obtain ⟨d', rfl⟩ := hx
    exact hmig d d'

theorem NN_migrateUnlinked (ep : EpochP) (hep : ep.Valid) (s : State) :
    NN (migrateUnlinked ep s) := by
  unfold migrateUnlinked
  apply foldl_inv_br NN _ _ _ NN_nil
  intro acc l _ hacc
  apply foldl_inv_br NN _ _ _ hacc
  rintro acc ⟨d1, d2⟩ _ hacc
  apply foldl_inv_br NN _ _ _ hacc
  intro acc b _ hacc
  dsimp only
  split_ifs
  · exact NN_addTarget _ _ _ hacc (mul_nonneg (hep.m_nonneg _ _) (Nat.cast_nonneg _))
  · exact hacc

theorem NN_migrateLinked (ep : EpochP) (hep : ep.Valid) (s : State) :
    NN (migrateLinked ep s) := by
  unfold migrateLinked
  split_ifs
  · exact NN_nil
  apply foldl_inv_br NN _ _ _ NN_nil
  rintro acc ⟨d1, d2⟩ _ hacc
  apply foldl_inv_br NN _ _ _ hacc
  intro acc b _ hacc
  dsimp only
  split_ifs
  · exact NN_addTarget _ _ _ hacc (mul_nonneg (hep.m_nonneg _ _) (Nat.cast_nonneg _))
  · exact hacc

theorem NN_migrate (ep : EpochP) (hep : ep.Valid) (s : State) : NN (migrate ep s) :=
  NN_union _ _ (NN_migrateLinked ep hep s) (NN_migrateUnlinked ep hep s)

theorem NN_coalesce1 (m : Model) (hm : m.Valid) (ep : EpochP) (hep : ep.Valid) (s : State) :
    NN (coalesce1 m ep s) := by
  unfold coalesce1
  apply foldl_inv_br NN _ _ _ NN_nil
  intro acc d _ hacc
  apply foldl_inv_br NN _ _ _ hacc
  rintro acc ⟨blk, rate⟩ hq hacc
  exact NN_addTarget _ _ _ hacc
    (div_nonneg (coalesceBlocks_nonneg m hm _ _ hq) (hep.ts_nonneg d))

theorem NN_ite {κ : Type} (c : Prop) [Decidable c] (a b : Dict κ ℚ) (ha : NN a) (hb : NN b) :
    NN (if c then a else b) := by
  split_ifs <;> assumption

theorem NN_coalesce2 (m : Model) (hm : m.Valid) (ep : EpochP) (hep : ep.Valid) (s : State) :
    NN (coalesce2 m ep s) := by
  unfold coalesce2
  apply foldl_inv_br NN _ _ _ NN_nil
  intro acc d _ hacc
  dsimp only
  apply foldl_inv_br NN _ _ _ hacc
  rintro acc ⟨c1, c2⟩ _ hacc
  have hr : ∀ b, 0 ≤ getRate m b 2 / getR ep.ts d := fun b =>
    div_nonneg (getRate_nonneg_all m hm b 2) (hep.ts_nonneg d)
  have hr2 : ∀ a b : ℕ, 0 ≤ (a : ℚ) * (b : ℚ) / getR ep.ts d := fun a b =>
    div_nonneg (mul_nonneg (Nat.cast_nonneg _) (Nat.cast_nonneg _)) (hep.ts_nonneg d)
  cases c1 <;> cases c2 <;> dsimp only <;>
  repeat' (first
    | (with_reducible apply NN_ite)
    | (with_reducible exact hacc)
    | (with_reducible exact NN_addTarget _ _ _ hacc (hr _))
    | (with_reducible exact NN_addTarget _ _ _ hacc (hr2 _ _)))

theorem NN_recombine (ep : EpochP) (hep : ep.Valid) (s : State) : NN (recombine ep s) := by
  unfold recombine
  split_ifs
  · exact NN_nil
  apply foldl_inv_br NN _ _ _ NN_nil
  intro acc d _ hacc
  dsimp only
  split_ifs
  · exact NN_addTarget _ _ _ hacc (mul_nonneg hep.rec_nonneg (Nat.cast_nonneg _))
  · exact hacc

/-- **Every off-diagonal rate produced by `transit` is non-negative** — for every state, any
number of loci and blocks, every valid model and valid epoch. -/
theorem transit_rates_nonneg (m : Model) (hm : m.Valid) (ep : EpochP) (hep : ep.Valid) (s : State) :
    ∀ p ∈ transit m ep s, 0 ≤ p.2 := by
  have h0 : NN (Dict.union [] (migrate ep s)) := NN_union _ _ NN_nil (NN_migrate ep hep s)
  show NN (transit m ep s)
  unfold transit
  dsimp only
  split_ifs
  · exact h0
  · exact NN_union _ _ (NN_union _ _ h0 (NN_coalesce1 m hm ep hep s)) (NN_recombine ep hep s)
  · exact NN_union _ _ (NN_union _ _ h0 (NN_coalesce2 m hm ep hep s)) (NN_recombine ep hep s)

/-- count-state form, with the hypotheses on the parameter functions -/
theorem transit_rates_nonneg_enc {D : ℕ} (m : Model) (hm : m.Valid) (ts : Fin D → ℚ)
    (mig : Fin D → Fin D → ℚ) (r : ℚ) (hts : ∀ d, 0 < ts d) (hmig : ∀ d d', 0 ≤ mig d d')
    (hr : 0 ≤ r) (c : Fin D → ℕ) :
    ∀ p ∈ transit m (mkEpoch ts mig r) (encLC c), 0 ≤ p.2 :=
  transit_rates_nonneg m hm _ (mkEpoch_valid ts mig r hts hmig hr) _

end TransitNonneg

/-! ## 7. The breadth-first search `get_transitions` -/

section BFS

/-- the edges out of `s`, as stored in `Graph.transitions` -/
def edges (step : State → Targets) (s : State) : List ((State × State) × ℚ) :=
  (step s).map fun p => ((s, p.1), p.2)

/-- reachability from `init` along `step` edges -/
def Reach (step : State → Targets) (init : State) : State → Prop :=
  Relation.ReflTransGen (fun a b => b ∈ keys (step a)) init

theorem foldl_inv_rest {α β : Type} (J : β → List α → Prop) (f : β → α → β) (l : List α)
    (init : β) (h0 : J init l) (hs : ∀ acc x rest, J acc (x :: rest) → J (f acc x) rest) :
    J (l.foldl f init) [] := by
  induction l generalizing init with
  | nil => exact h0
  | cons x xs ih => rw [List.foldl_cons]; exact ih _ (hs _ _ _ h0)

theorem mem_foldl_dedup (targets : Targets) (newT : List State) (x : State) :
    x ∈ targets.foldl (fun acc (p : State × ℚ) => if acc.contains p.1 then acc else acc ++ [p.1]) newT
      ↔ x ∈ newT ∨ x ∈ keys targets := by
  induction targets generalizing newT with
  | nil => simp
  | cons p ps ih =>
    rw [List.foldl_cons, ih, keys_cons, List.mem_cons]
    split_ifs with h
    · rw [List.contains_iff_mem] at h
      constructor
      · rintro (h' | h'); exacts [Or.inl h', Or.inr (Or.inr h')]
      · rintro (h' | rfl | h'); exacts [Or.inl h', Or.inl h, Or.inr h']
    · rw [List.mem_append, List.mem_singleton]
      tauto

/-- invariant of the search: `g` is the graph built so far, `rest` the sources still to be
processed in the current sweep, `newT` the sources collected for the next sweep -/
structure SweepInv (step : State → Targets) (init : State) (g : Graph) (newT rest : List State) :
    Prop where
  nodup : g.visited.Nodup
  trans : g.transitions = g.visited.flatMap (edges step)
  closed : ∀ s ∈ g.visited, ∀ t ∈ keys (step s), t ∈ g.visited ∨ t ∈ rest ∨ t ∈ newT
  reach : ∀ s, (s ∈ g.visited ∨ s ∈ rest ∨ s ∈ newT) → Reach step init s
  init_mem : init ∈ g.visited ∨ init ∈ rest ∨ init ∈ newT

theorem bfsSweep_inv (step : State → Targets) (init : State) (g : Graph) (sources : List State)
    (h : SweepInv step init g [] sources) :
    SweepInv step init (bfsSweep step g sources).1 (bfsSweep step g sources).2 [] := by
  unfold bfsSweep
  refine foldl_inv_rest (fun (acc : Graph × List State) rest => SweepInv step init acc.1 acc.2 rest)
    _ _ _ h ?_
  rintro ⟨g, newT⟩ src rest ⟨h1, h2, h3, h4, h5⟩
  dsimp only
  split_ifs with hc
  · rw [List.contains_iff_mem] at hc
    refine ⟨h1, h2, ?_, ?_, ?_⟩
    · intro s hs t ht
      rcases h3 s hs t ht with h | h | h
      · exact Or.inl h
      · rw [List.mem_cons] at h
        rcases h with rfl | h
        · exact Or.inl hc
        · exact Or.inr (Or.inl h)
      · exact Or.inr (Or.inr h)
    · intro s hs
      apply h4
      rcases hs with h | h | h
      · exact Or.inl h
      · exact Or.inr (Or.inl (List.mem_cons_of_mem _ h))
      · exact Or.inr (Or.inr h)
    · rcases h5 with h | h | h
      · exact Or.inl h
      · rw [List.mem_cons] at h
        rcases h with rfl | h
        · exact Or.inl hc
        · exact Or.inr (Or.inl h)
      · exact Or.inr (Or.inr h)
  · rw [List.contains_iff_mem] at hc
    have hsrc : Reach step init src := h4 src (Or.inr (Or.inl List.mem_cons_self))
    refine ⟨?_, ?_, ?_, ?_, ?_⟩
    · exact List.Nodup.append h1 (List.nodup_singleton _) (by simpa using hc)
    · show g.transitions ++ edges step src = _
      rw [h2, List.flatMap_append]
      simp
    · intro s hs t ht
      show t ∈ g.visited ++ [src] ∨ t ∈ rest ∨ _
      rw [mem_foldl_dedup]
      rw [List.mem_append, List.mem_singleton] at hs
      rcases hs with hs | rfl
      · rcases h3 s hs t ht with h | h | h
        · exact Or.inl (List.mem_append_left _ h)
        · rw [List.mem_cons] at h
          rcases h with rfl | h
          · exact Or.inl (by simp)
          · exact Or.inr (Or.inl h)
        · exact Or.inr (Or.inr (Or.inl h))
      · exact Or.inr (Or.inr (Or.inr ht))
    · intro s hs
      change s ∈ g.visited ++ [src] ∨ s ∈ rest ∨ _ at hs
      rw [mem_foldl_dedup, List.mem_append, List.mem_singleton] at hs
      rcases hs with (h | rfl) | h | h | h
      · exact h4 s (Or.inl h)
      · exact hsrc
      · exact h4 s (Or.inr (Or.inl (List.mem_cons_of_mem _ h)))
      · exact h4 s (Or.inr (Or.inr h))
      · exact Relation.ReflTransGen.tail hsrc h
    · show init ∈ g.visited ++ [src] ∨ init ∈ rest ∨ _
      rw [mem_foldl_dedup]
      rcases h5 with h | h | h
      · exact Or.inl (List.mem_append_left _ h)
      · rw [List.mem_cons] at h
        rcases h with rfl | h
        · exact Or.inl (by simp)
        · exact Or.inr (Or.inl h)
      · exact Or.inr (Or.inr (Or.inl h))

theorem bfs_go_inv (step : State → Targets) (init : State) (fuel : ℕ) (g : Graph)
    (sources : List State) (res : Graph) (h : bfs.go step fuel g sources = some res)
    (hinv : SweepInv step init g [] sources) : SweepInv step init res [] [] := by
  induction fuel generalizing g sources with
  | zero => simp [bfs.go] at h
  | succ fuel ih =>
    have hs := bfsSweep_inv step init g sources hinv
    unfold bfs.go at h
    generalize bfsSweep step g sources = r at h hs
    obtain ⟨g', newT⟩ := r
    dsimp only at h hs
    split_ifs at h with he
    · rw [List.isEmpty_iff] at he
      subst he
      rw [Option.some.injEq] at h
      subst h
      exact hs
    · refine ih g' newT h ⟨hs.nodup, hs.trans, ?_, ?_, ?_⟩
      · intro s hs' t ht
        rcases hs.closed s hs' t ht with h | h | h
        · exact Or.inl h
        · simp at h
        · exact Or.inr (Or.inl h)
      · intro s hs'
        apply hs.reach
        rcases hs' with h | h | h
        · exact Or.inl h
        · exact Or.inr (Or.inr h)
        · simp at h
      · rcases hs.init_mem with h | h | h
        · exact Or.inl h
        · simp at h
        · exact Or.inr (Or.inl h)

/-- **Correctness of the search `get_transitions`** (for any step function): if it terminates
within the fuel, the visited list has no duplicates, contains the initial state, is closed under
`step`, consists of states reachable from the initial state, and the transition list is exactly
the list of all `step` edges out of the visited states (in order of visit). -/
theorem bfs_spec (step : State → Targets) (init : State) (fuel : ℕ) (g : Graph)
    (h : bfs step init fuel = some g) :
    g.visited.Nodup ∧ init ∈ g.visited ∧
    (∀ s ∈ g.visited, ∀ p ∈ step s, p.1 ∈ g.visited) ∧
    g.transitions = g.visited.flatMap (fun s => (step s).map fun p => ((s, p.1), p.2)) ∧
    (∀ s ∈ g.visited, Reach step init s) := by
  unfold bfs at h
  have h0 : SweepInv step init { visited := [], transitions := [] } [] [init] := by
    refine ⟨List.nodup_nil, rfl, ?_, ?_, Or.inr (Or.inl (by simp))⟩
    · intro s hs; simp at hs
    · intro s hs
      rcases hs with h | h | h
      · simp at h
      · rw [List.mem_singleton] at h; subst h; exact Relation.ReflTransGen.refl
      · simp at h
  have hinv := bfs_go_inv step init fuel _ _ g h h0
  refine ⟨hinv.nodup, ?_, ?_, hinv.trans, fun s hs => hinv.reach s (Or.inl hs)⟩
  · rcases hinv.init_mem with h | h | h
    · exact h
    · simp at h
    · simp at h
  · intro s hs p hp
    rcases hinv.closed s hs p.1 (List.mem_map_of_mem (f := Prod.fst) hp) with h | h | h
    · exact h
    · simp at h
    · simp at h

end BFS

/-! ## 8. The rate matrix `_graph_to_matrix` -/

section Matrix

/-- the value which `_graph_to_matrix` leaves in the off-diagonal cell `(a, b)`: the rate of the
last transition `a → b` in the list (later writes overwrite earlier ones), `0` if there is none -/
def offW (tr : List ((State × State) × ℚ)) (a b : State) : ℚ :=
  ((tr.filter fun p => p.1.1 == a && p.1.2 == b).getLast?.map (·.2)).getD 0

/-- the `offdiag` helper of `rateEntry` -/
def offd (states : List State) (tr : List ((State × State) × ℚ)) (i j : ℕ) : ℚ :=
  match states[i]?, states[j]? with
  | some a, some b => offW tr a b
  | _, _ => 0

theorem rateEntry_def (states : List State) (tr : List ((State × State) × ℚ)) (i j : ℕ) :
    rateEntry states tr i j
      = if i = j then - sumRat ((List.range states.length).map fun j' => offd states tr i j')
        else offd states tr i j := rfl

theorem offd_eq (states : List State) (tr : List ((State × State) × ℚ)) (i j : ℕ)
    (hi : i < states.length) (hj : j < states.length) :
    offd states tr i j = offW tr states[i] states[j] := by
  simp [offd, List.getElem?_eq_getElem hi, List.getElem?_eq_getElem hj]

theorem sum_range_offd (states : List State) (tr : List ((State × State) × ℚ)) (i : ℕ)
    (hi : i < states.length) :
    ((List.range states.length).map fun j' => offd states tr i j').sum
      = (states.map fun b => offW tr states[i] b).sum := by
  have h : (List.range states.length).map (fun j' => offd states tr i j')
      = states.map fun b => offW tr states[i] b := by
    apply List.ext_getElem
    · simp
    · intro j h1 h2
      simp only [List.length_map, List.length_range] at h1
      simp only [List.getElem_map, List.getElem_range]
      exact offd_eq states tr i j hi h1
  rw [h]

theorem sum_fin_getElem (states : List State) (h : State → ℚ) :
    ∑ j : Fin states.length, h states[j] = (states.map h).sum := by
  rw [Fin.sum_univ_def]
  conv_rhs => rw [← List.map_getElem_finRange states, List.map_map]
  rfl

theorem getElem_fin_eq {α : Type} (l : List α) (i : ℕ) (hi : i < l.length) (j : Fin l.length)
    (h : i = j.val) : l[j] = l[i] := by
  subst h; rfl

theorem sum_map_sub_rat {α : Type} (l : List α) (f g : α → ℚ) :
    (l.map fun x => f x - g x).sum = (l.map f).sum - (l.map g).sum := by
  induction l with
  | nil => simp
  | cons x xs ih => simp only [List.map_cons, List.sum_cons, ih]; ring

theorem flatMap_single {α β : Type} (l : List α) (G : α → List β) (a : α) (hn : l.Nodup)
    (ha : a ∈ l) (hG : ∀ s ∈ l, s ≠ a → G s = []) : l.flatMap G = G a := by
  induction l with
  | nil => simp at ha
  | cons x xs ih =>
    rw [List.nodup_cons] at hn
    rw [List.flatMap_cons]
    by_cases hx : x = a
    · subst hx
      have : xs.flatMap G = [] := by
        rw [List.flatMap_eq_nil_iff]
        intro s hs
        exact hG s (List.mem_cons_of_mem _ hs) (fun h => hn.1 (h ▸ hs))
      rw [this, List.append_nil]
    · rw [hG x List.mem_cons_self hx, List.nil_append]
      rw [List.mem_cons] at ha
      rcases ha with rfl | ha
      · exact absurd rfl hx
      · exact ih hn.2 ha fun s hs => hG s (List.mem_cons_of_mem _ hs)

theorem lastW_eq_sum (L : Targets) (hn : (keys L).Nodup) (b : State) :
    ((L.filter fun p => p.1 == b).getLast?.map (·.2)).getD 0
      = (L.map fun p => if p.1 = b then p.2 else 0).sum := by
  induction L with
  | nil => rfl
  | cons p L ih =>
    rw [keys_cons, List.nodup_cons] at hn
    rw [List.map_cons, List.sum_cons, List.filter_cons]
    by_cases hp : p.1 = b
    · have hnil : L.filter (fun q => q.1 == b) = [] := by
        rw [List.filter_eq_nil_iff]
        intro q hq
        simp only [beq_iff_eq]
        rintro rfl
        exact hn.1 (hp ▸ List.mem_map_of_mem (f := Prod.fst) hq)
      have hz : (L.map fun q => if q.1 = b then q.2 else 0).sum = 0 := by
        rw [← ih hn.2, hnil]; rfl
      simp [hp, hnil, hz]
    · simp only [hp, beq_iff_eq, if_false, zero_add]
      exact ih hn.2

/-- on the graph built by the search, the cell `(a, b)` holds the rate of `b` in `step a` -/
theorem offW_flatMap (step : State → Targets) (states : List State) (hn : states.Nodup)
    (a : State) (ha : a ∈ states) (hk : (keys (step a)).Nodup) (b : State) :
    offW (states.flatMap (edges step)) a b
      = ((step a).map fun p => if p.1 = b then p.2 else 0).sum := by
  unfold offW
  rw [List.filter_flatMap]
  rw [flatMap_single states _ a hn ha]
  · rw [← lastW_eq_sum (step a) hk b]
    unfold edges
    rw [List.filter_map, List.getLast?_map, Option.map_map,
      List.filter_congr (q := fun p => p.1 == b) (by intro p _; simp)]
    rfl
  · intro s _ hs
    rw [List.filter_eq_nil_iff]
    intro q hq
    unfold edges at hq
    rw [List.mem_map] at hq
    obtain ⟨p, _, rfl⟩ := hq
    simp [hs]

theorem sum_map_ite_nodup (l : List State) (hn : l.Nodup) (a : State) (ha : a ∈ l) (c : ℚ)
    (F : State → ℚ) : (l.map fun b => (if a = b then c else 0) * F b).sum = c * F a := by
  induction l with
  | nil => simp at ha
  | cons x xs ih =>
    rw [List.nodup_cons] at hn
    rw [List.map_cons, List.sum_cons]
    by_cases hx : a = x
    · subst hx
      have : (xs.map fun b => (if a = b then c else 0) * F b).sum = 0 := by
        apply List.sum_eq_zero
        intro y hy
        rw [List.mem_map] at hy
        obtain ⟨b, hb, rfl⟩ := hy
        have : a ≠ b := fun h => hn.1 (h ▸ hb)
        simp [this]
      rw [this]; simp
    · rw [List.mem_cons] at ha
      rcases ha with rfl | ha
      · exact absurd rfl hx
      · rw [ih hn.2 ha]; simp [hx]

theorem sum_offW (L : Targets) (states : List State) (hn : states.Nodup)
    (hL : ∀ t ∈ keys L, t ∈ states) (F : State → ℚ) :
    (states.map fun b => (L.map fun p => if p.1 = b then p.2 else 0).sum * F b).sum
      = (L.map fun p => p.2 * F p.1).sum := by
  induction L with
  | nil => simp
  | cons p L ih =>
    simp only [List.map_cons, List.sum_cons, add_mul]
    rw [List.sum_map_add, sum_map_ite_nodup states hn p.1 (hL _ (by simp)) p.2 F,
      ih fun t ht => hL t (by simp [ht])]

variable (step : State → Targets) (states : List State)

/-- **Row identity of the rate matrix.** On the graph built by the search (`states` without
duplicates and closed, `tr` the list of all edges), the row of a state whose `step` dictionary has
unique keys and no self-loop is the generator row encoded by that dictionary. -/
theorem rateEntry_row (hn : states.Nodup) (i : ℕ) (hi : i < states.length)
    (hk : (keys (step states[i])).Nodup) (hself : states[i] ∉ keys (step states[i]))
    (hclosed : ∀ t ∈ keys (step states[i]), t ∈ states) (f : State → ℚ) :
    ∑ j : Fin states.length, rateEntry states (states.flatMap (edges step)) i j * f states[j]
      = genOf (step states[i]) f states[i] := by
  set a := states[i] with ha
  set tr := states.flatMap (edges step) with htr
  have hamem : a ∈ states := List.getElem_mem hi
  have hw : ∀ b, offW tr a b = ((step a).map fun p => if p.1 = b then p.2 else 0).sum :=
    fun b => offW_flatMap step states hn a hamem hk b
  have hwa : offW tr a a = 0 := by
    rw [hw]
    apply List.sum_eq_zero
    intro y hy
    rw [List.mem_map] at hy
    obtain ⟨p, hp, rfl⟩ := hy
    have hm : p.1 ∈ keys (step a) := List.mem_map_of_mem (f := Prod.fst) hp
    have : p.1 ≠ a := fun h => hself (by rw [h] at hm; exact hm)
    simp [this]
  have hentry : ∀ j : Fin states.length, rateEntry states tr i j * f states[j]
      = offW tr a states[j] * f states[j]
        - (if i = j.val then (states.map fun b => offW tr a b).sum * f a else 0) := by
    intro j
    rw [rateEntry_def]
    by_cases hij : i = j.val
    · have hj : states[j] = a := getElem_fin_eq states i hi j hij
      rw [if_pos hij, if_pos hij, sumRat_eq, sum_range_offd states tr i hi, hj, hwa]
      ring
    · rw [if_neg hij, if_neg hij, offd_eq states tr i j hi j.isLt, sub_zero]
      rfl
  rw [Finset.sum_congr rfl fun j _ => hentry j, Finset.sum_sub_distrib]
  have hdiag : ∑ j : Fin states.length,
      (if i = j.val then (states.map fun b => offW tr a b).sum * f a else 0)
        = (states.map fun b => offW tr a b).sum * f a := by
    rw [Finset.sum_eq_single_of_mem (⟨i, hi⟩ : Fin states.length) (mem_univ _)]
    · simp
    · intro j _ hj
      have : i ≠ j.val := fun h => hj (Fin.ext h.symm)
      simp [this]
  rw [hdiag, sum_fin_getElem states (fun b => offW tr a b * f b), ← List.sum_map_mul_right,
    ← sum_map_sub_rat]
  simp only [hw, ← mul_sub]
  rw [sum_offW (step a) states hn hclosed (fun b => f b - f a)]
  rfl

/-- the sum of a matrix row is minus what `_graph_to_matrix` wrote on the diagonal (a
self-loop rate), for any transition list … -/
theorem rateEntry_row_sum (tr : List ((State × State) × ℚ)) (i : ℕ) (hi : i < states.length) :
    ∑ j : Fin states.length, rateEntry states tr i j = - offW tr states[i] states[i] := by
  have hentry : ∀ j : Fin states.length, rateEntry states tr i j
      = offW tr states[i] states[j]
        - (if i = j.val then (states.map fun b => offW tr states[i] b).sum
            + offW tr states[i] states[i] else 0) := by
    intro j
    rw [rateEntry_def]
    by_cases hij : i = j.val
    · have hj : states[j] = states[i] := getElem_fin_eq states i hi j hij
      rw [if_pos hij, if_pos hij, sumRat_eq, sum_range_offd states tr i hi, hj]
      ring
    · rw [if_neg hij, if_neg hij, offd_eq states tr i j hi j.isLt]
      simp
  rw [Finset.sum_congr rfl fun j _ => hentry j, Finset.sum_sub_distrib,
    Finset.sum_eq_single_of_mem (⟨i, hi⟩ : Fin states.length) (mem_univ _)
      (f := fun j : Fin states.length => if i = j.val then _ else (0 : ℚ))]
  · rw [sum_fin_getElem states (fun b => offW tr states[i] b)]
    simp
  · intro j _ hj
    have : i ≠ j.val := fun h => hj (Fin.ext h.symm)
    simp [this]

/-- … hence **zero row sums** whenever the transition list has no self-loop at that state. -/
theorem rateEntry_row_sum_zero (tr : List ((State × State) × ℚ)) (i : ℕ)
    (hi : i < states.length) (hself : ∀ p ∈ tr, ¬ (p.1.1 = states[i] ∧ p.1.2 = states[i])) :
    ∑ j : Fin states.length, rateEntry states tr i j = 0 := by
  rw [rateEntry_row_sum states tr i hi]
  have : tr.filter (fun p => p.1.1 == states[i] && p.1.2 == states[i]) = [] := by
    rw [List.filter_eq_nil_iff]
    intro p hp
    simpa using hself p hp
  simp [offW, this]

/-- Row identity for the output of the search. -/
theorem bfs_rateEntry_row (init : State) (fuel : ℕ) (g : Graph)
    (h : bfs step init fuel = some g) (i : ℕ) (hi : i < g.visited.length)
    (hk : (keys (step g.visited[i])).Nodup) (hself : g.visited[i] ∉ keys (step g.visited[i]))
    (f : State → ℚ) :
    ∑ j : Fin g.visited.length, rateEntry g.visited g.transitions i j * f g.visited[j]
      = genOf (step g.visited[i]) f g.visited[i] := by
  obtain ⟨hn, _, hcl, htr, _⟩ := bfs_spec step init fuel g h
  have htr' : g.transitions = g.visited.flatMap (edges step) := htr
  rw [htr']
  refine rateEntry_row step g.visited hn i hi hk hself ?_ f
  intro t ht
  unfold keys at ht
  rw [List.mem_map] at ht
  obtain ⟨p, hp, rfl⟩ := ht
  exact hcl _ (List.getElem_mem hi) p hp

/-- Zero row sums for the output of the search (at states without self-loop). -/
theorem bfs_rateEntry_row_sum_zero (init : State) (fuel : ℕ) (g : Graph)
    (h : bfs step init fuel = some g) (i : ℕ) (hi : i < g.visited.length)
    (hself : g.visited[i] ∉ keys (step g.visited[i])) :
    ∑ j : Fin g.visited.length, rateEntry g.visited g.transitions i j = 0 := by
  obtain ⟨_, _, _, htr, _⟩ := bfs_spec step init fuel g h
  apply rateEntry_row_sum_zero
  intro p hp hpp
  rw [htr, List.mem_flatMap] at hp
  obtain ⟨s, _, hp⟩ := hp
  rw [List.mem_map] at hp
  obtain ⟨q, hq, rfl⟩ := hp
  obtain ⟨h1, h2⟩ := hpp
  dsimp only at h1 h2
  subst h1
  have hm : q.1 ∈ keys (step _) := List.mem_map_of_mem (f := Prod.fst) hq
  rw [h2] at hm
  exact hself hm

end Matrix

/-! ## 9. End to end: the rate matrix of the lineage-counting state space -/

section EndToEnd
variable {D : ℕ}

theorem reach_enc (m : Model) (ts : Fin D → ℚ) (mig : Fin D → Fin D → ℚ) (r : ℚ)
    (c0 : Fin D → ℕ) (s : State)
    (h : Reach (transit m (mkEpoch ts mig r)) (encLC c0) s) :
    ∃ c : Fin D → ℕ, s = encLC c ∧ ∑ d, c d ≤ ∑ d, c0 d := by
  unfold Reach at h
  induction h with
  | refl => exact ⟨c0, rfl, le_rfl⟩
  | tail _ hbc ih =>
    obtain ⟨c, rfl, hle⟩ := ih
    obtain ⟨c', h', hle'⟩ := transit_enc_keys m ts mig r c _ hbc
    exact ⟨c', h', hle'.trans hle⟩

/-- **End-to-end statement for the lineage-counting state space.** Whatever the search started
at the count state `c0` returns, every state it lists is a count state `encLC c` (with no more
lineages than `c0`), the corresponding row of the rate matrix assembled by `_graph_to_matrix`
is the count generator `QCs` of the lineage process — i.e. (by `lineage_lumping`) the lumping of
the labelled particle system — and the row sums to zero. -/
theorem lineage_matrix_row (m : Model) (ts : Fin D → ℚ) (mig : Fin D → Fin D → ℚ) (r : ℚ)
    (c0 : Fin D → ℕ) (fuel : ℕ) (g : Graph)
    (h : bfs (transit m (mkEpoch ts mig r)) (encLC c0) fuel = some g)
    (i : ℕ) (hi : i < g.visited.length) :
    ∃ c : Fin D → ℕ, g.visited[i] = encLC c ∧ ∑ d, c d ≤ ∑ d, c0 d ∧
      (∀ f : State → ℚ,
        ∑ j : Fin g.visited.length, rateEntry g.visited g.transitions i j * f g.visited[j]
          = QCs (linRate (lam m) ts mig) linRes (fun c' => f (encLC c')) c) ∧
      ∑ j : Fin g.visited.length, rateEntry g.visited g.transitions i j = 0 := by
  obtain ⟨_, _, _, _, hreach⟩ := bfs_spec _ _ fuel g h
  obtain ⟨c, hc, hle⟩ := reach_enc m ts mig r c0 _ (hreach _ (List.getElem_mem hi))
  refine ⟨c, hc, hle, ?_, ?_⟩
  · intro f
    rw [bfs_rateEntry_row _ _ fuel g h i hi (by rw [hc]; exact nodup_keys_transit_enc m ts mig r c)
      (by rw [hc]; exact transit_enc_no_self_loop m ts mig r c) f, hc]
    exact genOf_transit_lineage_all m ts mig r c f
  · exact bfs_rateEntry_row_sum_zero _ _ fuel g h i hi
      (by rw [hc]; exact transit_enc_no_self_loop m ts mig r c)

end EndToEnd

end PG

#print axioms PG.genOf_addTarget
#print axioms PG.genOf_union
#print axioms PG.genOf_foldl_if_addTarget
#print axioms PG.genOf_migrate
#print axioms PG.genOf_coalesce1
#print axioms PG.genOf_transit_lineage
#print axioms PG.genOf_transit_absorbing
#print axioms PG.genOf_transit_lineage_all
#print axioms PG.C04_lumping_lineage
#print axioms PG.C04_lumping_lineage'
#print axioms PG.transit_rates_nonneg
#print axioms PG.transit_absorbing
#print axioms PG.migrate_keys_total
#print axioms PG.bfs_spec
#print axioms PG.rateEntry_row
#print axioms PG.rateEntry_row_sum
#print axioms PG.rateEntry_row_sum_zero
#print axioms PG.bfs_rateEntry_row
#print axioms PG.bfs_rateEntry_row_sum_zero
#print axioms PG.transit_rates_nonneg_enc
#print axioms PG.lineage_matrix_row
