/-
PGProofs.Glue — the abstract exponential as a factor semantics: ties the schedule theorems
(`PGProofs.Schedule`, about the code's sorted sweep with a running product) to the Van Loan
algebra (`PGProofs.VanLoan`), giving "the vectorised routines compute, for every supplied time, the
direct evaluation `accumVal` / `cdfVal` over the epochs up to that time".
-/
import PGProofs.Schedule
import PGProofs.VanLoan

namespace PG

open Matrix

variable {K : Type} [Field K] [LinearOrder K] [IsStrictOrderedRing K]
variable {ι : Type} [Fintype ι] [DecidableEq ι]
variable {κ : Type} [Fintype κ] [DecidableEq κ]
variable {k : ℕ}

instance instInhabitedOfField : Inhabited K := ⟨0⟩

/-- durations of the executable model are rationals; the matrices live over an ordered field `K` -/
def castF (fs : List Factor) : List (ℕ × K) := fs.map fun f => (f.1, (f.2 : K))

theorem castF_append (a b : List Factor) : castF (K := K) (a ++ b) = castF a ++ castF b := by
  simp [castF]

/-- The abstract exponential is a factor semantics: `F e τ = E (τ • V e)`,
`F e 0 = 1` (`E_zero`), `F e (s + t) = F e s * F e t` (`E_add` for commuting arguments). -/
def expSem (L : ExpLaw K) (V : ℕ → Matrix κ κ K) : FactorSem (Matrix κ κ K) where
  F e τ := L.E ((τ : K) • V e)
  zero e := by
    show L.E (((0 : ℚ) : K) • V e) = 1
    rw [Rat.cast_zero]; exact L.E_zero_smul (V e)
  add e s t := by
    show L.E (((s + t : ℚ) : K) • V e) = L.E ((s : K) • V e) * L.E ((t : K) • V e)
    rw [Rat.cast_add]; exact L.E_smul_add (V e) (s : K) (t : K)

theorem evalF_expSem (L : ExpLaw K) (V : ℕ → Matrix κ κ K) (fs : List Factor) :
    evalF (expSem L V) fs = evalFactors L V (castF fs) := by
  simp [evalF, evalFactors, castF, expSem, List.map_map, Function.comp_def]

/-- **C07 / C10 (moments).** The model of `_accumulate` — sort the times, sweep with a running
product over the epochs, scatter back — returns for the `i`-th supplied time exactly the direct
evaluation at that time, for any order of the times and any duplicates. -/
theorem code_accumulate_pointwise (L : ExpLaw K) (S : ℕ → Matrix ι ι K) (R : Fin k → ι → K)
    (α : ι → K) (eps : List EpochT) (ts : List ℚ) :
    codeVectorised (fun fs => accumVal L S R α (castF fs)) eps ts
      = ts.map fun t => accumVal L S R α (castF (specFactors eps t)) := by
  refine codeVectorised_pointwise (expSem L fun e => vanLoan (S e) R)
    (fun M => (k.factorial : K) * ∑ i, ∑ j, α i * M (0, i) (Fin.last k, j)) _ ?_ eps ts
  intro fs
  rw [evalF_expSem]
  first | rfl | simp [accumVal, cdfVal]

/-- **C07 / C03 (cdf).** Same for the model of `cdf`. -/
theorem code_cdf_pointwise (L : ExpLaw K) (S : ℕ → Matrix ι ι K) (α exitVec : ι → K)
    (eps : List EpochT) (ts : List ℚ) :
    codeVectorised (fun fs => cdfVal L S α exitVec (castF fs)) eps ts
      = ts.map fun t => cdfVal L S α exitVec (castF (specFactors eps t)) := by
  refine codeVectorised_pointwise (expSem L S)
    (fun M => 1 - ∑ i, ∑ j, α i * M i j * exitVec j) _ ?_ eps ts
  intro fs
  rw [evalF_expSem]
  first | rfl | simp [accumVal, cdfVal]

/-- **C03 (`_update`).** Moving from `uPrev` to `u` and then on to `u'` through any number of epoch
boundaries — including `u` exactly on a boundary — multiplies up to the same matrix as moving from
`uPrev` to `u'` directly. -/
theorem update_compose (L : ExpLaw K) (V : ℕ → Matrix κ κ K) (eps : List EpochT) (idx : ℕ)
    (uPrev u u' : ℚ) (h : u ≤ u') :
    evalFactors L V (castF (advance eps idx uPrev u).2.2) *
      evalFactors L V (castF (advance (advance eps idx uPrev u).1 (advance eps idx uPrev u).2.1 u u').2.2)
      = evalFactors L V (castF (advance eps idx uPrev u').2.2) := by
  have := (advance_compose (expSem L V) eps idx uPrev u u' h).2.2
  rw [evalF_expSem, evalF_expSem, castF_append, evalFactors_append] at this
  exact this

/-- **C10 (redundant boundary).** Splitting an epoch at a point where nothing changes does not
change any product: consecutive factors of the same generator merge. -/
theorem redundant_boundary (L : ExpLaw K) (V : ℕ → Matrix κ κ K) (e : ℕ) (s t : K)
    (fs : List (ℕ × K)) :
    evalFactors L V ((e, s) :: (e, t) :: fs) = evalFactors L V ((e, s + t) :: fs) :=
  evalFactors_merge L V e s t fs

end PG

#print axioms PG.code_accumulate_pointwise
#print axioms PG.code_cdf_pointwise
#print axioms PG.update_compose
