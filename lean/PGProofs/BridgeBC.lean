/-
PGProofs.BridgeBC — the executable state-space code model (`PGModel.Space`) builds, on BLOCK
counts (the state space used for the site-frequency spectrum), exactly the generator which
`PGProofs.Labelled` (`block_lumping`) proves to be the lumping of the labelled particle system
of typed blocks.
-/
import PGProofs.Bridge
import Mathlib.Data.Fin.Tuple.Basic
import Mathlib.Data.List.OfFn
import Mathlib.Algebra.BigOperators.Fin
import Mathlib.Order.Interval.Finset.Fin

set_option linter.unusedSectionVars false
set_option linter.unusedSimpArgs false
set_option linter.unusedVariables false

open Finset

namespace PG

/-! ## 0. Definitions -/

/-- block-counting state for n samples: `c (d, i)` = number of blocks of size `i+1` in deme `d` -/
def encBC {D n : ℕ} (c : Fin D × Fin n → ℕ) : State :=
  { lin := [List.ofFn fun d => List.ofFn fun i => c (d, i)],
    lnk := [List.ofFn fun _ : Fin D => List.ofFn fun _ : Fin n => 0] }

/-- the blocks partition the n samples -/
def massBC {D n : ℕ} (c : Fin D × Fin n → ℕ) : ℕ := ∑ d, ∑ i : Fin n, (i.val + 1) * c (d, i)

/-! ## 1. Lists of the form `List.ofFn` -/

section OfFn
variable {n : ℕ}

theorem getD_ofFn_fin (a : Fin n → ℕ) (i : Fin n) : (List.ofFn a).getD i.val 0 = a i := by
  simp [List.getD_eq_getElem?_getD, List.getElem?_ofFn]

theorem getD_ofFn_lt (a : Fin n → ℕ) (i : ℕ) (hi : i < n) : (List.ofFn a).getD i 0 = a ⟨i, hi⟩ :=
  getD_ofFn_fin a ⟨i, hi⟩

theorem getN_ofFn (a : Fin n → ℕ) (i : Fin n) : getN (List.ofFn a) i.val = a i :=
  getD_ofFn_fin a i

theorem zipWith_ofFn (f : ℕ → ℕ → ℕ) (a b : Fin n → ℕ) :
    List.zipWith f (List.ofFn a) (List.ofFn b) = List.ofFn fun i => f (a i) (b i) := by
  apply List.ext_getElem
  · simp
  · intro i h1 h2
    simp

theorem sumNat_ofFn (a : Fin n → ℕ) : sumNat (List.ofFn a) = ∑ i, a i := by
  rw [sumNat_eq, List.sum_ofFn]

theorem addAt_ofFn (a : Fin n → ℕ) (k : Fin n) (d : ℕ) :
    addAt (List.ofFn a) k.val d = List.ofFn (a + d • e1 k) := by
  unfold addAt
  rw [ofFn_modify]
  congr 1
  funext t
  by_cases h : t = k
  · subst h; simp [e1]
  · simp [e1, h]

theorem subAt_ofFn (a : Fin n → ℕ) (k : Fin n) (d : ℕ) :
    subAt (List.ofFn a) k.val d = List.ofFn (a - d • e1 k) := by
  unfold subAt
  rw [ofFn_modify]
  congr 1
  funext t
  by_cases h : t = k
  · subst h; simp [e1]
  · simp [e1, h]

theorem weight_ofFn (κ' : Fin n → ℕ) : weight (List.ofFn κ') = blkSize κ' := by
  unfold weight blkSize
  rw [sumNat_eq, List.length_ofFn, sum_map_range, ← Fin.sum_univ_eq_sum_range
    (fun i => (i + 1) * getN (List.ofFn κ') i) n]
  refine sum_congr rfl fun i _ => ?_
  rw [getN_ofFn]

end OfFn

/-! ## 2. `boxes` enumerates the order ideal `Iic` -/

section Boxes

theorem sum_map_flatMap_rat {α β : Type} (l : List α) (g : α → List β) (f : β → ℚ) :
    ((l.flatMap g).map f).sum = (l.map fun x => ((g x).map f).sum).sum := by
  induction l with
  | nil => simp
  | cons x xs ih => simp [List.flatMap_cons, ih]

/-- a sum over `boxes (ofFn a)` (in `itertools.product` order) is the sum over all `κ' ≤ a` -/
theorem sum_boxes_ofFn {n : ℕ} (a : Fin n → ℕ) (F : List ℕ → ℚ) :
    ((boxes (List.ofFn a)).map F).sum = ∑ κ' ∈ Iic a, F (List.ofFn κ') := by
  induction n generalizing F with
  | zero =>
    have hI : (Iic a) = {a} := by
      ext κ; simp [Subsingleton.elim κ a]
    simp [boxes, hI]
  | succ n ih =>
    rw [List.ofFn_succ, boxes, sum_map_flatMap_rat, sum_map_range_rat]
    simp only [List.map_map, Function.comp_def]
    have h1 : ∀ i, (List.map (fun r => F (i :: r)) (boxes (List.ofFn fun j : Fin n => a j.succ))).sum
        = ∑ κ'' ∈ Iic (fun j : Fin n => a j.succ), F (i :: List.ofFn κ'') := fun i =>
      ih (fun j => a j.succ) (fun r => F (i :: r))
    simp only [h1]
    rw [← Finset.sum_product']
    symm
    refine Finset.sum_nbij' (fun κ' => (κ' 0, Fin.tail κ')) (fun p => Fin.cons p.1 p.2)
      ?_ ?_ ?_ ?_ ?_
    · intro κ' hκ'
      rw [mem_Iic] at hκ'
      rw [mem_product, mem_range, mem_Iic]
      exact ⟨Nat.lt_succ_of_le (hκ' 0), fun j => hκ' j.succ⟩
    · intro p hp
      rw [mem_product, mem_range, mem_Iic] at hp
      rw [mem_Iic]
      intro j
      refine Fin.cases ?_ (fun j => ?_) j
      · simpa using Nat.le_of_lt_succ hp.1
      · simpa using hp.2 j
    · intro κ' _; simp
    · intro p _; simp
    · intro κ' _
      rw [List.ofFn_succ]
      rfl

end Boxes

/-! ## 3. The merger events of one deme (`model.coalesce(n, blocks)`) -/

section CoalRow
variable {n : ℕ}

theorem filterMap_ite {α β : Type} (l : List α) (p : α → Prop) [DecidablePred p] (h : α → β) :
    l.filterMap (fun x => if p x then some (h x) else none) = (l.filter fun x => decide (p x)).map h := by
  induction l with
  | nil => rfl
  | cons x xs ih =>
    by_cases hp : p x
    · simp [List.filterMap_cons, List.filter_cons, hp, ih]
    · simp [List.filterMap_cons, List.filter_cons, hp, ih]

/-- the block-size row after a merger with profile `κ'` (as the code computes it) -/
def mergeRow (a κ' : Fin n → ℕ) : List ℕ :=
  addAt (List.ofFn (a - κ')) (blkSize κ' - 1) 1

/-- **Multiple-merger models**: the outcomes of `coalesceMM` on a row of `n ≠ 1` block sizes are
indexed by the profiles `κ' ≤ a` with at least two blocks, at rate `∏ C(aᵢ, κ'ᵢ) · λ`. -/
theorem coalesceMM_ofFn_sum (m : Model) (hn : n ≠ 1) (a : Fin n → ℕ) (tsd : ℚ) (H : List ℕ → ℚ) :
    ((coalesceMM m (List.ofFn a)).map fun q => q.2 / tsd * H q.1).sum
      = ∑ κ' ∈ (Iic a).filter (fun κ' => 2 ≤ ∑ i, κ' i),
          ((∏ i, (a i).choose (κ' i) : ℕ) : ℚ) * (lam m (∑ i, a i) (∑ i, κ' i) / tsd)
            * H (mergeRow a κ') := by
  unfold coalesceMM
  simp only [List.length_ofFn, if_neg hn]
  rw [filterMap_ite, List.map_map, sum_map_filter]
  have hcongr : ∀ comb ∈ boxes (List.ofFn a),
      (fun comb => if decide (sumNat comb > 1) = true then
          ((fun q : List ℕ × ℚ => q.2 / tsd * H q.1) ∘ fun comb =>
            (addAt (List.zipWith (· - ·) (List.ofFn a) comb) (weight comb - 1) 1,
              getRateBC m (sumNat (List.ofFn a)) (selectPos (List.ofFn a) comb)
                (selectPos comb comb))) comb else 0) comb
      = (fun comb => if 2 ≤ comb.sum then
          (((List.zipWith Nat.choose (List.ofFn a) comb).prod : ℕ) : ℚ)
            * lam m (List.ofFn a).sum comb.sum / tsd
            * H (addAt (List.zipWith (· - ·) (List.ofFn a) comb) (weight comb - 1) 1) else 0) comb := by
    intro comb hcomb
    simp only [Function.comp, decide_eq_true_eq, sumNat_eq, gt_iff_lt]
    have := getRateBC_selectPos m (List.ofFn a) comb hcomb
    rw [sumNat_eq] at this
    rw [this]
    rfl
  rw [List.map_congr_left hcongr, sum_boxes_ofFn, Finset.sum_filter]
  refine sum_congr rfl fun κ' _ => ?_
  simp only [List.sum_ofFn, zipWith_ofFn, List.prod_ofFn, weight_ofFn]
  split_ifs with h
  · unfold mergeRow
    have : (List.ofFn fun i => a i - κ' i) = List.ofFn (a - κ') := rfl
    rw [this]
    ring
  · rfl

/-! ### Kingman: profiles of two blocks -/

theorem sum_e1 (i : Fin n) : ∑ t, (e1 i : Fin n → ℕ) t = 1 := by
  simp [e1, Finset.sum_pi_single']

theorem exists_add_e1 (κ : Fin n → ℕ) (k : ℕ) (h : ∑ t, κ t = k + 1) :
    ∃ i κ1, κ = κ1 + e1 i ∧ ∑ t, κ1 t = k := by
  obtain ⟨i, _, hi⟩ := Finset.exists_ne_zero_of_sum_ne_zero (s := univ) (f := κ) (by omega)
  have hκ : κ = (κ - e1 i) + e1 i := by
    funext t
    by_cases ht : t = i
    · subst ht; simp [e1]; omega
    · simp [e1, ht]
  refine ⟨i, κ - e1 i, hκ, ?_⟩
  have h2 : ∑ t, κ t = ∑ t, (κ - e1 i) t + ∑ t, (e1 i : Fin n → ℕ) t := by
    rw [← sum_add_distrib]
    conv_lhs => rw [hκ]
    rfl
  rw [sum_e1] at h2
  omega

theorem exists_pair_of_sum_two (κ : Fin n → ℕ) (h : ∑ t, κ t = 2) :
    ∃ i j : Fin n, j ≤ i ∧ κ = e1 i + e1 j := by
  obtain ⟨i, κ1, rfl, h1⟩ := exists_add_e1 κ 1 h
  obtain ⟨j, κ2, rfl, h2⟩ := exists_add_e1 κ1 0 h1
  have hz : κ2 = 0 := by
    funext t
    exact (Finset.sum_eq_zero_iff.mp h2) t (mem_univ t)
  subst hz
  rcases le_total j i with hji | hij
  · exact ⟨i, j, hji, by rw [zero_add, add_comm]⟩
  · exact ⟨j, i, hij, by rw [zero_add]⟩

theorem pair_inj {i j i' j' : Fin n} (hji : j ≤ i) (hji' : j' ≤ i')
    (h : (e1 i + e1 j : Fin n → ℕ) = e1 i' + e1 j') : i = i' ∧ j = j' := by
  have hi : i = i' ∨ i = j' := by
    by_contra hne
    rw [not_or] at hne
    have h0 : (e1 i' + e1 j' : Fin n → ℕ) i = 0 := by
      simp [e1, Pi.single_apply, hne.1, hne.2]
    have h1 : 1 ≤ (e1 i + e1 j : Fin n → ℕ) i := by simp [e1]
    rw [h] at h1; omega
  have hi' : i' = i ∨ i' = j := by
    by_contra hne
    rw [not_or] at hne
    have h0 : (e1 i + e1 j : Fin n → ℕ) i' = 0 := by
      simp [e1, Pi.single_apply, hne.1, hne.2]
    have h1 : 1 ≤ (e1 i' + e1 j' : Fin n → ℕ) i' := by simp [e1]
    rw [← h] at h1; omega
  have hii : i = i' := by
    rcases hi with h1 | h1
    · exact h1
    · rcases hi' with h2 | h2
      · exact h2.symm
      · subst h1 h2; exact le_antisymm hji' hji
  subst hii
  refine ⟨rfl, ?_⟩
  have h3 : (e1 j : Fin n → ℕ) = e1 j' := add_left_cancel h
  by_contra hne
  have := congrFun h3 j
  simp [e1, Pi.single_apply, hne] at this

/-- a weighted sum over the profiles of exactly two blocks is a sum over (ordered) pairs -/
theorem sum_profiles_two (a : Fin n → ℕ) (G : (Fin n → ℕ) → ℚ) :
    ∑ κ' ∈ (Iic a).filter (fun κ' => ∑ t, κ' t = 2), (wt a κ' : ℚ) * G κ'
      = ∑ i, ∑ j, if i = j then ((a i).choose 2 : ℚ) * G (e1 i + e1 i)
          else if j < i then (a i : ℚ) * (a j : ℚ) * G (e1 i + e1 j) else 0 := by
  classical
  have hR : (∑ i, ∑ j, if i = j then ((a i).choose 2 : ℚ) * G (e1 i + e1 i)
          else if j < i then (a i : ℚ) * (a j : ℚ) * G (e1 i + e1 j) else 0)
      = ∑ p ∈ (univ : Finset (Fin n × Fin n)).filter (fun p => p.2 ≤ p.1),
          (wt a (e1 p.1 + e1 p.2) : ℚ) * G (e1 p.1 + e1 p.2) := by
    rw [Finset.sum_filter, Fintype.sum_prod_type]
    refine sum_congr rfl fun i _ => sum_congr rfl fun j _ => ?_
    rw [wt_pair]
    by_cases hij : i = j
    · subst hij; simp
    · rcases lt_or_gt_of_ne hij with hlt | hgt
      · have : ¬ j ≤ i := not_le.mpr hlt
        have h2 : ¬ j < i := fun h => this h.le
        simp [hij, this, h2]
      · simp [hij, hgt, hgt.le]
  rw [hR]
  have hS : ∑ p ∈ (univ : Finset (Fin n × Fin n)).filter (fun p => p.2 ≤ p.1),
          (wt a (e1 p.1 + e1 p.2) : ℚ) * G (e1 p.1 + e1 p.2)
      = ∑ p ∈ (univ : Finset (Fin n × Fin n)).filter
            (fun p => p.2 ≤ p.1 ∧ (e1 p.1 + e1 p.2 : Fin n → ℕ) ≤ a),
          (wt a (e1 p.1 + e1 p.2) : ℚ) * G (e1 p.1 + e1 p.2) := by
    symm
    apply Finset.sum_subset
    · intro p hp
      rw [mem_filter] at hp ⊢
      exact ⟨hp.1, hp.2.1⟩
    · intro p hp hnp
      rw [mem_filter] at hp hnp
      have : ¬ (e1 p.1 + e1 p.2 : Fin n → ℕ) ≤ a := fun h => hnp ⟨mem_univ _, hp.2, h⟩
      rw [wt_eq_zero_of_not_le this]
      simp
  rw [hS]
  symm
  refine Finset.sum_nbij (fun p => e1 p.1 + e1 p.2) ?_ ?_ ?_ ?_
  · intro p hp
    rw [mem_filter] at hp
    rw [mem_filter, mem_Iic]
    refine ⟨hp.2.2, ?_⟩
    simp only [Pi.add_apply, sum_add_distrib, sum_e1]
  · intro p hp q hq hpq
    rw [Finset.mem_coe, mem_filter] at hp hq
    obtain ⟨h1, h2⟩ := pair_inj hp.2.1 hq.2.1 hpq
    exact Prod.ext h1 h2
  · intro κ hκ
    rw [Finset.mem_coe, mem_filter, mem_Iic] at hκ
    obtain ⟨i, j, hji, rfl⟩ := exists_pair_of_sum_two κ hκ.2
    refine ⟨(i, j), ?_, rfl⟩
    rw [Finset.mem_coe, mem_filter]
    exact ⟨mem_univ _, hji, hκ.1⟩
  · intro p _; rfl

theorem blkSize_e1 (i : Fin n) : blkSize (e1 i) = i.val + 1 := by
  unfold blkSize
  rw [Finset.sum_eq_single_of_mem i (mem_univ i)]
  · simp [e1]
  · intro t _ ht; simp [e1, ht]

theorem blkSize_add (κ κ' : Fin n → ℕ) : blkSize (κ + κ') = blkSize κ + blkSize κ' := by
  unfold blkSize
  simp only [Pi.add_apply, mul_add, sum_add_distrib]

theorem mergeRow_pair_same (a : Fin n → ℕ) (i : Fin n) :
    addAt (subAt (List.ofFn a) i.val 2) (2 * (i.val + 1) - 1) 1 = mergeRow a (e1 i + e1 i) := by
  unfold mergeRow
  rw [subAt_ofFn, blkSize_add, blkSize_e1, two_nsmul,
    show 2 * (i.val + 1) - 1 = i.val + 1 + (i.val + 1) - 1 by omega]

theorem mergeRow_pair (a : Fin n → ℕ) (i j : Fin n) :
    addAt (subAt (subAt (List.ofFn a) i.val 1) j.val 1) (i.val + j.val + 1) 1
      = mergeRow a (e1 i + e1 j) := by
  unfold mergeRow
  have hsub : a - e1 i - e1 j = a - (e1 i + e1 j) := by
    funext t; simp only [Pi.sub_apply, Pi.add_apply, Nat.sub_sub]
  rw [subAt_ofFn, subAt_ofFn, blkSize_add, blkSize_e1, blkSize_e1, one_nsmul, one_nsmul,
    hsub, show i.val + j.val + 1 = i.val + 1 + (j.val + 1) - 1 by omega]

/-- **Kingman**: the outcomes of `coalesceStd` on a row of `n ≠ 1` block sizes, in the same form
as for the multiple-merger models. -/
theorem coalesceStd_ofFn_sum (hn : n ≠ 1) (a : Fin n → ℕ) (tsd : ℚ) (H : List ℕ → ℚ) :
    ((coalesceStd (List.ofFn a)).map fun q => q.2 / tsd * H q.1).sum
      = ∑ κ' ∈ (Iic a).filter (fun κ' => 2 ≤ ∑ i, κ' i),
          ((∏ i, (a i).choose (κ' i) : ℕ) : ℚ) * (lam .kingman (∑ i, a i) (∑ i, κ' i) / tsd)
            * H (mergeRow a κ') := by
  have hL : (∑ κ' ∈ (Iic a).filter (fun κ' => 2 ≤ ∑ i, κ' i),
          ((∏ i, (a i).choose (κ' i) : ℕ) : ℚ) * (lam .kingman (∑ i, a i) (∑ i, κ' i) / tsd)
            * H (mergeRow a κ'))
      = ∑ κ' ∈ (Iic a).filter (fun κ' => ∑ t, κ' t = 2),
          (wt a κ' : ℚ) * (1 / tsd * H (mergeRow a κ')) := by
    rw [Finset.sum_filter, Finset.sum_filter]
    refine sum_congr rfl fun κ' _ => ?_
    by_cases h2 : ∑ t, κ' t = 2
    · simp only [h2, lam, wt, le_refl, if_true]
      ring
    · simp [h2, lam]
  rw [hL, sum_profiles_two]
  unfold coalesceStd
  simp only [List.length_ofFn, if_neg hn]
  rw [sum_map_flatMap_rat, pairs_eq, List.map_map, sum_finPairs]
  refine sum_congr rfl fun i _ => sum_congr rfl fun j _ => ?_
  simp only [Function.comp, getN_ofFn, Fin.val_inj]
  by_cases hij : i = j
  · subst hij
    simp only [if_true]
    by_cases h1 : a i > 1
    · simp only [h1, if_true, List.map_cons, List.map_nil, List.sum_cons, List.sum_nil,
        mergeRow_pair_same, kingmanRateBC, kingmanRate_eq, add_zero, mul_one]
      ring
    · have : (a i).choose 2 = 0 := Nat.choose_eq_zero_of_lt (by omega)
      simp [h1, this]
  · simp only [hij, if_false]
    by_cases hlt : j < i
    · have hgt : i.val > j.val := hlt
      simp only [hgt, hlt, if_true]
      by_cases hpos : a i > 0 ∧ a j > 0
      · simp only [hpos, and_self, if_true, List.map_cons, List.map_nil, List.sum_cons,
          List.sum_nil, mergeRow_pair, kingmanRateBC, add_zero]
        ring
      · have : (a i : ℚ) * (a j : ℚ) = 0 := by
          rcases Nat.eq_zero_or_pos (a i) with h | h
          · simp [h]
          · rcases Nat.eq_zero_or_pos (a j) with h' | h'
            · simp [h']
            · exact absurd ⟨h, h'⟩ hpos
        simp [hpos, this]
    · have hgt : ¬ i.val > j.val := hlt
      simp [hgt, hlt]

/-- the merger events of one deme, for all three models -/
theorem coalesceBlocks_ofFn_sum (m : Model) (hn : n ≠ 1) (a : Fin n → ℕ) (tsd : ℚ)
    (H : List ℕ → ℚ) :
    ((coalesceBlocks m (List.ofFn a)).map fun q => q.2 / tsd * H q.1).sum
      = ∑ κ' ∈ (Iic a).filter (fun κ' => 2 ≤ ∑ i, κ' i),
          ((∏ i, (a i).choose (κ' i) : ℕ) : ℚ) * (lam m (∑ i, a i) (∑ i, κ' i) / tsd)
            * H (mergeRow a κ') := by
  cases m with
  | kingman => exact coalesceStd_ofFn_sum hn a tsd H
  | beta al st => exact coalesceMM_ofFn_sum _ hn a tsd H
  | dirac psi c st => exact coalesceMM_ofFn_sum _ hn a tsd H

/-! ### Membership: every outcome is a `mergeRow` -/

theorem mem_boxes_ofFn (a : Fin n → ℕ) (comb : List ℕ) (h : comb ∈ boxes (List.ofFn a)) :
    ∃ κ' : Fin n → ℕ, κ' ≤ a ∧ comb = List.ofFn κ' := by
  induction n generalizing comb with
  | zero =>
    refine ⟨a, le_rfl, ?_⟩
    simpa [boxes] using h
  | succ n ih =>
    rw [List.ofFn_succ, boxes, List.mem_flatMap] at h
    obtain ⟨i, hi, h⟩ := h
    rw [List.mem_range] at hi
    rw [List.mem_map] at h
    obtain ⟨r, hr, rfl⟩ := h
    obtain ⟨κ'', hle, rfl⟩ := ih (fun j => a j.succ) r hr
    refine ⟨Fin.cons i κ'', ?_, ?_⟩
    · intro j
      refine Fin.cases ?_ (fun j => ?_) j
      · simpa using Nat.le_of_lt_succ hi
      · simpa using hle j
    · rw [List.ofFn_succ]
      simp

theorem mem_pairs (n i j : ℕ) (h : (i, j) ∈ pairs n) : i < n ∧ j < n := by
  unfold pairs at h
  rw [List.mem_flatMap] at h
  obtain ⟨i', hi', h⟩ := h
  rw [List.mem_map] at h
  obtain ⟨j', hj', h⟩ := h
  rw [List.mem_range] at hi' hj'
  rw [Prod.mk.injEq] at h
  omega

theorem sum_pair (i j : Fin n) : ∑ t, (e1 i + e1 j : Fin n → ℕ) t = 2 := by
  simp only [Pi.add_apply, sum_add_distrib, sum_e1]

/-- every outcome of `model.coalesce(n, blocks)` merges a profile `κ' ≤ a` of at least two blocks -/
theorem coalesceBlocks_ofFn_mem (m : Model) (hn : n ≠ 1) (a : Fin n → ℕ) (q : List ℕ × ℚ)
    (hq : q ∈ coalesceBlocks m (List.ofFn a)) :
    ∃ κ' : Fin n → ℕ, κ' ≤ a ∧ 2 ≤ ∑ i, κ' i ∧ q.1 = mergeRow a κ' := by
  have hMM : ∀ m, q ∈ coalesceMM m (List.ofFn a) →
      ∃ κ' : Fin n → ℕ, κ' ≤ a ∧ 2 ≤ ∑ i, κ' i ∧ q.1 = mergeRow a κ' := by
    intro m hq
    unfold coalesceMM at hq
    simp only [List.length_ofFn, if_neg hn] at hq
    rw [filterMap_ite, List.mem_map] at hq
    obtain ⟨comb, hcomb, rfl⟩ := hq
    rw [List.mem_filter, decide_eq_true_eq] at hcomb
    obtain ⟨κ', hle, rfl⟩ := mem_boxes_ofFn a comb hcomb.1
    refine ⟨κ', hle, ?_, ?_⟩
    · have := hcomb.2
      rw [sumNat_ofFn] at this
      exact this
    · simp only [zipWith_ofFn, weight_ofFn]
      rfl
  cases m with
  | beta al st => exact hMM _ hq
  | dirac psi c st => exact hMM _ hq
  | kingman =>
    simp only [coalesceBlocks] at hq
    unfold coalesceStd at hq
    simp only [List.length_ofFn, if_neg hn] at hq
    rw [List.mem_flatMap] at hq
    obtain ⟨⟨i, j⟩, hij, hq⟩ := hq
    obtain ⟨hi, hj⟩ := mem_pairs n i j hij
    dsimp only at hq
    have hgi : getN (List.ofFn a) i = a ⟨i, hi⟩ := getN_ofFn a ⟨i, hi⟩
    have hgj : getN (List.ofFn a) j = a ⟨j, hj⟩ := getN_ofFn a ⟨j, hj⟩
    rw [hgi, hgj] at hq
    split_ifs at hq with h1 h2 h3 h4
    · rw [List.mem_singleton] at hq
      have hq1 := congrArg Prod.fst hq
      dsimp only at hq1
      have hs := (sum_pair (⟨i, hi⟩ : Fin n) ⟨i, hi⟩).ge
      have hm := mergeRow_pair_same a ⟨i, hi⟩
      dsimp only at hm
      have hle : (e1 ⟨i, hi⟩ + e1 ⟨i, hi⟩ : Fin n → ℕ) ≤ a := by
        intro t
        by_cases ht : t = ⟨i, hi⟩
        · subst ht; simp [e1]; omega
        · simp [e1, ht]
      exact ⟨_, hle, hs, hq1.trans hm⟩
    · simp at hq
    · rw [List.mem_singleton] at hq
      have hq1 := congrArg Prod.fst hq
      dsimp only at hq1
      have hs := (sum_pair (⟨i, hi⟩ : Fin n) ⟨j, hj⟩).ge
      have hm := mergeRow_pair a ⟨i, hi⟩ ⟨j, hj⟩
      dsimp only at hm
      have hne : (⟨i, hi⟩ : Fin n) ≠ ⟨j, hj⟩ := fun h => h1 (Fin.ext_iff.mp h)
      have hle : (e1 ⟨i, hi⟩ + e1 ⟨j, hj⟩ : Fin n → ℕ) ≤ a := by
        intro t
        by_cases ht : t = ⟨i, hi⟩
        · subst ht; simp [e1, hne]; omega
        · by_cases ht' : t = ⟨j, hj⟩
          · subst ht'; simp [e1, hne.symm]; omega
          · simp [e1, ht, ht']
      exact ⟨_, hle, hs, hq1.trans hm⟩
    · simp at hq
    · simp at hq

end CoalRow

/-! ## 4. The encoding of block-count vectors -/

section EncBC
variable {D n : ℕ}

/-- replace the row of deme `d` -/
def setRow (c : Fin D × Fin n → ℕ) (d : Fin D) (b : Fin n → ℕ) : Fin D × Fin n → ℕ :=
  fun t => if t.1 = d then b t.2 else c t

theorem nLoci_encBC (c : Fin D × Fin n → ℕ) : (encBC c).nLoci = 1 := rfl

theorem nDemes_encBC (c : Fin D × Fin n → ℕ) : (encBC c).nDemes = D := by
  simp [State.nDemes, encBC]

theorem nBlocks_encBC (c : Fin D × Fin n → ℕ) (hD : 0 < D) : (encBC c).nBlocks = n := by
  simp [State.nBlocks, encBC, List.getD_eq_getElem?_getD, List.getElem?_ofFn, hD]

theorem get3_ofFn (c : Fin D × Fin n → ℕ) (d : Fin D) (i : Fin n) :
    get3 [List.ofFn fun d => List.ofFn fun i => c (d, i)] 0 d.val i.val = c (d, i) := by
  simp [get3, List.getD_eq_getElem?_getD, List.getElem?_ofFn]

theorem unl_encBC (c : Fin D × Fin n → ℕ) (d : Fin D) (i : Fin n) :
    (encBC c).unl 0 d.val i.val = c (d, i) := by
  unfold State.unl
  simp only [encBC]
  rw [get3_ofFn, get3_ofFn (fun _ => 0), Nat.sub_zero]

theorem blocks_encBC (c : Fin D × Fin n → ℕ) (d : Fin D) :
    ((encBC c).lin.getD 0 []).getD d.val [] = List.ofFn fun i => c (d, i) := by
  simp [encBC, List.getD_eq_getElem?_getD, List.getElem?_ofFn]

theorem modify3_ofFn (c : Fin D × Fin n → ℕ) (d : Fin D) (i : Fin n) (f : ℕ → ℕ) :
    modify3 [List.ofFn fun d => List.ofFn fun i => c (d, i)] 0 d.val i.val f
      = [List.ofFn fun d' => List.ofFn fun i' => Function.update c (d, i) (f (c (d, i))) (d', i')] := by
  unfold modify3
  rw [List.modify_zero_cons, ofFn_modify, ofFn_modify]
  congr 2
  funext d'
  by_cases hd : d' = d
  · subst hd
    rw [Function.update_self]
    congr 1
    funext i'
    by_cases hi : i' = i
    · subst hi; simp
    · have : (d', i') ≠ (d', i) := fun h => hi (Prod.ext_iff.mp h).2
      simp [hi, this]
  · rw [Function.update_of_ne hd]
    congr 1
    funext i'
    have : (d', i') ≠ (d, i) := fun h => hd (Prod.ext_iff.mp h).1
    simp [this]

/-- the target of a migration event in the code -/
theorem migTarget_encBC (c : Fin D × Fin n → ℕ) (d d' : Fin D) (i : Fin n) :
    ({ encBC c with
        lin := modify3 (modify3 (encBC c).lin 0 d.val i.val (· - 1)) 0 d'.val i.val (· + 1) } : State)
      = encBC (c - e1 (d, i) + e1 (d', i)) := by
  simp only [encBC]
  rw [modify3_ofFn, modify3_ofFn]
  congr 3
  funext a
  congr 1
  funext b
  by_cases h' : (a, b) = (d', i)
  · rw [h']
    by_cases h : (d', i) = (d, i)
    · rw [h]; simp [e1]
    · simp [e1, h]
  · by_cases h : (a, b) = (d, i)
    · rw [h] at h' ⊢
      have h'' : (d', i) ≠ (d, i) := fun e => h' e.symm
      simp [e1, h', h'']
    · have h1 : (d', i) ≠ (a, b) := fun e => h' e.symm
      have h2 : (d, i) ≠ (a, b) := fun e => h e.symm
      simp [e1, h, h', Pi.single_apply]

/-- the target of a merger event in the code -/
theorem coalTarget_encBC (c : Fin D × Fin n → ℕ) (d : Fin D) (b : Fin n → ℕ) :
    ({ encBC c with lin := (encBC c).lin.modify 0 fun x => x.set d.val (List.ofFn b) } : State)
      = encBC (setRow c d b) := by
  simp only [encBC]
  rw [List.modify_zero_cons, ofFn_set]
  congr 3
  funext d'
  by_cases hd : d' = d
  · subst hd; simp [setRow]
  · simp [setRow, hd]

theorem locusTotal_encBC (c : Fin D × Fin n → ℕ) :
    (encBC c).locusTotal 0 = ∑ d, ∑ i, c (d, i) := by
  unfold State.locusTotal
  rw [sumNat_eq]
  simp only [encBC, List.getD_cons_zero, List.map_ofFn, Function.comp_def, sumNat_ofFn,
    List.sum_ofFn]

theorem encBC_injective : Function.Injective (encBC (D := D) (n := n)) := by
  intro c c' h
  funext ⟨d, i⟩
  have := congrArg (fun s => get3 s.lin 0 d.val i.val) h
  simpa [encBC, get3_ofFn] using this

theorem isAbsorbing_encBC (c : Fin D × Fin n → ℕ) :
    (encBC c).isAbsorbing = true ↔ ∑ d, ∑ i, c (d, i) = 1 := by
  unfold State.isAbsorbing
  rw [nLoci_encBC]
  simp [locusTotal_encBC]

end EncBC

/-! ## 5. Migration -/

section MigrateBC
variable {D n : ℕ}

/-- the list of migration events of the block-count state `c`, in the order of the code -/
def migListBC (mig : Fin D → Fin D → ℚ) (c : Fin D × Fin n → ℕ) : List (State × ℚ) :=
  ((finPairs D).filter fun p => decide (p.1 ≠ p.2)).flatMap fun p =>
    ((List.finRange n).filter fun i => decide (0 < c (p.1, i))).map fun i =>
      (encBC (c - e1 (p.1, i) + e1 (p.2, i)), mig p.1 p.2 * (c (p.1, i) : ℚ))

theorem migrateUnlinked_encBC (ts : Fin D → ℚ) (mig : Fin D → Fin D → ℚ) (r : ℚ)
    (c : Fin D × Fin n → ℕ) :
    migrateUnlinked (mkEpoch ts mig r) (encBC c) = addAll [] (migListBC mig c) := by
  unfold migrateUnlinked
  simp only [nLoci_encBC, nDemes_encBC]
  rcases Nat.eq_zero_or_pos D with rfl | hD
  · simp [pairs, migListBC, finPairs]
  simp only [nBlocks_encBC c hD, List.range_one, List.foldl_cons, List.foldl_nil]
  rw [pairs_eq, List.filter_map, List.foldl_map]
  rw [List.foldl_ext _ (fun acc p => addAll acc
      (((List.finRange n).filter fun i => decide (0 < c (p.1, i))).map fun i =>
        (encBC (c - e1 (p.1, i) + e1 (p.2, i)), mig p.1 p.2 * (c (p.1, i) : ℚ))))]
  · rw [foldl_addAll]
    unfold migListBC
    congr 2
    apply List.filter_congr
    intro p _
    rw [Bool.eq_iff_iff]
    simp [Fin.ext_iff]
  · intro acc p _
    dsimp only
    rw [← List.map_coe_finRange_eq_range, List.foldl_map]
    rw [List.foldl_ext _ (fun acc i => if 0 < c (p.1, i)
      then Dict.addTarget acc (encBC (c - e1 (p.1, i) + e1 (p.2, i)))
        (mig p.1 p.2 * (c (p.1, i) : ℚ)) else acc)]
    · rw [foldl_if_addTarget]
    · intro acc i _
      simp only [unl_encBC, m_mkEpoch]
      rw [migTarget_encBC]
      simp only [encBC, get3_ofFn, and_self]

theorem migrateLinked_encBC (ep : EpochP) (c : Fin D × Fin n → ℕ) :
    migrateLinked ep (encBC c) = [] := by
  unfold migrateLinked
  rw [if_pos (nLoci_encBC c)]

theorem migrate_encBC (ts : Fin D → ℚ) (mig : Fin D → Fin D → ℚ) (r : ℚ)
    (c : Fin D × Fin n → ℕ) :
    migrate (mkEpoch ts mig r) (encBC c) = addAll [] (migListBC mig c) := by
  unfold migrate
  rw [migrateUnlinked_encBC, migrateLinked_encBC,
    union_nil_left _ (nodup_keys_addAll _ _ nodup_keys_nil)]

theorem sum_map_finRange_rat (f : Fin n → ℚ) : ((List.finRange n).map f).sum = ∑ i, f i := by
  rw [Fin.sum_univ_def]

theorem genD_migListBC (mig : Fin D → Fin D → ℚ) (c : Fin D × Fin n → ℕ) (G : State → ℚ) :
    genD (migListBC mig c) G
      = ∑ d, ∑ d', ∑ i, if d ≠ d'
          then (c (d, i) : ℚ) * mig d d' * G (encBC (c - e1 (d, i) + e1 (d', i))) else 0 := by
  unfold migListBC
  rw [genD_flatMap, sum_map_filter, sum_finPairs]
  refine sum_congr rfl fun d _ => sum_congr rfl fun d' _ => ?_
  by_cases h : d = d'
  · simp [h]
  · simp only [ne_eq, h, not_false_eq_true, decide_true, if_true]
    unfold genD
    rw [List.map_map, sum_map_filter, sum_map_finRange_rat]
    refine sum_congr rfl fun i _ => ?_
    rcases Nat.eq_zero_or_pos (c (d, i)) with h0 | h0
    · simp [h0]
    · simp only [Function.comp, h0, decide_true, if_true]
      ring

/-- **Migration part of the generator row built by the code** (block counting). -/
theorem genOf_migrate_bc (ts : Fin D → ℚ) (mig : Fin D → Fin D → ℚ) (r : ℚ)
    (c : Fin D × Fin n → ℕ) (g : State → ℚ) :
    genOf (migrate (mkEpoch ts mig r) (encBC c)) g (encBC c)
      = ∑ d, ∑ d', ∑ i, if d ≠ d' then (c (d, i) : ℚ) * mig d d' *
          (g (encBC (c - e1 (d, i) + e1 (d', i))) - g (encBC c)) else 0 := by
  rw [genOf_eq_genD, migrate_encBC, genD_addAll _ _ _ nodup_keys_nil, genD_nil, zero_add,
    genD_migListBC]

end MigrateBC

/-! ## 6. Weighted totals (number of blocks, mass) -/

section WSum
variable {D n : ℕ}

/-- a linear functional of the count vector -/
def wsum (w : Fin D × Fin n → ℕ) (c : Fin D × Fin n → ℕ) : ℕ := ∑ t, w t * c t

theorem wsum_add (w a b : Fin D × Fin n → ℕ) : wsum w (a + b) = wsum w a + wsum w b := by
  unfold wsum
  simp only [Pi.add_apply, mul_add, sum_add_distrib]

theorem wsum_e1 (w : Fin D × Fin n → ℕ) (x : Fin D × Fin n) : wsum w (e1 x) = w x := by
  unfold wsum
  rw [Finset.sum_eq_single_of_mem x (mem_univ x)]
  · simp [e1]
  · intro t _ ht; simp [e1, ht]

theorem wsum_sub_add (w c b y : Fin D × Fin n → ℕ) (hb : b ≤ c) :
    wsum w (c - b + y) + wsum w b = wsum w c + wsum w y := by
  rw [← wsum_add, ← wsum_add]
  congr 1
  funext t
  have hbt : b t ≤ c t := hb t
  simp only [Pi.add_apply, Pi.sub_apply]
  omega

theorem total_eq_wsum (c : Fin D × Fin n → ℕ) : ∑ d, ∑ i, c (d, i) = wsum (fun _ => 1) c := by
  unfold wsum
  rw [Fintype.sum_prod_type]
  simp

theorem massBC_eq_wsum (c : Fin D × Fin n → ℕ) : massBC c = wsum (fun t => t.2.val + 1) c := by
  unfold wsum massBC
  rw [Fintype.sum_prod_type]

theorem wsum_emb (w : Fin D × Fin n → ℕ) (d : Fin D) (κ' : Fin n → ℕ) :
    wsum w (emb d κ') = ∑ i, w (d, i) * κ' i := by
  unfold wsum
  rw [Fintype.sum_prod_type, Finset.sum_eq_single_of_mem d (mem_univ d)]
  · simp [emb]
  · intro d' _ hd'
    simp [emb, hd']

theorem emb_le (c : Fin D × Fin n → ℕ) (d : Fin D) (κ' : Fin n → ℕ)
    (h : κ' ≤ fun i => c (d, i)) : emb d κ' ≤ c := by
  rintro ⟨d', i⟩
  by_cases hd : d' = d
  · subst hd; simpa [emb] using h i
  · simp [emb, hd]

theorem blkSize_le_massBC (c : Fin D × Fin n → ℕ) (d : Fin D) (κ' : Fin n → ℕ)
    (h : κ' ≤ fun i => c (d, i)) : blkSize κ' ≤ massBC c := by
  have h1 := wsum_sub_add (fun t => t.2.val + 1) c (emb d κ') 0 (emb_le c d κ' h)
  rw [wsum_emb, ← massBC_eq_wsum c] at h1
  have : blkSize κ' = ∑ i : Fin n, (i.val + 1) * κ' i := rfl
  rw [← this] at h1
  have h0 : wsum (fun t : Fin D × Fin n => t.2.val + 1) 0 = 0 := by simp [wsum]
  omega

theorem two_le_blkSize (κ' : Fin n → ℕ) (h : 2 ≤ ∑ i, κ' i) : 2 ≤ blkSize κ' := by
  refine h.trans ?_
  unfold blkSize
  refine Finset.sum_le_sum fun i _ => ?_
  exact Nat.le_mul_of_pos_left _ (Nat.succ_pos _)

end WSum

/-! ## 7. Coalescence -/

section CoalesceBC
variable {D n : ℕ} [NeZero n]

/-- the list of merger events of the block-count state `c`, in the order of the code -/
def coalListBC (m : Model) (ts : Fin D → ℚ) (c : Fin D × Fin n → ℕ) : List (State × ℚ) :=
  (List.finRange D).flatMap fun d =>
    (coalesceBlocks m (List.ofFn fun i => c (d, i))).map fun q =>
      (({ encBC c with lin := (encBC c).lin.modify 0 fun x => x.set d.val q.1 } : State),
        q.2 / ts d)

theorem coalesce1_encBC (m : Model) (ts : Fin D → ℚ) (mig : Fin D → Fin D → ℚ) (r : ℚ)
    (c : Fin D × Fin n → ℕ) :
    coalesce1 m (mkEpoch ts mig r) (encBC c) = addAll [] (coalListBC m ts c) := by
  unfold coalesce1
  simp only [nDemes_encBC]
  rw [← List.map_coe_finRange_eq_range, List.foldl_map]
  rw [List.foldl_ext _ (fun acc d => addAll acc
    ((coalesceBlocks m (List.ofFn fun i => c (d, i))).map fun q =>
      (({ encBC c with lin := (encBC c).lin.modify 0 fun x => x.set d.val q.1 } : State),
        q.2 / ts d)))]
  · rw [foldl_addAll]; rfl
  · intro acc d _
    rw [blocks_encBC, getR_mkEpoch]
    exact foldl_addTarget _ _ _ _

theorem mergeRow_eq (a κ' : Fin n → ℕ) (h : blkSize κ' ≤ n) :
    mergeRow a κ' = List.ofFn (a - κ' + e1 (Fin.ofNat n (blkSize κ' - 1))) := by
  unfold mergeRow
  have hv := blkTarget_val κ' h
  generalize Fin.ofNat n (blkSize κ' - 1) = k at hv ⊢
  rw [← hv, addAt_ofFn, one_nsmul]

theorem setRow_merge (c : Fin D × Fin n → ℕ) (d : Fin D) (κ' : Fin n → ℕ) (k : Fin n) :
    setRow c d ((fun i => c (d, i)) - κ' + e1 k) = c - emb d κ' + e1 (d, k) := by
  funext ⟨d', i⟩
  by_cases hd : d' = d
  · subst hd
    by_cases hi : i = k
    · subst hi; simp [setRow, emb, e1]
    · have : (d', k) ≠ (d', i) := fun h => hi (Prod.ext_iff.mp h).2.symm
      simp [setRow, emb, e1, hi, Pi.single_apply, this.symm]
  · have : (d', i) ≠ (d, k) := fun h => hd (Prod.ext_iff.mp h).1
    simp [setRow, emb, e1, hd, Pi.single_apply, this]

/-- the target of a merger event in the code is the encoding of the merged count vector -/
theorem mergeTarget_encBC (c : Fin D × Fin n → ℕ) (d : Fin D) (κ' : Fin n → ℕ)
    (h : blkSize κ' ≤ n) :
    ({ encBC c with
        lin := (encBC c).lin.modify 0 fun x => x.set d.val (mergeRow (fun i => c (d, i)) κ') }
      : State) = encBC (c - emb d κ' + e1 (d, Fin.ofNat n (blkSize κ' - 1))) := by
  rw [mergeRow_eq _ _ h, coalTarget_encBC, setRow_merge]

theorem genD_coalListBC (m : Model) (ts : Fin D → ℚ) (c : Fin D × Fin n → ℕ) (hn : 2 ≤ n)
    (hmass : massBC c ≤ n) (G : State → ℚ) :
    genD (coalListBC m ts c) G
      = ∑ d, ∑ κ' ∈ (Iic (fun i => c (d, i))).filter (fun κ' => 2 ≤ ∑ i, κ' i),
          ((∏ i, (c (d, i)).choose (κ' i) : ℕ) : ℚ) *
            (lam m (∑ i, c (d, i)) (∑ i, κ' i) / ts d) *
            G (encBC (c - emb d κ' + e1 (d, Fin.ofNat n (blkSize κ' - 1)))) := by
  unfold coalListBC
  rw [genD_flatMap, Fin.sum_univ_def]
  congr 1
  apply List.map_congr_left
  intro d _
  unfold genD
  rw [List.map_map]
  have := coalesceBlocks_ofFn_sum m (by omega : n ≠ 1) (fun i => c (d, i)) (ts d) (fun blk =>
    G ({ encBC c with lin := (encBC c).lin.modify 0 fun x => x.set d.val blk } : State))
  simp only [Function.comp_def]
  rw [this]
  refine sum_congr rfl fun κ' hκ' => ?_
  rw [mem_filter, mem_Iic] at hκ'
  rw [mergeTarget_encBC c d κ' ((blkSize_le_massBC c d κ' hκ'.1).trans hmass)]

/-- **Coalescence part of the generator row built by the code** (block counting), for all three
models: exactly the merger part of `block_closed_form`. -/
theorem genOf_coalesce1_bc (m : Model) (ts : Fin D → ℚ) (mig : Fin D → Fin D → ℚ) (r : ℚ)
    (c : Fin D × Fin n → ℕ) (hn : 2 ≤ n) (hmass : massBC c ≤ n) (g : State → ℚ) :
    genOf (coalesce1 m (mkEpoch ts mig r) (encBC c)) g (encBC c)
      = ∑ d, ∑ κ' ∈ (Iic (fun i => c (d, i))).filter (fun κ' => 2 ≤ ∑ i, κ' i),
          ((∏ i, (c (d, i)).choose (κ' i) : ℕ) : ℚ) *
            (lam m (∑ i, c (d, i)) (∑ i, κ' i) / ts d) *
            (g (encBC (c - emb d κ' + e1 (d, Fin.ofNat n (blkSize κ' - 1)))) - g (encBC c)) := by
  rw [genOf_eq_genD, coalesce1_encBC, genD_addAll _ _ _ nodup_keys_nil, genD_nil, zero_add,
    genD_coalListBC m ts c hn hmass]

end CoalesceBC

/-! ## 8. Targets: number of blocks and mass -/

section KeysBC
variable {D n : ℕ} [NeZero n]

/-- every migration target is a block-count state with the same number of blocks and the same
mass, different from the source -/
theorem migrate_keys_bc (ts : Fin D → ℚ) (mig : Fin D → Fin D → ℚ) (r : ℚ)
    (c : Fin D × Fin n → ℕ) (t : State)
    (ht : t ∈ keys (migrate (mkEpoch ts mig r) (encBC c))) :
    ∃ c' : Fin D × Fin n → ℕ, t = encBC c' ∧ ∑ d, ∑ i, c' (d, i) = ∑ d, ∑ i, c (d, i) ∧
      massBC c' = massBC c ∧ c' ≠ c := by
  rw [migrate_encBC, mem_keys_addAll] at ht
  rcases ht with ht | ht
  · simp at ht
  unfold migListBC keys at ht
  rw [List.mem_map] at ht
  obtain ⟨q, hq, rfl⟩ := ht
  rw [List.mem_flatMap] at hq
  obtain ⟨p, hp, hq⟩ := hq
  rw [List.mem_map] at hq
  obtain ⟨i, hi, rfl⟩ := hq
  rw [List.mem_filter, decide_eq_true_eq] at hp hi
  have hne : p.1 ≠ p.2 := hp.2
  have hpos : 0 < c (p.1, i) := hi.2
  have hle : e1 (p.1, i) ≤ c := by
    intro x
    by_cases hx : x = (p.1, i)
    · subst hx; simp only [e1, Pi.single_eq_same]; omega
    · simp [e1, hx]
  refine ⟨_, rfl, ?_, ?_, ?_⟩
  · have := wsum_sub_add (fun _ => 1) c (e1 (p.1, i)) (e1 (p.2, i)) hle
    rw [wsum_e1, wsum_e1, ← total_eq_wsum, ← total_eq_wsum c] at this
    omega
  · have := wsum_sub_add (fun t => t.2.val + 1) c (e1 (p.1, i)) (e1 (p.2, i)) hle
    rw [wsum_e1, wsum_e1, ← massBC_eq_wsum, ← massBC_eq_wsum c] at this
    dsimp only at this
    omega
  · intro h
    have h1 := congrFun h (p.2, i)
    have hx : (p.2, i) ≠ (p.1, i) := fun e => hne (Prod.ext_iff.mp e).1.symm
    simp [e1, hx] at h1

/-- every merger target is a block-count state with strictly fewer blocks and the same mass -/
theorem coalesce1_keys_bc (m : Model) (ts : Fin D → ℚ) (mig : Fin D → Fin D → ℚ) (r : ℚ)
    (c : Fin D × Fin n → ℕ) (hn : 2 ≤ n) (hmass : massBC c ≤ n) (t : State)
    (ht : t ∈ keys (coalesce1 m (mkEpoch ts mig r) (encBC c))) :
    ∃ c' : Fin D × Fin n → ℕ, t = encBC c' ∧ ∑ d, ∑ i, c' (d, i) < ∑ d, ∑ i, c (d, i) ∧
      massBC c' = massBC c := by
  rw [coalesce1_encBC, mem_keys_addAll] at ht
  rcases ht with ht | ht
  · simp at ht
  unfold coalListBC keys at ht
  rw [List.mem_map] at ht
  obtain ⟨p, hp, rfl⟩ := ht
  rw [List.mem_flatMap] at hp
  obtain ⟨d, _, hp⟩ := hp
  rw [List.mem_map] at hp
  obtain ⟨q, hq, rfl⟩ := hp
  obtain ⟨κ', hle, h2, hq1⟩ := coalesceBlocks_ofFn_mem m (by omega : n ≠ 1) _ q hq
  have hsize : blkSize κ' ≤ n := (blkSize_le_massBC c d κ' hle).trans hmass
  have hs2 := two_le_blkSize κ' h2
  refine ⟨c - emb d κ' + e1 (d, Fin.ofNat n (blkSize κ' - 1)), ?_, ?_, ?_⟩
  · simp only [hq1]
    exact mergeTarget_encBC c d κ' hsize
  · have := wsum_sub_add (fun _ => 1) c (emb d κ') (e1 (d, Fin.ofNat n (blkSize κ' - 1)))
      (emb_le c d κ' hle)
    rw [wsum_e1, wsum_emb, ← total_eq_wsum, ← total_eq_wsum c] at this
    simp only [one_mul] at this
    omega
  · have := wsum_sub_add (fun t => t.2.val + 1) c (emb d κ') (e1 (d, Fin.ofNat n (blkSize κ' - 1)))
      (emb_le c d κ' hle)
    rw [wsum_e1, wsum_emb, ← massBC_eq_wsum, ← massBC_eq_wsum c] at this
    dsimp only at this
    rw [blkTarget_val κ' hsize] at this
    have hb : blkSize κ' = ∑ i : Fin n, (i.val + 1) * κ' i := rfl
    rw [← hb] at this
    omega

end KeysBC

/-! ## 9. `transit` on block-count states: the bridge -/

section TransitBC
variable {D n : ℕ} [NeZero n]

theorem recombine_encBC (ep : EpochP) (c : Fin D × Fin n → ℕ) : recombine ep (encBC c) = [] :=
  recombine_one_locus ep _ (nLoci_encBC c)

theorem nodup_keys_migrate_encBC (ts : Fin D → ℚ) (mig : Fin D → Fin D → ℚ) (r : ℚ)
    (c : Fin D × Fin n → ℕ) : (keys (migrate (mkEpoch ts mig r) (encBC c))).Nodup := by
  rw [migrate_encBC]; exact nodup_keys_addAll _ _ nodup_keys_nil

theorem nodup_keys_coalesce1_encBC (m : Model) (ts : Fin D → ℚ) (mig : Fin D → Fin D → ℚ) (r : ℚ)
    (c : Fin D × Fin n → ℕ) : (keys (coalesce1 m (mkEpoch ts mig r) (encBC c))).Nodup := by
  rw [coalesce1_encBC]; exact nodup_keys_addAll _ _ nodup_keys_nil

/-- migration targets and merger targets are different states -/
theorem keys_disjoint_bc (m : Model) (ts : Fin D → ℚ) (mig : Fin D → Fin D → ℚ) (r : ℚ)
    (c : Fin D × Fin n → ℕ) (hn : 2 ≤ n) (hmass : massBC c ≤ n) :
    ∀ t ∈ keys (coalesce1 m (mkEpoch ts mig r) (encBC c)),
      t ∉ keys (migrate (mkEpoch ts mig r) (encBC c)) := by
  intro t ht hmem
  obtain ⟨c1, h1, hlt, _⟩ := coalesce1_keys_bc m ts mig r c hn hmass t ht
  obtain ⟨c2, h2, heq, _⟩ := migrate_keys_bc ts mig r c t hmem
  have : c1 = c2 := encBC_injective (h1.symm.trans h2)
  subst this
  omega

/-- the dictionary built by `transit` on a non-absorbing block-count state is the concatenation
of the migration and the coalescence dictionaries -/
theorem transit_encBC (m : Model) (ts : Fin D → ℚ) (mig : Fin D → Fin D → ℚ) (r : ℚ)
    (c : Fin D × Fin n → ℕ) (hn : 2 ≤ n) (hmass : massBC c ≤ n) (hc : ∑ d, ∑ i, c (d, i) ≠ 1) :
    transit m (mkEpoch ts mig r) (encBC c)
      = migrate (mkEpoch ts mig r) (encBC c) ++ coalesce1 m (mkEpoch ts mig r) (encBC c) := by
  have hab : (encBC c).isAbsorbing = false := by
    rw [← Bool.not_eq_true, isAbsorbing_encBC]; exact hc
  unfold transit
  simp only [hab, Bool.false_eq_true, if_false, nLoci_encBC, if_true, recombine_encBC]
  rw [union_nil_right, union_nil_left _ (nodup_keys_migrate_encBC ts mig r c)]
  exact union_eq_append _ _ (nodup_keys_coalesce1_encBC m ts mig r c)
    (keys_disjoint_bc m ts mig r c hn hmass)

theorem transit_encBC_absorbing (m : Model) (ts : Fin D → ℚ) (mig : Fin D → Fin D → ℚ) (r : ℚ)
    (c : Fin D × Fin n → ℕ) (hc : ∑ d, ∑ i, c (d, i) = 1) :
    transit m (mkEpoch ts mig r) (encBC c) = migrate (mkEpoch ts mig r) (encBC c) := by
  rw [transit_absorbing _ _ _ ((isAbsorbing_encBC c).mpr hc),
    union_nil_left _ (nodup_keys_migrate_encBC ts mig r c)]

/-- the generator row which the code builds at a non-absorbing block-count state, closed form -/
theorem genOf_transit_block_closed (m : Model) (ts : Fin D → ℚ) (mig : Fin D → Fin D → ℚ) (r : ℚ)
    (c : Fin D × Fin n → ℕ) (hn : 2 ≤ n) (hmass : massBC c ≤ n) (hc : ∑ d, ∑ i, c (d, i) ≠ 1)
    (g : State → ℚ) :
    genOf (transit m (mkEpoch ts mig r) (encBC c)) g (encBC c)
      = ∑ d, ∑ d', ∑ i, (if d ≠ d' then (c (d, i) : ℚ) * mig d d' *
            (g (encBC (c - e1 (d, i) + e1 (d', i))) - g (encBC c)) else 0)
        + ∑ d, ∑ κ' ∈ (Iic (fun i => c (d, i))).filter (fun κ' => 2 ≤ ∑ i, κ' i),
            ((∏ i, (c (d, i)).choose (κ' i) : ℕ) : ℚ) *
              (lam m (∑ i, c (d, i)) (∑ i, κ' i) / ts d) *
              (g (encBC (c - emb d κ' + e1 (d, Fin.ofNat n (blkSize κ' - 1)))) - g (encBC c)) := by
  rw [transit_encBC m ts mig r c hn hmass hc, ← genOf_migrate_bc ts mig r,
    ← genOf_coalesce1_bc m ts mig r c hn hmass]
  simp only [genOf_eq_genD, genD_append]

/-- **The bridge (block counting).** At every non-absorbing block-count state whose blocks fit
into `n` samples, the generator row encoded by the dictionary that `Transition.transit` builds is
the count generator `QCs` of the process of typed blocks — for every number of demes, every `n`,
each of the three coalescent models and all rates. -/
theorem genOf_transit_block_le (m : Model) (ts : Fin D → ℚ) (mig : Fin D → Fin D → ℚ) (r : ℚ)
    (c : Fin D × Fin n → ℕ) (hn : 2 ≤ n) (hmass : massBC c ≤ n) (hc : 2 ≤ ∑ d, ∑ i, c (d, i))
    (g : State → ℚ) :
    genOf (transit m (mkEpoch ts mig r) (encBC c)) g (encBC c)
      = QCs (blkRate (lam m) ts mig) blkRes (fun c' => g (encBC c')) c := by
  rw [genOf_transit_block_closed m ts mig r c hn hmass (by omega) g, block_closed_form]

/-- the bridge in the form asked for (`massBC c = n`, as on all reachable states) -/
theorem genOf_transit_block (m : Model) (ts : Fin D → ℚ) (mig : Fin D → Fin D → ℚ) (r : ℚ)
    (c : Fin D × Fin n → ℕ) (hn : 2 ≤ n) (hmass : massBC c = n) (hc : 2 ≤ ∑ d, ∑ i, c (d, i))
    (g : State → ℚ) :
    genOf (transit m (mkEpoch ts mig r) (encBC c)) g (encBC c)
      = QCs (blkRate (lam m) ts mig) blkRes (fun c' => g (encBC c')) c :=
  genOf_transit_block_le m ts mig r c hn hmass.le hc g

/-- At an absorbing block-count state (one block left) only migration remains. -/
theorem genOf_transit_block_absorbing (m : Model) (ts : Fin D → ℚ) (mig : Fin D → Fin D → ℚ)
    (r : ℚ) (c : Fin D × Fin n → ℕ) (hc : ∑ d, ∑ i, c (d, i) = 1) (g : State → ℚ) :
    genOf (transit m (mkEpoch ts mig r) (encBC c)) g (encBC c)
      = ∑ d, ∑ d', ∑ i, if d ≠ d' then (c (d, i) : ℚ) * mig d d' *
          (g (encBC (c - e1 (d, i) + e1 (d', i))) - g (encBC c)) else 0 := by
  rw [transit_encBC_absorbing m ts mig r c hc, genOf_migrate_bc]

/-- At an absorbing state the count generator `QCs` has no merger part either, so the bridge
holds there as well. -/
theorem genOf_transit_block_absorbing' (m : Model) (ts : Fin D → ℚ) (mig : Fin D → Fin D → ℚ)
    (r : ℚ) (c : Fin D × Fin n → ℕ) (hc : ∑ d, ∑ i, c (d, i) = 1) (g : State → ℚ) :
    genOf (transit m (mkEpoch ts mig r) (encBC c)) g (encBC c)
      = QCs (blkRate (lam m) ts mig) blkRes (fun c' => g (encBC c')) c := by
  rw [genOf_transit_block_absorbing m ts mig r c hc g, block_closed_form]
  have hz : ∑ d, ∑ κ' ∈ (Iic (fun i => c (d, i))).filter (fun κ' => 2 ≤ ∑ i, κ' i),
      ((∏ i, (c (d, i)).choose (κ' i) : ℕ) : ℚ) *
        (lam m (∑ i, c (d, i)) (∑ i, κ' i) / ts d) *
        (g (encBC (c - emb d κ' + e1 (d, Fin.ofNat n (blkSize κ' - 1)))) - g (encBC c)) = 0 := by
    refine sum_eq_zero fun d _ => ?_
    rw [Finset.filter_false_of_mem, Finset.sum_empty]
    intro κ' hκ'
    rw [mem_Iic] at hκ'
    have h1 : ∑ i, κ' i ≤ ∑ i, c (d, i) := Finset.sum_le_sum fun i _ => hκ' i
    have h2 : ∑ i, c (d, i) ≤ ∑ d, ∑ i, c (d, i) :=
      Finset.single_le_sum (f := fun d => ∑ i, c (d, i)) (fun _ _ => Nat.zero_le _) (mem_univ d)
    omega
  rw [hz, add_zero]

/-- the bridge at every block-count state whose blocks fit into `n` samples, absorbing or not -/
theorem genOf_transit_block_all (m : Model) (ts : Fin D → ℚ) (mig : Fin D → Fin D → ℚ) (r : ℚ)
    (c : Fin D × Fin n → ℕ) (hn : 2 ≤ n) (hmass : massBC c ≤ n) (g : State → ℚ) :
    genOf (transit m (mkEpoch ts mig r) (encBC c)) g (encBC c)
      = QCs (blkRate (lam m) ts mig) blkRes (fun c' => g (encBC c')) c := by
  by_cases hc : ∑ d, ∑ i, c (d, i) = 1
  · exact genOf_transit_block_absorbing' m ts mig r c hc g
  · rw [genOf_transit_block_closed m ts mig r c hn hmass hc g, block_closed_form]

/-- **C04 (lumping, block counting).** The generator which the code builds on block counts is
the projection of the generator of the labelled system of typed blocks: for every labelled
configuration `x` (a list of blocks, each with its deme and its size) of at least two blocks that
partition the `n` samples, the labelled generator applied to a function of the counts equals the
row of `Transition.transit` at the block-count state of `x`. -/
theorem C04_lumping_block (m : Model) (ts : Fin D → ℚ) (mig : Fin D → Fin D → ℚ) (r : ℚ)
    (g : State → ℚ) (x : List (Fin D × Fin n)) (hn : 2 ≤ n) (hmass : massBC (cntF x) = n)
    (hx : 2 ≤ x.length) :
    QLs (blkRate (lam m) ts mig) blkRes (fun c' => g (encBC c')) x
      = genOf (transit m (mkEpoch ts mig r) (encBC (cntF x))) g (encBC (cntF x)) := by
  rw [block_lumping, genOf_transit_block m ts mig r (cntF x) hn hmass
    (by rw [← Fintype.sum_prod_type (f := cntF x), sum_cntF]; exact hx) g]

/-- the same for every labelled configuration whose blocks fit into the `n` samples (absorbing
and empty ones included) -/
theorem C04_lumping_block' (m : Model) (ts : Fin D → ℚ) (mig : Fin D → Fin D → ℚ) (r : ℚ)
    (g : State → ℚ) (x : List (Fin D × Fin n)) (hn : 2 ≤ n) (hmass : massBC (cntF x) ≤ n) :
    QLs (blkRate (lam m) ts mig) blkRes (fun c' => g (encBC c')) x
      = genOf (transit m (mkEpoch ts mig r) (encBC (cntF x))) g (encBC (cntF x)) := by
  rw [block_lumping, genOf_transit_block_all m ts mig r (cntF x) hn hmass g]

/-- the dictionary built by `transit` at a block-count state has unique keys … -/
theorem nodup_keys_transit_encBC (m : Model) (ts : Fin D → ℚ) (mig : Fin D → Fin D → ℚ) (r : ℚ)
    (c : Fin D × Fin n → ℕ) (hn : 2 ≤ n) (hmass : massBC c ≤ n) :
    (keys (transit m (mkEpoch ts mig r) (encBC c))).Nodup := by
  by_cases hc : ∑ d, ∑ i, c (d, i) = 1
  · rw [transit_encBC_absorbing m ts mig r c hc]; exact nodup_keys_migrate_encBC ts mig r c
  · rw [transit_encBC m ts mig r c hn hmass hc, keys_append]
    refine List.Nodup.append (nodup_keys_migrate_encBC ts mig r c)
      (nodup_keys_coalesce1_encBC m ts mig r c) ?_
    intro t hmem ht
    exact keys_disjoint_bc m ts mig r c hn hmass t ht hmem

/-- … and no self-loop -/
theorem transit_encBC_no_self_loop (m : Model) (ts : Fin D → ℚ) (mig : Fin D → Fin D → ℚ) (r : ℚ)
    (c : Fin D × Fin n → ℕ) (hn : 2 ≤ n) (hmass : massBC c ≤ n) :
    encBC c ∉ keys (transit m (mkEpoch ts mig r) (encBC c)) := by
  have hmig : encBC c ∉ keys (migrate (mkEpoch ts mig r) (encBC c)) := by
    intro h
    obtain ⟨c', h', _, _, hne⟩ := migrate_keys_bc ts mig r c _ h
    exact hne (encBC_injective h').symm
  by_cases hc : ∑ d, ∑ i, c (d, i) = 1
  · rw [transit_encBC_absorbing m ts mig r c hc]; exact hmig
  · rw [transit_encBC m ts mig r c hn hmass hc, keys_append, List.mem_append, not_or]
    refine ⟨hmig, fun ht => ?_⟩
    obtain ⟨c1, h1, hlt, _⟩ := coalesce1_keys_bc m ts mig r c hn hmass _ ht
    have : c = c1 := encBC_injective h1
    subst this
    omega

/-- every target of `transit` at a block-count state is a block-count state of the same mass
with at most as many blocks: **every transition preserves the mass** -/
theorem transit_encBC_keys (m : Model) (ts : Fin D → ℚ) (mig : Fin D → Fin D → ℚ) (r : ℚ)
    (c : Fin D × Fin n → ℕ) (hn : 2 ≤ n) (hmass : massBC c ≤ n) (t : State)
    (ht : t ∈ keys (transit m (mkEpoch ts mig r) (encBC c))) :
    ∃ c' : Fin D × Fin n → ℕ, t = encBC c' ∧ massBC c' = massBC c ∧
      ∑ d, ∑ i, c' (d, i) ≤ ∑ d, ∑ i, c (d, i) := by
  by_cases hc : ∑ d, ∑ i, c (d, i) = 1
  · rw [transit_encBC_absorbing m ts mig r c hc] at ht
    obtain ⟨c', h, he, hm, _⟩ := migrate_keys_bc ts mig r c t ht
    exact ⟨c', h, hm, he.le⟩
  · rw [transit_encBC m ts mig r c hn hmass hc, keys_append, List.mem_append] at ht
    rcases ht with ht | ht
    · obtain ⟨c', h, he, hm, _⟩ := migrate_keys_bc ts mig r c t ht
      exact ⟨c', h, hm, he.le⟩
    · obtain ⟨c', h, he, hm⟩ := coalesce1_keys_bc m ts mig r c hn hmass t ht
      exact ⟨c', h, hm, he.le⟩

end TransitBC

/-! ## 10. End to end: the rate matrix of the block-counting state space -/

section EndToEndBC
variable {D n : ℕ} [NeZero n]

/-- the mass is invariant along the search -/
theorem reach_encBC (m : Model) (ts : Fin D → ℚ) (mig : Fin D → Fin D → ℚ) (r : ℚ)
    (c0 : Fin D × Fin n → ℕ) (hn : 2 ≤ n) (hmass : massBC c0 ≤ n) (s : State)
    (h : Reach (transit m (mkEpoch ts mig r)) (encBC c0) s) :
    ∃ c : Fin D × Fin n → ℕ, s = encBC c ∧ massBC c = massBC c0 ∧
      ∑ d, ∑ i, c (d, i) ≤ ∑ d, ∑ i, c0 (d, i) := by
  unfold Reach at h
  induction h with
  | refl => exact ⟨c0, rfl, rfl, le_rfl⟩
  | tail _ hbc ih =>
    obtain ⟨c, rfl, hm, hle⟩ := ih
    obtain ⟨c', h', hm', hle'⟩ := transit_encBC_keys m ts mig r c hn (by omega) _ hbc
    exact ⟨c', h', hm'.trans hm, hle'.trans hle⟩

/-- **End-to-end statement for the block-counting state space, from any initial block-count
state `c0` whose blocks fit into the `n` samples.** -/
theorem block_matrix_row_from (m : Model) (ts : Fin D → ℚ) (mig : Fin D → Fin D → ℚ) (r : ℚ)
    (c0 : Fin D × Fin n → ℕ) (hn : 2 ≤ n) (hmass : massBC c0 ≤ n) (fuel : ℕ) (g : Graph)
    (h : bfs (transit m (mkEpoch ts mig r)) (encBC c0) fuel = some g)
    (i : ℕ) (hi : i < g.visited.length) :
    ∃ c : Fin D × Fin n → ℕ, g.visited[i] = encBC c ∧ massBC c = massBC c0 ∧
      (∀ f : State → ℚ,
        ∑ j : Fin g.visited.length, rateEntry g.visited g.transitions i j * f g.visited[j]
          = QCs (blkRate (lam m) ts mig) blkRes (fun c' => f (encBC c')) c) ∧
      ∑ j : Fin g.visited.length, rateEntry g.visited g.transitions i j = 0 := by
  obtain ⟨_, _, _, _, hreach⟩ := bfs_spec _ _ fuel g h
  obtain ⟨c, hc, hm, _⟩ := reach_encBC m ts mig r c0 hn hmass _ (hreach _ (List.getElem_mem hi))
  have hmc : massBC c ≤ n := by omega
  refine ⟨c, hc, hm, ?_, ?_⟩
  · intro f
    rw [bfs_rateEntry_row _ _ fuel g h i hi
      (by rw [hc]; exact nodup_keys_transit_encBC m ts mig r c hn hmc)
      (by rw [hc]; exact transit_encBC_no_self_loop m ts mig r c hn hmc) f, hc]
    exact genOf_transit_block_all m ts mig r c hn hmc f
  · exact bfs_rateEntry_row_sum_zero _ _ fuel g h i hi
      (by rw [hc]; exact transit_encBC_no_self_loop m ts mig r c hn hmc)

/-- the initial block-count vector: `n` blocks of size 1 in deme 0 -/
def initBC (D n : ℕ) [NeZero D] [NeZero n] : Fin D × Fin n → ℕ :=
  Function.update (fun _ => 0) (0, 0) n

variable [NeZero D]

theorem massBC_initBC : massBC (initBC D n) = n := by
  rw [massBC_eq_wsum]
  unfold wsum initBC
  rw [Finset.sum_eq_single_of_mem ((0, 0) : Fin D × Fin n) (mem_univ _)]
  · simp
  · intro t _ ht; simp [ht]

/-- `_get_initial` of the block-counting state space is the encoding of `initBC` -/
theorem initialState_eq : initialState 1 D n n = encBC (initBC D n) := by
  unfold initialState encBC initBC
  have hz : List.replicate 1 (List.replicate D (List.replicate n 0))
      = [List.ofFn fun _ : Fin D => List.ofFn fun _ : Fin n => 0] := by
    simp [List.ofFn_const]
  simp only [hz, List.range_one, List.foldl_cons, List.foldl_nil]
  have := modify3_ofFn (fun _ : Fin D × Fin n => 0) 0 0 (fun _ => n)
  simp only [Fin.val_zero] at this
  rw [this]

/-- **End-to-end statement for the block-counting state space** (the one of the site-frequency
spectrum). Whatever the search started at `_get_initial` returns, every state it lists is a
block-count state `encBC c` whose blocks partition the `n` samples, the corresponding row of the
rate matrix assembled by `_graph_to_matrix` is the count generator `QCs` of the process of typed
blocks — i.e. (by `block_lumping`) the lumping of the labelled particle system — and the row
sums to zero. -/
theorem block_matrix_row (m : Model) (ts : Fin D → ℚ) (mig : Fin D → Fin D → ℚ) (r : ℚ)
    (hn : 2 ≤ n) (fuel : ℕ) (g : Graph)
    (h : bfs (transit m (mkEpoch ts mig r)) (initialState 1 D n n) fuel = some g)
    (i : ℕ) (hi : i < g.visited.length) :
    ∃ c : Fin D × Fin n → ℕ, g.visited[i] = encBC c ∧ massBC c = n ∧
      (∀ f : State → ℚ,
        ∑ j : Fin g.visited.length, rateEntry g.visited g.transitions i j * f g.visited[j]
          = QCs (blkRate (lam m) ts mig) blkRes (fun c' => f (encBC c')) c) ∧
      ∑ j : Fin g.visited.length, rateEntry g.visited g.transitions i j = 0 := by
  rw [initialState_eq] at h
  obtain ⟨c, h1, h2, h3, h4⟩ := block_matrix_row_from m ts mig r (initBC D n) hn
    massBC_initBC.le fuel g h i hi
  exact ⟨c, h1, h2.trans massBC_initBC, h3, h4⟩

end EndToEndBC

end PG

#print axioms PG.genOf_migrate_bc
#print axioms PG.genOf_coalesce1_bc
#print axioms PG.genOf_transit_block_le
#print axioms PG.genOf_transit_block
#print axioms PG.genOf_transit_block_absorbing
#print axioms PG.genOf_transit_block_all
#print axioms PG.isAbsorbing_encBC
#print axioms PG.migrate_keys_bc
#print axioms PG.coalesce1_keys_bc
#print axioms PG.transit_encBC_keys
#print axioms PG.C04_lumping_block
#print axioms PG.C04_lumping_block'
#print axioms PG.block_matrix_row_from
#print axioms PG.initialState_eq
#print axioms PG.block_matrix_row
