/-
PGProofs.MemoThm — theorems about `PGModel.Memo` (properties C17 and C15 (f)):

* `memo_keyEq_iff` (+ tuple / argument versions): under the pinned key scheme, what `functools.cache`
  compares is EQUALITY of the arguments (uses `Reward.key_injective` of `RoutesThm`);
* `memo_refinement`: for the pinned variant, after EVERY history of queries every answer is the value a
  fresh object returns (`spec`), so the object with its two memo tables and its `cached_property` slots
  refines the memo-free function; corollaries `memo_fresh_equiv`, `memo_order_irrelevant`;
* kernel-checked counterexamples for the five seeded defects (`frozensetComposite_collides`,
  `baseClassHash_collides` + `baseClassHash_atoms_separate`, `corr_inPlace_poisons_cov`,
  `getP_forgets_theta`, `inPlaceSum_poisons_memo`).
-/
import PGModel.Memo
import PGProofs.RoutesThm
import Mathlib.Data.List.Basic

set_option linter.unusedVariables false

namespace PG.Memo

/-! ## 1. key equality of the pinned scheme is equality -/

mutual
theorem keqb_eq : ∀ a b : RKey, keqb a b = true → a = b
  | .atom c p, .atom c' p', h => by
    simp only [keqb, Bool.and_eq_true, beq_iff_eq] at h
    rw [h.1, h.2]
  | .comp c ks, .comp c' ks', h => by
    simp only [keqb, Bool.and_eq_true, beq_iff_eq] at h
    rw [h.1, keqbList_eq ks ks' h.2]
  | .atom _ _, .comp _ _, h => by simp [keqb] at h
  | .comp _ _, .atom _ _, h => by simp [keqb] at h
theorem keqbList_eq : ∀ ks ks' : List RKey, keqbList ks ks' = true → ks = ks'
  | [], [], _ => rfl
  | k :: ks, k' :: ks', h => by
    simp only [keqbList, Bool.and_eq_true] at h
    rw [keqb_eq k k' h.1, keqbList_eq ks ks' h.2]
  | [], _ :: _, h => by simp [keqbList] at h
  | _ :: _, [], h => by simp [keqbList] at h
end

mutual
theorem keqb_refl : ∀ a : RKey, keqb a a = true
  | .atom c p => by simp [keqb]
  | .comp c ks => by simp [keqb, keqbList_refl ks]
theorem keqbList_refl : ∀ ks : List RKey, keqbList ks ks = true
  | [] => rfl
  | k :: ks => by simp [keqbList, keqb_refl k, keqbList_refl ks]
end

theorem keqb_iff (a b : RKey) : keqb a b = true ↔ a = b :=
  ⟨keqb_eq a b, fun h => h ▸ keqb_refl a⟩

/-- **C15 (f), keys.** Under the pinned scheme `functools.cache` treats two rewards (nested composites
included) as the same key iff they are the same reward. -/
theorem memo_keyEq_iff (r r' : Reward) : keyEq .current r r' = true ↔ r = r' := by
  constructor
  · intro h
    simp only [keyEq, Bool.and_eq_true] at h
    exact Reward.key_injective (keqb_eq _ _ h.2)
  · rintro rfl
    simp [keyEq, sameClass, keqb_refl]

theorem keyEqList_iff : ∀ rs rs' : List Reward, keyEqList .current rs rs' = true ↔ rs = rs'
  | [], [] => by simp [keyEqList]
  | r :: rs, r' :: rs' => by
    simp only [keyEqList, Bool.and_eq_true, memo_keyEq_iff, keyEqList_iff rs rs', List.cons.injEq]
  | [], _ :: _ => by simp [keyEqList]
  | _ :: _, [] => by simp [keyEqList]

/-- the same through the key tuples of `RoutesThm`: equal key tuples ⇔ equal reward tuples -/
theorem keyEqList_iff_keys (rs rs' : List Reward) :
    keyEqList .current rs rs' = true ↔ rs.map Reward.key = rs'.map Reward.key :=
  (keyEqList_iff rs rs').trans ⟨fun h => h ▸ rfl, fun h => Reward.keys_injective h⟩

theorem keyEqOpt_iff (o o' : Option (List Reward)) : keyEqOpt .current o o' = true ↔ o = o' := by
  cases o <;> cases o' <;> simp [keyEqOpt, keyEqList_iff]

/-- the arguments of two `moment` calls are one memo key iff they are equal -/
theorem momentEq_iff (a b : MomentArgs) : momentEq .current a b = true ↔ a = b := by
  cases a; cases b
  simp only [momentEq, Bool.and_eq_true, beq_iff_eq, keyEqOpt_iff, MomentArgs.mk.injEq]
  tauto

/-- the arguments of two `_accumulate` calls are one memo key iff they are equal -/
theorem accEq_iff (a b : AccArgs) : accEq .current a b = true ↔ a = b := by
  cases a; cases b
  simp only [accEq, Bool.and_eq_true, beq_iff_eq, keyEqList_iff, AccArgs.mk.injEq]
  tauto

theorem pEq_iff (a b : Rat) : pEq .withTheta a b = true ↔ a = b := by
  simp [pEq]

/-! ## 2. a memo table whose key equality is sound -/

section Table

variable {κ V : Type} (eq : κ → κ → Bool) (f : κ → V)

/-- every stored value is the value of the function at its key -/
def Sound (m : Memo κ V) : Prop := ∀ p ∈ m, p.2 = f p.1

theorem sound_nil : Sound f ([] : Memo κ V) := by
  intro p hp; cases hp

theorem lookup_sound (heq : ∀ a b, eq a b = true → a = b) :
    ∀ (m : Memo κ V) (k : κ) (v : V), Sound f m → lookup eq m k = some v → v = f k
  | [], _, _, _, h => by simp [lookup] at h
  | (k', v') :: m, k, v, hm, h => by
    unfold lookup at h
    split at h
    · rename_i hk
      have := heq _ _ hk
      have hv := hm (k', v') (List.mem_cons_self ..)
      simp only [Option.some.injEq] at h
      rw [← h, ← this]; exact hv
    · exact lookup_sound heq m k v (fun p hp => hm p (List.mem_cons_of_mem _ hp)) h

theorem insert_sound (heq : ∀ a b, eq a b = true → a = b) :
    ∀ (m : Memo κ V) (k : κ) (v : V), Sound f m → v = f k → Sound f (insert eq m k v)
  | [], k, v, _, hv => by
    intro p hp
    simp only [insert, List.mem_singleton] at hp
    rw [hp]; exact hv
  | (k', v') :: m, k, v, hm, hv => by
    unfold insert
    split
    · rename_i hk
      intro p hp
      rcases List.mem_cons.mp hp with rfl | hp
      · show v = f k'
        rw [heq _ _ hk]; exact hv
      · exact hm p (List.mem_cons_of_mem _ hp)
    · intro p hp
      rcases List.mem_cons.mp hp with rfl | hp
      · exact hm _ (List.mem_cons_self ..)
      · exact insert_sound heq m k v (fun p hp => hm p (List.mem_cons_of_mem _ hp)) hv p hp

/-- a memoised call of a pure function on a sound table returns the function's value and leaves the
table sound -/
theorem callMemo_sound (heq : ∀ a b, eq a b = true → a = b) (m : Memo κ V) (k : κ) (hm : Sound f m) :
    Sound f (callMemo eq f m k).1 ∧ (callMemo eq f m k).2.1 = f k := by
  unfold callMemo
  cases h : lookup eq m k with
  | some v => exact ⟨hm, lookup_sound eq f heq m k v hm h⟩
  | none => exact ⟨insert_sound eq f heq m k (f k) hm rfl, rfl⟩

end Table

/-! ## 3. the invariant of the object -/

variable {V : Type}

/-- every stored entry (memo tables and property slots) is the value a fresh object would compute -/
structure Inv (F : Fresh V) (st : State V) : Prop where
  moments : Sound (specMoment F) st.moments
  accs : Sound F.acc st.accs
  ps : Sound F.getP st.ps
  mean : ∀ v, st.mean = some v → v = spec F .mean
  var : ∀ v, st.var = some v → v = spec F .var
  cov : ∀ v, st.cov = some v → v = spec F .cov
  corr : ∀ v, st.corr = some v → v = spec F .corr

theorem inv_init (F : Fresh V) : Inv F (init : State V) :=
  ⟨sound_nil _, sound_nil _, sound_nil _, by simp [init, State.init], by simp [init, State.init],
    by simp [init, State.init], by simp [init, State.init]⟩

theorem accEq_sound : ∀ a b : AccArgs, accEq Variant.current.scheme a b = true → a = b :=
  fun a b h => (accEq_iff a b).mp h

theorem momentEq_sound : ∀ a b : MomentArgs, momentEq Variant.current.scheme a b = true → a = b :=
  fun a b h => (momentEq_iff a b).mp h

theorem pEq_sound : ∀ a b : Rat, pEq Variant.current.pkey a b = true → a = b :=
  fun a b h => (pEq_iff a b).mp h

theorem runAccOne_inv (F : Fresh V) (st : State V) (a : AccArgs) (h : Inv F st) :
    Inv F (runAccOne .current F st a).1 ∧ (runAccOne .current F st a).2 = F.acc a := by
  have hc := callMemo_sound (accEq Variant.current.scheme) F.acc accEq_sound st.accs a h.accs
  unfold runAccOne
  rcases hcm : callMemo (accEq Variant.current.scheme) F.acc st.accs a with ⟨m, v, b⟩
  rw [hcm] at hc
  cases b
  · exact ⟨⟨h.moments, hc.1, h.ps, h.mean, h.var, h.cov, h.corr⟩, hc.2⟩
  · exact ⟨⟨h.moments, hc.1, h.ps, h.mean, h.var, h.cov, h.corr⟩, hc.2⟩

theorem runAccList_inv (F : Fresh V) :
    ∀ (as : List AccArgs) (st : State V), Inv F st →
      Inv F (runAccList .current F st as).1 ∧ (runAccList .current F st as).2 = as.map F.acc
  | [], st, h => ⟨h, rfl⟩
  | a :: as, st, h => by
    have h1 := runAccOne_inv F st a h
    have h2 := runAccList_inv F as _ h1.1
    simp only [runAccList, List.map_cons]
    exact ⟨h2.1, by rw [h1.2, h2.2]⟩

theorem runGroup_inv (F : Fresh V) (st : State V) (g : AccCall) (h : Inv F st) :
    Inv F (runGroup .current F st g).1 ∧ (runGroup .current F st g).2 = specGroup F g := by
  have h1 := runAccList_inv F g.calls st h
  have hr : runGroup .current F st g
      = ((runAccList .current F st g.calls).1, groupValue F g (runAccList .current F st g.calls).2) := by
    unfold runGroup
    rfl
  rw [hr]
  exact ⟨h1.1, by simp only [h1.2]; rfl⟩

theorem runGroups_inv (F : Fresh V) :
    ∀ (gs : List AccCall) (st : State V), Inv F st →
      Inv F (runGroups .current F st gs).1 ∧ (runGroups .current F st gs).2 = gs.map (specGroup F)
  | [], st, h => ⟨h, rfl⟩
  | g :: gs, st, h => by
    have h1 := runGroup_inv F st g h
    have h2 := runGroups_inv F gs _ h1.1
    simp only [runGroups, List.map_cons]
    exact ⟨h2.1, by rw [h1.2, h2.2]⟩

theorem runMoment_inv (F : Fresh V) (st : State V) (a : MomentArgs) (h : Inv F st) :
    Inv F (runMoment .current F st a).1 ∧ (runMoment .current F st a).2 = specMoment F a := by
  unfold runMoment
  cases hl : lookup (momentEq Variant.current.scheme) st.moments a with
  | some v =>
    have hv := lookup_sound _ (specMoment F) momentEq_sound st.moments a v h.moments hl
    exact ⟨⟨h.moments, h.accs, h.ps, h.mean, h.var, h.cov, h.corr⟩, hv⟩
  | none =>
    have h1 := runGroups_inv F (F.plan a) st h
    have hv : F.finish a (runGroups .current F st (F.plan a)).2 = specMoment F a := by
      rw [h1.2]; rfl
    refine ⟨⟨?_, h1.1.accs, h1.1.ps, h1.1.mean, h1.1.var, h1.1.cov, h1.1.corr⟩, hv⟩
    exact insert_sound _ (specMoment F) momentEq_sound _ a _ h1.1.moments hv

theorem readMean_inv (F : Fresh V) (st : State V) (h : Inv F st) :
    Inv F (readMean .current F st).1 ∧ (readMean .current F st).2 = spec F .mean := by
  unfold readMean
  cases hm : st.mean with
  | some v => exact ⟨h, h.mean v hm⟩
  | none =>
    have h1 := runMoment_inv F st meanArgs h
    refine ⟨⟨h1.1.moments, h1.1.accs, h1.1.ps, ?_, h1.1.var, h1.1.cov, h1.1.corr⟩, h1.2⟩
    intro v hv
    simp only [Option.some.injEq] at hv
    rw [← hv]; exact h1.2

theorem readVar_inv (F : Fresh V) (st : State V) (h : Inv F st) :
    Inv F (readVar .current F st).1 ∧ (readVar .current F st).2 = spec F .var := by
  unfold readVar
  cases hm : st.var with
  | some v => exact ⟨h, h.var v hm⟩
  | none =>
    have h1 := runMoment_inv F st varArgs h
    refine ⟨⟨h1.1.moments, h1.1.accs, h1.1.ps, h1.1.mean, ?_, h1.1.cov, h1.1.corr⟩, h1.2⟩
    intro v hv
    simp only [Option.some.injEq] at hv
    rw [← hv]; exact h1.2

theorem readCov_inv (F : Fresh V) (st : State V) (h : Inv F st) :
    Inv F (readCov .current F st).1 ∧ (readCov .current F st).2 = spec F .cov := by
  unfold readCov
  cases hm : st.cov with
  | some v => exact ⟨h, h.cov v hm⟩
  | none =>
    have h1 := readMean_inv F st h
    have hv : F.cov (readMean .current F st).2 = spec F .cov := by rw [h1.2]; rfl
    refine ⟨⟨h1.1.moments, h1.1.accs, h1.1.ps, h1.1.mean, h1.1.var, ?_, h1.1.corr⟩, hv⟩
    intro v hv'
    simp only [Option.some.injEq] at hv'
    rw [← hv']; exact hv

theorem readCorr_inv (F : Fresh V) (st : State V) (h : Inv F st) :
    Inv F (readCorr .current F st).1 ∧ (readCorr .current F st).2 = spec F .corr := by
  unfold readCorr
  cases hm : st.corr with
  | some v => exact ⟨h, h.corr v hm⟩
  | none =>
    have h1 := readVar_inv F st h
    have h2 := readCov_inv F _ h1.1
    have hv : F.corrOf (readCov .current F (readVar .current F st).1).2 (readVar .current F st).2
        = spec F .corr := by rw [h1.2, h2.2]; rfl
    simp only [Variant.current]
    refine ⟨⟨h2.1.moments, h2.1.accs, h2.1.ps, h2.1.mean, h2.1.var, h2.1.cov, ?_⟩, hv⟩
    intro v hv'
    simp only [Option.some.injEq] at hv'
    rw [← hv']; exact hv

theorem runGetP_inv (F : Fresh V) (st : State V) (theta : Rat) (h : Inv F st) :
    Inv F (runGetP .current F st theta).1 ∧ (runGetP .current F st theta).2 = F.getP theta := by
  have hc := callMemo_sound (pEq Variant.current.pkey) F.getP pEq_sound st.ps theta h.ps
  unfold runGetP
  rcases hcm : callMemo (pEq Variant.current.pkey) F.getP st.ps theta with ⟨m, v, b⟩
  rw [hcm] at hc
  cases b
  · exact ⟨⟨h.moments, h.accs, hc.1, h.mean, h.var, h.cov, h.corr⟩, hc.2⟩
  · exact ⟨⟨h.moments, h.accs, hc.1, h.mean, h.var, h.cov, h.corr⟩, hc.2⟩

/-- one query on an object whose stored entries are all right: the answer is the fresh value and the
stored entries are still all right -/
theorem run_inv (F : Fresh V) (st : State V) (q : Query) (h : Inv F st) :
    Inv F (run .current F st q).1 ∧ (run .current F st q).2 = spec F q := by
  cases q with
  | moment a => exact runMoment_inv F st a h
  | accumulate g => exact runGroup_inv F st g h
  | mean => exact readMean_inv F st h
  | var => exact readVar_inv F st h
  | cov => exact readCov_inv F st h
  | corr => exact readCorr_inv F st h
  | getP theta => exact runGetP_inv F st theta h

/-! ## 4. refinement -/

/-- refinement from any state that satisfies the invariant -/
theorem memo_refinement_from (F : Fresh V) :
    ∀ (qs : List Query) (st : State V), Inv F st →
      Inv F (runAll .current F st qs).final ∧ (runAll .current F st qs).answers = qs.map (spec F)
  | [], st, h => ⟨h, rfl⟩
  | q :: qs, st, h => by
    have h1 := run_inv F st q h
    have h2 := memo_refinement_from F qs _ h1.1
    simp only [runAll, List.map_cons]
    exact ⟨h2.1, by rw [h1.2, h2.2]⟩

/-- **C17 / C15 (f), memoisation.** For the pinned code, after EVERY history of queries on one object
(memoised `moment` calls, `accumulate` calls through the memoised `_accumulate`, reads of the cached
properties `mean`, `var`, `cov`, `corr`, memoised `_get_P`), every answer is the value `spec` that a fresh
object computes without any memo: the memoising object refines the memo-free function. -/
theorem memo_refinement (F : Fresh V) (qs : List Query) :
    (runAll .current F init qs).answers = qs.map (spec F) :=
  (memo_refinement_from F qs init (inv_init F)).2

theorem inv_forgetLower (F : Fresh V) (st : State V) (h : Inv F st) : Inv F st.forgetLower :=
  ⟨h.moments, sound_nil _, h.ps, h.mean, h.var, h.cov, h.corr⟩

/-- the same for a `Coalescent`, whose lower memo entries are forgotten after every query -/
theorem memo_refinement_forgetting (F : Fresh V) :
    ∀ (qs : List Query) (st : State V), Inv F st →
      (runAllForgetting .current F st qs).answers = qs.map (spec F)
  | [], st, h => rfl
  | q :: qs, st, h => by
    have h1 := run_inv F st q h
    have h2 := memo_refinement_forgetting F qs _ (inv_forgetLower F _ h1.1)
    simp only [runAllForgetting, List.map_cons]
    rw [h1.2, h2]

/-- the answer to `q` asked after the history `hist` on one object -/
def answerAfter (vr : Variant) (F : Fresh V) (hist : List Query) (q : Query) : V :=
  (run vr F (runAll vr F init hist).final q).2

theorem answerAfter_eq_spec (F : Fresh V) (hist : List Query) (q : Query) :
    answerAfter .current F hist q = spec F q :=
  (run_inv F _ q (memo_refinement_from F hist init (inv_init F)).1).2

/-- **C17.** The answer after any history is the answer of a fresh object asked only that query. -/
theorem memo_fresh_equiv (F : Fresh V) (hist : List Query) (q : Query) :
    answerAfter .current F hist q = answerAfter .current F [] q := by
  rw [answerAfter_eq_spec, answerAfter_eq_spec]

/-- **C17.** The answer to a query does not depend on the history before it (which queries, how many,
in which order). -/
theorem memo_order_irrelevant (F : Fresh V) (hist hist' : List Query) (q : Query) :
    answerAfter .current F hist q = answerAfter .current F hist' q := by
  rw [answerAfter_eq_spec, answerAfter_eq_spec]

/-- different reward tuples one after the other on the SAME object (C15 (f)): each gets its own value -/
theorem memo_reward_tuples_separate (F : Fresh V) (a b : MomentArgs) :
    (runAll .current F init [.moment a, .moment b]).answers = [specMoment F a, specMoment F b] :=
  memo_refinement F _

/-! ## 5. the seeded defects: kernel-checked counterexamples -/

section Counterexamples

mutual
/-- a number per reward (injective on the rewards used below) -/
def rcode : Reward → Nat
  | .treeHeight => 1
  | .totalTreeHeight => 2
  | .totalBranchLength => 3
  | .unfoldedSFS i => 10 + i
  | .foldedSFS i => 20 + i
  | .lineage n => 30 + n
  | .deme idx => 40 + idx
  | .locus l => 50 + l
  | .unit => 4
  | .tblLocus l => 60 + l
  | .prod rs => 5 + 100 * rcodes rs
  | .sum rs => 6 + 100 * rcodes rs
def rcodes : List Reward → Nat
  | [] => 7
  | r :: rs => rcode r + 9 * rcodes rs
end

/-- a small concrete numerics with natural-number values: `_accumulate` is a code of its reward tuple,
`moment` makes ONE `accumulate` call at end time 1 and returns its value -/
def toy : Fresh Nat where
  acc a := a.k + 10 * rcodes a.rewards
  plan a := [{ k := a.k, endTimes := [1], rewards := a.rewards.getD (List.replicate a.k .treeHeight),
               permute := a.permute.getD true }]
  finish _ vs := vs.foldl (· + ·) 0
  add := (· + ·)
  divN v n := v / n
  cov m := 3 * m + 1
  corrOf c v := c + 2 * v
  getP theta := theta.num.toNat + 5
  zero := 0

def A : Reward := .treeHeight
def B : Reward := .totalBranchLength

def momentOf (rs : List Reward) : Query := .moment { k := 1, rewards := some rs }

/-- **defect (1).** `frozenset(self.rewards)` in `CompositeReward.__hash__`: `SumReward([A, A, B])` and then
`SumReward([A, B])` on one object — the second call is answered with the value of the first. The pinned
scheme answers both correctly. -/
theorem frozensetComposite_collides :
    (runAll .frozensetComposite toy init [momentOf [.sum [A, A, B]], momentOf [.sum [A, B]]]).answers
        = [5356691, 5356691]
    ∧ [momentOf [.sum [A, A, B]], momentOf [.sum [A, B]]].map (spec toy) = [5356691, 595691]
    ∧ (runAll .current toy init [momentOf [.sum [A, A, B]], momentOf [.sum [A, B]]]).answers
        = [5356691, 595691] := by
  decide

/-- the frozenset scheme also forgets the ORDER of the children -/
theorem frozensetComposite_forgets_order :
    keyEq .frozensetComposite (.sum [A, B]) (.sum [B, A]) = true
    ∧ keyEq .current (.sum [A, B]) (.sum [B, A]) = false := by
  decide

/-- **defect (2).** `hash(__class__.__name__)` in `Reward.__hash__`: `ProductReward([Unit, TreeHeight])` and
then `ProductReward([Unit, TotalBranchLength])` on one object — the second call is answered with the value
of the first. -/
theorem baseClassHash_collides :
    (runAll .baseClassHash toy init
        [momentOf [.prod [.unit, A]], momentOf [.prod [.unit, B]]]).answers = [580681, 580681]
    ∧ [momentOf [.prod [.unit, A]], momentOf [.prod [.unit, B]]].map (spec toy) = [580681, 598681]
    ∧ (runAll .current toy init
        [momentOf [.prod [.unit, A]], momentOf [.prod [.unit, B]]]).answers = [580681, 598681] := by
  decide

/-- a reward that is not a composite -/
def isAtom : Reward → Bool
  | .prod _ => false
  | .sum _ => false
  | _ => true

/-- **defect (2), the part that still works.** Under that scheme BARE rewards are still told apart
(`__eq__` compares the classes of the two objects it is called on): the defect shows only inside composites. -/
theorem baseClassHash_atoms_separate (r r' : Reward) (h : isAtom r = true) (h' : isAtom r' = true) :
    keyEq .baseClassHash r r' = true ↔ r = r' := by
  cases r <;> cases r' <;>
    simp [isAtom] at h h' <;>
    simp [keyEq, sameClass, clsOf, Reward.key, baseKey, keqb]

theorem baseClassHash_atoms_example :
    (runAll .baseClassHash toy init [momentOf [A], momentOf [B]]).answers
      = [momentOf [A], momentOf [B]].map (spec toy) := by
  decide

/-- **defect (3).** In-place division of the array of the cached `cov` in `corr`: read `cov`, read `corr`,
read `cov` again — the third answer is the correlation, not the covariance. -/
theorem corr_inPlace_poisons_cov :
    (runAll .corrInPlace toy init [.cov, .corr, .cov]).answers = [1924, 13468, 13468]
    ∧ [Query.cov, .corr, .cov].map (spec toy) = [1924, 13468, 1924]
    ∧ (runAll .current toy init [.cov, .corr, .cov]).answers = [1924, 13468, 1924] := by
  decide

/-- **defect (4a).** A memo on `_get_P` keyed without `theta`: the second `theta` gets the first matrix. -/
theorem getP_forgets_theta :
    (runAll .getPNoTheta toy init [.getP 1, .getP 2]).answers = [6, 6]
    ∧ [Query.getP 1, .getP 2].map (spec toy) = [6, 7]
    ∧ (runAll .current toy init [.getP 1, .getP 2]).answers = [6, 7] := by
  decide

/-- **defect (4b).** In-place `+=` on the array returned by the memoised `_accumulate`: the permuted
cross moment of `(A, B)` leaves the running SUM in the memo entry of `(A, B)`; the order-conditioned
moment of `(A, B)` asked next is answered with that sum. -/
theorem inPlaceSum_poisons_memo :
    (runAll .inPlaceSum toy init
        [.accumulate { k := 2, endTimes := [1], rewards := [A, B], permute := true },
         .accumulate { k := 2, endTimes := [1], rewards := [A, B], permute := false }]).answers
      = [5872, 11744]
    ∧ [Query.accumulate { k := 2, endTimes := [1], rewards := [A, B], permute := true },
       .accumulate { k := 2, endTimes := [1], rewards := [A, B], permute := false }].map (spec toy)
      = [5872, 5952]
    ∧ (runAll .current toy init
        [.accumulate { k := 2, endTimes := [1], rewards := [A, B], permute := true },
         .accumulate { k := 2, endTimes := [1], rewards := [A, B], permute := false }]).answers
      = [5872, 5952] := by
  decide

end Counterexamples

/-! ## 6. the theorems are not vacuous -/

/-- a history on the toy numerics in which the memo tables and the slots ARE used (2 `moment` hits,
`_accumulate` hits, a slot hit) and, as `memo_refinement` says, every answer is the fresh value -/
def demoHistory : List Query :=
  [.var, .mean, .moment { k := 2, center := some true }, momentOf [.sum [A, B]], momentOf [.sum [B, A]],
   momentOf [.sum [A, B]], .cov, .corr, .cov, .mean, .getP 3, .getP 3,
   .accumulate { k := 2, endTimes := [1], rewards := [A, B], permute := true },
   .accumulate { k := 2, endTimes := [1], rewards := [B, A], permute := false }]

example : (runAll .current toy init demoHistory).answers = demoHistory.map (spec toy) :=
  memo_refinement toy demoHistory

example : (runAll .current toy init demoHistory).final.info
    = { momHits := 2, momMisses := 4, accHits := 2, accMisses := 6, pHits := 1, pMisses := 1 } := by
  decide

/-- distinct queries of the history do get distinct values (the agreement above is not `0 = 0`) -/
example : (demoHistory.map (spec toy)).dedup.length ≥ 9 := by decide

/-- the invariant is met by a state that is not the initial one, and the general form applies to it -/
example : Inv toy (runAll .current toy init demoHistory).final :=
  (memo_refinement_from toy demoHistory init (inv_init toy)).1

example (qs : List Query) :
    (runAll .current toy (runAll .current toy init demoHistory).final qs).answers = qs.map (spec toy) :=
  (memo_refinement_from toy qs _ (memo_refinement_from toy demoHistory init (inv_init toy)).1).2

/-- the driver's conventional numerics are an instance, too -/
example (o : Obj) (qs : List Query) :
    (runAll .current (conventional o) init qs).answers = qs.map (spec (conventional o)) :=
  memo_refinement _ qs

end PG.Memo

#print axioms PG.Memo.memo_keyEq_iff
#print axioms PG.Memo.keyEqList_iff_keys
#print axioms PG.Memo.momentEq_iff
#print axioms PG.Memo.accEq_iff
#print axioms PG.Memo.memo_refinement_from
#print axioms PG.Memo.memo_refinement
#print axioms PG.Memo.memo_refinement_forgetting
#print axioms PG.Memo.memo_fresh_equiv
#print axioms PG.Memo.memo_order_irrelevant
#print axioms PG.Memo.memo_reward_tuples_separate
#print axioms PG.Memo.frozensetComposite_collides
#print axioms PG.Memo.frozensetComposite_forgets_order
#print axioms PG.Memo.baseClassHash_collides
#print axioms PG.Memo.baseClassHash_atoms_separate
#print axioms PG.Memo.corr_inPlace_poisons_cov
#print axioms PG.Memo.getP_forgets_theta
#print axioms PG.Memo.inPlaceSum_poisons_memo
