/-
PGProofs.RatesThm — theorems about the merger-rate functions of `PGModel.Rates`.

1. bridges from the import-free model helpers to Mathlib (`choose_eq`, `sumNat_eq`, …);
2. `getRate_eq`      : total rate = number of `k`-subsets × per-subset Λ-rate;
3. `lam_consistent`  : sampling consistency `λ_{b,k} = λ_{b+1,k} + λ_{b+1,k+1}`;
4. `lam_nonneg`      : non-negativity on the accepted parameter ranges;
5. `lam_beta_two`, `lam_dirac_c_zero` : reductions to Kingman;
6. `getRateBC_eq`    : block-counting rate = product of binomials × Λ-rate;
7. `vandermonde_boxes`, `sum_getRateBC_eq_getRate` : outcome sums;
8. `betaBaseR_eq_Gamma` : the Beta rate is `B(k-α, b-k+α) / B(α, 2-α)`;
9. time scales.
-/
import PGModel.Rates
import Mathlib.Data.Nat.Choose.Basic
import Mathlib.Data.Nat.Choose.Cast
import Mathlib.Data.Nat.Choose.Vandermonde
import Mathlib.Data.List.Forall2
import Mathlib.Algebra.BigOperators.Group.List.Basic
import Mathlib.Algebra.BigOperators.Group.Finset.Basic
import Mathlib.Algebra.BigOperators.NatAntidiagonal
import Mathlib.Algebra.BigOperators.Ring.List
import Mathlib.Algebra.BigOperators.Ring.Finset
import Mathlib.Algebra.Order.BigOperators.Ring.Finset
import Mathlib.Algebra.Order.Field.Rat
import Mathlib.Data.Rat.Cast.Defs
import Mathlib.Data.Rat.BigOperators
import Mathlib.Analysis.SpecialFunctions.Gamma.Basic
import Mathlib.Analysis.SpecialFunctions.Gamma.Beta
import Mathlib.Analysis.SpecialFunctions.Pow.Real
import Mathlib.Tactic.Ring
import Mathlib.Tactic.Linarith
import Mathlib.Tactic.FieldSimp
import Mathlib.Tactic.Positivity
import Mathlib.Tactic.NormNum
import Mathlib.Tactic.Push

namespace PG

section Bridges

/-! ## 1. Bridges -/

theorem choose_eq (n k : ℕ) : PG.choose n k = Nat.choose n k := by
  induction n generalizing k with
  | zero => cases k <;> simp [PG.choose]
  | succ n ih => cases k with
    | zero => simp [PG.choose]
    | succ k => simp [PG.choose, ih, Nat.choose_succ_succ]

theorem factorial_eq (n : ℕ) : PG.factorial n = n.factorial := by
  induction n with
  | zero => rfl
  | succ n ih => simp [PG.factorial, ih, Nat.factorial_succ]

theorem foldl_add_eq {M : Type*} [AddCommMonoid M] (l : List M) (a : M) :
    l.foldl (· + ·) a = a + l.sum := by
  induction l generalizing a with
  | nil => simp
  | cons x xs ih => simp [ih, add_assoc]

theorem foldl_mul_eq {M : Type*} [CommMonoid M] (l : List M) (a : M) :
    l.foldl (· * ·) a = a * l.prod := by
  induction l generalizing a with
  | nil => simp
  | cons x xs ih => simp [ih, mul_assoc]

theorem sumNat_eq (l : List ℕ) : sumNat l = l.sum := by
  simp [sumNat, foldl_add_eq]

theorem sumRat_eq (l : List ℚ) : sumRat l = l.sum := by
  simp [sumRat, foldl_add_eq]

theorem prodNat_eq (l : List ℕ) : prodNat l = l.prod := by
  simp [prodNat, foldl_mul_eq]

theorem prodRat_eq (l : List ℚ) : prodRat l = l.prod := by
  simp [prodRat, foldl_mul_eq]

theorem zipWith_choose_eq (bs ks : List ℕ) :
    List.zipWith PG.choose bs ks = List.zipWith Nat.choose bs ks := by
  have : PG.choose = Nat.choose := by funext n k; exact choose_eq n k
  rw [this]

/-- `prodRange lo hi f = ∏_{i < hi - lo} f (i + lo)`. -/
theorem prodRange_eq (lo hi : ℕ) (f : ℕ → ℚ) :
    prodRange lo hi f = ∏ i ∈ Finset.range (hi - lo), f (i + lo) := by
  unfold prodRange
  rw [prodRat_eq, List.map_map]
  generalize hi - lo = n
  induction n with
  | zero => simp
  | succ n ih =>
    rw [List.range_succ, List.map_append, List.prod_append, ih, Finset.prod_range_succ]
    simp

end Bridges

/-! ## 2. Total rate = `C(b,k)` × Λ-rate -/

theorem kingmanRate_eq (b k : ℕ) :
    kingmanRate b k = (Nat.choose b k : ℚ) * (if k = 2 then 1 else 0) := by
  unfold kingmanRate
  split_ifs with h
  · subst h; rw [Nat.cast_choose_two]; ring
  · simp

theorem binomPmf_eq (k n : ℕ) (p : ℚ) :
    binomPmf k n p = (Nat.choose n k : ℚ) * p ^ k * (1 - p) ^ (n - k) := by
  unfold binomPmf
  split_ifs with h
  · rw [Nat.choose_eq_zero_of_lt h]; simp
  · rw [choose_eq]

theorem getRate_eq (m : Model) (b k : ℕ) (hk : 2 ≤ k) (hkb : k ≤ b) :
    getRate m b k = (Nat.choose b k : ℚ) * lam m b k := by
  cases m with
  | kingman => simp only [getRate, lam, kingmanRate_eq]
  | beta a st =>
    have h : ¬ (k < 1 ∨ k > b) := by omega
    simp only [getRate, lam, if_neg h, choose_eq]
  | dirac psi c st =>
    simp only [getRate, lam, kingmanRate_eq, binomPmf_eq]
    ring

/-! ## 3. Sampling consistency -/

/-- `P(k) = ∏_{j=2}^{k-1} (j - α)` -/
def betaP (a : ℚ) (k : ℕ) : ℚ := ∏ i ∈ Finset.range (k - 2), (((i + 2 : ℕ) : ℚ) - a)

/-- `Q(m) = ∏_{j=0}^{m-1} (j + α)` -/
def betaQ (a : ℚ) (m : ℕ) : ℚ := ∏ i ∈ Finset.range m, ((i : ℚ) + a)

theorem betaBase_eq (a : ℚ) (b k : ℕ) :
    betaBase a b k = betaP a k * betaQ a (b - k) / ((b - 1).factorial : ℚ) := by
  unfold betaBase betaP betaQ
  rw [prodRange_eq, prodRange_eq, factorial_eq]
  simp

theorem betaP_succ (a : ℚ) (k : ℕ) (hk : 2 ≤ k) :
    betaP a (k + 1) = betaP a k * ((k : ℚ) - a) := by
  unfold betaP
  obtain ⟨j, rfl⟩ : ∃ j, k = j + 2 := ⟨k - 2, by omega⟩
  rw [show j + 2 + 1 - 2 = j + 1 by omega, show j + 2 - 2 = j by omega, Finset.prod_range_succ]

theorem betaQ_succ (a : ℚ) (m : ℕ) : betaQ a (m + 1) = betaQ a m * ((m : ℚ) + a) := by
  unfold betaQ
  rw [Finset.prod_range_succ]

theorem betaBase_consistent (a : ℚ) (b k : ℕ) (hk : 2 ≤ k) (hkb : k ≤ b) :
    betaBase a b k = betaBase a (b + 1) k + betaBase a (b + 1) (k + 1) := by
  simp only [betaBase_eq]
  obtain ⟨c, rfl⟩ : ∃ c, b = c + 1 := ⟨b - 1, by omega⟩
  rw [show c + 1 + 1 - k = (c + 1 - k) + 1 by omega, show c + 1 + 1 - (k + 1) = c + 1 - k by omega,
    betaP_succ a k hk, betaQ_succ, show c + 1 + 1 - 1 = c + 1 by omega,
    show c + 1 - 1 = c by omega, Nat.factorial_succ c]
  have hc : ((c.factorial : ℕ) : ℚ) ≠ 0 := by exact_mod_cast c.factorial_ne_zero
  have hc1 : ((c : ℚ) + 1) ≠ 0 := by positivity
  have hsub : (((c + 1 - k : ℕ)) : ℚ) = (c : ℚ) + 1 - k := by
    rw [Nat.cast_sub hkb]; push_cast; ring
  rw [hsub]
  push_cast
  field_simp
  ring

theorem lam_consistent (m : Model) (b k : ℕ) (hk : 2 ≤ k) (hkb : k ≤ b) :
    lam m b k = lam m (b + 1) k + lam m (b + 1) (k + 1) := by
  cases m with
  | kingman =>
    have : ¬ (k + 1 = 2) := by omega
    simp [lam, this]
  | beta a st => exact betaBase_consistent a b k hk hkb
  | dirac psi c st =>
    have h1 : ¬ (k + 1 = 2) := by omega
    simp only [lam, if_neg h1]
    rw [show b + 1 - k = (b - k) + 1 by omega, show b + 1 - (k + 1) = b - k by omega]
    ring

/-! ## 4. Non-negativity -/

/-- Parameter ranges accepted by the library (closed versions). -/
def Model.Valid : Model → Prop
  | .kingman => True
  | .beta a _ => 1 ≤ a ∧ a ≤ 2
  | .dirac psi c _ => 0 ≤ psi ∧ psi ≤ 1 ∧ 0 ≤ c

theorem betaP_nonneg (a : ℚ) (ha : a ≤ 2) (k : ℕ) : 0 ≤ betaP a k := by
  unfold betaP
  apply Finset.prod_nonneg
  intro i _
  push_cast
  have : (0 : ℚ) ≤ i := Nat.cast_nonneg i
  linarith

theorem betaQ_nonneg (a : ℚ) (ha : 0 ≤ a) (m : ℕ) : 0 ≤ betaQ a m := by
  unfold betaQ
  apply Finset.prod_nonneg
  intro i _
  have : (0 : ℚ) ≤ i := Nat.cast_nonneg i
  linarith

theorem betaBase_nonneg (a : ℚ) (ha0 : 0 ≤ a) (ha2 : a ≤ 2) (b k : ℕ) : 0 ≤ betaBase a b k := by
  rw [betaBase_eq]
  exact div_nonneg (mul_nonneg (betaP_nonneg a ha2 k) (betaQ_nonneg a ha0 _)) (Nat.cast_nonneg _)

theorem lam_nonneg (m : Model) (hm : m.Valid) (b k : ℕ) : 0 ≤ lam m b k := by
  cases m with
  | kingman => simp only [lam]; split_ifs <;> norm_num
  | beta a st =>
    obtain ⟨h1, h2⟩ := hm
    exact betaBase_nonneg a (by linarith) h2 b k
  | dirac psi c st =>
    obtain ⟨h0, h1, hc⟩ := hm
    simp only [lam]
    have h1' : 0 ≤ 1 - psi := by linarith
    have : 0 ≤ c * psi ^ k * (1 - psi) ^ (b - k) := by positivity
    split_ifs <;> linarith

theorem getRate_nonneg (m : Model) (hm : m.Valid) (b k : ℕ) (hk : 2 ≤ k) (hkb : k ≤ b) :
    0 ≤ getRate m b k := by
  rw [getRate_eq m b k hk hkb]
  exact mul_nonneg (Nat.cast_nonneg _) (lam_nonneg m hm b k)

/-! ## 5. Reductions to Kingman -/

theorem betaQ_two (m : ℕ) : betaQ 2 m = ((m + 1).factorial : ℚ) := by
  induction m with
  | zero => simp [betaQ]
  | succ m ih => rw [betaQ_succ, ih, Nat.factorial_succ (m + 1)]; push_cast; ring

theorem betaP_two_of_three_le (k : ℕ) (hk : 3 ≤ k) : betaP 2 k = 0 := by
  unfold betaP
  apply Finset.prod_eq_zero (i := 0)
  · simp; omega
  · simp

theorem lam_beta_two (st : Bool) (b k : ℕ) (hk : 2 ≤ k) (hkb : k ≤ b) :
    lam (.beta 2 st) b k = lam .kingman b k := by
  simp only [lam, betaBase_eq]
  split_ifs with h
  · subst h
    rw [betaQ_two, show b - 2 + 1 = b - 1 by omega]
    have : ((b - 1).factorial : ℚ) ≠ 0 := by exact_mod_cast (b - 1).factorial_ne_zero
    simp [betaP, this]
  · rw [betaP_two_of_three_le k (by omega)]; simp

theorem lam_dirac_c_zero (psi : ℚ) (st : Bool) (b k : ℕ) :
    lam (.dirac psi 0 st) b k = lam .kingman b k := by
  simp [lam]

/-! ## 6. Block-counting rates -/

/-- Shape of the arguments of `_get_rate_block_counting`: equal lengths, `1 ≤ kᵢ ≤ bᵢ`. -/
abbrev BCShape (bs ks : List ℕ) : Prop := List.Forall₂ (fun b k => 1 ≤ k ∧ k ≤ b) bs ks

theorem bcShape_of_index {bs ks : List ℕ} (hlen : bs.length = ks.length)
    (h : ∀ i (h₁ : i < bs.length) (h₂ : i < ks.length), 1 ≤ ks[i] ∧ ks[i] ≤ bs[i]) :
    BCShape bs ks := by
  rw [BCShape, List.forall₂_iff_get]
  exact ⟨hlen, fun i h₁ h₂ => by simpa using h i h₁ h₂⟩

theorem getRateBC_kingman (n : ℕ) (bs ks : List ℕ) (h : BCShape bs ks) :
    getRateBC .kingman n bs ks
      = (((List.zipWith Nat.choose bs ks).prod : ℕ) : ℚ) * lam .kingman n ks.sum := by
  simp only [getRateBC, lam]
  match h with
  | .nil => simp [kingmanRateBC]
  | .cons (a := b) (b := k) h1 .nil => simp [kingmanRateBC, kingmanRate_eq]
  | .cons (a := b0) (b := k0) h0 (.cons (a := b1) (b := k1) h1 .nil) =>
    by_cases hk : k0 = 1 ∧ k1 = 1
    · obtain ⟨rfl, rfl⟩ := hk
      simp [kingmanRateBC]
    · have h3 : ¬ (k0 + k1 = 2) := by omega
      have : kingmanRateBC [b0, b1] [k0, k1] = 0 := by
        unfold kingmanRateBC
        split
        · simp_all
        · simp_all
        · rfl
      simp [this, h3]
  | .cons (a := b0) (b := k0) h0 (.cons (a := b1) (b := k1) h1
      (.cons (a := b2) (b := k2) (l₁ := bs') (l₂ := ks') h2 h')) =>
    have h3 : ¬ (k0 + (k1 + (k2 + ks'.sum)) = 2) := by omega
    have : kingmanRateBC (b0 :: b1 :: b2 :: bs') (k0 :: k1 :: k2 :: ks') = 0 := by
      unfold kingmanRateBC
      split
      · simp_all
      · simp_all
      · rfl
    simp [this, h3]

theorem getRateBC_beta (a : ℚ) (st : Bool) (n : ℕ) (bs ks : List ℕ) :
    getRateBC (.beta a st) n bs ks
      = (((List.zipWith Nat.choose bs ks).prod : ℕ) : ℚ) * lam (.beta a st) n ks.sum := by
  simp only [getRateBC, lam, prodNat_eq, sumNat_eq, zipWith_choose_eq]

theorem prod_binomPmf (psi : ℚ) (bs ks : List ℕ) (h : List.Forall₂ (fun b k => k ≤ b) bs ks) :
    ks.sum ≤ bs.sum ∧
    (List.zipWith (fun b k => binomPmf k b psi) bs ks).prod
      = (((List.zipWith Nat.choose bs ks).prod : ℕ) : ℚ) * psi ^ ks.sum
          * (1 - psi) ^ (bs.sum - ks.sum) := by
  induction h with
  | nil => simp
  | @cons b k bs ks hkb _ ih =>
    obtain ⟨hle, ih⟩ := ih
    refine ⟨by simp only [List.sum_cons]; omega, ?_⟩
    simp only [List.zipWith_cons_cons, List.prod_cons, List.sum_cons]
    rw [ih, binomPmf_eq]
    rw [show b + bs.sum - (k + ks.sum) = (b - k) + (bs.sum - ks.sum) by omega]
    push_cast
    ring

theorem getRateBC_dirac (psi c : ℚ) (st : Bool) (n : ℕ) (bs ks : List ℕ) (h : BCShape bs ks)
    (hn : bs.sum ≤ n) :
    getRateBC (.dirac psi c st) n bs ks
      = (((List.zipWith Nat.choose bs ks).prod : ℕ) : ℚ) * lam (.dirac psi c st) n ks.sum := by
  have hK := getRateBC_kingman n bs ks h
  simp only [getRateBC, lam] at hK
  obtain ⟨hle, hP⟩ := prod_binomPmf psi bs ks (h.imp fun _ _ h => h.2)
  simp only [getRateBC, lam, hK, prodRat_eq, sumNat_eq, hP]
  simp only [binomPmf_eq]
  split_ifs with hlt h2 h2
  all_goals first
    | (rw [show n - ks.sum = (bs.sum - ks.sum) + (n - bs.sum) by omega, pow_add]
       simp only [Nat.choose_zero_right, Nat.cast_one, pow_zero, Nat.sub_zero]
       ring)
    | (have : bs.sum = n := by omega
       subst this
       ring)

/-- **Block-counting rate = product of binomials × Λ-rate.** -/
theorem getRateBC_eq (m : Model) (n : ℕ) (bs ks : List ℕ) (h : BCShape bs ks) (hn : bs.sum ≤ n) :
    getRateBC m n bs ks
      = (((List.zipWith Nat.choose bs ks).prod : ℕ) : ℚ) * lam m n ks.sum := by
  cases m with
  | kingman => exact getRateBC_kingman n bs ks h
  | beta a st => exact getRateBC_beta a st n bs ks
  | dirac psi c st => exact getRateBC_dirac psi c st n bs ks h hn

/-- Index form of `getRateBC_eq`. -/
theorem getRateBC_eq' (m : Model) (n : ℕ) (bs ks : List ℕ) (hlen : bs.length = ks.length)
    (h : ∀ i (h₁ : i < bs.length) (h₂ : i < ks.length), 1 ≤ ks[i] ∧ ks[i] ≤ bs[i])
    (hn : bs.sum ≤ n) :
    getRateBC m n bs ks
      = (((List.zipWith Nat.choose bs ks).prod : ℕ) : ℚ) * lam m n ks.sum :=
  getRateBC_eq m n bs ks (bcShape_of_index hlen h) hn

/-! ## 7. Generalised Vandermonde on `boxes`, outcome sums -/

theorem sum_map_flatMap {α β : Type*} (l : List α) (g : α → List β) (f : β → ℕ) :
    ((l.flatMap g).map f).sum = (l.map fun x => ((g x).map f).sum).sum := by
  induction l with
  | nil => simp
  | cons x xs ih => simp [List.flatMap_cons, ih]

theorem sum_map_range (n : ℕ) (f : ℕ → ℕ) :
    ((List.range n).map f).sum = ∑ i ∈ Finset.range n, f i := by
  induction n with
  | zero => simp
  | succ n ih => simp [List.range_succ, Finset.sum_range_succ, ih]

/-- Vandermonde in the "range" form produced by the recursion of `boxes`. -/
theorem vandermonde_range (b S k : ℕ) :
    ∑ i ∈ Finset.range (b + 1), (if i ≤ k then Nat.choose b i * Nat.choose S (k - i) else 0)
      = Nat.choose (b + S) k := by
  rw [Nat.add_choose_eq, Finset.Nat.sum_antidiagonal_eq_sum_range_succ_mk]
  set h : ℕ → ℕ := fun i => if i ≤ k then Nat.choose b i * Nat.choose S (k - i) else 0 with hh
  have e1 : ∑ i ∈ Finset.range (b + 1), h i = ∑ i ∈ Finset.range (b + k + 1), h i := by
    apply Finset.sum_subset
    · intro i hi; simp only [Finset.mem_range] at hi ⊢; omega
    · intro i _ hi
      simp only [Finset.mem_range, not_lt] at hi
      simp only [hh]
      rw [Nat.choose_eq_zero_of_lt (by omega)]
      simp
  have e2 : ∑ i ∈ Finset.range (k + 1), Nat.choose b i * Nat.choose S (k - i)
      = ∑ i ∈ Finset.range (b + k + 1), h i := by
    rw [← Finset.sum_subset (s₁ := Finset.range (k + 1)) (f := h)]
    · apply Finset.sum_congr rfl
      intro i hi
      simp only [Finset.mem_range] at hi
      simp only [hh]
      rw [if_pos (by omega)]
    · intro i hi; simp only [Finset.mem_range] at hi ⊢; omega
    · intro i _ hi
      simp only [Finset.mem_range, not_lt] at hi
      simp only [hh]
      rw [if_neg (by omega)]
  exact e1.trans e2.symm

theorem vandermonde_boxes' (a : List ℕ) (k : ℕ) :
    (((boxes a).filter fun κ => κ.sum = k).map
        fun κ => (List.zipWith Nat.choose a κ).prod).sum = Nat.choose a.sum k := by
  induction a generalizing k with
  | nil => cases k <;> simp [boxes]
  | cons b bs ih =>
    have inner : ∀ i, ((((boxes bs).map fun r => i :: r).filter fun κ => κ.sum = k).map
        fun κ => (List.zipWith Nat.choose (b :: bs) κ).prod).sum
        = if i ≤ k then Nat.choose b i * Nat.choose bs.sum (k - i) else 0 := by
      intro i
      rw [List.filter_map, List.map_map]
      split_ifs with hik
      · rw [← ih (k - i), ← List.sum_map_mul_left]
        congr 1
        have : (fun r : List ℕ => decide ((i :: r).sum = k))
            = fun r : List ℕ => decide (r.sum = k - i) := by
          funext r
          rw [decide_eq_decide, List.sum_cons]
          omega
        simp only [Function.comp_def, this, List.zipWith_cons_cons, List.prod_cons]
      · have : List.filter ((fun κ : List ℕ => decide (κ.sum = k)) ∘ fun r => i :: r) (boxes bs)
            = [] := by
          rw [List.filter_eq_nil_iff]
          intro r _
          show ¬ (decide ((i :: r).sum = k) = true)
          rw [decide_eq_true_eq, List.sum_cons]
          omega
        rw [this]
        simp
    simp only [boxes]
    rw [List.filter_flatMap, sum_map_flatMap]
    simp only [inner, List.sum_cons]
    rw [sum_map_range, vandermonde_range]

theorem vandermonde_boxes_cast (a : List ℕ) (k : ℕ) :
    (((boxes a).filter fun κ => κ.sum = k).map
        fun κ => (((List.zipWith Nat.choose a κ).prod : ℕ) : ℚ)).sum = (Nat.choose a.sum k : ℚ) := by
  rw [← vandermonde_boxes' a k, Nat.cast_list_sum, List.map_map]
  rfl

/-- **Generalised Vandermonde identity**, stated on the model's functions. -/
theorem vandermonde_boxes (a : List ℕ) (k : ℕ) :
    (((boxes a).filter fun κ => sumNat κ = k).map
        fun κ => prodNat (List.zipWith PG.choose a κ)).sum = Nat.choose a.sum k := by
  simpa only [sumNat_eq, prodNat_eq, zipWith_choose_eq] using vandermonde_boxes' a k

/-- Members of `boxes a` are the vectors `κ` of the same length with `κᵢ ≤ aᵢ`. -/
theorem mem_boxes_iff (a κ : List ℕ) :
    κ ∈ boxes a ↔ List.Forall₂ (fun ai ki => ki ≤ ai) a κ := by
  induction a generalizing κ with
  | nil => simp [boxes]
  | cons b bs ih =>
    simp only [boxes, List.mem_flatMap, List.mem_range, List.mem_map]
    constructor
    · rintro ⟨i, hi, r, hr, rfl⟩
      exact .cons (by omega) ((ih r).1 hr)
    · intro h
      cases h with
      | cons h1 h2 => exact ⟨_, by omega, _, (ih _).2 h2, rfl⟩

theorem selectPos_cons (x m : ℕ) (xs ms : List ℕ) :
    selectPos (x :: xs) (m :: ms) = if m > 0 then x :: selectPos xs ms else selectPos xs ms := by
  simp only [selectPos, List.zip_cons_cons, List.filterMap_cons]
  split_ifs <;> rfl

/-- The arguments `blocks[comb > 0]`, `comb[comb > 0]` passed by `coalesceMM` to
`getRateBC` have the required shape and preserve the relevant statistics. -/
theorem selectPos_facts (a κ : List ℕ) (h : List.Forall₂ (fun ai ki => ki ≤ ai) a κ) :
    BCShape (selectPos a κ) (selectPos κ κ) ∧ (selectPos a κ).sum ≤ a.sum ∧
      (selectPos κ κ).sum = κ.sum ∧
      (List.zipWith Nat.choose (selectPos a κ) (selectPos κ κ)).prod
        = (List.zipWith Nat.choose a κ).prod := by
  induction h with
  | nil => simp [selectPos]
  | @cons x m xs ms hmx _ ih =>
    obtain ⟨h1, h2, h3, h4⟩ := ih
    rw [selectPos_cons, selectPos_cons]
    by_cases hm : m > 0
    · simp only [if_pos hm]
      refine ⟨.cons ⟨hm, hmx⟩ h1, ?_, ?_, ?_⟩
      · simp only [List.sum_cons]; omega
      · simp only [List.sum_cons, h3]
      · simp only [List.zipWith_cons_cons, List.prod_cons, h4]
    · have : m = 0 := by omega
      subst this
      simp only [if_neg hm]
      refine ⟨h1, ?_, ?_, ?_⟩
      · simp only [List.sum_cons]; omega
      · simp only [List.sum_cons, h3, zero_add]
      · simp only [List.zipWith_cons_cons, List.prod_cons, h4, Nat.choose_zero_right, one_mul]

/-- The rate which `coalesceMM` attaches to the outcome `κ` (for a configuration `a` with more
than one block size) is `∏ C(aᵢ, κᵢ) · λ_{n, |κ|}`. -/
theorem getRateBC_selectPos (m : Model) (a κ : List ℕ) (h : κ ∈ boxes a) :
    getRateBC m (sumNat a) (selectPos a κ) (selectPos κ κ)
      = (((List.zipWith Nat.choose a κ).prod : ℕ) : ℚ) * lam m a.sum κ.sum := by
  obtain ⟨h1, h2, h3, h4⟩ := selectPos_facts a κ ((mem_boxes_iff a κ).1 h)
  rw [sumNat_eq, getRateBC_eq m a.sum _ _ h1 h2, h3, h4]

/-- **Outcome sum.** For every model, the block-counting rates of all outcomes `κ ∈ boxes a`
with the same number `k` of merging lineages add up to the total rate `getRate m n k` of a
`k`-merger among `n = Σ a` lineages. -/
theorem sum_getRateBC_eq_getRate (m : Model) (a : List ℕ) (k : ℕ) (hk : 2 ≤ k) (hka : k ≤ a.sum) :
    (((boxes a).filter fun κ => sumNat κ = k).map
        fun κ => getRateBC m (sumNat a) (selectPos a κ) (selectPos κ κ)).sum
      = getRate m a.sum k := by
  rw [getRate_eq m a.sum k hk hka, ← vandermonde_boxes_cast a k, ← List.sum_map_mul_right]
  simp only [sumNat_eq]
  congr 1
  apply List.map_congr_left
  intro κ hκ
  rw [List.mem_filter, decide_eq_true_eq] at hκ
  have := getRateBC_selectPos m a κ hκ.1
  rw [sumNat_eq] at this
  rw [this, hκ.2]

/-- Kingman special form: only the outcomes with `|κ| = 2` carry rate, and they add up to
`C(n, 2)`. -/
theorem sum_getRateBC_kingman (a : List ℕ) (k : ℕ) :
    (((boxes a).filter fun κ => sumNat κ = k).map
        fun κ => getRateBC .kingman (sumNat a) (selectPos a κ) (selectPos κ κ)).sum
      = if k = 2 then (Nat.choose a.sum 2 : ℚ) else 0 := by
  have : ∀ κ ∈ (boxes a).filter fun κ => sumNat κ = k,
      getRateBC .kingman (sumNat a) (selectPos a κ) (selectPos κ κ)
        = (((List.zipWith Nat.choose a κ).prod : ℕ) : ℚ) * (if k = 2 then 1 else 0) := by
    intro κ hκ
    rw [List.mem_filter, decide_eq_true_eq, sumNat_eq] at hκ
    rw [getRateBC_selectPos .kingman a κ hκ.1, hκ.2]
    rfl
  rw [List.map_congr_left this, List.sum_map_mul_right]
  simp only [sumNat_eq]
  rw [vandermonde_boxes_cast]
  split_ifs with h
  · subst h; simp
  · simp

/-! ## 8. Real-analytic reading of the Beta rate -/

/-- `betaBase` over the reals. -/
noncomputable def betaBaseR (α : ℝ) (b k : ℕ) : ℝ :=
  (∏ i ∈ Finset.range (k - 2), (((i + 2 : ℕ) : ℝ) - α)) * (∏ i ∈ Finset.range (b - k), ((i : ℝ) + α))
    / ((b - 1).factorial : ℝ)

theorem betaBase_cast (a : ℚ) (b k : ℕ) : ((betaBase a b k : ℚ) : ℝ) = betaBaseR (a : ℝ) b k := by
  rw [betaBase_eq]
  unfold betaBaseR betaP betaQ
  push_cast
  rfl

/-- The Beta function `B(x,y) = Γ(x)Γ(y)/Γ(x+y)`. -/
noncomputable def betaFn (x y : ℝ) : ℝ := Real.Gamma x * Real.Gamma y / Real.Gamma (x + y)

theorem Gamma_nat_add_two_sub (α : ℝ) (hα : α < 2) (j : ℕ) :
    Real.Gamma (((j + 2 : ℕ) : ℝ) - α)
      = (∏ i ∈ Finset.range j, (((i + 2 : ℕ) : ℝ) - α)) * Real.Gamma (2 - α) := by
  induction j with
  | zero => simp
  | succ j ih =>
    have hne : (((j + 2 : ℕ) : ℝ) - α) ≠ 0 := by
      have : (0 : ℝ) ≤ j := Nat.cast_nonneg j
      push_cast
      linarith
    rw [Finset.prod_range_succ, show (((j + 1 + 2 : ℕ) : ℝ) - α) = (((j + 2 : ℕ) : ℝ) - α) + 1 by
      push_cast; ring, Real.Gamma_add_one hne, ih]
    ring

theorem Gamma_nat_add (α : ℝ) (hα : 0 < α) (m : ℕ) :
    Real.Gamma ((m : ℝ) + α) = (∏ i ∈ Finset.range m, ((i : ℝ) + α)) * Real.Gamma α := by
  induction m with
  | zero => simp
  | succ m ih =>
    have hne : ((m : ℝ) + α) ≠ 0 := by
      have : (0 : ℝ) ≤ m := Nat.cast_nonneg m
      linarith
    rw [Finset.prod_range_succ, show (((m + 1 : ℕ) : ℝ) + α) = ((m : ℝ) + α) + 1 by
      push_cast; ring, Real.Gamma_add_one hne, ih]
    ring

/-- **The polynomial `betaBase` is the ratio of Beta functions `B(k-α, b-k+α) / B(α, 2-α)`**
(for every `0 < α < 2`, in particular on the library's range `1 < α < 2`). -/
theorem betaBaseR_eq_Gamma (α : ℝ) (h0 : 0 < α) (h2 : α < 2) (b k : ℕ) (hk : 2 ≤ k) (hkb : k ≤ b) :
    betaBaseR α b k
      = (Real.Gamma (k - α) * Real.Gamma (b - k + α) / Real.Gamma b)
        / (Real.Gamma α * Real.Gamma (2 - α) / Real.Gamma 2) := by
  obtain ⟨j, rfl⟩ : ∃ j, k = j + 2 := ⟨k - 2, by omega⟩
  obtain ⟨m, rfl⟩ : ∃ m, b = j + 2 + m := ⟨b - (j + 2), by omega⟩
  have hb : ((j + 2 + m : ℕ) : ℝ) = ((j + 1 + m : ℕ) : ℝ) + 1 := by push_cast; ring
  have hbk : (((j + 2 + m : ℕ) : ℝ) - ((j + 2 : ℕ) : ℝ) + α) = (m : ℝ) + α := by push_cast; ring
  rw [hbk, hb, Real.Gamma_nat_eq_factorial, Gamma_nat_add_two_sub α h2 j, Gamma_nat_add α h0 m,
    Real.Gamma_two]
  unfold betaBaseR
  rw [show j + 2 - 2 = j by omega, show j + 2 + m - (j + 2) = m by omega,
    show j + 2 + m - 1 = j + 1 + m by omega]
  have hG1 : Real.Gamma α ≠ 0 := (Real.Gamma_pos_of_pos h0).ne'
  have hG2 : Real.Gamma (2 - α) ≠ 0 := (Real.Gamma_pos_of_pos (by linarith)).ne'
  have hf : (((j + 1 + m).factorial : ℕ) : ℝ) ≠ 0 := by exact_mod_cast (j + 1 + m).factorial_ne_zero
  field_simp

theorem betaBaseR_eq_betaFn (α : ℝ) (h0 : 0 < α) (h2 : α < 2) (b k : ℕ) (hk : 2 ≤ k) (hkb : k ≤ b) :
    betaBaseR α b k = betaFn (k - α) (b - k + α) / betaFn α (2 - α) := by
  rw [betaBaseR_eq_Gamma α h0 h2 b k hk hkb]
  unfold betaFn
  rw [show ((k : ℝ) - α + (b - k + α)) = b by ring, show α + (2 - α) = 2 by ring]

/-- The model's rational Beta rate, read in `ℝ`, is `B(k-α, b-k+α) / B(α, 2-α)`. -/
theorem betaBase_eq_Beta (a : ℚ) (h0 : 0 < a) (h2 : a < 2) (b k : ℕ) (hk : 2 ≤ k) (hkb : k ≤ b) :
    ((betaBase a b k : ℚ) : ℝ) = betaFn (k - a) (b - k + a) / betaFn a (2 - a) := by
  rw [betaBase_cast]
  exact betaBaseR_eq_betaFn a (by exact_mod_cast h0) (by exact_mod_cast h2) b k hk hkb

/-! ### Integral form (Λ-coalescent with `Λ = Beta(2-α, α)`) -/

/-- An interval integral over `0..1` only depends on the integrand on the open interval. -/
theorem intervalIntegral_congr_Ioo {f g : ℝ → ℝ} (h : Set.EqOn f g (Set.Ioo 0 1)) :
    ∫ t in (0 : ℝ)..1, f t = ∫ t in (0 : ℝ)..1, g t := by
  rw [intervalIntegral.integral_of_le zero_le_one, intervalIntegral.integral_of_le zero_le_one,
    MeasureTheory.integral_Ioc_eq_integral_Ioo, MeasureTheory.integral_Ioc_eq_integral_Ioo]
  exact MeasureTheory.setIntegral_congr_fun measurableSet_Ioo h

theorem betaFn_eq_betaIntegral (x y : ℝ) (hx : 0 < x) (hy : 0 < y) :
    ((betaFn x y : ℝ) : ℂ) = Complex.betaIntegral x y := by
  have h := Complex.Gamma_mul_Gamma_eq_betaIntegral (s := (x : ℂ)) (t := (y : ℂ))
    (by simpa using hx) (by simpa using hy)
  have hne : Complex.Gamma ((x : ℂ) + (y : ℂ)) ≠ 0 := by
    rw [← Complex.ofReal_add, Complex.Gamma_ofReal]
    exact_mod_cast (Real.Gamma_pos_of_pos (add_pos hx hy)).ne'
  unfold betaFn
  push_cast
  rw [← Complex.Gamma_ofReal, ← Complex.Gamma_ofReal, ← Complex.Gamma_ofReal, h]
  push_cast
  field_simp

/-- `B(x,y) = ∫₀¹ t^(x-1) (1-t)^(y-1) dt` for `x, y > 0`. -/
theorem betaFn_eq_integral (x y : ℝ) (hx : 0 < x) (hy : 0 < y) :
    betaFn x y = ∫ t in (0 : ℝ)..1, t ^ (x - 1) * (1 - t) ^ (y - 1) := by
  apply Complex.ofReal_injective
  rw [betaFn_eq_betaIntegral x y hx hy, ← intervalIntegral.integral_ofReal]
  unfold Complex.betaIntegral
  apply intervalIntegral.integral_congr
  intro t ht
  rw [Set.uIcc_of_le zero_le_one] at ht
  simp only
  push_cast
  rw [Complex.ofReal_cpow ht.1, Complex.ofReal_cpow (sub_nonneg.2 ht.2)]
  push_cast
  rfl

theorem betaFn_comm (x y : ℝ) : betaFn x y = betaFn y x := by
  unfold betaFn
  rw [mul_comm, add_comm]

/-- **Λ-coalescent reading of the Beta rate:**
`λ_{b,k} = ∫₀¹ x^(k-2) (1-x)^(b-k) Λ(dx)` with `Λ(dx) = x^(1-α) (1-x)^(α-1) dx / B(2-α, α)`. -/
theorem betaBaseR_eq_integral (α : ℝ) (h0 : 0 < α) (h2 : α < 2) (b k : ℕ) (hk : 2 ≤ k)
    (hkb : k ≤ b) :
    betaBaseR α b k
      = (∫ t in (0 : ℝ)..1, t ^ (k - 2) * (1 - t) ^ (b - k) * (t ^ (1 - α) * (1 - t) ^ (α - 1)))
        / betaFn (2 - α) α := by
  rw [betaBaseR_eq_betaFn α h0 h2 b k hk hkb, betaFn_comm α (2 - α)]
  congr 1
  have hk' : (2 : ℝ) ≤ k := by exact_mod_cast hk
  have hkb' : (k : ℝ) ≤ b := by exact_mod_cast hkb
  rw [betaFn_eq_integral _ _ (by linarith) (by linarith)]
  apply intervalIntegral_congr_Ioo
  intro t ht
  have ht0 : 0 < t := ht.1
  have ht1 : 0 < 1 - t := sub_pos.2 ht.2
  simp only
  rw [show (k : ℝ) - α - 1 = ((k - 2 : ℕ) : ℝ) + (1 - α) by rw [Nat.cast_sub hk]; push_cast; ring,
    show (b : ℝ) - k + α - 1 = ((b - k : ℕ) : ℝ) + (α - 1) by rw [Nat.cast_sub hkb]; ring,
    Real.rpow_add ht0, Real.rpow_add ht1, Real.rpow_natCast, Real.rpow_natCast]
  ring

/-! ## 9. Time scales -/

theorem timescaleRat_kingman_scale (c N : ℚ) :
    timescaleRat .kingman (c * N) = (timescaleRat .kingman N).map (c * ·) := by
  simp [timescaleRat]

theorem timescaleRat_beta_unscaled_scale (a c N : ℚ) :
    timescaleRat (.beta a false) (c * N) = (timescaleRat (.beta a false) N).map (c * ·) := by
  simp [timescaleRat]

theorem timescaleRat_dirac_unscaled_scale (psi c0 c N : ℚ) :
    timescaleRat (.dirac psi c0 false) (c * N)
      = (timescaleRat (.dirac psi c0 false) N).map (c * ·) := by
  simp [timescaleRat]

theorem timescaleRat_dirac_scaled_scale (psi c0 a N : ℚ) :
    timescaleRat (.dirac psi c0 true) (a * N)
      = (timescaleRat (.dirac psi c0 true) N).map (a ^ 2 * ·) := by
  simp only [timescaleRat, Option.map_some, Option.some.injEq]
  ring

/-- `BetaCoalescent._get_timescale(N)` with `scale_time=True`:
`m ** α * N ** (α - 1) / α / beta(2 - α, α)`, `m = 1 + 1 / 2 ** (α - 1) / (α - 1)`. -/
noncomputable def betaTimescale (α N : ℝ) : ℝ :=
  (1 + 1 / (2 : ℝ) ^ (α - 1) / (α - 1)) ^ α * N ^ (α - 1) / α / betaFn (2 - α) α

theorem betaTimescale_scale (α c N : ℝ) (hα : 1 < α) (hc : 0 < c) (hN : 0 < N) :
    betaTimescale α (c ^ (1 / (α - 1)) * N) = c * betaTimescale α N := by
  unfold betaTimescale
  have h1 : α - 1 ≠ 0 := by linarith
  rw [Real.mul_rpow (Real.rpow_nonneg hc.le _) hN.le, ← Real.rpow_mul hc.le,
    one_div_mul_cancel h1, Real.rpow_one]
  ring

end PG

#print axioms PG.getRate_eq
#print axioms PG.lam_consistent
#print axioms PG.lam_nonneg
#print axioms PG.lam_beta_two
#print axioms PG.lam_dirac_c_zero
#print axioms PG.getRateBC_eq
#print axioms PG.getRateBC_eq'
#print axioms PG.vandermonde_boxes
#print axioms PG.sum_getRateBC_eq_getRate
#print axioms PG.sum_getRateBC_kingman
#print axioms PG.betaBase_eq_Beta
#print axioms PG.betaBaseR_eq_Gamma
#print axioms PG.betaBaseR_eq_integral
#print axioms PG.timescaleRat_dirac_scaled_scale
#print axioms PG.betaTimescale_scale
