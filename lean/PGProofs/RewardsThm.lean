/-
PGProofs.RewardsThm — conservation identities between the reward vectors of `PGModel.Rewards`
(mirror of `phasegen/rewards.py`):

* the unfolded SFS rewards sum to the total branch length, and their size-weighted sum is
  `n` times the tree height (single-locus block-counting states whose blocks partition `n`);
* the folded SFS reward is the fold of the unfolded one;
* the deme rewards sum to one; the locus rewards sum to the total tree height; the per-locus
  branch-length rewards sum to the total branch length; `CombinedReward` substitutions;
* the tree-height reward is the indicator of the non-absorbing states.
-/
import Mathlib.Algebra.BigOperators.Group.Finset.Basic
import Mathlib.Algebra.BigOperators.Ring.Finset
import Mathlib.Algebra.BigOperators.Field
import Mathlib.Algebra.Order.BigOperators.Group.Finset
import Mathlib.Algebra.BigOperators.Intervals
import Mathlib.Order.Interval.Finset.Nat
import Mathlib.Data.Rat.Defs
import Mathlib.Algebra.Order.Field.Rat
import Mathlib.Tactic.Ring
import Mathlib.Tactic.Linarith
import Mathlib.Tactic.FieldSimp
import PGModel.Rewards

open Finset

namespace PG

/-! ## Bridging lemmas: `foldl`-sums to `List.sum` / `Finset.sum` -/

theorem sumNat_eq_sum (l : List ℕ) : sumNat l = l.sum := by
  unfold sumNat; rw [List.sum_eq_foldl]

theorem sumRat_eq_sum (l : List ℚ) : sumRat l = l.sum := by
  unfold sumRat; rw [List.sum_eq_foldl]

theorem prodRat_eq_prod (l : List ℚ) : prodRat l = l.prod := by
  unfold prodRat; rw [List.prod_eq_foldl]

theorem list_range_map_sum {M} [AddCommMonoid M] (n : ℕ) (g : ℕ → M) :
    ((List.range n).map g).sum = ∑ i ∈ range n, g i := by
  induction n with
  | zero => simp
  | succ n ih => simp [List.range_succ, Finset.sum_range_succ, ih]

theorem sumNat_range (n : ℕ) (g : ℕ → ℕ) : sumNat ((List.range n).map g) = ∑ i ∈ range n, g i := by
  rw [sumNat_eq_sum, list_range_map_sum]

theorem sumRat_range (n : ℕ) (g : ℕ → ℚ) : sumRat ((List.range n).map g) = ∑ i ∈ range n, g i := by
  rw [sumRat_eq_sum, list_range_map_sum]

/-- summing `g (X[d])` over `d < D` (with a default of value 0) is summing `g` over `X` -/
theorem sum_getD_range {α} (g : α → ℕ) (a0 : α) (hg : g a0 = 0) (X : List α) (D : ℕ)
    (h : X.length ≤ D) : ∑ d ∈ range D, g (X.getD d a0) = (X.map g).sum := by
  induction X generalizing D with
  | nil => simp [hg]
  | cons x xs ih =>
    obtain ⟨D', rfl⟩ : ∃ D', D = D' + 1 := ⟨D - 1, by simp at h; omega⟩
    rw [Finset.sum_range_succ']
    have := ih D' (by simpa using h)
    simp only [List.getD_cons_succ, List.getD_cons_zero, List.map_cons, List.sum_cons, this]
    ring

theorem list_sum_eq_range (b : List ℕ) (n : ℕ) (h : b.length ≤ n) :
    b.sum = ∑ i ∈ range n, getN b i := by
  have := sum_getD_range (fun x : ℕ => x) 0 rfl b n h
  simpa [getN] using this.symm

theorem sum_map_finset_sum {α} (bs : List α) (g : α → ℕ → ℕ) (n : ℕ) :
    (bs.map fun d => ∑ i ∈ range n, g d i).sum = ∑ i ∈ range n, (bs.map fun d => g d i).sum := by
  induction bs with
  | nil => simp
  | cons b bs ih => simp [ih, Finset.sum_add_distrib]

theorem weight_eq (b : List ℕ) : weight b = ∑ i ∈ range b.length, (i + 1) * getN b i := by
  unfold weight; rw [sumNat_range]

/-! ## Block-counting states -/

/-- single-locus block-counting state for `n` samples and `D` demes:
`lin = [[b_0, …, b_{D-1}]]`, every `b_d` of length `n`. -/
def IsBC (n D : ℕ) (s : State) : Prop :=
  ∃ bs : List (List ℕ), s.lin = [bs] ∧ bs.length = D ∧ ∀ b ∈ bs, b.length = n

/-- the blocks partition the `n` samples: `∑_d ∑_i (i+1) * b_d[i] = n` -/
def massOK (n : ℕ) (s : State) : Prop :=
  sumNat ((s.lin.getD 0 []).map weight) = n

/-- number of blocks of size `i+1` in a list of demes -/
def blk (bs : List (List ℕ)) (i : ℕ) : ℕ := (bs.map fun d => getN d i).sum

theorem bc_nLoci {bs} {s : State} (h : s.lin = [bs]) : s.nLoci = 1 := by
  simp [State.nLoci, h]

theorem bc_blockTotal {bs} {s : State} (h : s.lin = [bs]) (i : ℕ) : s.blockTotal i = blk bs i := by
  simp [State.blockTotal, bc_nLoci h, h, sumNat_eq_sum, blk]

theorem bc_locusTotal {n} {bs : List (List ℕ)} {s : State} (h : s.lin = [bs])
    (hb : ∀ b ∈ bs, b.length = n) : s.locusTotal 0 = ∑ i ∈ range n, blk bs i := by
  simp only [State.locusTotal, h, sumNat_eq_sum, List.getD_cons_zero, blk]
  rw [← sum_map_finset_sum]
  congr 1
  refine List.map_congr_left fun b hbm => ?_
  rw [sumNat_eq_sum]
  exact list_sum_eq_range b n (hb b hbm).le

theorem bc_mass {n} {bs : List (List ℕ)} {s : State} (h : s.lin = [bs])
    (hb : ∀ b ∈ bs, b.length = n) (hm : massOK n s) :
    ∑ i ∈ range n, (i + 1) * blk bs i = n := by
  unfold massOK at hm
  simp only [h, sumNat_eq_sum, List.getD_cons_zero] at hm
  have : (bs.map weight) = bs.map fun d => ∑ i ∈ range n, (i + 1) * getN d i := by
    refine List.map_congr_left fun b hbm => ?_
    rw [weight_eq, hb b hbm]
  rw [this, sum_map_finset_sum] at hm
  simp only [blk, ← List.sum_map_mul_left]
  exact hm

/-- the arithmetic core: if `f i` blocks of size `i+1` (`i < n`) have total mass `n ≥ 2`, then
either there are at least two blocks, none of size `n`, or there is exactly one, of size `n`. -/
theorem bc_core (n : ℕ) (hn : 2 ≤ n) (f : ℕ → ℕ) (hmass : ∑ i ∈ range n, (i + 1) * f i = n) :
    (1 < ∑ i ∈ range n, f i →
        ∑ i ∈ range (n - 1), f i = ∑ i ∈ range n, f i ∧ ∑ i ∈ range (n - 1), (i + 1) * f i = n) ∧
    (∑ i ∈ range n, f i ≤ 1 →
        ∑ i ∈ range (n - 1), f i = 0 ∧ ∑ i ∈ range (n - 1), (i + 1) * f i = 0) := by
  obtain ⟨m, rfl⟩ : ∃ m, n = m + 1 := ⟨n - 1, by omega⟩
  simp only [Nat.add_sub_cancel]
  rw [Finset.sum_range_succ] at hmass ⊢
  set S := ∑ i ∈ range m, f i
  set W := ∑ i ∈ range m, (i + 1) * f i
  have hSW : S ≤ W := Finset.sum_le_sum fun i _ => Nat.le_mul_of_pos_left _ (Nat.succ_pos i)
  have hWS : W ≤ m * S := by
    rw [Finset.mul_sum]
    refine Finset.sum_le_sum fun i hi => Nat.mul_le_mul_right _ ?_
    have := Finset.mem_range.mp hi; omega
  rcases Nat.lt_or_ge (f m) 1 with h0 | h1
  · have h0' : f m = 0 := by omega
    rw [h0'] at hmass ⊢
    have hW : W = m + 1 := by omega
    have hS2 : 2 ≤ S := by
      by_contra hlt
      have : S ≤ 1 := by omega
      have : m * S ≤ m := by nlinarith
      omega
    exact ⟨fun _ => ⟨by omega, hW⟩, fun h => by omega⟩
  · have h1' : f m = 1 := by
      by_contra hne
      have : 2 ≤ f m := by omega
      have : (m + 1) * 2 ≤ (m + 1) * f m := Nat.mul_le_mul_left _ this
      omega
    rw [h1'] at hmass ⊢
    have hW : W = 0 := by omega
    have hS : S = 0 := by omega
    exact ⟨fun h => by omega, fun _ => ⟨hS, hW⟩⟩

theorem Icc_one_pred (n : ℕ) (hn : 1 ≤ n) : Finset.Icc 1 (n - 1) = Finset.Ico 1 n := by
  ext i; simp only [Finset.mem_Icc, Finset.mem_Ico]; omega

theorem sum_Icc_shift {M} [AddCommMonoid M] (n : ℕ) (hn : 1 ≤ n) (F : ℕ → M) :
    ∑ i ∈ Finset.Icc 1 (n - 1), F i = ∑ i ∈ range (n - 1), F (i + 1) := by
  rw [Icc_one_pred n hn, Finset.sum_Ico_eq_sum_range]
  simp [add_comm]

/-! ## 1, 2. The unfolded SFS rewards against total branch length and tree height -/

/-- the SFS rewards `1 … n-1` sum to the total branch length -/
theorem sum_sfs_eq_tbl (n D : ℕ) (s : State) (hn : 2 ≤ n) (hbc : IsBC n D s) (hm : massOK n s) :
    ∑ i ∈ Finset.Icc 1 (n - 1), Reward.eval n s (.unfoldedSFS i)
      = Reward.eval n s .totalBranchLength := by
  obtain ⟨bs, hlin, -, hb⟩ := hbc
  have hcore := bc_core n hn (blk bs) (bc_mass hlin hb hm)
  rw [sum_Icc_shift n (by omega)]
  simp only [Reward.eval, Nat.add_sub_cancel, bc_blockTotal hlin, bc_nLoci hlin, sumRat_eq_sum,
    List.range_one, List.map_cons, List.map_nil, List.sum_cons, List.sum_nil, add_zero,
    bc_locusTotal hlin hb]
  rw [← Nat.cast_sum]
  split_ifs with h
  · rw [(hcore.1 h).1]
  · rw [(hcore.2 (by omega)).1]; simp

/-- the size-weighted SFS rewards sum to `n` times the tree height -/
theorem weighted_sfs_eq_n_height (n D : ℕ) (s : State) (hn : 2 ≤ n) (hbc : IsBC n D s)
    (hm : massOK n s) :
    ∑ i ∈ Finset.Icc 1 (n - 1), (i : ℚ) * Reward.eval n s (.unfoldedSFS i)
      = (n : ℚ) * Reward.eval n s .treeHeight := by
  obtain ⟨bs, hlin, -, hb⟩ := hbc
  have hcore := bc_core n hn (blk bs) (bc_mass hlin hb hm)
  rw [sum_Icc_shift n (by omega)]
  simp only [Reward.eval, Nat.add_sub_cancel, bc_blockTotal hlin, bc_nLoci hlin,
    List.range_one, List.any_cons, List.any_nil, Bool.or_false, decide_eq_true_eq,
    bc_locusTotal hlin hb]
  have : ∑ i ∈ range (n - 1), ((i + 1 : ℕ) : ℚ) * (blk bs i : ℚ)
      = ((∑ i ∈ range (n - 1), (i + 1) * blk bs i : ℕ) : ℚ) := by
    push_cast; rfl
  rw [this]
  split_ifs with h
  · rw [(hcore.1 h).2]; simp
  · rw [(hcore.2 (by omega)).2]; simp

/-! ## 3. Folded SFS -/

theorem folded_eq_fold (n : ℕ) (s : State) (i : ℕ) :
    Reward.eval n s (.foldedSFS i)
      = Reward.eval n s (.unfoldedSFS i)
        + (if i = n - i then 0 else Reward.eval n s (.unfoldedSFS (n - i))) := by
  simp only [Reward.eval, foldedIndices, sumRat_eq_sum]
  split_ifs <;> simp

/-- folding a spectrum preserves its total -/
theorem fold_sum (n : ℕ) (hn : 1 ≤ n) (u : ℕ → ℚ) :
    ∑ i ∈ Finset.Icc 1 (n / 2), (u i + if i = n - i then 0 else u (n - i))
      = ∑ i ∈ Finset.Icc 1 (n - 1), u i := by
  rw [Finset.sum_add_distrib, Finset.sum_ite, Finset.sum_const_zero, zero_add]
  have e1 : Finset.Icc 1 (n - 1) = Finset.Ico 1 n := Icc_one_pred n hn
  have e2 : Finset.Icc 1 (n / 2) = Finset.Ico 1 (n / 2 + 1) := by
    ext i; simp only [Finset.mem_Icc, Finset.mem_Ico]; omega
  rw [e1, ← Finset.sum_Ico_consecutive u (show 1 ≤ n / 2 + 1 by omega)
    (show n / 2 + 1 ≤ n by omega), e2]
  congr 1
  refine Finset.sum_nbij' (fun i => n - i) (fun j => n - j) ?_ ?_ ?_ ?_ ?_
  · intro i hi
    simp only [Finset.mem_filter, Finset.mem_Ico] at hi ⊢
    omega
  · intro j hj
    simp only [Finset.mem_filter, Finset.mem_Ico] at hj ⊢
    omega
  · intro i hi
    simp only [Finset.mem_filter, Finset.mem_Ico] at hi
    show n - (n - i) = i
    omega
  · intro j hj
    simp only [Finset.mem_Ico] at hj
    show n - (n - j) = j
    omega
  · intro i _; rfl

/-- the folded SFS rewards `1 … n/2` have the same total as the unfolded ones `1 … n-1` -/
theorem sum_folded_eq_sum_unfolded (n : ℕ) (s : State) (hn : 1 ≤ n) :
    ∑ i ∈ Finset.Icc 1 (n / 2), Reward.eval n s (.foldedSFS i)
      = ∑ i ∈ Finset.Icc 1 (n - 1), Reward.eval n s (.unfoldedSFS i) := by
  simp only [folded_eq_fold]
  exact fold_sum n hn fun i => Reward.eval n s (.unfoldedSFS i)

/-- the folded SFS rewards sum to the total branch length -/
theorem sum_folded_eq_tbl (n D : ℕ) (s : State) (hn : 2 ≤ n) (hbc : IsBC n D s) (hm : massOK n s) :
    ∑ i ∈ Finset.Icc 1 (n / 2), Reward.eval n s (.foldedSFS i)
      = Reward.eval n s .totalBranchLength := by
  rw [sum_folded_eq_sum_unfolded n s (by omega), sum_sfs_eq_tbl n D s hn hbc hm]

/-! ## 4. Deme rewards -/

theorem sum_demeTotal (s : State) (D : ℕ) (hD : ∀ l < s.nLoci, (s.lin.getD l []).length ≤ D) :
    ∑ d ∈ range D, s.demeTotal d = s.total := by
  simp only [State.demeTotal, State.total, State.locusTotal, sumNat_range]
  rw [Finset.sum_comm]
  refine Finset.sum_congr rfl fun l hl => ?_
  simp only [sumNat_eq_sum]
  have := sum_getD_range (fun b : List ℕ => b.sum) [] rfl (s.lin.getD l []) D
    (hD l (Finset.mem_range.mp hl))
  rw [this]
  congr 1
  refine List.map_congr_left fun b _ => (sumNat_eq_sum b).symm

theorem deme_rewards_sum_one_of_le (n : ℕ) (s : State) (D : ℕ) (hpos : 0 < s.total)
    (hD : ∀ l < s.nLoci, (s.lin.getD l []).length ≤ D) :
    ∑ d ∈ range D, Reward.eval n s (.deme d) = 1 := by
  simp only [Reward.eval]
  rw [← Finset.sum_div, ← Nat.cast_sum, sum_demeTotal s D hD]
  have : (s.total : ℚ) ≠ 0 := by exact_mod_cast hpos.ne'
  exact div_self this

/-- the deme rewards of a state with at least one lineage sum to one -/
theorem deme_rewards_sum_one (n : ℕ) (s : State) (D : ℕ) (hpos : 0 < s.total)
    (hD : ∀ l < s.nLoci, (s.lin.getD l []).length = D) :
    ∑ d ∈ range D, Reward.eval n s (.deme d) = 1 :=
  deme_rewards_sum_one_of_le n s D hpos fun l hl => (hD l hl).le

theorem eval_prod_pair (n : ℕ) (s : State) (r r' : Reward) :
    Reward.eval n s (.prod [r, r']) = Reward.eval n s r * Reward.eval n s r' := by
  simp [Reward.eval, Reward.evalProd]

/-- product form: splitting any reward by deme loses nothing -/
theorem deme_prod_sum (n : ℕ) (s : State) (D : ℕ) (r : Reward) (hpos : 0 < s.total)
    (hD : ∀ l < s.nLoci, (s.lin.getD l []).length = D) :
    ∑ d ∈ range D, Reward.eval n s (.prod [r, .deme d]) = Reward.eval n s r := by
  simp only [eval_prod_pair]
  rw [← Finset.mul_sum, deme_rewards_sum_one n s D hpos hD, mul_one]

/-! ## 5. Loci -/

theorem tbl_eq_sum_tblLocus (n : ℕ) (s : State) :
    Reward.eval n s .totalBranchLength = ∑ l ∈ range s.nLoci, Reward.eval n s (.tblLocus l) := by
  simp only [Reward.eval, sumRat_range]
  refine Finset.sum_congr rfl fun l _ => ?_
  split_ifs <;> first | rfl | omega

theorem totalTreeHeight_eq_sum_locus (n : ℕ) (s : State) :
    Reward.eval n s .totalTreeHeight = ∑ l ∈ range s.nLoci, Reward.eval n s (.locus l) := by
  simp only [Reward.eval, sumRat_range]

theorem eval_prod_unit (n : ℕ) (s : State) (r : Reward) :
    Reward.eval n s (.prod [.unit, r]) = Reward.eval n s r := by
  simp [Reward.eval, Reward.evalProd]

theorem combine_tbl_locus (l : ℕ) :
    combineRewards 2 [.totalBranchLength, .locus l] = [.tblLocus l] := rfl

theorem combine_height_locus (l : ℕ) :
    combineRewards 2 [.treeHeight, .locus l] = [.treeHeight, .locus l] := rfl

theorem combined_tbl_locus (n : ℕ) (s : State) (l : ℕ) :
    Reward.eval n s (Reward.combined [.totalBranchLength, .locus l])
      = Reward.eval n s (.tblLocus l) := by
  simp [Reward.combined, combine_tbl_locus, Reward.eval, Reward.evalProd]

theorem combined_height_locus (n : ℕ) (s : State) (l : ℕ) :
    Reward.eval n s (Reward.combined [.treeHeight, .locus l])
      = Reward.eval n s .treeHeight * Reward.eval n s (.locus l) := by
  simp [Reward.combined, combine_height_locus, Reward.eval, Reward.evalProd]

theorem locusTotal_eq_zero_of_ge (s : State) (l : ℕ) (h : s.nLoci ≤ l) : s.locusTotal l = 0 := by
  have : s.lin.getD l [] = [] := by
    simp [List.getD_eq_getElem?_getD, List.getElem?_eq_none (show s.lin.length ≤ l from h)]
  unfold State.locusTotal
  rw [this]; rfl

/-- a locus with more than one lineage forces the tree-height indicator to 1 -/
theorem height_mul_locus (n : ℕ) (s : State) (l : ℕ) :
    Reward.eval n s .treeHeight * Reward.eval n s (.locus l) = Reward.eval n s (.locus l) := by
  simp only [Reward.eval]
  by_cases h : s.locusTotal l > 1
  · have hl : l < s.nLoci := by
      by_contra hge
      rw [locusTotal_eq_zero_of_ge s l (by omega)] at h
      omega
    have : ((List.range s.nLoci).any fun l => decide (s.locusTotal l > 1)) = true := by
      rw [List.any_eq_true]
      exact ⟨l, List.mem_range.mpr hl, by simpa using h⟩
    simp [this, h]
  · simp [h]

theorem combined_height_locus' (n : ℕ) (s : State) (l : ℕ) :
    Reward.eval n s (Reward.combined [.treeHeight, .locus l]) = Reward.eval n s (.locus l) := by
  rw [combined_height_locus, height_mul_locus]

/-! ## 6. Tree height is the indicator of the transient states -/

theorem treeHeight_zero_or_one (n : ℕ) (s : State) :
    Reward.eval n s .treeHeight = 0 ∨ Reward.eval n s .treeHeight = 1 := by
  simp only [Reward.eval]
  split_ifs <;> simp

theorem treeHeight_zero_iff_absorbing (n : ℕ) (s : State)
    (h1 : ∀ l < s.nLoci, 1 ≤ s.locusTotal l) :
    Reward.eval n s .treeHeight = 0 ↔ s.isAbsorbing = true := by
  simp only [Reward.eval, State.isAbsorbing]
  constructor
  · intro h
    rw [List.all_eq_true]
    intro l hl
    have hl' := List.mem_range.mp hl
    have hnot : ¬ ((List.range s.nLoci).any fun l => decide (s.locusTotal l > 1)) = true := by
      intro hany; simp [hany] at h
    rw [List.any_eq_true] at hnot
    have : ¬ s.locusTotal l > 1 := fun hgt => hnot ⟨l, hl, by simpa using hgt⟩
    have := h1 l hl'
    simp; omega
  · intro h
    rw [List.all_eq_true] at h
    have hnot : ¬ ((List.range s.nLoci).any fun l => decide (s.locusTotal l > 1)) = true := by
      rw [List.any_eq_true]
      rintro ⟨l, hl, hgt⟩
      have := h l hl
      simp at this hgt
      omega
    simp [hnot]

theorem treeHeight_one_iff_not_absorbing (n : ℕ) (s : State)
    (h1 : ∀ l < s.nLoci, 1 ≤ s.locusTotal l) :
    Reward.eval n s .treeHeight = 1 ↔ s.isAbsorbing = false := by
  have h := treeHeight_zero_iff_absorbing n s h1
  rcases treeHeight_zero_or_one n s with h0 | h0
  · rw [h0]; simp [h.mp h0]
  · rw [h0]
    have : ¬ s.isAbsorbing = true := fun ha => by
      have := h.mpr ha; rw [h0] at this; exact one_ne_zero this
    simp [this]

end PG

#print axioms PG.sum_sfs_eq_tbl
#print axioms PG.weighted_sfs_eq_n_height
#print axioms PG.folded_eq_fold
#print axioms PG.sum_folded_eq_tbl
#print axioms PG.deme_rewards_sum_one
#print axioms PG.deme_prod_sum
#print axioms PG.tbl_eq_sum_tblLocus
#print axioms PG.totalTreeHeight_eq_sum_locus
#print axioms PG.eval_prod_unit
#print axioms PG.combined_tbl_locus
#print axioms PG.combined_height_locus'
#print axioms PG.treeHeight_zero_iff_absorbing
#print axioms PG.treeHeight_one_iff_not_absorbing
