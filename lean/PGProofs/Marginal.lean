/-
  PGProofs/Marginal.lean

  C06: with two loci and recombination rate `r`, each locus' marginal is the single-locus
  coalescent for EVERY `r`; at `r = 0` the two trees coincide.
-/
import PGProofs.Labelled
import PGProofs.VanLoan
import PGProofs.RatesThm

open Finset

set_option linter.unusedSimpArgs false
set_option linter.unusedVariables false
set_option linter.unnecessarySeqFocus false
set_option linter.unusedSectionVars false

namespace PG
namespace Marginal

open LCls

/-! ## 0. The per-locus lineage counts -/

section Phi
variable {D : ℕ}

/-- lineage counts of the locus seen by class `u` (`u = U1`: locus 1, `u = U2`: locus 2) -/
def phi (u : LCls) (c : Fin D × LCls → ℕ) : Fin D → ℕ := fun d => c (d, L) + c (d, u)

/-- per-deme number of lineages ancestral to locus 1 -/
abbrev φ₁ (c : Fin D × LCls → ℕ) : Fin D → ℕ := phi U1 c
/-- per-deme number of lineages ancestral to locus 2 -/
abbrev φ₂ (c : Fin D × LCls → ℕ) : Fin D → ℕ := phi U2 c

theorem φ₁_apply (c : Fin D × LCls → ℕ) (d : Fin D) : φ₁ c d = c (d, L) + c (d, U1) := rfl
theorem φ₂_apply (c : Fin D × LCls → ℕ) (d : Fin D) : φ₂ c d = c (d, L) + c (d, U2) := rfl

theorem sum_LCls {M : Type*} [AddCommMonoid M] (f : LCls → M) :
    ∑ cl, f cl = f L + f U1 + f U2 := by
  have : (univ : Finset LCls) = {L, U1, U2} := rfl
  rw [this, sum_insert (by decide), sum_insert (by decide), sum_singleton, add_assoc]

variable (c : Fin D × LCls → ℕ) (d d' : Fin D)

/-- a visible lineage moves -/
theorem phi_move_vis (u cl : LCls) (hu : u ≠ L) (hcl : cl = L ∨ cl = u) (h : 1 ≤ c (d, cl)) :
    phi u (c - e1 (d, cl) + e1 (d', cl)) = phi u c - e1 d + e1 d' := by
  funext x
  rcases hcl with rfl | rfl
  · by_cases hx : x = d
    · subst hx
      by_cases hx' : x = d'
      · subst hx'; simp [phi, e1, Pi.single_apply, hu, hu.symm]; omega
      · simp [phi, e1, Pi.single_apply, hu, hu.symm, hx']; omega
    · by_cases hx' : x = d'
      · subst hx'; simp [phi, e1, Pi.single_apply, hu, hu.symm, hx]; omega
      · simp [phi, e1, Pi.single_apply, hu, hu.symm, hx, hx']
  · by_cases hx : x = d
    · subst hx
      by_cases hx' : x = d'
      · subst hx'; simp [phi, e1, Pi.single_apply, hu, hu.symm]; omega
      · simp [phi, e1, Pi.single_apply, hu, hu.symm, hx']; omega
    · by_cases hx' : x = d'
      · subst hx'; simp [phi, e1, Pi.single_apply, hu, hu.symm, hx]; omega
      · simp [phi, e1, Pi.single_apply, hu, hu.symm, hx, hx']

/-- an invisible lineage moves -/
theorem phi_move_invis (u cl : LCls) (h1 : cl ≠ L) (h2 : cl ≠ u) :
    phi u (c - e1 (d, cl) + e1 (d', cl)) = phi u c := by
  funext x
  simp [phi, e1, Pi.single_apply, h1, h1.symm, h2, h2.symm]

/-- recombination of a linked lineage: `L → U1 + U2` -/
theorem phi_recomb (u : LCls) (hu : u = U1 ∨ u = U2) (h : 1 ≤ c (d, L)) :
    phi u (c - e1 (d, L) + (e1 (d, U1) + e1 (d, U2))) = phi u c := by
  funext x
  rcases hu with rfl | rfl
  · by_cases hx : x = d
    · subst hx; simp [phi, e1, Pi.single_apply] <;> omega
    · simp [phi, e1, Pi.single_apply, hx]
  · by_cases hx : x = d
    · subst hx; simp [phi, e1, Pi.single_apply] <;> omega
    · simp [phi, e1, Pi.single_apply, hx]

/-- merger of two visible lineages into a visible one -/
theorem phi_merge_vis (u a b o : LCls) (hu : u ≠ L) (ha : a = L ∨ a = u) (hb : b = L ∨ b = u)
    (ho : o = L ∨ o = u) (hle : e1 (d, a) + e1 (d, b) ≤ c) (hab : a = b → o = a)
    (hab' : a ≠ b → o = L) :
    phi u (c - (e1 (d, a) + e1 (d, b)) + e1 (d, o)) = phi u c - e1 d := by
  funext x
  by_cases hx : x = d
  · subst hx
    have h1 := hle (x, L)
    have h2 := hle (x, u)
    rcases ha with rfl | rfl <;> rcases hb with rfl | rfl
    · obtain rfl := hab rfl
      simp [phi, e1, Pi.single_apply, hu, hu.symm] at h1 h2 ⊢ <;> omega
    · obtain rfl := hab' hu.symm
      simp [phi, e1, Pi.single_apply, hu, hu.symm] at h1 h2 ⊢ <;> omega
    · obtain rfl := hab' hu
      simp [phi, e1, Pi.single_apply, hu, hu.symm] at h1 h2 ⊢ <;> omega
    · obtain rfl := hab rfl
      simp [phi, e1, Pi.single_apply, hu, hu.symm] at h1 h2 ⊢ <;> omega
  · simp [phi, e1, Pi.single_apply, hx]

/-- merger of a visible with an invisible lineage; the result has the visible class if that was
`L`, and class `L` otherwise -/
theorem phi_merge_mixed (u w a o : LCls) (hu : u ≠ L) (hw : w ≠ L) (hwu : w ≠ u)
    (ha : a = L ∨ a = u) (ho : o = L) (h : 1 ≤ c (d, a)) :
    phi u (c - (e1 (d, a) + e1 (d, w)) + e1 (d, o)) = phi u c := by
  funext x
  subst ho
  by_cases hx : x = d
  · subst hx
    rcases ha with rfl | rfl
    · simp [phi, e1, Pi.single_apply, hu, hu.symm, hw, hw.symm, hwu, hwu.symm] at h ⊢ <;> omega
    · simp [phi, e1, Pi.single_apply, hu, hu.symm, hw, hw.symm, hwu, hwu.symm] at h ⊢ <;> omega
  · simp [phi, e1, Pi.single_apply, hx]

/-- merger of two invisible lineages -/
theorem phi_merge_invis (u w : LCls) (hw : w ≠ L) (hwu : w ≠ u) :
    phi u (c - (e1 (d, w) + e1 (d, w)) + e1 (d, w)) = phi u c := by
  funext x
  simp [phi, e1, Pi.single_apply, hw, hw.symm, hwu, hwu.symm]

end Phi

/-! ## 1. Function-level generators: migration part and coalescence/recombination part -/

section Gen
variable {D : ℕ} {K : Type*} [Field K]

/-- Kingman's `λ_{b,k}`: only pair mergers, each pair at rate one -/
def lamK : ℕ → ℕ → K := fun _ k => if k = 2 then 1 else 0

/-- `lamK` over `ℚ` is the model's `lam .kingman` -/
theorem lamK_eq_lam : (lamK : ℕ → ℕ → ℚ) = lam .kingman := by
  funext b k; simp [lamK, lam]

variable (r : K) (ts : Fin D → K) (mig : Fin D → Fin D → K)

/-- the migration events of the two-locus generator -/
def argMig (g : (Fin D × LCls → ℕ) → K) (c : Fin D × LCls → ℕ) : K :=
  ∑ e : Fin D × Fin D × LCls, QC (argRate r ts mig (.inl e)) (argRes (.inl e)) g c

/-- the recombination and merger events of the two-locus generator -/
def argCoal (g : (Fin D × LCls → ℕ) → K) (c : Fin D × LCls → ℕ) : K :=
  ∑ e : Fin D ⊕ (Fin D × PairK), QC (argRate r ts mig (.inr e)) (argRes (.inr e)) g c

theorem QCs_arg_split (g : (Fin D × LCls → ℕ) → K) (c : Fin D × LCls → ℕ) :
    QCs (argRate r ts mig) argRes g c = argMig r ts mig g c + argCoal r ts mig g c := by
  unfold QCs argMig argCoal
  rw [Fintype.sum_sum_type]

theorem argMig_closed (g : (Fin D × LCls → ℕ) → K) (c : Fin D × LCls → ℕ) :
    argMig r ts mig g c
      = ∑ d, ∑ d', ∑ cl, (if d ≠ d' then (c (d, cl) : K) * mig d d' *
            (g (c - e1 (d, cl) + e1 (d', cl)) - g c) else 0) := by
  unfold argMig
  rw [Fintype.sum_prod_type]
  refine sum_congr rfl fun d _ => ?_
  rw [Fintype.sum_prod_type]
  refine sum_congr rfl fun d' _ => sum_congr rfl fun cl _ => ?_
  refine (QC_single (e1 (d, cl)) (d ≠ d') (fun _ => mig d d') (fun _ => e1 (d', cl)) g c).trans ?_
  rw [wt_e1]
  simp only [mul_assoc]

theorem argCoal_closed (g : (Fin D × LCls → ℕ) → K) (c : Fin D × LCls → ℕ) :
    argCoal r ts mig g c
      = (∑ d, (c (d, L) : K) * r * (g (c - e1 (d, L) + (e1 (d, U1) + e1 (d, U2))) - g c)
        + ∑ d,
          ( ((c (d, L)).choose 2 : K) * (1 / ts d) *
              (g (c - (e1 (d, L) + e1 (d, L)) + e1 (d, L)) - g c)
          + ((c (d, L) : K) * (c (d, U1) : K)) * (1 / ts d) *
              (g (c - (e1 (d, L) + e1 (d, U1)) + e1 (d, L)) - g c)
          + ((c (d, L) : K) * (c (d, U2) : K)) * (1 / ts d) *
              (g (c - (e1 (d, L) + e1 (d, U2)) + e1 (d, L)) - g c)
          + ((c (d, U1)).choose 2 : K) * (1 / ts d) *
              (g (c - (e1 (d, U1) + e1 (d, U1)) + e1 (d, U1)) - g c)
          + ((c (d, U2)).choose 2 : K) * (1 / ts d) *
              (g (c - (e1 (d, U2) + e1 (d, U2)) + e1 (d, U2)) - g c)
          + ((c (d, U1) : K) * (c (d, U2) : K)) * (1 / ts d) *
              (g (c - (e1 (d, U1) + e1 (d, U2)) + e1 (d, L)) - g c))) := by
  have h := arg_closed_form r ts mig g c
  rw [QCs_arg_split, argMig_closed] at h
  exact add_left_cancel h

variable (lam : ℕ → ℕ → K)

/-- the migration events of the one-locus generator -/
def linMig (g : (Fin D → ℕ) → K) (x : Fin D → ℕ) : K :=
  ∑ e : Fin D × Fin D, QC (linRate lam ts mig (.inl e)) (linRes (.inl e)) g x

/-- the merger events of the one-locus generator -/
def linCoal (g : (Fin D → ℕ) → K) (x : Fin D → ℕ) : K :=
  ∑ e : Fin D, QC (linRate lam ts mig (.inr e)) (linRes (.inr e)) g x

theorem QCs_lin_split (g : (Fin D → ℕ) → K) (x : Fin D → ℕ) :
    QCs (linRate lam ts mig) linRes g x = linMig ts mig lam g x + linCoal ts mig lam g x := by
  unfold QCs linMig linCoal
  rw [Fintype.sum_sum_type]

theorem linMig_closed (g : (Fin D → ℕ) → K) (x : Fin D → ℕ) :
    linMig ts mig lam g x
      = ∑ d, ∑ d', (if d ≠ d' then (x d : K) * mig d d' * (g (x - e1 d + e1 d') - g x) else 0) := by
  unfold linMig
  rw [Fintype.sum_prod_type]
  refine sum_congr rfl fun d _ => sum_congr rfl fun d' _ => ?_
  refine (QC_single (e1 d) (d ≠ d') (fun _ => mig d d') (fun _ => e1 d') g x).trans ?_
  rw [wt_e1]
  simp only [mul_assoc]

theorem linCoal_closed (g : (Fin D → ℕ) → K) (x : Fin D → ℕ) :
    linCoal ts mig lam g x
      = ∑ d, ∑ k ∈ Icc 2 (x d), ((x d).choose k : K) * (lam (x d) k / ts d) *
            (g (x - (k - 1) • e1 d) - g x) := by
  have h := lineage_closed_form lam ts mig g x
  rw [QCs_lin_split, linMig_closed] at h
  exact add_left_cancel h

/-- Kingman: only `k = 2` contributes to the merger part -/
theorem linCoal_kingman (g : (Fin D → ℕ) → K) (x : Fin D → ℕ) :
    linCoal ts mig lamK g x
      = ∑ d, ((x d).choose 2 : K) * (1 / ts d) * (g (x - e1 d) - g x) := by
  rw [linCoal_closed]
  refine sum_congr rfl fun d _ => ?_
  by_cases h : 2 ≤ x d
  · rw [sum_eq_single_of_mem 2 (mem_Icc.mpr ⟨le_refl _, h⟩)]
    · simp [lamK]
    · intro k _ hk; simp [lamK, hk]
  · rw [Icc_eq_empty (by omega), sum_empty, Nat.choose_eq_zero_of_lt (by omega)]
    simp

/-- a single lineage never merges (any `Λ`) -/
theorem linCoal_single (g : (Fin D → ℕ) → K) (x : Fin D → ℕ) (h : ∑ d, x d = 1) :
    linCoal ts mig lam g x = 0 := by
  rw [linCoal_closed]
  refine sum_eq_zero fun d _ => ?_
  have : x d ≤ 1 := h ▸ single_le_sum (f := x) (fun _ _ => Nat.zero_le _) (mem_univ d)
  rw [Icc_eq_empty (by omega), sum_empty]

/-! ### The marginal identities -/

theorem coef_term (a : ℕ) (x y y' z : K) (h : 0 < a → y = y') :
    (a : K) * x * (y - z) = (a : K) * x * (y' - z) := by
  rcases Nat.eq_zero_or_pos a with rfl | h0
  · simp
  · rw [h h0]

theorem coef_term2 (a b : ℕ) (x y y' z : K) (h : 0 < a → 0 < b → y = y') :
    ((a : K) * (b : K)) * x * (y - z) = ((a : K) * (b : K)) * x * (y' - z) := by
  rcases Nat.eq_zero_or_pos a with rfl | h0
  · simp
  rcases Nat.eq_zero_or_pos b with rfl | h1
  · simp
  · rw [h h0 h1]

theorem two_e1_le {T : Type*} [DecidableEq T] (c : T → ℕ) (t : T) (h : 0 < (c t).choose 2) :
    e1 t + e1 t ≤ c := by
  have h2 : 2 ≤ c t := by
    by_contra hlt
    rw [Nat.choose_eq_zero_of_lt (by omega)] at h
    exact absurd h (lt_irrefl _)
  intro s
  by_cases hs : s = t
  · subst hs; simpa [e1] using h2
  · simp [e1, hs]

theorem pair_e1_le {T : Type*} [DecidableEq T] (c : T → ℕ) (a b : T) (hab : a ≠ b)
    (ha : 0 < c a) (hb : 0 < c b) : e1 a + e1 b ≤ c := by
  intro s
  by_cases hsa : s = a
  · subst hsa
    have : 1 ≤ c s := ha
    simpa [e1, hab] using this
  · by_cases hsb : s = b
    · subst hsb
      have : 1 ≤ c s := hb
      simpa [e1, hsa] using this
    · simp [e1, hsa, hsb]

theorem choose_add_two (a b : ℕ) : (a + b).choose 2 = a.choose 2 + a * b + b.choose 2 := by
  induction b with
  | zero => simp
  | succ b ih =>
    rw [← add_assoc, Nat.choose_succ_succ' (a + b) 1, Nat.choose_succ_succ' b 1, ih]
    simp only [Nat.choose_one_right]
    ring

/-- migration part, locus 1 -/
theorem marg_mig₁ (g : (Fin D → ℕ) → K) (c : Fin D × LCls → ℕ) :
    argMig r ts mig (fun c' => g (φ₁ c')) c = linMig ts mig lam g (φ₁ c) := by
  unfold φ₁
  rw [argMig_closed, linMig_closed]
  refine sum_congr rfl fun d _ => sum_congr rfl fun d' _ => ?_
  rw [sum_LCls]
  by_cases hdd : d ≠ d'
  · simp only [if_pos hdd]
    rw [coef_term (c (d, L)) _ _ _ _ fun h =>
        congrArg g (phi_move_vis c d d' U1 L (by decide) (Or.inl rfl) h),
      coef_term (c (d, U1)) _ _ _ _ fun h =>
        congrArg g (phi_move_vis c d d' U1 U1 (by decide) (Or.inr rfl) h),
      phi_move_invis c d d' U1 U2 (by decide) (by decide)]
    simp only [phi, Nat.cast_add]
    ring
  · simp [hdd]

/-- migration part, locus 2 -/
theorem marg_mig₂ (g : (Fin D → ℕ) → K) (c : Fin D × LCls → ℕ) :
    argMig r ts mig (fun c' => g (φ₂ c')) c = linMig ts mig lam g (φ₂ c) := by
  unfold φ₂
  rw [argMig_closed, linMig_closed]
  refine sum_congr rfl fun d _ => sum_congr rfl fun d' _ => ?_
  rw [sum_LCls]
  by_cases hdd : d ≠ d'
  · simp only [if_pos hdd]
    rw [coef_term (c (d, L)) _ _ _ _ fun h =>
        congrArg g (phi_move_vis c d d' U2 L (by decide) (Or.inl rfl) h),
      coef_term (c (d, U2)) _ _ _ _ fun h =>
        congrArg g (phi_move_vis c d d' U2 U2 (by decide) (Or.inr rfl) h),
      phi_move_invis c d d' U2 U1 (by decide) (by decide)]
    simp only [phi, Nat.cast_add]
    ring
  · simp [hdd]

/-- recombination and merger part, locus 1 -/
theorem marg_coal₁ (g : (Fin D → ℕ) → K) (c : Fin D × LCls → ℕ) :
    argCoal r ts mig (fun c' => g (φ₁ c')) c = linCoal ts mig lamK g (φ₁ c) := by
  unfold φ₁
  rw [argCoal_closed, linCoal_kingman]
  have hrec : (∑ d, (c (d, L) : K) * r *
      (g (phi U1 (c - e1 (d, L) + (e1 (d, U1) + e1 (d, U2)))) - g (phi U1 c))) = 0 := by
    refine sum_eq_zero fun d _ => ?_
    rw [coef_term (c (d, L)) _ _ _ _ fun h => congrArg g (phi_recomb c d U1 (Or.inl rfl) h),
      sub_self, mul_zero]
  rw [hrec, zero_add]
  refine sum_congr rfl fun d _ => ?_
  rw [coef_term ((c (d, L)).choose 2) _ _ _ _ fun h => congrArg g
        (phi_merge_vis c d U1 L L L (by decide) (Or.inl rfl) (Or.inl rfl) (Or.inl rfl)
          (two_e1_le c _ h) (fun _ => rfl) (fun h => absurd rfl h)),
    coef_term2 (c (d, L)) (c (d, U1)) _ _ _ _ fun h1 h2 => congrArg g
        (phi_merge_vis c d U1 L U1 L (by decide) (Or.inl rfl) (Or.inr rfl) (Or.inl rfl)
          (pair_e1_le c _ _ (by simp) h1 h2) (fun h => by cases h) (fun _ => rfl)),
    coef_term2 (c (d, L)) (c (d, U2)) _ _ _ _ fun h1 _ => congrArg g
        (phi_merge_mixed c d U1 U2 L L (by decide) (by decide) (by decide) (Or.inl rfl) rfl h1),
    coef_term ((c (d, U1)).choose 2) _ _ _ _ fun h => congrArg g
        (phi_merge_vis c d U1 U1 U1 U1 (by decide) (Or.inr rfl) (Or.inr rfl) (Or.inr rfl)
          (two_e1_le c _ h) (fun _ => rfl) (fun h => absurd rfl h)),
    phi_merge_invis c d U1 U2 (by decide) (by decide),
    coef_term2 (c (d, U1)) (c (d, U2)) _ _ _ _ fun h1 _ => congrArg g
        (phi_merge_mixed c d U1 U2 U1 L (by decide) (by decide) (by decide) (Or.inr rfl) rfl h1)]
  simp only [phi, Nat.cast_add, choose_add_two, Nat.cast_mul]
  ring

/-- recombination and merger part, locus 2 -/
theorem marg_coal₂ (g : (Fin D → ℕ) → K) (c : Fin D × LCls → ℕ) :
    argCoal r ts mig (fun c' => g (φ₂ c')) c = linCoal ts mig lamK g (φ₂ c) := by
  unfold φ₂
  rw [argCoal_closed, linCoal_kingman]
  have hrec : (∑ d, (c (d, L) : K) * r *
      (g (phi U2 (c - e1 (d, L) + (e1 (d, U1) + e1 (d, U2)))) - g (phi U2 c))) = 0 := by
    refine sum_eq_zero fun d _ => ?_
    rw [coef_term (c (d, L)) _ _ _ _ fun h => congrArg g (phi_recomb c d U2 (Or.inr rfl) h),
      sub_self, mul_zero]
  rw [hrec, zero_add]
  refine sum_congr rfl fun d _ => ?_
  rw [coef_term ((c (d, L)).choose 2) _ _ _ _ fun h => congrArg g
        (phi_merge_vis c d U2 L L L (by decide) (Or.inl rfl) (Or.inl rfl) (Or.inl rfl)
          (two_e1_le c _ h) (fun _ => rfl) (fun h => absurd rfl h)),
    coef_term2 (c (d, L)) (c (d, U1)) _ _ _ _ fun h1 _ => congrArg g
        (phi_merge_mixed c d U2 U1 L L (by decide) (by decide) (by decide) (Or.inl rfl) rfl h1),
    coef_term2 (c (d, L)) (c (d, U2)) _ _ _ _ fun h1 h2 => congrArg g
        (phi_merge_vis c d U2 L U2 L (by decide) (Or.inl rfl) (Or.inr rfl) (Or.inl rfl)
          (pair_e1_le c _ _ (by simp) h1 h2) (fun h => by cases h) (fun _ => rfl)),
    phi_merge_invis c d U2 U1 (by decide) (by decide),
    coef_term ((c (d, U2)).choose 2) _ _ _ _ fun h => congrArg g
        (phi_merge_vis c d U2 U2 U2 U2 (by decide) (Or.inr rfl) (Or.inr rfl) (Or.inr rfl)
          (two_e1_le c _ h) (fun _ => rfl) (fun h => absurd rfl h)),
    coef_term2 (c (d, U1)) (c (d, U2)) _ _ _ _ fun _ h2 => congrArg g
        (show phi U2 (c - (e1 (d, U1) + e1 (d, U2)) + e1 (d, L)) = phi U2 c by
          rw [add_comm (e1 (d, U1)) (e1 (d, U2))]
          exact phi_merge_mixed c d U2 U1 U2 L (by decide) (by decide) (by decide)
            (Or.inr rfl) rfl h2)]
  simp only [phi, Nat.cast_add, choose_add_two, Nat.cast_mul]
  ring

/-! ### Item 1: marginal strong lumping at the function level -/

/-- **C06 (function level), locus 1.**  For every recombination rate `r`, the two-locus generator
applied to a function of the locus-1 lineage counts is the one-locus Kingman generator. -/
theorem marginal₁ (g : (Fin D → ℕ) → K) (c : Fin D × LCls → ℕ) :
    QCs (argRate r ts mig) argRes (fun c' => g (φ₁ c')) c
      = QCs (linRate lamK ts mig) linRes g (φ₁ c) := by
  rw [QCs_arg_split, QCs_lin_split, marg_mig₁, marg_coal₁]

/-- **C06 (function level), locus 2.** -/
theorem marginal₂ (g : (Fin D → ℕ) → K) (c : Fin D × LCls → ℕ) :
    QCs (argRate r ts mig) argRes (fun c' => g (φ₂ c')) c
      = QCs (linRate lamK ts mig) linRes g (φ₂ c) := by
  rw [QCs_arg_split, QCs_lin_split, marg_mig₂, marg_coal₂]

/-! ### Item 2: the code-faithful generator (no coalescence / recombination once both loci have
a single lineage) -/

/-- both loci have found their most recent common ancestor -/
def absorbing (c : Fin D × LCls → ℕ) : Prop := ∑ d, φ₁ c d = 1 ∧ ∑ d, φ₂ c d = 1

instance (c : Fin D × LCls → ℕ) : Decidable (absorbing c) := by
  unfold absorbing; infer_instance

/-- the generator as implemented: in an absorbing state only migration remains -/
def QCode (g : (Fin D × LCls → ℕ) → K) (c : Fin D × LCls → ℕ) : K :=
  if absorbing c then argMig r ts mig g c else QCs (argRate r ts mig) argRes g c

/-- **C06 (function level, code-faithful), locus 1.** -/
theorem marginal_code₁ (g : (Fin D → ℕ) → K) (c : Fin D × LCls → ℕ) :
    QCode r ts mig (fun c' => g (φ₁ c')) c = QCs (linRate lamK ts mig) linRes g (φ₁ c) := by
  unfold QCode
  split_ifs with h
  · rw [QCs_lin_split, marg_mig₁ r ts mig lamK, linCoal_single ts mig lamK g _ h.1, add_zero]
  · exact marginal₁ r ts mig g c

/-- **C06 (function level, code-faithful), locus 2.** -/
theorem marginal_code₂ (g : (Fin D → ℕ) → K) (c : Fin D × LCls → ℕ) :
    QCode r ts mig (fun c' => g (φ₂ c')) c = QCs (linRate lamK ts mig) linRes g (φ₂ c) := by
  unfold QCode
  split_ifs with h
  · rw [QCs_lin_split, marg_mig₂ r ts mig lamK, linCoal_single ts mig lamK g _ h.2, add_zero]
  · exact marginal₂ r ts mig g c

end Gen

/-! ## 4 (count level). `r = 0`: the fully linked states are closed, and there `φ₁ = φ₂` -/

section Linked
variable {D : ℕ} {K : Type*} [Field K]

/-- no unlinked lineage anywhere -/
def linked (c : Fin D × LCls → ℕ) : Prop := ∀ d, c (d, U1) = 0 ∧ c (d, U2) = 0

instance (c : Fin D × LCls → ℕ) : Decidable (linked c) := by
  unfold linked; infer_instance

/-- on fully linked states both loci see the same lineages: the two trees coincide -/
theorem phi_eq_of_linked {c : Fin D × LCls → ℕ} (h : linked c) : φ₁ c = φ₂ c := by
  funext d
  simp [phi, (h d).1, (h d).2]

theorem linked_move {c : Fin D × LCls → ℕ} (h : linked c) (d d' : Fin D) :
    linked (c - e1 (d, L) + e1 (d', L)) := by
  intro x
  simp [e1, Pi.single_apply, (h x).1, (h x).2]

theorem linked_merge {c : Fin D × LCls → ℕ} (h : linked c) (d : Fin D) :
    linked (c - (e1 (d, L) + e1 (d, L)) + e1 (d, L)) := by
  intro x
  simp [e1, Pi.single_apply, (h x).1, (h x).2]

variable (r : K) (ts : Fin D → K) (mig : Fin D → Fin D → K)

theorem argMig_linked (g : (Fin D × LCls → ℕ) → K) {c : Fin D × LCls → ℕ} (hc : linked c) :
    argMig r ts mig g c
      = ∑ d, ∑ d', (if d ≠ d' then (c (d, L) : K) * mig d d' *
            (g (c - e1 (d, L) + e1 (d', L)) - g c) else 0) := by
  rw [argMig_closed]
  refine sum_congr rfl fun d _ => sum_congr rfl fun d' _ => ?_
  rw [sum_LCls]
  simp [(hc d).1, (hc d).2]

theorem argCoal_linked (g : (Fin D × LCls → ℕ) → K) {c : Fin D × LCls → ℕ} (hc : linked c) :
    argCoal (0 : K) ts mig g c
      = ∑ d, ((c (d, L)).choose 2 : K) * (1 / ts d) *
            (g (c - (e1 (d, L) + e1 (d, L)) + e1 (d, L)) - g c) := by
  rw [argCoal_closed]
  simp [(hc _).1, (hc _).2]

/-- with `r = 0`, starting from a fully linked state, the two-locus generator only looks at fully
linked states -/
theorem QCs_congr_linked (g g' : (Fin D × LCls → ℕ) → K) {c : Fin D × LCls → ℕ} (hc : linked c)
    (hg : ∀ c', linked c' → g c' = g' c') :
    QCs (argRate (0 : K) ts mig) argRes g c = QCs (argRate (0 : K) ts mig) argRes g' c := by
  rw [QCs_arg_split, QCs_arg_split, argMig_linked _ _ _ _ hc, argMig_linked _ _ _ _ hc,
    argCoal_linked _ _ _ hc, argCoal_linked _ _ _ hc]
  simp only [hg c hc, hg _ (linked_move hc _ _), hg _ (linked_merge hc _)]

theorem QCode_congr_linked (g g' : (Fin D × LCls → ℕ) → K) {c : Fin D × LCls → ℕ} (hc : linked c)
    (hg : ∀ c', linked c' → g c' = g' c') :
    QCode (0 : K) ts mig g c = QCode (0 : K) ts mig g' c := by
  unfold QCode
  split_ifs with h
  · rw [argMig_linked _ _ _ _ hc, argMig_linked _ _ _ _ hc]
    simp only [hg c hc, hg _ (linked_move hc _ _)]
  · exact QCs_congr_linked ts mig g g' hc hg

/-- a function vanishing on the fully linked states is annihilated (at fully linked states): no
positive-rate transition leaves the fully linked class -/
theorem QCode_eq_zero_of_linked (g : (Fin D × LCls → ℕ) → K) {c : Fin D × LCls → ℕ}
    (hc : linked c) (hg : ∀ c', linked c' → g c' = 0) : QCode (0 : K) ts mig g c = 0 := by
  rw [QCode_congr_linked ts mig g (fun _ => 0) hc hg]
  unfold QCode
  split_ifs
  · simp [argMig, QC]
  · simp [QCs, QC]

/-- at `r = 0`, on fully linked states, a reward read off locus 2 is the same reward read off
locus 1, and stays so along the dynamics -/
theorem QCs_phi_linked (g : (Fin D → ℕ) → K) {c : Fin D × LCls → ℕ} (hc : linked c) :
    QCs (argRate (0 : K) ts mig) argRes (fun c' => g (φ₂ c')) c
      = QCs (argRate (0 : K) ts mig) argRes (fun c' => g (φ₁ c')) c :=
  QCs_congr_linked ts mig _ _ hc fun c' hc' => by rw [phi_eq_of_linked hc']

end Linked

/-! ## 3. Matrix form and moments -/

section Mat
variable {K : Type} [Field K] [LinearOrder K] [IsStrictOrderedRing K]
variable {ι₂ : Type} [Fintype ι₂] [DecidableEq ι₂] {ι₁ : Type} [Fintype ι₁] [DecidableEq ι₁]
variable {k : ℕ}

/-- the 0/1 matrix of a map between finite state spaces -/
def projMat (p : ι₂ → ι₁) : Matrix ι₂ ι₁ K := Matrix.of fun i j => if p i = j then 1 else 0

theorem projMat_rowsum (p : ι₂ → ι₁) (i : ι₂) : ∑ j, (projMat p : Matrix ι₂ ι₁ K) i j = 1 := by
  simp [projMat]

theorem vecMul_projMat (p : ι₂ → ι₁) (α : ι₂ → K) (j : ι₁) :
    (Matrix.vecMul α (projMat p : Matrix ι₂ ι₁ K)) j = ∑ i, if p i = j then α i else 0 := by
  simp [Matrix.vecMul, dotProduct, projMat]

theorem projMat_mulVec (p : ι₂ → ι₁) (w : ι₁ → K) (i : ι₂) :
    (Matrix.mulVec (projMat p : Matrix ι₂ ι₁ K) w) i = w (p i) := by
  simp [Matrix.mulVec, dotProduct, projMat]

theorem projMat_reward (p : ι₂ → ι₁) (R : ι₁ → K) :
    Matrix.diagonal (fun i => R (p i)) * (projMat p : Matrix ι₂ ι₁ K)
      = projMat p * Matrix.diagonal R := by
  ext i j
  rw [Matrix.diagonal_mul, Matrix.mul_diagonal]
  by_cases h : p i = j
  · subst h; simp [projMat, mul_comm]
  · simp [projMat, h]

/-- **Abstract intertwining.**  If the function-level generators satisfy
`G₂ (g ∘ φ) = (G₁ g) ∘ φ`, matrices representing them on finite (closed) state spaces are
intertwined by the 0/1 matrix of the state map. -/
theorem intertwine_of_rep {X₂ X₁ : Type*}
    (G₂ : (X₂ → K) → X₂ → K) (G₁ : (X₁ → K) → X₁ → K) (φ : X₂ → X₁)
    (hφ : ∀ g c, G₂ (fun c' => g (φ c')) c = G₁ g (φ c))
    (dec₂ : ι₂ → X₂) (dec₁ : ι₁ → X₁) (hinj : Function.Injective dec₁)
    (S₂ : Matrix ι₂ ι₂ K) (S₁ : Matrix ι₁ ι₁ K)
    (h₂ : ∀ f i, ∑ j, S₂ i j * f (dec₂ j) = G₂ f (dec₂ i))
    (h₁ : ∀ f i, ∑ j, S₁ i j * f (dec₁ j) = G₁ f (dec₁ i))
    (p : ι₂ → ι₁) (hp : ∀ i, dec₁ (p i) = φ (dec₂ i)) :
    S₂ * (projMat p : Matrix ι₂ ι₁ K) = projMat p * S₁ := by
  classical
  ext i j
  let f : X₁ → K := fun x => if x = dec₁ j then 1 else 0
  have hL : (S₂ * (projMat p : Matrix ι₂ ι₁ K)) i j = ∑ i', S₂ i i' * f (φ (dec₂ i')) := by
    rw [Matrix.mul_apply]
    refine sum_congr rfl fun i' _ => ?_
    simp only [projMat, Matrix.of_apply, f, ← hp i', hinj.eq_iff]
  have hR : ((projMat p : Matrix ι₂ ι₁ K) * S₁) i j = ∑ j', S₁ (p i) j' * f (dec₁ j') := by
    rw [Matrix.mul_apply, sum_eq_single (p i)]
    · rw [sum_eq_single j]
      · simp [projMat, f]
      · intro j' _ hj'; simp [f, hinj.eq_iff, hj']
      · intro h; exact absurd (mem_univ _) h
    · intro j' _ hj'; simp [projMat, Ne.symm hj']
    · intro h; exact absurd (mem_univ _) h
  rw [hL, hR, h₂ (fun c' => f (φ c')) i, hφ, ← hp i, h₁ f (p i)]

variable (L : ExpLaw K)

/-- **Abstract marginal moments.**  Per-epoch generator families; every moment of a reward that
depends on the big state only through `φ` equals the moment of the lumped chain. -/
theorem lumped_accum {X₂ X₁ : Type*}
    (G₂ : ℕ → (X₂ → K) → X₂ → K) (G₁ : ℕ → (X₁ → K) → X₁ → K) (φ : X₂ → X₁)
    (hφ : ∀ e g c, G₂ e (fun c' => g (φ c')) c = G₁ e g (φ c))
    (dec₂ : ι₂ → X₂) (dec₁ : ι₁ → X₁) (hinj : Function.Injective dec₁)
    (S₂ : ℕ → Matrix ι₂ ι₂ K) (S₁ : ℕ → Matrix ι₁ ι₁ K)
    (h₂ : ∀ e f i, ∑ j, S₂ e i j * f (dec₂ j) = G₂ e f (dec₂ i))
    (h₁ : ∀ e f i, ∑ j, S₁ e i j * f (dec₁ j) = G₁ e f (dec₁ i))
    (p : ι₂ → ι₁) (hp : ∀ i, dec₁ (p i) = φ (dec₂ i))
    (R : Fin k → ι₁ → K) (α₂ : ι₂ → K) (fs : List (ℕ × K)) :
    accumVal L S₂ (fun a i => R a (p i)) α₂ fs
      = accumVal L S₁ R (Matrix.vecMul α₂ (projMat p)) fs :=
  lump_accum L S₂ S₁ _ R α₂ _ (projMat p)
    (fun e => intertwine_of_rep (G₂ e) (G₁ e) φ (hφ e) dec₂ dec₁ hinj (S₂ e) (S₁ e) (h₂ e) (h₁ e)
      p hp)
    (fun a => projMat_reward p (R a)) (projMat_rowsum p) rfl fs

theorem lumped_cdf {X₂ X₁ : Type*}
    (G₂ : ℕ → (X₂ → K) → X₂ → K) (G₁ : ℕ → (X₁ → K) → X₁ → K) (φ : X₂ → X₁)
    (hφ : ∀ e g c, G₂ e (fun c' => g (φ c')) c = G₁ e g (φ c))
    (dec₂ : ι₂ → X₂) (dec₁ : ι₁ → X₁) (hinj : Function.Injective dec₁)
    (S₂ : ℕ → Matrix ι₂ ι₂ K) (S₁ : ℕ → Matrix ι₁ ι₁ K)
    (h₂ : ∀ e f i, ∑ j, S₂ e i j * f (dec₂ j) = G₂ e f (dec₂ i))
    (h₁ : ∀ e f i, ∑ j, S₁ e i j * f (dec₁ j) = G₁ e f (dec₁ i))
    (p : ι₂ → ι₁) (hp : ∀ i, dec₁ (p i) = φ (dec₂ i))
    (exitVec : ι₁ → K) (α₂ : ι₂ → K) (fs : List (ℕ × K)) :
    cdfVal L S₂ α₂ (fun i => exitVec (p i)) fs
      = cdfVal L S₁ (Matrix.vecMul α₂ (projMat p)) exitVec fs := by
  have := lump_cdf L S₂ S₁ α₂ _ exitVec (projMat p)
    (fun e => intertwine_of_rep (G₂ e) (G₁ e) φ (hφ e) dec₂ dec₁ hinj (S₂ e) (S₁ e) (h₂ e) (h₁ e)
      p hp) rfl fs
  rw [← this]
  congr 1
  funext i
  rw [projMat_mulVec]

/-! ### The two-locus instance -/

variable {D : ℕ}
variable (r : ℕ → K) (ts : ℕ → Fin D → K) (mig : ℕ → Fin D → Fin D → K)
variable (dec₂ : ι₂ → (Fin D × LCls → ℕ)) (dec₁ : ι₁ → (Fin D → ℕ))
variable (S₂ : ℕ → Matrix ι₂ ι₂ K) (S₁ : ℕ → Matrix ι₁ ι₁ K)

/-- `S₂ P = P S₁` for the code-faithful two-locus generator and the locus-1 projection -/
theorem marginal_intertwine₁ (hinj : Function.Injective dec₁) (e : ℕ)
    (h₂ : ∀ f i, ∑ j, S₂ e i j * f (dec₂ j) = QCode (r e) (ts e) (mig e) f (dec₂ i))
    (h₁ : ∀ f i, ∑ j, S₁ e i j * f (dec₁ j)
      = QCs (linRate lamK (ts e) (mig e)) linRes f (dec₁ i))
    (p : ι₂ → ι₁) (hp : ∀ i, dec₁ (p i) = φ₁ (dec₂ i)) :
    S₂ e * (projMat p : Matrix ι₂ ι₁ K) = projMat p * S₁ e :=
  intertwine_of_rep (QCode (r e) (ts e) (mig e)) (QCs (linRate lamK (ts e) (mig e)) linRes) φ₁
    (marginal_code₁ (r e) (ts e) (mig e)) dec₂ dec₁ hinj (S₂ e) (S₁ e) h₂ h₁ p hp

theorem marginal_intertwine₂ (hinj : Function.Injective dec₁) (e : ℕ)
    (h₂ : ∀ f i, ∑ j, S₂ e i j * f (dec₂ j) = QCode (r e) (ts e) (mig e) f (dec₂ i))
    (h₁ : ∀ f i, ∑ j, S₁ e i j * f (dec₁ j)
      = QCs (linRate lamK (ts e) (mig e)) linRes f (dec₁ i))
    (p : ι₂ → ι₁) (hp : ∀ i, dec₁ (p i) = φ₂ (dec₂ i)) :
    S₂ e * (projMat p : Matrix ι₂ ι₁ K) = projMat p * S₁ e :=
  intertwine_of_rep (QCode (r e) (ts e) (mig e)) (QCs (linRate lamK (ts e) (mig e)) linRes) φ₂
    (marginal_code₂ (r e) (ts e) (mig e)) dec₂ dec₁ hinj (S₂ e) (S₁ e) h₂ h₁ p hp

/-- the same for the generator without the absorbing cut -/
theorem marginal_intertwine_plain₁ (hinj : Function.Injective dec₁) (e : ℕ)
    (h₂ : ∀ f i, ∑ j, S₂ e i j * f (dec₂ j)
      = QCs (argRate (r e) (ts e) (mig e)) argRes f (dec₂ i))
    (h₁ : ∀ f i, ∑ j, S₁ e i j * f (dec₁ j)
      = QCs (linRate lamK (ts e) (mig e)) linRes f (dec₁ i))
    (p : ι₂ → ι₁) (hp : ∀ i, dec₁ (p i) = φ₁ (dec₂ i)) :
    S₂ e * (projMat p : Matrix ι₂ ι₁ K) = projMat p * S₁ e :=
  intertwine_of_rep (QCs (argRate (r e) (ts e) (mig e)) argRes)
    (QCs (linRate lamK (ts e) (mig e)) linRes) φ₁
    (marginal₁ (r e) (ts e) (mig e)) dec₂ dec₁ hinj (S₂ e) (S₁ e) h₂ h₁ p hp

theorem marginal_intertwine_plain₂ (hinj : Function.Injective dec₁) (e : ℕ)
    (h₂ : ∀ f i, ∑ j, S₂ e i j * f (dec₂ j)
      = QCs (argRate (r e) (ts e) (mig e)) argRes f (dec₂ i))
    (h₁ : ∀ f i, ∑ j, S₁ e i j * f (dec₁ j)
      = QCs (linRate lamK (ts e) (mig e)) linRes f (dec₁ i))
    (p : ι₂ → ι₁) (hp : ∀ i, dec₁ (p i) = φ₂ (dec₂ i)) :
    S₂ e * (projMat p : Matrix ι₂ ι₁ K) = projMat p * S₁ e :=
  intertwine_of_rep (QCs (argRate (r e) (ts e) (mig e)) argRes)
    (QCs (linRate lamK (ts e) (mig e)) linRes) φ₂
    (marginal₂ (r e) (ts e) (mig e)) dec₂ dec₁ hinj (S₂ e) (S₁ e) h₂ h₁ p hp

/-- **C06 (moments), locus 1.**  Every moment (any order `k`, any epoch/factor list, any `ExpLaw`)
of rewards depending on the two-locus state only through `φ₁` is the single-locus moment -- for
EVERY family of recombination rates `r e` (they only enter `S₂`). -/
theorem marginal_moments₁ (hinj : Function.Injective dec₁)
    (h₂ : ∀ e f i, ∑ j, S₂ e i j * f (dec₂ j) = QCode (r e) (ts e) (mig e) f (dec₂ i))
    (h₁ : ∀ e f i, ∑ j, S₁ e i j * f (dec₁ j)
      = QCs (linRate lamK (ts e) (mig e)) linRes f (dec₁ i))
    (p : ι₂ → ι₁) (hp : ∀ i, dec₁ (p i) = φ₁ (dec₂ i))
    (R : Fin k → ι₁ → K) (α₂ : ι₂ → K) (fs : List (ℕ × K)) :
    accumVal L S₂ (fun a i => R a (p i)) α₂ fs
      = accumVal L S₁ R (Matrix.vecMul α₂ (projMat p)) fs :=
  lumped_accum L (fun e => QCode (r e) (ts e) (mig e))
    (fun e => QCs (linRate lamK (ts e) (mig e)) linRes) φ₁
    (fun e => marginal_code₁ (r e) (ts e) (mig e)) dec₂ dec₁ hinj S₂ S₁ h₂ h₁ p hp R α₂ fs

/-- **C06 (moments), locus 2.** -/
theorem marginal_moments₂ (hinj : Function.Injective dec₁)
    (h₂ : ∀ e f i, ∑ j, S₂ e i j * f (dec₂ j) = QCode (r e) (ts e) (mig e) f (dec₂ i))
    (h₁ : ∀ e f i, ∑ j, S₁ e i j * f (dec₁ j)
      = QCs (linRate lamK (ts e) (mig e)) linRes f (dec₁ i))
    (p : ι₂ → ι₁) (hp : ∀ i, dec₁ (p i) = φ₂ (dec₂ i))
    (R : Fin k → ι₁ → K) (α₂ : ι₂ → K) (fs : List (ℕ × K)) :
    accumVal L S₂ (fun a i => R a (p i)) α₂ fs
      = accumVal L S₁ R (Matrix.vecMul α₂ (projMat p)) fs :=
  lumped_accum L (fun e => QCode (r e) (ts e) (mig e))
    (fun e => QCs (linRate lamK (ts e) (mig e)) linRes) φ₂
    (fun e => marginal_code₂ (r e) (ts e) (mig e)) dec₂ dec₁ hinj S₂ S₁ h₂ h₁ p hp R α₂ fs

/-- **C06 (cdf), locus 1.** -/
theorem marginal_cdf₁ (hinj : Function.Injective dec₁)
    (h₂ : ∀ e f i, ∑ j, S₂ e i j * f (dec₂ j) = QCode (r e) (ts e) (mig e) f (dec₂ i))
    (h₁ : ∀ e f i, ∑ j, S₁ e i j * f (dec₁ j)
      = QCs (linRate lamK (ts e) (mig e)) linRes f (dec₁ i))
    (p : ι₂ → ι₁) (hp : ∀ i, dec₁ (p i) = φ₁ (dec₂ i))
    (exitVec : ι₁ → K) (α₂ : ι₂ → K) (fs : List (ℕ × K)) :
    cdfVal L S₂ α₂ (fun i => exitVec (p i)) fs
      = cdfVal L S₁ (Matrix.vecMul α₂ (projMat p)) exitVec fs :=
  lumped_cdf L (fun e => QCode (r e) (ts e) (mig e))
    (fun e => QCs (linRate lamK (ts e) (mig e)) linRes) φ₁
    (fun e => marginal_code₁ (r e) (ts e) (mig e)) dec₂ dec₁ hinj S₂ S₁ h₂ h₁ p hp exitVec α₂ fs

/-- **C06 (cdf), locus 2.** -/
theorem marginal_cdf₂ (hinj : Function.Injective dec₁)
    (h₂ : ∀ e f i, ∑ j, S₂ e i j * f (dec₂ j) = QCode (r e) (ts e) (mig e) f (dec₂ i))
    (h₁ : ∀ e f i, ∑ j, S₁ e i j * f (dec₁ j)
      = QCs (linRate lamK (ts e) (mig e)) linRes f (dec₁ i))
    (p : ι₂ → ι₁) (hp : ∀ i, dec₁ (p i) = φ₂ (dec₂ i))
    (exitVec : ι₁ → K) (α₂ : ι₂ → K) (fs : List (ℕ × K)) :
    cdfVal L S₂ α₂ (fun i => exitVec (p i)) fs
      = cdfVal L S₁ (Matrix.vecMul α₂ (projMat p)) exitVec fs :=
  lumped_cdf L (fun e => QCode (r e) (ts e) (mig e))
    (fun e => QCs (linRate lamK (ts e) (mig e)) linRes) φ₂
    (fun e => marginal_code₂ (r e) (ts e) (mig e)) dec₂ dec₁ hinj S₂ S₁ h₂ h₁ p hp exitVec α₂ fs

end Mat

/-! ## 4 (matrix level). Rewards only matter on a closed class carrying the initial law -/

section Closed
variable {K : Type} [Field K] [LinearOrder K] [IsStrictOrderedRing K]
variable {ι : Type} [Fintype ι] [DecidableEq ι] {k : ℕ}

/-- block-diagonal 0/1 projection onto the states of `N` -/
def restrictMat (k : ℕ) (N : Finset ι) : Matrix (Fin (k + 1) × ι) (Fin (k + 1) × ι) K :=
  Matrix.diagonal fun q => if q.2 ∈ N then 1 else 0

/-- rows in `N` of the Van Loan matrix only see the rewards on `N` -/
theorem restrict_vanLoan_congr (S : Matrix ι ι K) (R R' : Fin k → ι → K) (N : Finset ι)
    (hR : ∀ a i, i ∈ N → R a i = R' a i) :
    (restrictMat k N : Matrix _ _ K) * vanLoan S R = restrictMat k N * vanLoan S R' := by
  ext ⟨a, i⟩ ⟨b, j⟩
  unfold restrictMat
  rw [Matrix.diagonal_mul, Matrix.diagonal_mul]
  by_cases hi : i ∈ N
  · simp only [hi, if_true, one_mul]
    rcases block_cases a b with rfl | ⟨d, rfl, rfl⟩ | ⟨h1, h2⟩
    · rw [vanLoan_diag, vanLoan_diag]
    · rw [vanLoan_super, vanLoan_super, hR d i hi]
    · rw [vanLoan_other _ _ _ _ _ _ h1 h2, vanLoan_other _ _ _ _ _ _ h1 h2]
  · simp [hi]

/-- if `N` is closed under `S`, rows in `N` of the Van Loan matrix have no entries outside `N` -/
theorem restrict_vanLoan_closed (S : Matrix ι ι K) (R : Fin k → ι → K) (N : Finset ι)
    (hcl : ∀ i j, i ∈ N → j ∉ N → S i j = 0) :
    (restrictMat k N : Matrix _ _ K) * vanLoan S R * restrictMat k N
      = restrictMat k N * vanLoan S R := by
  ext ⟨a, i⟩ ⟨b, j⟩
  unfold restrictMat
  rw [Matrix.mul_diagonal, Matrix.diagonal_mul]
  by_cases hi : i ∈ N
  · by_cases hj : j ∈ N
    · simp [hi, hj]
    · simp only [hi, hj, if_true, if_false, one_mul, mul_zero]
      rcases block_cases a b with rfl | ⟨d, rfl, rfl⟩ | ⟨h1, h2⟩
      · rw [vanLoan_diag, hcl i j hi hj]
      · rw [vanLoan_super, if_neg]
        rintro rfl; exact hj hi
      · rw [vanLoan_other _ _ _ _ _ _ h1 h2]
  · simp [hi]

theorem headVec_restrict (α : ι → K) (N : Finset ι) (hα : ∀ i, i ∉ N → α i = 0) :
    Matrix.vecMul (headVec (k := k) α) (restrictMat k N) = headVec α := by
  funext q
  unfold restrictMat
  rw [Matrix.vecMul_diagonal]
  by_cases hq : q.2 ∈ N
  · simp [hq]
  · simp [hq, headVec, hα _ hq]

variable (L : ExpLaw K)

/-- **Algebraic core of the `r = 0` statement.**  If the rewards `R`, `R'` agree on a set `N` of
states which is closed under every `S e`, and the initial vector is supported on `N`, all
moments agree. -/
theorem accumVal_congr_closed (S : ℕ → Matrix ι ι K) (R R' : Fin k → ι → K) (α : ι → K)
    (N : Finset ι) (hcl : ∀ e i j, i ∈ N → j ∉ N → S e i j = 0)
    (hα : ∀ i, i ∉ N → α i = 0) (hR : ∀ a i, i ∈ N → R a i = R' a i) (fs : List (ℕ × K)) :
    accumVal L S R α fs = accumVal L S R' α fs := by
  have hI := evalFactors_intertwine L
    (fun e => (restrictMat k N : Matrix _ _ K) * vanLoan (S e) R) (fun e => vanLoan (S e) R)
    (restrictMat k N) (fun e => restrict_vanLoan_closed (S e) R N (hcl e)) fs
  have hI' := evalFactors_intertwine L
    (fun e => (restrictMat k N : Matrix _ _ K) * vanLoan (S e) R) (fun e => vanLoan (S e) R')
    (restrictMat k N) (fun e => by
      show (restrictMat k N : Matrix _ _ K) * vanLoan (S e) R * restrictMat k N = _
      rw [restrict_vanLoan_closed (S e) R N (hcl e), restrict_vanLoan_congr (S e) R R' N hR]) fs
  have key : (restrictMat k N : Matrix _ _ K) * evalFactors L (fun e => vanLoan (S e) R) fs
      = restrictMat k N * evalFactors L (fun e => vanLoan (S e) R') fs := by
    rw [← hI, ← hI']
  rw [accumVal_eq_dot, accumVal_eq_dot]
  congr 1
  rw [← headVec_restrict α N hα, Matrix.dotProduct_mulVec, Matrix.dotProduct_mulVec,
    Matrix.vecMul_vecMul, Matrix.vecMul_vecMul, key]

/-! ### The two-locus instance at `r = 0` -/

variable {D : ℕ} {ι₁ : Type} [Fintype ι₁] [DecidableEq ι₁]
variable (ts : ℕ → Fin D → K) (mig : ℕ → Fin D → Fin D → K)
variable (dec₂ : ι → (Fin D × LCls → ℕ)) (S₂ : ℕ → Matrix ι ι K)

/-- the (indices of the) fully linked states -/
def linkedSet : Finset ι := univ.filter fun i => linked (dec₂ i)

/-- at `r = 0` the fully linked class is closed under the two-locus generator matrix -/
theorem linkedSet_closed (hinj : Function.Injective dec₂)
    (h₂ : ∀ e f i, ∑ j, S₂ e i j * f (dec₂ j) = QCode (0 : K) (ts e) (mig e) f (dec₂ i)) :
    ∀ e i j, i ∈ linkedSet dec₂ → j ∉ linkedSet dec₂ → S₂ e i j = 0 := by
  classical
  intro e i j hi hj
  simp only [linkedSet, mem_filter, mem_univ, true_and] at hi hj
  have h := h₂ e (fun c => if c = dec₂ j then 1 else 0) i
  rw [QCode_eq_zero_of_linked (ts e) (mig e) _ hi (fun c' hc' => by
    rw [if_neg]; rintro rfl; exact hj hc')] at h
  rw [sum_eq_single j] at h
  · simpa using h
  · intro j' _ hj'; simp [hinj.eq_iff, hj']
  · intro h'; exact absurd (mem_univ _) h'

/-- **C06 at `r = 0` (moments).**  If the initial law is carried by fully linked states, then in
any moment each reward read off locus 2 may be replaced by the same reward read off locus 1:
cross moments between the loci are the (higher) moments of one locus. -/
theorem r0_cross_moments (hinj : Function.Injective dec₂)
    (h₂ : ∀ e f i, ∑ j, S₂ e i j * f (dec₂ j) = QCode (0 : K) (ts e) (mig e) f (dec₂ i))
    (α₂ : ι → K) (hα : ∀ i, ¬ linked (dec₂ i) → α₂ i = 0)
    (h : Fin k → (Fin D → ℕ) → K) (sel : Fin k → Bool) (fs : List (ℕ × K)) :
    accumVal L S₂ (fun a i => h a (if sel a then φ₂ (dec₂ i) else φ₁ (dec₂ i))) α₂ fs
      = accumVal L S₂ (fun a i => h a (φ₁ (dec₂ i))) α₂ fs := by
  refine accumVal_congr_closed L S₂ _ _ α₂ (linkedSet dec₂)
    (linkedSet_closed ts mig dec₂ S₂ hinj h₂) (fun i hi => hα i ?_) (fun a i hi => ?_) fs
  · simpa [linkedSet] using hi
  · simp only [linkedSet, mem_filter, mem_univ, true_and] at hi
    rw [phi_eq_of_linked hi]
    simp

/-- **C06 at `r = 0`, combined with the marginal law.**  All mixed moments of the two loci equal
the single-locus moments. -/
theorem r0_cross_moments_single (hinj₂ : Function.Injective dec₂)
    (dec₁ : ι₁ → (Fin D → ℕ)) (hinj₁ : Function.Injective dec₁) (S₁ : ℕ → Matrix ι₁ ι₁ K)
    (h₂ : ∀ e f i, ∑ j, S₂ e i j * f (dec₂ j) = QCode (0 : K) (ts e) (mig e) f (dec₂ i))
    (h₁ : ∀ e f i, ∑ j, S₁ e i j * f (dec₁ j)
      = QCs (linRate lamK (ts e) (mig e)) linRes f (dec₁ i))
    (p : ι → ι₁) (hp : ∀ i, dec₁ (p i) = φ₁ (dec₂ i))
    (α₂ : ι → K) (hα : ∀ i, ¬ linked (dec₂ i) → α₂ i = 0)
    (h : Fin k → (Fin D → ℕ) → K) (sel : Fin k → Bool) (fs : List (ℕ × K)) :
    accumVal L S₂ (fun a i => h a (if sel a then φ₂ (dec₂ i) else φ₁ (dec₂ i))) α₂ fs
      = accumVal L S₁ (fun a j => h a (dec₁ j)) (Matrix.vecMul α₂ (projMat p)) fs := by
  rw [r0_cross_moments L ts mig dec₂ S₂ hinj₂ h₂ α₂ hα h sel fs,
    ← marginal_moments₁ L (fun _ => 0) ts mig dec₂ dec₁ S₂ S₁ hinj₁ h₂ h₁ p hp
      (fun a j => h a (dec₁ j)) α₂ fs]
  simp only [hp]

end Closed

end Marginal
end PG

#print axioms PG.Marginal.marginal₁
#print axioms PG.Marginal.marginal₂
#print axioms PG.Marginal.marginal_code₁
#print axioms PG.Marginal.marginal_code₂
#print axioms PG.Marginal.intertwine_of_rep
#print axioms PG.Marginal.marginal_intertwine₁
#print axioms PG.Marginal.marginal_intertwine₂
#print axioms PG.Marginal.marginal_intertwine_plain₁
#print axioms PG.Marginal.marginal_intertwine_plain₂
#print axioms PG.Marginal.lumped_accum
#print axioms PG.Marginal.lumped_cdf
#print axioms PG.Marginal.marginal_moments₁
#print axioms PG.Marginal.marginal_moments₂
#print axioms PG.Marginal.marginal_cdf₁
#print axioms PG.Marginal.marginal_cdf₂
#print axioms PG.Marginal.phi_eq_of_linked
#print axioms PG.Marginal.QCs_congr_linked
#print axioms PG.Marginal.QCode_congr_linked
#print axioms PG.Marginal.QCode_eq_zero_of_linked
#print axioms PG.Marginal.accumVal_congr_closed
#print axioms PG.Marginal.linkedSet_closed
#print axioms PG.Marginal.r0_cross_moments
#print axioms PG.Marginal.r0_cross_moments_single
