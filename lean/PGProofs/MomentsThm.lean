/-
PGProofs.MomentsThm — the moment algebra of `PGModel.Moments` (mirror of
`PhaseTypeDistribution.accumulate`, `SFSDistribution.moment`, `SFSDistribution.cov`):

1. `perms`, `combinations` enumerate permutations / increasing index lists;
2. centring (`center = true`) is the inclusion–exclusion expansion over subsets of positions;
3. that expansion is the central mixed moment `E[∏ (X_j - E X_j)]` for any expectation functional;
4. the permuted moment, and the centred permuted moment, are symmetric in the rewards;
5. additivity in a reward slot passes from `raw` to `accumulate(center = False)`;
6. the SFS padding and covariance assembly;
and a pointwise transfer lemma for the time-indexed value type `ℕ → ℚ`.
-/
import Mathlib.Data.List.Permutation
import Mathlib.Data.List.Sublists
import Mathlib.Data.Finset.Sort
import Mathlib.Algebra.BigOperators.Group.Finset.Powerset
import Mathlib.Algebra.BigOperators.Ring.Finset
import Mathlib.Data.Nat.Factorial.Basic
import Mathlib.Algebra.Algebra.Basic
import Mathlib.Tactic.Ring
import Mathlib.Tactic.Linarith
import Mathlib.Tactic.FieldSimp
import Mathlib.Data.Multiset.Antidiagonal
import PGModel.Moments
open List

namespace PG

/-! ## Bridging lemmas -/

theorem factorial_eq (n : ℕ) : factorial n = n.factorial := by
  induction n with
  | zero => rfl
  | succ n ih => simp [factorial, Nat.factorial, ih]

theorem sumV_eq_sum (l : List ℚ) : sumV l = l.sum := by
  unfold sumV
  rw [List.sum_eq_foldl]; rfl

theorem prodV_eq_prod (l : List ℚ) : prodV l = l.prod := by
  unfold prodV
  rw [List.prod_eq_foldl]; rfl

@[simp] theorem smul_rat (a b : ℚ) : MomVal.smul a b = a * b := rfl
@[simp] theorem mul_rat (a b : ℚ) : MomVal.mul a b = a * b := rfl
@[simp] theorem add_rat (a b : ℚ) : MomVal.add a b = a + b := rfl
@[simp] theorem one_rat : (MomVal.one : ℚ) = 1 := rfl
@[simp] theorem zero_rat : (MomVal.zero : ℚ) = 0 := rfl

/-! ## 1. Enumeration facts -/

theorem insertEverywhere_eq {α} (x : α) (l : List α) :
    insertEverywhere x l = List.permutations'Aux x l := by
  induction l with
  | nil => rfl
  | cons y ys ih => simp [insertEverywhere, List.permutations'Aux, ih]

theorem perms_eq_permutations' {α} (l : List α) : perms l = l.permutations' := by
  induction l with
  | nil => rfl
  | cons x xs ih =>
    simp only [perms, List.permutations', ih]
    congr 1
    funext p
    exact insertEverywhere_eq x p

theorem mem_perms {α} {p l : List α} : p ∈ perms l ↔ p.Perm l := by
  rw [perms_eq_permutations']; exact List.mem_permutations'

theorem perms_perm {α} {l l' : List α} (h : l.Perm l') : (perms l).Perm (perms l') := by
  rw [perms_eq_permutations', perms_eq_permutations']; exact h.permutations'

theorem length_perms {α} (l : List α) : (perms l).length = l.length.factorial := by
  rw [perms_eq_permutations', ← (List.permutations_perm_permutations' l).length_eq,
    List.length_permutations]

theorem combinations_perm_sublistsLen (l : List ℕ) (i : ℕ) :
    (combinations l i).Perm (List.sublistsLen i l) := by
  induction l generalizing i with
  | nil => cases i <;> simp [combinations]
  | cons x xs ih =>
    cases i with
    | zero => simp [combinations]
    | succ i =>
      rw [combinations, List.sublistsLen_succ_cons]
      exact List.perm_append_comm.trans ((ih (i + 1)).append ((ih i).map _))

theorem mem_combinations {l idx : List ℕ} {i : ℕ} :
    idx ∈ combinations l i ↔ idx.Sublist l ∧ idx.length = i := by
  rw [(combinations_perm_sublistsLen l i).mem_iff, List.mem_sublistsLen]

theorem nodup_combinations {l : List ℕ} (h : l.Nodup) (i : ℕ) : (combinations l i).Nodup :=
  (combinations_perm_sublistsLen l i).nodup_iff.mpr (List.nodup_sublistsLen i h)

theorem length_combinations (l : List ℕ) (i : ℕ) :
    (combinations l i).length = l.length.choose i := by
  rw [(combinations_perm_sublistsLen l i).length_eq, List.length_sublistsLen]

/-- an element of `combinations (range k) i` is strictly increasing -/
theorem pairwise_of_mem_combinations {k i : ℕ} {idx : List ℕ}
    (h : idx ∈ combinations (List.range k) i) : idx.Pairwise (· < ·) :=
  List.pairwise_lt_range.sublist (mem_combinations.mp h).1

theorem sort_toFinset_of_mem_combinations {k i : ℕ} {idx : List ℕ}
    (h : idx ∈ combinations (List.range k) i) : idx.toFinset.sort (· ≤ ·) = idx := by
  have hp := pairwise_of_mem_combinations h
  rw [List.toFinset_sort (· ≤ ·) (hp.imp (fun h => ne_of_lt h))]
  exact hp.imp le_of_lt

theorem combinations_map_toFinset_nodup (k i : ℕ) :
    ((combinations (List.range k) i).map List.toFinset).Nodup := by
  refine List.Nodup.map_on ?_ (nodup_combinations List.nodup_range i)
  intro a ha b hb hab
  rw [← sort_toFinset_of_mem_combinations ha, ← sort_toFinset_of_mem_combinations hb, hab]

theorem combinations_toFinset (k i : ℕ) :
    ((combinations (List.range k) i).map List.toFinset).toFinset
      = Finset.powersetCard i (Finset.range k) := by
  ext A
  simp only [List.mem_toFinset, List.mem_map, Finset.mem_powersetCard]
  constructor
  · rintro ⟨idx, hidx, rfl⟩
    have hp := pairwise_of_mem_combinations hidx
    obtain ⟨hs, hl⟩ := mem_combinations.mp hidx
    refine ⟨?_, ?_⟩
    · intro x hx
      have := hs.subset (List.mem_toFinset.mp hx)
      simpa using this
    · rw [List.toFinset_card_of_nodup (hp.imp (fun h => ne_of_lt h)), hl]
  · rintro ⟨hA, hc⟩
    refine ⟨A.sort (· ≤ ·), ?_, Finset.sort_toFinset _ _⟩
    rw [mem_combinations]
    refine ⟨?_, by simp [hc]⟩
    apply List.sublist_of_subperm_of_pairwise (r := (· ≤ ·)) _ (Finset.pairwise_sort _ _)
      (List.pairwise_lt_range.imp le_of_lt)
    apply List.subperm_of_subset (Finset.sort_nodup _ _)
    intro x hx
    have := hA ((Finset.mem_sort _).mp hx)
    simpa using this
/-! ## 2. Centring is inclusion–exclusion -/

theorem sum_combinations (k i : ℕ) (g : Finset ℕ → ℚ) :
    ((combinations (List.range k) i).map (fun idx => g idx.toFinset)).sum
      = ∑ A ∈ Finset.powersetCard i (Finset.range k), g A := by
  rw [← combinations_toFinset, List.sum_toFinset _ (combinations_map_toFinset_nodup k i),
    List.map_map]
  rfl

theorem sum_flatMap_range (n : ℕ) (f : ℕ → List ℚ) :
    ((List.range n).flatMap f).sum = ∑ i ∈ Finset.range n, (f i).sum := by
  induction n with
  | zero => simp
  | succ n ih => simp [List.range_succ, List.flatMap_append, Finset.sum_range_succ, ih]

/-- the sub-tuple of `rs` at the positions in `A`, in increasing order of position -/
def subTuple {ρ} [Inhabited ρ] (rs : List ρ) (A : Finset ℕ) : List ρ :=
  (A.sort (· ≤ ·)).map fun j => rs.getD j default

theorem uncentred_singleton {ρ} (raw : List ρ → ℚ) (permute : Bool) (r : ρ) :
    uncentred raw permute [r] = raw [r] := by
  cases permute <;>
  simp [uncentred, permuted, perms, insertEverywhere, sumV, factorial]

theorem accumulate_center_eq {ρ} [Inhabited ρ] (raw : List ρ → ℚ) (permute : Bool) (rs : List ρ)
    (hk : 2 ≤ rs.length) :
    accumulateModel raw true permute rs =
      ∑ A ∈ (Finset.range rs.length).powerset,
        (-1 : ℚ) ^ (rs.length - A.card) * uncentred raw permute (subTuple rs A) *
          ∏ j ∈ Finset.range rs.length \ A, uncentred raw true [rs.getD j default] := by
  unfold accumulateModel
  have h1 : (true = true ∧ rs.length > 1) := ⟨rfl, hk⟩
  simp only [h1]
  rw [sumV_eq_sum, sum_flatMap_range, Finset.sum_powerset, Finset.card_range]
  refine Finset.sum_congr rfl fun i _ => ?_
  rw [← sum_combinations]
  congr 1
  refine List.map_congr_left fun idx hidx => ?_
  have hp := pairwise_of_mem_combinations hidx
  obtain ⟨hs, hl⟩ := mem_combinations.mp hidx
  have hcard : idx.toFinset.card = i := by
    rw [List.toFinset_card_of_nodup (hp.imp (fun h => ne_of_lt h)), hl]
  simp only [smul_rat, mul_rat, subTuple, sort_toFinset_of_mem_combinations hidx, hcard,
    prodV_eq_prod]
  rw [mul_assoc]
  congr 2
  have hset : ((List.range rs.length).filter fun j => !idx.contains j).toFinset
      = Finset.range rs.length \ idx.toFinset := by
    ext j; simp
  rw [← hset, List.prod_toFinset _ (List.nodup_range.filter _)]
  congr 1
  refine List.map_congr_left fun j hj => ?_
  have hj' : j < rs.length := by simpa using (List.mem_filter.mp hj).1
  simp [List.getD_eq_getElem?_getD, hj']
/-! ## 3. Probabilistic reading -/

section Prob
variable {ι 𝔸 : Type*} [DecidableEq ι] [CommRing 𝔸] [Algebra ℚ 𝔸]

theorem center_expansion_finset (Ex : 𝔸 →ₗ[ℚ] ℚ) (s : Finset ι) (X : ι → 𝔸) :
    ∑ A ∈ s.powerset, (-1 : ℚ) ^ (s.card - A.card) * Ex (∏ j ∈ A, X j) * ∏ j ∈ s \ A, Ex (X j)
      = Ex (∏ j ∈ s, (X j - algebraMap ℚ 𝔸 (Ex (X j)))) := by
  simp only [sub_eq_add_neg]
  rw [Finset.prod_add, map_sum]
  refine Finset.sum_congr rfl fun A hA => ?_
  have hA' : A ⊆ s := Finset.mem_powerset.mp hA
  have h1 : ∏ j ∈ s \ A, -(algebraMap ℚ 𝔸 (Ex (X j)))
      = ((-1 : ℚ) ^ (s.card - A.card) * ∏ j ∈ s \ A, Ex (X j)) • (1 : 𝔸) := by
    rw [Finset.prod_neg, ← map_prod, Finset.card_sdiff_of_subset hA', Algebra.smul_def, mul_one,
      map_mul, map_pow, map_neg, map_one]
  rw [h1, mul_smul_comm, mul_one, map_smul, smul_eq_mul]
  ring

theorem center_expansion {k : ℕ} (Ex : 𝔸 →ₗ[ℚ] ℚ) (X : Fin k → 𝔸) :
    ∑ A ∈ (Finset.univ : Finset (Fin k)).powerset,
        (-1 : ℚ) ^ (k - A.card) * Ex (∏ j ∈ A, X j) * ∏ j ∈ Aᶜ, Ex (X j)
      = Ex (∏ j, (X j - algebraMap ℚ 𝔸 (Ex (X j)))) := by
  have := center_expansion_finset Ex (Finset.univ : Finset (Fin k)) X
  simpa [Finset.compl_eq_univ_sdiff] using this

/-- covariance: `E[(X - EX)(Y - EY)] = E[XY] - EX EY` -/
theorem central_two (Ex : 𝔸 →ₗ[ℚ] ℚ) (hEx : Ex 1 = 1) (X Y : 𝔸) :
    Ex ((X - algebraMap ℚ 𝔸 (Ex X)) * (Y - algebraMap ℚ 𝔸 (Ex Y))) = Ex (X * Y) - Ex X * Ex Y := by
  have : (X - algebraMap ℚ 𝔸 (Ex X)) * (Y - algebraMap ℚ 𝔸 (Ex Y))
      = X * Y - (Ex Y) • X - (Ex X) • Y + (Ex X * Ex Y) • (1 : 𝔸) := by
    simp only [Algebra.smul_def, map_mul]; ring
  rw [this]; simp [hEx]; ring

/-- variance: `E[(X - EX)^2] = E[X^2] - (EX)^2` -/
theorem central_two_self (Ex : 𝔸 →ₗ[ℚ] ℚ) (hEx : Ex 1 = 1) (X : 𝔸) :
    Ex ((X - algebraMap ℚ 𝔸 (Ex X)) ^ 2) = Ex (X ^ 2) - Ex X ^ 2 := by
  rw [pow_two, central_two Ex hEx, pow_two, pow_two]

/-- third central moment: `E[(X - EX)^3] = E[X^3] - 3 E[X^2] EX + 2 (EX)^3` -/
theorem central_three_self (Ex : 𝔸 →ₗ[ℚ] ℚ) (hEx : Ex 1 = 1) (X : 𝔸) :
    Ex ((X - algebraMap ℚ 𝔸 (Ex X)) ^ 3) = Ex (X ^ 3) - 3 * Ex (X ^ 2) * Ex X + 2 * Ex X ^ 3 := by
  have : (X - algebraMap ℚ 𝔸 (Ex X)) ^ 3
      = X ^ 3 - (3 * Ex X) • X ^ 2 + (3 * Ex X ^ 2) • X - (Ex X ^ 3) • (1 : 𝔸) := by
    simp only [Algebra.smul_def, map_mul, map_pow, map_ofNat]; ring
  rw [this]; simp [hEx]; ring

end Prob

/-! ### the model's centred moment is the central moment -/

theorem subTuple_empty {ρ} [Inhabited ρ] (rs : List ρ) : subTuple rs ∅ = [] := by
  simp [subTuple]

theorem subTuple_singleton {ρ} [Inhabited ρ] (rs : List ρ) (j : ℕ) :
    subTuple rs {j} = [rs.getD j default] := by
  simp [subTuple]

/-- If the (optionally permuted) raw moments are the mixed moments `E[∏_{j∈A} X_j]` of random
variables `X_j`, then the centred `accumulate` is the central mixed moment `E[∏_j (X_j - E X_j)]`. -/
theorem accumulate_center_eq_central_moment {ρ 𝔸} [Inhabited ρ] [CommRing 𝔸] [Algebra ℚ 𝔸]
    (raw : List ρ → ℚ) (permute : Bool) (rs : List ρ) (hk : 2 ≤ rs.length)
    (Ex : 𝔸 →ₗ[ℚ] ℚ) (X : ℕ → 𝔸)
    (hm : ∀ A ⊆ Finset.range rs.length,
      uncentred raw permute (subTuple rs A) = Ex (∏ j ∈ A, X j)) :
    accumulateModel raw true permute rs
      = Ex (∏ j ∈ Finset.range rs.length, (X j - algebraMap ℚ 𝔸 (Ex (X j)))) := by
  rw [accumulate_center_eq raw permute rs hk, ← center_expansion_finset]
  refine Finset.sum_congr rfl fun A hA => ?_
  have hA' := Finset.mem_powerset.mp hA
  rw [hm A hA', Finset.card_range]
  congr 1
  refine Finset.prod_congr rfl fun j hj => ?_
  have hj' : j ∈ Finset.range rs.length := (Finset.mem_sdiff.mp hj).1
  have := hm {j} (by simpa using hj')
  rw [subTuple_singleton, uncentred_singleton] at this
  rw [uncentred_singleton, this]; simp

/-! ### explicit small cases -/

theorem accumulate_center_two {ρ} [Inhabited ρ] (raw : List ρ → ℚ) (permute : Bool) (a b : ρ) :
    accumulateModel raw true permute [a, b]
      = uncentred raw permute [a, b] - raw [a] * raw [b] := by
  have e1 : ∀ r, uncentred raw permute [r] = raw [r] := uncentred_singleton raw permute
  have e2 : ∀ r, uncentred raw true [r] = raw [r] := uncentred_singleton raw true
  have e0 : uncentred raw permute [] = 1 := by simp [uncentred]
  simp [accumulateModel, combinations, List.range_succ, sumV, prodV, e1, e2, e0]
  ring

theorem accumulate_center_three {ρ} [Inhabited ρ] (raw : List ρ → ℚ) (permute : Bool) (a b c : ρ) :
    accumulateModel raw true permute [a, b, c]
      = uncentred raw permute [a, b, c] - uncentred raw permute [a, b] * raw [c]
        - uncentred raw permute [a, c] * raw [b] - uncentred raw permute [b, c] * raw [a]
        + 2 * raw [a] * raw [b] * raw [c] := by
  have e1 : ∀ r, uncentred raw permute [r] = raw [r] := uncentred_singleton raw permute
  have e2 : ∀ r, uncentred raw true [r] = raw [r] := uncentred_singleton raw true
  have e0 : uncentred raw permute [] = 1 := by simp [uncentred]
  simp [accumulateModel, combinations, List.range_succ, sumV, prodV, e1, e2, e0]
  ring

/-- variance -/
theorem accumulate_variance {ρ} [Inhabited ρ] (raw : List ρ → ℚ) (permute : Bool) (r : ρ) :
    accumulateModel raw true permute [r, r] = uncentred raw permute [r, r] - raw [r] ^ 2 := by
  rw [accumulate_center_two, pow_two]

/-- third central moment -/
theorem accumulate_third_central {ρ} [Inhabited ρ] (raw : List ρ → ℚ) (permute : Bool) (r : ρ) :
    accumulateModel raw true permute [r, r, r]
      = uncentred raw permute [r, r, r] - 3 * uncentred raw permute [r, r] * raw [r]
        + 2 * raw [r] ^ 3 := by
  rw [accumulate_center_three]; ring
/-! ## 4. Symmetry -/

theorem permuted_perm {ρ} (raw : List ρ → ℚ) {rs rs' : List ρ} (h : rs.Perm rs') :
    permuted raw rs = permuted raw rs' := by
  unfold permuted
  rw [h.length_eq, sumV_eq_sum, sumV_eq_sum, ((perms_perm h).map raw).sum_eq]

theorem uncentred_true_perm {ρ} (raw : List ρ → ℚ) {rs rs' : List ρ} (h : rs.Perm rs') :
    uncentred raw true rs = uncentred raw true rs' := by
  unfold uncentred
  rw [permuted_perm raw h, h.isEmpty_eq]
  simp

/-- the permuted uncentred moment as a function of the multiset of rewards -/
def Mt {ρ} (raw : List ρ → ℚ) : Multiset ρ → ℚ :=
  Quotient.lift (uncentred raw true) (fun _ _ h => uncentred_true_perm raw h)

theorem Mt_coe {ρ} (raw : List ρ → ℚ) (l : List ρ) : Mt raw (l : Multiset ρ) = uncentred raw true l :=
  rfl

theorem antidiagonal_map {α β} (f : α → β) (s : Multiset α) :
    (s.map f).antidiagonal = s.antidiagonal.map (Prod.map (Multiset.map f) (Multiset.map f)) := by
  induction s using Multiset.induction_on with
  | empty => simp
  | cons a s ih =>
    simp only [Multiset.map_cons, Multiset.antidiagonal_cons, ih, Multiset.map_add,
      Multiset.map_map]
    congr 1 <;> refine Multiset.map_congr rfl fun p _ => ?_ <;> simp [Prod.map]

theorem map_val_val_powerset {α} (s : Finset α) :
    s.powerset.val.map Finset.val = s.1.powerset := by
  simp [Finset.powerset, Multiset.map_pmap, Multiset.pmap_eq_map, Multiset.map_id']

theorem map_getD_range {ρ} [Inhabited ρ] (rs : List ρ) :
    (List.range rs.length).map (fun j => rs.getD j default) = rs := by
  apply List.ext_getElem
  · simp
  · intro i h1 h2
    simp [List.getD_eq_getElem?_getD, h2]

/-- position-free form of the centred, permuted `accumulate`: a sum over all ways of splitting
the multiset of rewards into a "centred-away" part and a "kept" part. -/
theorem accumulate_center_eq_antidiagonal {ρ} [Inhabited ρ] (raw : List ρ → ℚ) (rs : List ρ)
    (hk : 2 ≤ rs.length) :
    accumulateModel raw true true rs =
      ((Multiset.antidiagonal (rs : Multiset ρ)).map fun p =>
        (-1 : ℚ) ^ (Multiset.card p.1) * (p.1.map fun r => raw [r]).prod * Mt raw p.2).sum := by
  classical
  rw [accumulate_center_eq raw true rs hk]
  have hrs : (rs : Multiset ρ) = (Multiset.range rs.length).map fun j => rs.getD j default := by
    conv_lhs => rw [← map_getD_range rs]
    rfl
  rw [hrs, antidiagonal_map, Multiset.antidiagonal_eq_map_powerset, Multiset.map_map,
    Multiset.map_map, ← Finset.range_val, ← map_val_val_powerset, Multiset.map_map]
  rw [Finset.sum_eq_multiset_sum]
  congr 1
  refine Multiset.map_congr rfl fun A hA => ?_
  have hA' : A ⊆ Finset.range rs.length := Finset.mem_powerset.mp (Finset.mem_val.mp hA)
  simp only [Function.comp, Prod.map, Multiset.card_map, ← Finset.sdiff_val, Finset.card_val,
    Multiset.map_map, uncentred_singleton]
  rw [Finset.card_sdiff_of_subset hA', Finset.card_range]
  have h2 : Mt raw (A.val.map fun j => rs.getD j default) = uncentred raw true (subTuple rs A) := by
    rw [← Mt_coe, subTuple, ← Multiset.map_coe, Finset.sort_eq]
  rw [h2, Finset.prod_eq_multiset_prod]
  ring

theorem accumulate_perm {ρ} [Inhabited ρ] (raw : List ρ → ℚ) (center : Bool) {rs rs' : List ρ}
    (h : rs.Perm rs') :
    accumulateModel raw center true rs = accumulateModel raw center true rs' := by
  by_cases hc : center = true ∧ rs.length > 1
  · obtain ⟨rfl, hk⟩ := hc
    rw [accumulate_center_eq_antidiagonal raw rs hk,
      accumulate_center_eq_antidiagonal raw rs' (h.length_eq ▸ hk),
      show (rs : Multiset ρ) = (rs' : Multiset ρ) from Quotient.sound h]
  · have hc' : ¬ (center = true ∧ rs'.length > 1) := h.length_eq ▸ hc
    simp only [accumulateModel, hc, hc', if_false]
    exact uncentred_true_perm raw h

theorem accumulate_swap {ρ} [Inhabited ρ] (raw : List ρ → ℚ) (center : Bool) (a b : ρ) :
    accumulateModel raw center true [a, b] = accumulateModel raw center true [b, a] :=
  accumulate_perm raw center (List.Perm.swap b a [])
/-! ## 5. Linearity in a reward slot -/

section Linear
variable {ρ : Type*} (add : ρ → ρ → ρ) (raw : List ρ → ℚ)

/-- `raw` is additive in every reward slot, for the formal sum `add` of rewards -/
def SlotAdditive : Prop :=
  ∀ (l₁ : List ρ) (a b : ρ) (l₂ : List ρ),
    raw (l₁ ++ add a b :: l₂) = raw (l₁ ++ a :: l₂) + raw (l₁ ++ b :: l₂)

variable {add raw}

theorem sum_insertEverywhere_add (h : SlotAdditive add raw) (pre q : List ρ) (a b : ρ) :
    ((insertEverywhere (add a b) q).map fun p => raw (pre ++ p)).sum
      = ((insertEverywhere a q).map fun p => raw (pre ++ p)).sum
        + ((insertEverywhere b q).map fun p => raw (pre ++ p)).sum := by
  induction q generalizing pre with
  | nil => simp [insertEverywhere, h pre a b []]
  | cons y ys ih =>
    simp only [insertEverywhere, List.map_cons, List.sum_cons, List.map_map, Function.comp_def]
    have := ih (pre ++ [y])
    simp only [List.append_assoc, List.singleton_append] at this
    rw [h, this]; ring

theorem sum_map_flatMap_mo {α β} (L : List α) (f : α → List β) (g : β → ℚ) :
    ((L.flatMap f).map g).sum = (L.map fun x => ((f x).map g).sum).sum := by
  induction L with
  | nil => simp
  | cons x xs ih => simp [List.flatMap_cons, ih]

theorem sum_perms_cons_add (h : SlotAdditive add raw) (l : List ρ) (a b : ρ) :
    ((perms (add a b :: l)).map raw).sum
      = ((perms (a :: l)).map raw).sum + ((perms (b :: l)).map raw).sum := by
  simp only [perms, sum_map_flatMap_mo]
  rw [← List.sum_map_add]
  congr 1
  refine List.map_congr_left fun q _ => ?_
  simpa using sum_insertEverywhere_add h [] q a b

theorem permuted_add (h : SlotAdditive add raw) (l₁ l₂ : List ρ) (a b : ρ) :
    permuted raw (l₁ ++ add a b :: l₂)
      = permuted raw (l₁ ++ a :: l₂) + permuted raw (l₁ ++ b :: l₂) := by
  rw [permuted_perm raw (List.perm_middle (a := add a b) (l₁ := l₁) (l₂ := l₂)),
    permuted_perm raw (List.perm_middle (a := a) (l₁ := l₁) (l₂ := l₂)),
    permuted_perm raw (List.perm_middle (a := b) (l₁ := l₁) (l₂ := l₂))]
  simp only [permuted, sumV_eq_sum, smul_rat, List.length_cons, sum_perms_cons_add h]
  ring

/-- `accumulate(…, center=False, permute)` is additive in every reward slot if `raw` is. -/
theorem uncentred_add (h : SlotAdditive add raw) (permute : Bool) (l₁ l₂ : List ρ) (a b : ρ) :
    uncentred raw permute (l₁ ++ add a b :: l₂)
      = uncentred raw permute (l₁ ++ a :: l₂) + uncentred raw permute (l₁ ++ b :: l₂) := by
  cases permute
  · simp [uncentred, h l₁ a b l₂]
  · simp [uncentred, permuted_add h]

end Linear

/-! ## 6. SFS assembly -/

theorem length_padSFS (n : ℕ) (ms : List ℚ) (h : ms.length ≤ n) : (padSFS n ms).length = n + 1 := by
  simp [padSFS]; omega

theorem padSFS_zero (n : ℕ) (ms : List ℚ) : getR (padSFS n ms) 0 = 0 := by
  simp [padSFS, getR]

theorem padSFS_inner (n : ℕ) (ms : List ℚ) (i : ℕ) (h1 : 1 ≤ i) (h2 : i ≤ ms.length) :
    getR (padSFS n ms) i = getR ms (i - 1) := by
  obtain ⟨j, rfl⟩ : ∃ j, i = j + 1 := ⟨i - 1, by omega⟩
  have hj : j < ms.length := by omega
  simp [padSFS, getR, List.getD_eq_getElem?_getD, List.getElem?_append_left, hj]

theorem padSFS_beyond (n : ℕ) (ms : List ℚ) (i : ℕ) (h : ms.length < i) :
    getR (padSFS n ms) i = 0 := by
  obtain ⟨j, rfl⟩ : ∃ j, i = j + 1 := ⟨i - 1, by omega⟩
  have hj : ms.length ≤ j := by omega
  simp only [padSFS, getR, List.getD_eq_getElem?_getD, List.cons_append, List.nil_append,
    List.getElem?_cons_succ]
  rw [List.getElem?_append_right hj]
  by_cases hlt : j - ms.length < n - ms.length
  · simp [hlt]
  · simp [List.getElem?_eq_none (l := List.replicate (n - ms.length) (0 : ℚ)) (by simpa using hlt)]

/-- unfolded spectrum: `ms` has the `n - 1` entries for `i = 1 … n-1`; entry `n` is 0 -/
theorem padSFS_last (n : ℕ) (ms : List ℚ) (h : ms.length = n - 1) (hn : 1 ≤ n) :
    getR (padSFS n ms) n = 0 :=
  padSFS_beyond n ms n (by omega)

/-- folded spectrum: `ms` has the `n / 2` entries for `i = 1 … n/2`; all entries above are 0 -/
theorem padSFS_folded (n : ℕ) (ms : List ℚ) (h : ms.length = n / 2) (i : ℕ) (hi : n / 2 < i) :
    getR (padSFS n ms) i = 0 :=
  padSFS_beyond n ms i (by omega)

/-- entry `(i, j)` of `covSFS` -/
def covEntry (n : ℕ) (idx : List ℕ) (x : ℕ → ℕ → ℚ) (mean : List ℚ) (i j : ℕ) : ℚ :=
  getR ((covSFS n idx x mean).getD i []) j

theorem covSFS_length (n : ℕ) (idx : List ℕ) (x : ℕ → ℕ → ℚ) (mean : List ℚ) :
    (covSFS n idx x mean).length = n + 1 := by simp [covSFS]

theorem covSFS_row_length (n : ℕ) (idx : List ℕ) (x : ℕ → ℕ → ℚ) (mean : List ℚ) (i : ℕ)
    (hi : i ≤ n) : ((covSFS n idx x mean).getD i []).length = n + 1 := by
  have : i < n + 1 := by omega
  simp [covSFS, List.getD_eq_getElem?_getD, this]

theorem covEntry_eq (n : ℕ) (idx : List ℕ) (x : ℕ → ℕ → ℚ) (mean : List ℚ) (i j : ℕ)
    (hi : i ≤ n) (hj : j ≤ n) :
    covEntry n idx x mean i j =
      ((if i ∈ idx ∧ j ∈ idx then x i j else 0) + (if j ∈ idx ∧ i ∈ idx then x j i else 0)) / 2
        - getR mean i * getR mean j := by
  have hi' : i < n + 1 := by omega
  have hj' : j < n + 1 := by omega
  simp [covEntry, covSFS, getR, List.getD_eq_getElem?_getD, hi', hj']

theorem covSFS_symm (n : ℕ) (idx : List ℕ) (x : ℕ → ℕ → ℚ) (mean : List ℚ) (i j : ℕ)
    (hi : i ≤ n) (hj : j ≤ n) :
    covEntry n idx x mean i j = covEntry n idx x mean j i := by
  rw [covEntry_eq _ _ _ _ _ _ hi hj, covEntry_eq _ _ _ _ _ _ hj hi]; ring

theorem covSFS_diag (n : ℕ) (idx : List ℕ) (x : ℕ → ℕ → ℚ) (mean : List ℚ) (i : ℕ)
    (hi : i ≤ n) (hmem : i ∈ idx) :
    covEntry n idx x mean i i = x i i - getR mean i ^ 2 := by
  rw [covEntry_eq _ _ _ _ _ _ hi hi]; simp [hmem]; ring

theorem covSFS_inside (n : ℕ) (idx : List ℕ) (x : ℕ → ℕ → ℚ) (mean : List ℚ) (i j : ℕ)
    (hi : i ≤ n) (hj : j ≤ n) (hmi : i ∈ idx) (hmj : j ∈ idx) :
    covEntry n idx x mean i j = (x i j + x j i) / 2 - getR mean i * getR mean j := by
  rw [covEntry_eq _ _ _ _ _ _ hi hj]; simp [hmi, hmj]

theorem covSFS_outside (n : ℕ) (idx : List ℕ) (x : ℕ → ℕ → ℚ) (mean : List ℚ) (i j : ℕ)
    (hi : i ≤ n) (hj : j ≤ n) (hout : i ∉ idx ∨ j ∉ idx) :
    covEntry n idx x mean i j = - (getR mean i * getR mean j) := by
  rw [covEntry_eq _ _ _ _ _ _ hi hj]
  rcases hout with h | h <;> simp [h]

theorem covSFS_outside_zero (n : ℕ) (idx : List ℕ) (x : ℕ → ℕ → ℚ) (mean : List ℚ) (i j : ℕ)
    (hi : i ≤ n) (hj : j ≤ n) (hout : i ∉ idx ∨ j ∉ idx)
    (hmean : ∀ a, a ∉ idx → getR mean a = 0) :
    covEntry n idx x mean i j = 0 := by
  rw [covSFS_outside _ _ _ _ _ _ hi hj hout]
  rcases hout with h | h <;> simp [hmean _ h]
/-! ## Transfer to one value per query time (`MomVal (ℕ → ℚ)`) -/

theorem sumV_apply (l : List (ℕ → ℚ)) (t : ℕ) : sumV l t = sumV (l.map (· t)) := by
  unfold sumV
  have : ∀ (acc : ℕ → ℚ), (l.foldl MomVal.add acc) t
      = (l.map (· t)).foldl MomVal.add (acc t) := by
    induction l with
    | nil => intro acc; rfl
    | cons x xs ih => intro acc; simp only [List.foldl_cons, List.map_cons]; rw [ih]; rfl
  exact this _

theorem prodV_apply (l : List (ℕ → ℚ)) (t : ℕ) : prodV l t = prodV (l.map (· t)) := by
  unfold prodV
  have : ∀ (acc : ℕ → ℚ), (l.foldl MomVal.mul acc) t
      = (l.map (· t)).foldl MomVal.mul (acc t) := by
    induction l with
    | nil => intro acc; rfl
    | cons x xs ih => intro acc; simp only [List.foldl_cons, List.map_cons]; rw [ih]; rfl
  exact this _

theorem permuted_apply {ρ} (raw : List ρ → ℕ → ℚ) (rs : List ρ) (t : ℕ) :
    permuted raw rs t = permuted (fun l => raw l t) rs := by
  unfold permuted
  show _ * (sumV ((perms rs).map raw) : ℕ → ℚ) t = _ * _
  rw [sumV_apply, List.map_map]; rfl

theorem uncentred_apply {ρ} (raw : List ρ → ℕ → ℚ) (permute : Bool) (rs : List ρ) (t : ℕ) :
    uncentred raw permute rs t = uncentred (fun l => raw l t) permute rs := by
  unfold uncentred
  split_ifs
  · rfl
  · exact permuted_apply raw rs t
  · rfl

/-- The time-indexed `accumulate` is the scalar `accumulate` at each time; all theorems above
transfer pointwise. -/
theorem accumulateModel_apply {ρ} [Inhabited ρ] (raw : List ρ → ℕ → ℚ) (center permute : Bool)
    (rs : List ρ) (t : ℕ) :
    accumulateModel raw center permute rs t
      = accumulateModel (fun l => raw l t) center permute rs := by
  unfold accumulateModel
  simp only
  split_ifs with h
  · rw [sumV_apply, List.map_flatMap]
    congr 1
    refine List.flatMap_congr fun i _ => ?_
    rw [List.map_map]
    refine List.map_congr_left fun idx _ => ?_
    simp only [Function.comp]
    show _ * (uncentred raw permute _ t * (prodV (V := ℕ → ℚ) _) t) = _ * (_ * _)
    rw [uncentred_apply, prodV_apply, List.map_map]
    congr 3
    refine List.map_congr_left fun j _ => ?_
    simp only [Function.comp, List.getD_eq_getElem?_getD, List.getElem?_map]
    cases rs[j]? with
    | none => rfl
    | some r => simp [uncentred_apply]
  · exact uncentred_apply raw permute rs t

end PG

#print axioms PG.length_perms
#print axioms PG.mem_perms
#print axioms PG.combinations_toFinset
#print axioms PG.combinations_map_toFinset_nodup
#print axioms PG.accumulate_center_eq
#print axioms PG.center_expansion
#print axioms PG.accumulate_center_eq_central_moment
#print axioms PG.accumulate_variance
#print axioms PG.accumulate_third_central
#print axioms PG.permuted_perm
#print axioms PG.accumulate_perm
#print axioms PG.uncentred_add
#print axioms PG.padSFS_beyond
#print axioms PG.covSFS_symm
#print axioms PG.covSFS_outside_zero
#print axioms PG.accumulateModel_apply
