/-
  PGProofs/MeanIncrement.lean

  Property C03, "the integral of `1 - cdf` reproduces the reported mean": the discrete skeleton.

  * `accum_increment` (four laws only): the first moment accumulated over one more factor is block
    `(0,1)` of the one-epoch Van Loan exponential applied to the distribution at the start of the
    factor.
  * `vanLoan_topRight_eq_integral` (real exponential, Van Loan 1978): that block is
    `∫₀^τ exp(sS) · diag r · exp((τ-s)S) ds`.
  * `mean_increment_eq_integral` (real exponential): within one epoch
    `mean(t+τ) - mean(t) = ∫₀^τ (1 - cdf(t+s)) ds`.
-/
import PGProofs.VanLoan
import Mathlib.MeasureTheory.Integral.IntervalIntegral.FundThmCalculus
import Mathlib.Analysis.Calculus.Deriv.Mul
import Mathlib.Analysis.Calculus.Deriv.Shift
import Mathlib.Analysis.Matrix.Normed

set_option linter.unusedSectionVars false

namespace PG

open Matrix

section Algebraic

variable {K : Type} [Field K] [LinearOrder K] [IsStrictOrderedRing K]
variable {ι : Type} [Fintype ι] [DecidableEq ι]

/-- Sum over the two blocks of `Fin 2 × ι`. -/
theorem sum_fin_two_block (f : Fin 2 × ι → K) :
    ∑ p, f p = ∑ c, f (0, c) + ∑ c, f (1, c) := by
  rw [Fintype.sum_prod_type, Fin.sum_univ_two]

/-- Block `(0,1)` of a product with one more Van Loan factor. -/
theorem evalFactors_vanLoan_snoc_topRight (L : ExpLaw K) (S : ℕ → Matrix ι ι K)
    (R : Fin 1 → ι → K) (fs : List (ℕ × K)) (e : ℕ) (τ : K) (i j : ι) :
    (evalFactors L (fun e => vanLoan (S e) R) (fs ++ [(e, τ)])) (0, i) (1, j)
      = ∑ c, (evalFactors L S fs) i c * (L.E (τ • vanLoan (S e) R)) (0, c) (1, j)
        + ∑ c, (evalFactors L (fun e => vanLoan (S e) R) fs) (0, i) (1, c) * (L.E (τ • S e)) c j := by
  rw [evalFactors_append, Matrix.mul_apply, sum_fin_two_block]
  have hl : (Fin.last 1 : Fin 2) = 1 := rfl
  congr 1
  · refine Finset.sum_congr rfl fun c _ => ?_
    rw [evalFactors_vanLoan_first_col, if_pos rfl]
    simp [evalFactors]
  · refine Finset.sum_congr rfl fun c _ => ?_
    have h := E_vanLoan_last_row L (S e) R τ c j (Fin.last 1)
    rw [if_pos rfl, hl] at h
    simp only [evalFactors, List.map_cons, List.map_nil, List.prod_cons, List.prod_nil, mul_one]
    rw [h]

/-- **Mean increment.**  The first moment accumulated by one more factor `(e, τ)` is block `(0,1)`
of the one-epoch Van Loan exponential, summed against the distribution `α · ∏ E(τᵢ Sᵢ)` at the
start of that factor: it depends on the past only through that distribution. -/
theorem accum_increment (L : ExpLaw K) (S : ℕ → Matrix ι ι K) (hrow : ∀ e i, ∑ j, S e i j = 0)
    (r : ι → K) (α : ι → K) (fs : List (ℕ × K)) (e : ℕ) (τ : K) :
    accumVal L S (fun _ : Fin 1 => r) α (fs ++ [(e, τ)]) - accumVal L S (fun _ : Fin 1 => r) α fs
      = ∑ i, ∑ j, (α ᵥ* evalFactors L S fs) i
          * (L.E (τ • vanLoan (S e) (fun _ : Fin 1 => r))) (0, i) (1, j) := by
  have hl : (Fin.last 1 : Fin 2) = 1 := rfl
  unfold accumVal
  simp only [Nat.factorial_one, Nat.cast_one, one_mul, hl]
  rw [← Finset.sum_sub_distrib]
  -- per `i`
  have hi : ∀ i, (∑ j, α i * (evalFactors L (fun e => vanLoan (S e) fun _ : Fin 1 => r)
        (fs ++ [(e, τ)])) (0, i) (1, j))
      - ∑ j, α i * (evalFactors L (fun e => vanLoan (S e) fun _ : Fin 1 => r) fs) (0, i) (1, j)
      = ∑ c, ∑ j, α i * (evalFactors L S fs) i c
          * (L.E (τ • vanLoan (S e) (fun _ : Fin 1 => r))) (0, c) (1, j) := by
    intro i
    simp only [evalFactors_vanLoan_snoc_topRight, mul_add, Finset.sum_add_distrib, Finset.mul_sum]
    have h2 : ∑ j, ∑ c, α i * ((evalFactors L (fun e => vanLoan (S e) fun _ : Fin 1 => r) fs)
          (0, i) (1, c) * (L.E (τ • S e)) c j)
        = ∑ c, α i * (evalFactors L (fun e => vanLoan (S e) fun _ : Fin 1 => r) fs) (0, i) (1, c) := by
      rw [Finset.sum_comm]
      refine Finset.sum_congr rfl fun c _ => ?_
      simp only [← mul_assoc]
      rw [← Finset.mul_sum, L.E_smul_rowsum (S e) (hrow e) τ c, mul_one]
    rw [h2, add_sub_cancel_right, Finset.sum_comm]
    refine Finset.sum_congr rfl fun c _ => Finset.sum_congr rfl fun j _ => ?_
    ring
  rw [Finset.sum_congr rfl fun i _ => hi i, Finset.sum_comm]
  refine Finset.sum_congr rfl fun c _ => ?_
  rw [Finset.sum_comm]
  refine Finset.sum_congr rfl fun j _ => ?_
  simp only [Matrix.vecMul, dotProduct, Finset.sum_mul]

end Algebraic

/-! ## The real exponential: Van Loan's integral formula -/

section RealExp

open NormedSpace

variable {κ : Type} [Fintype κ] [DecidableEq κ]
variable {ι : Type} [Fintype ι] [DecidableEq ι]

set_option backward.isDefEq.respectTransparency false in
/-- `d/du [exp(uV) exp((τ-u)W)] = exp(uV) (V - W) exp((τ-u)W)`. -/
theorem hasDerivAt_interp (V W : Matrix κ κ ℝ) (τ s : ℝ) :
    HasDerivAt (fun u : ℝ => exp (u • V) * exp ((τ - u) • W))
      (exp (s • V) * (V - W) * exp ((τ - s) • W)) s := by
  open scoped Matrix.Norms.Operator in
  have h1 := hasDerivAt_exp_smul_const V s
  have h2 := (hasDerivAt_exp_smul_const' W (τ - s)).comp_const_sub τ s
  have := h1.mul h2
  have heq : exp (s • V) * (V - W) * exp ((τ - s) • W)
      = exp (s • V) * V * exp ((τ - s) • W) + exp (s • V) * -(W * exp ((τ - s) • W)) := by
    simp only [mul_sub, sub_mul, mul_assoc, mul_neg]
    abel
  rw [heq]
  exact this

set_option backward.isDefEq.respectTransparency false in
theorem hasDerivAt_matrix_entry {F : ℝ → Matrix κ κ ℝ} {F' : Matrix κ κ ℝ} {t : ℝ}
    (h : HasDerivAt F F' t) (p q : κ) : HasDerivAt (fun u => F u p q) (F' p q) t := by
  open scoped Matrix.Norms.Operator in
  let L : Matrix κ κ ℝ →L[ℝ] ℝ := LinearMap.toContinuousLinearMap (Matrix.entryLinearMap ℝ ℝ p q)
  exact L.hasFDerivAt.comp_hasDerivAt t h

set_option backward.isDefEq.respectTransparency false in
theorem continuous_exp_smul_mat (S : Matrix κ κ ℝ) : Continuous fun s : ℝ => exp (s • S) := by
  open scoped Matrix.Norms.Operator in
  exact (differentiable_exp_smul_const ℝ S).continuous

/-- the exponential of the block-diagonal matrix has a zero block `(0,1)`. -/
theorem exp_vanLoan_zero_topRight (S : Matrix ι ι ℝ) (u : ℝ) (i j : ι) :
    (exp (u • vanLoan S (fun (_ : Fin 1) (_ : ι) => (0 : ℝ)))) (0, i) (1, j) = 0 := by
  have h := topRight_scale realExpLaw S (fun (_ : Fin 1) (_ : ι) => (0 : ℝ)) 0 u i j
  simp only [mul_zero, pow_one, zero_mul] at h
  exact h.symm

theorem exp_vanLoan_first_col (S : Matrix ι ι ℝ) (R : Fin 1 → ι → ℝ) (u : ℝ) (i j : ι) :
    (exp (u • vanLoan S R)) (0, i) (0, j) = (exp (u • S)) i j := by
  have h := E_vanLoan_first_col realExpLaw S R u i j 0
  rw [if_pos rfl] at h
  exact h

theorem exp_vanLoan_last_row (S : Matrix ι ι ℝ) (R : Fin 1 → ι → ℝ) (u : ℝ) (i j : ι) :
    (exp (u • vanLoan S R)) (1, i) (1, j) = (exp (u • S)) i j := by
  have h := E_vanLoan_last_row realExpLaw S R u i j (Fin.last 1)
  rw [if_pos rfl] at h
  exact h

/-- block `(0,1)` of `exp(sV) (V - W) exp(uW)`, `V` the Van Loan matrix and `W` its block-diagonal
part. -/
theorem interp_entry (S : Matrix ι ι ℝ) (r : ι → ℝ) (s u : ℝ) (i j : ι) :
    (exp (s • vanLoan S (fun _ : Fin 1 => r))
        * (vanLoan S (fun _ : Fin 1 => r) - vanLoan S (fun (_ : Fin 1) (_ : ι) => (0 : ℝ)))
        * exp (u • vanLoan S (fun (_ : Fin 1) (_ : ι) => (0 : ℝ)))) (0, i) (1, j)
      = (exp (s • S) * Matrix.diagonal r * exp (u • S)) i j := by
  have hN0 : ∀ l m : ι, (vanLoan S (fun _ : Fin 1 => r)
      - vanLoan S (fun (_ : Fin 1) (_ : ι) => (0 : ℝ))) (0, l) (1, m) = if l = m then r l else 0 := by
    intro l m
    rw [Matrix.sub_apply]
    have h1 := vanLoan_super S (fun _ : Fin 1 => r) (0 : Fin 1) l m
    have h2 := vanLoan_super S (fun (_ : Fin 1) (_ : ι) => (0 : ℝ)) (0 : Fin 1) l m
    simp only [Fin.castSucc_zero, Fin.succ_zero_eq_one] at h1 h2
    rw [h1, h2]
    simp
  have hN1 : ∀ l m : ι, (vanLoan S (fun _ : Fin 1 => r)
      - vanLoan S (fun (_ : Fin 1) (_ : ι) => (0 : ℝ))) (1, l) (1, m) = 0 := by
    intro l m
    rw [Matrix.sub_apply, vanLoan_diag, vanLoan_diag, sub_self]
  have hAN : ∀ m : ι, (exp (s • vanLoan S (fun _ : Fin 1 => r))
        * (vanLoan S (fun _ : Fin 1 => r) - vanLoan S (fun (_ : Fin 1) (_ : ι) => (0 : ℝ))))
        (0, i) (1, m) = (exp (s • S)) i m * r m := by
    intro m
    rw [Matrix.mul_apply, sum_fin_two_block]
    simp only [hN0, hN1, mul_zero, Finset.sum_const_zero, add_zero, exp_vanLoan_first_col]
    simp
  rw [Matrix.mul_apply, sum_fin_two_block]
  simp only [exp_vanLoan_zero_topRight, mul_zero, Finset.sum_const_zero, zero_add,
    exp_vanLoan_last_row, hAN]
  rw [Matrix.mul_apply]
  refine Finset.sum_congr rfl fun m _ => ?_
  rw [Matrix.mul_diagonal]

theorem continuous_vanLoan_integrand (S : Matrix ι ι ℝ) (r : ι → ℝ) (τ : ℝ) (i j : ι) :
    Continuous fun s : ℝ => (exp (s • S) * Matrix.diagonal r * exp ((τ - s) • S)) i j := by
  have c1 := continuous_exp_smul_mat S
  have c2 : Continuous fun s : ℝ => exp ((τ - s) • S) :=
    c1.comp (continuous_const.sub continuous_id)
  exact ((c1.matrix_mul continuous_const).matrix_mul c2).matrix_elem i j

/-- **Van Loan (1978)** for the real matrix exponential: block `(0,1)` of
`exp (τ · [[S, diag r], [0, S]])` is `∫₀^τ exp(sS) · diag r · exp((τ-s)S) ds`. -/
theorem vanLoan_topRight_eq_integral (S : Matrix ι ι ℝ) (r : ι → ℝ) (τ : ℝ) (i j : ι) :
    (exp (τ • vanLoan S (fun _ : Fin 1 => r))) (0, i) (1, j)
      = ∫ s in (0 : ℝ)..τ, (exp (s • S) * Matrix.diagonal r * exp ((τ - s) • S)) i j := by
  have hd : ∀ s ∈ Set.uIcc (0 : ℝ) τ,
      HasDerivAt (fun u : ℝ => (exp (u • vanLoan S (fun _ : Fin 1 => r))
          * exp ((τ - u) • vanLoan S (fun (_ : Fin 1) (_ : ι) => (0 : ℝ)))) (0, i) (1, j))
        ((exp (s • S) * Matrix.diagonal r * exp ((τ - s) • S)) i j) s := by
    intro s _
    have := hasDerivAt_matrix_entry (hasDerivAt_interp (vanLoan S (fun _ : Fin 1 => r))
      (vanLoan S (fun (_ : Fin 1) (_ : ι) => (0 : ℝ))) τ s) (0, i) (1, j)
    rwa [interp_entry] at this
  rw [intervalIntegral.integral_eq_sub_of_hasDerivAt hd
    ((continuous_vanLoan_integrand S r τ i j).intervalIntegrable 0 τ)]
  simp only [sub_self, zero_smul, exp_zero, mul_one, one_mul, sub_zero]
  rw [exp_vanLoan_zero_topRight, sub_zero]

theorem realExpLaw_E (A : Matrix κ κ ℝ) : realExpLaw.E A = exp A := rfl

/-- `1 - cdf` a time `s` into the epoch, written with the Van Loan integrand (row sums of
`exp((τ-s)S)` are `1`). -/
theorem one_sub_cdf_eq (S : ℕ → Matrix ι ι ℝ) (hrow : ∀ e i, ∑ j, S e i j = 0) (r α : ι → ℝ)
    (fs : List (ℕ × ℝ)) (e : ℕ) (τ s : ℝ) :
    1 - cdfVal realExpLaw S α r (fs ++ [(e, s)])
      = ∑ i, ∑ j, (α ᵥ* evalFactors realExpLaw S fs) i
          * (exp (s • S e) * Matrix.diagonal r * exp ((τ - s) • S e)) i j := by
  have h1 : evalFactors realExpLaw S [(e, s)] = exp (s • S e) := by
    simp [evalFactors, realExpLaw_E]
  have hX : exp ((τ - s) • S e) *ᵥ (1 : ι → ℝ) = 1 := by
    funext i
    simpa [Matrix.mulVec, dotProduct, realExpLaw_E] using
      realExpLaw.E_smul_rowsum (S e) (hrow e) (τ - s) i
  have hD : Matrix.diagonal r *ᵥ (1 : ι → ℝ) = r := by
    funext i; simp [Matrix.mulVec_diagonal]
  have hM : ∀ i, ∑ j, (exp (s • S e) * Matrix.diagonal r * exp ((τ - s) • S e)) i j
      = (exp (s • S e) *ᵥ r) i := by
    intro i
    have : (exp (s • S e) * Matrix.diagonal r * exp ((τ - s) • S e)) *ᵥ (1 : ι → ℝ)
        = exp (s • S e) *ᵥ r := by
      rw [← Matrix.mulVec_mulVec, ← Matrix.mulVec_mulVec, hX, hD]
    have := congrFun this i
    simpa [Matrix.mulVec, dotProduct] using this
  rw [cdfVal_eq_dot, sub_sub_cancel, evalFactors_append, h1, ← Matrix.mulVec_mulVec,
    Matrix.dotProduct_mulVec]
  simp only [← Finset.mul_sum, hM]
  rfl

/-- **Mean increment = integral of the survival function** (real exponential, within one epoch):
`mean(t + τ) - mean(t) = ∫₀^τ (1 - cdf(t + s)) ds`, where the reward of the first moment and the
exit vector of the cdf are the same vector `r` (for the tree height: the indicator of the
non-absorbing states). -/
theorem mean_increment_eq_integral (S : ℕ → Matrix ι ι ℝ) (hrow : ∀ e i, ∑ j, S e i j = 0)
    (r α : ι → ℝ) (fs : List (ℕ × ℝ)) (e : ℕ) (τ : ℝ) :
    accumVal realExpLaw S (fun _ : Fin 1 => r) α (fs ++ [(e, τ)])
        - accumVal realExpLaw S (fun _ : Fin 1 => r) α fs
      = ∫ s in (0 : ℝ)..τ, (1 - cdfVal realExpLaw S α r (fs ++ [(e, s)])) := by
  rw [accum_increment realExpLaw S hrow r α fs e τ]
  have hpt : (fun s : ℝ => 1 - cdfVal realExpLaw S α r (fs ++ [(e, s)]))
      = fun s : ℝ => ∑ i, ∑ j, (α ᵥ* evalFactors realExpLaw S fs) i
          * (exp (s • S e) * Matrix.diagonal r * exp ((τ - s) • S e)) i j :=
    funext fun s => one_sub_cdf_eq S hrow r α fs e τ s
  rw [hpt]
  have hc : ∀ i j, Continuous fun s : ℝ => (α ᵥ* evalFactors realExpLaw S fs) i
      * (exp (s • S e) * Matrix.diagonal r * exp ((τ - s) • S e)) i j :=
    fun i j => continuous_const.mul (continuous_vanLoan_integrand (S e) r τ i j)
  rw [intervalIntegral.integral_finsetSum (fun i _ =>
    (continuous_finsetSum _ fun j _ => hc i j).intervalIntegrable 0 τ)]
  refine Finset.sum_congr rfl fun i _ => ?_
  rw [intervalIntegral.integral_finsetSum (fun j _ => (hc i j).intervalIntegrable 0 τ)]
  refine Finset.sum_congr rfl fun j _ => ?_
  rw [intervalIntegral.integral_const_mul, ← vanLoan_topRight_eq_integral, realExpLaw_E]

/-- the same for the tree-height reward `indVec N` (`N` the non-absorbing states). -/
theorem mean_increment_eq_integral_indVec (S : ℕ → Matrix ι ι ℝ) (hrow : ∀ e i, ∑ j, S e i j = 0)
    (N : Finset ι) (α : ι → ℝ) (fs : List (ℕ × ℝ)) (e : ℕ) (τ : ℝ) :
    accumVal realExpLaw S (fun _ : Fin 1 => indVec N) α (fs ++ [(e, τ)])
        - accumVal realExpLaw S (fun _ : Fin 1 => indVec N) α fs
      = ∫ s in (0 : ℝ)..τ, (1 - cdfVal realExpLaw S α (indVec N) (fs ++ [(e, s)])) :=
  mean_increment_eq_integral S hrow (indVec N) α fs e τ

end RealExp

end PG

#print axioms PG.accum_increment
#print axioms PG.vanLoan_topRight_eq_integral
#print axioms PG.mean_increment_eq_integral
#print axioms PG.mean_increment_eq_integral_indVec
