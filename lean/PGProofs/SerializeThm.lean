/-
PGProofs.SerializeThm — C18 on the bookkeeping model: with a lossless codec, a save/load cycle returns an
object that answers every statistic like the original (whether or not it had been computed before saving),
saving leaves the original untouched, and repeated cycles change nothing.
-/
import PGModel.Serialize
import Mathlib.Tactic.Basic

namespace PG.Serialize

variable {Cfg Q R J : Type} [BEq Q]

/-- stored results are the true statistics of the configuration (what C17's refinement theorem provides) -/
def Inv (f : Cfg → Q → R) (o : Obj Cfg Q R) : Prop := ∀ q v, o.stored.lookup q = some v → v = f o.config q

theorem ask_eq (f : Cfg → Q → R) (o : Obj Cfg Q R) (h : Inv f o) (q : Q) : ask f o q = f o.config q := by
  unfold ask
  cases hq : o.stored.lookup q with
  | none => rfl
  | some v => exact h q v hq

/-- **C18_roundtrip.** With `decode (encode x) = some x`, the loaded object exists and answers every statistic
exactly like the original, for statistics stored before saving and for those that were not. -/
theorem C18_roundtrip (encode : Obj Cfg Q R → J) (decode : J → Option (Obj Cfg Q R))
    (hcodec : ∀ x, decode (encode x) = some x) (f : Cfg → Q → R) (o : Obj Cfg Q R) (h : Inv f o) :
    ∃ o', fromJson decode (toJson encode o).1 = some o' ∧ o'.config = o.config ∧ Inv f o' ∧
      ∀ q, ask f o' q = ask f o q := by
  refine ⟨prepare o, by simp [fromJson, toJson, hcodec], rfl, ?_, ?_⟩
  · intro q v hq; exact h q v hq
  · intro q; rw [ask_eq f _ (by intro q v hq; exact h q v hq), ask_eq f o h]; rfl

/-- **C18_original_untouched.** -/
theorem C18_original_untouched (encode : Obj Cfg Q R → J) (o : Obj Cfg Q R) : (toJson encode o).2 = o := rfl

/-- **C18_idempotent.** A second save/load cycle returns the same object as the first. -/
theorem C18_idempotent (encode : Obj Cfg Q R → J) (decode : J → Option (Obj Cfg Q R))
    (hcodec : ∀ x, decode (encode x) = some x) (o : Obj Cfg Q R) :
    ∀ o₁, fromJson decode (toJson encode o).1 = some o₁ →
      fromJson decode (toJson encode o₁).1 = some o₁ := by
  intro o₁ h1
  simp [fromJson, toJson, hcodec] at h1 ⊢
  subst h1; rfl

/-- computing more statistics after loading keeps the invariant (so later queries still agree) -/
theorem compute_inv [LawfulBEq Q] (f : Cfg → Q → R) (o : Obj Cfg Q R) (h : Inv f o) (q : Q) : Inv f (compute f o q) := by
  unfold compute
  cases hq : o.stored.lookup q with
  | some v => simpa [hq] using h
  | none =>
    intro q' v hv
    simp only at hv ⊢
    rw [List.lookup_append] at hv
    cases hq' : o.stored.lookup q' with
    | some w => rw [hq'] at hv; simp at hv; subst hv; exact h q' w hq'
    | none =>
      rw [hq'] at hv
      simp only [Option.none_or, List.lookup_cons, List.lookup_nil] at hv
      by_cases hqq : (q' == q) = true
      · simp [hqq] at hv; subst hv
        have : q' = q := by simpa using hqq
        subst this; rfl
      · simp [hqq] at hv

/-- a codec that loses a field breaks the round trip: non-vacuity of the codec hypothesis -/
example : ∃ (encode : Obj Nat Nat Nat → Nat) (decode : Nat → Option (Obj Nat Nat Nat)) (o : Obj Nat Nat Nat),
    (fromJson decode (toJson encode o).1).map (·.config) ≠ some o.config :=
  ⟨fun o => o.cacheSize, fun _ => some ⟨0, 0, []⟩, ⟨7, 0, []⟩, by decide⟩

end PG.Serialize

#print axioms PG.Serialize.C18_roundtrip
#print axioms PG.Serialize.C18_original_untouched
#print axioms PG.Serialize.C18_idempotent
#print axioms PG.Serialize.compute_inv
