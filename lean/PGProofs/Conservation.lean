/-
  PGProofs/Conservation.lean

  C11: "tree statistics satisfy the conservation identities that link them".

  Contents
  * `Psi`, `BlockToLineage` : `psi` (forget the block sizes) and `block_to_lineage`: the
       block-counting generator applied to `g ∘ psi` is the lineage-counting generator applied to
       `g`, at `psi c` (migration termwise; mergers collapsed by Vandermonde, `collapse_by_count`).
       Holds at EVERY block-count vector (no size hypothesis is needed since `psi` forgets the
       size of the merged block).
  * `GenVL`   : generalised Van Loan matrices `genVL S B` over an arbitrary block index and the
       intertwining criterion `genVL_intertwine`; `vanLoan_eq_genVL`.
  * `Slot`    : **multilinearity of `accumVal` in each reward slot, every order `k`**
       (`accumVal_slot_linear`, `accumVal_slot_add`, `accumVal_slot_smul`), through ONE doubled
       Van Loan matrix (`slotB`, index `Fin (k+1) × Bool`) intertwined with all the
       `vanLoan S (update R a (c₁ R a + c₂ r'))` by `kronC (slotC a c₁ c₂)`.
  * `Sums`    : finite (weighted) sums in a slot; `sum_mean`, `second_bilinear`, `sum_cov_raw`;
       `crossMoment`, `covVal`, `covVal_bilinear`, `sum_cov`.
  * `Spaces`  : `block_lineage_intertwine`, `block_lineage_moments`, `block_lineage_cdf`,
       `C11_spaces_agree`.
  * `C11`     : `mean_of_pointwise`, `cov_of_pointwise`, `C11_sum_mean`, `C11_sum_cov`,
       `C11_weighted`, `C11_weighted_cov`, `C11_fold`, `C11_fold_cov`.
  * `Concrete`: the same for the reward vectors of `PGModel.Rewards` on any enumerated set of
       block-counting states of mass `n` (`C11_model_*`).
-/
import PGProofs.VanLoan
import PGProofs.Labelled
import PGProofs.Marginal
import PGProofs.RewardsThm
import Mathlib.Tactic.FinCases
import Mathlib.Tactic.FieldSimp
import Mathlib.Tactic.LinearCombination

set_option linter.unusedSectionVars false
set_option linter.unusedVariables false
set_option linter.unusedSimpArgs false
set_option linter.unnecessarySeqFocus false

namespace PG
namespace Conservation

open Finset

/-! ## 3. Lineage counting is a lumping of block counting -/

section Psi
variable {D n : ℕ}

/-- forget the block sizes: number of lineages per deme -/
def psi (c : Fin D × Fin n → ℕ) : Fin D → ℕ := fun d => ∑ i, c (d, i)

theorem psi_apply (c : Fin D × Fin n → ℕ) (d : Fin D) : psi c d = ∑ i, c (d, i) := rfl

theorem psi_add (c κ : Fin D × Fin n → ℕ) : psi (c + κ) = psi c + psi κ := by
  funext d
  simp [psi, sum_add_distrib]

theorem psi_sub (c κ : Fin D × Fin n → ℕ) (h : κ ≤ c) : psi (c - κ) = psi c - psi κ := by
  funext d
  simp only [psi, Pi.sub_apply]
  exact sum_tsub_distrib _ fun i _ => h (d, i)

theorem psi_e1 (d : Fin D) (i : Fin n) : psi (e1 (d, i)) = e1 d := by
  funext x
  by_cases hx : x = d
  · subst hx
    simp [psi, e1, Pi.single_apply]
  · simp [psi, e1, Pi.single_apply, hx]

theorem psi_emb (d : Fin D) (κ' : Fin n → ℕ) : psi (emb d κ') = Pi.single d (∑ i, κ' i) := by
  funext x
  by_cases hx : x = d
  · subst hx
    simp [psi, emb]
  · simp [psi, emb, hx]

theorem e1_le_of_pos {T : Type*} [DecidableEq T] (c : T → ℕ) (t : T) (h : 0 < c t) : e1 t ≤ c := by
  intro s
  by_cases hs : s = t
  · subst hs
    have : 1 ≤ c s := h
    simpa [e1] using this
  · simp [e1, hs]

/-- a block moves: one lineage moves -/
theorem psi_move (c : Fin D × Fin n → ℕ) (d d' : Fin D) (i : Fin n) (h : 0 < c (d, i)) :
    psi (c - e1 (d, i) + e1 (d', i)) = psi c - e1 d + e1 d' := by
  rw [psi_add, psi_sub _ _ (e1_le_of_pos c _ h), psi_e1, psi_e1]

theorem emb_le (c : Fin D × Fin n → ℕ) (d : Fin D) (κ' : Fin n → ℕ)
    (h : κ' ≤ fun i => c (d, i)) : emb d κ' ≤ c := by
  rintro ⟨x, i⟩
  by_cases hx : x = d
  · subst hx
    have h1 : κ' i ≤ c (x, i) := h i
    simpa [emb] using h1
  · simp [emb, hx]

/-- `k` blocks of one deme merge into one block (of whatever size): `k - 1` lineages disappear -/
theorem psi_merge (c : Fin D × Fin n → ℕ) (d : Fin D) (κ' : Fin n → ℕ) (t : Fin n)
    (h : κ' ≤ fun i => c (d, i)) (h2 : 1 ≤ ∑ i, κ' i) :
    psi (c - emb d κ' + e1 (d, t)) = psi c - ((∑ i, κ' i) - 1) • e1 d := by
  rw [psi_add, psi_sub _ _ (emb_le c d κ' h), psi_e1, psi_emb]
  have hle : ∑ i, κ' i ≤ psi c d := sum_le_sum fun i _ => h i
  funext x
  by_cases hx : x = d
  · subst hx
    simp [e1]
    omega
  · simp [e1, hx]

end Psi

section Collapse
variable {S : Type*} [DecidableEq S] [Fintype S] {K : Type*} [Field K]

/-- all sub-profiles with the same number `k ≥ 2` of particles are collapsed by Vandermonde -/
theorem collapse_by_count (a : S → ℕ) (F : ℕ → K) :
    ∑ κ' ∈ (Iic a).filter (fun κ' => 2 ≤ ∑ i, κ' i), (wt a κ' : K) * F (∑ i, κ' i)
      = ∑ k ∈ Icc 2 (∑ i, a i), ((∑ i, a i).choose k : K) * F k := by
  have hmaps : ∀ κ' ∈ (Iic a).filter (fun κ' => 2 ≤ ∑ i, κ' i),
      (∑ i, κ' i) ∈ Icc 2 (∑ i, a i) := by
    intro κ' hκ'
    rw [mem_filter, mem_Iic] at hκ'
    rw [mem_Icc]
    exact ⟨hκ'.2, sum_le_sum fun i _ => hκ'.1 i⟩
  rw [← sum_fiberwise_of_maps_to hmaps]
  refine sum_congr rfl fun k hk => ?_
  rw [mem_Icc] at hk
  rw [filter_filter]
  have hf : (Iic a).filter (fun κ' => 2 ≤ ∑ i, κ' i ∧ ∑ i, κ' i = k)
      = (Iic a).filter (fun κ' => ∑ i, κ' i = k) := by
    refine filter_congr fun κ' _ => ⟨fun h => h.2, fun h => ⟨by omega, h⟩⟩
  rw [hf, ← vandermonde a k, Nat.cast_sum, sum_mul]
  refine sum_congr rfl fun κ' hκ' => ?_
  rw [(mem_filter.1 hκ').2]

end Collapse

section BlockToLineage
variable {D n : ℕ} [NeZero n] {K : Type*} [Field K]

/-- **Lineage counting is the lumping of block counting under `ψ`** (function level).  No
hypothesis on the block sizes is needed: `ψ` forgets the size of the merged block, so even a
"wrapped" target block gives the right lineage counts. -/
theorem block_to_lineage (lam : ℕ → ℕ → K) (ts : Fin D → K) (mig : Fin D → Fin D → K)
    (g : (Fin D → ℕ) → K) (c : Fin D × Fin n → ℕ) :
    QCs (blkRate lam ts mig) blkRes (fun c' => g (psi c')) c
      = QCs (linRate lam ts mig) linRes g (psi c) := by
  rw [block_closed_form, lineage_closed_form]
  congr 1
  · refine sum_congr rfl fun d _ => sum_congr rfl fun d' _ => ?_
    by_cases hdd : d ≠ d'
    · simp only [if_pos hdd]
      have hterm : ∀ i, (c (d, i) : K) * mig d d' * (g (psi (c - e1 (d, i) + e1 (d', i))) - g (psi c))
          = (c (d, i) : K) * (mig d d' * (g (psi c - e1 d + e1 d') - g (psi c))) := fun i => by
        rw [Marginal.coef_term (c (d, i)) _ _ _ _ fun h => congrArg g (psi_move c d d' i h),
          mul_assoc]
      simp only [hterm]
      rw [← sum_mul, ← Nat.cast_sum, mul_assoc]
      rfl
    · simp [hdd]
  · refine sum_congr rfl fun d _ => ?_
    have hterm : ∀ κ' ∈ (Iic (fun i => c (d, i))).filter (fun κ' => 2 ≤ ∑ i, κ' i),
        ((∏ i, (c (d, i)).choose (κ' i) : ℕ) : K) *
            (lam (∑ i, c (d, i)) (∑ i, κ' i) / ts d) *
            (g (psi (c - emb d κ' + e1 (d, Fin.ofNat n (blkSize κ' - 1)))) - g (psi c))
          = (wt (fun i => c (d, i)) κ' : K) *
            ((fun k => lam (psi c d) k / ts d * (g (psi c - (k - 1) • e1 d) - g (psi c)))
              (∑ i, κ' i)) := by
      intro κ' hκ'
      rw [mem_filter, mem_Iic] at hκ'
      rw [psi_merge c d κ' _ hκ'.1 (by omega), mul_assoc]
      rfl
    rw [sum_congr rfl hterm]
    refine (collapse_by_count (K := K) (fun i => c (d, i))
      (fun k => lam (psi c d) k / ts d * (g (psi c - (k - 1) • e1 d) - g (psi c)))).trans ?_
    refine sum_congr rfl fun k _ => ?_
    simp only [psi_apply, mul_assoc]

end BlockToLineage


/-! ## 1. Multilinearity of `accumVal` in each reward slot -/

section GenVL

open Matrix

variable {K : Type} [Field K] [LinearOrder K] [IsStrictOrderedRing K]
variable {ι : Type} [Fintype ι] [DecidableEq ι]
variable {β γ : Type} [Fintype β] [DecidableEq β] [Fintype γ] [DecidableEq γ]
variable {k : ℕ}

/-- generalised Van Loan matrix: `S` on the diagonal blocks plus `diag (B b b')` on block
`(b, b')` -/
def genVL (S : Matrix ι ι K) (B : β → β → ι → K) : Matrix (β × ι) (β × ι) K :=
  Matrix.of fun p q =>
    (if p.1 = q.1 then S p.2 q.2 else 0) + (if p.2 = q.2 then B p.1 q.1 p.2 else 0)

/-- `C ⊗ 1` for arbitrary finite block index types -/
def kronC (C : β → γ → K) (ι : Type) [DecidableEq ι] : Matrix (β × ι) (γ × ι) K :=
  Matrix.of fun p q => if p.2 = q.2 then C p.1 q.1 else 0

theorem mul_kronC_apply {δ : Type} (M : Matrix δ (β × ι) K) (C : β → γ → K) (p : δ) (c : γ)
    (j : ι) : (M * kronC C ι) p (c, j) = ∑ b, M p (b, j) * C b c := by
  rw [Matrix.mul_apply, Fintype.sum_prod_type]
  refine sum_congr rfl fun b _ => ?_
  rw [sum_eq_single j]
  · simp [kronC]
  · intro l _ hl; simp [kronC, hl]
  · intro h; exact absurd (mem_univ _) h

theorem kronC_mul_apply {δ : Type} (C : β → γ → K) (N : Matrix (γ × ι) δ K) (b : β) (i : ι)
    (q : δ) : (kronC C ι * N) (b, i) q = ∑ c, C b c * N (c, i) q := by
  rw [Matrix.mul_apply, Fintype.sum_prod_type]
  refine sum_congr rfl fun c _ => ?_
  rw [sum_eq_single i]
  · simp [kronC]
  · intro l _ hl; simp [kronC, Ne.symm hl]
  · intro h; exact absurd (mem_univ _) h

/-- block-level intertwining of the reward couplings lifts to the generalised Van Loan matrices -/
theorem genVL_intertwine (S : Matrix ι ι K) (B : β → β → ι → K) (B' : γ → γ → ι → K)
    (C : β → γ → K)
    (h : ∀ i b c, ∑ b', B b b' i * C b' c = ∑ c', C b c' * B' c' c i) :
    genVL S B * kronC C ι = kronC C ι * genVL S B' := by
  ext ⟨b, i⟩ ⟨c, j⟩
  rw [mul_kronC_apply, kronC_mul_apply]
  simp only [genVL, Matrix.of_apply, add_mul, mul_add, sum_add_distrib]
  by_cases hij : i = j
  · subst hij
    simp only [if_true, h i b c]
    congr 1
    simp [mul_comm]
  · simp only [hij, if_false, zero_mul, mul_zero, sum_const_zero, add_zero]
    simp [mul_comm]

/-- the super-diagonal reward couplings of the Van Loan matrix -/
def supB (R : Fin k → ι → K) : Fin (k + 1) → Fin (k + 1) → ι → K := fun b b' i =>
  if h : (b : ℕ) + 1 = (b' : ℕ) then R ⟨(b : ℕ), by omega⟩ i else 0

theorem supB_super (R : Fin k → ι → K) (d : Fin k) (i : ι) :
    supB R d.castSucc d.succ i = R d i := by
  simp [supB]

theorem supB_other (R : Fin k → ι → K) (b b' : Fin (k + 1)) (i : ι) (h : (b : ℕ) + 1 ≠ b') :
    supB R b b' i = 0 := by
  simp [supB, h]

theorem vanLoan_eq_genVL (S : Matrix ι ι K) (R : Fin k → ι → K) :
    vanLoan S R = genVL S (supB R) := by
  ext ⟨a, i⟩ ⟨b, j⟩
  rcases block_cases a b with rfl | ⟨d, rfl, rfl⟩ | ⟨h1, h2⟩
  · rw [vanLoan_diag]
    simp [genVL, supB]
  · rw [vanLoan_super]
    have h1 : d.castSucc ≠ d.succ := (Fin.castSucc_lt_succ (i := d)).ne
    simp [genVL, supB_super, h1]
  · rw [vanLoan_other _ _ _ _ _ _ h1 h2]
    simp [genVL, supB_other _ _ _ _ h2, h1]

end GenVL


section Slot

open Matrix

variable {K : Type} [Field K] [LinearOrder K] [IsStrictOrderedRing K]
variable {ι : Type} [Fintype ι] [DecidableEq ι]
variable {k : ℕ}

/-- reward couplings of the doubled Van Loan matrix: two copies (`false`, `true`) of every level;
all levels carry `R` inside each copy, except that level `a` of copy `false` feeds copy `false`
through `R a` and copy `true` through `r'`, and level `a` of copy `true` feeds nothing. -/
def slotB (R : Fin k → ι → K) (a : Fin k) (r' : ι → K) :
    Fin (k + 1) × Bool → Fin (k + 1) × Bool → ι → K := fun p q i =>
  if (p.1 : ℕ) = a then
    (if (p.1 : ℕ) + 1 = q.1 ∧ p.2 = false then (if q.2 = false then R a i else r' i) else 0)
  else if p.2 = q.2 then supB R p.1 q.1 i else 0

/-- coefficients of the intertwiner: below and at level `a` only copy `false` is read (weight 1);
above level `a` copy `false` has weight `c₁` and copy `true` has weight `c₂`. -/
def slotCoef (a : Fin k) (c1 c2 : K) (b : Fin (k + 1)) (s : Bool) : K :=
  if (b : ℕ) ≤ a then (if s then 0 else 1) else (if s then c2 else c1)

def slotC (a : Fin k) (c1 c2 : K) : Fin (k + 1) × Bool → Fin (k + 1) → K := fun p c =>
  if p.1 = c then slotCoef a c1 c2 p.1 p.2 else 0

theorem slot_condition (R : Fin k → ι → K) (a : Fin k) (r' : ι → K) (c1 c2 : K)
    (i : ι) (p : Fin (k + 1) × Bool) (c : Fin (k + 1)) :
    ∑ q, slotB R a r' p q i * slotC a c1 c2 q c
      = ∑ c', slotC a c1 c2 p c' *
          supB (Function.update R a (fun i => c1 * R a i + c2 * r' i)) c' c i := by
  obtain ⟨b, s⟩ := p
  have hL : ∑ q, slotB R a r' (b, s) q i * slotC a c1 c2 q c
      = ∑ s', slotB R a r' (b, s) (c, s') i * slotCoef a c1 c2 c s' := by
    rw [Fintype.sum_prod_type, sum_eq_single c]
    · simp [slotC]
    · intro b' _ hb'; simp [slotC, hb']
    · intro h; exact absurd (mem_univ _) h
  have hR : ∑ c', slotC a c1 c2 (b, s) c' *
        supB (Function.update R a (fun i => c1 * R a i + c2 * r' i)) c' c i
      = slotCoef a c1 c2 b s *
        supB (Function.update R a (fun i => c1 * R a i + c2 * r' i)) b c i := by
    rw [sum_eq_single b]
    · simp [slotC]
    · intro b' _ hb'; simp [slotC, Ne.symm hb']
    · intro h; exact absurd (mem_univ _) h
  rw [hL, hR, Fintype.sum_bool]
  by_cases hbc : (b : ℕ) + 1 = c
  · obtain ⟨d, rfl, rfl⟩ : ∃ d : Fin k, b = d.castSucc ∧ c = d.succ := by
      refine ⟨⟨b, by omega⟩, ?_, ?_⟩
      · ext; simp
      · ext; simp [hbc]
    rw [supB_super]
    by_cases hda : d = a
    · subst hda
      cases s <;> simp [slotB, slotCoef] <;> ring
    · have hne : (d : ℕ) ≠ a := fun h => hda (Fin.ext h)
      have hcoef : slotCoef a c1 c2 d.succ s = slotCoef a c1 c2 d.castSucc s := by
        unfold slotCoef
        have : ((d.succ : Fin (k + 1)) : ℕ) ≤ a ↔ ((d.castSucc : Fin (k + 1)) : ℕ) ≤ a := by
          simp only [Fin.val_succ, Fin.val_castSucc]; omega
        simp only [this]
      rw [Function.update_of_ne hda]
      cases s <;> simp [slotB, hne, supB_super, hcoef] <;> ring
  · rw [supB_other _ _ _ _ hbc]
    cases s <;> simp [slotB, hbc, supB_other _ _ _ _ hbc]

theorem slot_intertwine (S : Matrix ι ι K) (R : Fin k → ι → K) (a : Fin k) (r' : ι → K)
    (c1 c2 : K) :
    genVL S (slotB R a r') * kronC (slotC a c1 c2) ι
      = kronC (slotC a c1 c2) ι
        * vanLoan S (Function.update R a (fun i => c1 * R a i + c2 * r' i)) := by
  rw [vanLoan_eq_genVL]
  exact genVL_intertwine S _ _ _ (slot_condition R a r' c1 c2)

variable (L : ExpLaw K)

/-- the top-right block of the Van Loan product, as a function of the coefficients `(c₁, c₂)` of
slot `a`, is read off ONE doubled matrix that does not depend on `(c₁, c₂)` -/
theorem topRight_slot_key (S : ℕ → Matrix ι ι K) (R : Fin k → ι → K) (a : Fin k) (r' : ι → K)
    (c1 c2 : K) (fs : List (ℕ × K)) (i j : ι) :
    (evalFactors L
        (fun e => vanLoan (S e) (Function.update R a (fun i => c1 * R a i + c2 * r' i))) fs)
        (0, i) (Fin.last k, j)
      = c1 * (evalFactors L (fun e => genVL (S e) (slotB R a r')) fs)
              ((0, false), i) ((Fin.last k, false), j)
        + c2 * (evalFactors L (fun e => genVL (S e) (slotB R a r')) fs)
              ((0, false), i) ((Fin.last k, true), j) := by
  have h := congrFun (congrFun (evalFactors_intertwine L
    (fun e => genVL (S e) (slotB R a r'))
    (fun e => vanLoan (S e) (Function.update R a (fun i => c1 * R a i + c2 * r' i)))
    (kronC (slotC a c1 c2) ι) (fun e => slot_intertwine (S e) R a r' c1 c2) fs)
    ((0, false), i)) (Fin.last k, j)
  rw [mul_kronC_apply, kronC_mul_apply] at h
  have hL : ∀ (M : Matrix ((Fin (k + 1) × Bool) × ι) ((Fin (k + 1) × Bool) × ι) K),
      ∑ q, M ((0, false), i) (q, j) * slotC a c1 c2 q (Fin.last k)
        = c1 * M ((0, false), i) ((Fin.last k, false), j)
          + c2 * M ((0, false), i) ((Fin.last k, true), j) := by
    intro M
    rw [Fintype.sum_prod_type, sum_eq_single (Fin.last k)]
    · have hlast : ¬ k ≤ (a : ℕ) := by have := a.isLt; omega
      rw [Fintype.sum_bool]
      simp [slotC, slotCoef, hlast]
      ring
    · intro b' _ hb'; simp [slotC, hb']
    · intro h; exact absurd (mem_univ _) h
  have hR : ∀ (N : Matrix (Fin (k + 1) × ι) (Fin (k + 1) × ι) K),
      ∑ c, slotC a c1 c2 (0, false) c * N (c, i) (Fin.last k, j) = N (0, i) (Fin.last k, j) := by
    intro N
    rw [sum_eq_single 0]
    · simp [slotC, slotCoef]
    · intro b' _ hb'; simp [slotC, Ne.symm hb']
    · intro h; exact absurd (mem_univ _) h
  rw [hL, hR] at h
  exact h.symm

theorem update_one_zero (R : Fin k → ι → K) (a : Fin k) (r' : ι → K) :
    Function.update R a (fun i => 1 * R a i + 0 * r' i) = R := by
  simp

theorem update_zero_one (R : Fin k → ι → K) (a : Fin k) (r' : ι → K) :
    Function.update R a (fun i => 0 * R a i + 1 * r' i) = Function.update R a r' := by
  simp

/-- the top-right block of the Van Loan product is linear in reward slot `a` -/
theorem topRight_slot_linear (S : ℕ → Matrix ι ι K) (R : Fin k → ι → K) (a : Fin k) (r' : ι → K)
    (c1 c2 : K) (fs : List (ℕ × K)) (i j : ι) :
    (evalFactors L
        (fun e => vanLoan (S e) (Function.update R a (fun i => c1 * R a i + c2 * r' i))) fs)
        (0, i) (Fin.last k, j)
      = c1 * (evalFactors L (fun e => vanLoan (S e) R) fs) (0, i) (Fin.last k, j)
        + c2 * (evalFactors L (fun e => vanLoan (S e) (Function.update R a r')) fs)
            (0, i) (Fin.last k, j) := by
  have h1 := topRight_slot_key L S R a r' 1 0 fs i j
  have h2 := topRight_slot_key L S R a r' 0 1 fs i j
  rw [update_one_zero] at h1
  rw [update_zero_one] at h2
  rw [topRight_slot_key L S R a r' c1 c2 fs i j, h1, h2]
  ring

/-- **Linearity of `accumVal` in reward slot `a`**, every order `k`. -/
theorem accumVal_slot_linear (S : ℕ → Matrix ι ι K) (R : Fin k → ι → K) (a : Fin k) (r' : ι → K)
    (c1 c2 : K) (α : ι → K) (fs : List (ℕ × K)) :
    accumVal L S (Function.update R a (fun i => c1 * R a i + c2 * r' i)) α fs
      = c1 * accumVal L S R α fs + c2 * accumVal L S (Function.update R a r') α fs := by
  unfold accumVal
  simp only [topRight_slot_linear L S R a r' c1 c2 fs, mul_sum, ← sum_add_distrib]
  refine sum_congr rfl fun i _ => sum_congr rfl fun j _ => ?_
  ring

/-- additivity in slot `a` -/
theorem accumVal_slot_add (S : ℕ → Matrix ι ι K) (R : Fin k → ι → K) (a : Fin k) (r' : ι → K)
    (α : ι → K) (fs : List (ℕ × K)) :
    accumVal L S (Function.update R a (fun i => R a i + r' i)) α fs
      = accumVal L S R α fs + accumVal L S (Function.update R a r') α fs := by
  have := accumVal_slot_linear L S R a r' 1 1 α fs
  simpa using this

/-- homogeneity in slot `a` -/
theorem accumVal_slot_smul (S : ℕ → Matrix ι ι K) (R : Fin k → ι → K) (a : Fin k) (c : K)
    (α : ι → K) (fs : List (ℕ × K)) :
    accumVal L S (Function.update R a (fun i => c * R a i)) α fs = c * accumVal L S R α fs := by
  have := accumVal_slot_linear L S R a (fun _ => 0) c 0 α fs
  simpa using this

end Slot


/-! ## 2. Finite sums in a slot; means and raw second moments of a sum of rewards -/

section Sums

open Matrix

variable {K : Type} [Field K] [LinearOrder K] [IsStrictOrderedRing K]
variable {ι : Type} [Fintype ι] [DecidableEq ι]
variable {k : ℕ} {J : Type} [DecidableEq J]
variable (L : ExpLaw K)

/-- additivity in slot `a`, "replace" form -/
theorem accumVal_update_add (S : ℕ → Matrix ι ι K) (R : Fin k → ι → K) (a : Fin k) (u v : ι → K)
    (α : ι → K) (fs : List (ℕ × K)) :
    accumVal L S (Function.update R a (fun i => u i + v i)) α fs
      = accumVal L S (Function.update R a u) α fs + accumVal L S (Function.update R a v) α fs := by
  have := accumVal_slot_add L S (Function.update R a u) a v α fs
  simpa using this

/-- homogeneity in slot `a`, "replace" form -/
theorem accumVal_update_smul (S : ℕ → Matrix ι ι K) (R : Fin k → ι → K) (a : Fin k) (c : K)
    (u : ι → K) (α : ι → K) (fs : List (ℕ × K)) :
    accumVal L S (Function.update R a (fun i => c * u i)) α fs
      = c * accumVal L S (Function.update R a u) α fs := by
  have := accumVal_slot_smul L S (Function.update R a u) a c α fs
  simpa using this

/-- a zero reward in some slot kills the moment -/
theorem accumVal_update_zero (S : ℕ → Matrix ι ι K) (R : Fin k → ι → K) (a : Fin k)
    (α : ι → K) (fs : List (ℕ × K)) :
    accumVal L S (Function.update R a (fun _ => 0)) α fs = 0 := by
  have := accumVal_update_smul L S R a 0 (fun _ => 0) α fs
  simpa using this

/-- finite sums in slot `a` -/
theorem accumVal_update_sum (S : ℕ → Matrix ι ι K) (R : Fin k → ι → K) (a : Fin k)
    (s : Finset J) (r : J → ι → K) (α : ι → K) (fs : List (ℕ × K)) :
    accumVal L S (Function.update R a (fun i => ∑ j ∈ s, r j i)) α fs
      = ∑ j ∈ s, accumVal L S (Function.update R a (r j)) α fs := by
  induction s using Finset.induction_on with
  | empty => simpa using accumVal_update_zero L S R a α fs
  | insert j s hj ih =>
    simp only [sum_insert hj]
    rw [accumVal_update_add, ih]

/-- finite weighted sums in slot `a` -/
theorem accumVal_update_wsum (S : ℕ → Matrix ι ι K) (R : Fin k → ι → K) (a : Fin k)
    (s : Finset J) (w : J → K) (r : J → ι → K) (α : ι → K) (fs : List (ℕ × K)) :
    accumVal L S (Function.update R a (fun i => ∑ j ∈ s, w j * r j i)) α fs
      = ∑ j ∈ s, w j * accumVal L S (Function.update R a (r j)) α fs := by
  rw [accumVal_update_sum L S R a s (fun j i => w j * r j i) α fs]
  exact sum_congr rfl fun j _ => accumVal_update_smul L S R a (w j) (r j) α fs

/-! ### order 1 -/

theorem update_fin_one (R : Fin 1 → ι → K) (u : ι → K) :
    Function.update R 0 u = fun _ => u := by
  funext b
  have : b = 0 := Subsingleton.elim _ _
  subst this
  simp

/-- first moments: weighted sums of rewards give weighted sums of means -/
theorem mean_wsum (S : ℕ → Matrix ι ι K) (s : Finset J) (w : J → K) (r : J → ι → K)
    (α : ι → K) (fs : List (ℕ × K)) :
    accumVal L S (fun (_ : Fin 1) i => ∑ j ∈ s, w j * r j i) α fs
      = ∑ j ∈ s, w j * accumVal L S (fun (_ : Fin 1) => r j) α fs := by
  have := accumVal_update_wsum L S (fun (_ : Fin 1) (_ : ι) => (0 : K)) 0 s w r α fs
  simpa only [update_fin_one] using this

/-- **(a)** the first moment of a sum of rewards is the sum of the first moments -/
theorem sum_mean (S : ℕ → Matrix ι ι K) (s : Finset J) (r : J → ι → K)
    (α : ι → K) (fs : List (ℕ × K)) :
    accumVal L S (fun (_ : Fin 1) i => ∑ j ∈ s, r j i) α fs
      = ∑ j ∈ s, accumVal L S (fun (_ : Fin 1) => r j) α fs := by
  have := mean_wsum L S s (fun _ => 1) r α fs
  simpa using this

/-! ### order 2 -/

theorem update_pair_zero (u v w : ι → K) :
    Function.update (![u, v] : Fin 2 → ι → K) 0 w = ![w, v] := by
  funext b; fin_cases b <;> simp

theorem update_pair_one (u v w : ι → K) :
    Function.update (![u, v] : Fin 2 → ι → K) 1 w = ![u, w] := by
  funext b; fin_cases b <;> simp

/-- raw (ordered) second moments are bilinear in the two rewards -/
theorem second_bilinear {J' : Type} [DecidableEq J'] (S : ℕ → Matrix ι ι K)
    (s : Finset J) (t : Finset J') (w : J → K) (w' : J' → K) (r : J → ι → K) (r' : J' → ι → K)
    (α : ι → K) (fs : List (ℕ × K)) :
    accumVal L S (![fun i => ∑ j ∈ s, w j * r j i, fun i => ∑ j' ∈ t, w' j' * r' j' i]) α fs
      = ∑ j ∈ s, ∑ j' ∈ t, w j * w' j' * accumVal L S (![r j, r' j']) α fs := by
  have h1 := accumVal_update_wsum L S
    (![fun _ => 0, fun i => ∑ j' ∈ t, w' j' * r' j' i] : Fin 2 → ι → K) 0 s w r α fs
  simp only [update_pair_zero] at h1
  rw [h1]
  refine sum_congr rfl fun j _ => ?_
  have h2 := accumVal_update_wsum L S (![r j, fun _ => 0] : Fin 2 → ι → K) 1 t w' r' α fs
  simp only [update_pair_one] at h2
  rw [h2, mul_sum]
  exact sum_congr rfl fun j' _ => by ring

/-- **(b)** the raw second moment of a sum of rewards is the double sum of the raw second cross
moments -/
theorem sum_cov_raw (S : ℕ → Matrix ι ι K) (s : Finset J) (r : J → ι → K)
    (α : ι → K) (fs : List (ℕ × K)) :
    accumVal L S (![fun i => ∑ j ∈ s, r j i, fun i => ∑ j ∈ s, r j i]) α fs
      = ∑ j ∈ s, ∑ j' ∈ s, accumVal L S (![r j, r j']) α fs := by
  have := second_bilinear L S s s (fun _ => 1) (fun _ => 1) r r α fs
  simpa using this

/-- the permutation-averaged raw second cross moment `E[X Y]` -/
def crossMoment (S : ℕ → Matrix ι ι K) (u v : ι → K) (α : ι → K) (fs : List (ℕ × K)) : K :=
  (accumVal L S (![u, v]) α fs + accumVal L S (![v, u]) α fs) / 2

/-- the mean `E[X]` -/
def meanVal (S : ℕ → Matrix ι ι K) (u : ι → K) (α : ι → K) (fs : List (ℕ × K)) : K :=
  accumVal L S (fun (_ : Fin 1) => u) α fs

/-- the covariance `E[X Y] - E[X] E[Y]` -/
def covVal (S : ℕ → Matrix ι ι K) (u v : ι → K) (α : ι → K) (fs : List (ℕ × K)) : K :=
  crossMoment L S u v α fs - meanVal L S u α fs * meanVal L S v α fs

theorem crossMoment_self (S : ℕ → Matrix ι ι K) (u : ι → K) (α : ι → K) (fs : List (ℕ × K)) :
    crossMoment L S u u α fs = accumVal L S (![u, u]) α fs := by
  unfold crossMoment; ring

theorem crossMoment_comm (S : ℕ → Matrix ι ι K) (u v : ι → K) (α : ι → K) (fs : List (ℕ × K)) :
    crossMoment L S u v α fs = crossMoment L S v u α fs := by
  unfold crossMoment; ring

/-- `E[X Y]` is bilinear -/
theorem crossMoment_bilinear {J' : Type} [DecidableEq J'] (S : ℕ → Matrix ι ι K)
    (s : Finset J) (t : Finset J') (w : J → K) (w' : J' → K) (r : J → ι → K) (r' : J' → ι → K)
    (α : ι → K) (fs : List (ℕ × K)) :
    crossMoment L S (fun i => ∑ j ∈ s, w j * r j i) (fun i => ∑ j' ∈ t, w' j' * r' j' i) α fs
      = ∑ j ∈ s, ∑ j' ∈ t, w j * w' j' * crossMoment L S (r j) (r' j') α fs := by
  unfold crossMoment
  rw [second_bilinear L S s t w w' r r' α fs, second_bilinear L S t s w' w r' r α fs,
    sum_comm (s := t) (t := s)]
  simp only [← sum_add_distrib, sum_div]
  refine sum_congr rfl fun j _ => sum_congr rfl fun j' _ => ?_
  ring

/-- the covariance is bilinear -/
theorem covVal_bilinear {J' : Type} [DecidableEq J'] (S : ℕ → Matrix ι ι K)
    (s : Finset J) (t : Finset J') (w : J → K) (w' : J' → K) (r : J → ι → K) (r' : J' → ι → K)
    (α : ι → K) (fs : List (ℕ × K)) :
    covVal L S (fun i => ∑ j ∈ s, w j * r j i) (fun i => ∑ j' ∈ t, w' j' * r' j' i) α fs
      = ∑ j ∈ s, ∑ j' ∈ t, w j * w' j' * covVal L S (r j) (r' j') α fs := by
  unfold covVal meanVal
  rw [crossMoment_bilinear, mean_wsum, mean_wsum, sum_mul_sum]
  simp only [mul_sub, sum_sub_distrib]
  congr 1
  refine sum_congr rfl fun j _ => sum_congr rfl fun j' _ => ?_
  ring

/-- **covariances of the parts sum to the variance of the total** -/
theorem sum_cov (S : ℕ → Matrix ι ι K) (s : Finset J) (r : J → ι → K)
    (α : ι → K) (fs : List (ℕ × K)) :
    ∑ j ∈ s, ∑ j' ∈ s, covVal L S (r j) (r j') α fs
      = covVal L S (fun i => ∑ j ∈ s, r j i) (fun i => ∑ j ∈ s, r j i) α fs := by
  have := covVal_bilinear L S s s (fun _ => 1) (fun _ => 1) r r α fs
  simpa using this.symm

end Sums


/-! ## 3 (matrix level). Moments agree on the block-counting and the lineage-counting space -/

section Spaces

open Matrix Marginal

variable {K : Type} [Field K] [LinearOrder K] [IsStrictOrderedRing K]
variable {ι₂ : Type} [Fintype ι₂] [DecidableEq ι₂] {ι₁ : Type} [Fintype ι₁] [DecidableEq ι₁]
variable {k D n : ℕ} [NeZero n]
variable (L : ExpLaw K)
variable (lam : ℕ → ℕ → ℕ → K) (ts : ℕ → Fin D → K) (mig : ℕ → Fin D → Fin D → K)
variable (dec₂ : ι₂ → (Fin D × Fin n → ℕ)) (dec₁ : ι₁ → (Fin D → ℕ))
variable (S₂ : ℕ → Matrix ι₂ ι₂ K) (S₁ : ℕ → Matrix ι₁ ι₁ K)

/-- `S₂ P = P S₁`: the 0/1 matrix of `ψ` intertwines the block-counting and the lineage-counting
generator matrices -/
theorem block_lineage_intertwine (hinj : Function.Injective dec₁) (e : ℕ)
    (h₂ : ∀ f i, ∑ j, S₂ e i j * f (dec₂ j)
      = QCs (blkRate (lam e) (ts e) (mig e)) blkRes f (dec₂ i))
    (h₁ : ∀ f i, ∑ j, S₁ e i j * f (dec₁ j)
      = QCs (linRate (lam e) (ts e) (mig e)) linRes f (dec₁ i))
    (p : ι₂ → ι₁) (hp : ∀ i, dec₁ (p i) = psi (dec₂ i)) :
    S₂ e * (projMat p : Matrix ι₂ ι₁ K) = projMat p * S₁ e :=
  intertwine_of_rep (QCs (blkRate (lam e) (ts e) (mig e)) blkRes)
    (QCs (linRate (lam e) (ts e) (mig e)) linRes) psi
    (block_to_lineage (lam e) (ts e) (mig e)) dec₂ dec₁ hinj (S₂ e) (S₁ e) h₂ h₁ p hp

/-- every moment (any order, any epoch list) of rewards that depend on the block state only
through `ψ` is the lineage-counting moment -/
theorem block_lineage_moments (hinj : Function.Injective dec₁)
    (h₂ : ∀ e f i, ∑ j, S₂ e i j * f (dec₂ j)
      = QCs (blkRate (lam e) (ts e) (mig e)) blkRes f (dec₂ i))
    (h₁ : ∀ e f i, ∑ j, S₁ e i j * f (dec₁ j)
      = QCs (linRate (lam e) (ts e) (mig e)) linRes f (dec₁ i))
    (p : ι₂ → ι₁) (hp : ∀ i, dec₁ (p i) = psi (dec₂ i))
    (R : Fin k → ι₁ → K) (α₂ : ι₂ → K) (fs : List (ℕ × K)) :
    accumVal L S₂ (fun a i => R a (p i)) α₂ fs
      = accumVal L S₁ R (Matrix.vecMul α₂ (projMat p)) fs :=
  lumped_accum L (fun e => QCs (blkRate (lam e) (ts e) (mig e)) blkRes)
    (fun e => QCs (linRate (lam e) (ts e) (mig e)) linRes) psi
    (fun e => block_to_lineage (lam e) (ts e) (mig e)) dec₂ dec₁ hinj S₂ S₁ h₂ h₁ p hp R α₂ fs

/-- the same with the rewards given as functions of the lineage-count vector -/
theorem block_lineage_moments' (hinj : Function.Injective dec₁)
    (h₂ : ∀ e f i, ∑ j, S₂ e i j * f (dec₂ j)
      = QCs (blkRate (lam e) (ts e) (mig e)) blkRes f (dec₂ i))
    (h₁ : ∀ e f i, ∑ j, S₁ e i j * f (dec₁ j)
      = QCs (linRate (lam e) (ts e) (mig e)) linRes f (dec₁ i))
    (p : ι₂ → ι₁) (hp : ∀ i, dec₁ (p i) = psi (dec₂ i))
    (h : Fin k → (Fin D → ℕ) → K) (α₂ : ι₂ → K) (fs : List (ℕ × K)) :
    accumVal L S₂ (fun a i => h a (psi (dec₂ i))) α₂ fs
      = accumVal L S₁ (fun a j => h a (dec₁ j)) (Matrix.vecMul α₂ (projMat p)) fs := by
  rw [← block_lineage_moments L lam ts mig dec₂ dec₁ S₂ S₁ hinj h₂ h₁ p hp
    (fun a j => h a (dec₁ j)) α₂ fs]
  simp only [hp]

/-- the cdf of an exit set that depends on the block state only through `ψ` -/
theorem block_lineage_cdf (hinj : Function.Injective dec₁)
    (h₂ : ∀ e f i, ∑ j, S₂ e i j * f (dec₂ j)
      = QCs (blkRate (lam e) (ts e) (mig e)) blkRes f (dec₂ i))
    (h₁ : ∀ e f i, ∑ j, S₁ e i j * f (dec₁ j)
      = QCs (linRate (lam e) (ts e) (mig e)) linRes f (dec₁ i))
    (p : ι₂ → ι₁) (hp : ∀ i, dec₁ (p i) = psi (dec₂ i))
    (exitVec : ι₁ → K) (α₂ : ι₂ → K) (fs : List (ℕ × K)) :
    cdfVal L S₂ α₂ (fun i => exitVec (p i)) fs
      = cdfVal L S₁ (Matrix.vecMul α₂ (projMat p)) exitVec fs :=
  lumped_cdf L (fun e => QCs (blkRate (lam e) (ts e) (mig e)) blkRes)
    (fun e => QCs (linRate (lam e) (ts e) (mig e)) linRes) psi
    (fun e => block_to_lineage (lam e) (ts e) (mig e)) dec₂ dec₁ hinj S₂ S₁ h₂ h₁ p hp exitVec α₂ fs

/-- tree-height reward on a lineage-count vector -/
def heightL (x : Fin D → ℕ) : K := if 1 < ∑ d, x d then 1 else 0
/-- total-branch-length reward on a lineage-count vector -/
def tblL (x : Fin D → ℕ) : K := if 1 < ∑ d, x d then ((∑ d, x d : ℕ) : K) else 0
/-- tree-height reward on a block-count vector -/
def heightB (c : Fin D × Fin n → ℕ) : K := if 1 < ∑ d, ∑ i, c (d, i) then 1 else 0
/-- total-branch-length reward on a block-count vector -/
def tblB (c : Fin D × Fin n → ℕ) : K :=
  if 1 < ∑ d, ∑ i, c (d, i) then ((∑ d, ∑ i, c (d, i) : ℕ) : K) else 0

theorem heightB_eq (c : Fin D × Fin n → ℕ) : (heightB c : K) = heightL (psi c) := rfl
theorem tblB_eq (c : Fin D × Fin n → ℕ) : (tblB c : K) = tblL (psi c) := rfl

/-- **C11 (spaces agree).**  All (mixed) moments of tree height and total branch length, of every
order `k` and for every epoch list, coincide on the block-counting and the lineage-counting
representation.  `sel a = true` puts the branch length in slot `a`, `false` the height. -/
theorem C11_spaces_agree (hinj : Function.Injective dec₁)
    (h₂ : ∀ e f i, ∑ j, S₂ e i j * f (dec₂ j)
      = QCs (blkRate (lam e) (ts e) (mig e)) blkRes f (dec₂ i))
    (h₁ : ∀ e f i, ∑ j, S₁ e i j * f (dec₁ j)
      = QCs (linRate (lam e) (ts e) (mig e)) linRes f (dec₁ i))
    (p : ι₂ → ι₁) (hp : ∀ i, dec₁ (p i) = psi (dec₂ i))
    (sel : Fin k → Bool) (α₂ : ι₂ → K) (fs : List (ℕ × K)) :
    accumVal L S₂ (fun a i => if sel a then tblB (dec₂ i) else heightB (dec₂ i)) α₂ fs
      = accumVal L S₁ (fun a j => if sel a then tblL (dec₁ j) else heightL (dec₁ j))
          (Matrix.vecMul α₂ (projMat p)) fs :=
  block_lineage_moments' L lam ts mig dec₂ dec₁ S₂ S₁ hinj h₂ h₁ p hp
    (fun a x => if sel a then tblL x else heightL x) α₂ fs

end Spaces

/-! ## 4. Property-level corollaries -/

section C11

open Matrix

variable {K : Type} [Field K] [LinearOrder K] [IsStrictOrderedRing K]
variable {ι : Type} [Fintype ι] [DecidableEq ι]
variable {J : Type} [DecidableEq J] {J' : Type} [DecidableEq J']
variable (L : ExpLaw K)

/-- a pointwise linear identity between reward vectors passes to the means -/
theorem mean_of_pointwise (S : ℕ → Matrix ι ι K) (s : Finset J) (t : Finset J')
    (w : J → K) (w' : J' → K) (r : J → ι → K) (r' : J' → ι → K)
    (h : ∀ i, ∑ j ∈ s, w j * r j i = ∑ j' ∈ t, w' j' * r' j' i) (α : ι → K) (fs : List (ℕ × K)) :
    ∑ j ∈ s, w j * accumVal L S (fun (_ : Fin 1) => r j) α fs
      = ∑ j' ∈ t, w' j' * accumVal L S (fun (_ : Fin 1) => r' j') α fs := by
  rw [← mean_wsum, ← mean_wsum]
  simp only [h]

/-- a pointwise linear identity between reward vectors passes to the covariances -/
theorem cov_of_pointwise (S : ℕ → Matrix ι ι K) (s : Finset J) (t : Finset J')
    (w : J → K) (w' : J' → K) (r : J → ι → K) (r' : J' → ι → K)
    (h : ∀ i, ∑ j ∈ s, w j * r j i = ∑ j' ∈ t, w' j' * r' j' i) (α : ι → K) (fs : List (ℕ × K)) :
    ∑ j ∈ s, ∑ j₂ ∈ s, w j * w j₂ * covVal L S (r j) (r j₂) α fs
      = ∑ j' ∈ t, ∑ j₂' ∈ t, w' j' * w' j₂' * covVal L S (r' j') (r' j₂') α fs := by
  rw [← covVal_bilinear, ← covVal_bilinear]
  simp only [h]

/-- a pointwise linear identity between reward vectors passes to the raw second moments -/
theorem second_of_pointwise (S : ℕ → Matrix ι ι K) (s : Finset J) (t : Finset J')
    (w : J → K) (w' : J' → K) (r : J → ι → K) (r' : J' → ι → K)
    (h : ∀ i, ∑ j ∈ s, w j * r j i = ∑ j' ∈ t, w' j' * r' j' i) (α : ι → K) (fs : List (ℕ × K)) :
    ∑ j ∈ s, ∑ j₂ ∈ s, w j * w j₂ * accumVal L S (![r j, r j₂]) α fs
      = ∑ j' ∈ t, ∑ j₂' ∈ t, w' j' * w' j₂' * accumVal L S (![r' j', r' j₂']) α fs := by
  rw [← second_bilinear, ← second_bilinear]
  simp only [h]

theorem covVal_self (S : ℕ → Matrix ι ι K) (u : ι → K) (α : ι → K) (fs : List (ℕ × K)) :
    covVal L S u u α fs
      = accumVal L S (![u, u]) α fs - (accumVal L S (fun (_ : Fin 1) => u) α fs) ^ 2 := by
  unfold covVal meanVal
  rw [crossMoment_self]
  ring

theorem covVal_smul_smul (S : ℕ → Matrix ι ι K) (c c' : K) (u v : ι → K) (α : ι → K)
    (fs : List (ℕ × K)) :
    covVal L S (fun i => c * u i) (fun i => c' * v i) α fs = c * c' * covVal L S u v α fs := by
  have := covVal_bilinear L S ({()} : Finset Unit) ({()} : Finset Unit) (fun _ => c) (fun _ => c')
    (fun _ => u) (fun _ => v) α fs
  simpa using this

/-- **C11 (means).**  If the bins sum to the total pointwise (`sum_sfs_eq_tbl` on the concrete
states), the expected bins sum to the expected total. -/
theorem C11_sum_mean (S : ℕ → Matrix ι ι K) (s : Finset J) (r : J → ι → K) (rtot : ι → K)
    (h : ∀ i, ∑ j ∈ s, r j i = rtot i) (α : ι → K) (fs : List (ℕ × K)) :
    ∑ j ∈ s, accumVal L S (fun (_ : Fin 1) => r j) α fs
      = accumVal L S (fun (_ : Fin 1) => rtot) α fs := by
  rw [← sum_mean]
  simp only [h]

/-- **C11 (raw second moments).** -/
theorem C11_sum_second (S : ℕ → Matrix ι ι K) (s : Finset J) (r : J → ι → K) (rtot : ι → K)
    (h : ∀ i, ∑ j ∈ s, r j i = rtot i) (α : ι → K) (fs : List (ℕ × K)) :
    ∑ j ∈ s, ∑ j' ∈ s, accumVal L S (![r j, r j']) α fs
      = accumVal L S (![rtot, rtot]) α fs := by
  rw [← sum_cov_raw]
  simp only [h]

/-- **C11 (covariances).**  If the bins sum to the total pointwise, the covariances of the bins
sum to the variance of the total, where
`cov(X_j, X_j') = (m(j,j') + m(j',j))/2 - m(j) m(j')` (`covVal`). -/
theorem C11_sum_cov (S : ℕ → Matrix ι ι K) (s : Finset J) (r : J → ι → K) (rtot : ι → K)
    (h : ∀ i, ∑ j ∈ s, r j i = rtot i) (α : ι → K) (fs : List (ℕ × K)) :
    ∑ j ∈ s, ∑ j' ∈ s, covVal L S (r j) (r j') α fs
      = accumVal L S (![rtot, rtot]) α fs
        - (accumVal L S (fun (_ : Fin 1) => rtot) α fs) ^ 2 := by
  rw [sum_cov, ← covVal_self]
  simp only [h]

/-- **C11 (weighted bins, means).**  If `∑ j, w j * r j = N * h` pointwise
(`weighted_sfs_eq_n_height`), the same holds for the means. -/
theorem C11_weighted (S : ℕ → Matrix ι ι K) (s : Finset J) (w : J → K) (r : J → ι → K)
    (N : K) (hgt : ι → K) (h : ∀ i, ∑ j ∈ s, w j * r j i = N * hgt i) (α : ι → K)
    (fs : List (ℕ × K)) :
    ∑ j ∈ s, w j * accumVal L S (fun (_ : Fin 1) => r j) α fs
      = N * accumVal L S (fun (_ : Fin 1) => hgt) α fs := by
  have := mean_of_pointwise L S s ({()} : Finset Unit) w (fun _ => N) r (fun _ => hgt)
    (by simpa using h) α fs
  simpa using this

/-- **C11 (weighted bins, covariances).**  The weighted covariances sum to `N²` times the variance
of the tree height. -/
theorem C11_weighted_cov (S : ℕ → Matrix ι ι K) (s : Finset J) (w : J → K) (r : J → ι → K)
    (N : K) (hgt : ι → K) (h : ∀ i, ∑ j ∈ s, w j * r j i = N * hgt i) (α : ι → K)
    (fs : List (ℕ × K)) :
    ∑ j ∈ s, ∑ j' ∈ s, w j * w j' * covVal L S (r j) (r j') α fs
      = N ^ 2 * (accumVal L S (![hgt, hgt]) α fs
          - (accumVal L S (fun (_ : Fin 1) => hgt) α fs) ^ 2) := by
  have := cov_of_pointwise L S s ({()} : Finset Unit) w (fun _ => N) r (fun _ => hgt)
    (by simpa using h) α fs
  rw [this, ← covVal_self]
  simp only [sum_singleton]
  ring

/-- **C11 (fold, means).**  If the folded reward is the fold of the unfolded one pointwise
(`folded_eq_fold`), the folded mean is the fold of the unfolded means. -/
theorem C11_fold (S : ℕ → Matrix ι ι K) (n : ℕ) (ru rf : ℕ → ι → K)
    (h : ∀ j i, rf j i = ru j i + (if j = n - j then 0 else ru (n - j) i)) (j : ℕ) (α : ι → K)
    (fs : List (ℕ × K)) :
    accumVal L S (fun (_ : Fin 1) => rf j) α fs
      = accumVal L S (fun (_ : Fin 1) => ru j) α fs
        + (if j = n - j then 0 else accumVal L S (fun (_ : Fin 1) => ru (n - j)) α fs) := by
  have e : rf j = fun i => ∑ b ∈ (univ : Finset Bool),
      (if b then (if j = n - j then (0 : K) else 1) else 1) * ru (if b then n - j else j) i := by
    funext i
    rw [h, Fintype.sum_bool]
    simp only [if_true, Bool.false_eq_true, if_false]
    by_cases h1 : j = n - j
    · simp only [if_pos h1]; ring
    · simp only [if_neg h1]; ring
  rw [e, mean_wsum, Fintype.sum_bool]
  simp only [if_true, Bool.false_eq_true, if_false]
  by_cases h1 : j = n - j
  · simp only [if_pos h1]; ring
  · simp only [if_neg h1]; ring

/-- **C11 (fold, covariances).**  The covariance of two folded bins is the fold of the unfolded
covariance matrix. -/
theorem C11_fold_cov (S : ℕ → Matrix ι ι K) (n : ℕ) (ru rf : ℕ → ι → K)
    (h : ∀ j i, rf j i = ru j i + (if j = n - j then 0 else ru (n - j) i)) (j j' : ℕ)
    (α : ι → K) (fs : List (ℕ × K)) :
    covVal L S (rf j) (rf j') α fs
      = covVal L S (ru j) (ru j') α fs
        + (if j' = n - j' then 0 else covVal L S (ru j) (ru (n - j')) α fs)
        + (if j = n - j then 0 else covVal L S (ru (n - j)) (ru j') α fs)
        + (if j = n - j ∨ j' = n - j' then 0
            else covVal L S (ru (n - j)) (ru (n - j')) α fs) := by
  have e : ∀ j, rf j = fun i => ∑ b ∈ (univ : Finset Bool),
      (if b then (if j = n - j then (0 : K) else 1) else 1) * ru (if b then n - j else j) i := by
    intro j
    funext i
    rw [h, Fintype.sum_bool]
    simp only [if_true, Bool.false_eq_true, if_false]
    by_cases h1 : j = n - j
    · simp only [if_pos h1]; ring
    · simp only [if_neg h1]; ring
  rw [e j, e j', covVal_bilinear]
  simp only [Fintype.sum_bool, if_true, Bool.false_eq_true, if_false]
  by_cases h1 : j = n - j <;> by_cases h2 : j' = n - j'
  · simp only [if_pos h1, if_pos h2, if_pos (Or.inl h1 : j = n - j ∨ j' = n - j')]; ring
  · simp only [if_pos h1, if_neg h2, if_pos (Or.inl h1 : j = n - j ∨ j' = n - j')]; ring
  · simp only [if_neg h1, if_pos h2, if_pos (Or.inr h2 : j = n - j ∨ j' = n - j')]; ring
  · simp only [if_neg h1, if_neg h2, if_neg (not_or.mpr ⟨h1, h2⟩)]; ring

/-- **C11 (fold, totals).**  If moreover the unfolded bins `1 … n-1` sum to the total pointwise,
so do the folded bins `1 … n/2`, hence their means sum to the mean total. -/
theorem C11_fold_total (S : ℕ → Matrix ι ι K) (sf : Finset ℕ) (rf : ℕ → ι → K) (rtot : ι → K)
    (h : ∀ i, ∑ j ∈ sf, rf j i = rtot i) (α : ι → K) (fs : List (ℕ × K)) :
    ∑ j ∈ sf, accumVal L S (fun (_ : Fin 1) => rf j) α fs
      = accumVal L S (fun (_ : Fin 1) => rtot) α fs :=
  C11_sum_mean L S sf rf rtot h α fs

end C11


/-! ## 4'. The corollaries for the model's reward vectors (`PGModel.Rewards`) -/

section Concrete

open Matrix

variable {ι : Type} [Fintype ι] [DecidableEq ι]
variable (L : ExpLaw ℚ) (S : ℕ → Matrix ι ι ℚ) (n D : ℕ) (dec : ι → State)

/-- the reward vector of a model reward on an enumerated state space -/
def rvec (n : ℕ) (dec : ι → State) (r : Reward) : ι → ℚ := fun i => Reward.eval n (dec i) r

/-- expected SFS bins sum to the expected total branch length -/
theorem C11_model_sum_mean (hn : 2 ≤ n) (hbc : ∀ i, IsBC n D (dec i)) (hm : ∀ i, massOK n (dec i))
    (α : ι → ℚ) (fs : List (ℕ × ℚ)) :
    ∑ j ∈ Icc 1 (n - 1), accumVal L S (fun (_ : Fin 1) => rvec n dec (.unfoldedSFS j)) α fs
      = accumVal L S (fun (_ : Fin 1) => rvec n dec .totalBranchLength) α fs :=
  C11_sum_mean L S _ _ _ (fun i => sum_sfs_eq_tbl n D (dec i) hn (hbc i) (hm i)) α fs

/-- the covariances of the SFS bins sum to the variance of the total branch length -/
theorem C11_model_sum_cov (hn : 2 ≤ n) (hbc : ∀ i, IsBC n D (dec i)) (hm : ∀ i, massOK n (dec i))
    (α : ι → ℚ) (fs : List (ℕ × ℚ)) :
    ∑ j ∈ Icc 1 (n - 1), ∑ j' ∈ Icc 1 (n - 1),
        covVal L S (rvec n dec (.unfoldedSFS j)) (rvec n dec (.unfoldedSFS j')) α fs
      = accumVal L S (![rvec n dec .totalBranchLength, rvec n dec .totalBranchLength]) α fs
        - (accumVal L S (fun (_ : Fin 1) => rvec n dec .totalBranchLength) α fs) ^ 2 :=
  C11_sum_cov L S _ _ _ (fun i => sum_sfs_eq_tbl n D (dec i) hn (hbc i) (hm i)) α fs

/-- the size-weighted expected SFS bins sum to `n` times the expected tree height -/
theorem C11_model_weighted (hn : 2 ≤ n) (hbc : ∀ i, IsBC n D (dec i)) (hm : ∀ i, massOK n (dec i))
    (α : ι → ℚ) (fs : List (ℕ × ℚ)) :
    ∑ j ∈ Icc 1 (n - 1), (j : ℚ) * accumVal L S (fun (_ : Fin 1) => rvec n dec (.unfoldedSFS j)) α fs
      = (n : ℚ) * accumVal L S (fun (_ : Fin 1) => rvec n dec .treeHeight) α fs :=
  C11_weighted L S _ (fun j : ℕ => (j : ℚ)) _ _ _
    (fun i => weighted_sfs_eq_n_height n D (dec i) hn (hbc i) (hm i)) α fs

/-- the size-weighted covariances of the SFS bins sum to `n²` times the variance of the tree
height -/
theorem C11_model_weighted_cov (hn : 2 ≤ n) (hbc : ∀ i, IsBC n D (dec i))
    (hm : ∀ i, massOK n (dec i)) (α : ι → ℚ) (fs : List (ℕ × ℚ)) :
    ∑ j ∈ Icc 1 (n - 1), ∑ j' ∈ Icc 1 (n - 1), (j : ℚ) * (j' : ℚ) *
        covVal L S (rvec n dec (.unfoldedSFS j)) (rvec n dec (.unfoldedSFS j')) α fs
      = (n : ℚ) ^ 2 * (accumVal L S (![rvec n dec .treeHeight, rvec n dec .treeHeight]) α fs
          - (accumVal L S (fun (_ : Fin 1) => rvec n dec .treeHeight) α fs) ^ 2) :=
  C11_weighted_cov L S _ (fun j : ℕ => (j : ℚ)) _ _ _
    (fun i => weighted_sfs_eq_n_height n D (dec i) hn (hbc i) (hm i)) α fs

/-- the expected folded spectrum is the fold of the expected unfolded spectrum -/
theorem C11_model_fold (j : ℕ) (α : ι → ℚ) (fs : List (ℕ × ℚ)) :
    accumVal L S (fun (_ : Fin 1) => rvec n dec (.foldedSFS j)) α fs
      = accumVal L S (fun (_ : Fin 1) => rvec n dec (.unfoldedSFS j)) α fs
        + (if j = n - j then 0
            else accumVal L S (fun (_ : Fin 1) => rvec n dec (.unfoldedSFS (n - j))) α fs) :=
  C11_fold L S n (fun j => rvec n dec (.unfoldedSFS j)) (fun j => rvec n dec (.foldedSFS j))
    (fun j i => folded_eq_fold n (dec i) j) j α fs

/-- the covariance matrix of the folded spectrum is the fold of the unfolded one -/
theorem C11_model_fold_cov (j j' : ℕ) (α : ι → ℚ) (fs : List (ℕ × ℚ)) :
    covVal L S (rvec n dec (.foldedSFS j)) (rvec n dec (.foldedSFS j')) α fs
      = covVal L S (rvec n dec (.unfoldedSFS j)) (rvec n dec (.unfoldedSFS j')) α fs
        + (if j' = n - j' then 0
            else covVal L S (rvec n dec (.unfoldedSFS j)) (rvec n dec (.unfoldedSFS (n - j'))) α fs)
        + (if j = n - j then 0
            else covVal L S (rvec n dec (.unfoldedSFS (n - j))) (rvec n dec (.unfoldedSFS j')) α fs)
        + (if j = n - j ∨ j' = n - j' then 0
            else covVal L S (rvec n dec (.unfoldedSFS (n - j)))
              (rvec n dec (.unfoldedSFS (n - j'))) α fs) :=
  C11_fold_cov L S n (fun j => rvec n dec (.unfoldedSFS j)) (fun j => rvec n dec (.foldedSFS j))
    (fun j i => folded_eq_fold n (dec i) j) j j' α fs

/-- expected folded bins sum to the expected total branch length -/
theorem C11_model_folded_sum_mean (hn : 2 ≤ n) (hbc : ∀ i, IsBC n D (dec i))
    (hm : ∀ i, massOK n (dec i)) (α : ι → ℚ) (fs : List (ℕ × ℚ)) :
    ∑ j ∈ Icc 1 (n / 2), accumVal L S (fun (_ : Fin 1) => rvec n dec (.foldedSFS j)) α fs
      = accumVal L S (fun (_ : Fin 1) => rvec n dec .totalBranchLength) α fs :=
  C11_sum_mean L S _ _ _ (fun i => sum_folded_eq_tbl n D (dec i) hn (hbc i) (hm i)) α fs

/-- the covariances of the folded bins sum to the variance of the total branch length -/
theorem C11_model_folded_sum_cov (hn : 2 ≤ n) (hbc : ∀ i, IsBC n D (dec i))
    (hm : ∀ i, massOK n (dec i)) (α : ι → ℚ) (fs : List (ℕ × ℚ)) :
    ∑ j ∈ Icc 1 (n / 2), ∑ j' ∈ Icc 1 (n / 2),
        covVal L S (rvec n dec (.foldedSFS j)) (rvec n dec (.foldedSFS j')) α fs
      = accumVal L S (![rvec n dec .totalBranchLength, rvec n dec .totalBranchLength]) α fs
        - (accumVal L S (fun (_ : Fin 1) => rvec n dec .totalBranchLength) α fs) ^ 2 :=
  C11_sum_cov L S _ _ _ (fun i => sum_folded_eq_tbl n D (dec i) hn (hbc i) (hm i)) α fs

end Concrete

end Conservation
end PG

#print axioms PG.Conservation.block_to_lineage
#print axioms PG.Conservation.accumVal_slot_add
#print axioms PG.Conservation.accumVal_slot_smul
#print axioms PG.Conservation.accumVal_slot_linear
#print axioms PG.Conservation.accumVal_update_sum
#print axioms PG.Conservation.sum_mean
#print axioms PG.Conservation.sum_cov_raw
#print axioms PG.Conservation.second_bilinear
#print axioms PG.Conservation.covVal_bilinear
#print axioms PG.Conservation.sum_cov
#print axioms PG.Conservation.block_lineage_intertwine
#print axioms PG.Conservation.block_lineage_moments
#print axioms PG.Conservation.block_lineage_cdf
#print axioms PG.Conservation.mean_of_pointwise
#print axioms PG.Conservation.cov_of_pointwise
#print axioms PG.Conservation.second_of_pointwise
#print axioms PG.Conservation.C11_sum_mean
#print axioms PG.Conservation.C11_sum_second
#print axioms PG.Conservation.C11_sum_cov
#print axioms PG.Conservation.C11_weighted
#print axioms PG.Conservation.C11_weighted_cov
#print axioms PG.Conservation.C11_fold
#print axioms PG.Conservation.C11_fold_cov
#print axioms PG.Conservation.C11_spaces_agree
#print axioms PG.Conservation.C11_model_sum_mean
#print axioms PG.Conservation.C11_model_sum_cov
#print axioms PG.Conservation.C11_model_weighted
#print axioms PG.Conservation.C11_model_weighted_cov
#print axioms PG.Conservation.C11_model_fold
#print axioms PG.Conservation.C11_model_fold_cov
#print axioms PG.Conservation.C11_model_folded_sum_mean
#print axioms PG.Conservation.C11_model_folded_sum_cov
