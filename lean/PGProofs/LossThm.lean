/-
PGProofs.LossThm — the loss functions of inference (property C19, clause "loss functions").

Model: PGModel/Loss.lean (`l1`, `linf`, `sqL2` over `Rat`, exact; driver command `loss`), mirror of
/repo/phasegen/norms.py.  Over ℝ this file defines the p-th power sums `lpow p`, the negative Poisson
log-likelihood `poissonNLL` and the seeded variant `poissonNLLSkip` (sum over the classes with a positive
observed count only).  `log k!` enters as an arbitrary function `c : ℝ → ℝ` of the observed count only: it does
not depend on the modelled value and cancels in every comparison (no Gamma function needed).
All modelled values are assumed positive (`fastdfe`'s replacement of `mu = 0` by an epsilon is out of scope).

Contents
  a. norms: non-negative, zero iff the vectors agree (`l1`, `linf`, `sqL2` over `Rat`; `lpow p` over ℝ; casts)
  b. one Poisson term: `mu - k log mu ≥ k - k log k`, strict unless `mu = k` (`k > 0`); `k = 0`: the term is `mu`
  c. `poissonNLL k mu ≥ poissonNLL k k` with equality iff `mu = k`; noise-free data from an identifiable model:
     the generating parameter is the unique minimiser (Poisson and norms); combined with `C19_best`:
     if some run returns a global minimiser, `params_inferred` is the generating parameter
  d. the seeded skip variant: `poissonNLL = poissonNLLSkip + (mass in the empty classes)`; closed-form
     minimisers of both along a scaling family `N ↦ N • a`; a concrete instance where they differ
  e. non-vacuity examples
-/
import PGModel.Loss
import PGModel.Inference
import PGProofs.InferenceThm
import Mathlib.Analysis.SpecialFunctions.Log.Basic
import Mathlib.Algebra.Order.Ring.Rat
import Mathlib.Algebra.Order.BigOperators.Group.List
import Mathlib.Tactic.Linarith
import Mathlib.Tactic.Positivity
import Mathlib.Tactic.NormNum
import Mathlib.Tactic.FieldSimp
import Mathlib.Tactic.Ring

namespace PG.Loss

/-! ## a. the norms over `Rat` (the driver's definitions) -/

theorem absQ_nonneg (q : Rat) : 0 ≤ absQ q := by
  unfold absQ
  split_ifs with h
  · exact h
  · linarith [not_le.1 h]

theorem absQ_eq_zero_iff (q : Rat) : absQ q = 0 ↔ q = 0 := by
  unfold absQ
  split_ifs with h
  · rfl
  · constructor
    · intro h'; linarith
    · intro h'; subst h'; simp

theorem absQ_eq_abs (q : Rat) : absQ q = |q| := by
  unfold absQ
  split_ifs with h
  · exact (abs_of_nonneg h).symm
  · exact (abs_of_neg (not_le.1 h)).symm

theorem maxQ_eq_max (a b : Rat) : maxQ a b = max a b := by
  unfold maxQ
  split_ifs with h
  · exact (max_eq_right h).symm
  · exact (max_eq_left (le_of_lt (not_le.1 h))).symm

theorem sum_map_nonneg (f : Rat → Rat) (hf : ∀ d, 0 ≤ f d) (l : List Rat) : 0 ≤ (l.map f).sum := by
  induction l with
  | nil => simp
  | cons x xs ih =>
    simp only [List.map_cons, List.sum_cons]
    exact add_nonneg (hf x) ih

/-- A sum of entrywise penalties `f (a_i - b_i)` with `f ≥ 0`, `f d = 0 ↔ d = 0` vanishes iff `a = b`. -/
theorem sum_diffs_eq_zero_iff (f : Rat → Rat) (hf : ∀ d, 0 ≤ f d) (hz : ∀ d, f d = 0 ↔ d = 0) :
    ∀ (a b : List Rat), a.length = b.length → (((diffs a b).map f).sum = 0 ↔ a = b)
  | [], [], _ => by simp [diffs]
  | [], _ :: _, h => by simp at h
  | _ :: _, [], h => by simp at h
  | x :: xs, y :: ys, h => by
    have ih := sum_diffs_eq_zero_iff f hf hz xs ys (by simpa using h)
    have h1 := hf (x - y)
    have h2 := sum_map_nonneg f hf (diffs xs ys)
    unfold diffs at *
    simp only [List.zipWith_cons_cons, List.map_cons, List.sum_cons, List.cons.injEq]
    constructor
    · intro hs
      have e1 : f (x - y) = 0 := by linarith
      have e2 : ((List.zipWith (· - ·) xs ys).map f).sum = 0 := by linarith
      exact ⟨sub_eq_zero.1 ((hz _).1 e1), ih.1 e2⟩
    · rintro ⟨rfl, hxy⟩
      rw [ih.2 hxy, (hz _).2 (sub_self _)]
      simp

theorem l1_nonneg (a b : List Rat) : 0 ≤ l1 a b := sum_map_nonneg absQ absQ_nonneg _

theorem l1_eq_zero_iff (a b : List Rat) (h : a.length = b.length) : l1 a b = 0 ↔ a = b :=
  sum_diffs_eq_zero_iff absQ absQ_nonneg absQ_eq_zero_iff a b h

theorem sqL2_nonneg (a b : List Rat) : 0 ≤ sqL2 a b :=
  sum_map_nonneg (fun d => d * d) (fun d => mul_self_nonneg d) _

theorem sqL2_eq_zero_iff (a b : List Rat) (h : a.length = b.length) : sqL2 a b = 0 ↔ a = b :=
  sum_diffs_eq_zero_iff (fun d => d * d) (fun d => mul_self_nonneg d) (fun _ => mul_self_eq_zero) a b h

theorem foldr_maxQ_nonneg (l : List Rat) : 0 ≤ l.foldr maxQ 0 := by
  induction l with
  | nil => simp
  | cons x xs ih =>
    simp only [List.foldr_cons, maxQ]
    split_ifs with h
    · exact ih
    · exact le_trans ih (le_of_lt (not_le.1 h))

/-- `foldr maxQ 0` is an upper bound of the list … -/
theorem le_foldr_maxQ (l : List Rat) : ∀ d ∈ l, d ≤ l.foldr maxQ 0 := by
  induction l with
  | nil => simp
  | cons x xs ih =>
    intro d hd
    simp only [List.foldr_cons, maxQ]
    rcases List.mem_cons.1 hd with rfl | hd
    · split_ifs with h
      · exact h
      · exact le_refl _
    · split_ifs with h
      · exact ih d hd
      · exact le_trans (ih d hd) (le_of_lt (not_le.1 h))

/-- … and, for a non-empty list of non-negative numbers, one of its entries. -/
theorem foldr_maxQ_mem (l : List Rat) (hne : l ≠ []) (hnn : ∀ d ∈ l, 0 ≤ d) : l.foldr maxQ 0 ∈ l := by
  induction l with
  | nil => exact absurd rfl hne
  | cons x xs ih =>
    simp only [List.foldr_cons, maxQ]
    split_ifs with h
    · by_cases hx : xs = []
      · subst hx
        simp only [List.foldr_nil] at h ⊢
        have := hnn x (List.mem_cons_self ..)
        have : x = 0 := le_antisymm h this
        simp [this]
      · exact List.mem_cons_of_mem _ (ih hx fun d hd => hnn d (List.mem_cons_of_mem _ hd))
    · exact List.mem_cons_self ..

theorem linf_nonneg (a b : List Rat) : 0 ≤ linf a b := foldr_maxQ_nonneg _

/-- `linf` is the largest entry of `|a - b|`: an upper bound of all entries and (non-empty vectors) attained. -/
theorem linf_spec (a b : List Rat) :
    (∀ d ∈ (diffs a b).map absQ, d ≤ linf a b) ∧
      (diffs a b ≠ [] → linf a b ∈ (diffs a b).map absQ) := by
  refine ⟨le_foldr_maxQ _, fun hne => foldr_maxQ_mem _ (by simpa using hne) ?_⟩
  intro d hd
  obtain ⟨e, _, rfl⟩ := List.mem_map.1 hd
  exact absQ_nonneg e

theorem linf_eq_zero_iff : ∀ (a b : List Rat), a.length = b.length → (linf a b = 0 ↔ a = b)
  | [], [], _ => by simp [linf, diffs]
  | [], _ :: _, h => by simp at h
  | _ :: _, [], h => by simp at h
  | x :: xs, y :: ys, h => by
    have ih := linf_eq_zero_iff xs ys (by simpa using h)
    have h1 := absQ_nonneg (x - y)
    have h2 := linf_nonneg xs ys
    unfold linf diffs at *
    simp only [List.zipWith_cons_cons, List.map_cons, List.foldr_cons, List.cons.injEq, maxQ]
    constructor
    · intro hs
      split_ifs at hs with hle
      · have e1 : absQ (x - y) = 0 := le_antisymm (hs ▸ hle) h1
        exact ⟨sub_eq_zero.1 ((absQ_eq_zero_iff _).1 e1), ih.1 hs⟩
      · have hlt := not_le.1 hle
        have e2 : ((List.zipWith (· - ·) xs ys).map absQ).foldr maxQ 0 = 0 := by
          exact le_antisymm (le_trans (le_of_lt hlt) (le_of_eq hs)) h2
        exact ⟨sub_eq_zero.1 ((absQ_eq_zero_iff _).1 hs), ih.1 e2⟩
    · rintro ⟨rfl, hxy⟩
      have e2 := ih.2 hxy
      rw [e2, (absQ_eq_zero_iff _).2 (sub_self _)]
      simp

/-! ### the norms over ℝ: `lpow p a b = Σ_i |a_i - b_i| ^ p` -/

/-- `np.linalg.norm(a - b, ord=p) ** p` for an integer order `p ≥ 1`. -/
def lpow (p : ℕ) (a b : List ℝ) : ℝ := (List.zipWith (fun x y => |x - y| ^ p) a b).sum

theorem lpow_nonneg (p : ℕ) : ∀ (a b : List ℝ), 0 ≤ lpow p a b
  | [], _ => by simp [lpow]
  | _ :: _, [] => by simp [lpow]
  | x :: xs, y :: ys => by
    have ih := lpow_nonneg p xs ys
    unfold lpow at *
    simp only [List.zipWith_cons_cons, List.sum_cons]
    positivity

theorem lpow_eq_zero_iff (p : ℕ) (hp : p ≠ 0) :
    ∀ (a b : List ℝ), a.length = b.length → (lpow p a b = 0 ↔ a = b)
  | [], [], _ => by simp [lpow]
  | [], _ :: _, h => by simp at h
  | _ :: _, [], h => by simp at h
  | x :: xs, y :: ys, h => by
    have ih := lpow_eq_zero_iff p hp xs ys (by simpa using h)
    have h2 := lpow_nonneg p xs ys
    have h1 : 0 ≤ |x - y| ^ p := by positivity
    unfold lpow at *
    simp only [List.zipWith_cons_cons, List.sum_cons, List.cons.injEq]
    constructor
    · intro hs
      have e1 : |x - y| ^ p = 0 := by linarith
      have e2 : (List.zipWith (fun x y => |x - y| ^ p) xs ys).sum = 0 := by linarith
      exact ⟨sub_eq_zero.1 (abs_eq_zero.1 (pow_eq_zero_iff hp |>.1 e1)), ih.1 e2⟩
    · rintro ⟨rfl, hxy⟩
      rw [ih.2 hxy]
      simp [hp]

/-- The model's `l1` is `lpow 1` (the driver's exact rational is the real 1-norm of the cast vectors). -/
theorem l1_cast : ∀ (a b : List Rat), ((l1 a b : Rat) : ℝ) = lpow 1 (a.map (↑)) (b.map (↑))
  | [], _ => by simp [l1, diffs, lpow]
  | _ :: _, [] => by simp [l1, diffs, lpow]
  | x :: xs, y :: ys => by
    have ih := l1_cast xs ys
    unfold l1 diffs lpow at *
    simp only [List.zipWith_cons_cons, List.map_cons, List.sum_cons, Rat.cast_add, ih, absQ_eq_abs]
    push_cast
    ring

/-- The model's `sqL2` is `lpow 2`, the square of the Euclidean norm. -/
theorem sqL2_cast : ∀ (a b : List Rat), ((sqL2 a b : Rat) : ℝ) = lpow 2 (a.map (↑)) (b.map (↑))
  | [], _ => by simp [sqL2, diffs, lpow]
  | _ :: _, [] => by simp [sqL2, diffs, lpow]
  | x :: xs, y :: ys => by
    have ih := sqL2_cast xs ys
    unfold sqL2 diffs lpow at *
    simp only [List.zipWith_cons_cons, List.map_cons, List.sum_cons, Rat.cast_add, ih, sq_abs]
    push_cast
    ring

/-! ## b. one Poisson term -/

open Real in
/-- **One class of the Poisson likelihood**: for an observed count `k ≥ 0` and a modelled value `mu > 0`,
`mu - k log mu ≥ k - k log k` (for `k = 0` this reads `mu ≥ 0`, Lean's `log 0 = 0` is multiplied by 0). -/
theorem poisson_term_min {k mu : ℝ} (hk : 0 ≤ k) (hmu : 0 < mu) :
    k - k * log k ≤ mu - k * log mu := by
  rcases hk.eq_or_lt with rfl | hk
  · simpa using hmu.le
  · have h := Real.log_le_sub_one_of_pos (div_pos hmu hk)
    rw [Real.log_div hmu.ne' hk.ne'] at h
    have h2 : k * (log mu - log k) ≤ k * (mu / k - 1) := mul_le_mul_of_nonneg_left h hk.le
    have e : k * (mu / k - 1) = mu - k := by field_simp
    rw [e] at h2
    linarith

open Real in
/-- For `k > 0` the inequality is strict unless `mu = k`. -/
theorem poisson_term_min_strict {k mu : ℝ} (hk : 0 < k) (hmu : 0 < mu) (hne : mu ≠ k) :
    k - k * log k < mu - k * log mu := by
  have h := Real.log_lt_sub_one_of_pos (div_pos hmu hk) (by
    intro h1; exact hne (by field_simp at h1; linarith))
  rw [Real.log_div hmu.ne' hk.ne'] at h
  have h2 : k * (log mu - log k) < k * (mu / k - 1) := mul_lt_mul_of_pos_left h hk
  have e : k * (mu / k - 1) = mu - k := by field_simp
  rw [e] at h2
  linarith

open Real in
theorem poisson_term_eq_iff {k mu : ℝ} (hk : 0 < k) (hmu : 0 < mu) :
    mu - k * log mu = k - k * log k ↔ mu = k := by
  constructor
  · intro h
    by_contra hne
    exact absurd h (ne_of_gt (poisson_term_min_strict hk hmu hne))
  · rintro rfl; rfl

/-- An empty class (`k = 0`): the term is the modelled value itself, positive, and not minimised by any
admissible `mu > 0` (it decreases as `mu → 0`). -/
theorem poisson_term_zero (mu : ℝ) (hmu : 0 < mu) :
    mu - 0 * Real.log mu = mu ∧ 0 < mu - 0 * Real.log mu ∧
      ∃ mu', 0 < mu' ∧ mu' - 0 * Real.log mu' < mu - 0 * Real.log mu := by
  refine ⟨by ring, by linarith, mu / 2, by positivity, ?_⟩
  linarith

/-! ## c. the Poisson likelihood is minimised at the truth -/

/-- `PoissonLikelihood.compute(observed = k, modelled = mu)` = `- Σ_i (k_i log mu_i - mu_i - log k_i!)`,
with `c k_i` for `log k_i!`. -/
noncomputable def poissonNLL (c : ℝ → ℝ) (k mu : List ℝ) : ℝ :=
  (List.zipWith (fun ki mi => mi - ki * Real.log mi + c ki) k mu).sum

/-- The seeded variant: `seen = k > 0; - log_poisson(mu[seen], k[seen]).sum()`. -/
noncomputable def poissonNLLSkip (c : ℝ → ℝ) (k mu : List ℝ) : ℝ :=
  (List.zipWith (fun ki mi => if 0 < ki then mi - ki * Real.log mi + c ki else 0) k mu).sum

/-- Lower bound for non-negative counts (classes with `k_i = 0` contribute `c 0` on the left). -/
theorem poissonNLL_ge (c : ℝ → ℝ) :
    ∀ (k mu : List ℝ), k.length = mu.length → (∀ x ∈ k, 0 ≤ x) → (∀ x ∈ mu, 0 < x) →
      poissonNLL c k k ≤ poissonNLL c k mu
  | [], [], _, _, _ => le_refl _
  | [], _ :: _, h, _, _ => by simp at h
  | _ :: _, [], h, _, _ => by simp at h
  | x :: xs, m :: ms, h, hk, hm => by
    have ih := poissonNLL_ge c xs ms (by simpa using h) (fun y hy => hk y (List.mem_cons_of_mem _ hy))
      (fun y hy => hm y (List.mem_cons_of_mem _ hy))
    have ht := poisson_term_min (hk x (List.mem_cons_self ..)) (hm m (List.mem_cons_self ..))
    unfold poissonNLL at *
    simp only [List.zipWith_cons_cons, List.sum_cons]
    linarith

/-- **The Poisson likelihood is minimised at the truth**: positive observed counts `k`, positive modelled
values `mu` of the same length: `poissonNLL k mu ≥ poissonNLL k k`, with equality iff `mu = k`. -/
theorem poissonNLL_min_at_truth (c : ℝ → ℝ) :
    ∀ (k mu : List ℝ), k.length = mu.length → (∀ x ∈ k, 0 < x) → (∀ x ∈ mu, 0 < x) →
      poissonNLL c k k ≤ poissonNLL c k mu ∧ (poissonNLL c k mu = poissonNLL c k k ↔ mu = k)
  | [], [], _, _, _ => ⟨le_refl _, by simp⟩
  | [], _ :: _, h, _, _ => by simp at h
  | _ :: _, [], h, _, _ => by simp at h
  | x :: xs, m :: ms, h, hk, hm => by
    obtain ⟨ih1, ih2⟩ := poissonNLL_min_at_truth c xs ms (by simpa using h)
      (fun y hy => hk y (List.mem_cons_of_mem _ hy)) (fun y hy => hm y (List.mem_cons_of_mem _ hy))
    have hx := hk x (List.mem_cons_self ..)
    have hm' := hm m (List.mem_cons_self ..)
    have ht := poisson_term_min hx.le hm'
    have hte := poisson_term_eq_iff hx hm'
    unfold poissonNLL at *
    simp only [List.zipWith_cons_cons, List.sum_cons, List.cons.injEq]
    refine ⟨by linarith, ?_, ?_⟩
    · intro hs
      exact ⟨hte.1 (by linarith), ih2.1 (by linarith)⟩
    · rintro ⟨rfl, rfl⟩; rfl

/-! ### noise-free data from an identifiable model -/

/-- **Noise-free recovery (Poisson likelihood)**: the model map `m` has positive entries of a fixed length and
the observation is `m θstar`.  Then `θstar` minimises `θ ↦ poissonNLL (m θstar) (m θ)`, a parameter attains
the minimum iff it predicts the same values, and if `m` is injective (identifiable) `θstar` is the unique
minimiser. -/
theorem noise_free_recovered {Θ : Type*} (c : ℝ → ℝ) (m : Θ → List ℝ) (θstar : Θ)
    (hpos : ∀ θ, ∀ x ∈ m θ, 0 < x) (hlen : ∀ θ, (m θ).length = (m θstar).length) :
    (∀ θ, poissonNLL c (m θstar) (m θstar) ≤ poissonNLL c (m θstar) (m θ)) ∧
    (∀ θ, poissonNLL c (m θstar) (m θ) = poissonNLL c (m θstar) (m θstar) ↔ m θ = m θstar) ∧
    (Function.Injective m →
      ∀ θ, (∀ θ', poissonNLL c (m θstar) (m θ) ≤ poissonNLL c (m θstar) (m θ')) ↔ θ = θstar) := by
  have key := fun θ => poissonNLL_min_at_truth c (m θstar) (m θ) (hlen θ).symm (hpos θstar) (hpos θ)
  refine ⟨fun θ => (key θ).1, fun θ => (key θ).2, fun hinj θ => ⟨fun hmin => ?_, ?_⟩⟩
  · exact hinj (((key θ).2).1 (le_antisymm (hmin θstar) (key θ).1))
  · rintro rfl θ'; exact (key θ').1

/-- **Noise-free recovery (norms)**, for any loss that is non-negative and vanishes exactly on equal vectors
(`l1`, `linf`, `sqL2` below): the loss at `θ` is 0 iff `θ` predicts the observed values; `θstar` is a minimiser
with loss 0; unique if `m` is injective. -/
theorem noise_free_recovered_of_norm {Θ : Type*} (loss : List Rat → List Rat → Rat)
    (hnn : ∀ a b, 0 ≤ loss a b) (hz : ∀ a b, a.length = b.length → (loss a b = 0 ↔ a = b))
    (m : Θ → List Rat) (θstar : Θ) (hlen : ∀ θ, (m θ).length = (m θstar).length) :
    loss (m θstar) (m θstar) = 0 ∧
    (∀ θ, loss (m θstar) (m θstar) ≤ loss (m θstar) (m θ)) ∧
    (∀ θ, loss (m θstar) (m θ) = 0 ↔ m θ = m θstar) ∧
    (Function.Injective m →
      ∀ θ, (∀ θ', loss (m θstar) (m θ) ≤ loss (m θstar) (m θ')) ↔ θ = θstar) := by
  have h0 : loss (m θstar) (m θstar) = 0 := (hz _ _ rfl).2 rfl
  have key : ∀ θ, loss (m θstar) (m θ) = 0 ↔ m θ = m θstar := fun θ =>
    (hz _ _ (hlen θ).symm).trans eq_comm
  refine ⟨h0, fun θ => h0 ▸ hnn _ _, key, fun hinj θ => ⟨fun hmin => ?_, ?_⟩⟩
  · exact hinj ((key θ).1 (le_antisymm (h0 ▸ hmin θstar) (hnn _ _)))
  · rintro rfl θ'; exact h0 ▸ hnn _ _

theorem noise_free_recovered_l1 {Θ : Type*} (m : Θ → List Rat) (θstar : Θ)
    (hlen : ∀ θ, (m θ).length = (m θstar).length) :
    l1 (m θstar) (m θstar) = 0 ∧ (∀ θ, l1 (m θstar) (m θstar) ≤ l1 (m θstar) (m θ)) ∧
    (∀ θ, l1 (m θstar) (m θ) = 0 ↔ m θ = m θstar) ∧
    (Function.Injective m → ∀ θ, (∀ θ', l1 (m θstar) (m θ) ≤ l1 (m θstar) (m θ')) ↔ θ = θstar) :=
  noise_free_recovered_of_norm l1 l1_nonneg l1_eq_zero_iff m θstar hlen

theorem noise_free_recovered_linf {Θ : Type*} (m : Θ → List Rat) (θstar : Θ)
    (hlen : ∀ θ, (m θ).length = (m θstar).length) :
    linf (m θstar) (m θstar) = 0 ∧ (∀ θ, linf (m θstar) (m θstar) ≤ linf (m θstar) (m θ)) ∧
    (∀ θ, linf (m θstar) (m θ) = 0 ↔ m θ = m θstar) ∧
    (Function.Injective m → ∀ θ, (∀ θ', linf (m θstar) (m θ) ≤ linf (m θstar) (m θ')) ↔ θ = θstar) :=
  noise_free_recovered_of_norm linf linf_nonneg linf_eq_zero_iff m θstar hlen

theorem noise_free_recovered_sqL2 {Θ : Type*} (m : Θ → List Rat) (θstar : Θ)
    (hlen : ∀ θ, (m θ).length = (m θstar).length) :
    sqL2 (m θstar) (m θstar) = 0 ∧ (∀ θ, sqL2 (m θstar) (m θstar) ≤ sqL2 (m θstar) (m θ)) ∧
    (∀ θ, sqL2 (m θstar) (m θ) = 0 ↔ m θ = m θstar) ∧
    (Function.Injective m → ∀ θ, (∀ θ', sqL2 (m θstar) (m θ) ≤ sqL2 (m θstar) (m θ')) ↔ θ = θstar) :=
  noise_free_recovered_of_norm sqL2 sqL2_nonneg sqL2_eq_zero_iff m θstar hlen

/-! ### combined with the best-run theorem (`PG.Inference.C19_best`, registered as `PG.C19.best`)

L-BFGS-B is not modelled.  `D` is the parameter domain (vectors of the right length inside the bounds).  What
the theorems need from the optimiser is stated as hypotheses:
* `hD`: every run ends inside the domain (for the bounds: `PG.C19.labels_within_bounds`);
* `hmono`: the objective values the runs report (`OptimizeResult.fun`, a `Rat` in the model) order the runs like
  the mathematical loss `L` at their points (true with equality when `r.f = L r.x`, cf. `best_run_is_truth_norm`);
* `hopt`: SOME run returned a global minimiser of `L` over `D`. -/

/-- If some run returns a global minimiser of the loss, `params_inferred` is a global minimiser (and it is the
point of a run with the smallest reported objective, which is `loss_inferred`). -/
theorem best_run_global_min {α : Type*} [Preorder α] (D : List Rat → Prop) (L : List Rat → α)
    (s : Inference.State) (rs : List Inference.Run)
    (hD : ∀ r ∈ rs, D r.x)
    (hmono : ∀ r ∈ rs, ∀ r' ∈ rs, r.f ≤ r'.f → L r.x ≤ L r'.x)
    (hopt : ∃ r ∈ rs, ∀ θ, D θ → L r.x ≤ L θ) :
    ∃ s' b, Inference.runWith s rs = .ok s' ∧ b ∈ rs ∧ s'.paramsInferred = some b.x ∧
      s'.lossInferred = some b.f ∧ (∀ r ∈ rs, b.f ≤ r.f) ∧ D b.x ∧ ∀ θ, D θ → L b.x ≤ L θ := by
  obtain ⟨r, hr, hropt⟩ := hopt
  obtain ⟨s', b, hrun, _, _, hb, hle, hloss, _, _, hpar, _⟩ :=
    Inference.C19_best s rs (List.ne_nil_of_mem hr)
  exact ⟨s', b, hrun, hb, hpar, hloss, hle, hD b hb,
    fun θ hθ => le_trans (hmono b hb r hr (hle r hr)) (hropt θ hθ)⟩

/-- **Best run is the truth**: if moreover the loss has `θstar` as its only global minimiser over `D`
(noise-free data from an identifiable model, see the corollaries), `params_inferred = θstar`, and
`loss_inferred` is the minimum of the reported objective values. -/
theorem best_run_is_truth {α : Type*} [Preorder α] (D : List Rat → Prop) (L : List Rat → α)
    (θstar : List Rat)
    (huniq : ∀ θ, D θ → (∀ θ', D θ' → L θ ≤ L θ') → θ = θstar)
    (s : Inference.State) (rs : List Inference.Run)
    (hD : ∀ r ∈ rs, D r.x)
    (hmono : ∀ r ∈ rs, ∀ r' ∈ rs, r.f ≤ r'.f → L r.x ≤ L r'.x)
    (hopt : ∃ r ∈ rs, ∀ θ, D θ → L r.x ≤ L θ) :
    ∃ s', Inference.runWith s rs = .ok s' ∧ s'.paramsInferred = some θstar ∧
      ∃ f, s'.lossInferred = some f ∧ f ∈ rs.map (·.f) ∧ ∀ y ∈ rs.map (·.f), f ≤ y := by
  obtain ⟨s', b, hrun, hb, hpar, hloss, hle, hbD, hmin⟩ := best_run_global_min D L s rs hD hmono hopt
  refine ⟨s', hrun, by rw [hpar, huniq b.x hbD hmin], b.f, hloss, List.mem_map.2 ⟨b, hb, rfl⟩, ?_⟩
  intro y hy
  obtain ⟨r, hr, rfl⟩ := List.mem_map.1 hy
  exact hle r hr

/-- Poisson likelihood as the loss, observation `m θstar`; on the domain `D`, `m` is injective (identifiable)
with positive entries of a fixed length. -/
theorem best_run_is_truth_poisson (c : ℝ → ℝ) (D : List Rat → Prop) (m : List Rat → List ℝ)
    (θstar : List Rat) (hstar : D θstar)
    (hpos : ∀ θ, D θ → ∀ x ∈ m θ, 0 < x) (hlen : ∀ θ, D θ → (m θ).length = (m θstar).length)
    (hinj : ∀ θ, D θ → ∀ θ', D θ' → m θ = m θ' → θ = θ')
    (s : Inference.State) (rs : List Inference.Run)
    (hD : ∀ r ∈ rs, D r.x)
    (hmono : ∀ r ∈ rs, ∀ r' ∈ rs, r.f ≤ r'.f →
      poissonNLL c (m θstar) (m r.x) ≤ poissonNLL c (m θstar) (m r'.x))
    (hopt : ∃ r ∈ rs, ∀ θ, D θ → poissonNLL c (m θstar) (m r.x) ≤ poissonNLL c (m θstar) (m θ)) :
    ∃ s', Inference.runWith s rs = .ok s' ∧ s'.paramsInferred = some θstar ∧
      ∃ f, s'.lossInferred = some f ∧ f ∈ rs.map (·.f) ∧ ∀ y ∈ rs.map (·.f), f ≤ y := by
  refine best_run_is_truth D (fun θ => poissonNLL c (m θstar) (m θ)) θstar ?_ s rs hD hmono hopt
  intro θ hθ hmin
  have hinj' : Function.Injective (fun t : {t // D t} => m t.1) :=
    fun a b hab => Subtype.ext (hinj a.1 a.2 b.1 b.2 hab)
  have h := (noise_free_recovered c (fun t : {t // D t} => m t.1) ⟨θstar, hstar⟩
    (fun t => hpos t.1 t.2) (fun t => hlen t.1 t.2)).2.2 hinj' ⟨θ, hθ⟩
  exact congrArg Subtype.val (h.1 fun t => hmin t.1 t.2)

/-- A norm as the loss (`l1`, `linf`, `sqL2`, …), the runs report the exact loss at their points, and some run
reaches loss 0 (= found the global minimum): `params_inferred = θstar` and `loss_inferred = 0`. -/
theorem best_run_is_truth_norm (loss : List Rat → List Rat → Rat)
    (hnn : ∀ a b, 0 ≤ loss a b) (hz : ∀ a b, a.length = b.length → (loss a b = 0 ↔ a = b))
    (D : List Rat → Prop) (m : List Rat → List Rat) (θstar : List Rat) (hstar : D θstar)
    (hlen : ∀ θ, D θ → (m θ).length = (m θstar).length)
    (hinj : ∀ θ, D θ → ∀ θ', D θ' → m θ = m θ' → θ = θ')
    (s : Inference.State) (rs : List Inference.Run)
    (hD : ∀ r ∈ rs, D r.x)
    (hexact : ∀ r ∈ rs, r.f = loss (m θstar) (m r.x))
    (hopt : ∃ r ∈ rs, r.f = 0) :
    ∃ s', Inference.runWith s rs = .ok s' ∧ s'.paramsInferred = some θstar ∧
      s'.lossInferred = some 0 := by
  obtain ⟨r0, hr0, hf0⟩ := hopt
  have hinj' : Function.Injective (fun t : {t // D t} => m t.1) :=
    fun a b hab => Subtype.ext (hinj a.1 a.2 b.1 b.2 hab)
  obtain ⟨s', hrun, hpar, f, hloss, hfmem, hfle⟩ :=
    best_run_is_truth D (fun θ => loss (m θstar) (m θ)) θstar
      (fun θ hθ hmin => congrArg Subtype.val
        (((noise_free_recovered_of_norm loss hnn hz (fun t : {t // D t} => m t.1) ⟨θstar, hstar⟩
          (fun t => hlen t.1 t.2)).2.2.2 hinj' ⟨θ, hθ⟩).1 fun t => hmin t.1 t.2)) s rs hD
      (fun r hr r' hr' h => by simpa [← hexact r hr, ← hexact r' hr'] using h)
      ⟨r0, hr0, fun θ _ => by rw [← hexact r0 hr0, hf0]; exact hnn _ _⟩
  refine ⟨s', hrun, hpar, ?_⟩
  obtain ⟨r, hr, rfl⟩ := List.mem_map.1 hfmem
  have h1 : r.f ≤ 0 := hf0 ▸ hfle r0.f (List.mem_map.2 ⟨r0, hr0, rfl⟩)
  have h2 : 0 ≤ r.f := by rw [hexact r hr]; exact hnn _ _
  rw [hloss, le_antisymm h1 h2]

/-! ## d. the seeded variant that skips the empty classes -/

/-- The modelled mass (plus the constant `c 0 = log 0!`) in the classes the seeded variant drops. -/
noncomputable def emptyMass (c : ℝ → ℝ) (k mu : List ℝ) : ℝ :=
  (List.zipWith (fun ki mi => if 0 < ki then 0 else mi + c 0) k mu).sum

/-- **General identity**: for non-negative counts, the Poisson likelihood is the skip variant plus
`Σ_{k_i = 0} (mu_i + c 0)` — the skip variant no longer penalises modelled mass in unobserved classes. -/
theorem poissonNLLSkip_eq (c : ℝ → ℝ) :
    ∀ (k mu : List ℝ), (∀ x ∈ k, 0 ≤ x) →
      poissonNLL c k mu = poissonNLLSkip c k mu + emptyMass c k mu
  | [], _, _ => by simp [poissonNLL, poissonNLLSkip, emptyMass]
  | _ :: _, [], _ => by simp [poissonNLL, poissonNLLSkip, emptyMass]
  | x :: xs, m :: ms, hk => by
    have ih := poissonNLLSkip_eq c xs ms (fun y hy => hk y (List.mem_cons_of_mem _ hy))
    have hx := hk x (List.mem_cons_self ..)
    unfold poissonNLL poissonNLLSkip emptyMass at *
    simp only [List.zipWith_cons_cons, List.sum_cons]
    rw [ih]
    split_ifs with h
    · ring
    · have : x = 0 := le_antisymm (not_lt.1 h) hx
      subst this
      ring

/-- `v[k > 0]` over ℝ (boolean-mask indexing with the mask `k > 0`). -/
noncomputable def keep {α : Type} : List ℝ → List α → List α
  | ki :: k, x :: v => if 0 < ki then x :: keep k v else keep k v
  | _, _ => []

/-- `keep` is the model's `select (skipZeroMask k)` (PGModel/Loss.lean) on rational counts. -/
theorem keep_eq_select {α : Type} :
    ∀ (k : List Rat) (v : List α), keep (k.map (↑)) v = select (skipZeroMask k) v
  | [], _ => by simp [keep, select, skipZeroMask]
  | x :: _, [] => by
    simp only [List.map_cons, keep, skipZeroMask]
    cases decide (0 < x) <;> simp [select]
  | x :: xs, y :: ys => by
    have ih := keep_eq_select xs ys
    simp only [List.map_cons, keep, skipZeroMask, Rat.cast_pos] at *
    by_cases h : 0 < x <;> simp [h, select, ih]

/-- The seeded variant is literally the Poisson likelihood of the selected classes. -/
theorem poissonNLLSkip_eq_keep (c : ℝ → ℝ) :
    ∀ (k mu : List ℝ), poissonNLLSkip c k mu = poissonNLL c (keep k k) (keep k mu)
  | [], _ => by simp [poissonNLL, poissonNLLSkip, keep]
  | _ :: _, [] => by simp [poissonNLL, poissonNLLSkip, keep]
  | x :: xs, m :: ms => by
    have ih := poissonNLLSkip_eq_keep c xs ms
    unfold poissonNLL poissonNLLSkip at *
    simp only [List.zipWith_cons_cons, List.sum_cons, keep]
    split_ifs with h
    · simp only [List.zipWith_cons_cons, List.sum_cons, ih]
    · simpa using ih

theorem keep_map {α β : Type} (f : α → β) :
    ∀ (k : List ℝ) (v : List α), keep k (v.map f) = (keep k v).map f
  | [], _ => by simp [keep]
  | _ :: _, [] => by simp [keep]
  | x :: xs, y :: ys => by
    have ih := keep_map f xs ys
    simp only [List.map_cons, keep]
    split_ifs <;> simp [ih]

theorem keep_length {α β : Type} :
    ∀ (k : List ℝ) (v : List α) (w : List β), k.length = v.length → k.length = w.length →
      (keep k v).length = (keep k w).length
  | [], _, _, _, _ => by simp [keep]
  | _ :: _, [], _, h, _ => by simp at h
  | _ :: _, _, [], _, h => by simp at h
  | x :: xs, y :: ys, z :: zs, h1, h2 => by
    have ih := keep_length xs ys zs (by simpa using h1) (by simpa using h2)
    simp only [keep]
    split_ifs <;> simp [ih]

theorem mem_of_mem_keep {α : Type} :
    ∀ (k : List ℝ) (v : List α) (x : α), x ∈ keep k v → x ∈ v
  | [], _, _, h => by simp [keep] at h
  | _ :: _, [], _, h => by simp [keep] at h
  | ki :: k, y :: ys, x, h => by
    simp only [keep] at h
    split_ifs at h
    · rcases List.mem_cons.1 h with rfl | h
      · exact List.mem_cons_self ..
      · exact List.mem_cons_of_mem _ (mem_of_mem_keep k ys x h)
    · exact List.mem_cons_of_mem _ (mem_of_mem_keep k ys x h)

/-! ### the scaling family `N ↦ N • a` (e.g. a population-size / mutation-rate scale of the expected SFS) -/

/-- `N • a` -/
def scale (N : ℝ) (a : List ℝ) : List ℝ := a.map (N * ·)

open Real in
/-- Along the scaling family the likelihood is `N A - K log N + const` with `A = Σ a`, `K = Σ k`. -/
theorem poissonNLL_scale (c : ℝ → ℝ) (N : ℝ) (hN : 0 < N) :
    ∀ (k a : List ℝ), k.length = a.length → (∀ x ∈ a, 0 < x) →
      poissonNLL c k (scale N a) = N * a.sum - k.sum * log N +
        (List.zipWith (fun ki ai => - ki * log ai + c ki) k a).sum
  | [], [], _, _ => by simp [poissonNLL, scale]
  | [], _ :: _, h, _ => by simp at h
  | _ :: _, [], h, _ => by simp at h
  | x :: xs, y :: ys, h, ha => by
    have ih := poissonNLL_scale c N hN xs ys (by simpa using h) (fun z hz => ha z (List.mem_cons_of_mem _ hz))
    have hy := ha y (List.mem_cons_self ..)
    unfold poissonNLL scale at *
    simp only [List.map_cons, List.zipWith_cons_cons, List.sum_cons, ih, Real.log_mul hN.ne' hy.ne']
    ring

open Real in
/-- The scalar function `N ↦ N A - K log N` (`K, A > 0`) is minimised exactly at `N = K / A`
(calculus-free: `log x ≤ x - 1`, i.e. `poisson_term_min` for `k = K`, `mu = N A`). -/
theorem scalar_min {K A N : ℝ} (hK : 0 < K) (hA : 0 < A) (hN : 0 < N) :
    (K / A) * A - K * log (K / A) ≤ N * A - K * log N ∧
      (N * A - K * log N = (K / A) * A - K * log (K / A) ↔ N = K / A) := by
  have hNA : 0 < N * A := mul_pos hN hA
  have h1 := poisson_term_min hK.le hNA
  have h2 := poisson_term_eq_iff hK hNA
  rw [Real.log_mul hN.ne' hA.ne'] at h1 h2
  have e1 : K / A * A = K := by field_simp
  rw [e1, Real.log_div hK.ne' hA.ne']
  refine ⟨by linarith, ?_⟩
  constructor
  · intro h
    have : N * A = K := h2.1 (by linarith)
    field_simp
    exact this
  · rintro rfl
    rw [e1, Real.log_div hK.ne' hA.ne']

/-- **MLE of the scale**: for `m N = N • a` with `a_i > 0` and a positive total count, the Poisson likelihood
is minimised over `N > 0` exactly at `N = Σ k / Σ a`. -/
theorem scaling_mle (c : ℝ → ℝ) (k a : List ℝ) (hlen : k.length = a.length) (ha : ∀ x ∈ a, 0 < x)
    (hK : 0 < k.sum) (N : ℝ) (hN : 0 < N) :
    poissonNLL c k (scale (k.sum / a.sum) a) ≤ poissonNLL c k (scale N a) ∧
      (poissonNLL c k (scale N a) = poissonNLL c k (scale (k.sum / a.sum) a) ↔ N = k.sum / a.sum) := by
  have hne : a ≠ [] := by
    rintro rfl
    have : k = [] := List.length_eq_zero_iff.1 (by simpa using hlen)
    subst this
    simp at hK
  have hA : 0 < a.sum := List.sum_pos a ha hne
  have h0 : 0 < k.sum / a.sum := div_pos hK hA
  obtain ⟨s1, s2⟩ := scalar_min hK hA hN
  rw [poissonNLL_scale c N hN k a hlen ha, poissonNLL_scale c _ h0 k a hlen ha]
  refine ⟨by linarith, ?_⟩
  constructor
  · intro h; exact s2.1 (by linarith)
  · intro h; have := s2.2 h; linarith

/-- **"MLE" of the seeded variant**: it is minimised exactly at `Σ_{k_i>0} k_i / Σ_{k_i>0} a_i`
(the classes without observations do not enter the denominator). -/
theorem scaling_skip_mle (c : ℝ → ℝ) (k a : List ℝ) (hlen : k.length = a.length) (ha : ∀ x ∈ a, 0 < x)
    (hK : 0 < (keep k k).sum) (N : ℝ) (hN : 0 < N) :
    poissonNLLSkip c k (scale ((keep k k).sum / (keep k a).sum) a) ≤ poissonNLLSkip c k (scale N a) ∧
      (poissonNLLSkip c k (scale N a) = poissonNLLSkip c k (scale ((keep k k).sum / (keep k a).sum) a)
        ↔ N = (keep k k).sum / (keep k a).sum) := by
  have e : ∀ M, poissonNLLSkip c k (scale M a) = poissonNLL c (keep k k) (scale M (keep k a)) := by
    intro M
    rw [poissonNLLSkip_eq_keep]
    unfold scale
    rw [keep_map]
  rw [e, e]
  exact scaling_mle c (keep k k) (keep k a) (keep_length k k a rfl hlen)
    (fun x hx => ha x (mem_of_mem_keep k a x hx)) hK N hN

/-! ### concrete instances -/

/-- **The skip variant is not the Poisson likelihood**: observed `[31, 12, 0, 7]`, modelled `[30, 10, 4, 8]`:
the two differ by exactly the modelled value `4` of the empty class (plus `c 0 = log 0! = 0`). -/
theorem skip_variant_counterexample (c : ℝ → ℝ) :
    poissonNLL c [31, 12, 0, 7] [30, 10, 4, 8] = poissonNLLSkip c [31, 12, 0, 7] [30, 10, 4, 8] + (4 + c 0) ∧
    (c 0 = 0 → poissonNLL c [31, 12, 0, 7] [30, 10, 4, 8] ≠ poissonNLLSkip c [31, 12, 0, 7] [30, 10, 4, 8]) := by
  have h : poissonNLL c [31, 12, 0, 7] [30, 10, 4, 8]
      = poissonNLLSkip c [31, 12, 0, 7] [30, 10, 4, 8] + (4 + c 0) := by
    rw [poissonNLLSkip_eq c _ _ (by intro x hx; simp at hx; rcases hx with rfl | rfl | rfl | rfl <;> norm_num)]
    simp [emptyMass]
  refine ⟨h, fun h0 => ?_⟩
  rw [h, h0]
  intro h'
  linarith

/-- **The skip variant prefers a wrong parameter**: observed `k = [31, 12, 0, 7]`, scaling family
`m N = N • [3, 1, 1/2, 1]`.  The skip variant is minimised exactly at `N = 50 / 5 = 10`, the Poisson likelihood
exactly at `N = 50 / (11/2) = 100/11`; the two differ, and the skip variant's choice is strictly worse under the
Poisson likelihood. -/
theorem skip_variant_wrong_parameter (c : ℝ → ℝ) :
    let k : List ℝ := [31, 12, 0, 7]
    let a : List ℝ := [3, 1, 1 / 2, 1]
    (∀ N, 0 < N → poissonNLLSkip c k (scale 10 a) ≤ poissonNLLSkip c k (scale N a) ∧
      (poissonNLLSkip c k (scale N a) = poissonNLLSkip c k (scale 10 a) ↔ N = 10)) ∧
    (∀ N, 0 < N → poissonNLL c k (scale (100 / 11) a) ≤ poissonNLL c k (scale N a) ∧
      (poissonNLL c k (scale N a) = poissonNLL c k (scale (100 / 11) a) ↔ N = 100 / 11)) ∧
    (10 : ℝ) ≠ 100 / 11 ∧
    poissonNLL c k (scale (100 / 11) a) < poissonNLL c k (scale 10 a) := by
  intro k a
  have hlen : k.length = a.length := rfl
  have ha : ∀ x ∈ a, 0 < x := by
    intro x hx; simp [a] at hx; rcases hx with rfl | rfl | rfl | rfl <;> norm_num
  have hkk : keep k k = [31, 12, 7] := by simp [k, keep]
  have hka : keep k a = [3, 1, 1] := by simp [k, a, keep]
  have e1 : (keep k k).sum / (keep k a).sum = 10 := by rw [hkk, hka]; norm_num
  have e2 : k.sum / a.sum = 100 / 11 := by simp [k, a]; norm_num
  have hne : (10 : ℝ) ≠ 100 / 11 := by norm_num
  have hfull : ∀ N, 0 < N → poissonNLL c k (scale (100 / 11) a) ≤ poissonNLL c k (scale N a) ∧
      (poissonNLL c k (scale N a) = poissonNLL c k (scale (100 / 11) a) ↔ N = 100 / 11) := by
    intro N hN
    have := scaling_mle c k a hlen ha (by simp [k]; norm_num) N hN
    rwa [e2] at this
  refine ⟨?_, hfull, hne, ?_⟩
  · intro N hN
    have := scaling_skip_mle c k a hlen ha (by rw [hkk]; norm_num) N hN
    rwa [e1] at this
  · obtain ⟨h1, h2⟩ := hfull 10 (by norm_num)
    exact lt_of_le_of_ne h1 (fun h => hne (h2.1 h.symm))

/-! ## e. non-vacuity -/

/-- The driver's answers to `loss l1 1,2,3/2 1/2,4,0`, `loss linf …`, `loss sql2 …`; the selection mask. -/
theorem loss_examples :
    l1 [1, 2, 3 / 2] [1 / 2, 4, 0] = 4 ∧ linf [1, 2, 3 / 2] [1 / 2, 4, 0] = 2 ∧
    sqL2 [1, 2, 3 / 2] [1 / 2, 4, 0] = 13 / 2 ∧ l1 [1, 2] [1, 2] = 0 ∧
    skipZeroMask [31, 12, 0, 7] = [true, true, false, true] ∧
    select (skipZeroMask [31, 12, 0, 7]) [30, 10, 4, (8 : Rat)] = [30, 10, 8] := by
  decide +kernel

/-- The hypotheses of `noise_free_recovered` are satisfiable with an injective model map (the scaling family on
`N > 0`), and its conclusion then pins the generating parameter. -/
theorem noise_free_recovered_nonvacuous (c : ℝ → ℝ) :
    let m : {N : ℝ // 0 < N} → List ℝ := fun N => scale N.1 [1, 2]
    (∀ θ, ∀ x ∈ m θ, 0 < x) ∧ (∀ θ θ', (m θ).length = (m θ').length) ∧ Function.Injective m ∧
    ∀ θstar θ, (∀ θ', poissonNLL c (m θstar) (m θ) ≤ poissonNLL c (m θstar) (m θ')) ↔ θ = θstar := by
  intro m
  have hpos : ∀ θ, ∀ x ∈ m θ, 0 < x := by
    intro θ x hx
    have := θ.2
    simp [m, scale] at hx
    rcases hx with rfl | rfl <;> linarith
  have hlen : ∀ θ θ', (m θ).length = (m θ').length := fun _ _ => rfl
  have hinj : Function.Injective m := by
    intro a b h
    simp [m, scale] at h
    exact Subtype.ext h
  exact ⟨hpos, hlen, hinj, fun θstar θ =>
    (noise_free_recovered c m θstar hpos (fun θ => hlen θ θstar)).2.2 hinj θ⟩

/-- `best_run_is_truth_norm` applies to a concrete history: squared distance, `m [N] = [N, 2N]`, truth `[3]`,
three runs ending at `[5]`, `[3]`, `[2]` with their exact losses `20, 0, 5`. -/
theorem best_run_is_truth_norm_nonvacuous :
    ∃ s', Inference.runWith Inference.State.fresh
        [⟨[5], 20⟩, ⟨[3], 0⟩, ⟨[2], 5⟩] = .ok s' ∧
      s'.paramsInferred = some [3] ∧ s'.lossInferred = some 0 := by
  refine best_run_is_truth_norm sqL2 sqL2_nonneg sqL2_eq_zero_iff (fun θ => θ.length = 1)
    (fun θ => [θ.headD 0, 2 * θ.headD 0]) [3] rfl (fun _ _ => rfl) ?_ _ _ ?_ ?_ ⟨⟨[3], 0⟩, by simp, rfl⟩
  · intro θ hθ θ' hθ' h
    match θ, θ', hθ, hθ' with
    | [a], [b], _, _ =>
      simp at h
      simp [h]
  · intro r hr
    simp at hr
    rcases hr with rfl | rfl | rfl <;> rfl
  · intro r hr
    simp at hr
    rcases hr with rfl | rfl | rfl <;> decide +kernel

/-- `best_run_is_truth_poisson` applies to a concrete history: `m [N] = [N, 2N]` on `N > 0`, truth `[3]`, two
runs ending at `[5]` (reported objective 1) and `[3]` (reported objective 0). -/
theorem best_run_is_truth_poisson_nonvacuous (c : ℝ → ℝ) :
    ∃ s', Inference.runWith Inference.State.fresh [⟨[5], 1⟩, ⟨[3], 0⟩] = .ok s' ∧
      s'.paramsInferred = some [3] ∧
      ∃ f, s'.lossInferred = some f ∧ f ∈ [(1 : Rat), 0] ∧ ∀ y ∈ [(1 : Rat), 0], f ≤ y := by
  let D : List Rat → Prop := fun θ => ∃ N : Rat, 0 < N ∧ θ = [N]
  let m : List Rat → List ℝ := fun θ => [((θ.headD 0 : Rat) : ℝ), 2 * ((θ.headD 0 : Rat) : ℝ)]
  have hpos : ∀ θ, D θ → ∀ x ∈ m θ, 0 < x := by
    rintro θ ⟨N, hN, rfl⟩ x hx
    have hN' : (0 : ℝ) < (N : ℝ) := by exact_mod_cast hN
    simp [m] at hx
    rcases hx with rfl | rfl <;> linarith
  have hD3 : D [3] := ⟨3, by norm_num, rfl⟩
  have hD5 : D [5] := ⟨5, by norm_num, rfl⟩
  have hmin : ∀ θ, D θ → poissonNLL c (m [3]) (m [3]) ≤ poissonNLL c (m [3]) (m θ) := fun θ hθ =>
    (poissonNLL_min_at_truth c (m [3]) (m θ) rfl (hpos _ hD3) (hpos _ hθ)).1
  have h := best_run_is_truth_poisson c D m [3] hD3 hpos (fun _ _ => rfl) ?_
    Inference.State.fresh [⟨[5], 1⟩, ⟨[3], 0⟩] ?_ ?_ ⟨⟨[3], 0⟩, by simp, hmin⟩
  · simpa using h
  · rintro θ ⟨a, _, rfl⟩ θ' ⟨b, _, rfl⟩ h
    simp [m] at h
    simp [h]
  · intro r hr
    simp at hr
    rcases hr with rfl | rfl
    · exact hD5
    · exact hD3
  · intro r hr r' hr' hle
    simp at hr hr'
    rcases hr with rfl | rfl <;> rcases hr' with rfl | rfl
    · exact le_refl _
    · exact absurd hle (by decide)
    · exact hmin _ hD5
    · exact le_refl _

end PG.Loss

#print axioms PG.Loss.l1_nonneg
#print axioms PG.Loss.l1_eq_zero_iff
#print axioms PG.Loss.linf_nonneg
#print axioms PG.Loss.linf_spec
#print axioms PG.Loss.linf_eq_zero_iff
#print axioms PG.Loss.sqL2_nonneg
#print axioms PG.Loss.sqL2_eq_zero_iff
#print axioms PG.Loss.lpow_nonneg
#print axioms PG.Loss.lpow_eq_zero_iff
#print axioms PG.Loss.l1_cast
#print axioms PG.Loss.sqL2_cast
#print axioms PG.Loss.poisson_term_min
#print axioms PG.Loss.poisson_term_min_strict
#print axioms PG.Loss.poisson_term_eq_iff
#print axioms PG.Loss.poisson_term_zero
#print axioms PG.Loss.poissonNLL_ge
#print axioms PG.Loss.poissonNLL_min_at_truth
#print axioms PG.Loss.noise_free_recovered
#print axioms PG.Loss.noise_free_recovered_of_norm
#print axioms PG.Loss.noise_free_recovered_l1
#print axioms PG.Loss.noise_free_recovered_linf
#print axioms PG.Loss.noise_free_recovered_sqL2
#print axioms PG.Loss.best_run_global_min
#print axioms PG.Loss.best_run_is_truth
#print axioms PG.Loss.best_run_is_truth_poisson
#print axioms PG.Loss.best_run_is_truth_norm
#print axioms PG.Loss.poissonNLLSkip_eq
#print axioms PG.Loss.keep_eq_select
#print axioms PG.Loss.poissonNLLSkip_eq_keep
#print axioms PG.Loss.poissonNLL_scale
#print axioms PG.Loss.scalar_min
#print axioms PG.Loss.scaling_mle
#print axioms PG.Loss.scaling_skip_mle
#print axioms PG.Loss.skip_variant_counterexample
#print axioms PG.Loss.skip_variant_wrong_parameter
#print axioms PG.Loss.loss_examples
#print axioms PG.Loss.noise_free_recovered_nonvacuous
#print axioms PG.Loss.best_run_is_truth_norm_nonvacuous
#print axioms PG.Loss.best_run_is_truth_poisson_nonvacuous
