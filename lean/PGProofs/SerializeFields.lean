/-
PGProofs.SerializeFields — C18 at the level of the fields of `__dict__` (`PGModel.Serialize`, second part).

* `roundtrip_dict_coalescent`   pinned `__setstate__`, lossless codec: `from_json(to_json())` of a `Coalescent` has
                                the same keys in the same order; every value is the saved one, except that the two
                                state spaces come back with empty rate-matrix caches
* `roundtrip_coalescent_fields` in particular `start_time`, `end_time`, `regularize`, `parallelize`, `pbar`, …
* `roundtrip_dict_inference`    pinned `__getstate__`: `from_json(to_json())` of an `Inference` is the same Python
                                dict (every key has the saved value, `x0`, `_x0`, `_rng`, results, the three callables
                                included; no key is added); only the insertion order of the three callables changes
* `roundtrip_x0_stable`         the start point after loading is the one before, for every draw function
* `original_untouched_coalescent`, `original_untouched_inference`
* `defaultsOverride_loses_start_time`, `dropsCachedX0_redraws`   kernel-checked counterexamples for the two seeded defects
-/
import PGModel.Serialize
import PGProofs.CacheThm

set_option linter.unusedSectionVars false

namespace PG.Serialize

open PG

/-- a Python dict has every key once -/
abbrev WF (d : PyDict) : Prop := (d.map Prod.fst).Nodup

/-! ### dict lemmas -/

theorem lookup_cons_ne (k' a : String) (b : Val) (es : PyDict) (h : (k' == a) = false) :
    List.lookup k' ((a, b) :: es) = List.lookup k' es := by
  simp [List.lookup, h]

theorem lookup_cons_eq (k' a : String) (b : Val) (es : PyDict) (h : (k' == a) = true) :
    List.lookup k' ((a, b) :: es) = some b := by
  simp [List.lookup, h]

/-- replacing the value of key `k` does not change the other keys -/
theorem lookup_replace_ne (d : PyDict) (k : String) (v : Val) (k' : String) (h : k' ≠ k) :
    List.lookup k' (d.map fun p => if p.1 == k then (k, v) else p) = List.lookup k' d := by
  have hb : (k' == k) = false := beq_false_of_ne h
  induction d with
  | nil => rfl
  | cons p d ih =>
    obtain ⟨a, b⟩ := p
    simp only [List.map_cons]
    by_cases hp : (a == k) = true
    · have ha : a = k := beq_iff_eq.mp hp
      simp only [hp, if_true]
      rw [lookup_cons_ne k' k v _ hb, lookup_cons_ne k' a b _ (by rw [ha]; exact hb), ih]
    · simp only [hp, if_false, Bool.false_eq_true]
      by_cases hk : (k' == a) = true
      · rw [lookup_cons_eq k' a b _ hk, lookup_cons_eq k' a b _ hk]
      · simp only [Bool.not_eq_true] at hk
        rw [lookup_cons_ne k' a b _ hk, lookup_cons_ne k' a b _ hk, ih]

theorem lookup_replace_eq (d : PyDict) (k : String) (v : Val) (h : (d.any fun p => p.1 == k) = true) :
    List.lookup k (d.map fun p => if p.1 == k then (k, v) else p) = some v := by
  induction d with
  | nil => simp at h
  | cons p d ih =>
    obtain ⟨a, b⟩ := p
    simp only [List.map_cons]
    by_cases hp : (a == k) = true
    · simp only [hp, if_true]
      exact lookup_cons_eq k k v _ (by simp)
    · simp only [hp, if_false, Bool.false_eq_true]
      simp only [Bool.not_eq_true] at hp
      have hka : (k == a) = false := by
        apply beq_false_of_ne; intro he; rw [he] at hp; simp at hp
      rw [lookup_cons_ne k a b _ hka]
      apply ih
      simpa [hp] using h

theorem lookup_none_of_any_false (d : PyDict) (k : String) (h : (d.any fun p => p.1 == k) = false) :
    List.lookup k d = Option.none := by
  induction d with
  | nil => rfl
  | cons p d ih =>
    obtain ⟨a, b⟩ := p
    simp only [List.any_cons, Bool.or_eq_false_iff] at h
    have hka : (k == a) = false := by
      apply beq_false_of_ne; intro he; rw [he] at h; simp at h
    rw [lookup_cons_ne k a b _ hka]
    exact ih h.2

theorem get?_insert (d : PyDict) (k : String) (v : Val) (k' : String) :
    Dict.get? (Dict.insert d k v) k' = if k' = k then some v else Dict.get? d k' := by
  unfold Dict.get? Dict.insert
  by_cases hany : (d.any fun p => p.1 == k) = true
  · simp only [hany, if_true]
    by_cases h : k' = k
    · subst h; simp only [if_true]; exact lookup_replace_eq d k' v hany
    · simp only [h, if_false]; exact lookup_replace_ne d k v k' h
  · simp only [hany, if_false, Bool.false_eq_true]
    simp only [Bool.not_eq_true] at hany
    rw [List.lookup_append]
    by_cases h : k' = k
    · subst h
      rw [lookup_none_of_any_false d k' hany]
      simp [List.lookup]
    · have hb : (k' == k) = false := beq_false_of_ne h
      simp [h, List.lookup, hb]

theorem get?_pop (d : PyDict) (k k' : String) :
    Dict.get? (pop d k) k' = if k' = k then Option.none else Dict.get? d k' := by
  unfold Dict.get? pop
  induction d with
  | nil => simp
  | cons p d ih =>
    by_cases hp : p.1 = k
    · have : (!(p.1 == k)) = false := by simp [hp]
      rw [List.filter_cons_of_neg (by simp [hp]), ih, List.lookup_cons]
      by_cases h : k' = k
      · simp [h]
      · have : (k' == p.1) = false := by rw [hp]; exact beq_false_of_ne h
        simp [h, this]
    · rw [List.filter_cons_of_pos (by simp [hp]), List.lookup_cons, List.lookup_cons, ih]
      by_cases hk : (k' == p.1) = true
      · have : k' ≠ k := by
          intro h; apply hp; rw [← h]; exact (beq_iff_eq.mp hk).symm
        simp [hk, this]
      · simp only [Bool.not_eq_true] at hk
        simp [hk]

theorem wf_insert (d : PyDict) (k : String) (v : Val) (h : WF d) : WF (Dict.insert d k v) :=
  Cache.keys_nodup_insert d k v h

theorem wf_pop (d : PyDict) (k : String) (h : WF d) : WF (pop d k) := by
  unfold WF pop at *
  exact List.Nodup.sublist (List.Sublist.map _ List.filter_sublist) h

/-- `{}.update(state)` is `state` -/
theorem union_nil (s : PyDict) (h : WF s) : Dict.union [] s = s := by
  have key : ∀ (acc s : PyDict), (∀ p ∈ s, p.1 ∉ acc.map Prod.fst) → (s.map Prod.fst).Nodup →
      Dict.union acc s = acc ++ s := by
    intro acc s
    induction s generalizing acc with
    | nil => intro _ _; simp [Dict.union]
    | cons p s ih =>
      intro hdis hnd
      have hp : p.1 ∉ acc.map Prod.fst := hdis p (by simp)
      have hins : Dict.insert acc p.1 p.2 = acc ++ [p] := by
        have hany : (acc.any fun q => q.1 == p.1) = false := by
          rw [Bool.eq_false_iff]
          intro hany
          exact hp ((Cache.any_key_iff acc p.1).mp hany)
        simp [Dict.insert, hany]
      have : Dict.union acc (p :: s) = Dict.union (Dict.insert acc p.1 p.2) s := rfl
      rw [this, hins, ih]
      · simp
      · intro q hq
        simp only [List.map_append, List.map_cons, List.map_nil, List.mem_append, List.mem_singleton, not_or]
        simp only [List.map_cons, List.nodup_cons] at hnd
        refine ⟨hdis q (by simp [hq]), ?_⟩
        intro he
        exact hnd.1 (he ▸ List.mem_map_of_mem hq)
      · simp only [List.map_cons, List.nodup_cons] at hnd
        exact hnd.2
  simpa using key [] s (by simp) h

/-! ### Coalescent -/

theorem dropCaches_keys (d : PyDict) : (dropCaches d).map Prod.fst = d.map Prod.fst := by
  unfold dropCaches
  rw [List.map_map]
  apply List.map_congr_left
  intro p _
  simp only [Function.comp]
  split <;> rfl

theorem dropCache_idem (v : Val) : v.dropCache.dropCache = v.dropCache := by
  cases v <;> rfl

theorem dropCaches_idem (d : PyDict) : dropCaches (dropCaches d) = dropCaches d := by
  unfold dropCaches
  rw [List.map_map]
  apply List.map_congr_left
  intro p _
  simp only [Function.comp]
  by_cases h : spaceKeys.contains p.1 = true
  · simp only [h, if_true, dropCache_idem]
  · simp only [h, if_false, Bool.false_eq_true]

theorem wf_dropCaches (d : PyDict) (h : WF d) : WF (dropCaches d) := by
  unfold WF; rw [dropCaches_keys]; exact h

theorem get?_dropCaches (d : PyDict) (k : String) :
    Dict.get? (dropCaches d) k
      = if spaceKeys.contains k then (Dict.get? d k).map Val.dropCache else Dict.get? d k := by
  unfold Dict.get? dropCaches
  induction d with
  | nil => simp
  | cons p d ih =>
    obtain ⟨a, b⟩ := p
    simp only [List.map_cons]
    by_cases hk : (k == a) = true
    · have hka : k = a := beq_iff_eq.mp hk
      by_cases hs : spaceKeys.contains a = true
      · simp only [hs, if_true]
        rw [lookup_cons_eq k a _ _ hk, lookup_cons_eq k a b _ hk, hka, if_pos hs]; rfl
      · simp only [hs, if_false, Bool.false_eq_true]
        rw [lookup_cons_eq k a b _ hk, hka, if_neg hs, lookup_cons_eq a a b _ (by simp)]
    · simp only [Bool.not_eq_true] at hk
      rw [lookup_cons_ne k a b _ hk]
      by_cases hs : spaceKeys.contains a = true
      · simp only [hs, if_true]
        rw [lookup_cons_ne k a _ _ hk]; exact ih
      · simp only [hs, if_false, Bool.false_eq_true]
        rw [lookup_cons_ne k a b _ hk]; exact ih

/-- the dict `from_json(to_json())` returns -/
theorem roundtrip_coalescent_eq {J : Type} (encode : PyDict → J) (decode : J → Option PyDict)
    (hcodec : ∀ d, decode (encode d) = some d) (d : PyDict) (hwf : WF d) :
    fromJsonCoalescent .current decode (toJsonCoalescent .current encode d).1 = some (dropCaches d) := by
  simp only [fromJsonCoalescent, toJsonCoalescent, deepcopyCoalescent, getstateCoalescent, setstateCoalescent,
    hcodec, Option.map_some]
  rw [union_nil _ (wf_dropCaches d hwf), dropCaches_idem, dropCaches_idem, union_nil _ (wf_dropCaches d hwf)]

/-- **roundtrip_dict (Coalescent).**  Pinned `__setstate__`, lossless codec.  `from_json(to_json())` returns an object
whose `__dict__` has the same keys in the same order; the value of every key other than
`lineage_counting_state_space` / `block_counting_state_space` is the saved one; these two are the saved state spaces
with empty rate-matrix caches. -/
theorem roundtrip_dict_coalescent {J : Type} (encode : PyDict → J) (decode : J → Option PyDict)
    (hcodec : ∀ d, decode (encode d) = some d) (d : PyDict) (hwf : WF d) :
    ∃ d', fromJsonCoalescent .current decode (toJsonCoalescent .current encode d).1 = some d' ∧
      d'.map Prod.fst = d.map Prod.fst ∧
      (∀ k, k ∉ spaceKeys → Dict.get? d' k = Dict.get? d k) ∧
      (∀ k, k ∈ spaceKeys → Dict.get? d' k = (Dict.get? d k).map Val.dropCache) := by
  refine ⟨dropCaches d, roundtrip_coalescent_eq encode decode hcodec d hwf, dropCaches_keys d, ?_, ?_⟩
  · intro k hk
    have : ¬ (spaceKeys.contains k = true) := by simpa using hk
    rw [get?_dropCaches, if_neg this]
  · intro k hk
    have : spaceKeys.contains k = true := by simpa using hk
    rw [get?_dropCaches, if_pos this]

/-- the configuration attributes and cached results come back as saved -/
theorem roundtrip_coalescent_fields {J : Type} (encode : PyDict → J) (decode : J → Option PyDict)
    (hcodec : ∀ d, decode (encode d) = some d) (d : PyDict) (hwf : WF d) :
    ∃ d', fromJsonCoalescent .current decode (toJsonCoalescent .current encode d).1 = some d' ∧
      ∀ k ∈ ["start_time", "end_time", "regularize", "parallelize", "pbar", "model", "demography", "lineage_config",
        "locus_config", "tree_height", "total_branch_length", "sfs", "fsfs"], Dict.get? d' k = Dict.get? d k := by
  obtain ⟨d', h1, _, h3, _⟩ := roundtrip_dict_coalescent encode decode hcodec d hwf
  refine ⟨d', h1, ?_⟩
  intro k hk
  apply h3
  revert k
  decide

/-- **original_untouched (Coalescent).** -/
theorem original_untouched_coalescent {J : Type} (v : SetVariant) (encode : PyDict → J) (d : PyDict) :
    (toJsonCoalescent v encode d).2 = d := rfl

/-! ### Inference -/

theorem pickleKey_of_get? (s : PyDict) (key : String) (v : Val) (h : Dict.get? s key = some v) :
    pickleKey s key = some (pop (Dict.insert s (key ++ "_pickled") (.pickled v)) key) := by
  simp [pickleKey, h]

theorem unpickleKey_of_get? (state self : PyDict) (key : String) (v : Val)
    (h : Dict.get? state (key ++ "_pickled") = some (.pickled v)) :
    unpickleKey state self key = some (pop (Dict.insert self key v) (key ++ "_pickled")) := by
  simp [unpickleKey, h]

/-- the state `Inference.__getstate__` returns -/
def savedState (d : PyDict) (vc vl vr : Val) : PyDict :=
  pop (Dict.insert (pop (Dict.insert (pop (Dict.insert d "coal_pickled" (.pickled vc)) "coal")
    "loss_pickled" (.pickled vl)) "loss") "resample_pickled" (.pickled vr)) "resample"

/-- the `__dict__` after `Inference.__setstate__` of that state on a new instance -/
def loadedDict (d : PyDict) (vc vl vr : Val) : PyDict :=
  pop (Dict.insert (pop (Dict.insert (pop (Dict.insert (savedState d vc vl vr) "coal" vc) "coal_pickled")
    "loss" vl) "loss_pickled") "resample" vr) "resample_pickled"

theorem getstate_current (d : PyDict) (vc vl vr : Val) (hc : Dict.get? d "coal" = some vc)
    (hl : Dict.get? d "loss" = some vl) (hr : Dict.get? d "resample" = some vr) :
    getstateInference .current d = some (savedState d vc vl vr) := by
  simp only [getstateInference, callableKeys, List.foldlM_cons, List.foldlM_nil]
  rw [pickleKey_of_get? d "coal" vc hc]
  simp only [Option.bind_eq_bind, Option.bind_some]
  rw [pickleKey_of_get? _ "loss" vl (by simp [get?_pop, get?_insert, hl])]
  simp only [Option.bind_some]
  rw [pickleKey_of_get? _ "resample" vr (by simp [get?_pop, get?_insert, hr])]
  rfl

theorem wf_savedState (d : PyDict) (vc vl vr : Val) (h : WF d) : WF (savedState d vc vl vr) := by
  unfold savedState
  exact wf_pop _ _ (wf_insert _ _ _ (wf_pop _ _ (wf_insert _ _ _ (wf_pop _ _ (wf_insert _ _ _ h)))))

theorem setstate_saved (d : PyDict) (vc vl vr : Val) (h : WF d) :
    setstateInference [] (savedState d vc vl vr) = some (loadedDict d vc vl vr) := by
  simp only [setstateInference, callableKeys, List.foldlM_cons, List.foldlM_nil,
    union_nil _ (wf_savedState d vc vl vr h)]
  rw [unpickleKey_of_get? _ _ "coal" vc (by simp [savedState, get?_pop, get?_insert])]
  simp only [Option.bind_eq_bind, Option.bind_some]
  rw [unpickleKey_of_get? _ _ "loss" vl (by simp [savedState, get?_pop, get?_insert])]
  simp only [Option.bind_some]
  rw [unpickleKey_of_get? _ _ "resample" vr (by simp [savedState, get?_pop, get?_insert])]
  rfl

theorem wf_loadedDict (d : PyDict) (vc vl vr : Val) (h : WF d) : WF (loadedDict d vc vl vr) := by
  unfold loadedDict
  exact wf_pop _ _ (wf_insert _ _ _ (wf_pop _ _ (wf_insert _ _ _ (wf_pop _ _ (wf_insert _ _ _
    (wf_savedState d vc vl vr h))))))

theorem get?_loadedDict (d : PyDict) (vc vl vr : Val) (hc : Dict.get? d "coal" = some vc)
    (hl : Dict.get? d "loss" = some vl) (hr : Dict.get? d "resample" = some vr)
    (hpc : Dict.get? d "coal_pickled" = Option.none) (hpl : Dict.get? d "loss_pickled" = Option.none)
    (hpr : Dict.get? d "resample_pickled" = Option.none) (k : String) :
    Dict.get? (loadedDict d vc vl vr) k = Dict.get? d k := by
  simp only [loadedDict, savedState, get?_pop, get?_insert]
  by_cases h1 : k = "coal"
  · subst h1; simp [hc]
  by_cases h2 : k = "loss"
  · subst h2; simp [hl]
  by_cases h3 : k = "resample"
  · subst h3; simp [hr]
  by_cases h4 : k = "coal_pickled"
  · subst h4; simp [hpc]
  by_cases h5 : k = "loss_pickled"
  · subst h5; simp [hpl]
  by_cases h6 : k = "resample_pickled"
  · subst h6; simp [hpr]
  simp [h1, h2, h3, h4, h5, h6]

/-- **roundtrip_dict (Inference).**  Pinned `__getstate__`, lossless codec; `d` is the `__dict__` of an `Inference`
(it has `coal`, `loss`, `resample`, and no `…_pickled` entries).  Saving succeeds, loading succeeds, and the loaded
`__dict__` is the same Python dict: EVERY key has the saved value (`x0` if it was cached, `_x0`, `_rng`, `result`,
`params_inferred`, `loss_runs`, `bootstraps`, the cached state spaces, the three callables, …) and no key is added.
(The insertion order changes: the three callables move to the end, `loadedDict`.) -/
theorem roundtrip_dict_inference {J : Type} (encode : PyDict → J) (decode : J → Option PyDict)
    (hcodec : ∀ d, decode (encode d) = some d) (d : PyDict) (hwf : WF d) (vc vl vr : Val)
    (hc : Dict.get? d "coal" = some vc) (hl : Dict.get? d "loss" = some vl) (hr : Dict.get? d "resample" = some vr)
    (hpc : Dict.get? d "coal_pickled" = Option.none) (hpl : Dict.get? d "loss_pickled" = Option.none)
    (hpr : Dict.get? d "resample_pickled" = Option.none) :
    ∃ j d', (toJsonInference .current encode d).1 = some j ∧ fromJsonInference decode j = some d' ∧
      d' = loadedDict d vc vl vr ∧ WF d' ∧ ∀ k, Dict.get? d' k = Dict.get? d k := by
  refine ⟨encode (savedState d vc vl vr), loadedDict d vc vl vr, ?_, ?_, rfl, wf_loadedDict d vc vl vr hwf,
    get?_loadedDict d vc vl vr hc hl hr hpc hpl hpr⟩
  · simp [toJsonInference, getstate_current d vc vl vr hc hl hr]
  · simp [fromJsonInference, hcodec, setstate_saved d vc vl vr hwf]

/-- the start point only depends on the entries `x0`, `_x0` and `_rng` -/
theorem x0Of_congr (d d' : PyDict) (h : ∀ k, Dict.get? d' k = Dict.get? d k) (draw : Val → Val × Val) :
    x0Of d' draw = x0Of d draw := by
  unfold x0Of accessX0
  rw [h "x0", h "_x0", h "_rng"]
  cases Dict.get? d "x0" with
  | some v => rfl
  | none =>
    cases h2 : Dict.get? d "_x0" with
    | none => rfl
    | some v => cases v <;> rfl

/-- **roundtrip_x0_stable.**  Pinned `__getstate__`: the start point of the loaded object is the start point of the
original, for every draw function — whether `x0` was given, was drawn before saving (then it is in `__dict__` and
saved) or has not been looked at yet (then both draw from the same generator state). -/
theorem roundtrip_x0_stable {J : Type} (encode : PyDict → J) (decode : J → Option PyDict)
    (hcodec : ∀ d, decode (encode d) = some d) (d : PyDict) (hwf : WF d) (vc vl vr : Val)
    (hc : Dict.get? d "coal" = some vc) (hl : Dict.get? d "loss" = some vl) (hr : Dict.get? d "resample" = some vr)
    (hpc : Dict.get? d "coal_pickled" = Option.none) (hpl : Dict.get? d "loss_pickled" = Option.none)
    (hpr : Dict.get? d "resample_pickled" = Option.none) (draw : Val → Val × Val) :
    ∃ j d', (toJsonInference .current encode d).1 = some j ∧ fromJsonInference decode j = some d' ∧
      x0Of d' draw = x0Of d draw := by
  obtain ⟨j, d', h1, h2, _, _, h5⟩ :=
    roundtrip_dict_inference encode decode hcodec d hwf vc vl vr hc hl hr hpc hpl hpr
  exact ⟨j, d', h1, h2, x0Of_congr d d' h5 draw⟩

/-- **original_untouched (Inference).** -/
theorem original_untouched_inference {J : Type} (v : GetVariant) (encode : PyDict → J) (d : PyDict) :
    (toJsonInference v encode d).2 = d := rfl

/-! ### The two seeded defects (identity codec), non-vacuity -/

/-- a coalescent with non-default `start_time` and `regularize`, and a state space with three cached matrices -/
def exCoal : PyDict :=
  [("start_time", .rat 5), ("end_time", .rat 10), ("regularize", .bool false), ("pbar", .bool false),
   ("lineage_counting_state_space", .space "L" 3), ("tree_height", .obj "th")]

/-- **defaultsOverride_loses_start_time** (kernel-checked).  With `state | defaults` in `Coalescent.__setstate__` the
loaded object has `start_time = 0` and `regularize = True`; with the pinned code (and with `defaults | state`, which
is the pinned behaviour on the saved keys) they are 5 and `False`.  The other fields survive either way. -/
theorem defaultsOverride_loses_start_time :
    let load := fun v => fromJsonCoalescent v some (toJsonCoalescent v id exCoal).1
    (load .defaultsOverride).map (Dict.get? · "start_time") = some (some (.rat 0)) ∧
    (load .defaultsOverride).map (Dict.get? · "regularize") = some (some (.bool true)) ∧
    (load .defaultsOverride).map (Dict.get? · "end_time") = some (some (.rat 10)) ∧
    (load .current).map (Dict.get? · "start_time") = some (some (.rat 5)) ∧
    (load .current).map (Dict.get? · "regularize") = some (some (.bool false)) ∧
    (load .current).map (Dict.get? · "lineage_counting_state_space") = some (some (.space "L" 0)) ∧
    (load .current).map (fun d => Dict.get? (Dict.union coalescentDefaults d) "start_time") = some (some (.rat 5)) := by
  decide

/-- an inference object created with `x0=None` whose start point has been drawn (generator now in state `s1`) -/
def exInf : PyDict :=
  [("_x0", .none), ("bounds", .obj "b"), ("coal", .fn "f"), ("loss", .fn "g"), ("resample", .none),
   ("_rng", .obj "s1"), ("x0", .point [("N", 2)])]

/-- a generator that draws `N = 7` in state `s1` -/
def exDraw : Val → Val × Val := fun _ => (.point [("N", 7)], .obj "s2")

/-- **dropsCachedX0_redraws** (kernel-checked).  If `__getstate__` pops the cached `x0`, the loaded object draws its
start point again from the saved generator state: 7 instead of 2.  With the pinned code it is 2. -/
theorem dropsCachedX0_redraws :
    let load := fun v => ((toJsonInference v id exInf).1.bind (fromJsonInference some))
    x0Of exInf exDraw = .point [("N", 2)] ∧
    (load .dropsCachedX0).map (x0Of · exDraw) = some (.point [("N", 7)]) ∧
    (load .current).map (x0Of · exDraw) = some (.point [("N", 2)]) ∧
    (load .dropsCachedX0).map (Dict.get? · "_x0") = some (some .none) := by
  decide

/-- non-vacuity: `exInf` satisfies every hypothesis of `roundtrip_dict_inference` / `roundtrip_x0_stable` -/
example : WF exInf ∧ Dict.get? exInf "coal" = some (.fn "f") ∧ Dict.get? exInf "loss" = some (.fn "g") ∧
    Dict.get? exInf "resample" = some .none ∧ Dict.get? exInf "coal_pickled" = Option.none ∧
    Dict.get? exInf "loss_pickled" = Option.none ∧ Dict.get? exInf "resample_pickled" = Option.none := by
  decide

/-- non-vacuity: `exCoal` is well formed, and its round trip is not the identity (the caches are dropped) -/
example : WF exCoal ∧ fromJsonCoalescent .current some (toJsonCoalescent .current id exCoal).1 ≠ some exCoal := by
  decide

/-- a codec that loses a field breaks the round trip: non-vacuity of the codec hypothesis -/
example : ∃ (encode : PyDict → PyDict) (decode : PyDict → Option PyDict),
    (fromJsonCoalescent .current decode (toJsonCoalescent .current encode exCoal).1).map (Dict.get? · "end_time")
      ≠ some (Dict.get? exCoal "end_time") :=
  ⟨fun d => pop d "end_time", some, by decide⟩

end PG.Serialize

#print axioms PG.Serialize.roundtrip_dict_coalescent
#print axioms PG.Serialize.roundtrip_coalescent_fields
#print axioms PG.Serialize.roundtrip_dict_inference
#print axioms PG.Serialize.roundtrip_x0_stable
#print axioms PG.Serialize.original_untouched_coalescent
#print axioms PG.Serialize.original_untouched_inference
#print axioms PG.Serialize.defaultsOverride_loses_start_time
#print axioms PG.Serialize.dropsCachedX0_redraws
