/-
  PGProofs/MutConfigBridge2.lean

  Closes the two items which `PGProofs.MutConfigBridge` left open.

  (a) FOLDED BRIDGE (§H, §I).  `mutcfgInputsFolded` restates the `(S, R, alpha)` of the `mutcfg f`
      command of `Main.lean` (`nBins = c.nTot / 2`, `r = .foldedSFS (b + 1)`);
      `mutcfgInputsFolded_hypotheses` discharges every sign hypothesis of `MutConfigNonneg` for them
      (folded rewards `≥ 0`; `Σ_{i=1}^{n/2} foldedSFS_i` = total branch length `≥ 2` on every
      transient state), hence `C16_code_prob_in_unit_interval_folded`.  Kernel-evaluated instance:
      Kingman, `n = 4`, one deme (`ex4_bfs`, `ex4_inputs`, `ex4_values`).

  (b) GAUSS–JORDAN SUCCESS (§A–§G).
      §A  `inv_eq`: the `do`-block of `RMat.inv` (two nested `for` loops with a mutable matrix and
          an early `return none`) IS the structured recursion `gjLoop` over the columns, with the
          pivot search `gjFindPiv`, the row swap `gjSwap`, the normalisation `gjScale` and the
          elimination `gjElim` folded over all rows.
      §B  the entries of the augmented matrix after each of these array operations.
      §C  the loop invariant on the entries `e i j` of the augmented `n × 2n` matrix:
          `GJInv.rel` (every row satisfies `left = right ᵥ* A`, i.e. `Left = Right * A`) and
          `GJInv.inj` (the left block is injective); `GJInv.swap`, `GJInv.scale`, `GJInv.elim`:
          each elementary row operation preserves both; `GJInv.exists_pivot`: if the first `c`
          columns of the left block are those of the identity and the left block is injective,
          column `c` has a non-zero entry in a row `≥ c` — the pivot search, which looks exactly
          there, cannot fail.
      §D  `gjFindPiv_spec`.   §E  `gjStep_spec`, `gjLoop_spec`.
      §F  `RMat.inv_spec_of_det_ne_zero`: for a `k × k` array whose matrix view has `det ≠ 0`,
          `RMat.inv` returns `some b` with `b` `k × k` and `b * a = 1 = a * b`;
          `RMat.inv_isSome_of_det_ne_zero`.
      §G  `getP_isSome_of_det_ne_zero` (the two exact certificates `M * Ptot = 1 = Ptot * M` of
          `getP` pass as well), `getP_isSome_iff`, `getP_isSome`, `mutConfigProb_isSome`
          (under the sign hypotheses, via `resolvent_det_ne_zero`), and the total forms
          `C16_code_prob_total`, `C16_code_prob_total_folded`: on the inputs of the driver the
          executable DOES return a number, and it lies in `[0, 1]`.

  Remaining hypotheses / not closed: see the end of the file.
-/
import PGProofs.MutConfigBridge
import Mathlib.Tactic.SplitIfs
import Mathlib.Tactic.Convert
import Mathlib.Tactic.Push
import Mathlib.LinearAlgebra.Matrix.ToLinearEquiv
import Mathlib.LinearAlgebra.Matrix.Determinant.Basic

set_option linter.unusedSectionVars false
set_option linter.unusedVariables false

namespace PG
open Matrix

/-! ## A. `RMat.inv` as a structured recursion -/


/-- pivot search of `RMat.inv` in column `c` -/
def gjFindPiv (n : Nat) (m : RMat) (c : Nat) : Nat :=
  (List.range' c (n - c)).foldl (fun piv r => if piv = n ∧ (m.get r c != 0) = true then r else piv) n

def gjElim (n c : Nat) (m : RMat) (r : Nat) : RMat :=
  if (r != c) = true then
    if (m.get r c != 0) = true then
      m.set! r ((Array.range (2 * n)).map fun j => m.get r j - m.get r c * (m.getD c #[]).getD j 0)
    else m
  else m

def gjSwap (m : RMat) (c piv : Nat) : RMat := (m.set! piv (m.getD c #[])).set! c (m.getD piv #[])

def gjScale (m : RMat) (c : Nat) : RMat := m.set! c ((m.getD c #[]).map (· / m.get c c))

def gjStep (n c piv : Nat) (m : RMat) : RMat :=
  (List.range n).foldl (gjElim n c) (gjScale (gjSwap m c piv) c)

def gjLoop (n : Nat) : List Nat → RMat → Option RMat
  | [], m => some m
  | c :: cs, m => if gjFindPiv n m c = n then none else gjLoop n cs (gjStep n c (gjFindPiv n m c) m)

def gjInit (a : RMat) : RMat :=
  (Array.range a.size).map fun i => (a.getD i #[]) ++ ((RMat.id a.size).getD i #[])

theorem forIn_yield_foldl {α β : Type} (l : List α) (init : β) (f : α → β → Id (ForInStep β))
    (g : β → α → β) (h : ∀ a b, f a b = pure (ForInStep.yield (g b a))) :
    forIn l init f = (pure (l.foldl g init) : Id β) := by
  induction l generalizing init with
  | nil => rfl
  | cons x xs ih =>
    rw [List.forIn_cons, h]
    simp only [pure_bind, List.foldl_cons]
    exact ih _

theorem forIn_outer (n : Nat) (post : RMat → RMat) (cs : List Nat) (m : RMat)
    (body : Nat → Option (Option RMat) × RMat → Id (ForInStep (Option (Option RMat) × RMat)))
    (hbody : ∀ c s, body c s = if gjFindPiv n s.snd c = n then pure (ForInStep.done (some none, s.snd))
      else pure (ForInStep.yield (none, gjStep n c (gjFindPiv n s.snd c) s.snd))) :
    (do let s ← forIn cs (none, m) body
        match s.fst with
        | some r => pure r
        | none => pure (some (post s.snd)) : Id (Option RMat))
      = pure ((gjLoop n cs m).map post) := by
  induction cs generalizing m with
  | nil => rfl
  | cons c cs ih =>
    rw [List.forIn_cons, hbody]
    unfold gjLoop
    by_cases h : gjFindPiv n m c = n
    · simp only [h, if_true]
      rfl
    · simp only [h, if_false]
      exact ih _

/-- the body of the column loop of `RMat.inv`, as elaborated -/
def gjBody (n : Nat) (c : Nat) (s : Option (Option RMat) × RMat) :
    Id (ForInStep (Option (Option RMat) × RMat)) := do
  let piv ← forIn (List.range' c (n - c)) n fun r piv =>
    if piv = n ∧ (s.snd.get r c != 0) = true then pure (ForInStep.yield r)
    else pure (ForInStep.yield piv)
  if piv = n then pure (ForInStep.done (some none, s.snd))
  else do
    let m ← forIn (List.range' 0 n) (gjScale (gjSwap s.snd c piv) c) fun r m =>
      if (r != c) = true then
        if (m.get r c != 0) = true then
          pure (ForInStep.yield (m.set! r ((Array.range (2 * n)).map fun j =>
            m.get r j - m.get r c * (m.getD c #[]).getD j 0)))
        else pure (ForInStep.yield m)
      else pure (ForInStep.yield m)
    pure (ForInStep.yield (none, m))

theorem gjBody_eq (n c : Nat) (s : Option (Option RMat) × RMat) :
    gjBody n c s = if gjFindPiv n s.snd c = n then pure (ForInStep.done (some none, s.snd))
      else pure (ForInStep.yield (none, gjStep n c (gjFindPiv n s.snd c) s.snd)) := by
  unfold gjBody
  rw [forIn_yield_foldl _ _ _ (fun piv r => if piv = n ∧ (s.snd.get r c != 0) = true then r else piv)
    (fun r piv => by split_ifs <;> rfl)]
  simp only [pure_bind]
  show (if gjFindPiv n s.snd c = n then _ else _) = _
  split_ifs with h
  · rfl
  · rw [forIn_yield_foldl _ _ _ (gjElim n c) (fun r m => by unfold gjElim; split_ifs <;> rfl)]
    rw [← List.range_eq_range']
    rfl

theorem inv_eq (a : RMat) :
    a.inv = (gjLoop a.size (List.range a.size) (gjInit a)).map
      fun m => m.map fun row => row.extract a.size (2 * a.size) := by
  unfold RMat.inv
  simp only [Std.Legacy.Range.forIn_eq_forIn_range', Std.Legacy.Range.size]
  have h0 : (a.size - 0 + 1 - 1) / 1 = a.size := by simp
  have hc : ∀ c, (a.size - c + 1 - 1) / 1 = a.size - c := by simp
  simp only [h0, hc]
  rw [List.range_eq_range']
  have h := forIn_outer a.size (fun m => m.map fun row => row.extract a.size (2 * a.size))
    (List.range' 0 a.size) (gjInit a) (gjBody a.size) (gjBody_eq a.size)
  unfold gjBody gjScale gjSwap gjInit at h
  convert congrArg Id.run h using 4
  · rename_i x
    rcases x with ⟨_ | _, _⟩ <;> rfl
  · rfl

/-! ## B. array-level description of the row operations -/


theorem getD_set! (m : RMat) (r : ℕ) (row : Array ℚ) (i : ℕ) :
    (m.set! r row).getD i #[] = if i = r ∧ r < m.size then row else m.getD i #[] := by
  rw [Array.getD_eq_getD_getElem?, Array.set!_eq_setIfInBounds, Array.getElem?_setIfInBounds,
    Array.getD_eq_getD_getElem?]
  by_cases h1 : r = i
  · subst h1
    by_cases h2 : r < m.size
    · simp [h2]
    · simp [h2]
  · have : ¬ (i = r ∧ r < m.size) := fun h => h1 h.1.symm
    simp [h1, this]

theorem get_set! (m : RMat) (r : ℕ) (row : Array ℚ) (i j : ℕ) :
    RMat.get (m.set! r row) i j = if i = r ∧ r < m.size then row.getD j 0 else m.get i j := by
  unfold RMat.get
  rw [getD_set!]
  split_ifs <;> rfl

theorem getD_map_div (row : Array ℚ) (p : ℚ) (j : ℕ) :
    (row.map (· / p)).getD j 0 = row.getD j 0 / p := by
  rw [Array.getD_eq_getD_getElem?, Array.getElem?_map, Array.getD_eq_getD_getElem?]
  cases row[j]? <;> simp

/-- shape of the augmented matrix: `n` rows of length `2n` -/
def Aug (n : ℕ) (m : RMat) : Prop := m.size = n ∧ ∀ i < n, (m.getD i #[]).size = 2 * n

theorem Aug.set! {n : ℕ} {m : RMat} (h : Aug n m) (r : ℕ) (row : Array ℚ)
    (hrow : row.size = 2 * n) : Aug n (m.set! r row) := by
  refine ⟨by rw [Array.set!_eq_setIfInBounds, Array.size_setIfInBounds]; exact h.1, fun i hi => ?_⟩
  rw [getD_set!]
  split_ifs
  · exact hrow
  · exact h.2 i hi


theorem gjSwap_aug {n : ℕ} {m : RMat} (h : Aug n m) (c piv : ℕ) (hc : c < n) (hp : piv < n) :
    Aug n (gjSwap m c piv) := by
  unfold gjSwap
  exact (h.set! _ _ (h.2 c hc)).set! _ _ (h.2 piv hp)

theorem gjSwap_get {n : ℕ} {m : RMat} (h : Aug n m) (c piv : ℕ) (hc : c < n) (hp : piv < n)
    (i j : ℕ) :
    RMat.get (gjSwap m c piv) i j
      = if i = c then m.get piv j else if i = piv then m.get c j else m.get i j := by
  unfold gjSwap
  rw [get_set!, get_set!]
  have h1 : (m.set! piv (m.getD c #[])).size = n := (h.set! _ _ (h.2 c hc)).1
  rw [h1, h.1]
  simp only [hc, hp, and_true]
  rfl

theorem gjScale_aug {n : ℕ} {m : RMat} (h : Aug n m) (c : ℕ) (hc : c < n) :
    Aug n (gjScale m c) := by
  unfold gjScale
  exact h.set! _ _ (by rw [Array.size_map]; exact h.2 c hc)

theorem gjScale_get {n : ℕ} {m : RMat} (h : Aug n m) (c : ℕ) (hc : c < n) (i j : ℕ) :
    RMat.get (gjScale m c) i j = if i = c then m.get c j / m.get c c else m.get i j := by
  unfold gjScale
  rw [get_set!, h.1, getD_map_div]
  simp only [hc, and_true]
  rfl

theorem gjElim_aug {n : ℕ} {m : RMat} (h : Aug n m) (c r : ℕ) : Aug n (gjElim n c m r) := by
  unfold gjElim
  split_ifs
  · exact h.set! _ _ (by simp)
  · exact h
  · exact h

theorem gjElim_get {n : ℕ} {m : RMat} (h : Aug n m) (c r : ℕ) (hr : r < n) (i j : ℕ)
    (hj : j < 2 * n) :
    RMat.get (gjElim n c m r) i j
      = if i = r ∧ r ≠ c then m.get r j - m.get r c * m.get c j else m.get i j := by
  unfold gjElim
  by_cases h1 : r = c
  · simp [h1]
  · have h1' : (r != c) = true := by simpa using h1
    rw [if_pos h1']
    by_cases h2 : m.get r c = 0
    · have h2' : ¬ ((m.get r c != 0) = true) := by simp [h2]
      rw [if_neg h2']
      split_ifs with h3
      · rw [h3.1, h2, zero_mul, sub_zero]
      · rfl
    · have h2' : (m.get r c != 0) = true := by simpa using h2
      rw [if_pos h2', get_set!, h.1, getD_map_range, if_pos hj]
      simp only [hr, and_true, h1, ne_eq, not_false_eq_true]
      rfl

theorem gjElimAll_spec {n : ℕ} {m : RMat} (h : Aug n m) (c : ℕ) (hc : c < n) (k : ℕ)
    (hk : k ≤ n) :
    Aug n ((List.range k).foldl (gjElim n c) m) ∧
    ∀ i j, j < 2 * n → RMat.get ((List.range k).foldl (gjElim n c) m) i j
      = if i < k ∧ i ≠ c then m.get i j - m.get i c * m.get c j else m.get i j := by
  induction k with
  | zero => exact ⟨h, fun i j _ => by simp⟩
  | succ k ih =>
    obtain ⟨ha, hg⟩ := ih (by omega)
    rw [List.range_succ, List.foldl_append]
    refine ⟨gjElim_aug ha c k, fun i j hj => ?_⟩
    simp only [List.foldl_cons, List.foldl_nil]
    rw [gjElim_get ha c k (by omega) i j hj, hg i j hj, hg k j hj, hg k c (by omega),
      hg c j hj]
    have hkk : ¬ (k < k ∧ k ≠ c) := fun h => absurd h.1 (lt_irrefl k)
    have hcc : ¬ (c < k ∧ c ≠ c) := fun h => h.2 rfl
    simp only [if_neg hkk, if_neg hcc]
    by_cases h1 : i = k ∧ k ≠ c
    · obtain ⟨rfl, h1⟩ := h1
      rw [if_pos ⟨rfl, h1⟩, if_pos (show i < i + 1 ∧ i ≠ c from ⟨by omega, h1⟩)]
    · rw [if_neg h1]
      by_cases h2 : i < k ∧ i ≠ c
      · rw [if_pos h2, if_pos (show i < k + 1 ∧ i ≠ c from ⟨by omega, h2.2⟩)]
      · rw [if_neg h2, if_neg]
        rintro ⟨h3, h4⟩
        rcases Nat.lt_succ_iff_lt_or_eq.mp h3 with h5 | h5
        · exact h2 ⟨h5, h4⟩
        · exact h1 ⟨h5, h5 ▸ h4⟩

/-! ## C. the loop invariants, on the entry function `e i j = m.get i j` of the augmented matrix

`rel`: every row satisfies `left = right ᵥ* A` (so `Left = Right * A`);
`inj`: the left block is injective (it is `A` transformed by invertible row operations). -/

structure GJInv (n : ℕ) (A : Matrix (Fin n) (Fin n) ℚ) (e : ℕ → ℕ → ℚ) : Prop where
  rel : ∀ i < n, ∀ j : Fin n, e i j = ∑ k : Fin n, e i (n + k) * A k j
  inj : ∀ w : Fin n → ℚ, (∀ i < n, ∑ j : Fin n, e i j * w j = 0) → w = 0

/-- the columns `< c` of the left block are those of the identity -/
def ColDone (n c : ℕ) (e : ℕ → ℕ → ℚ) : Prop :=
  ∀ i < n, ∀ j < c, e i j = if i = j then 1 else 0

/-- **row swap preserves the invariant** -/
theorem GJInv.swap {n : ℕ} {A : Matrix (Fin n) (Fin n) ℚ} {e e' : ℕ → ℕ → ℚ} (h : GJInv n A e)
    (c piv : ℕ) (hc : c < n) (hp : piv < n)
    (he : ∀ i j, e' i j = if i = c then e piv j else if i = piv then e c j else e i j) :
    GJInv n A e' := by
  constructor
  · intro i hi j
    simp only [he]
    split_ifs
    · exact h.rel piv hp j
    · exact h.rel c hc j
    · exact h.rel i hi j
  · intro w hw
    refine h.inj w fun i hi => ?_
    by_cases h1 : i = piv
    · have := hw c hc
      simp only [he, if_true] at this
      rw [h1]
      exact this
    · by_cases h2 : i = c
      · have := hw piv hp
        have hpc : piv ≠ c := fun h => h1 (h2.trans h.symm)
        simp only [he, if_neg hpc, if_true] at this
        rw [h2]
        exact this
      · have := hw i hi
        simp only [he, if_neg h2, if_neg h1] at this
        exact this

/-- **scaling a row by a non-zero number preserves the invariant** -/
theorem GJInv.scale {n : ℕ} {A : Matrix (Fin n) (Fin n) ℚ} {e e' : ℕ → ℕ → ℚ} (h : GJInv n A e)
    (c : ℕ) (hc : c < n) (p : ℚ) (hp : p ≠ 0)
    (he : ∀ i j, e' i j = if i = c then e c j / p else e i j) : GJInv n A e' := by
  constructor
  · intro i hi j
    simp only [he]
    split_ifs
    · rw [h.rel c hc j, Finset.sum_div]
      exact Finset.sum_congr rfl fun k _ => by ring
    · exact h.rel i hi j
  · intro w hw
    refine h.inj w fun i hi => ?_
    by_cases h1 : i = c
    · have := hw c hc
      simp only [he, if_true] at this
      have h2 : ∑ j : Fin n, e c j / p * w j = (∑ j : Fin n, e c j * w j) / p := by
        rw [Finset.sum_div]
        exact Finset.sum_congr rfl fun k _ => by ring
      rw [h2, div_eq_zero_iff] at this
      rw [h1]
      exact this.resolve_right hp
    · have := hw i hi
      simp only [he, if_neg h1] at this
      exact this

/-- **subtracting multiples of row `c` from the other rows preserves the invariant** -/
theorem GJInv.elim {n : ℕ} {A : Matrix (Fin n) (Fin n) ℚ} {e e' : ℕ → ℕ → ℚ} (h : GJInv n A e)
    (c : ℕ) (hc : c < n) (f : ℕ → ℚ)
    (he : ∀ i j, j < 2 * n → e' i j = if i ≠ c then e i j - f i * e c j else e c j) :
    GJInv n A e' := by
  have hj : ∀ j : Fin n, j.val < 2 * n := fun j => by have := j.isLt; omega
  have hk : ∀ k : Fin n, n + k.val < 2 * n := fun k => by have := k.isLt; omega
  constructor
  · intro i hi j
    rw [he i j (hj j)]
    simp only [he _ _ (hk _)]
    split_ifs with h1
    · rw [h.rel i hi j, h.rel c hc j, Finset.mul_sum, ← Finset.sum_sub_distrib]
      exact Finset.sum_congr rfl fun k _ => by ring
    · exact h.rel c hc j
  · intro w hw
    have hcw : ∑ j : Fin n, e c j * w j = 0 := by
      have := hw c hc
      simp only [he _ _ (hj _), ne_eq, not_true_eq_false, if_false] at this
      exact this
    refine h.inj w fun i hi => ?_
    by_cases h1 : i = c
    · rw [h1]
      exact hcw
    · have := hw i hi
      simp only [he _ _ (hj _), ne_eq, h1, not_false_eq_true, if_true] at this
      have h2 : ∑ j : Fin n, (e i j - f i * e c j) * w j
          = ∑ j : Fin n, e i j * w j - f i * ∑ j : Fin n, e c j * w j := by
        rw [Finset.mul_sum, ← Finset.sum_sub_distrib]
        exact Finset.sum_congr rfl fun k _ => by ring
      rw [h2, hcw, mul_zero, sub_zero] at this
      exact this

/-- **a pivot exists**: if the left block is injective and its first `c` columns are those of the
identity, then column `c` has a non-zero entry in some row `≥ c` (otherwise column `c` would be a
combination of the columns `< c`: the vector `e_c - Σ_{j<c} e j c • e_j` would be in the kernel) -/
theorem GJInv.exists_pivot {n : ℕ} {A : Matrix (Fin n) (Fin n) ℚ} {e : ℕ → ℕ → ℚ}
    (h : GJInv n A e) {c : ℕ} (hC : ColDone n c e) (hc : c < n) :
    ∃ r, c ≤ r ∧ r < n ∧ e r c ≠ 0 := by
  by_contra hno'
  have hno : ∀ r, c ≤ r → r < n → e r c = 0 := fun r h1 h2 =>
    by_contra fun h3 => hno' ⟨r, h1, h2, h3⟩
  let w : Fin n → ℚ := fun j => if j.val = c then 1 else if j.val < c then - e j c else 0
  have hw : w = 0 := by
    refine h.inj w fun i hi => ?_
    have hterm : ∀ j : Fin n, e i j * w j
        = (if j = ⟨c, hc⟩ then e i c else 0) + (if j = ⟨i, hi⟩ then (if i < c then - e i c else 0) else 0) := by
      intro j
      show e i j * (if j.val = c then 1 else if j.val < c then - e j c else 0) = _
      by_cases h1 : j.val = c
      · have h1' : j = ⟨c, hc⟩ := Fin.ext h1
        rw [if_pos h1, if_pos h1', mul_one, h1]
        by_cases h2 : j = ⟨i, hi⟩
        · have : i = c := by rw [← h1, h2]
          rw [if_pos h2, if_neg (by omega), add_zero]
        · rw [if_neg h2, add_zero]
      · have h1' : j ≠ ⟨c, hc⟩ := fun h => h1 (congrArg Fin.val h)
        rw [if_neg h1, if_neg h1', zero_add]
        by_cases h2 : j.val < c
        · rw [if_pos h2, hC i hi j h2]
          by_cases h3 : i = j.val
          · have h3' : j = ⟨i, hi⟩ := Fin.ext h3.symm
            rw [if_pos h3, if_pos h3', if_pos (by omega), one_mul, h3]
          · have h3' : j ≠ ⟨i, hi⟩ := fun h => h3 (congrArg Fin.val h).symm
            rw [if_neg h3, if_neg h3', zero_mul]
        · rw [if_neg h2, mul_zero]
          by_cases h3 : j = ⟨i, hi⟩
          · have : j.val = i := congrArg Fin.val h3
            rw [if_pos h3, if_neg (by omega)]
          · rw [if_neg h3]
    simp only [hterm]
    rw [Finset.sum_add_distrib, Finset.sum_ite_eq' Finset.univ, Finset.sum_ite_eq' Finset.univ]
    simp only [Finset.mem_univ, if_true]
    by_cases h4 : i < c
    · rw [if_pos h4, add_neg_cancel]
    · rw [if_neg h4, add_zero]
      exact hno i (by omega) hi
  have := congrFun hw ⟨c, hc⟩
  simp only [w, if_true, Pi.zero_apply] at this
  exact one_ne_zero this

/-! ## D. the pivot search -/

theorem foldl_findPiv (n : ℕ) (q : ℕ → Bool) (l : List ℕ) (hl : ∀ r ∈ l, r < n) (p0 : ℕ) :
    (p0 ≠ n → l.foldl (fun piv r => if piv = n ∧ q r = true then r else piv) p0 = p0) ∧
    (p0 = n →
      (l.foldl (fun piv r => if piv = n ∧ q r = true then r else piv) p0 = n ∧
        ∀ r ∈ l, q r = false) ∨
      (l.foldl (fun piv r => if piv = n ∧ q r = true then r else piv) p0 ∈ l ∧
        q (l.foldl (fun piv r => if piv = n ∧ q r = true then r else piv) p0) = true)) := by
  induction l generalizing p0 with
  | nil =>
    refine ⟨fun _ => rfl, fun h => Or.inl ⟨h, fun r hr => absurd hr (by simp)⟩⟩
  | cons x xs ih =>
    have hxs : ∀ r ∈ xs, r < n := fun r hr => hl r (List.mem_cons_of_mem _ hr)
    have hx : x < n := hl x List.mem_cons_self
    rw [List.foldl_cons]
    constructor
    · intro h0
      rw [if_neg (fun h => h0 h.1)]
      exact (ih hxs p0).1 h0
    · intro h0
      by_cases hq : q x = true
      · rw [if_pos ⟨h0, hq⟩, (ih hxs x).1 (by omega)]
        exact Or.inr ⟨List.mem_cons_self, hq⟩
      · rw [if_neg (fun h => hq h.2)]
        rcases (ih hxs p0).2 h0 with ⟨h1, h2⟩ | ⟨h1, h2⟩
        · refine Or.inl ⟨h1, fun r hr => ?_⟩
          rcases List.mem_cons.mp hr with rfl | hr
          · simpa using hq
          · exact h2 r hr
        · exact Or.inr ⟨List.mem_cons_of_mem _ h1, h2⟩

/-- the pivot search returns `n` only if every candidate `m.get r c`, `c ≤ r < n`, is zero;
otherwise it returns a row `c ≤ piv < n` with `m.get piv c ≠ 0` -/
theorem gjFindPiv_spec (n : ℕ) (m : RMat) (c : ℕ) :
    (gjFindPiv n m c = n ∧ ∀ r, c ≤ r → r < n → m.get r c = 0) ∨
    (c ≤ gjFindPiv n m c ∧ gjFindPiv n m c < n ∧ m.get (gjFindPiv n m c) c ≠ 0) := by
  have hl : ∀ r ∈ List.range' c (n - c), r < n := by
    intro r hr
    rw [List.mem_range'_1] at hr
    omega
  rcases (foldl_findPiv n (fun r => m.get r c != 0) (List.range' c (n - c)) hl n).2 rfl with
    ⟨h1, h2⟩ | ⟨h1, h2⟩
  · refine Or.inl ⟨h1, fun r hr1 hr2 => ?_⟩
    have := h2 r (by rw [List.mem_range'_1]; omega)
    simpa using this
  · refine Or.inr ?_
    change gjFindPiv n m c ∈ _ at h1
    change (m.get (gjFindPiv n m c) c != 0) = true at h2
    rw [List.mem_range'_1] at h1
    exact ⟨h1.1, by omega, by simpa using h2⟩

/-! ## E. one column step and the whole loop -/

/-- **one column step** (swap the pivot row up, normalise it, clear the column in all other rows)
keeps the shape and the invariants, and completes column `c` of the left block -/
theorem gjStep_spec {n : ℕ} {A : Matrix (Fin n) (Fin n) ℚ} {m : RMat} (hA : Aug n m)
    (hI : GJInv n A m.get) {c : ℕ} (hC : ColDone n c m.get) (hc : c < n) {piv : ℕ}
    (hp1 : c ≤ piv) (hp2 : piv < n) (hp : m.get piv c ≠ 0) :
    Aug n (gjStep n c piv m) ∧ GJInv n A (RMat.get (gjStep n c piv m)) ∧
    ColDone n (c + 1) (RMat.get (gjStep n c piv m)) := by
  have a1 := gjSwap_aug hA c piv hc hp2
  have g1 := gjSwap_get hA c piv hc hp2
  have a2 := gjScale_aug a1 c hc
  have g2 := gjScale_get a1 c hc
  obtain ⟨a3, g3⟩ := gjElimAll_spec a2 c hc n le_rfl
  have hpp : RMat.get (gjSwap m c piv) c c = m.get piv c := by rw [g1, if_pos rfl]
  have i1 : GJInv n A (RMat.get (gjSwap m c piv)) := hI.swap c piv hc hp2 g1
  have i2 : GJInv n A (RMat.get (gjScale (gjSwap m c piv) c)) :=
    i1.scale c hc _ (by rw [hpp]; exact hp) g2
  refine ⟨a3, ?_, ?_⟩
  · refine i2.elim c hc (fun i => RMat.get (gjScale (gjSwap m c piv) c) i c) fun i j hj => ?_
    show RMat.get ((List.range n).foldl (gjElim n c) (gjScale (gjSwap m c piv) c)) i j = _
    rw [g3 i j hj]
    by_cases h1 : i = c
    · subst h1
      rw [if_neg (fun h => h.2 rfl), if_neg (fun h => h rfl)]
    · by_cases h2 : i < n
      · rw [if_pos ⟨h2, h1⟩, if_pos h1]
      · rw [if_neg (fun h => h2 h.1), if_pos h1]
        have hz : ∀ x, RMat.get (gjScale (gjSwap m c piv) c) i x = 0 := fun x =>
          get_of_size_le _ _ _ (by rw [a2.1]; omega)
        rw [hz j, hz c, zero_mul, sub_zero]
  · intro i hi j hj
    show RMat.get ((List.range n).foldl (gjElim n c) (gjScale (gjSwap m c piv) c)) i j = _
    rw [g3 i j (by omega)]
    -- the entries of the swapped and scaled matrix in the columns `≤ c`
    have e2c : RMat.get (gjScale (gjSwap m c piv) c) c c = 1 := by
      rw [g2, if_pos rfl, hpp]
      exact div_self hp
    have e2lt : ∀ i' < n, ∀ j' < c, RMat.get (gjScale (gjSwap m c piv) c) i' j'
        = if i' = j' then 1 else 0 := by
      intro i' hi' j' hj'
      rw [g2]
      by_cases h1 : i' = c
      · rw [if_pos h1, g1 c j', if_pos rfl, hC piv hp2 j' hj', if_neg (by omega), zero_div,
          if_neg (by omega)]
      · rw [if_neg h1, g1 i' j', if_neg h1]
        by_cases h2 : i' = piv
        · rw [if_pos h2, hC c hc j' hj', if_neg (by omega), if_neg (by omega)]
        · rw [if_neg h2, hC i' hi' j' hj']
    rcases Nat.lt_succ_iff_lt_or_eq.mp hj with hj' | rfl
    · -- a column `< c`
      by_cases h1 : i = j
      · rw [if_pos ⟨hi, by omega⟩, e2lt i hi j hj', e2lt c hc j hj', if_pos h1,
          if_neg (by omega), mul_zero, sub_zero]
      · by_cases h2 : i = c
        · rw [if_neg (fun h => h.2 h2), e2lt i hi j hj']
        · rw [if_pos ⟨hi, h2⟩, e2lt i hi j hj', e2lt c hc j hj', if_neg h1,
            if_neg (by omega), mul_zero, sub_zero]
    · -- column `c` itself
      by_cases h1 : i = j
      · rw [if_neg (fun h => h.2 h1), h1, e2c, if_pos rfl]
      · rw [if_pos ⟨hi, h1⟩, e2c, mul_one, sub_self, if_neg h1]

/-- **the loop**: from column `c` on, with the invariants, the elimination never fails and ends with
the invariants and a completed left block -/
theorem gjLoop_spec {n : ℕ} {A : Matrix (Fin n) (Fin n) ℚ} (k : ℕ) (c : ℕ) (hck : c + k = n)
    {m : RMat} (hA : Aug n m) (hI : GJInv n A m.get) (hC : ColDone n c m.get) :
    ∃ m', gjLoop n (List.range' c k) m = some m' ∧ Aug n m' ∧ GJInv n A m'.get ∧
      ColDone n n m'.get := by
  induction k generalizing c m with
  | zero =>
    have : c = n := by omega
    subst this
    exact ⟨m, rfl, hA, hI, hC⟩
  | succ k ih =>
    have hc : c < n := by omega
    rw [List.range'_succ]
    unfold gjLoop
    rcases gjFindPiv_spec n m c with ⟨-, h2⟩ | ⟨h1, h2, h3⟩
    · obtain ⟨r, hr1, hr2, hr3⟩ := hI.exists_pivot hC hc
      exact absurd (h2 r hr1 hr2) hr3
    · rw [if_neg (by omega)]
      obtain ⟨a', i', c'⟩ := gjStep_spec hA hI hC hc h1 h2 h3
      exact ih (c + 1) (by omega) a' i' c'

/-! ## F. the initial augmented matrix, the extracted result, and the theorem -/

theorem gjInit_row (a : RMat) (i : ℕ) (hi : i < a.size) :
    (gjInit a).getD i #[] = a.getD i #[] ++ (RMat.id a.size).getD i #[] := by
  unfold gjInit
  rw [getD_map_range, if_pos hi]

theorem gjInit_aug {k : ℕ} (a : RMat) (hw : WellShaped k a) : Aug k (gjInit a) := by
  obtain ⟨hk, hrow⟩ := hw
  subst hk
  refine ⟨by simp [gjInit], fun i hi => ?_⟩
  rw [gjInit_row a i hi, Array.size_append, hrow i hi, (wellShaped_id a.size).2 i hi]
  omega

theorem gjInit_get_left {k : ℕ} (a : RMat) (hw : WellShaped k a) (i j : ℕ) (hi : i < k)
    (hj : j < k) : RMat.get (gjInit a) i j = a.get i j := by
  obtain ⟨hk, hrow⟩ := hw
  subst hk
  unfold RMat.get
  rw [gjInit_row a i hi, Array.getD_eq_getD_getElem?, Array.getElem?_append,
    if_pos (by rw [hrow i hi]; exact hj), ← Array.getD_eq_getD_getElem?]

theorem gjInit_get_right {k : ℕ} (a : RMat) (hw : WellShaped k a) (i j : ℕ) (hi : i < k)
    (hj : j < k) : RMat.get (gjInit a) i (k + j) = if i = j then 1 else 0 := by
  obtain ⟨hk, hrow⟩ := hw
  subst hk
  have h1 : RMat.get (gjInit a) i (a.size + j) = RMat.get (RMat.id a.size) i j := by
    unfold RMat.get
    rw [gjInit_row a i hi, Array.getD_eq_getD_getElem?, Array.getElem?_append,
      if_neg (by rw [hrow i hi]; omega), hrow i hi, Nat.add_sub_cancel_left,
      ← Array.getD_eq_getD_getElem?]
  rw [h1]
  unfold RMat.id
  rw [get_ofFn, if_pos ⟨hi, hj⟩]

/-- the invariants hold initially: `[A | 1]`, with `A` injective because `det A ≠ 0` -/
theorem gjInit_inv {k : ℕ} (a : RMat) (hw : WellShaped k a) (hdet : (toMatrix k a).det ≠ 0) :
    GJInv k (toMatrix k a) (RMat.get (gjInit a)) ∧ ColDone k 0 (RMat.get (gjInit a)) := by
  refine ⟨⟨fun i hi j => ?_, fun w hw' => ?_⟩, fun i _ j hj => absurd hj (Nat.not_lt_zero j)⟩
  · rw [gjInit_get_left a hw i j hi j.isLt]
    simp only [gjInit_get_right a hw i _ hi (Fin.isLt _)]
    rw [Finset.sum_eq_single (⟨i, hi⟩ : Fin k)]
    · rw [if_pos rfl, one_mul]
      rfl
    · intro b _ hb
      rw [if_neg (fun h => hb (Fin.ext h.symm)), zero_mul]
    · intro h
      exact absurd (Finset.mem_univ _) h
  · by_contra hne
    refine hdet (Matrix.exists_mulVec_eq_zero_iff.mp ⟨w, hne, ?_⟩)
    funext i
    have := hw' i i.isLt
    show ∑ j, toMatrix k a i j * w j = 0
    rw [← this]
    exact Finset.sum_congr rfl fun j _ => by
      rw [gjInit_get_left a hw i j i.isLt j.isLt]
      rfl

/-- the right half which `RMat.inv` returns -/
def gjExtract (n : ℕ) (m : RMat) : RMat := m.map fun row => row.extract n (2 * n)

theorem gjExtract_row {n : ℕ} {m : RMat} (h : Aug n m) (i : ℕ) (hi : i < n) :
    (gjExtract n m).getD i #[] = (m.getD i #[]).extract n (2 * n) := by
  unfold gjExtract
  have hi' : i < m.size := by rw [h.1]; exact hi
  rw [Array.getD_eq_getD_getElem?, Array.getElem?_map, Array.getD_eq_getD_getElem?,
    Array.getElem?_eq_getElem hi']
  rfl

theorem gjExtract_wellShaped {n : ℕ} {m : RMat} (h : Aug n m) : WellShaped n (gjExtract n m) := by
  refine ⟨by unfold gjExtract; rw [Array.size_map]; exact h.1, fun i hi => ?_⟩
  rw [gjExtract_row h i hi, Array.size_extract, h.2 i hi]
  omega

theorem gjExtract_get {n : ℕ} {m : RMat} (h : Aug n m) (i j : ℕ) (hi : i < n) (hj : j < n) :
    RMat.get (gjExtract n m) i j = m.get i (n + j) := by
  unfold RMat.get
  rw [gjExtract_row h i hi, Array.getD_eq_getD_getElem?, Array.getElem?_extract,
    if_pos (by rw [h.2 i hi]; omega), ← Array.getD_eq_getD_getElem?]

/-- **The Gauss–Jordan routine succeeds on every invertible square matrix, and returns the
inverse.**  `a` is `k × k` (`WellShaped`: `k` rows of length exactly `k` — the routine appends the
identity to each row, so it is only meaningful for such arrays) and the determinant of its matrix
view is non-zero.  Then `RMat.inv` does not take its "singular" branch at any column (a non-zero
pivot exists in the current column at or below the diagonal, `GJInv.exists_pivot`), and its result
`b` is `k × k` with `b * a = 1 = a * b`. -/
theorem RMat.inv_spec_of_det_ne_zero {k : ℕ} (a : RMat) (hw : WellShaped k a)
    (hdet : (toMatrix k a).det ≠ 0) :
    ∃ b : RMat, a.inv = some b ∧ WellShaped k b ∧
      toMatrix k b * toMatrix k a = 1 ∧ toMatrix k a * toMatrix k b = 1 := by
  have hk : a.size = k := hw.1
  obtain ⟨hI, hC⟩ := gjInit_inv a hw hdet
  obtain ⟨m', hloop, hA', hI', hC'⟩ :=
    gjLoop_spec k 0 (Nat.zero_add k) (gjInit_aug a hw) hI hC
  refine ⟨gjExtract k m', ?_, gjExtract_wellShaped hA', ?_⟩
  · rw [inv_eq, hk, List.range_eq_range', hloop]
    rfl
  · have h1 : toMatrix k (gjExtract k m') * toMatrix k a = 1 := by
      funext i j
      rw [Matrix.mul_apply, Matrix.one_apply]
      have := hI'.rel i i.isLt j
      rw [hC' i i.isLt j j.isLt] at this
      simp only [Fin.ext_iff]
      rw [this]
      exact Finset.sum_congr rfl fun x _ => by
        rw [toMatrix_apply, gjExtract_get hA' i x i.isLt x.isLt]
    exact ⟨h1, mul_eq_one_comm.mp h1⟩

/-- `RMat.inv` returns `some` on every square array whose matrix view has a non-zero determinant -/
theorem RMat.inv_isSome_of_det_ne_zero (a : RMat) (hw : WellShaped a.size a)
    (hdet : (toMatrix a.size a).det ≠ 0) : (a.inv).isSome = true := by
  obtain ⟨b, hb, -⟩ := RMat.inv_spec_of_det_ne_zero a hw hdet
  rw [hb]
  rfl

/-! ## G. `getP` and `mutConfigProb` return `some` -/

theorem isId_of_toMatrix {k : ℕ} (a : RMat) (hk : a.size = k) (h : toMatrix k a = 1) :
    a.isId = true := by
  subst hk
  exact (isId_iff a).mpr h

/-- if the matrix `1 - diag((θ r_total)⁻¹) S` which `getP` inverts has a non-zero determinant, then
`getP` returns `some`: the Gauss–Jordan routine succeeds and BOTH exact certificates
`M * Ptot = 1`, `Ptot * M = 1` pass -/
theorem getP_isSome_of_det_ne_zero (S : RMat) (R : List (Array ℚ)) (θ : ℚ)
    (hdet : (mcCode θ (rFun S.size R) (toMatrix S.size S)).det ≠ 0) :
    ∃ out, getP S R θ = some out := by
  have hw := wellShaped_getPM S R θ
  rw [← toMatrix_getPM] at hdet
  obtain ⟨b, hb, hbw, h1, h2⟩ := RMat.inv_spec_of_det_ne_zero (getPM S R θ) hw hdet
  refine ⟨getPOut S.size R b, ?_⟩
  rw [getP_eq, hb]
  have hc1 : RMat.isId ((getPM S R θ).mul b) = true :=
    isId_of_toMatrix _ ((size_mul _ _).trans hw.1) (by rw [toMatrix_mul' hw hbw]; exact h2)
  have hc2 : RMat.isId (b.mul (getPM S R θ)) = true :=
    isId_of_toMatrix _ ((size_mul _ _).trans hbw.1) (by rw [toMatrix_mul' hbw hw]; exact h1)
  simp only [Option.filter, hc1, hc2, Bool.and_self, if_true]

/-- the determinant of the matrix the code inverts does not vanish under the sign hypotheses of
`PGProofs.MutConfigNonneg` (it is `(θD)⁻¹ (θD - S)`, see `resolvent_det_ne_zero`) -/
theorem mcCode_det_ne_zero {ι : Type*} [Fintype ι] [DecidableEq ι] {n : ℕ} {θ : ℚ}
    {R : Fin n → ι → ℚ} {S : Matrix ι ι ℚ}
    (hS_off : ∀ i j, i ≠ j → 0 ≤ S i j) (hS_row : ∀ i, ∑ j, S i j ≤ 0) (hθ : 0 < θ)
    (hr : ∀ s, 0 < mcRtot R s) : (mcCode θ R S).det ≠ 0 := by
  have hr' : ∀ s, mcRtot R s ≠ 0 := fun s => (hr s).ne'
  rw [mcCode_eq hθ.ne' hr', Matrix.det_mul]
  exact mul_ne_zero (Matrix.det_ne_zero_of_right_inverse (mcDinv_mul_D hθ.ne' hr'))
    (resolvent_det_ne_zero hS_off hS_row hθ hr)

/-- **`getP` returns `some`** under the sign hypotheses -/
theorem getP_isSome {S : RMat} {R : List (Array ℚ)} {θ : ℚ}
    (hS_off : ∀ i j, i ≠ j → 0 ≤ toMatrix S.size S i j)
    (hS_row : ∀ i, ∑ j, toMatrix S.size S i j ≤ 0) (hθ : 0 < θ)
    (hr : ∀ s, 0 < mcRtot (rFun S.size R) s) : ∃ out, getP S R θ = some out :=
  getP_isSome_of_det_ne_zero S R θ (mcCode_det_ne_zero hS_off hS_row hθ hr)

/-- **`mutConfigProb` returns `some`** under the sign hypotheses, for every initial vector and every
configuration -/
theorem mutConfigProb_isSome {S : RMat} {R : List (Array ℚ)} {θ : ℚ}
    (hS_off : ∀ i j, i ≠ j → 0 ≤ toMatrix S.size S i j)
    (hS_row : ∀ i, ∑ j, toMatrix S.size S i j ≤ 0) (hθ : 0 < θ)
    (hr : ∀ s, 0 < mcRtot (rFun S.size R) s) (alpha : Array ℚ) (config : List ℕ) :
    ∃ p, mutConfigProb S R alpha θ config = some p := by
  obtain ⟨⟨P, pTot⟩, hg⟩ := getP_isSome hS_off hS_row hθ hr
  rw [mutConfigProb_eq, hg]
  exact ⟨_, rfl⟩

/-- `getP` returns `some` EXACTLY when the matrix it inverts is invertible -/
theorem getP_isSome_iff (S : RMat) (R : List (Array ℚ)) (θ : ℚ) :
    (∃ out, getP S R θ = some out) ↔
      (mcCode θ (rFun S.size R) (toMatrix S.size S)).det ≠ 0 := by
  constructor
  · rintro ⟨⟨P, pTot⟩, h⟩
    obtain ⟨Ptot, h1, -⟩ := getP_spec h
    exact Matrix.det_ne_zero_of_right_inverse h1
  · exact getP_isSome_of_det_ne_zero S R θ

section Total
variable {D n : ℕ}

/-- `getP` returns `some` on the inputs of the `mutcfg u` driver path -/
theorem mutcfg_getP_isSome (m : Model) (hm : m.Valid) (ep : EpochP) (hep : ep.Valid)
    (hD : 0 < D) (hn : 2 ≤ n) (fuel : ℕ) (g : Graph)
    (hg : bfs (transit m ep) (initialState 1 D n n) fuel = some g) (θ : ℚ) (hθ : 0 < θ) :
    ∃ out, getP (mutcfgS g) (mutcfgR g n) θ = some out := by
  obtain ⟨hS_off, hS_row, -, hr, -⟩ :=
    mutcfgInputs_hypotheses m hm ep hep hD hn fuel g hg [] 0 0
  exact getP_isSome hS_off hS_row hθ hr

/-- **C16 at the level of the code model, total form**: on the inputs of the `mutcfg u` driver path
the executable `mutConfigProb` DOES return a number (never `"error singular"`), and it lies in
`[0, 1]` -/
theorem C16_code_prob_total (m : Model) (hm : m.Valid) (ep : EpochP) (hep : ep.Valid)
    (hD : 0 < D) (hn : 2 ≤ n) (fuel : ℕ) (g : Graph)
    (hg : bfs (transit m ep) (initialState 1 D n n) fuel = some g)
    (nVec : List ℕ) (nLoci nUnl : ℕ) (θ : ℚ) (hθ : 0 < θ) (config : List ℕ) :
    ∃ p, mutConfigProb (mutcfgInputs g n nVec nLoci nUnl).1 (mutcfgInputs g n nVec nLoci nUnl).2.1
        (mutcfgInputs g n nVec nLoci nUnl).2.2 θ config = some p ∧
      0 ≤ p ∧ (config.length = n - 1 → p ≤ 1) := by
  obtain ⟨hS_off, hS_row, -, hr, -⟩ :=
    mutcfgInputs_hypotheses m hm ep hep hD hn fuel g hg nVec nLoci nUnl
  obtain ⟨p, hp⟩ := mutConfigProb_isSome hS_off hS_row hθ hr
    (mutcfgAlpha g nVec nLoci nUnl) config
  exact ⟨p, hp, C16_code_prob_in_unit_interval m hm ep hep hD hn fuel g hg nVec nLoci nUnl θ hθ
    config p hp⟩

end Total

/-! ## H. THE FOLDED BRIDGE: the `mutcfg f` driver path -/

section Folded

/-- every folded SFS reward is non-negative (on every state) -/
theorem foldedSFS_nonneg (n' : ℕ) (s : State) (i : ℕ) :
    0 ≤ Reward.eval n' s (.foldedSFS i) := by
  rw [folded_eq_fold]
  refine add_nonneg (unfoldedSFS_nonneg _ _ _) ?_
  split_ifs
  · exact le_rfl
  · exact unfoldedSFS_nonneg _ _ _

/-- `R` (folded kind, `nBins = c.nTot / 2`): `Main.lean`, `mutcfg`, with
`c.rewardVec r = (c.states.map fun s => r.eval c.nTot s).toArray`:
`let R := (List.range nBins).map fun b => let v := c.rewardVec (.foldedSFS (b + 1));
  (nonAbs.map fun i => v.getD i 0).toArray` -/
def mutcfgRFolded (g : Graph) (n : ℕ) : List (Array ℚ) :=
  let states := g.visited
  let nonAbs := nonAbsIdx states
  (List.range (n / 2)).map fun b =>
    let v : Array ℚ := (states.map fun s => (Reward.foldedSFS (b + 1)).eval n s).toArray
    (nonAbs.map fun i => v.getD i 0).toArray

/-- the triple `(S, R, alpha)` which the `mutcfg` command passes to `mutConfigProb` for
`kind = "f"`, i.e. `nBins = c.nTot / 2` and `r = .foldedSFS (b + 1)`; `S` and `alpha` do not depend
on the kind (`Main.lean` cannot be imported, its expression is restated as for `mutcfgInputs`) -/
def mutcfgInputsFolded (g : Graph) (n : ℕ) (nVec : List ℕ) (nLoci nUnl : ℕ) :
    RMat × List (Array ℚ) × Array ℚ :=
  (mutcfgS g, mutcfgRFolded g n, mutcfgAlpha g nVec nLoci nUnl)

theorem mutcfgRFolded_length (g : Graph) (n : ℕ) : (mutcfgRFolded g n).length = n / 2 := by
  simp [mutcfgRFolded]

/-- the cell `a` of the `b`-th reward vector is the folded SFS reward `b + 1` of the `a`-th
non-absorbing state -/
theorem mutcfgRFolded_getD (g : Graph) (n : ℕ) (b : ℕ) (hb : b < (mutcfgRFolded g n).length)
    (a : ℕ) (ha : a < (nonAbsIdx g.visited).length) :
    ((mutcfgRFolded g n)[b]).getD a 0
      = Reward.eval n (g.visited[(nonAbsIdx g.visited)[a]]'(nonAbsIdx_lt _ a ha))
          (.foldedSFS (b + 1)) := by
  simp only [mutcfgRFolded, List.getElem_map, List.getElem_range]
  rw [getD_toArray_map _ _ _ a ha, getD_toArray_map _ _ _ _ (nonAbsIdx_lt _ a ha)]

theorem mutcfgRFolded_total (g : Graph) (n : ℕ) (a : ℕ) (ha : a < (nonAbsIdx g.visited).length) :
    ((mutcfgRFolded g n).map fun Ri => Ri.getD a 0).sum
      = ∑ b ∈ Finset.range (n / 2),
          Reward.eval n (g.visited[(nonAbsIdx g.visited)[a]]'(nonAbsIdx_lt _ a ha))
            (.foldedSFS (b + 1)) := by
  unfold mutcfgRFolded
  simp only
  rw [List.map_map, list_range_map_sum]
  refine Finset.sum_congr rfl fun b _ => ?_
  simp only [Function.comp]
  rw [getD_toArray_map _ _ _ a ha, getD_toArray_map _ _ _ _ (nonAbsIdx_lt _ a ha)]

/-- `hR` -/
theorem mutcfgRFolded_nonneg (g : Graph) (n : ℕ) :
    ∀ (i : Fin (mutcfgRFolded g n).length) (s : Fin (mutcfgS g).size),
      0 ≤ rFun (mutcfgS g).size (mutcfgRFolded g n) i s := by
  intro i s
  have hs : s.val < (nonAbsIdx g.visited).length := (mutcfgS_size g) ▸ s.isLt
  unfold rFun
  rw [Fin.getElem_fin, mutcfgRFolded_getD g n i.val i.isLt s.val hs]
  exact foldedSFS_nonneg _ _ _

theorem sum_Icc_shift' {M} [AddCommMonoid M] (k : ℕ) (F : ℕ → M) :
    ∑ i ∈ Finset.Icc 1 k, F i = ∑ i ∈ Finset.range k, F (i + 1) := by
  have := sum_Icc_shift (k + 1) (by omega) F
  rwa [Nat.add_sub_cancel] at this

variable {D n : ℕ}

/-- on every state of the block-counting graph the folded SFS rewards `1 … n/2` sum to the total
branch length reward (`sum_folded_eq_tbl`, whose hypotheses `IsBC`/`massOK` are theorems here) -/
theorem folded_rewards_sum_eq_tbl (m : Model) (ep : EpochP) (hD : 0 < D) (hn : 2 ≤ n) (fuel : ℕ)
    (g : Graph) (h : bfs (transit m ep) (initialState 1 D n n) fuel = some g) (s : State)
    (hs : s ∈ g.visited) :
    ∑ i ∈ Finset.Icc 1 (n / 2), Reward.eval n s (.foldedSFS i)
      = Reward.eval n s .totalBranchLength := by
  obtain ⟨c, rfl, hm⟩ := bfs_states_bc m ep hD hn fuel g h s hs
  exact sum_folded_eq_tbl n D _ hn (isBC_encBC c) ((massOK_encBC c).mpr hm)

/-- `r_total` of the driver's folded `R` is the total branch length reward of the state -/
theorem mutcfgRFolded_rtot (m : Model) (ep : EpochP) (hD : 0 < D) (hn : 2 ≤ n) (fuel : ℕ)
    (g : Graph) (h : bfs (transit m ep) (initialState 1 D n n) fuel = some g)
    (s : Fin (mutcfgS g).size) :
    mcRtot (rFun (mutcfgS g).size (mutcfgRFolded g n)) s
      = Reward.eval n
          (g.visited[(nonAbsIdx g.visited)[s.val]'(mutcfgS_idx_lt g s)]'(nonAbsIdx_lt _ _
            (mutcfgS_idx_lt g s))) .totalBranchLength := by
  have hs : s.val < (nonAbsIdx g.visited).length := mutcfgS_idx_lt g s
  unfold mcRtot rFun
  rw [← folded_rewards_sum_eq_tbl m ep hD hn fuel g h _ (List.getElem_mem _),
    sum_Icc_shift', ← mutcfgRFolded_total g n s.val hs,
    ← Fin.sum_univ_fun_getElem (mutcfgRFolded g n) fun Ri => Ri.getD s.val 0]
  rfl

/-- `hr` -/
theorem mutcfgRFolded_rtot_pos (m : Model) (ep : EpochP) (hD : 0 < D) (hn : 2 ≤ n) (fuel : ℕ)
    (g : Graph) (h : bfs (transit m ep) (initialState 1 D n n) fuel = some g) :
    ∀ s : Fin (mutcfgS g).size, 0 < mcRtot (rFun (mutcfgS g).size (mutcfgRFolded g n)) s := by
  intro s
  rw [mutcfgRFolded_rtot m ep hD hn fuel g h s]
  exact transient_total_reward_pos m ep hD hn fuel g h _ (List.getElem_mem _)
    (nonAbsIdx_not_absorbing _ _ _)

/-- the folded and the unfolded reward vectors have the same total in every transient state -/
theorem mutcfgRFolded_rtot_eq (m : Model) (ep : EpochP) (hD : 0 < D) (hn : 2 ≤ n) (fuel : ℕ)
    (g : Graph) (h : bfs (transit m ep) (initialState 1 D n n) fuel = some g)
    (s : Fin (mutcfgS g).size) :
    mcRtot (rFun (mutcfgS g).size (mutcfgRFolded g n)) s
      = mcRtot (rFun (mutcfgS g).size (mutcfgR g n)) s := by
  rw [mutcfgRFolded_rtot m ep hD hn fuel g h s, mutcfgR_rtot m ep hD hn fuel g h s]

/-- **All sign hypotheses of `mutConfigProb_nonneg` / `mutConfigProb_le_one` hold for the inputs of
the `mutcfg f` (folded) driver path** (valid model, valid epoch, block-counting graph of `n ≥ 2`
samples over `D ≥ 1` demes). -/
theorem mutcfgInputsFolded_hypotheses (m : Model) (hm : m.Valid) (ep : EpochP) (hep : ep.Valid)
    (hD : 0 < D) (hn : 2 ≤ n) (fuel : ℕ) (g : Graph)
    (hg : bfs (transit m ep) (initialState 1 D n n) fuel = some g)
    (nVec : List ℕ) (nLoci nUnl : ℕ) :
    (∀ i j, i ≠ j → 0 ≤ toMatrix (mutcfgS g).size (mutcfgS g) i j) ∧
    (∀ i, ∑ j, toMatrix (mutcfgS g).size (mutcfgS g) i j ≤ 0) ∧
    (∀ i s, 0 ≤ rFun (mutcfgS g).size (mutcfgRFolded g n) i s) ∧
    (∀ s, 0 < mcRtot (rFun (mutcfgS g).size (mutcfgRFolded g n)) s) ∧
    (∀ s, 0 ≤ toVec (mutcfgS g).size (mutcfgAlpha g nVec nLoci nUnl) s) ∧
    ∑ s, toVec (mutcfgS g).size (mutcfgAlpha g nVec nLoci nUnl) s ≤ 1 ∧
    (mutcfgRFolded g n).length = n / 2 :=
  ⟨mutcfgS_offdiag_nonneg m hm ep hep _ fuel g hg,
   mutcfgS_row_sum_nonpos m hm ep hep _ fuel g hg,
   mutcfgRFolded_nonneg g n,
   mutcfgRFolded_rtot_pos m ep hD hn fuel g hg,
   mutcfgAlpha_nonneg g nVec nLoci nUnl _,
   mutcfgAlpha_sum_le_one g nVec nLoci nUnl,
   mutcfgRFolded_length g n⟩

/-- **C16 at the level of the code model, folded kind, with no sign hypothesis left.**
For a valid coalescent model, a valid epoch, `D ≥ 1` demes, `n ≥ 2` samples, the block-counting
graph `g` of the search and the arrays `(S, R, alpha)` which the `mutcfg f` path of the driver
assembles (`mutcfgInputsFolded`: folded SFS reward vectors `1 … n/2`): for every `θ > 0` and EVERY
configuration, whatever the executable `mutConfigProb` returns is `≥ 0`, and it is `≤ 1` if the
configuration has one entry per folded SFS bin. -/
theorem C16_code_prob_in_unit_interval_folded (m : Model) (hm : m.Valid) (ep : EpochP)
    (hep : ep.Valid) (hD : 0 < D) (hn : 2 ≤ n) (fuel : ℕ) (g : Graph)
    (hg : bfs (transit m ep) (initialState 1 D n n) fuel = some g)
    (nVec : List ℕ) (nLoci nUnl : ℕ) (θ : ℚ) (hθ : 0 < θ) (config : List ℕ) (p : ℚ)
    (h : mutConfigProb (mutcfgInputsFolded g n nVec nLoci nUnl).1
      (mutcfgInputsFolded g n nVec nLoci nUnl).2.1
      (mutcfgInputsFolded g n nVec nLoci nUnl).2.2 θ config = some p) :
    0 ≤ p ∧ (config.length = n / 2 → p ≤ 1) := by
  change mutConfigProb (mutcfgS g) (mutcfgRFolded g n) (mutcfgAlpha g nVec nLoci nUnl) θ config
    = some p at h
  obtain ⟨hS_off, hS_row, hR, hr, hα, hα1, hlen⟩ :=
    mutcfgInputsFolded_hypotheses m hm ep hep hD hn fuel g hg nVec nLoci nUnl
  refine ⟨mutConfigProb_nonneg_any h hS_off hS_row hθ hR hr hα, fun hc => ?_⟩
  exact mutConfigProb_le_one h hS_off hS_row hθ hR hr hα hα1 (by rw [hlen]; omega)
    (by rw [hlen]; exact hc)

/-- the same for the total mass (folded kind) -/
theorem C16_code_total_mass_in_unit_interval_folded (m : Model) (hm : m.Valid) (ep : EpochP)
    (hep : ep.Valid) (hD : 0 < D) (hn : 2 ≤ n) (fuel : ℕ) (g : Graph)
    (hg : bfs (transit m ep) (initialState 1 D n n) fuel = some g)
    (nVec : List ℕ) (nLoci nUnl : ℕ) (θ : ℚ) (hθ : 0 < θ) (P : List RMat) (pTot : Array ℚ)
    (hP : getP (mutcfgS g) (mutcfgRFolded g n) θ = some (P, pTot)) (M : ℕ) :
    0 ≤ ∑ k ∈ Finset.range (M + 1), ((partitionsOf k (n / 2)).map fun c =>
        (mutConfigProb (mutcfgS g) (mutcfgRFolded g n) (mutcfgAlpha g nVec nLoci nUnl) θ
          c).getD 0).sum ∧
    ∑ k ∈ Finset.range (M + 1), ((partitionsOf k (n / 2)).map fun c =>
        (mutConfigProb (mutcfgS g) (mutcfgRFolded g n) (mutcfgAlpha g nVec nLoci nUnl) θ
          c).getD 0).sum ≤ 1 := by
  obtain ⟨hS_off, hS_row, hR, hr, hα, hα1, hlen⟩ :=
    mutcfgInputsFolded_hypotheses m hm ep hep hD hn fuel g hg nVec nLoci nUnl
  have := mutConfigProb_total_mass_bounds hP hS_off hS_row hθ hR hr (by rw [hlen]; omega)
    (mutcfgAlpha g nVec nLoci nUnl) hα hα1 M
  rwa [hlen] at this

/-- **total form, folded kind**: the executable DOES return a number, and it lies in `[0, 1]` -/
theorem C16_code_prob_total_folded (m : Model) (hm : m.Valid) (ep : EpochP) (hep : ep.Valid)
    (hD : 0 < D) (hn : 2 ≤ n) (fuel : ℕ) (g : Graph)
    (hg : bfs (transit m ep) (initialState 1 D n n) fuel = some g)
    (nVec : List ℕ) (nLoci nUnl : ℕ) (θ : ℚ) (hθ : 0 < θ) (config : List ℕ) :
    ∃ p, mutConfigProb (mutcfgInputsFolded g n nVec nLoci nUnl).1
        (mutcfgInputsFolded g n nVec nLoci nUnl).2.1
        (mutcfgInputsFolded g n nVec nLoci nUnl).2.2 θ config = some p ∧
      0 ≤ p ∧ (config.length = n / 2 → p ≤ 1) := by
  obtain ⟨hS_off, hS_row, -, hr, -⟩ :=
    mutcfgInputsFolded_hypotheses m hm ep hep hD hn fuel g hg nVec nLoci nUnl
  obtain ⟨p, hp⟩ := mutConfigProb_isSome hS_off hS_row hθ hr
    (mutcfgAlpha g nVec nLoci nUnl) config
  exact ⟨p, hp, C16_code_prob_in_unit_interval_folded m hm ep hep hD hn fuel g hg nVec nLoci nUnl
    θ hθ config p hp⟩

end Folded

/-! ## I. A concrete instance: Kingman coalescent, `n = 4` samples, one deme, folded spectrum -/

section Example4

/-- the block-counting graph for `n = 4`: `(4,0,0,0) → (2,1,0,0)` at rate 6, `(2,1,0,0) → (0,2,0,0)`
at rate 1 and `→ (1,0,1,0)` at rate 2, both `→ (0,0,0,1)` at rate 1 -/
def exGraph4 : Graph :=
  { visited := [⟨[[[4, 0, 0, 0]]], [[[0, 0, 0, 0]]]⟩, ⟨[[[2, 1, 0, 0]]], [[[0, 0, 0, 0]]]⟩,
      ⟨[[[0, 2, 0, 0]]], [[[0, 0, 0, 0]]]⟩, ⟨[[[1, 0, 1, 0]]], [[[0, 0, 0, 0]]]⟩,
      ⟨[[[0, 0, 0, 1]]], [[[0, 0, 0, 0]]]⟩]
    transitions := [((⟨[[[4, 0, 0, 0]]], [[[0, 0, 0, 0]]]⟩, ⟨[[[2, 1, 0, 0]]], [[[0, 0, 0, 0]]]⟩), 6),
      ((⟨[[[2, 1, 0, 0]]], [[[0, 0, 0, 0]]]⟩, ⟨[[[0, 2, 0, 0]]], [[[0, 0, 0, 0]]]⟩), 1),
      ((⟨[[[2, 1, 0, 0]]], [[[0, 0, 0, 0]]]⟩, ⟨[[[1, 0, 1, 0]]], [[[0, 0, 0, 0]]]⟩), 2),
      ((⟨[[[0, 2, 0, 0]]], [[[0, 0, 0, 0]]]⟩, ⟨[[[0, 0, 0, 1]]], [[[0, 0, 0, 0]]]⟩), 1),
      ((⟨[[[1, 0, 1, 0]]], [[[0, 0, 0, 0]]]⟩, ⟨[[[0, 0, 0, 1]]], [[[0, 0, 0, 0]]]⟩), 1)] }

/-- the search, evaluated in the kernel -/
theorem ex4_bfs : bfs (transit .kingman exEp) (initialState 1 1 4 4) 10 = some exGraph4 := by
  decide +kernel

/-- the inputs which the `mutcfg f` path assembles: 4 transient states, 2 folded bins
(`ξ₁ + ξ₃` and `ξ₂`) -/
theorem ex4_inputs : mutcfgInputsFolded exGraph4 4 [4] 1 0
    = (#[#[-6, 6, 0, 0], #[0, -3, 1, 2], #[0, 0, -1, 0], #[0, 0, 0, -1]],
       [#[4, 2, 0, 2], #[0, 1, 2, 0]], #[1, 0, 0, 0]) := by
  decide +kernel

/-- the executable (Gauss–Jordan inverse of a `4 × 4` matrix, with both certificates) returns
`1/10`, `53/450`, `7/180`, `28/675` for the folded configurations `(0,0)`, `(1,0)`, `(0,1)`,
`(1,1)` with `θ = 1`; the unfolded values for `(1,0,0)` and `(0,0,1)` are `43/450` and `1/45`,
which add up to the folded `53/450` -/
theorem ex4_values :
    mutConfigProb (mutcfgInputsFolded exGraph4 4 [4] 1 0).1
      (mutcfgInputsFolded exGraph4 4 [4] 1 0).2.1
      (mutcfgInputsFolded exGraph4 4 [4] 1 0).2.2 1 [0, 0] = some (1 / 10) ∧
    mutConfigProb (mutcfgInputsFolded exGraph4 4 [4] 1 0).1
      (mutcfgInputsFolded exGraph4 4 [4] 1 0).2.1
      (mutcfgInputsFolded exGraph4 4 [4] 1 0).2.2 1 [1, 0] = some (53 / 450) ∧
    mutConfigProb (mutcfgInputsFolded exGraph4 4 [4] 1 0).1
      (mutcfgInputsFolded exGraph4 4 [4] 1 0).2.1
      (mutcfgInputsFolded exGraph4 4 [4] 1 0).2.2 1 [0, 1] = some (7 / 180) ∧
    mutConfigProb (mutcfgInputsFolded exGraph4 4 [4] 1 0).1
      (mutcfgInputsFolded exGraph4 4 [4] 1 0).2.1
      (mutcfgInputsFolded exGraph4 4 [4] 1 0).2.2 1 [1, 1] = some (28 / 675) ∧
    mutConfigProb (mutcfgInputs exGraph4 4 [4] 1 0).1 (mutcfgInputs exGraph4 4 [4] 1 0).2.1
      (mutcfgInputs exGraph4 4 [4] 1 0).2.2 1 [1, 0, 0] = some (43 / 450) ∧
    mutConfigProb (mutcfgInputs exGraph4 4 [4] 1 0).1 (mutcfgInputs exGraph4 4 [4] 1 0).2.1
      (mutcfgInputs exGraph4 4 [4] 1 0).2.2 1 [0, 0, 1] = some (1 / 45) := by
  decide +kernel

/-- the folded theorem applies to the instance (every hypothesis is satisfied: non-vacuity) -/
example : (0 : ℚ) ≤ 53 / 450 ∧ ([1, 0].length = 4 / 2 → (53 / 450 : ℚ) ≤ 1) :=
  C16_code_prob_in_unit_interval_folded .kingman trivial exEp exEp_valid (D := 1) (n := 4) one_pos
    (by norm_num) 10 exGraph4 ex4_bfs [4] 1 0 1 one_pos [1, 0] (53 / 450) ex4_values.2.1

/-- and the total form produces exactly that number -/
example : ∃ p, mutConfigProb (mutcfgInputsFolded exGraph4 4 [4] 1 0).1
      (mutcfgInputsFolded exGraph4 4 [4] 1 0).2.1
      (mutcfgInputsFolded exGraph4 4 [4] 1 0).2.2 1 [1, 0] = some p ∧
    0 ≤ p ∧ ([1, 0].length = 4 / 2 → p ≤ 1) :=
  C16_code_prob_total_folded .kingman trivial exEp exEp_valid (D := 1) (n := 4) one_pos
    (by norm_num) 10 exGraph4 ex4_bfs [4] 1 0 1 one_pos [1, 0]

/-- the Gauss–Jordan routine on the instance: the exact inverse of the matrix which `getP` inverts
(kernel evaluation of `RMat.inv`) -/
theorem ex4_inv :
    RMat.inv (getPM (mutcfgS exGraph4) (mutcfgRFolded exGraph4 4) 1)
      = some #[#[2/5, 3/10, 1/15, 2/15], #[0, 1/2, 1/9, 2/9], #[0, 0, 2/3, 0], #[0, 0, 0, 2/3]] := by
  decide +kernel

/-- a matrix which needs a row swap in the first column (`a₀₀ = 0`): the pivot search finds row 1;
and a singular matrix, on which the routine takes its `none` branch -/
theorem ex_inv_pivot :
    RMat.inv #[#[0, 2, 1], #[1, 1, 0], #[3, 0, 1]]
      = some #[#[-1/5, 2/5, 1/5], #[1/5, 3/5, -1/5], #[3/5, -6/5, 2/5]] ∧
    RMat.inv #[#[1, 2], #[2, 4]] = none := by
  decide +kernel

/-- `RMat.inv_spec_of_det_ne_zero` applies to the `3 × 3` instance (`det = -5`) -/
example : ∃ b : RMat, RMat.inv #[#[0, 2, 1], #[1, 1, 0], #[3, 0, 1]] = some b ∧ WellShaped 3 b ∧
    toMatrix 3 b * toMatrix 3 #[#[0, 2, 1], #[1, 1, 0], #[3, 0, 1]] = 1 ∧
    toMatrix 3 #[#[0, 2, 1], #[1, 1, 0], #[3, 0, 1]] * toMatrix 3 b = 1 := by
  refine RMat.inv_spec_of_det_ne_zero _ ⟨rfl, by decide⟩ ?_
  rw [Matrix.det_fin_three]
  simp only [toMatrix_apply]
  decide +kernel

end Example4

end PG

/-
  NOT CLOSED / hypotheses which remain (none of them a sign or invertibility hypothesis):
  * `RMat.inv_spec_of_det_ne_zero` needs `WellShaped k a` (exactly `k` rows of length exactly `k`).
    This is necessary, not a weakness of the proof: `RMat.inv` appends the identity to each row of
    `a`, so for a ragged array the routine does not operate on the matrix view `toMatrix k a`
    (which pads with zeros).  The matrix `getPM S R θ` which `getP` inverts is always well shaped
    (`wellShaped_getPM`), whatever `S` and `R` are, so `getP_isSome_of_det_ne_zero` has no shape
    hypothesis.
  * `bfs … fuel = some g` (the search terminated within the fuel) stays a hypothesis, as in
    `PGProofs.MutConfigBridge`.
  * `mutcfgInputsFolded` RESTATES the expression of `Main.lean` (`mutcfg`, `kind = "f"`), because the
    root module of the executable cannot be imported; it was checked against the compiled driver
    only through the kernel-evaluated instance below, not by a theorem about `Main.lean`.
-/

#print axioms PG.forIn_yield_foldl
#print axioms PG.forIn_outer
#print axioms PG.gjBody_eq
#print axioms PG.inv_eq
#print axioms PG.getD_set!
#print axioms PG.get_set!
#print axioms PG.getD_map_div
#print axioms PG.Aug.set!
#print axioms PG.gjSwap_aug
#print axioms PG.gjSwap_get
#print axioms PG.gjScale_aug
#print axioms PG.gjScale_get
#print axioms PG.gjElim_aug
#print axioms PG.gjElim_get
#print axioms PG.gjElimAll_spec
#print axioms PG.GJInv.swap
#print axioms PG.GJInv.scale
#print axioms PG.GJInv.elim
#print axioms PG.GJInv.exists_pivot
#print axioms PG.foldl_findPiv
#print axioms PG.gjFindPiv_spec
#print axioms PG.gjStep_spec
#print axioms PG.gjLoop_spec
#print axioms PG.gjInit_row
#print axioms PG.gjInit_aug
#print axioms PG.gjInit_get_left
#print axioms PG.gjInit_get_right
#print axioms PG.gjInit_inv
#print axioms PG.gjExtract_row
#print axioms PG.gjExtract_wellShaped
#print axioms PG.gjExtract_get
#print axioms PG.RMat.inv_spec_of_det_ne_zero
#print axioms PG.RMat.inv_isSome_of_det_ne_zero
#print axioms PG.isId_of_toMatrix
#print axioms PG.getP_isSome_of_det_ne_zero
#print axioms PG.mcCode_det_ne_zero
#print axioms PG.getP_isSome
#print axioms PG.mutConfigProb_isSome
#print axioms PG.getP_isSome_iff
#print axioms PG.mutcfg_getP_isSome
#print axioms PG.C16_code_prob_total
#print axioms PG.foldedSFS_nonneg
#print axioms PG.mutcfgRFolded_length
#print axioms PG.mutcfgRFolded_getD
#print axioms PG.mutcfgRFolded_total
#print axioms PG.mutcfgRFolded_nonneg
#print axioms PG.sum_Icc_shift'
#print axioms PG.folded_rewards_sum_eq_tbl
#print axioms PG.mutcfgRFolded_rtot
#print axioms PG.mutcfgRFolded_rtot_pos
#print axioms PG.mutcfgRFolded_rtot_eq
#print axioms PG.mutcfgInputsFolded_hypotheses
#print axioms PG.C16_code_prob_in_unit_interval_folded
#print axioms PG.C16_code_total_mass_in_unit_interval_folded
#print axioms PG.C16_code_prob_total_folded
#print axioms PG.ex4_bfs
#print axioms PG.ex4_inputs
#print axioms PG.ex4_values
#print axioms PG.ex4_inv
#print axioms PG.ex_inv_pivot
