/-
PGProofs.EpochKeyThm — theorems about `PGModel.EpochKey`: the concrete key of an epoch (`Epoch.__hash__` / `__eq__`,
demography.py l.505-524) and the instantiation of the abstract rate-matrix cache (`PGModel/Cache.lean`) with it.

* `key_sound`                equal keys ⇒ equal size and migration dicts; `key_sound_lookup` / `key_sound_value` every
                             lookup agrees; `key_sound_table` the tables the transitions read (`tableOfEpoch`) agree;
                             `contentFn_key` every function of the content gives the same result on both epochs
* `updateDrops_iff`          `update_epoch` keeps `S` iff the keys agree; `updateEpoch_lift` the model's
                             `Cache.updateEpoch` on keys takes exactly that decision
* `cache_instantiated`       `PG.Cache` with `E := KeyT`: in ANY history of `update_epoch` / `S` / `drop_S` / `drop_cache` /
                             `states` on epoch objects, every `S` read is `compute (key (current epoch))`
                             (`C17_refinement` specialised, not re-proved); `cache_instantiated_at` indexed form;
                             `cache_instantiated_content` for a function of the epoch content (e.g. `tableOfEpoch I`): the
                             answer is that function of the CURRENT epoch object itself
* `key_ignores_time`         `start` / `stop` do not enter the key
* `key_complete_same_order`  same key order (unique keys) + equal lookups ⇒ equal keys
* `generated_key_order`      every epoch the generator yields has the key order `popNames`, `popNames × popNames`
* `generated_same_key_order` any two epochs of one generator run share their key order (no hypothesis on the events)
* `generated_eq_iff`         for epochs of generator runs over the same population names (in particular of ONE run):
                             `epochEq e₁ e₂ ↔` all values agree — `__eq__` is content equality there, a cache hit is
                             exactly a repeated content
* `order_sensitive_example`  same content, other insertion order ⇒ not equal (harmless miss)
* `combinations_counterexample`, `keyComb_sound_fails`  the seeded variant identifies epochs with different rates `(q, p)`
-/
import PGModel.EpochKey
import PGModel.ConfigDemo
import PGProofs.CacheThm
import PGProofs.DemographyThm

set_option linter.unusedSectionVars false

namespace PG.EpochKey

open PG

/-! ## 1. soundness of the key -/

theorem epochEq_iff (e₁ e₂ : Epoch) : epochEq e₁ e₂ = true ↔ key e₁ = key e₂ := by
  unfold epochEq; exact beq_iff_eq

theorem key_eq_iff (e₁ e₂ : Epoch) : key e₁ = key e₂ ↔ e₁.sizes = e₂.sizes ∧ e₁.mig = e₂.mig := by
  unfold key; exact Prod.mk.injEq _ _ _ _ ▸ Iff.rfl

/-- **Soundness**: epochs with equal keys have the same population sizes and the same migration rates. -/
theorem key_sound {e₁ e₂ : Epoch} (h : key e₁ = key e₂) : e₁.sizes = e₂.sizes ∧ e₁.mig = e₂.mig :=
  (key_eq_iff e₁ e₂).1 h

/-- … hence every lookup agrees. -/
theorem key_sound_lookup {e₁ e₂ : Epoch} (h : key e₁ = key e₂) :
    (∀ p, e₁.sizes.lookup p = e₂.sizes.lookup p) ∧ (∀ a b, e₁.mig.lookup (a, b) = e₂.mig.lookup (a, b)) := by
  obtain ⟨h1, h2⟩ := key_sound h
  exact ⟨fun p => by rw [h1], fun a b => by rw [h2]⟩

theorem key_sound_value {e₁ e₂ : Epoch} (h : key e₁ = key e₂) (k : Key) : e₁.value k = e₂.value k :=
  Epoch.value_congr (key_sound h).1 (key_sound h).2 k

/-- … and the tables the transitions read off the epoch (`Transition.coalesce`, `migrate_unlinked`) agree. -/
theorem key_sound_table (I : Config.Input) {e₁ e₂ : Epoch} (h : key e₁ = key e₂) :
    EndToEnd.tableOfEpoch I e₁ = EndToEnd.tableOfEpoch I e₂ := by
  unfold EndToEnd.tableOfEpoch
  simp only [key_sound_value h]

/-- `f` reads an epoch only through its two dicts (`get_transitions()` does: it never looks at the times). -/
def ContentFn {M : Type} (f : Epoch → M) : Prop :=
  ∀ e₁ e₂ : Epoch, e₁.sizes = e₂.sizes → e₁.mig = e₂.mig → f e₁ = f e₂

theorem contentFn_key {M : Type} {f : Epoch → M} (hf : ContentFn f) {e₁ e₂ : Epoch} (h : key e₁ = key e₂) :
    f e₁ = f e₂ := hf e₁ e₂ (key_sound h).1 (key_sound h).2

theorem contentFn_table (I : Config.Input) : ContentFn (EndToEnd.tableOfEpoch I) :=
  fun e₁ e₂ h1 h2 => key_sound_table I ((key_eq_iff e₁ e₂).2 ⟨h1, h2⟩)

/-- anything computed from the values `epoch.pop_sizes[p]`, `epoch.migration_rates[(a, b)]` is a content function -/
theorem contentFn_of_value {M : Type} (f : Epoch → M)
    (h : ∀ e₁ e₂ : Epoch, (∀ k, e₁.value k = e₂.value k) → f e₁ = f e₂) : ContentFn f :=
  fun e₁ e₂ h1 h2 => h e₁ e₂ (Epoch.value_congr h1 h2)

@[simp] theorem key_ofKey (k : KeyT) : key (ofKey k) = k := rfl

theorem contentFn_ofKey {M : Type} {f : Epoch → M} (hf : ContentFn f) (e : Epoch) : f (ofKey (key e)) = f e :=
  hf _ _ rfl rfl

/-! ## the decision of `update_epoch` -/

theorem updateDrops_iff (cur new : Epoch) : updateDrops cur new = false ↔ key cur = key new := by
  unfold updateDrops
  rw [Bool.not_eq_false', epochEq_iff]

/-- `S` survives `update_epoch(new)` only if `new` has the sizes and rates of the current epoch. -/
theorem update_keeps_S_sound (cur new : Epoch) (h : updateDrops cur new = false) :
    cur.sizes = new.sizes ∧ cur.mig = new.mig := key_sound ((updateDrops_iff cur new).1 h)

/-- The cache model run on keys takes exactly the decision `updateDrops`: `S` is cleared iff `updateDrops`. -/
theorem updateEpoch_lift {M : Type} (s : Cache.State KeyT M) (cur new : Epoch) (hs : s.epoch = key cur) :
    (Cache.updateEpoch s (key new)).S = (if updateDrops cur new then none else s.S) ∧
    (Cache.updateEpoch s (key new)).epoch = key new := by
  have hb : (s.epoch != key new) = updateDrops cur new := by rw [hs]; rfl
  unfold Cache.updateEpoch
  rw [hb]
  cases updateDrops cur new <;> simp

/-! ## the cache instantiated with concrete epochs -/

/-- The epoch object in force after a history (the argument of the last `update_epoch`, else the initial one). -/
def epochNow (e0 : Epoch) : List (Cache.Op Epoch) → Epoch
  | [] => e0
  | .updateEpoch e :: ops => epochNow e ops
  | _ :: ops => epochNow e0 ops

/-- The answers of a cache-free implementation on epoch objects: every read of `S` computes from the current epoch. -/
def specAnswers {M : Type} (f : Epoch → M) (e0 : Epoch) : List (Cache.Op Epoch) → List (Option M)
  | [] => []
  | .updateEpoch e :: ops => none :: specAnswers f e ops
  | .getS :: ops => some (f e0) :: specAnswers f e0 ops
  | _ :: ops => none :: specAnswers f e0 ops

theorem specRun_lift {M : Type} (compute : KeyT → M) (e0 : Epoch) (ops : List (Cache.Op Epoch)) :
    Cache.specRun compute (key e0) (ops.map liftOp) = specAnswers (fun e => compute (key e)) e0 ops := by
  induction ops generalizing e0 with
  | nil => rfl
  | cons op ops ih =>
    cases op <;> simp only [List.map_cons, liftOp, Cache.specRun, specAnswers, ih]

theorem epochAfter_lift (e0 : Epoch) (ops : List (Cache.Op Epoch)) :
    Cache.epochAfter (key e0) (ops.map liftOp) = key (epochNow e0 ops) := by
  induction ops generalizing e0 with
  | nil => rfl
  | cons op ops ih =>
    cases op <;> simp only [List.map_cons, liftOp, Cache.epochAfter, epochNow, ih]

/-- **The cache model instantiated with the concrete key** (`E := KeyT`, the tuple `Epoch.__hash__` hashes).  From a
fresh state space (caching on or off), after ANY history of `update_epoch(e)` / read `S` / `drop_S` / `drop_cache` /
read `states` on epoch OBJECTS — which reach the dict and the comparison as their keys (`liftOp`) — every `S` read is
`compute` of the key of the epoch object then in force.  This is `Cache.C17_refinement` specialised. -/
theorem cache_instantiated {M : Type} (compute : KeyT → M) (useCache : Bool) (e0 : Epoch)
    (ops : List (Cache.Op Epoch)) :
    (Cache.run compute (Cache.State.init (key e0) useCache : Cache.State KeyT M) (ops.map liftOp)).2
      = specAnswers (fun e => compute (key e)) e0 ops := by
  rw [Cache.C17_refinement compute _ (Cache.inv_init compute (key e0) useCache)]
  exact specRun_lift compute e0 ops

/-- The same from any state satisfying the cache invariant whose current epoch is `key e0`. -/
theorem cache_instantiated_inv {M : Type} (compute : KeyT → M) (s : Cache.State KeyT M) (hs : Cache.Inv compute s)
    (e0 : Epoch) (he : s.epoch = key e0) (ops : List (Cache.Op Epoch)) :
    (Cache.run compute s (ops.map liftOp)).2 = specAnswers (fun e => compute (key e)) e0 ops := by
  rw [Cache.C17_refinement compute s hs, he]
  exact specRun_lift compute e0 ops

/-- Indexed form: if the `i`-th operation reads `S`, its answer is `compute (key (current epoch))`. -/
theorem cache_instantiated_at {M : Type} (compute : KeyT → M) (useCache : Bool) (e0 : Epoch)
    (ops : List (Cache.Op Epoch)) (i : Nat) (hi : ops[i]? = some .getS) :
    (Cache.run compute (Cache.State.init (key e0) useCache : Cache.State KeyT M) (ops.map liftOp)).2[i]?
      = some (some (compute (key (epochNow e0 (ops.take i))))) := by
  have h := Cache.C17_getS_at compute (Cache.State.init (key e0) useCache : Cache.State KeyT M)
    (Cache.inv_init compute (key e0) useCache) (ops.map liftOp) i (by
      rw [List.getElem?_map, hi]; rfl)
  rw [h, ← List.map_take]
  show some (some (compute (Cache.epochAfter (key e0) (List.map liftOp (List.take i ops))))) = _
  rw [epochAfter_lift]

/-- **Reuse on key equality is sound for every function of the epoch content** (`get_transitions()`; e.g.
`tableOfEpoch I`): the matrices stored under keys are `f` of some epoch with that key, and every `S` read in every
history is `f` of the CURRENT epoch object itself. -/
theorem cache_instantiated_content {M : Type} (f : Epoch → M) (hf : ContentFn f) (useCache : Bool) (e0 : Epoch)
    (ops : List (Cache.Op Epoch)) :
    (Cache.run (fun k => f (ofKey k)) (Cache.State.init (key e0) useCache : Cache.State KeyT M)
        (ops.map liftOp)).2
      = specAnswers f e0 ops := by
  rw [cache_instantiated]
  congr 1
  funext e
  exact contentFn_ofKey hf e

theorem cache_instantiated_table (I : Config.Input) (useCache : Bool) (e0 : Epoch) (ops : List (Cache.Op Epoch)) :
    (Cache.run (fun k => EndToEnd.tableOfEpoch I (ofKey k))
        (Cache.State.init (key e0) useCache : Cache.State KeyT _) (ops.map liftOp)).2
      = specAnswers (EndToEnd.tableOfEpoch I) e0 ops :=
  cache_instantiated_content _ (contentFn_table I) useCache e0 ops

/-! ## 2. times are not part of the key -/

/-- **Documented behaviour**: `start_time` / `end_time` do not enter the key. -/
theorem key_ignores_time (e : Epoch) (s : Rat) (t : Option Rat) : key { e with start := s, stop := t } = key e := rfl

/-- Two epochs with equal dicts are equal, whatever their times. -/
theorem epochEq_of_content {e₁ e₂ : Epoch} (h1 : e₁.sizes = e₂.sizes) (h2 : e₁.mig = e₂.mig) :
    epochEq e₁ e₂ = true := (epochEq_iff e₁ e₂).2 ((key_eq_iff e₁ e₂).2 ⟨h1, h2⟩)

/-! ## 3. completeness under equal key order -/

/-- two association lists with the same (duplicate-free) key sequence and equal lookups are equal -/
theorem dict_eq_of_keys_lookup {κ ν : Type} [BEq κ] [LawfulBEq κ] :
    ∀ (l₁ l₂ : List (κ × ν)), l₁.map (·.1) = l₂.map (·.1) → (l₁.map (·.1)).Nodup →
      (∀ k, l₁.lookup k = l₂.lookup k) → l₁ = l₂
  | [], [], _, _, _ => rfl
  | [], _ :: _, h, _, _ => by simp at h
  | _ :: _, [], h, _, _ => by simp at h
  | (a, x) :: l₁, (b, y) :: l₂, h, hn, hl => by
    simp only [List.map_cons, List.cons.injEq] at h
    obtain ⟨hab, ht⟩ := h
    subst hab
    have hx : x = y := by
      have := hl a
      simpa [List.lookup_cons] using this
    subst hx
    simp only [List.map_cons, List.nodup_cons] at hn
    congr 1
    refine dict_eq_of_keys_lookup l₁ l₂ ht hn.2 (fun k => ?_)
    by_cases hk : k = a
    · subst hk
      have n1 : List.lookup k l₁ = none := by
        rw [List.lookup_eq_none_iff]
        intro p hp
        rw [bne_iff_ne]
        intro heq
        exact hn.1 (List.mem_map.2 ⟨p, hp, heq.symm⟩)
      have n2 : List.lookup k l₂ = none := by
        rw [List.lookup_eq_none_iff]
        intro p hp
        rw [bne_iff_ne]
        intro heq
        exact hn.1 (ht ▸ List.mem_map.2 ⟨p, hp, heq.symm⟩)
      rw [n1, n2]
    · have := hl k
      have hka : (k == a) = false := by simpa using hk
      simpa [List.lookup_cons, hka] using this

/-- **Completeness under equal key order**: if two epochs list their (unique) keys in the same order — as the epochs of
one `Demography.epochs` run do — and all sizes and rates agree, their keys are equal (a cache hit). -/
theorem key_complete_same_order {e₁ e₂ : Epoch}
    (hs : e₁.sizes.map (·.1) = e₂.sizes.map (·.1)) (hm : e₁.mig.map (·.1) = e₂.mig.map (·.1))
    (hsn : (e₁.sizes.map (·.1)).Nodup) (hmn : (e₁.mig.map (·.1)).Nodup)
    (hls : ∀ p, e₁.sizes.lookup p = e₂.sizes.lookup p)
    (hlm : ∀ a b, e₁.mig.lookup (a, b) = e₂.mig.lookup (a, b)) :
    key e₁ = key e₂ :=
  (key_eq_iff e₁ e₂).2 ⟨dict_eq_of_keys_lookup _ _ hs hsn hls,
    dict_eq_of_keys_lookup _ _ hm hmn (fun k => hlm k.1 k.2)⟩

/-! ### the premise holds for the epoch generator -/

/-- `itertools.product(names, repeat=2)` -/
def pairsOf (names : List Nat) : List (Nat × Nat) := names.flatMap fun p => names.map fun q => (p, q)

/-- the key order of both dicts is that of `names` -/
structure Shape (names : List Nat) (e : Epoch) : Prop where
  sizes : e.sizes.map (·.1) = names
  mig : e.mig.map (·.1) = pairsOf names

/-- a dict key over known populations -/
def KeyIn (names : List Nat) : Key → Prop
  | .size p => p ∈ names
  | .mig a b => a ∈ names ∧ b ∈ names

theorem KeyIn.mk_mig {names : List Nat} {a b : Nat} (ha : a ∈ names) (hb : b ∈ names) : KeyIn names (.mig a b) :=
  ⟨ha, hb⟩

theorem mem_pairsOf {names : List Nat} {a b : Nat} (ha : a ∈ names) (hb : b ∈ names) : (a, b) ∈ pairsOf names :=
  List.mem_flatMap.2 ⟨a, ha, List.mem_map.2 ⟨b, hb, rfl⟩⟩

/-- assigning to an existing key (`d[k] = v`, `d |= {k: v}`) keeps the insertion order -/
theorem Shape.set {names : List Nat} {e : Epoch} (h : Shape names e) {k : Key} (hk : KeyIn names k) (v : Rat) :
    Shape names (e.set k v) := by
  cases k with
  | size p =>
    refine ⟨?_, h.mig⟩
    have hp : p ∈ e.sizes.map Prod.fst := by
      have := h.sizes; rw [show (e.sizes.map (·.1)) = e.sizes.map Prod.fst from rfl] at this
      rw [this]; exact hk
    exact (Cache.keys_insert_of_mem e.sizes p v hp).trans h.sizes
  | mig a b =>
    refine ⟨h.sizes, ?_⟩
    have hp : (a, b) ∈ e.mig.map Prod.fst := by
      have := h.mig; rw [show (e.mig.map (·.1)) = e.mig.map Prod.fst from rfl] at this
      rw [this]; exact mem_pairsOf hk.1 hk.2
    exact (Cache.keys_insert_of_mem e.mig (a, b) v hp).trans h.mig

theorem epochZero_shape (names : List Nat) : Shape names (epochZero names) := by
  refine ⟨?_, ?_⟩
  · simp [epochZero, List.map_map, Function.comp_def]
  · simp [epochZero, pairsOf, List.map_flatMap, List.map_map, Function.comp_def]

/-- `_apply` of every event class only assigns to keys over the event's own populations: the order is kept. -/
theorem Event.apply_shape {names : List Nat} (fe sp : Bool) (ev : Event) (hev : ∀ p ∈ ev.pops, p ∈ names)
    (e : Epoch) (h : Shape names e) : Shape names (ev.apply fe sp e) := by
  cases ev with
  | discrete ch =>
    simp only [Event.apply]
    refine foldl_pres_mem (Shape names) _ _ _ (fun b c hc hb => ?_) h
    have hc' : c ∈ ch := (List.mem_filter.1 hc).1
    refine foldl_pres_mem (Shape names) _ _ _ (fun b kv hkv hb => ?_) hb
    refine hb.set ?_ _
    have hsub : ∀ p, p ∈ (match kv.1 with | .size p => [p] | .mig a b => [a, b]) → p ∈ names := fun p hp =>
      hev p (List.mem_flatMap.2 ⟨c, hc', List.mem_flatMap.2 ⟨kv, hkv, hp⟩⟩)
    cases hk : kv.1 with
    | size p => rw [hk] at hsub; exact hsub p (by simp)
    | mig a b => rw [hk] at hsub; exact ⟨hsub a (by simp), hsub b (by simp)⟩
  | split t derived anc mult =>
    have hd : ∀ p ∈ derived, p ∈ names := fun p hp => hev p (List.mem_append_left _ hp)
    have ha : anc ∈ names := hev anc (List.mem_append_right _ (List.mem_singleton.2 rfl))
    have hq : ∀ q ∈ dedupSorted (e.sizes.map (·.1)), q ∈ names := fun q hq => by
      rw [mem_dedupSorted, h.sizes] at hq; exact hq
    simp only [Event.apply]
    split
    · split
      · refine foldl_pres_mem (Shape names) _ _ _ (fun b p hp hb => hb.set (KeyIn.mk_mig (hd p hp) ha) _) ?_
        refine foldl_pres_mem (Shape names) _ _ _ (fun b p hp hb => ?_) h
        exact foldl_pres_mem (Shape names) _ _ _ (fun b q hq' hb => hb.set (KeyIn.mk_mig (hq q hq') (hd p hp)) _) hb
      · refine foldl_pres_mem (Shape names) _ _ _ (fun b p hp hb => ?_) ?_
        · exact foldl_pres_mem (Shape names) _ _ _ (fun b q hq' hb => hb.set (KeyIn.mk_mig (hd p hp) (hq q hq')) _) hb
        · exact foldl_pres_mem (Shape names) _ _ _ (fun b p hp hb => hb.set (KeyIn.mk_mig ha (hd p hp)) _) h
    · exact h
  | discretised parts =>
    simp only [Event.apply]
    refine foldl_pres_mem (Shape names) _ _ _ (fun b p hp hb => ?_) h
    obtain ⟨traj, evStart, evStop, key, step⟩ := p
    have hk : KeyIn names key := by
      have hsub : ∀ q, q ∈ (match key with | .size q => [q] | .mig a b => [a, b]) → q ∈ names := fun q hq =>
        hev q (List.mem_flatMap.2 ⟨_, hp, hq⟩)
      cases key with
      | size q => exact hsub q (by simp)
      | mig a b => exact ⟨hsub a (by simp), hsub b (by simp)⟩
    simp only
    split
    · split_ifs
      · exact hb.set hk _
      · exact hb
      · exact hb.set hk _
      · exact hb
    · exact hb

theorem nextEpoch_shape {names : List Nat} (o : DemoOpts) (evs : List Event)
    (hev : ∀ ev ∈ evs, ∀ p ∈ ev.pops, p ∈ names) (prev : Epoch) (h : Shape names prev) :
    Shape names (nextEpoch o evs prev) := by
  rw [nextEpoch_eq]
  unfold applyAll
  refine foldl_pres_mem (Shape names) _ _ _ (fun b ev hev' hb => Event.apply_shape _ _ ev (hev ev hev') b hb) ?_
  exact ⟨by rw [broadcastAll_sizes]; exact h.sizes, by rw [broadcastAll_mig]; exact h.mig⟩

theorem mem_popNames_of_mem {evs : List Event} {ev : Event} (h : ev ∈ evs) {p : Nat} (hp : p ∈ ev.pops) :
    p ∈ popNames evs := by
  unfold popNames
  rw [mem_dedupSorted]
  exact List.mem_flatMap.2 ⟨ev, h, hp⟩

/-- **Key order of the generator**: every epoch `Demography.epochs` yields lists its sizes in the order of the sorted
population names and its migration rates in the order `itertools.product(pop_names, repeat=2)` — the order of the
first `prev` (l.182-187), which no event changes.  No hypothesis on the event list. -/
theorem generated_key_order (o : DemoOpts) (events : List Event) (count : Nat) :
    ∀ e ∈ epochsUpTo o events count,
      e.sizes.map (·.1) = popNames (sortEvents events) ∧
      e.mig.map (·.1) = pairsOf (popNames (sortEvents events)) := by
  intro e he
  have := epochsFrom_ind o (sortEvents events) (Shape (popNames (sortEvents events)))
    (fun prev s _ hp => nextEpoch_shape o _ (fun ev hev p hp => mem_popNames_of_mem hev hp) prev hp)
    count (epochZero (popNames (sortEvents events))) 0 rfl (epochZero_shape _) e he
  exact ⟨this.sizes, this.mig⟩

/-- **All epochs of one generator run share their key order.** -/
theorem generated_same_key_order (o : DemoOpts) (events : List Event) (count : Nat) :
    ∀ e₁ ∈ epochsUpTo o events count, ∀ e₂ ∈ epochsUpTo o events count,
      e₁.sizes.map (·.1) = e₂.sizes.map (·.1) ∧ e₁.mig.map (·.1) = e₂.mig.map (·.1) := by
  intro e₁ h₁ e₂ h₂
  obtain ⟨a1, b1⟩ := generated_key_order o events count e₁ h₁
  obtain ⟨a2, b2⟩ := generated_key_order o events count e₂ h₂
  exact ⟨a1.trans a2.symm, b1.trans b2.symm⟩

/-! ### unique keys: `pop_names` is duplicate-free -/

theorem dedup_foldr_sorted : ∀ l : List ℕ, l.Pairwise (· ≤ ·) →
    (l.foldr (fun x acc => if acc.head? == some x then acc else x :: acc) []).Pairwise (· < ·) ∧
    (l.foldr (fun x acc => if acc.head? == some x then acc else x :: acc) []).head? = l.head?
  | [], _ => ⟨List.Pairwise.nil, rfl⟩
  | a :: l, h => by
    obtain ⟨ha, hl⟩ := List.pairwise_cons.1 h
    obtain ⟨ih1, ih2⟩ := dedup_foldr_sorted l hl
    rw [List.foldr_cons]
    split_ifs with hh
    · refine ⟨ih1, ?_⟩
      have : (l.foldr (fun x acc => if acc.head? == some x then acc else x :: acc) []).head? = some a := by
        simpa using hh
      rw [this]; rfl
    · refine ⟨List.pairwise_cons.2 ⟨fun y hy => ?_, ih1⟩, rfl⟩
      have hy' : y ∈ l := (mem_dedup_foldr y l).1 hy
      rw [ih2] at hh
      cases l with
      | nil => simp at hy'
      | cons b l' =>
        have hab : a ≠ b := by
          intro e; apply hh; simp [e]
        have h1 : a ≤ b := ha b List.mem_cons_self
        have h2 : b ≤ y := by
          rcases List.mem_cons.1 hy' with e | e
          · exact e ▸ le_refl _
          · exact (List.pairwise_cons.1 hl).1 y e
        omega

theorem argsortNat_map_sorted (xs : List ℕ) : ((argsortNat xs).map fun i => getN xs i).Pairwise (· ≤ ·) := by
  unfold argsortNat argsort
  rw [List.map_map, List.pairwise_map]
  have hval : ∀ p ∈ sortWithIdx (xs.map fun (x : ℕ) => (x : ℚ)), ((getN xs p.2 : ℕ) : ℚ) = p.1 := by
    intro p hp
    have hm : p ∈ (xs.map fun (x : ℕ) => (x : ℚ)).zipIdx := (sortWithIdx_perm _).subset hp
    rw [List.mem_zipIdx_iff_getElem?, List.getElem?_map] at hm
    cases hx : xs[p.2]? with
    | none => rw [hx] at hm; simp at hm
    | some n =>
      rw [hx] at hm
      simp only [Option.map_some, Option.some.injEq] at hm
      rw [← hm]
      simp [getN, List.getD_eq_getElem?_getD, hx]
  refine (sortWithIdx_pairwise _).imp_of_mem (fun {p q} hp hq hle => ?_)
  have h1 := hval p hp
  have h2 := hval q hq
  have h3 : p.1 ≤ q.1 := le2_fst hle
  rw [← h1, ← h2] at h3
  exact_mod_cast h3

/-- `sorted(set(…))` is duplicate-free -/
theorem dedupSorted_nodup (xs : List ℕ) : (dedupSorted xs).Nodup := by
  unfold dedupSorted
  exact ((dedup_foldr_sorted _ (argsortNat_map_sorted xs)).1.imp (fun h => Nat.ne_of_lt h))

theorem popNames_nodup (evs : List Event) : (popNames evs).Nodup := dedupSorted_nodup _

theorem pairsOf_nodup {names : List ℕ} (h : names.Nodup) : (pairsOf names).Nodup :=
  List.Nodup.product h h

/-- **`__eq__` is content equality on generated epochs.**  For epochs yielded by generator runs over the same set of
population names — in particular two epochs (consecutive or not) of ONE `Demography` — the real comparison
(`hash(e₁) == hash(e₂)`) holds exactly if all population sizes and all migration rates agree: a cache hit is exactly a
repetition of the content, whatever the event lists, the options and the times. -/
theorem generated_eq_iff (o₁ o₂ : DemoOpts) (ev₁ ev₂ : List Event) (c₁ c₂ : ℕ)
    (hn : popNames (sortEvents ev₁) = popNames (sortEvents ev₂)) {e₁ e₂ : Epoch}
    (h₁ : e₁ ∈ epochsUpTo o₁ ev₁ c₁) (h₂ : e₂ ∈ epochsUpTo o₂ ev₂ c₂) :
    epochEq e₁ e₂ = true ↔ ∀ k, e₁.value k = e₂.value k := by
  rw [epochEq_iff]
  refine ⟨fun h k => key_sound_value h k, fun h => ?_⟩
  obtain ⟨a1, b1⟩ := generated_key_order o₁ ev₁ c₁ e₁ h₁
  obtain ⟨a2, b2⟩ := generated_key_order o₂ ev₂ c₂ e₂ h₂
  refine key_complete_same_order (a1.trans (hn ▸ a2.symm)) (b1.trans (hn ▸ b2.symm)) ?_ ?_
    (fun p => h (.size p)) (fun a b => h (.mig a b))
  · rw [a1]; exact popNames_nodup _
  · rw [b1]; exact pairsOf_nodup (popNames_nodup _)

/-- Within one demography: equal content ⇔ equal key (cache hit), for any two of its epochs. -/
theorem generated_eq_iff_one (o : DemoOpts) (events : List Event) (count : ℕ) {e₁ e₂ : Epoch}
    (h₁ : e₁ ∈ epochsUpTo o events count) (h₂ : e₂ ∈ epochsUpTo o events count) :
    epochEq e₁ e₂ = true ↔ ∀ k, e₁.value k = e₂.value k :=
  generated_eq_iff o o events events count count rfl h₁ h₂

/-- … and `update_epoch` between two epochs of one demography drops `S` exactly if some size or rate differs. -/
theorem generated_updateDrops_iff (o : DemoOpts) (events : List Event) (count : ℕ) {e₁ e₂ : Epoch}
    (h₁ : e₁ ∈ epochsUpTo o events count) (h₂ : e₂ ∈ epochsUpTo o events count) :
    updateDrops e₁ e₂ = true ↔ ∃ k, e₁.value k ≠ e₂.value k := by
  unfold updateDrops
  rw [Bool.not_eq_true', ← Bool.not_eq_true, generated_eq_iff_one o events count h₁ h₂]
  exact not_forall

/-! ## 4. the order premise is needed -/

/-- two 2-deme epochs with the same content, the size dict written in the other order -/
def exA : Epoch := { start := 0, stop := some 1, sizes := [(0, 1), (1, 2)], mig := [((0, 1), 3), ((1, 0), 4)] }
def exA' : Epoch := { start := 0, stop := some 1, sizes := [(1, 2), (0, 1)], mig := [((0, 1), 3), ((1, 0), 4)] }

/-- **Order sensitivity**: same sizes and rates in another insertion order ⇒ `__eq__` is `False` (a cache miss,
harmless); yet every lookup agrees.  So completeness needs the order premise. -/
theorem order_sensitive_example :
    epochEq exA exA' = false ∧ updateDrops exA exA' = true ∧
    (∀ p ∈ [0, 1, 2], exA.sizes.lookup p = exA'.sizes.lookup p) ∧ exA.mig = exA'.mig := by
  decide

/-- the constructor's zero fill appends in the order of the size dict: another source of order differences -/
theorem order_sensitive_fill :
    (mkEpoch 0 none [(0, 1), (1, 2)] []).mig = [((0, 1), 0), ((1, 0), 0)] ∧
    (mkEpoch 0 none [(1, 2), (0, 1)] []).mig = [((1, 0), 0), ((0, 1), 0)] ∧
    epochEq (mkEpoch 0 none [(0, 1), (1, 2)] []) (mkEpoch 0 none [(0, 1), (1, 2)] [((1, 0), 0)]) = false := by
  decide

/-! ## 5. the seeded variant `combinations` -/

/-- `exA` with the rate of the pair `(1, 0)` changed (`0 < 1`, so `(1, 0)` is not among the combinations) -/
def exB : Epoch := { start := 0, stop := some 1, sizes := [(0, 1), (1, 2)], mig := [((0, 1), 3), ((1, 0), 7)] }

/-- a 2-deme sample: the deme axis is `["a", "b"]`, numbered `0, 1` -/
def exI : Config.Input where
  n := .dict [("a", 1), ("b", 1)]
  sizes := []
  mig := []
  setOrder := []

/-- **The seeded change reuses a stale matrix**: two epochs differing only in the rate of `(q, p)`, `p < q`, have the
same `keyComb` (equal hash, `__eq__` is `True`, `update_epoch` keeps `S`, the dict lookup hits) although the rate the
transitions read and the whole table differ.  Under the current key they are different. -/
theorem combinations_counterexample :
    keyComb exA = keyComb exB ∧ epochEqComb exA exB = true ∧
    exA.mig.lookup (1, 0) = some 4 ∧ exB.mig.lookup (1, 0) = some 7 ∧
    EndToEnd.tableOfEpoch exI exA ≠ EndToEnd.tableOfEpoch exI exB ∧
    epochEq exA exB = false := by
  decide

/-- `key_sound` fails for `keyComb`. -/
theorem keyComb_sound_fails : ¬ ∀ e₁ e₂ : Epoch, keyComb e₁ = keyComb e₂ → e₁.sizes = e₂.sizes ∧ e₁.mig = e₂.mig := by
  intro h
  exact absurd (h exA exB (by decide)).2 (by decide)

/-- an operation on epoch objects as a dict keyed by the seeded `__hash__` sees it -/
def liftOpComb : Cache.Op Epoch → Cache.Op (List (Nat × Option Rat) × List ((Nat × Nat) × Option Rat))
  | .updateEpoch e => .updateEpoch (keyComb e)
  | .getS => .getS
  | .dropS => .dropS
  | .dropCache => .dropCache
  | .touchStates => .touchStates

/-- … so the state space keyed by `keyComb` answers with the matrix of ANOTHER epoch: in the history "read `S` in
`exA`, `update_epoch(exB)`, read `S`" the second read returns what was computed for `exA` (`compute := id`: a matrix is
named by the key it was computed under, and `keyComb exA = keyComb exB` hides that the epoch object differs — with the
real `get_transitions()` the stored matrix is that of `exA`, `combinations_counterexample`), and `S` is not even
dropped; under the current key the second read computes for `exB`. -/
theorem combinations_stale_history :
    (Cache.run id (Cache.State.init (keyComb exA) true) ([.getS, .updateEpoch exB, .getS].map liftOpComb)).1.computations
        = 2 ∧
    (Cache.updateEpoch (Cache.getS id (Cache.State.init (keyComb exA) true)).1 (keyComb exB)).S = some (keyComb exA) ∧
    (Cache.run id (Cache.State.init (key exA) true : Cache.State KeyT KeyT) ([.getS, .updateEpoch exB, .getS].map liftOp)).2
        = [some (key exA), none, some (key exB)] ∧
    (Cache.run id (Cache.State.init (key exA) true : Cache.State KeyT KeyT)
        ([.getS, .updateEpoch exB, .getS].map liftOp)).1.computations = 3 ∧
    key exA ≠ key exB :=
  ⟨by decide, by decide, by decide, by decide, by decide⟩

/-! ## 6. non-vacuity -/

/-- equal keys at different times: `key_ignores_time` and `key_sound` are not vacuous -/
example : key exA = key { exA with start := 5, stop := none } ∧ epochEq exA { exA with start := 5, stop := none } = true :=
  ⟨rfl, by decide⟩

/-- `key_complete_same_order` applies to `exA` against a copy at other times -/
example : key exA = key { exA with start := 2, stop := some 3 } :=
  key_complete_same_order rfl rfl (by decide) (by decide) (fun _ => rfl) (fun _ _ => rfl)

/-- a 2-deme demography: sizes `(1, 2)`, then deme 1 changes to `3` at time 1 and back to `2` at time 2; migration
`0 → 1` at rate `1/2` from time 0.  Epoch 0 and epoch 2 have the same content at different times. -/
def exEvents : List Event :=
  [.discrete [(0, [(.size 0, 1), (.size 1, 2), (.mig 0 1, 1/2)]), (1, [(.size 1, 3)]), (2, [(.size 1, 2)])]]

/-- the generator yields three epochs; all list their keys in the order `0, 1` / `(0,0), (0,1), (1,0), (1,1)` — the
self pairs are there —, the first and the third are equal (a cache hit across non-consecutive epochs), the second
differs from both -/
theorem generated_example :
    (epochsUpTo {} exEvents 5).length = 3 ∧
    (epochsUpTo {} exEvents 5).map (fun e => e.sizes.map (·.1)) = [[0, 1], [0, 1], [0, 1]] ∧
    (epochsUpTo {} exEvents 5).map (fun e => e.mig.map (·.1))
      = [[(0, 0), (0, 1), (1, 0), (1, 1)], [(0, 0), (0, 1), (1, 0), (1, 1)], [(0, 0), (0, 1), (1, 0), (1, 1)]] ∧
    (epochsUpTo {} exEvents 5).map (fun e => (epochsUpTo {} exEvents 5).map (epochEq e))
      = [[true, false, true], [false, true, false], [true, false, true]] := by
  decide +kernel

/-- the instantiated cache on this demography: walking through the three epochs and reading `S` in each yields the
table of each epoch, with TWO computations after the first `states` access (the third epoch is a hit) -/
theorem generated_cache_example :
    let eps := epochsUpTo {} exEvents 5
    let e0 := eps.getD 0 default
    let ops : List (Cache.Op Epoch) := (eps.flatMap fun e => [.updateEpoch e, .getS])
    let r := Cache.run (fun k => EndToEnd.tableOfEpoch exI (ofKey k)) (Cache.State.init (key e0) true) (ops.map liftOp)
    r.2.filterMap id = eps.map (EndToEnd.tableOfEpoch exI) ∧ r.1.computations = 3 ∧ r.1.cache.length = 2 := by
  decide +kernel

end PG.EpochKey

#print axioms PG.EpochKey.key_sound
#print axioms PG.EpochKey.key_sound_lookup
#print axioms PG.EpochKey.key_sound_table
#print axioms PG.EpochKey.updateEpoch_lift
#print axioms PG.EpochKey.cache_instantiated
#print axioms PG.EpochKey.cache_instantiated_inv
#print axioms PG.EpochKey.cache_instantiated_at
#print axioms PG.EpochKey.cache_instantiated_content
#print axioms PG.EpochKey.cache_instantiated_table
#print axioms PG.EpochKey.key_ignores_time
#print axioms PG.EpochKey.key_complete_same_order
#print axioms PG.EpochKey.generated_key_order
#print axioms PG.EpochKey.generated_same_key_order
#print axioms PG.EpochKey.popNames_nodup
#print axioms PG.EpochKey.generated_eq_iff
#print axioms PG.EpochKey.generated_eq_iff_one
#print axioms PG.EpochKey.generated_updateDrops_iff
#print axioms PG.EpochKey.order_sensitive_example
#print axioms PG.EpochKey.order_sensitive_fill
#print axioms PG.EpochKey.combinations_counterexample
#print axioms PG.EpochKey.keyComb_sound_fails
#print axioms PG.EpochKey.combinations_stale_history
#print axioms PG.EpochKey.generated_example
#print axioms PG.EpochKey.generated_cache_example
