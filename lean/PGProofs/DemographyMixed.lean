/-
PGProofs.DemographyMixed — schedules that MIX discrete events, population splits and discretised
trajectories (property C05), for the repaired `_broadcast` / `_apply`.

Main results (namespace `PG`):
* `mixed_value_in_force_discrete` — a key written by discrete events only carries the value of the
                                    last discrete change, whatever other events shorten the epochs
* `mixed_discretised_mean`        — a key written (from the window start on) by one discretised part
                                    only carries the end-point mean of its trajectory on every epoch
                                    inside the window
* `mixed_terminates`              — finite windows: explicit bound on the number of epochs
* `mixed_epoch_start_ge`, `mixed_epoch_length`, `mixed_epoch_length_grid`, `mixed_grid_boundaries`
                                  — epochs inside a window are at most one step long, grid points
                                    are boundaries
-/
import PGProofs.DemographyThm

namespace PG

/-! ## Part 0 — vocabulary -/

/-- a part of a `DiscretizedRateChanges` event: `(trajectory, start, end, key, step)`. -/
abbrev Part := List ℚ × ℚ × Option ℚ × Key × ℚ

/-- the keys an event may write.  For a population split this is an over-approximation that covers
both orientations: every migration key with an end in a derived population. -/
def Event.Touches : Event → Key → Prop
  | .discrete ch, k => ∃ c ∈ ch, ∃ kv ∈ c.2, kv.1 = k
  | .split _ d _ _, k => ∃ a b, k = Key.mig a b ∧ (a ∈ d ∨ b ∈ d)
  | .discretised parts, k => ∃ p ∈ parts, p.2.2.2.1 = k

theorem foldl_establish_mem {β α : Type _} (Q P : β → Prop) (f : β → α → β) (a : α) :
    ∀ (l : List α) (b : β), (∀ b, ∀ x ∈ l, Q b → Q (f b x)) → (∀ b, ∀ x ∈ l, P b → P (f b x)) →
      (∀ b, Q b → P (f b a)) → a ∈ l → Q b → P (l.foldl f b)
  | [], _, _, _, _, h, _ => by simp at h
  | x :: l, b, hQ, hP, ha, h, hb => by
    rw [List.foldl_cons]
    rcases List.mem_cons.1 h with rfl | h
    · exact foldl_pres_mem P f l _ (fun b x hx => hP b x (List.mem_cons_of_mem _ hx)) (ha b hb)
    · exact foldl_establish_mem Q P f a l _ (fun b x hx => hQ b x (List.mem_cons_of_mem _ hx))
        (fun b x hx => hP b x (List.mem_cons_of_mem _ hx)) ha h (hQ b x List.mem_cons_self hb)

/-! ## Part 1 — what `apply` does to a key the event does not write -/

theorem setAll_value_congr_key (k : Key) : ∀ (cs : List Change) (e e' : Epoch),
    e.value k = e'.value k → (setAll cs e).value k = (setAll cs e').value k
  | [], _, _, h => h
  | c :: cs, e, e', h =>
    setAll_value_congr_key k cs (e.set c.2.1 c.2.2) (e'.set c.2.1 c.2.2)
      (by rw [Epoch.value_set, Epoch.value_set, h])

/-- one part of a discretised event applied to an epoch (the body of the `_apply` loop). -/
def discStep (fixedEnd : Bool) (e : Epoch) (p : Part) : Epoch :=
  let (traj, evStart, evStop, key, _) := p
  match e.stop with
  | some en =>
    if evStart ≤ e.start ∧ (if fixedEnd then leInf en evStop else ltInf en evStop) then
      e.set key ((polyEval traj e.start + polyEval traj en) / 2)
    else e
  | none => e

theorem Event.apply_discretised_eq (fe sp : Bool) (parts : List Part) (e : Epoch) :
    (Event.discretised parts).apply fe sp e = parts.foldl (discStep fe) e := rfl

theorem discStep_cases (fe : Bool) (e : Epoch) (p : Part) :
    discStep fe e p = e ∨ ∃ v, discStep fe e p = e.set p.2.2.2.1 v := by
  obtain ⟨traj, s, E, key, st⟩ := p
  unfold discStep
  dsimp only
  split
  · split_ifs
    all_goals first | exact Or.inl rfl | exact Or.inr ⟨_, rfl⟩
  · exact Or.inl rfl

theorem discStep_some (e : Epoch) (p : Part) (en : ℚ) (h : e.stop = some en) :
    discStep true e p = if p.2.1 ≤ e.start ∧ leInf en p.2.2.1 = true then
      e.set p.2.2.2.1 ((polyEval p.1 e.start + polyEval p.1 en) / 2) else e := by
  obtain ⟨traj, s, E, key, st⟩ := p
  unfold discStep
  simp only [h, if_true]

theorem discStep_ends (fe : Bool) (e : Epoch) (p : Part) :
    (discStep fe e p).start = e.start ∧ (discStep fe e p).stop = e.stop := by
  rcases discStep_cases fe e p with h | ⟨v, h⟩ <;> rw [h] <;> simp

/-- an event that is not a discrete one leaves the keys it does not touch alone. -/
theorem Event.apply_value_of_not_touches (fe sp : Bool) (ev : Event) (hnd : ¬ ev.IsDiscrete) (k : Key)
    (hk : ¬ ev.Touches k) (e : Epoch) : (ev.apply fe sp e).value k = e.value k := by
  cases ev with
  | discrete ch => exact absurd trivial hnd
  | split t d a m =>
    by_cases hc : e.start ≤ t ∧ ltInf t e.stop = true
    · have hne1 : ∀ q p, p ∈ d → Key.mig q p ≠ k := by
        intro q p hp h; exact hk ⟨q, p, h.symm, Or.inr hp⟩
      have hne2 : ∀ q p, p ∈ d → Key.mig p q ≠ k := by
        intro q p hp h; exact hk ⟨p, q, h.symm, Or.inl hp⟩
      cases sp with
      | true =>
        rw [(split_apply_eq fe t m d a e hc).1, setAll_value_none, setAll_value_none]
        · intro c hc'
          obtain ⟨p, hp, hc'⟩ := List.mem_flatMap.1 hc'
          obtain ⟨q, _, rfl⟩ := List.mem_map.1 hc'
          exact hne1 q p hp
        · intro c hc'
          obtain ⟨p, hp, rfl⟩ := List.mem_map.1 hc'
          exact hne2 a p hp
      | false =>
        rw [(split_apply_eq fe t m d a e hc).2, setAll_value_none, setAll_value_none]
        · intro c hc'
          obtain ⟨p, hp, rfl⟩ := List.mem_map.1 hc'
          exact hne1 a p hp
        · intro c hc'
          obtain ⟨p, hp, hc'⟩ := List.mem_flatMap.1 hc'
          obtain ⟨q, _, rfl⟩ := List.mem_map.1 hc'
          exact hne2 q p hp
    · simp only [Event.apply, if_neg hc]
  | discretised parts =>
    rw [Event.apply_discretised_eq]
    refine foldl_pres_mem (fun b => b.value k = e.value k) _ parts e (fun b p hp hb => ?_) rfl
    rcases discStep_cases fe b p with h | ⟨v, h⟩
    · rw [h]; exact hb
    · rw [h, Epoch.value_set, if_neg (fun hkk => hk ⟨p, hp, hkk.symm⟩)]; exact hb

theorem Event.changes_of_not_discrete {ev : Event} (h : ¬ ev.IsDiscrete) : ev.changes = [] := by
  cases ev with
  | discrete ch => exact absurd trivial h
  | split t d a m => rfl
  | discretised parts => rfl

/-- for a key written by discrete events only, the apply phase performs the discrete changes inside
the window, in event order. -/
theorem applyAll_value_mixed (fe sp : Bool) (k : Key) (s : ℚ) (st : Option ℚ) :
    ∀ (evs : List Event), (∀ ev ∈ evs, ¬ ev.IsDiscrete → ¬ ev.Touches k) →
      ∀ (e : Epoch), e.start = s → e.stop = st →
      (applyAll fe sp evs e).value k = (setAll ((allChanges evs).filter (inWindow s st)) e).value k
  | [], _, _, _, _ => rfl
  | ev :: evs, h, e, hs, hst => by
    change (applyAll fe sp evs (ev.apply fe sp e)).value k = _
    rw [applyAll_value_mixed fe sp k s st evs (fun ev' h' => h ev' (List.mem_cons_of_mem _ h')) _
      (by rw [Event.apply_start, hs]) (by rw [Event.apply_stop, hst])]
    unfold allChanges
    rw [List.flatMap_cons, List.filter_append, setAll_append]
    by_cases hd : ev.IsDiscrete
    · rw [Event.apply_discrete fe sp ev hd e, hs, hst]
    · rw [Event.changes_of_not_discrete hd]
      apply setAll_value_congr_key
      exact Event.apply_value_of_not_touches fe sp ev hd k (h ev List.mem_cons_self hd) e

theorem nextEpoch_value_mixed (o : DemoOpts) (evs : List Event) (k : Key)
    (hk : ∀ ev ∈ evs, ¬ ev.IsDiscrete → ¬ ev.Touches k) (prev : Epoch) :
    (nextEpoch o evs prev).value k =
      (setAll ((allChanges evs).filter
        (inWindow (nextEpoch o evs prev).start (nextEpoch o evs prev).stop)) prev).value k := by
  have h1 := nextEpoch_eq o evs prev
  set eb := broadcastAll o.fixedBroadcast evs
        { start := prev.stop.getD 0, stop := none, sizes := prev.sizes, mig := prev.mig } with heb
  have hs : eb.start = (nextEpoch o evs prev).start := by rw [h1, applyAll_start]
  have hst : eb.stop = (nextEpoch o evs prev).stop := by rw [h1, applyAll_stop]
  have h2 := applyAll_value_mixed o.fixedWindowEnd o.splitSpec k _ _ evs hk eb hs hst
  rw [← h1] at h2
  rw [h2]
  apply setAll_value_congr_key
  exact Epoch.value_congr (by rw [heb, broadcastAll_sizes]) (by rw [heb, broadcastAll_mig]) k

/-! ## Part 2 — change times stay boundaries (repaired `_broadcast`) -/

theorem Event.broadcast_bounded (ev : Event) (hwf : ev.WF) (e : Epoch) (T : List ℚ)
    (h : e.Bounded T) : (ev.broadcast true e).Bounded (T ++ ev.times) := by
  intro t ht h0 hst
  rw [Event.broadcast_start] at hst
  rcases List.mem_append.1 ht with ht | ht
  · exact Event.broadcast_stopLe ev e t (h t ht h0 hst)
  · cases ev with
    | discrete ch =>
      exact broadcastDiscrete_bounded_self _ hwf.times_sorted e t ht h0
        (by rw [broadcastDiscrete_start]; exact hst)
    | split t' d a m =>
      exact broadcastDiscrete_bounded_self _ (Event.WF.times_sorted (ev := .split t' d a m) hwf) e t ht h0
        (by rw [broadcastDiscrete_start]; exact hst)
    | discretised parts => simp [Event.times] at ht

theorem broadcastAll_bounded_mixed : ∀ (evs : List Event), (∀ ev ∈ evs, ev.WF) →
    ∀ (e : Epoch) (T : List ℚ), e.Bounded T → (broadcastAll true evs e).Bounded (T ++ changeTimes evs)
  | [], _, e, T, h => by simpa [changeTimes, broadcastAll] using h
  | ev :: evs, hwf, e, T, h => by
    change (broadcastAll true evs (ev.broadcast true e)).Bounded _
    have := broadcastAll_bounded_mixed evs (fun ev' h' => hwf ev' (List.mem_cons_of_mem _ h'))
      (ev.broadcast true e) (T ++ ev.times) (Event.broadcast_bounded ev (hwf ev List.mem_cons_self) e T h)
    simpa [changeTimes, List.append_assoc] using this

/-- no positive change time of a discrete event or split lies strictly inside a generated epoch,
whatever discretised events are present. -/
theorem nextEpoch_bounded_mixed (o : DemoOpts) (ho : o.fixedBroadcast = true) (evs : List Event)
    (hwf : ∀ ev ∈ evs, ev.WF) (prev : Epoch) : (nextEpoch o evs prev).Bounded (changeTimes evs) := by
  have := broadcastAll_bounded_mixed evs hwf
    { start := prev.stop.getD 0, stop := none, sizes := prev.sizes, mig := prev.mig } []
    (fun t ht => by simp at ht)
  intro t ht h0 hst
  rw [nextEpoch_start] at hst
  rw [nextEpoch_stop, ho]
  exact this t (by simpa using ht) h0 (by rw [broadcastAll_start]; exact hst)

/-! ## Part 3 — value in force for a key written by discrete events only -/

/-- `ValSpec` for a single key. -/
def ValSpecAt (cs : List Change) (names : List ℕ) (P : ℚ → Prop) (val : Key → Option ℚ) (k : Key) :
    Prop :=
  (∀ i c, LastChange cs k P i c → val k = some c.2.2) ∧
    ((∀ c ∈ cs, c.2.1 = k → ¬ P c.1) → val k = defaultValue names k)

theorem ValSpecAt.congr {cs : List Change} {names : List ℕ} {P Q : ℚ → Prop} {val : Key → Option ℚ}
    {k : Key} (hPQ : ∀ c ∈ cs, P c.1 ↔ Q c.1) (h : ValSpecAt cs names P val k) :
    ValSpecAt cs names Q val k := by
  refine ⟨fun i c hl => h.1 i c (hl.congr fun c hc => (hPQ c hc).symm), fun hn => h.2 ?_⟩
  exact fun c hc hk hp => hn c hc hk ((hPQ c hc).1 hp)

theorem ValSpecAt.eq_specValue {cs : List Change} {names : List ℕ} {t : ℚ} {val : Key → Option ℚ}
    {k : Key} (h : ValSpecAt cs names (fun u => u ≤ t) val k) : val k = specValue cs names k t := by
  unfold specValue
  cases hr : lastChange? k t cs with
  | some ib =>
    obtain ⟨i, b⟩ := ib
    exact h.1 i b (lastChange?_some k t cs i b hr)
  | none => exact h.2 (lastChange?_none k t cs hr)

theorem nextEpoch_valSpecAt (o : DemoOpts) (ho : o.fixedBroadcast = true) (evs : List Event)
    (hwf : ∀ ev ∈ evs, ev.WF) (k : Key) (hk : ∀ ev ∈ evs, ¬ ev.IsDiscrete → ¬ ev.Touches k)
    (names : List ℕ) (prev : Epoch) (s : ℚ) (hs : prev.stop = some s) (h0 : 0 ≤ s)
    (hprev : ValSpecAt (allChanges evs) names (fun t => ltInf t prev.stop = true) prev.value k) :
    ValSpecAt (allChanges evs) names (fun t => ltInf t (nextEpoch o evs prev).stop = true)
      (nextEpoch o evs prev).value k := by
  set e' := nextEpoch o evs prev with he'
  set cs := allChanges evs with hcs
  have hst : e'.start = s := by rw [he', nextEpoch_start, hs]; rfl
  have hproper : ltInf s e'.stop = true := by
    have := nextEpoch_proper o evs (fun ev h => (hwf ev h).stepsPos) prev
    unfold Epoch.Proper at this
    rw [← he', hst] at this
    exact this
  have hbd := nextEpoch_bounded_mixed o ho evs hwf prev
  rw [← he'] at hbd
  have hA : ∀ c ∈ cs, ltInf c.1 e'.stop = true → c.1 < s ∨ c.1 = s := by
    intro c hc hlt
    by_contra hcon
    have hgt : s < c.1 := by
      rcases lt_trichotomy c.1 s with h | h | h
      · exact absurd (Or.inl h) hcon
      · exact absurd (Or.inr h) hcon
      · exact h
    obtain ⟨x, hx, hle⟩ := hbd c.1 (mem_allChanges_time hc) (lt_of_le_of_lt h0 hgt)
      (by rw [hst]; exact hgt)
    rw [hx, ltInf_some] at hlt
    linarith
  have hB : ∀ t : ℚ, t ≤ s → ltInf t e'.stop = true := by
    intro t ht
    cases hx : e'.stop with
    | none => rfl
    | some x =>
      rw [hx] at hproper
      rw [ltInf_some] at hproper ⊢
      linarith
  have hW : ∀ c ∈ cs, (inWindow e'.start e'.stop c = true ↔ c.1 = s) := by
    intro c hc
    simp only [inWindow, decide_eq_true_eq, hst]
    constructor
    · rintro ⟨h1, h2⟩
      rcases hA c hc h2 with h | h
      · linarith
      · exact h
    · intro h; exact ⟨h.ge, hB _ h.le⟩
  have hval := nextEpoch_value_mixed o evs k hk prev
  rw [← he', ← hcs] at hval
  have hPprev : ∀ t : ℚ, (ltInf t prev.stop = true) ↔ t < s := by
    intro t; rw [hs, ltInf_some]
  unfold ValSpecAt
  rw [hval]
  constructor
  · intro i c hl
    obtain ⟨hi, hk', hP, hdom⟩ := hl
    have hmem : c ∈ cs := List.mem_of_getElem? hi
    rcases hA c hmem hP with hlt | heq
    · have hnone : ∀ c' ∈ cs.filter (inWindow e'.start e'.stop), c'.2.1 ≠ k := by
        intro c' hc' hk''
        obtain ⟨hm', hw'⟩ := List.mem_filter.1 hc'
        have ht' := (hW c' hm').1 hw'
        obtain ⟨j, hj⟩ := List.getElem?_of_mem hm'
        rcases hdom j c' hj hk'' (hB _ ht'.le) with h | h
        · linarith
        · linarith [h.1]
      rw [setAll_value_none k _ _ hnone]
      refine hprev.1 i c ⟨hi, hk', (hPprev _).2 hlt, fun j c' hj hk'' hp' => ?_⟩
      exact hdom j c' hj hk'' (hB _ ((hPprev _).1 hp').le)
    · obtain ⟨hilt, hget⟩ := List.getElem?_eq_some_iff.1 hi
      have hsplit : cs = cs.take i ++ c :: cs.drop (i + 1) := by
        rw [← hget]; simp
      have hwc : inWindow e'.start e'.stop c = true := (hW c hmem).2 heq
      have hfil : cs.filter (inWindow e'.start e'.stop)
          = (cs.take i).filter (inWindow e'.start e'.stop)
            ++ c :: (cs.drop (i + 1)).filter (inWindow e'.start e'.stop) := by
        conv_lhs => rw [hsplit]
        rw [List.filter_append, List.filter_cons_of_pos hwc]
      rw [hfil, ← hk']
      apply setAll_value_last
      intro c' hc' hk''
      obtain ⟨hm', hw'⟩ := List.mem_filter.1 hc'
      obtain ⟨j, hj⟩ := List.getElem?_of_mem hm'
      rw [List.getElem?_drop] at hj
      have hm'' : c' ∈ cs := List.mem_of_getElem? hj
      have ht' := (hW c' hm'').1 hw'
      rcases hdom (i + 1 + j) c' hj (hk''.trans hk') (hB _ ht'.le) with h | h
      · linarith
      · omega
  · intro hn
    have hnone : ∀ c' ∈ cs.filter (inWindow e'.start e'.stop), c'.2.1 ≠ k := by
      intro c' hc' hk'
      obtain ⟨hm', hw'⟩ := List.mem_filter.1 hc'
      exact hn c' hm' hk' (hB _ ((hW c' hm').1 hw').le)
    rw [setAll_value_none k _ _ hnone]
    exact hprev.2 fun c hc hk' hp => hn c hc hk' (hB _ ((hPprev _).1 hp).le)

theorem epochsFrom_valSpecAt (o : DemoOpts) (ho : o.fixedBroadcast = true) (evs : List Event)
    (hwf : ∀ ev ∈ evs, ev.WF) (k : Key) (hk : ∀ ev ∈ evs, ¬ ev.IsDiscrete → ¬ ev.Touches k)
    (names : List ℕ) (n : ℕ) :
    ∀ e ∈ epochsFrom o evs n (epochZero names), 0 ≤ e.start ∧
      ValSpecAt (allChanges evs) names (fun t => ltInf t e.stop = true) e.value k := by
  let P : Epoch → Prop := fun e => 0 ≤ e.start ∧ (∀ s, e.stop = some s → 0 ≤ s) ∧
      ValSpecAt (allChanges evs) names (fun t => ltInf t e.stop = true) e.value k
  have := epochsFrom_ind o evs P (fun prev s hs hp => by
    have hst : (nextEpoch o evs prev).start = s := by rw [nextEpoch_start, hs]; rfl
    have h0 : 0 ≤ s := hp.2.1 s hs
    refine ⟨by rw [hst]; exact h0, fun s' hs' => ?_,
      nextEpoch_valSpecAt o ho evs hwf k hk names prev s hs h0 hp.2.2⟩
    have hpr := nextEpoch_proper o evs (fun ev h => (hwf ev h).stepsPos) prev
    unfold Epoch.Proper at hpr
    rw [hs', hst, ltInf_some] at hpr
    linarith) n (epochZero names) 0 rfl
    ⟨le_rfl, fun s hs => by
      have : s = 0 := by simpa [epochZero] using hs.symm
      rw [this], epochZero_valSpec evs hwf names k⟩
  exact fun e he => ⟨(this e he).1, (this e he).2.2⟩

/-- **A.1 — value in force in a mixed schedule.**  Repaired `_broadcast`; all events well-formed; `k`
is a key that no population split and no discretised part writes.  Then in every epoch `e` and at
every time `t` of that epoch the value of `k` is the value of the last discrete change to `k` at or
before `t` (default if there is none) — exactly as for purely discrete schedules, although the
other events cut the epochs into smaller pieces. -/
theorem mixed_value_in_force_discrete (o : DemoOpts) (ho : o.fixedBroadcast = true)
    (events : List Event) (hwf : ∀ ev ∈ events, ev.WF) (k : Key)
    (hk : ∀ ev ∈ events, ¬ ev.IsDiscrete → ¬ ev.Touches k) (count : ℕ) (e : Epoch)
    (he : e ∈ epochsUpTo o events count) (t : ℚ) (h1 : e.start ≤ t) (h2 : ltInf t e.stop = true) :
    e.value k = specValue (allChanges (sortEvents events)) (popNames (sortEvents events)) k t := by
  have hperm := sortEvents_perm events
  have hwf' : ∀ ev ∈ sortEvents events, ev.WF := fun ev h => hwf ev (hperm.subset h)
  have hk' : ∀ ev ∈ sortEvents events, ¬ ev.IsDiscrete → ¬ ev.Touches k :=
    fun ev h => hk ev (hperm.subset h)
  obtain ⟨h0, hv⟩ := epochsFrom_valSpecAt o ho _ hwf' k hk' _ count e he
  refine ValSpecAt.eq_specValue (hv.congr fun c hc => ?_)
  obtain ⟨p, hp⟩ := epochsFrom_mem_next _ _ _ _ e he
  have hbd := nextEpoch_bounded_mixed o ho _ hwf' p
  rw [← hp] at hbd
  constructor
  · intro hlt
    by_contra hcon
    have hgt : e.start < c.1 := by linarith [not_le.1 hcon]
    obtain ⟨x, hx, hle⟩ := hbd c.1 (mem_allChanges_time hc) (lt_of_le_of_lt h0 hgt) hgt
    rw [hx, ltInf_some] at hlt
    linarith
  · intro hle
    cases hx : e.stop with
    | none => rfl
    | some x =>
      rw [hx] at h2
      rw [ltInf_some] at h2 ⊢
      linarith

/-! ## Part 4 — the end-point mean of a discretised part in a mixed schedule -/

/-- From the window start of the part `p` on, the event does not write the key of `p` — except
through `p` itself:
* a discrete event has no change of that key at a time `≥ p.start`;
* a population split at a time `≥ p.start` has no derived population at either end of that key;
* every part of a discretised event with that key is `p` (no two parts share a key). -/
def Event.QuietFor (p : Part) : Event → Prop
  | .discrete ch => ∀ c ∈ ch, p.2.1 ≤ c.1 → ∀ kv ∈ c.2, kv.1 ≠ p.2.2.2.1
  | .split t d _ _ => p.2.1 ≤ t → ∀ a b, p.2.2.2.1 = Key.mig a b → a ∉ d ∧ b ∉ d
  | .discretised parts => ∀ q ∈ parts, q.2.2.2.1 = p.2.2.2.1 → q = p

/-- the invariant carried through the apply phase. -/
def MeanAt (p : Part) (a en : ℚ) (b : Epoch) : Prop :=
  (b.start = a ∧ b.stop = some en) ∧
    b.value p.2.2.2.1 = some ((polyEval p.1 a + polyEval p.1 en) / 2)

theorem discStep_keeps_mean (p q : Part) (hq : q.2.2.2.1 = p.2.2.2.1 → q = p) (a en : ℚ) (b : Epoch)
    (hb : MeanAt p a en b) : MeanAt p a en (discStep true b q) := by
  obtain ⟨⟨h1, h2⟩, h3⟩ := hb
  refine ⟨by rw [(discStep_ends true b q).1, (discStep_ends true b q).2]; exact ⟨h1, h2⟩, ?_⟩
  rw [discStep_some b q en h2]
  split_ifs with hc
  · rw [Epoch.value_set]
    split_ifs with hk
    · rw [hq hk.symm, h1]
    · exact h3
  · exact h3

theorem discStep_sets_mean (p : Part) (a en : ℚ) (hs : p.2.1 ≤ a) (hE : leInf en p.2.2.1 = true)
    (b : Epoch) (hb : b.start = a ∧ b.stop = some en) : MeanAt p a en (discStep true b p) := by
  refine ⟨by rw [(discStep_ends true b p).1, (discStep_ends true b p).2]; exact hb, ?_⟩
  rw [discStep_some b p en hb.2, if_pos ⟨by rw [hb.1]; exact hs, hE⟩, Epoch.value_set, if_pos rfl, hb.1]

/-- a quiet event keeps the mean once it is in place. -/
theorem Event.apply_keeps_mean (sp : Bool) (p : Part) (ev : Event) (hq : ev.QuietFor p) (a en : ℚ)
    (hs : p.2.1 ≤ a) (b : Epoch) (hb : MeanAt p a en b) : MeanAt p a en (ev.apply true sp b) := by
  have hends : (ev.apply true sp b).start = a ∧ (ev.apply true sp b).stop = some en := by
    rw [Event.apply_start, Event.apply_stop]; exact hb.1
  cases ev with
  | discrete ch =>
    refine ⟨hends, ?_⟩
    rw [Event.apply_discrete true sp (Event.discrete ch) trivial b, setAll_value_none]
    · exact hb.2
    · intro c' hc' hk
      obtain ⟨hm, hw⟩ := List.mem_filter.1 hc'
      simp only [Event.changes, List.mem_flatMap, List.mem_map] at hm
      obtain ⟨c, hc, kv, hkv, rfl⟩ := hm
      simp only [inWindow, decide_eq_true_eq] at hw
      have : p.2.1 ≤ c.1 := by rw [hb.1.1] at hw; exact le_trans hs hw.1
      exact hq c hc this kv hkv hk
  | split t d an m =>
    refine ⟨hends, ?_⟩
    by_cases hc : b.start ≤ t ∧ ltInf t b.stop = true
    · rw [Event.apply_value_of_not_touches true sp (Event.split t d an m) (fun h => h) p.2.2.2.1 ?_ b]
      · exact hb.2
      · rintro ⟨x, y, hk, hxy⟩
        have := hq (by rw [hb.1.1] at hc; exact le_trans hs hc.1) x y hk
        tauto
    · simp only [Event.apply, if_neg hc]; exact hb.2
  | discretised parts =>
    rw [Event.apply_discretised_eq]
    exact foldl_pres_mem (MeanAt p a en) _ parts b
      (fun b' q hq' hb' => discStep_keeps_mean p q (hq q hq') a en b' hb') hb

/-- the event containing the part puts the mean in place. -/
theorem Event.apply_sets_mean (sp : Bool) (p : Part) (parts : List Part) (hp : p ∈ parts)
    (hq : (Event.discretised parts).QuietFor p) (a en : ℚ) (hs : p.2.1 ≤ a)
    (hE : leInf en p.2.2.1 = true) (b : Epoch) (hb : b.start = a ∧ b.stop = some en) :
    MeanAt p a en ((Event.discretised parts).apply true sp b) := by
  rw [Event.apply_discretised_eq]
  refine foldl_establish_mem (fun b => b.start = a ∧ b.stop = some en) (MeanAt p a en) _ p parts b
    (fun b' q _ hb' => by rw [(discStep_ends true b' q).1, (discStep_ends true b' q).2]; exact hb')
    (fun b' q hq' hb' => discStep_keeps_mean p q (hq q hq') a en b' hb')
    (fun b' hb' => discStep_sets_mean p a en hs hE b' hb') hp hb

theorem applyAll_sets_mean (sp : Bool) (p : Part) (parts : List Part) (hp : p ∈ parts)
    (evs : List Event) (hev : Event.discretised parts ∈ evs) (hq : ∀ ev ∈ evs, ev.QuietFor p)
    (a en : ℚ) (hs : p.2.1 ≤ a) (hE : leInf en p.2.2.1 = true) (b : Epoch)
    (hb : b.start = a ∧ b.stop = some en) : MeanAt p a en (applyAll true sp evs b) := by
  refine foldl_establish_mem (fun b => b.start = a ∧ b.stop = some en) (MeanAt p a en)
    (fun e ev => ev.apply true sp e) (Event.discretised parts) evs b
    (fun b' ev _ hb' => by rw [Event.apply_start, Event.apply_stop]; exact hb')
    (fun b' ev hev' hb' => Event.apply_keeps_mean sp p ev (hq ev hev') a en hs b' hb')
    (fun b' hb' => Event.apply_sets_mean sp p parts hp (hq _ hev) a en hs hE b' hb') hev hb

/-- **A.2 — discretised mean in a mixed schedule.**  Repaired window test of `_apply`.  Let `p =
(traj, s, E, key, step)` be a part of a discretised event of the schedule such that every event is
quiet for `p` (`Event.QuietFor`: from `s` on nothing else writes `key`).  Then every finite epoch
`[a, en)` of the schedule with `s ≤ a` and `en ≤ E` (`E = ∞` allowed) carries the mean of the
trajectory at its two ends — whatever other events cut the epochs. -/
theorem mixed_discretised_mean (o : DemoOpts) (ho : o.fixedWindowEnd = true) (events : List Event)
    (parts : List Part) (hev : Event.discretised parts ∈ events) (p : Part) (hp : p ∈ parts)
    (hquiet : ∀ ev ∈ events, ev.QuietFor p) (count : ℕ) (e : Epoch)
    (he : e ∈ epochsUpTo o events count) (en : ℚ) (hstop : e.stop = some en)
    (hs : p.2.1 ≤ e.start) (hE : leInf en p.2.2.1 = true) :
    e.value p.2.2.2.1 = some ((polyEval p.1 e.start + polyEval p.1 en) / 2) := by
  have hperm := sortEvents_perm events
  obtain ⟨prev, hprev⟩ := epochsFrom_mem_next _ _ _ _ e he
  rw [nextEpoch_eq, ho] at hprev
  set eb := broadcastAll o.fixedBroadcast (sortEvents events)
    { start := prev.stop.getD 0, stop := none, sizes := prev.sizes, mig := prev.mig } with heb
  have h1 : eb.start = e.start := by rw [hprev, applyAll_start]
  have h2 : eb.stop = some en := by rw [← hstop, hprev, applyAll_stop]
  have := applyAll_sets_mean o.splitSpec p parts hp (sortEvents events) (hperm.symm.subset hev)
    (fun ev h => hquiet ev (hperm.subset h)) e.start en hs hE eb ⟨h1, h2⟩
  rw [← hprev] at this
  exact this.2

/-! ## Part 5 — termination for finite windows -/

/-- the largest grid index a finite window `[s, E]` can produce as an epoch end:
`⌈(E - s + 1e-10) / step⌉` (the last broadcast happens for an epoch start `≤ E`). -/
def gridIdx (p : Part) : ℕ :=
  match p.2.2.1 with
  | none => 0
  | some E => (Rat.ceil ((E - p.2.1 + 1 / 10000000000) / p.2.2.2.2)).toNat

/-- the grid points `s + m·step`, `m = 0, …, gridIdx p`. -/
def gridTimesOf (p : Part) : List ℚ :=
  (List.range (gridIdx p + 1)).map fun (m : ℕ) => p.2.1 + (m : ℚ) * p.2.2.2.2

def Event.gridTimes : Event → List ℚ
  | .discretised parts => parts.flatMap gridTimesOf
  | _ => []

/-- all windows of the discretised parts are finite. -/
def Event.FiniteWindows : Event → Prop
  | .discretised parts => ∀ p ∈ parts, ∃ E, p.2.2.1 = some E
  | _ => True

/-- every time that can become a finite epoch end. -/
def stopTimes (evs : List Event) : List ℚ := changeTimes evs ++ evs.flatMap Event.gridTimes

theorem gridTimesOf_length (p : Part) : (gridTimesOf p).length = gridIdx p + 1 := by
  simp [gridTimesOf]

/-- the number of possible epoch ends: the number of change times plus, for every discretised part,
`⌈(E - s + 1e-10)/step⌉ + 1`. -/
theorem stopTimes_length (evs : List Event) :
    (stopTimes evs).length = (changeTimes evs).length +
      (evs.map fun ev => match ev with
        | .discretised parts => (parts.map fun p => gridIdx p + 1).sum
        | _ => 0).sum := by
  unfold stopTimes
  rw [List.length_append, List.length_flatMap]
  congr 2
  apply List.map_congr_left
  intro ev _
  cases ev with
  | discrete ch => rfl
  | split t d a m => rfl
  | discretised parts =>
    simp only [Event.gridTimes, List.length_flatMap, gridTimesOf_length]

theorem stopTimes_perm {es es' : List Event} (h : es.Perm es') :
    (stopTimes es).Perm (stopTimes es') :=
  (changeTimes_perm h).append (h.flatMap_right _)

theorem cast_toNat_of_nonneg (z : ℤ) (h : 0 ≤ z) : ((z.toNat : ℕ) : ℚ) = ((z : ℤ) : ℚ) := by
  have : ((z.toNat : ℕ) : ℤ) = z := Int.toNat_of_nonneg h
  exact_mod_cast this

/-- the candidate end computed by the broadcast of a finite-window part is one of its grid times. -/
theorem cand_mem_gridTimesOf (traj : List ℚ) (a E : ℚ) (key : Key) (st : ℚ) (hst : 0 < st)
    (start : ℚ) (hle : start ≤ E) :
    (if a > start then a
      else a + ((Rat.ceil ((start - a + 1 / 10000000000) / st) : ℤ) : ℚ) * st)
      ∈ gridTimesOf (traj, a, some E, key, st) := by
  unfold gridTimesOf gridIdx
  dsimp only
  split_ifs with h
  · exact List.mem_map.2 ⟨0, List.mem_range.2 (Nat.succ_pos _), by simp⟩
  · have ha : a ≤ start := not_lt.1 h
    have hx0 : (0 : ℚ) ≤ (start - a + 1 / 10000000000) / st :=
      div_nonneg (by linarith) hst.le
    have hc0 : 0 ≤ Rat.ceil ((start - a + 1 / 10000000000) / st) := by
      have : ((-1 : ℤ)) < Rat.ceil ((start - a + 1 / 10000000000) / st) := by
        rw [Rat.lt_ceil_iff]
        have : (((-1 : ℤ)) : ℚ) = -1 := by norm_num
        rw [this]; linarith
      omega
    have hmono : Rat.ceil ((start - a + 1 / 10000000000) / st)
        ≤ Rat.ceil ((E - a + 1 / 10000000000) / st) := by
      rw [Rat.ceil_le_iff]
      refine le_trans ?_ Rat.le_ceil
      exact div_le_div_of_nonneg_right (by linarith) hst.le
    refine List.mem_map.2 ⟨(Rat.ceil ((start - a + 1 / 10000000000) / st)).toNat,
      List.mem_range.2 (Nat.lt_succ_of_le (Int.toNat_le_toNat hmono)), ?_⟩
    rw [cast_toNat_of_nonneg _ hc0]

theorem broadcastDiscretised_stop_cases (p : Part) (E : ℚ) (hE : p.2.2.1 = some E)
    (hst : 0 < p.2.2.2.2) (e : Epoch) (s' : ℚ)
    (h : (broadcastDiscretised true p.2.1 p.2.2.1 p.2.2.2.2 e).stop = some s') :
    e.stop = some s' ∨ s' ∈ gridTimesOf p := by
  obtain ⟨traj, a, E', key, st⟩ := p
  simp only at hE hst h
  subst hE
  by_cases hle : e.start ≤ E
  · have hcand := cand_mem_gridTimesOf traj a E key st hst e.start hle
    have hle' : leInf e.start (some E) = true := leInf_some.2 hle
    unfold broadcastDiscretised at h
    dsimp only at h
    generalize (if a > e.start then a
      else a + ((Rat.ceil ((e.start - a + 1 / 10000000000) / st) : ℤ) : ℚ) * st) = c at h hcand
    revert h
    cases hs : e.stop with
    | none =>
      simp only [hle', Bool.not_true, Bool.or_false, Bool.false_eq_true, if_false, if_true, minInf]
      intro h
      right
      have : c = s' := by simpa using h
      rw [← this]; exact hcand
    | some en =>
      simp only [hle', Bool.not_true, Bool.or_false, decide_eq_true_eq, if_true, minInf]
      split_ifs with hlt
      · intro h; rw [hs] at h; exact Or.inl h
      · intro h
        have h' : min en c = s' := by simpa using h
        rcases min_choice en c with hm | hm
        · left; rw [← h', hm]
        · right; rw [← h', hm]; exact hcand
  · left
    have hle' : leInf e.start (some E) = false := by
      simpa [leInf] using hle
    unfold broadcastDiscretised at h
    dsimp only at h
    simpa [hle'] using h

theorem Event.broadcast_stopIn_mixed (ev : Event) (hwf : ev.WF) (hfin : ev.FiniteWindows)
    (e : Epoch) (S : List ℚ) (hS1 : ∀ t ∈ ev.times, t ∈ S) (hS2 : ∀ t ∈ ev.gridTimes, t ∈ S)
    (h : e.StopIn S) : (ev.broadcast true e).StopIn S := by
  cases ev with
  | discrete ch =>
    intro s hs
    rcases List.mem_append.1 (broadcastDiscrete_stopIn _ S e h s hs) with h' | h'
    · exact h'
    · exact hS1 s h'
  | split t d a m =>
    intro s hs
    rcases List.mem_append.1 (broadcastDiscrete_stopIn _ S e h s hs) with h' | h'
    · exact h'
    · exact hS1 s h'
  | discretised parts =>
    refine foldl_pres_mem (fun b => b.StopIn S) _ parts e (fun b p hp hb => ?_) h
    intro s hs
    obtain ⟨E, hE⟩ := hfin p hp
    rcases broadcastDiscretised_stop_cases p E hE (hwf p hp).2.1 b s hs with h' | h'
    · exact hb s h'
    · exact hS2 s (List.mem_flatMap.2 ⟨p, hp, h'⟩)

/-- a finite stop of a generated epoch is a change time or a grid time. -/
theorem nextEpoch_stopIn_mixed (o : DemoOpts) (ho : o.fixedBroadcast = true) (evs : List Event)
    (hwf : ∀ ev ∈ evs, ev.WF) (hfin : ∀ ev ∈ evs, ev.FiniteWindows) (prev : Epoch) :
    (nextEpoch o evs prev).StopIn (stopTimes evs) := by
  intro s hs
  rw [nextEpoch_stop, ho] at hs
  refine foldl_pres_mem (fun b => b.StopIn (stopTimes evs)) (fun e ev => ev.broadcast true e) evs
    { start := prev.stop.getD 0, stop := none, sizes := prev.sizes, mig := prev.mig }
    (fun b ev hev hb => ?_) (fun s hs => by simp at hs) s hs
  refine Event.broadcast_stopIn_mixed ev (hwf ev hev) (hfin ev hev) b _ (fun t ht => ?_)
    (fun t ht => ?_) hb
  · exact List.mem_append_left _ (List.mem_flatMap.2 ⟨ev, hev, ht⟩)
  · exact List.mem_append_right _ (List.mem_flatMap.2 ⟨ev, hev, ht⟩)

theorem epochsFrom_ends_mixed (o : DemoOpts) (ho : o.fixedBroadcast = true) (evs : List Event)
    (hwf : ∀ ev ∈ evs, ev.WF) (hfin : ∀ ev ∈ evs, ev.FiniteWindows) :
    ∀ (n : ℕ) (prev : Epoch) (s : ℚ), prev.stop = some s → remaining (stopTimes evs) s < n →
      ∃ e ∈ epochsFrom o evs n prev, e.stop = none
  | 0, _, _, _, h => by omega
  | n + 1, prev, s, hs, h => by
    cases hs' : (nextEpoch o evs prev).stop with
    | none =>
      rw [epochsFrom_succ_none o evs n prev hs']
      exact ⟨_, List.mem_singleton.2 rfl, hs'⟩
    | some s' =>
      rw [epochsFrom_succ_some o evs n prev s' hs']
      have hmem := nextEpoch_stopIn_mixed o ho evs hwf hfin prev s' hs'
      have hp := nextEpoch_proper o evs (fun ev h => (hwf ev h).stepsPos) prev
      unfold Epoch.Proper at hp
      rw [hs', nextEpoch_start, hs, Option.getD_some, ltInf_some] at hp
      have hlt := remaining_lt hmem hp
      obtain ⟨e, he, hn⟩ := epochsFrom_ends_mixed o ho evs hwf hfin n (nextEpoch o evs prev) s' hs'
        (by omega)
      exact ⟨e, List.mem_cons_of_mem _ he, hn⟩

/-- **A.4 — termination and coverage.**  Repaired `_broadcast`, well-formed events, all windows of
discretised parts finite.  Once `count` exceeds the number of possible epoch ends
(`stopTimes_length`: the number of change times of discrete events and splits plus
`⌈(E - s + 1e-10)/step⌉ + 1` for every discretised part) the schedule ends with an infinite epoch
and tiles `[0, ∞)`. -/
theorem mixed_terminates (o : DemoOpts) (ho : o.fixedBroadcast = true) (events : List Event)
    (hwf : ∀ ev ∈ events, ev.WF) (hfin : ∀ ev ∈ events, ev.FiniteWindows) (count : ℕ)
    (hcount : (stopTimes events).length < count) :
    (∃ e ∈ epochsUpTo o events count, e.stop = none) ∧ Tiled (epochsUpTo o events count) := by
  have hperm := sortEvents_perm events
  have hwf' : ∀ ev ∈ sortEvents events, ev.WF := fun ev h => hwf ev (hperm.subset h)
  have hfin' : ∀ ev ∈ sortEvents events, ev.FiniteWindows := fun ev h => hfin ev (hperm.subset h)
  have hinf : ∃ e ∈ epochsUpTo o events count, e.stop = none :=
    epochsFrom_ends_mixed o ho _ hwf' hfin' count _ 0 rfl (lt_of_le_of_lt (remaining_le_length _ _)
      (by rw [(stopTimes_perm hperm).length_eq]; exact hcount))
  exact ⟨hinf, epochs_WF o events (fun ev h => (hwf ev h).stepsPos) count hinf⟩

/-! ## Part 6 — epochs inside a window are short; grid points are boundaries -/

/-- what one repaired broadcast of a part guarantees carries over to the generated epoch. -/
theorem nextEpoch_stopLe_of_part (o : DemoOpts) (ho : o.fixedBroadcast = true) (evs : List Event)
    (prev : Epoch) (parts : List Part) (hev : Event.discretised parts ∈ evs) (p : Part)
    (hp : p ∈ parts) (g : ℚ)
    (h : ∀ b : Epoch, b.start = prev.stop.getD 0 →
      (broadcastDiscretised true p.2.1 p.2.2.1 p.2.2.2.2 b).StopLe g) :
    ∃ s, (nextEpoch o evs prev).stop = some s ∧ s ≤ g := by
  rw [nextEpoch_stop, ho]
  refine foldl_establish (fun e => e.start = prev.stop.getD 0) (fun e => e.StopLe g)
    (fun e ev => ev.broadcast true e) (Event.discretised parts)
    (fun b x hb => by rw [Event.broadcast_start]; exact hb)
    (fun b x hb => Event.broadcast_stopLe x b g hb) (fun b hb => ?_) evs
    { start := prev.stop.getD 0, stop := none, sizes := prev.sizes, mig := prev.mig } hev rfl
  exact foldl_establish (fun e => e.start = prev.stop.getD 0) (fun e => e.StopLe g)
    (fun e q => broadcastDiscretised true q.2.1 q.2.2.1 q.2.2.2.2 e) p
    (fun b x hb => by rw [broadcastDiscretised_start]; exact hb)
    (fun b x hb => broadcastDiscretised_stopLe _ _ _ _ g hb) (fun b' hb' => h b' hb') parts b hp hb

/-- an epoch that starts inside the window (`start ≤ E`) stops at or before the candidate `c`
computed by the broadcast. -/
theorem broadcastDiscretised_stopLe_cand (evStart : ℚ) (evStop : Option ℚ) (step : ℚ) (e : Epoch)
    (hle2 : leInf e.start evStop = true) (g : ℚ)
    (hcand : (if evStart > e.start then evStart
      else evStart + ((Rat.ceil ((e.start - evStart + 1 / 10000000000) / step) : ℤ) : ℚ) * step) ≤ g)
    (hg0 : evStart ≤ g) :
    (broadcastDiscretised true evStart evStop step e).StopLe g := by
  unfold broadcastDiscretised
  dsimp only
  generalize (if evStart > e.start then evStart
      else evStart + ((Rat.ceil ((e.start - evStart + 1 / 10000000000) / step) : ℤ) : ℚ) * step)
      = cand at hcand ⊢
  cases hs : e.stop with
  | none =>
    simp only [hle2, Bool.not_true, Bool.or_false, Bool.false_eq_true, if_false, if_true, minInf]
    exact ⟨cand, rfl, hcand⟩
  | some en =>
    simp only [hle2, Bool.not_true, Bool.or_false, decide_eq_true_eq, if_true, minInf]
    split_ifs with hlt
    · exact ⟨en, hs, le_trans hlt.le hg0⟩
    · exact ⟨_, rfl, le_trans (min_le_right _ _) hcand⟩

/-- an epoch that starts before the window stops at or before the window start. -/
theorem broadcastDiscretised_before (evStart : ℚ) (evStop : Option ℚ) (step : ℚ) (e : Epoch)
    (hlt : e.start < evStart) (hwin : ∀ E, evStop = some E → evStart ≤ E) :
    (broadcastDiscretised true evStart evStop step e).StopLe evStart := by
  apply broadcastDiscretised_stopLe_cand _ _ _ _ _ _ _ le_rfl
  · cases evStop with
    | none => rfl
    | some E => exact leInf_some.2 (le_trans hlt.le (hwin E rfl))
  · rw [if_pos hlt]

/-- **The epoch containing a time of the window starts inside the window.** -/
theorem mixed_epoch_start_ge (o : DemoOpts) (ho : o.fixedBroadcast = true) (events : List Event)
    (parts : List Part) (hev : Event.discretised parts ∈ events) (p : Part) (hp : p ∈ parts)
    (hwin : ∀ E, p.2.2.1 = some E → p.2.1 ≤ E) (count : ℕ) (e : Epoch)
    (he : e ∈ epochsUpTo o events count) (t : ℚ) (hst : p.2.1 ≤ t) (hc : e.Contains t) :
    p.2.1 ≤ e.start := by
  by_contra hcon
  have hlt : e.start < p.2.1 := not_le.1 hcon
  obtain ⟨prev, hprev⟩ := epochsFrom_mem_next _ _ _ _ e he
  obtain ⟨s, hs, hle⟩ := nextEpoch_stopLe_of_part o ho (sortEvents events) prev parts
    ((sortEvents_perm events).symm.subset hev) p hp p.2.1
    (fun b hb => broadcastDiscretised_before _ _ _ b
      (by rw [hb, ← nextEpoch_start o (sortEvents events) prev, ← hprev]; exact hlt) hwin)
  rw [← hprev] at hs
  have := hc.2
  rw [hs, ltInf_some] at this
  linarith

/-- **Grid points bound the epochs** (repaired `_broadcast`, any mixture of events).  An epoch that
starts in the window `[s, E]` of a discretised part stops at or before every grid point `s + n·step`
that is at least `1e-10` after its start (the grid point itself need not be in the window). -/
theorem mixed_epoch_stop_le_grid (o : DemoOpts) (ho : o.fixedBroadcast = true) (events : List Event)
    (parts : List Part) (hev : Event.discretised parts ∈ events) (p : Part) (hp : p ∈ parts)
    (hstep : 0 < p.2.2.2.2) (count : ℕ) (e : Epoch) (he : e ∈ epochsUpTo o events count)
    (hE : leInf e.start p.2.2.1 = true) (n : ℕ)
    (hgap : e.start + 1 / 10000000000 ≤ p.2.1 + n * p.2.2.2.2) :
    ∃ en, e.stop = some en ∧ en ≤ p.2.1 + n * p.2.2.2.2 := by
  obtain ⟨prev, hprev⟩ := epochsFrom_mem_next _ _ _ _ e he
  have hg0 : p.2.1 ≤ p.2.1 + n * p.2.2.2.2 := by
    have : (0 : ℚ) ≤ n * p.2.2.2.2 := mul_nonneg (Nat.cast_nonneg n) hstep.le
    linarith
  have hst : ∀ b : Epoch, b.start = prev.stop.getD 0 → b.start = e.start := by
    intro b hb; rw [hb, hprev, nextEpoch_start]
  obtain ⟨s, hs, hle⟩ := nextEpoch_stopLe_of_part o ho (sortEvents events) prev parts
    ((sortEvents_perm events).symm.subset hev) p hp (p.2.1 + n * p.2.2.2.2)
    (fun b hb => broadcastDiscretised_stopLe_cand _ _ _ b (by rw [hst b hb]; exact hE) _ (by
      split_ifs
      · exact hg0
      · exact grid_cand_le p.2.1 b.start p.2.2.2.2 n hstep (by rw [hst b hb]; exact hgap)) hg0)
  rw [← hprev] at hs
  exact ⟨s, hs, hle⟩

/-- **A.3 — epoch length.**  An epoch that starts in the window `[s, E]` of a discretised part is
finite and shorter than `step + 1e-10`. -/
theorem mixed_epoch_length (o : DemoOpts) (ho : o.fixedBroadcast = true) (events : List Event)
    (parts : List Part) (hev : Event.discretised parts ∈ events) (p : Part) (hp : p ∈ parts)
    (hstep : 0 < p.2.2.2.2) (count : ℕ) (e : Epoch) (he : e ∈ epochsUpTo o events count)
    (hs : p.2.1 ≤ e.start) (hE : leInf e.start p.2.2.1 = true) :
    ∃ en, e.stop = some en ∧ en - e.start < p.2.2.2.2 + 1 / 10000000000 := by
  set x : ℚ := (e.start - p.2.1 + 1 / 10000000000) / p.2.2.2.2 with hx
  have hx0 : (0 : ℚ) ≤ x := div_nonneg (by linarith) hstep.le
  have hc0 : 0 ≤ Rat.ceil x := by
    have : ((-1 : ℤ)) < Rat.ceil x := by
      rw [Rat.lt_ceil_iff]
      have : (((-1 : ℤ)) : ℚ) = -1 := by norm_num
      rw [this]; linarith
    omega
  have hcast := cast_toNat_of_nonneg _ hc0
  have h1 : x * p.2.2.2.2 = e.start - p.2.1 + 1 / 10000000000 := div_mul_cancel₀ _ hstep.ne'
  have hle : x ≤ ((Rat.ceil x : ℤ) : ℚ) := Rat.le_ceil
  have hlt : ((Rat.ceil x : ℤ) : ℚ) < x + 1 := Rat.ceil_lt
  have h2 := mul_le_mul_of_nonneg_right hle hstep.le
  have h3 := mul_lt_mul_of_pos_right hlt hstep
  obtain ⟨en, hen, hle'⟩ := mixed_epoch_stop_le_grid o ho events parts hev p hp hstep count e he hE
    (Rat.ceil x).toNat (by rw [hcast]; linarith)
  refine ⟨en, hen, ?_⟩
  rw [hcast] at hle'
  linarith

/-- **A.3 — epoch length on the grid.**  If the epoch starts at a grid point `s + j·step` of the
window and `step ≥ 1e-10`, it is at most one step long. -/
theorem mixed_epoch_length_grid (o : DemoOpts) (ho : o.fixedBroadcast = true) (events : List Event)
    (parts : List Part) (hev : Event.discretised parts ∈ events) (p : Part) (hp : p ∈ parts)
    (hstep : 1 / 10000000000 ≤ p.2.2.2.2) (count : ℕ) (e : Epoch)
    (he : e ∈ epochsUpTo o events count) (j : ℕ) (hj : e.start = p.2.1 + j * p.2.2.2.2)
    (hE : leInf e.start p.2.2.1 = true) :
    ∃ en, e.stop = some en ∧ en - e.start ≤ p.2.2.2.2 := by
  have hpos : 0 < p.2.2.2.2 := lt_of_lt_of_le (by norm_num) hstep
  obtain ⟨en, hen, hle⟩ := mixed_epoch_stop_le_grid o ho events parts hev p hp hpos count e he hE
    (j + 1) (by rw [hj]; push_cast; linarith)
  refine ⟨en, hen, ?_⟩
  rw [hj]
  push_cast at hle
  linarith

/-- **A.3 — the epoch containing a time of the window** `t ∈ [s, E]` starts in the window, is finite
and shorter than `step + 1e-10`. -/
theorem mixed_epoch_length_at (o : DemoOpts) (ho : o.fixedBroadcast = true) (events : List Event)
    (parts : List Part) (hev : Event.discretised parts ∈ events) (p : Part) (hp : p ∈ parts)
    (hstep : 0 < p.2.2.2.2) (hwin : ∀ E, p.2.2.1 = some E → p.2.1 ≤ E) (count : ℕ) (e : Epoch)
    (he : e ∈ epochsUpTo o events count) (t : ℚ) (hst : p.2.1 ≤ t) (htE : leInf t p.2.2.1 = true)
    (hc : e.Contains t) :
    p.2.1 ≤ e.start ∧ ∃ en, e.stop = some en ∧ en - e.start < p.2.2.2.2 + 1 / 10000000000 := by
  have h1 := mixed_epoch_start_ge o ho events parts hev p hp hwin count e he t hst hc
  refine ⟨h1, mixed_epoch_length o ho events parts hev p hp hstep count e he h1 ?_⟩
  cases hE : p.2.2.1 with
  | none => rfl
  | some E =>
    rw [hE, leInf_some] at htE
    exact leInf_some.2 (le_trans hc.1 htE)

/-- **A.3 — grid points are boundaries.**  A grid point `g = s + j·step` inside the window of a
discretised part and inside the generated horizon is the start of an epoch, unless another
boundary lies less than `1e-10` before it (then it is skipped, `grid_point_skipped`). -/
theorem mixed_grid_boundaries (o : DemoOpts) (ho : o.fixedBroadcast = true) (events : List Event)
    (parts : List Part) (hev : Event.discretised parts ∈ events) (p : Part) (hp : p ∈ parts)
    (hstep : 0 < p.2.2.2.2) (count : ℕ) (j : ℕ)
    (hwin : leInf (p.2.1 + j * p.2.2.2.2) p.2.2.1 = true)
    (hcov : ∃ e ∈ epochsUpTo o events count, e.Contains (p.2.1 + j * p.2.2.2.2))
    (hgap : ∀ e ∈ epochsUpTo o events count, e.start < p.2.1 + j * p.2.2.2.2 →
      e.start + 1 / 10000000000 ≤ p.2.1 + j * p.2.2.2.2) :
    ∃ e ∈ epochsUpTo o events count, e.start = p.2.1 + j * p.2.2.2.2 := by
  obtain ⟨e, he, hc⟩ := hcov
  refine ⟨e, he, ?_⟩
  by_contra hne
  have hlt : e.start < p.2.1 + j * p.2.2.2.2 := lt_of_le_of_ne hc.1 hne
  obtain ⟨prev, hprev⟩ := epochsFrom_mem_next _ _ _ _ e he
  obtain ⟨s, hs, hle⟩ := grid_point_boundary o ho (sortEvents events) prev parts
    ((sortEvents_perm events).symm.subset hev) p hp hstep j hwin
    (by rw [← hprev]; exact hgap e he hlt)
  rw [← hprev] at hs
  have := hc.2
  rw [hs, ltInf_some] at this
  linarith

/-- **A.3 with A.4** — for finite windows and `count` beyond the bound of `mixed_terminates` the
horizon is `[0, ∞)`, so every grid point of a window (with `s ≥ 0`) that is not within `1e-10`
after another boundary is the start of an epoch. -/
theorem mixed_grid_boundaries_of_count (o : DemoOpts) (ho : o.fixedBroadcast = true)
    (events : List Event) (hwf : ∀ ev ∈ events, ev.WF) (hfin : ∀ ev ∈ events, ev.FiniteWindows)
    (count : ℕ) (hcount : (stopTimes events).length < count)
    (parts : List Part) (hev : Event.discretised parts ∈ events) (p : Part) (hp : p ∈ parts) (j : ℕ)
    (hwin : leInf (p.2.1 + j * p.2.2.2.2) p.2.2.1 = true)
    (hgap : ∀ e ∈ epochsUpTo o events count, e.start < p.2.1 + j * p.2.2.2.2 →
      e.start + 1 / 10000000000 ≤ p.2.1 + j * p.2.2.2.2) :
    ∃ e ∈ epochsUpTo o events count, e.start = p.2.1 + j * p.2.2.2.2 := by
  obtain ⟨h0, hstep, _⟩ := hwf _ hev p hp
  have htiled := (mixed_terminates o ho events hwf hfin count hcount).2
  have hg0 : 0 ≤ p.2.1 + j * p.2.2.2.2 := by
    have : (0 : ℚ) ≤ j * p.2.2.2.2 := mul_nonneg (Nat.cast_nonneg j) hstep.le
    linarith
  exact mixed_grid_boundaries o ho events parts hev p hp hstep count j hwin
    (htiled.exists_contains hg0) hgap

/-! ## Part 7 — sanity checks by evaluation -/

/-- a schedule mixing the three event classes: sizes of population `0` set at times `0` and `3/10`,
a split at `7/10`, the size of population `1` following `t ↦ 1 + t` on `[1/5, 1]` with step `1/4`. -/
def mixedExample : List Event :=
  [Event.discrete [(0, [(Key.size 0, 2)]), (3/10, [(Key.size 0, 5)])],
   Event.split (7/10) [2] 0 3,
   Event.discretised [([1, 1], 1/5, some 1, Key.size 1, 1/4)]]

/-- the generated schedule: the discrete key is cut at the grid points but keeps its values; the
discretised key carries the end-point means on the epochs inside `[1/5, 1]`; the last grid interval
`[19/20, 6/5)` sticks out of the window and keeps the previous value; 7 epochs `≤` the bound 8. -/
theorem mixedExample_eval :
    ((epochsUpTo {} mixedExample 12).map fun e =>
        (e.start, e.stop, e.value (.size 0), e.value (.size 1)))
      = [(0, some (1/5), some 2, some 1), (1/5, some (3/10), some 2, some (5/4)),
         (3/10, some (9/20), some 5, some (11/8)), (9/20, some (7/10), some 5, some (63/40)),
         (7/10, some (19/20), some 5, some (73/40)), (19/20, some (6/5), some 5, some (73/40)),
         (6/5, none, some 5, some (73/40))] ∧
    (stopTimes mixedExample).length = 8 := by
  decide +kernel

/-- the hypotheses of the theorems above are satisfiable: they hold for `mixedExample`. -/
theorem mixedExample_hyps :
    (∀ ev ∈ mixedExample, ev.WF) ∧ (∀ ev ∈ mixedExample, ev.FiniteWindows) ∧
    (∀ ev ∈ mixedExample, ¬ ev.IsDiscrete → ¬ ev.Touches (.size 0)) ∧
    (∀ ev ∈ mixedExample, ev.QuietFor ([1, 1], 1/5, some 1, Key.size 1, 1/4)) := by
  refine ⟨?_, ?_, ?_, ?_⟩
  all_goals
    intro ev hev
    simp only [mixedExample, List.mem_cons, List.not_mem_nil, or_false] at hev
    rcases hev with rfl | rfl | rfl
  · refine ⟨?_, ?_⟩
    · intro c hc
      simp only [List.mem_cons, List.not_mem_nil, or_false] at hc
      rcases hc with rfl | rfl <;> norm_num
    · simp only [List.map_cons, List.map_nil, List.pairwise_cons, List.mem_cons, List.not_mem_nil,
        or_false, forall_eq, List.Pairwise.nil, and_true, IsEmpty.forall_iff, implies_true]
      norm_num
  · show (0 : ℚ) ≤ 7 / 10
    norm_num
  · intro p hp
    simp only [List.mem_cons, List.not_mem_nil, or_false] at hp
    subst hp
    refine ⟨by norm_num, by norm_num, ?_⟩
    intro E hE
    simp only [Option.some.injEq] at hE
    subst hE
    norm_num
  · trivial
  · trivial
  · intro p hp
    simp only [List.mem_cons, List.not_mem_nil, or_false] at hp
    subst hp
    exact ⟨1, rfl⟩
  · intro h; exact absurd trivial h
  · rintro _ ⟨a, b, h, _⟩; cases h
  · rintro _ ⟨p, hp, h⟩
    simp only [List.mem_cons, List.not_mem_nil, or_false] at hp
    subst hp
    cases h
  · intro c hc _ kv hkv
    simp only [List.mem_cons, List.not_mem_nil, or_false] at hc
    rcases hc with rfl | rfl
    all_goals
      simp only [List.mem_cons, List.not_mem_nil, or_false] at hkv
      subst hkv
      simp
  · intro _ a b h; cases h
  · intro q hq _
    simp only [List.mem_cons, List.not_mem_nil, or_false] at hq
    exact hq

/-- `en - start ≤ step` is false in general — only `< step + 1e-10` holds (`mixed_epoch_length`): the
epoch starting at the change time `1/10 - 1e-11` runs over the grid point `1/10` to `2/10`. -/
theorem epoch_longer_than_step :
    ∃ e ∈ epochsUpTo {} [Event.discrete [(1/10 - 1/100000000000, [(Key.size 0, 2)])],
        Event.discretised [([1, 1], 0, some 1, Key.size 1, 1/10)]] 3,
      ∃ en, e.stop = some en ∧ (0 : ℚ) ≤ e.start ∧ en ≤ 1 ∧ 1/10 < en - e.start := by
  decide +kernel

end PG

#print axioms PG.mixed_value_in_force_discrete
#print axioms PG.mixed_terminates
#print axioms PG.stopTimes_length
#print axioms PG.mixed_discretised_mean
#print axioms PG.mixed_epoch_start_ge
#print axioms PG.mixed_epoch_stop_le_grid
#print axioms PG.mixed_epoch_length
#print axioms PG.mixed_epoch_length_grid
#print axioms PG.mixed_epoch_length_at
#print axioms PG.mixed_grid_boundaries
#print axioms PG.mixed_grid_boundaries_of_count
#print axioms PG.mixedExample_eval
#print axioms PG.mixedExample_hyps
#print axioms PG.epoch_longer_than_step
