/-
PGProofs.Corollaries — four groups of corollaries of the main development.

A. (C09) time rescaling reaches the code model: the generators built by the code for the
   parameters `(c · ts, mig / c, r / c)` are `c⁻¹` times those for `(ts, mig, r)` — at the level
   of the count generators `QCs`, of the dictionaries of `Transition.transit`, and of the rate
   matrices; hence (by `accumVal_time_rescale`) the `k`-th moments scale by `c ^ k`.
B. (C12) a deme which can never hold a lineage contributes exactly zero.
C. (C02/C15) the two routes to the SFS covariance agree.
D. (C03) `cdf(0) = 0`, and all moments of order `k ≥ 1` vanish at time `0`.
-/
import PGProofs.VanLoan
import PGProofs.Labelled
import PGProofs.RatesThm
import PGProofs.Schedule
import PGProofs.MomentsThm
import PGProofs.RewardsThm
import PGProofs.Bridge
import PGProofs.BridgeBC
import PGProofs.BridgeTwoLocus
import PGProofs.Marginal
import PGProofs.Glue
import PGProofs.Assembly
import PGProofs.Conservation

set_option linter.unusedSectionVars false
set_option linter.unusedVariables false
set_option linter.unusedSimpArgs false

namespace PG
namespace Corollaries

open Finset Assembly


/-! ## A. Time rescaling reaches the code model (C09) -/

/-! ### A.1 function level -/

section RescaleFun
variable {T : Type*} [DecidableEq T] [Fintype T] {K : Type*} [CommRing K]
variable {ε : Type*} [Fintype ε]

/-- the count generator is linear in the rate function -/
theorem QC_smul_rate (a : K) (rate : (T → ℕ) → (T → ℕ) → K) (res : (T → ℕ) → (T → ℕ))
    (g : (T → ℕ) → K) (x : T → ℕ) :
    QC (fun c κ => a * rate c κ) res g x = a * QC rate res g x := by
  unfold QC
  rw [Finset.mul_sum]
  refine Finset.sum_congr rfl fun κ _ => ?_
  ring

theorem QCs_smul_rate (a : K) (rate : ε → (T → ℕ) → (T → ℕ) → K) (res : ε → (T → ℕ) → (T → ℕ))
    (g : (T → ℕ) → K) (x : T → ℕ) :
    QCs (fun e c κ => a * rate e c κ) res g x = a * QCs rate res g x := by
  unfold QCs
  rw [Finset.mul_sum]
  exact Finset.sum_congr rfl fun e _ => QC_smul_rate a (rate e) (res e) g x

end RescaleFun

section RescaleRates
variable {D : ℕ} {K : Type*} [Field K]

theorem div_scaled (a t c : K) : a / (c * t) = c⁻¹ * (a / t) := by
  rw [div_eq_mul_inv, mul_inv, div_eq_mul_inv]; ring

theorem linRate_rescale (lam : ℕ → ℕ → K) (ts : Fin D → K) (mig : Fin D → Fin D → K) (c : K) :
    linRate lam (fun d => c * ts d) (fun a b => mig a b / c)
      = fun e x κ => c⁻¹ * linRate lam ts mig e x κ := by
  funext e x κ
  rcases e with ⟨d, d'⟩ | d
  · simp only [linRate]
    split_ifs
    · rw [div_eq_inv_mul]
    · rw [mul_zero]
  · simp only [linRate]
    split_ifs
    · rw [div_scaled]
    · rw [mul_zero]

theorem blkRate_rescale {n : ℕ} [NeZero n] (lam : ℕ → ℕ → K) (ts : Fin D → K)
    (mig : Fin D → Fin D → K) (c : K) :
    blkRate (n := n) lam (fun d => c * ts d) (fun a b => mig a b / c)
      = fun e x κ => c⁻¹ * blkRate lam ts mig e x κ := by
  funext e x κ
  rcases e with ⟨d, d', i⟩ | d
  · simp only [blkRate]
    split_ifs
    · rw [div_eq_inv_mul]
    · rw [mul_zero]
  · simp only [blkRate]
    split_ifs
    · rw [div_scaled]
    · rw [mul_zero]

theorem argRate_rescale (r : K) (ts : Fin D → K) (mig : Fin D → Fin D → K) (c : K) :
    argRate (r / c) (fun d => c * ts d) (fun a b => mig a b / c)
      = fun e x κ => c⁻¹ * argRate r ts mig e x κ := by
  funext e x κ
  rcases e with ⟨d, d', cl⟩ | d | ⟨d, p⟩
  · simp only [argRate]
    split_ifs
    · rw [div_eq_inv_mul]
    · rw [mul_zero]
  · simp only [argRate]
    split_ifs
    · rw [div_eq_inv_mul]
    · rw [mul_zero]
  · simp only [argRate]
    split_ifs
    · rw [div_scaled]
    · rw [mul_zero]

/-- **C09, lineage counting, function level.** Multiplying all time scales by `c` and dividing all
migration rates by `c` multiplies the count generator by `c⁻¹`. -/
theorem QCs_lineage_rescale (lam : ℕ → ℕ → K) (ts ts' : Fin D → K) (mig mig' : Fin D → Fin D → K)
    (c : K) (hts : ∀ d, ts' d = c * ts d) (hmig : ∀ a b, mig' a b = mig a b / c)
    (g : (Fin D → ℕ) → K) (x : Fin D → ℕ) :
    QCs (linRate lam ts' mig') linRes g x = c⁻¹ * QCs (linRate lam ts mig) linRes g x := by
  obtain rfl : ts' = fun d => c * ts d := funext hts
  obtain rfl : mig' = fun a b => mig a b / c := funext fun a => funext (hmig a)
  rw [linRate_rescale, QCs_smul_rate]

/-- **C09, block counting, function level.** -/
theorem QCs_block_rescale {n : ℕ} [NeZero n] (lam : ℕ → ℕ → K) (ts ts' : Fin D → K)
    (mig mig' : Fin D → Fin D → K) (c : K) (hts : ∀ d, ts' d = c * ts d)
    (hmig : ∀ a b, mig' a b = mig a b / c) (g : (Fin D × Fin n → ℕ) → K)
    (x : Fin D × Fin n → ℕ) :
    QCs (blkRate lam ts' mig') blkRes g x = c⁻¹ * QCs (blkRate lam ts mig) blkRes g x := by
  obtain rfl : ts' = fun d => c * ts d := funext hts
  obtain rfl : mig' = fun a b => mig a b / c := funext fun a => funext (hmig a)
  rw [blkRate_rescale, QCs_smul_rate]

/-- **C09, two loci, function level** (the recombination rate is divided by `c` as well). -/
theorem QCs_arg_rescale (r r' : K) (ts ts' : Fin D → K) (mig mig' : Fin D → Fin D → K)
    (c : K) (hts : ∀ d, ts' d = c * ts d) (hmig : ∀ a b, mig' a b = mig a b / c)
    (hr : r' = r / c) (g : (Fin D × LCls → ℕ) → K) (x : Fin D × LCls → ℕ) :
    QCs (argRate r' ts' mig') argRes g x = c⁻¹ * QCs (argRate r ts mig) argRes g x := by
  obtain rfl : ts' = fun d => c * ts d := funext hts
  obtain rfl : mig' = fun a b => mig a b / c := funext fun a => funext (hmig a)
  subst hr
  rw [argRate_rescale, QCs_smul_rate]

end RescaleRates

/-! ### A.2 code level: the dictionaries of `Transition.transit` -/

section RescaleCode
variable {D : ℕ}

/-- **C09, lineage counting, code level.** (The recombination rates play no role with one
locus, they are arbitrary.) -/
theorem genOf_transit_lineage_rescale (m : Model) (ts ts' : Fin D → ℚ)
    (mig mig' : Fin D → Fin D → ℚ) (r r' c : ℚ) (hts : ∀ d, ts' d = c * ts d)
    (hmig : ∀ a b, mig' a b = mig a b / c) (x : Fin D → ℕ) (g : State → ℚ) :
    genOf (transit m (mkEpoch ts' mig' r') (encLC x)) g (encLC x)
      = c⁻¹ * genOf (transit m (mkEpoch ts mig r) (encLC x)) g (encLC x) := by
  rw [genOf_transit_lineage_all, genOf_transit_lineage_all,
    QCs_lineage_rescale (lam m) ts ts' mig mig' c hts hmig]

/-- **C09, block counting, code level** (states whose blocks fit into the `n` samples). -/
theorem genOf_transit_block_rescale {n : ℕ} [NeZero n] (m : Model) (ts ts' : Fin D → ℚ)
    (mig mig' : Fin D → Fin D → ℚ) (r r' c : ℚ) (hts : ∀ d, ts' d = c * ts d)
    (hmig : ∀ a b, mig' a b = mig a b / c) (x : Fin D × Fin n → ℕ) (hn : 2 ≤ n)
    (hmass : massBC x ≤ n) (g : State → ℚ) :
    genOf (transit m (mkEpoch ts' mig' r') (encBC x)) g (encBC x)
      = c⁻¹ * genOf (transit m (mkEpoch ts mig r) (encBC x)) g (encBC x) := by
  rw [genOf_transit_block_all m ts' mig' r' x hn hmass, genOf_transit_block_all m ts mig r x hn hmass,
    QCs_block_rescale (lam m) ts ts' mig mig' c hts hmig]

/-- **C09, two loci, code level**: non-absorbing and absorbing states alike. -/
theorem genOf_transit_two_locus_rescale (ts ts' : Fin D → ℚ) (mig mig' : Fin D → Fin D → ℚ)
    (r r' c : ℚ) (hts : ∀ d, ts' d = c * ts d) (hmig : ∀ a b, mig' a b = mig a b / c)
    (hr : r' = r / c) (x : Fin D × LCls → ℕ) (g : State → ℚ) :
    genOf (transit .kingman (mkEpoch ts' mig' r') (enc2 x)) g (enc2 x)
      = c⁻¹ * genOf (transit .kingman (mkEpoch ts mig r) (enc2 x)) g (enc2 x) := by
  by_cases hx : Absorbing2 x
  · rw [genOf_transit_two_locus_absorbing _ ts' mig' r' x hx,
      genOf_transit_two_locus_absorbing _ ts mig r x hx]
    simp only [Finset.mul_sum]
    refine Finset.sum_congr rfl fun d _ => Finset.sum_congr rfl fun d' _ =>
      Finset.sum_congr rfl fun cl _ => ?_
    split_ifs
    · rw [hmig]; ring
    · rw [mul_zero]
  · rw [genOf_transit_two_locus ts' mig' r' x hx, genOf_transit_two_locus ts mig r x hx,
      QCs_arg_rescale r r' ts ts' mig mig' c hts hmig hr]

/-- at an absorbing two-locus state the statement holds for every coalescent model -/
theorem genOf_transit_two_locus_absorbing_rescale (m : Model) (ts ts' : Fin D → ℚ)
    (mig mig' : Fin D → Fin D → ℚ) (r r' c : ℚ) (hmig : ∀ a b, mig' a b = mig a b / c)
    (x : Fin D × LCls → ℕ) (hx : Absorbing2 x) (g : State → ℚ) :
    genOf (transit m (mkEpoch ts' mig' r') (enc2 x)) g (enc2 x)
      = c⁻¹ * genOf (transit m (mkEpoch ts mig r) (enc2 x)) g (enc2 x) := by
  rw [genOf_transit_two_locus_absorbing _ ts' mig' r' x hx,
    genOf_transit_two_locus_absorbing _ ts mig r x hx]
  simp only [Finset.mul_sum]
  refine Finset.sum_congr rfl fun d _ => Finset.sum_congr rfl fun d' _ =>
    Finset.sum_congr rfl fun cl _ => ?_
  split_ifs
  · rw [hmig]; ring
  · rw [mul_zero]

end RescaleCode

/-! ### A.3 the model's time scales -/

section TimeScales

/-- the factor by which the time scale of model `m` is multiplied when every population size is
multiplied by `a` (`_get_timescale`): `a` for the Kingman coalescent and the unscaled
multiple-merger models, `a²` for the time-scaled Dirac coalescent. (For the time-scaled Beta
coalescent the time scale is not rational, see `betaTimescale_scale`: the factor is `a^(α-1)`.) -/
def timeFactor : Model → ℚ → ℚ
  | .dirac _ _ true, a => a ^ 2
  | _, a => a

/-- scaling the population size by `a` scales the time scale by `timeFactor m a` -/
theorem timescaleRat_scale (m : Model) (a N : ℚ) :
    timescaleRat m (a * N) = (timescaleRat m N).map (timeFactor m a * ·) := by
  rcases m with _ | ⟨α, b⟩ | ⟨psi, c0, b⟩
  · exact timescaleRat_kingman_scale a N
  · cases b
    · exact timescaleRat_beta_unscaled_scale α a N
    · rfl
  · cases b
    · exact timescaleRat_dirac_unscaled_scale psi c0 a N
    · exact timescaleRat_dirac_scaled_scale psi c0 a N

/-- **Scaling all population sizes** by `a` multiplies EVERY time scale (all demes) by the same
factor `c = timeFactor m a`. -/
theorem timescales_all_scaled {D : ℕ} (m : Model) (a : ℚ) (N ts : Fin D → ℚ)
    (hts : ∀ d, timescaleRat m (N d) = some (ts d)) :
    ∀ d, timescaleRat m (a * N d) = some (timeFactor m a * ts d) := by
  intro d
  rw [timescaleRat_scale, hts d]
  rfl

/-- **C09 for the lineage-counting code model, in terms of population sizes**: multiplying all
population sizes by `a` and dividing all migration rates by `c = timeFactor m a` multiplies the
generator row of every state by `c⁻¹`. -/
theorem genOf_transit_lineage_popsize_rescale {D : ℕ} (m : Model) (a : ℚ) (N ts ts' : Fin D → ℚ)
    (hts : ∀ d, timescaleRat m (N d) = some (ts d))
    (hts' : ∀ d, timescaleRat m (a * N d) = some (ts' d))
    (mig mig' : Fin D → Fin D → ℚ) (r r' : ℚ)
    (hmig : ∀ x y, mig' x y = mig x y / timeFactor m a) (x : Fin D → ℕ) (g : State → ℚ) :
    genOf (transit m (mkEpoch ts' mig' r') (encLC x)) g (encLC x)
      = (timeFactor m a)⁻¹ * genOf (transit m (mkEpoch ts mig r) (encLC x)) g (encLC x) := by
  refine genOf_transit_lineage_rescale m ts ts' mig mig' r r' _ (fun d => ?_) hmig x g
  have := timescales_all_scaled m a N ts hts d
  rw [hts' d] at this
  exact Option.some.inj this

end TimeScales


/-! ### A.4 matrix level -/

section RescaleMatrix
variable {K : Type} [Field K] [LinearOrder K] [IsStrictOrderedRing K]
variable {ι : Type} [Fintype ι] [DecidableEq ι] {k : ℕ}

/-- a matrix is determined by its action on all functions of the (injectively decoded) states -/
theorem matrix_eq_smul_of_rep {F : Type*} [Field F] {X : Type*} (dec : ι → X)
    (hinj : Function.Injective dec) (S S' : Matrix ι ι F) (a : F)
    (h : ∀ (f : X → F) i, ∑ j, S' i j * f (dec j) = a * ∑ j, S i j * f (dec j)) :
    S' = a • S := by
  classical
  ext i j0
  have := h (fun x => if x = dec j0 then 1 else 0) i
  simpa [hinj.eq_iff] using this

variable (L : ExpLaw K)

/-- **C09, matrix level (moments).** If `S e` and `S' e` represent, on the same (injectively
decoded) state space, generators `Q e` and `Q' e = c⁻¹ · Q e`, then `S' e = c⁻¹ • S e`, and
multiplying all durations by `c` multiplies the `k`-th moment by `c ^ k`. -/
theorem accumVal_rescale_of_rep {X : Type*} (dec : ι → X) (hinj : Function.Injective dec)
    (S S' : ℕ → Matrix ι ι K) (c : K) (hc : c ≠ 0)
    (h : ∀ e (f : X → K) i, ∑ j, S' e i j * f (dec j) = c⁻¹ * ∑ j, S e i j * f (dec j))
    (R : Fin k → ι → K) (α : ι → K) (fs : List (ℕ × K)) :
    accumVal L S' R α (fs.map fun f => (f.1, c * f.2)) = c ^ k * accumVal L S R α fs := by
  have : S' = fun e => c⁻¹ • S e :=
    funext fun e => matrix_eq_smul_of_rep dec hinj (S e) (S' e) c⁻¹ (h e)
  rw [this]
  exact accumVal_time_rescale L S R α c hc fs

/-- **C09, matrix level (cdf).** -/
theorem cdfVal_rescale_of_rep {X : Type*} (dec : ι → X) (hinj : Function.Injective dec)
    (S S' : ℕ → Matrix ι ι K) (c : K) (hc : c ≠ 0)
    (h : ∀ e (f : X → K) i, ∑ j, S' e i j * f (dec j) = c⁻¹ * ∑ j, S e i j * f (dec j))
    (α exitVec : ι → K) (fs : List (ℕ × K)) :
    cdfVal L S' α exitVec (fs.map fun f => (f.1, c * f.2)) = cdfVal L S α exitVec fs := by
  have : S' = fun e => c⁻¹ • S e :=
    funext fun e => matrix_eq_smul_of_rep dec hinj (S e) (S' e) c⁻¹ (h e)
  rw [this]
  exact cdfVal_time_rescale L S α exitVec c hc fs

/-- rational rate matrices over a list of states without duplicates which represent (in the sense
of `rateEntry_row`) the rows of two step functions with `step' = c⁻¹ · step`: the matrices differ
by the factor `c⁻¹` -/
theorem codeMatrix_rescale (states : List State) (hnd : states.Nodup)
    (S S' : Matrix (Fin states.length) (Fin states.length) ℚ) (step step' : State → Targets) (c : ℚ)
    (hS : ∀ (f : State → ℚ) i, ∑ j, S i j * f states[j] = genOf (step states[i]) f states[i])
    (hS' : ∀ (f : State → ℚ) i, ∑ j, S' i j * f states[j] = genOf (step' states[i]) f states[i])
    (hstep : ∀ (f : State → ℚ) (i : Fin states.length),
      genOf (step' states[i]) f states[i] = c⁻¹ * genOf (step states[i]) f states[i]) :
    S' = c⁻¹ • S := by
  refine matrix_eq_smul_of_rep (fun j : Fin states.length => states[j]) ?_ S S' c⁻¹ ?_
  · intro i j hij
    exact Fin.ext ((List.Nodup.getElem_inj_iff hnd).mp hij)
  · intro f i
    rw [hS' f i, hstep f i, hS f i]

theorem map_cast_smul {n : Type} (a : ℚ) (S : Matrix n n ℚ) :
    (a • S).map (fun q : ℚ => (q : K)) = (a : K) • S.map (fun q : ℚ => (q : K)) := by
  ext i j
  simp [Matrix.map_apply, Matrix.smul_apply]

/-- **C09 for rate matrices of the code, cast to `K`** (as in `PGProofs.Assembly`): rational
matrices over a common state list representing the rows of `step e` resp. `step' e` with
`step' e = c⁻¹ · step e`; all durations multiplied by `c`. -/
theorem accumVal_codeMatrix_rescale (states : List State) (hnd : states.Nodup)
    (S S' : ℕ → Matrix (Fin states.length) (Fin states.length) ℚ)
    (step step' : ℕ → State → Targets) (c : ℚ) (hc : c ≠ 0)
    (hS : ∀ e (f : State → ℚ) i,
      ∑ j, S e i j * f states[j] = genOf (step e states[i]) f states[i])
    (hS' : ∀ e (f : State → ℚ) i,
      ∑ j, S' e i j * f states[j] = genOf (step' e states[i]) f states[i])
    (hstep : ∀ e (f : State → ℚ) (i : Fin states.length),
      genOf (step' e states[i]) f states[i] = c⁻¹ * genOf (step e states[i]) f states[i])
    (R : Fin k → Fin states.length → K) (α : Fin states.length → K) (fs : List (ℕ × K)) :
    accumVal L (fun e => (S' e).map (fun q : ℚ => (q : K))) R α
        (fs.map fun f => (f.1, (c : K) * f.2))
      = (c : K) ^ k * accumVal L (fun e => (S e).map (fun q : ℚ => (q : K))) R α fs := by
  have hcK : (c : K) ≠ 0 := by exact_mod_cast hc
  have : (fun e => (S' e).map (fun q : ℚ => (q : K)))
      = fun e => (c : K)⁻¹ • (S e).map (fun q : ℚ => (q : K)) := by
    funext e
    rw [codeMatrix_rescale states hnd (S e) (S' e) (step e) (step' e) c (hS e) (hS' e) (hstep e),
      map_cast_smul, Rat.cast_inv]
  rw [this]
  exact accumVal_time_rescale L _ R α (c : K) hcK fs

theorem cdfVal_codeMatrix_rescale (states : List State) (hnd : states.Nodup)
    (S S' : ℕ → Matrix (Fin states.length) (Fin states.length) ℚ)
    (step step' : ℕ → State → Targets) (c : ℚ) (hc : c ≠ 0)
    (hS : ∀ e (f : State → ℚ) i,
      ∑ j, S e i j * f states[j] = genOf (step e states[i]) f states[i])
    (hS' : ∀ e (f : State → ℚ) i,
      ∑ j, S' e i j * f states[j] = genOf (step' e states[i]) f states[i])
    (hstep : ∀ e (f : State → ℚ) (i : Fin states.length),
      genOf (step' e states[i]) f states[i] = c⁻¹ * genOf (step e states[i]) f states[i])
    (α exitVec : Fin states.length → K) (fs : List (ℕ × K)) :
    cdfVal L (fun e => (S' e).map (fun q : ℚ => (q : K))) α exitVec
        (fs.map fun f => (f.1, (c : K) * f.2))
      = cdfVal L (fun e => (S e).map (fun q : ℚ => (q : K))) α exitVec fs := by
  have hcK : (c : K) ≠ 0 := by exact_mod_cast hc
  have : (fun e => (S' e).map (fun q : ℚ => (q : K)))
      = fun e => (c : K)⁻¹ • (S e).map (fun q : ℚ => (q : K)) := by
    funext e
    rw [codeMatrix_rescale states hnd (S e) (S' e) (step e) (step' e) c (hS e) (hS' e) (hstep e),
      map_cast_smul, Rat.cast_inv]
  rw [this]
  exact cdfVal_time_rescale L _ α exitVec (c : K) hcK fs

end RescaleMatrix

/-! ### A.5 end to end for the lineage-counting state space -/

section RescaleLineage
variable {K : Type} [Field K] [LinearOrder K] [IsStrictOrderedRing K] {k : ℕ}
variable {D : ℕ} {m : Model} {cinit : Fin D → ℕ}
  {ts ts' : ℕ → Fin D → ℚ} {mig mig' : ℕ → Fin D → Fin D → ℚ} {r r' : ℕ → ℚ}
  {fuel fuel' : ℕ → ℕ} {G G' : ℕ → Graph}

/-- the searches with the scaled and the unscaled parameters list the same states in the same
order -/
theorem visited_rescale
    (hG : ∀ e, bfs (transit m (mkEpoch (ts e) (mig e) (r e))) (encLC cinit) (fuel e) = some (G e))
    (hG' : ∀ e, bfs (transit m (mkEpoch (ts' e) (mig' e) (r' e))) (encLC cinit) (fuel' e)
      = some (G' e)) (e : ℕ) : (G' e).visited = (G 0).visited := by
  refine bfs_visited_congr _ _ (fun s => ∃ c : Fin D → ℕ, s = encLC c) ?_ ?_ (encLC cinit)
    ⟨cinit, rfl⟩ (fuel' e) (fuel 0) (G' e) (G 0) (hG' e) (hG 0)
  · rintro s ⟨c, rfl⟩ t ht
    obtain ⟨c', h', _⟩ := transit_enc_keys m (ts' e) (mig' e) (r' e) c t ht
    exact ⟨c', h'⟩
  · rintro s ⟨c, rfl⟩
    exact keys_transit_enc_indep m _ _ _ _ _ _ c

/-- the rate matrix (`_graph_to_matrix`) of the graph `G' e`, indexed by the state list of
`G 0` (which is the state list of `G' e`, `visited_rescale`) -/
def codeMatOn (G G' : ℕ → Graph) (e : ℕ) :
    Matrix (Fin (G 0).visited.length) (Fin (G 0).visited.length) ℚ :=
  fun i j => rateEntry (G 0).visited (G' e).transitions i j

theorem codeMatOn_self (G : ℕ → Graph) (e : ℕ) : codeMatOn G G e = codeMat G e := rfl

/-- **C09, end to end, lineage counting.** The code's rate matrices for the parameters
`(c · ts, mig / c)` are `c⁻¹` times those for `(ts, mig)` … -/
theorem lineage_codeMat_rescale (c : ℚ)
    (hts : ∀ e d, ts' e d = c * ts e d) (hmig : ∀ e a b, mig' e a b = mig e a b / c)
    (hG : ∀ e, bfs (transit m (mkEpoch (ts e) (mig e) (r e))) (encLC cinit) (fuel e) = some (G e))
    (hG' : ∀ e, bfs (transit m (mkEpoch (ts' e) (mig' e) (r' e))) (encLC cinit) (fuel' e)
      = some (G' e)) (e : ℕ) :
    codeMatOn G G' e = c⁻¹ • codeMat G e := by
  refine matrix_eq_smul_of_rep (fun j : Fin (G 0).visited.length => (G 0).visited[j]) ?_ _ _ c⁻¹ ?_
  · intro i j hij
    exact Fin.ext ((List.Nodup.getElem_inj_iff (lineage_nodup hG)).mp hij)
  · intro f i
    obtain ⟨x, hx, hrow⟩ := lineage_hrow hG e i
    obtain ⟨x', hx', _, hrow'⟩ := lineage_row_states m (ts' e) (mig' e) (r' e) cinit (fuel' e)
      (G' e) (hG' e) (G 0).visited (visited_rescale hG hG' e) i
    have hxx : x' = x := encLC_injective (hx'.symm.trans hx)
    subst hxx
    show ∑ j : Fin (G 0).visited.length,
      rateEntry (G 0).visited (G' e).transitions i j * f (G 0).visited[j] = _
    rw [hrow' f, hrow f,
      QCs_lineage_rescale (lam m) (ts e) (ts' e) (mig e) (mig' e) c (hts e) (hmig e)]

/-- … hence, with all durations multiplied by `c`, the `k`-th moments computed from the code's
matrices are multiplied by `c ^ k` … -/
theorem C09_lineage_moments (L : ExpLaw K) (c : ℚ) (hc : c ≠ 0)
    (hts : ∀ e d, ts' e d = c * ts e d) (hmig : ∀ e a b, mig' e a b = mig e a b / c)
    (hG : ∀ e, bfs (transit m (mkEpoch (ts e) (mig e) (r e))) (encLC cinit) (fuel e) = some (G e))
    (hG' : ∀ e, bfs (transit m (mkEpoch (ts' e) (mig' e) (r' e))) (encLC cinit) (fuel' e)
      = some (G' e))
    (R : Fin k → Fin (G 0).visited.length → K) (α : Fin (G 0).visited.length → K)
    (fs : List (ℕ × K)) :
    accumVal L (fun e => (codeMatOn G G' e).map (fun q : ℚ => (q : K))) R α
        (fs.map fun f => (f.1, (c : K) * f.2))
      = (c : K) ^ k * accumVal L (fun e => (codeMat G e).map (fun q : ℚ => (q : K))) R α fs := by
  have hcK : (c : K) ≠ 0 := by exact_mod_cast hc
  have : (fun e => (codeMatOn G G' e).map (fun q : ℚ => (q : K)))
      = fun e => (c : K)⁻¹ • (codeMat G e).map (fun q : ℚ => (q : K)) := by
    funext e
    rw [lineage_codeMat_rescale c hts hmig hG hG' e, map_cast_smul, Rat.cast_inv]
  rw [this]
  exact accumVal_time_rescale L _ R α (c : K) hcK fs

/-- … and the cdf is unchanged. -/
theorem C09_lineage_cdf (L : ExpLaw K) (c : ℚ) (hc : c ≠ 0)
    (hts : ∀ e d, ts' e d = c * ts e d) (hmig : ∀ e a b, mig' e a b = mig e a b / c)
    (hG : ∀ e, bfs (transit m (mkEpoch (ts e) (mig e) (r e))) (encLC cinit) (fuel e) = some (G e))
    (hG' : ∀ e, bfs (transit m (mkEpoch (ts' e) (mig' e) (r' e))) (encLC cinit) (fuel' e)
      = some (G' e))
    (α exitVec : Fin (G 0).visited.length → K) (fs : List (ℕ × K)) :
    cdfVal L (fun e => (codeMatOn G G' e).map (fun q : ℚ => (q : K))) α exitVec
        (fs.map fun f => (f.1, (c : K) * f.2))
      = cdfVal L (fun e => (codeMat G e).map (fun q : ℚ => (q : K))) α exitVec fs := by
  have hcK : (c : K) ≠ 0 := by exact_mod_cast hc
  have : (fun e => (codeMatOn G G' e).map (fun q : ℚ => (q : K)))
      = fun e => (c : K)⁻¹ • (codeMat G e).map (fun q : ℚ => (q : K)) := by
    funext e
    rw [lineage_codeMat_rescale c hts hmig hG hG' e, map_cast_smul, Rat.cast_inv]
  rw [this]
  exact cdfVal_time_rescale L _ α exitVec (c : K) hcK fs

end RescaleLineage

/-! ## B. A population that can never hold a lineage contributes exactly zero (C12) -/

section ZeroDeme
variable {K : Type} [Field K] [LinearOrder K] [IsStrictOrderedRing K]
variable {ι : Type} [Fintype ι] [DecidableEq ι] {k : ℕ}
variable (L : ExpLaw K)

/-- a moment with an identically zero reward slot is zero (multilinearity with `c = 0`) -/
theorem accumVal_zero_slot (S : ℕ → Matrix ι ι K) (R : Fin k → ι → K) (a : Fin k)
    (h : ∀ i, R a i = 0) (α : ι → K) (fs : List (ℕ × K)) : accumVal L S R α fs = 0 := by
  have h1 := Conservation.accumVal_slot_smul L S R a 0 α fs
  have : Function.update R a (fun i => 0 * R a i) = R := by
    funext b
    by_cases hb : b = a
    · subst hb; funext i; simp [h i]
    · simp [Function.update, hb]
  rw [this, zero_mul] at h1
  exact h1

/-- **Algebraic core of C12.** If one reward slot vanishes on a set `N` of states which is closed
under every `S e` and carries the initial vector, the moment is exactly `0`. -/
theorem accumVal_eq_zero_of_closed (S : ℕ → Matrix ι ι K) (R : Fin k → ι → K) (α : ι → K)
    (N : Finset ι) (hcl : ∀ e i j, i ∈ N → j ∉ N → S e i j = 0)
    (hα : ∀ i, i ∉ N → α i = 0) (a : Fin k) (hRa : ∀ i, i ∈ N → R a i = 0)
    (fs : List (ℕ × K)) : accumVal L S R α fs = 0 := by
  rw [Marginal.accumVal_congr_closed L S R (Function.update R a (fun _ => 0)) α N hcl hα ?_ fs]
  · exact accumVal_zero_slot L S _ a (by simp) α fs
  · intro b i hi
    by_cases hb : b = a
    · subst hb; simp [hRa i hi]
    · simp [Function.update, hb]

variable {D : ℕ}

/-- the lineage generator annihilates, at states without lineage in deme `p`, every function
vanishing on such states: no transition of positive rate puts a lineage into `p` -/
theorem QCs_lineage_zero_deme (lam : ℕ → ℕ → K) (ts : Fin D → K) (mig : Fin D → Fin D → K)
    (p : Fin D) (hmig : ∀ d, d ≠ p → mig d p = 0) (g : (Fin D → ℕ) → K)
    (hg : ∀ c', c' p = 0 → g c' = 0) (c : Fin D → ℕ) (hc : c p = 0) :
    QCs (linRate lam ts mig) linRes g c = 0 := by
  rw [lineage_closed_form, hg c hc]
  have h1 : ∀ d d' : Fin D, (if d ≠ d' then (c d : K) * mig d d' * (g (c - e1 d + e1 d') - 0)
      else 0) = 0 := by
    intro d d'
    split_ifs with hdd
    · by_cases hd' : d' = p
      · subst hd'; rw [hmig d hdd]; ring
      · rw [hg]
        · ring
        · have : (e1 d' : Fin D → ℕ) p = 0 := by simp [e1, Ne.symm hd']
          simp [this, hc]
    · rfl
  have h2 : ∀ (d : Fin D) (j : ℕ), g (c - (j - 1) • e1 d) = 0 := by
    intro d j
    apply hg
    simp [hc]
  rw [Finset.sum_eq_zero fun d _ => Finset.sum_eq_zero fun d' _ => h1 d d',
    Finset.sum_eq_zero fun d _ => Finset.sum_eq_zero fun j _ => by rw [h2 d j]; ring]
  rw [add_zero]

/-- the states without lineage in deme `p` -/
def emptyDemeSet (dec : ι → (Fin D → ℕ)) (p : Fin D) : Finset ι := univ.filter fun i => dec i p = 0

/-- the class of states without lineage in `p` is closed under every generator matrix -/
theorem emptyDemeSet_closed (dec : ι → (Fin D → ℕ)) (hinj : Function.Injective dec)
    (lam : ℕ → ℕ → K) (ts : ℕ → Fin D → K) (mig : ℕ → Fin D → Fin D → K)
    (S : ℕ → Matrix ι ι K)
    (hS : ∀ e (f : (Fin D → ℕ) → K) i,
      ∑ j, S e i j * f (dec j) = QCs (linRate lam (ts e) (mig e)) linRes f (dec i))
    (p : Fin D) (hmig : ∀ e d, d ≠ p → mig e d p = 0) :
    ∀ e i j, i ∈ emptyDemeSet dec p → j ∉ emptyDemeSet dec p → S e i j = 0 := by
  classical
  intro e i j hi hj
  simp only [emptyDemeSet, mem_filter, mem_univ, true_and] at hi hj
  have h := hS e (fun c => if c = dec j then 1 else 0) i
  rw [QCs_lineage_zero_deme lam (ts e) (mig e) p (hmig e) _ (fun c' hc' => by
    rw [if_neg]; rintro rfl; exact hj hc') (dec i) hi] at h
  simpa [hinj.eq_iff] using h

/-- fraction of the lineages which sit in deme `p` (`DemeReward`) -/
def demeFrac (p : Fin D) (c : Fin D → ℕ) : K := (c p : K) / ((∑ d, c d : ℕ) : K)

theorem demeFrac_zero (p : Fin D) (c : Fin D → ℕ) (h : c p = 0) : demeFrac (K := K) p c = 0 := by
  simp [demeFrac, h]

/-- the code's `DemeReward` on a lineage-counting state is `demeFrac` -/
theorem eval_deme_enc (n : ℕ) (p : Fin D) (c : Fin D → ℕ) :
    Reward.eval n (encLC c) (.deme p.val) = demeFrac p c := by
  simp only [Reward.eval, total_enc, demeTotal_enc, demeFrac]

/-- **C12.** Lineage counting with `D` demes; no lineage starts in deme `p` (`α` is carried by
states with `c p = 0`) and no migration leads into `p` (backwards in time) in any epoch. Then every
moment, of any order, in which at least one reward slot is of the form `g · DemeReward(p)`
is exactly `0`. -/
theorem C12_zero_deme (dec : ι → (Fin D → ℕ)) (hinj : Function.Injective dec)
    (lam : ℕ → ℕ → K) (ts : ℕ → Fin D → K) (mig : ℕ → Fin D → Fin D → K)
    (S : ℕ → Matrix ι ι K)
    (hS : ∀ e (f : (Fin D → ℕ) → K) i,
      ∑ j, S e i j * f (dec j) = QCs (linRate lam (ts e) (mig e)) linRes f (dec i))
    (p : Fin D) (hmig : ∀ e d, d ≠ p → mig e d p = 0)
    (α : ι → K) (hα : ∀ i, dec i p ≠ 0 → α i = 0)
    (R : Fin k → ι → K) (a : Fin k) (g : ι → K) (hRa : ∀ i, R a i = g i * demeFrac p (dec i))
    (fs : List (ℕ × K)) :
    accumVal L S R α fs = 0 := by
  refine accumVal_eq_zero_of_closed L S R α (emptyDemeSet dec p)
    (emptyDemeSet_closed dec hinj lam ts mig S hS p hmig) (fun i hi => hα i ?_) a
    (fun i hi => ?_) fs
  · simpa [emptyDemeSet] using hi
  · simp only [emptyDemeSet, mem_filter, mem_univ, true_and] at hi
    rw [hRa, demeFrac_zero p _ hi, mul_zero]

/-- a product reward with a factor `DemeReward(p)` vanishes on lineage-counting states without
lineage in `p` -/
theorem eval_prod_deme_enc (n : ℕ) (p : Fin D) (c : Fin D → ℕ) (rs : List Reward) :
    Reward.eval n (encLC c) (.prod (.deme p.val :: rs))
      = demeFrac p c * Reward.evalProd n (encLC c) rs := by
  rw [Reward.eval, Reward.evalProd, eval_deme_enc]

/-- **C12 for the code's matrices and rewards.** Lineage-counting state space found by the search
from `cinit`, any number of epochs; no migration into `p` in any epoch, initial vector carried by
states without lineage in `p`. Every moment in which one reward is a product reward containing
`DemeReward(p)` (first factor) is exactly zero, when computed from the code's rate matrices
(`_graph_to_matrix`, cast to `K`) and reward vectors. -/
theorem C12_lineage_code {m : Model} {cinit : Fin D → ℕ} {ts : ℕ → Fin D → ℚ}
    {mig : ℕ → Fin D → Fin D → ℚ} {r : ℕ → ℚ} {fuel : ℕ → ℕ} {G : ℕ → Graph}
    (hG : ∀ e, bfs (transit m (mkEpoch (ts e) (mig e) (r e))) (encLC cinit) (fuel e) = some (G e))
    (p : Fin D) (hmig : ∀ e d, d ≠ p → mig e d p = 0)
    (α : Fin (G 0).visited.length → K)
    (hα : ∀ j c, (G 0).visited[j] = encLC c → c p ≠ 0 → α j = 0)
    (n : ℕ) (rwd : Fin k → Reward) (a : Fin k) (rs : List Reward)
    (ha : rwd a = .prod (.deme p.val :: rs)) (fs : List (ℕ × K)) :
    accumVal L (fun e => (codeMat G e).map (fun q : ℚ => (q : K)))
      (fun b j => ((Reward.eval n (G 0).visited[j] (rwd b) : ℚ) : K)) α fs = 0 := by
  have hex : ∀ i : Fin (G 0).visited.length, ∃ c : Fin D → ℕ, (G 0).visited[i] = encLC c :=
    fun i => (lineage_hrow hG 0 i).imp fun c h => h.1
  choose dec hdec using hex
  have hinj : Function.Injective dec := by
    intro i j hij
    have : (G 0).visited[i] = (G 0).visited[j] := by rw [hdec i, hdec j, hij]
    exact Fin.ext ((List.Nodup.getElem_inj_iff (lineage_nodup hG)).mp this)
  have hS : ∀ e (f : (Fin D → ℕ) → ℚ) i, ∑ j, codeMat G e i j * f (dec j)
      = QCs (linRate (lam m) (ts e) (mig e)) linRes f (dec i) := by
    intro e f i
    obtain ⟨c, hc, hrow⟩ := lineage_hrow hG e i
    have hci : c = dec i := encLC_injective (hc.symm.trans (hdec i))
    subst hci
    have h := hrow (Function.extend encLC f 0)
    simp only [hdec, encLC_injective.extend_apply] at h
    exact h
  have hcl := emptyDemeSet_closed (K := ℚ) dec hinj (lam m) ts mig (codeMat G) hS p hmig
  refine accumVal_eq_zero_of_closed L _ _ α (emptyDemeSet dec p) ?_ (fun i hi => ?_) a
    (fun i hi => ?_) fs
  · intro e i j hi hj
    rw [Matrix.map_apply, hcl e i j hi hj, Rat.cast_zero]
  · refine hα i (dec i) (hdec i) ?_
    simpa [emptyDemeSet] using hi
  · simp only [emptyDemeSet, mem_filter, mem_univ, true_and] at hi
    simp only [ha, hdec i, eval_prod_deme_enc, demeFrac_zero p _ hi, zero_mul, Rat.cast_zero]

end ZeroDeme

/-! ## C. The two routes to the SFS covariance agree -/

section CovRoutes
variable {ρ : Type} [Inhabited ρ]

/-- the permuted uncentred second moment is the average of the two ordered ones -/
theorem uncentred_pair (raw : List ρ → ℚ) (a b : ρ) :
    uncentred raw true [a, b] = (raw [a, b] + raw [b, a]) / 2 := by
  simp [uncentred, permuted, perms, insertEverywhere, sumV, factorial]
  ring

/-- `get_cov` on two rewards: symmetrised raw second moment minus the product of the means -/
theorem accumulate_cov_eq (raw : List ρ → ℚ) (a b : ρ) :
    accumulateModel raw true true [a, b] = (raw [a, b] + raw [b, a]) / 2 - raw [a] * raw [b] := by
  rw [accumulate_center_two, uncentred_pair]

/-- **C02/C15.** Entry `(i, j)` of `SFSDistribution.cov` (`covSFS`: `(X + Xᵀ)/2 - μ μᵀ` built from
the ORDERED uncentred second moments `X[i][j] = raw [r_i, r_j]` and the means `μ[i] = raw [r_i]`)
is the centred, permutation-averaged moment `accumulate(2, [r_i, r_j], center, permute)`. -/
theorem cov_routes_agree (n : ℕ) (idx : List ℕ) (r : ℕ → ρ) (raw : List ρ → ℚ) (mean : List ℚ)
    (hmean : ∀ i ∈ idx, getR mean i = raw [r i]) (i j : ℕ) (hi : i ≤ n) (hj : j ≤ n)
    (hmi : i ∈ idx) (hmj : j ∈ idx) :
    covEntry n idx (fun i j => raw [r i, r j]) mean i j
      = accumulateModel raw true true [r i, r j] := by
  rw [covSFS_inside n idx _ mean i j hi hj hmi hmj, hmean i hmi, hmean j hmj, accumulate_cov_eq]

/-- `get_cov(i, i)` is the variance -/
theorem accumulate_cov_diag (raw : List ρ → ℚ) (a : ρ) :
    accumulateModel raw true true [a, a] = raw [a, a] - raw [a] ^ 2 := by
  rw [accumulate_cov_eq]; ring

/-- the diagonal of `SFSDistribution.cov` is the variance `raw [r_i, r_i] - (raw [r_i])²`, and
agrees with `get_cov(i, i)` -/
theorem cov_routes_agree_diag (n : ℕ) (idx : List ℕ) (r : ℕ → ρ) (raw : List ρ → ℚ)
    (mean : List ℚ) (hmean : ∀ i ∈ idx, getR mean i = raw [r i]) (i : ℕ) (hi : i ≤ n)
    (hmi : i ∈ idx) :
    covEntry n idx (fun i j => raw [r i, r j]) mean i i = raw [r i, r i] - raw [r i] ^ 2
      ∧ accumulateModel raw true true [r i, r i] = raw [r i, r i] - raw [r i] ^ 2 :=
  ⟨by rw [cov_routes_agree n idx r raw mean hmean i i hi hi hmi hmi, accumulate_cov_diag],
    accumulate_cov_diag raw (r i)⟩

end CovRoutes

/-! ## D. `cdf(0) = 0` and the initial state -/

section TimeZero
variable {K : Type} [Field K] [LinearOrder K] [IsStrictOrderedRing K]
variable {ι : Type} [Fintype ι] [DecidableEq ι] {k : ℕ}
variable (L : ExpLaw K)

/-- the factor list of the direct evaluation at `t = 0`, cast to `K` -/
theorem castF_specFactors_zero (eps : List EpochT) (h : WF eps 0) :
    castF (K := K) (specFactors eps 0) = [(0, 0)] := by
  rw [specFactors_zero eps h]
  simp [castF]

/-- at time `0` nothing has been multiplied onto the running product -/
theorem evalFactors_specFactors_zero {κ : Type} [Fintype κ] [DecidableEq κ]
    (V : ℕ → Matrix κ κ K) (eps : List EpochT) (h : WF eps 0) :
    evalFactors L V (castF (specFactors eps 0)) = 1 := by
  rw [castF_specFactors_zero eps h, evalFactors_zero_duration, evalFactors_nil]

theorem cdfVal_nil (S : ℕ → Matrix ι ι K) (α exitVec : ι → K) :
    cdfVal L S α exitVec [] = 1 - ∑ i, α i * exitVec i := by
  unfold cdfVal
  rw [evalFactors_nil]
  congr 1
  refine Finset.sum_congr rfl fun i _ => ?_
  rw [Finset.sum_eq_single_of_mem i (Finset.mem_univ i)]
  · simp
  · intro j _ hj; simp [Matrix.one_apply_ne hj.symm]

/-- **C03 at `t = 0`.** The cdf at time `0` is `1 - α · exitVec`. -/
theorem cdfVal_time_zero (S : ℕ → Matrix ι ι K) (α exitVec : ι → K) (eps : List EpochT)
    (h : WF eps 0) :
    cdfVal L S α exitVec (castF (specFactors eps 0)) = 1 - ∑ i, α i * exitVec i := by
  rw [← cdfVal_nil L S α exitVec]
  unfold cdfVal
  rw [evalFactors_specFactors_zero L S eps h, evalFactors_nil]

/-- **`cdf(0) = 0`.** If the initial vector is a probability vector carried by states on which the
exit vector (the tree-height reward) is `1`, the cdf vanishes at time `0`. -/
theorem cdf_zero (S : ℕ → Matrix ι ι K) (α exitVec : ι → K) (eps : List EpochT) (h : WF eps 0)
    (hα : ∑ i, α i = 1) (hsupp : ∀ i, α i ≠ 0 → exitVec i = 1) :
    cdfVal L S α exitVec (castF (specFactors eps 0)) = 0 := by
  rw [cdfVal_time_zero L S α exitVec eps h]
  have : ∑ i, α i * exitVec i = ∑ i, α i := by
    refine Finset.sum_congr rfl fun i _ => ?_
    by_cases hi : α i = 0
    · simp [hi]
    · rw [hsupp i hi, mul_one]
  rw [this, hα, sub_self]

/-- `cdf(0) = 0` for the code's data: the initial vector is the point mass at a state of the
state list which is not absorbing (the sample has at least two lineages at some locus), the exit
vector is the tree-height reward. -/
theorem cdf_zero_code {states : List State}
    (S : ℕ → Matrix (Fin states.length) (Fin states.length) K) (n : ℕ) (j0 : Fin states.length)
    (h1 : ∀ l < states[j0].nLoci, 1 ≤ states[j0].locusTotal l)
    (hna : states[j0].isAbsorbing = false) (eps : List EpochT) (h : WF eps 0) :
    cdfVal L S (fun j => if j = j0 then 1 else 0)
      (fun j => ((Reward.eval n states[j] .treeHeight : ℚ) : K)) (castF (specFactors eps 0)) = 0 := by
  refine cdf_zero L S _ _ eps h (by simp) ?_
  intro i hi
  have : i = j0 := by
    by_contra hne; exact hi (by simp [hne])
  subst this
  have := (treeHeight_one_iff_not_absorbing n states[i] h1).mpr hna
  simp only [this, Rat.cast_one]

theorem accumVal_nil (S : ℕ → Matrix ι ι K) (R : Fin k → ι → K) (α : ι → K) (hk : 1 ≤ k) :
    accumVal L S R α [] = 0 := by
  unfold accumVal
  rw [evalFactors_nil]
  have h0 : (0 : Fin (k + 1)) ≠ Fin.last k := by
    intro h
    have := congrArg Fin.val h
    simp at this
    omega
  have : ∀ i j : ι, (1 : Matrix (Fin (k + 1) × ι) (Fin (k + 1) × ι) K) (0, i) (Fin.last k, j) = 0 :=
    fun i j => Matrix.one_apply_ne (fun h => h0 (congrArg Prod.fst h))
  simp [this]

/-- **No time, no reward.** All moments of order `k ≥ 1` vanish at time `0`: the top-right block
of the identity matrix is zero. -/
theorem accumVal_time_zero (S : ℕ → Matrix ι ι K) (R : Fin k → ι → K) (α : ι → K) (hk : 1 ≤ k)
    (eps : List EpochT) (h : WF eps 0) :
    accumVal L S R α (castF (specFactors eps 0)) = 0 := by
  rw [← accumVal_nil L S R α hk]
  unfold accumVal
  rw [evalFactors_specFactors_zero L _ eps h, evalFactors_nil]

/-- order `0`: the "moment" is the total initial mass, at every time-0 evaluation -/
theorem accumVal_time_zero_order_zero (S : ℕ → Matrix ι ι K) (R : Fin 0 → ι → K) (α : ι → K)
    (eps : List EpochT) (h : WF eps 0) :
    accumVal L S R α (castF (specFactors eps 0)) = ∑ i, α i := by
  unfold accumVal
  rw [evalFactors_specFactors_zero L _ eps h]
  rw [Nat.factorial_zero, Nat.cast_one, one_mul]
  refine Finset.sum_congr rfl fun i _ => ?_
  rw [Finset.sum_eq_single_of_mem i (Finset.mem_univ i)]
  · have : ((0 : Fin 1), i) = (Fin.last 0, i) := rfl
    rw [this, Matrix.one_apply_eq, mul_one]
  · intro j _ hj
    have : ((0 : Fin 1), i) ≠ (Fin.last 0, j) := fun h => hj (congrArg Prod.snd h).symm
    rw [Matrix.one_apply_ne this, mul_zero]

end TimeZero

end Corollaries
end PG

#print axioms PG.Corollaries.QCs_lineage_rescale
#print axioms PG.Corollaries.QCs_block_rescale
#print axioms PG.Corollaries.QCs_arg_rescale
#print axioms PG.Corollaries.genOf_transit_lineage_rescale
#print axioms PG.Corollaries.genOf_transit_block_rescale
#print axioms PG.Corollaries.genOf_transit_two_locus_rescale
#print axioms PG.Corollaries.genOf_transit_two_locus_absorbing_rescale
#print axioms PG.Corollaries.timescaleRat_scale
#print axioms PG.Corollaries.timescales_all_scaled
#print axioms PG.Corollaries.genOf_transit_lineage_popsize_rescale
#print axioms PG.Corollaries.matrix_eq_smul_of_rep
#print axioms PG.Corollaries.accumVal_rescale_of_rep
#print axioms PG.Corollaries.cdfVal_rescale_of_rep
#print axioms PG.Corollaries.codeMatrix_rescale
#print axioms PG.Corollaries.accumVal_codeMatrix_rescale
#print axioms PG.Corollaries.cdfVal_codeMatrix_rescale
#print axioms PG.Corollaries.visited_rescale
#print axioms PG.Corollaries.lineage_codeMat_rescale
#print axioms PG.Corollaries.C09_lineage_moments
#print axioms PG.Corollaries.C09_lineage_cdf
#print axioms PG.Corollaries.accumVal_zero_slot
#print axioms PG.Corollaries.accumVal_eq_zero_of_closed
#print axioms PG.Corollaries.QCs_lineage_zero_deme
#print axioms PG.Corollaries.emptyDemeSet_closed
#print axioms PG.Corollaries.C12_zero_deme
#print axioms PG.Corollaries.C12_lineage_code
#print axioms PG.Corollaries.uncentred_pair
#print axioms PG.Corollaries.accumulate_cov_eq
#print axioms PG.Corollaries.cov_routes_agree
#print axioms PG.Corollaries.accumulate_cov_diag
#print axioms PG.Corollaries.cov_routes_agree_diag
#print axioms PG.Corollaries.cdfVal_time_zero
#print axioms PG.Corollaries.cdf_zero
#print axioms PG.Corollaries.cdf_zero_code
#print axioms PG.Corollaries.accumVal_nil
#print axioms PG.Corollaries.accumVal_time_zero
#print axioms PG.Corollaries.accumVal_time_zero_order_zero
