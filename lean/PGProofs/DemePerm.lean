/-
  PGProofs/DemePerm.lean

  C08: results do not depend on population naming or listing order.

  Every statistic is attached to the population NAME.  In the model the deme AXIS order is the
  order of the sample configuration; a different listing order is a permutation
  `σ : Equiv.Perm (Fin D)` of the deme axis applied consistently to the sample vector, the time
  scales, the migration matrix and the per-deme rewards.  The deme which sits at axis position `q`
  in the original listing sits at axis position `σ q` in the permuted listing.

  1. function level: relabelling demes commutes with the count generators (lineage and block
     counting);
  2. code level: the same for the generator rows which `Transition.transit` builds;
  3. moments / cdf: equal when rewards and initial vectors are transported along the relabelling;
     corollaries for the deme-fraction reward and the permutation-invariant (total) rewards;
  4. the historic defect (looking a deme up by the position of its name in the SORTED name list)
     as a counterexample.
-/
import PGProofs.Labelled
import PGProofs.VanLoan
import PGProofs.Bridge
import PGProofs.BridgeBC
import PGProofs.Marginal
import PGProofs.Assembly
import PGModel.Rewards
import Mathlib.Data.List.Sort

set_option linter.unusedSectionVars false
set_option linter.unusedSimpArgs false
set_option linter.unusedVariables false

open Finset

namespace PG
namespace DemePerm

/-! ## 0. Relabelling the deme axis -/

section Defs
variable {D : ℕ}

/-- count vector with the demes relabelled: the deme at axis position `q` moves to `σ q` -/
def permC (σ : Equiv.Perm (Fin D)) (c : Fin D → ℕ) : Fin D → ℕ := fun d => c (σ.symm d)

/-- per-deme parameters (time scales, sizes, per-deme rewards) with the demes relabelled -/
def permTs {K : Type*} (σ : Equiv.Perm (Fin D)) (ts : Fin D → K) : Fin D → K :=
  fun d => ts (σ.symm d)

/-- migration matrix with the demes relabelled -/
def permMig {K : Type*} (σ : Equiv.Perm (Fin D)) (mig : Fin D → Fin D → K) : Fin D → Fin D → K :=
  fun a b => mig (σ.symm a) (σ.symm b)

variable (σ : Equiv.Perm (Fin D))

@[simp] theorem permC_apply (c : Fin D → ℕ) (d : Fin D) : permC σ c (σ d) = c d := by
  simp [permC]

@[simp] theorem permTs_apply {K : Type*} (ts : Fin D → K) (d : Fin D) :
    permTs σ ts (σ d) = ts d := by
  simp [permTs]

@[simp] theorem permMig_apply {K : Type*} (mig : Fin D → Fin D → K) (a b : Fin D) :
    permMig σ mig (σ a) (σ b) = mig a b := by
  simp [permMig]

theorem permC_one (c : Fin D → ℕ) : permC (1 : Equiv.Perm (Fin D)) c = c := rfl

theorem permC_mul (σ τ : Equiv.Perm (Fin D)) (c : Fin D → ℕ) :
    permC (σ * τ) c = permC σ (permC τ c) := by
  funext d; simp [permC, Equiv.Perm.mul_def]

@[simp] theorem permC_symm_permC (c : Fin D → ℕ) : permC σ.symm (permC σ c) = c := by
  funext d; simp [permC]

@[simp] theorem permC_permC_symm (c : Fin D → ℕ) : permC σ (permC σ.symm c) = c := by
  funext d; simp [permC]

theorem permC_injective : Function.Injective (permC σ) := fun c c' h => by
  rw [← permC_symm_permC σ c, h, permC_symm_permC]

theorem permC_e1 (d : Fin D) : permC σ (e1 d) = e1 (σ d) := by
  funext x
  simp only [permC, e1, Pi.single_apply, Equiv.symm_apply_eq]

theorem permC_add (c c' : Fin D → ℕ) : permC σ (c + c') = permC σ c + permC σ c' := rfl
theorem permC_sub (c c' : Fin D → ℕ) : permC σ (c - c') = permC σ c - permC σ c' := rfl
theorem permC_smul (k : ℕ) (c : Fin D → ℕ) : permC σ (k • c) = k • permC σ c := rfl

/-- the total number of lineages does not see the listing order -/
theorem sum_permC (c : Fin D → ℕ) : ∑ d, permC σ c d = ∑ d, c d :=
  Equiv.sum_comp σ.symm c

end Defs

/-! ## 1. Function-level equivariance -/

section Lineage
variable {D : ℕ} {K : Type*} [Field K] (σ : Equiv.Perm (Fin D))

/-- **C08 (function level, lineage counting).**  Relabelling the demes commutes with the count
generator: the generator of the original listing `(ts, mig)` applied to a function which reads
the state through the relabelling is the generator of the relabelled listing
`(permTs σ ts, permMig σ mig)` applied to the function itself, at the relabelled state. -/
theorem lineage_equivariant (lam : ℕ → ℕ → K) (ts : Fin D → K) (mig : Fin D → Fin D → K)
    (g : (Fin D → ℕ) → K) (c : Fin D → ℕ) :
    QCs (linRate lam ts mig) linRes (fun c' => g (permC σ c')) c
      = QCs (linRate lam (permTs σ ts) (permMig σ mig)) linRes g (permC σ c) := by
  rw [lineage_closed_form, lineage_closed_form]
  congr 1
  · refine Fintype.sum_equiv σ _ _ fun d => Fintype.sum_equiv σ _ _ fun d' => ?_
    simp only [permC_apply, permMig_apply, permC_add, permC_sub, permC_e1, σ.injective.ne_iff]
  · refine Fintype.sum_equiv σ _ _ fun d => ?_
    simp only [permC_apply, permTs_apply, permC_sub, permC_smul, permC_e1]

/-- the same, solved for the original generator: the generator of the relabelled listing, applied
to a function read through the inverse relabelling, at the relabelled state -/
theorem lineage_equivariant' (lam : ℕ → ℕ → K) (ts : Fin D → K) (mig : Fin D → Fin D → K)
    (g : (Fin D → ℕ) → K) (c : Fin D → ℕ) :
    QCs (linRate lam (permTs σ ts) (permMig σ mig)) linRes (fun c' => g (permC σ.symm c'))
        (permC σ c)
      = QCs (linRate lam ts mig) linRes g c := by
  rw [← lineage_equivariant σ lam ts mig (fun c' => g (permC σ.symm c')) c]
  simp only [permC_symm_permC]

end Lineage

section Block
variable {D n : ℕ} [NeZero n] {K : Type*} [Field K] (σ : Equiv.Perm (Fin D))

/-- block-count vector with the demes relabelled (block sizes untouched) -/
def permB (σ : Equiv.Perm (Fin D)) (c : Fin D × Fin n → ℕ) : Fin D × Fin n → ℕ :=
  fun t => c (σ.symm t.1, t.2)

omit [NeZero n] in
@[simp] theorem permB_apply (c : Fin D × Fin n → ℕ) (d : Fin D) (i : Fin n) :
    permB σ c (σ d, i) = c (d, i) := by
  simp [permB]

omit [NeZero n] in
@[simp] theorem permB_symm_permB (c : Fin D × Fin n → ℕ) : permB σ.symm (permB σ c) = c := by
  funext t; simp [permB]

omit [NeZero n] in
@[simp] theorem permB_permB_symm (c : Fin D × Fin n → ℕ) : permB σ (permB σ.symm c) = c := by
  funext t; simp [permB]

omit [NeZero n] in
theorem permB_injective : Function.Injective (permB (n := n) σ) := fun c c' h => by
  rw [← permB_symm_permB σ c, h, permB_symm_permB]

omit [NeZero n] in
theorem permB_e1 (d : Fin D) (i : Fin n) : permB σ (e1 (d, i)) = e1 (σ d, i) := by
  funext x
  simp only [permB, e1, Pi.single_apply, Prod.ext_iff, Equiv.symm_apply_eq]

omit [NeZero n] in
theorem permB_emb (d : Fin D) (κ' : Fin n → ℕ) : permB σ (emb d κ') = emb (σ d) κ' := by
  funext x
  simp only [permB, emb, Equiv.symm_apply_eq]

omit [NeZero n] in
theorem permB_add (c c' : Fin D × Fin n → ℕ) : permB σ (c + c') = permB σ c + permB σ c' := rfl
omit [NeZero n] in
theorem permB_sub (c c' : Fin D × Fin n → ℕ) : permB σ (c - c') = permB σ c - permB σ c' := rfl

/-- **C08 (function level, block counting).**  Relabelling the demes commutes with the block-count
generator. -/
theorem block_equivariant (lam : ℕ → ℕ → K) (ts : Fin D → K) (mig : Fin D → Fin D → K)
    (g : (Fin D × Fin n → ℕ) → K) (c : Fin D × Fin n → ℕ) :
    QCs (blkRate lam ts mig) blkRes (fun c' => g (permB σ c')) c
      = QCs (blkRate lam (permTs σ ts) (permMig σ mig)) blkRes g (permB σ c) := by
  rw [block_closed_form, block_closed_form]
  congr 1
  · refine Fintype.sum_equiv σ _ _ fun d => Fintype.sum_equiv σ _ _ fun d' => ?_
    refine sum_congr rfl fun i _ => ?_
    simp only [permB_apply, permMig_apply, permB_add, permB_sub, permB_e1, σ.injective.ne_iff]
  · refine Fintype.sum_equiv σ _ _ fun d => ?_
    simp only [permB_apply, permTs_apply, permB_add, permB_sub, permB_e1, permB_emb]

theorem block_equivariant' (lam : ℕ → ℕ → K) (ts : Fin D → K) (mig : Fin D → Fin D → K)
    (g : (Fin D × Fin n → ℕ) → K) (c : Fin D × Fin n → ℕ) :
    QCs (blkRate lam (permTs σ ts) (permMig σ mig)) blkRes (fun c' => g (permB σ.symm c'))
        (permB σ c)
      = QCs (blkRate lam ts mig) blkRes g c := by
  rw [← block_equivariant σ lam ts mig (fun c' => g (permB σ.symm c')) c]
  simp only [permB_symm_permB]

end Block

/-! ## 2. Code level: the generator rows built by `Transition.transit` -/

section Code
variable {D : ℕ} (σ : Equiv.Perm (Fin D))

/-- permute the deme axis of one `[deme][block]` array -/
def permAxis (σ : Equiv.Perm (Fin D)) (x : List (List ℕ)) : List (List ℕ) :=
  List.ofFn fun d : Fin D => x.getD (σ.symm d).val []

/-- relabel the deme axis of a state (`State.data[locus][deme][block]`) -/
def relabelState (σ : Equiv.Perm (Fin D)) (s : State) : State :=
  { lin := s.lin.map (permAxis σ), lnk := s.lnk.map (permAxis σ) }

theorem relabelState_encLC (c : Fin D → ℕ) : relabelState σ (encLC c) = encLC (permC σ c) := by
  simp [relabelState, encLC, permAxis, permC, List.getD_eq_getElem?_getD, List.getElem?_ofFn]

theorem relabelState_encBC {n : ℕ} (c : Fin D × Fin n → ℕ) :
    relabelState σ (encBC c) = encBC (permB σ c) := by
  simp [relabelState, encBC, permAxis, permB, List.getD_eq_getElem?_getD, List.getElem?_ofFn]

/-- **C08 (code level, lineage counting).**  The generator row which `Transition.transit` builds
for the relabelled listing at the relabelled state, applied to `g'`, is the row for the original
listing at the original state applied to `g`, whenever `g'` reads the relabelled states as `g`
reads the original ones. -/
theorem transit_lineage_equivariant (m : Model) (ts : Fin D → ℚ) (mig : Fin D → Fin D → ℚ) (r : ℚ)
    (c : Fin D → ℕ) (g g' : State → ℚ) (hg : ∀ c', g' (encLC (permC σ c')) = g (encLC c')) :
    genOf (transit m (mkEpoch (permTs σ ts) (permMig σ mig) r) (encLC (permC σ c))) g'
        (encLC (permC σ c))
      = genOf (transit m (mkEpoch ts mig r) (encLC c)) g (encLC c) := by
  rw [genOf_transit_lineage_all, genOf_transit_lineage_all,
    ← lineage_equivariant σ (lam m) ts mig (fun c' => g' (encLC c')) c]
  simp only [hg]

/-- the same with the relabelling of states made explicit -/
theorem transit_lineage_relabel (m : Model) (ts : Fin D → ℚ) (mig : Fin D → Fin D → ℚ) (r : ℚ)
    (c : Fin D → ℕ) (g : State → ℚ) :
    genOf (transit m (mkEpoch (permTs σ ts) (permMig σ mig) r) (relabelState σ (encLC c)))
        (fun s => g (relabelState σ.symm s)) (relabelState σ (encLC c))
      = genOf (transit m (mkEpoch ts mig r) (encLC c)) g (encLC c) := by
  rw [relabelState_encLC]
  refine transit_lineage_equivariant σ m ts mig r c g _ fun c' => ?_
  simp only [relabelState_encLC, permC_symm_permC]

variable {n : ℕ} [NeZero n]

theorem massBC_permB (c : Fin D × Fin n → ℕ) : massBC (permB σ c) = massBC c := by
  unfold massBC
  exact (Fintype.sum_equiv σ _ _ fun d => by simp only [permB_apply]).symm

/-- **C08 (code level, block counting).** -/
theorem transit_block_equivariant (m : Model) (ts : Fin D → ℚ) (mig : Fin D → Fin D → ℚ) (r : ℚ)
    (c : Fin D × Fin n → ℕ) (hn : 2 ≤ n) (hmass : massBC c ≤ n) (g g' : State → ℚ)
    (hg : ∀ c' : Fin D × Fin n → ℕ, g' (encBC (permB σ c')) = g (encBC c')) :
    genOf (transit m (mkEpoch (permTs σ ts) (permMig σ mig) r) (encBC (permB σ c))) g'
        (encBC (permB σ c))
      = genOf (transit m (mkEpoch ts mig r) (encBC c)) g (encBC c) := by
  rw [genOf_transit_block_all _ _ _ _ _ hn ((massBC_permB σ c).le.trans hmass),
    genOf_transit_block_all _ _ _ _ _ hn hmass,
    ← block_equivariant σ (lam m) ts mig (fun c' => g' (encBC c')) c]
  simp only [hg]

theorem transit_block_relabel (m : Model) (ts : Fin D → ℚ) (mig : Fin D → Fin D → ℚ) (r : ℚ)
    (c : Fin D × Fin n → ℕ) (hn : 2 ≤ n) (hmass : massBC c ≤ n) (g : State → ℚ) :
    genOf (transit m (mkEpoch (permTs σ ts) (permMig σ mig) r) (relabelState σ (encBC c)))
        (fun s => g (relabelState σ.symm s)) (relabelState σ (encBC c))
      = genOf (transit m (mkEpoch ts mig r) (encBC c)) g (encBC c) := by
  rw [relabelState_encBC]
  refine transit_block_equivariant σ m ts mig r c hn hmass g _ fun c' => ?_
  simp only [relabelState_encBC, permB_symm_permB]

end Code

/-! ## 3. Moments and cdf -/

section Rewards
variable {D : ℕ} {K : Type*} [Field K] (σ : Equiv.Perm (Fin D))

/-- `DemeReward(pop)`: the fraction of lineages in the deme at axis position `q` -/
def demeFrac (q : Fin D) (c : Fin D → ℕ) : K := (c q : K) / ((∑ d, c d : ℕ) : K)

/-- the deme NAMED `q` sits at position `σ q` of the relabelled listing: same reward -/
theorem demeFrac_perm (q : Fin D) (c : Fin D → ℕ) :
    (demeFrac (σ q) (permC σ c) : K) = demeFrac q c := by
  unfold demeFrac
  rw [permC_apply, sum_permC]

/-- the per-deme reward vector is permuted like every other per-deme parameter -/
theorem demeFrac_permTs (c : Fin D → ℕ) :
    (fun q => (demeFrac q (permC σ c) : K)) = permTs σ (fun q => demeFrac q c) := by
  funext q
  unfold demeFrac permTs
  rw [sum_permC]; rfl

/-- the code's `DemeReward` on a lineage-counting state -/
theorem eval_deme_enc (n : ℕ) (q : Fin D) (c : Fin D → ℕ) :
    Reward.eval n (encLC c) (.deme q.val) = demeFrac q c := by
  simp only [Reward.eval, Assembly.total_enc, Assembly.demeTotal_enc]
  rfl

theorem eval_deme_perm (n : ℕ) (q : Fin D) (c : Fin D → ℕ) :
    Reward.eval n (encLC (permC σ c)) (.deme (σ q).val) = Reward.eval n (encLC c) (.deme q.val) := by
  rw [eval_deme_enc, eval_deme_enc, demeFrac_perm]

theorem eval_treeHeight_perm (n : ℕ) (c : Fin D → ℕ) :
    Reward.eval n (encLC (permC σ c)) .treeHeight = Reward.eval n (encLC c) .treeHeight := by
  simp only [Reward.eval, nLoci_enc, List.range_one, List.any_cons, List.any_nil, Bool.or_false,
    locusTotal_enc, sum_permC]

theorem eval_totalTreeHeight_perm (n : ℕ) (c : Fin D → ℕ) :
    Reward.eval n (encLC (permC σ c)) .totalTreeHeight
      = Reward.eval n (encLC c) .totalTreeHeight := by
  simp only [Reward.eval, nLoci_enc, List.range_one, List.map_cons, List.map_nil,
    locusTotal_enc, sum_permC]

theorem eval_totalBranchLength_perm (n : ℕ) (c : Fin D → ℕ) :
    Reward.eval n (encLC (permC σ c)) .totalBranchLength
      = Reward.eval n (encLC c) .totalBranchLength := by
  simp only [Reward.eval, nLoci_enc, List.range_one, List.map_cons, List.map_nil,
    locusTotal_enc, sum_permC]

theorem eval_lineage_perm (n j : ℕ) (c : Fin D → ℕ) :
    Reward.eval n (encLC (permC σ c)) (.lineage j) = Reward.eval n (encLC c) (.lineage j) := by
  simp only [Reward.eval, Assembly.total_enc, sum_permC]

theorem eval_unit_perm (n : ℕ) (c : Fin D → ℕ) :
    Reward.eval n (encLC (permC σ c)) .unit = Reward.eval n (encLC c) .unit := by
  simp only [Reward.eval]

/-- products of two rewards (e.g. `DemeReward * TreeHeightReward`) -/
theorem eval_prod_pair_perm (n : ℕ) (c : Fin D → ℕ) (r₁ r₂ r₁' r₂' : Reward)
    (h₁ : Reward.eval n (encLC (permC σ c)) r₁' = Reward.eval n (encLC c) r₁)
    (h₂ : Reward.eval n (encLC (permC σ c)) r₂' = Reward.eval n (encLC c) r₂) :
    Reward.eval n (encLC (permC σ c)) (.prod [r₁', r₂'])
      = Reward.eval n (encLC c) (.prod [r₁, r₂]) := by
  simp only [Reward.eval, Reward.evalProd, h₁, h₂]

theorem eval_sum_pair_perm (n : ℕ) (c : Fin D → ℕ) (r₁ r₂ r₁' r₂' : Reward)
    (h₁ : Reward.eval n (encLC (permC σ c)) r₁' = Reward.eval n (encLC c) r₁)
    (h₂ : Reward.eval n (encLC (permC σ c)) r₂' = Reward.eval n (encLC c) r₂) :
    Reward.eval n (encLC (permC σ c)) (.sum [r₁', r₂'])
      = Reward.eval n (encLC c) (.sum [r₁, r₂]) := by
  simp only [Reward.eval, Reward.evalSum, h₁, h₂]

/-- `RewardPerm σ r r'`: the reward `r'` is the reward `r` with every `DemeReward` re-pointed to
the position which its population has in the relabelled listing. -/
inductive RewardPerm (σ : Equiv.Perm (Fin D)) : Reward → Reward → Prop
  | deme (q : Fin D) : RewardPerm σ (.deme q.val) (.deme (σ q).val)
  | treeHeight : RewardPerm σ .treeHeight .treeHeight
  | totalTreeHeight : RewardPerm σ .totalTreeHeight .totalTreeHeight
  | totalBranchLength : RewardPerm σ .totalBranchLength .totalBranchLength
  | lineage (j : ℕ) : RewardPerm σ (.lineage j) (.lineage j)
  | unit : RewardPerm σ .unit .unit
  | prod_nil : RewardPerm σ (.prod []) (.prod [])
  | prod_cons {r r' : Reward} {rs rs' : List Reward} :
      RewardPerm σ r r' → RewardPerm σ (.prod rs) (.prod rs') →
      RewardPerm σ (.prod (r :: rs)) (.prod (r' :: rs'))
  | sum_nil : RewardPerm σ (.sum []) (.sum [])
  | sum_cons {r r' : Reward} {rs rs' : List Reward} :
      RewardPerm σ r r' → RewardPerm σ (.sum rs) (.sum rs') →
      RewardPerm σ (.sum (r :: rs)) (.sum (r' :: rs'))

/-- a re-pointed reward reads the relabelled state as the original reward reads the original -/
theorem RewardPerm.eval_eq {σ : Equiv.Perm (Fin D)} {r r' : Reward} (h : RewardPerm σ r r')
    (n : ℕ) (c : Fin D → ℕ) :
    Reward.eval n (encLC (permC σ c)) r' = Reward.eval n (encLC c) r := by
  induction h with
  | deme q => exact eval_deme_perm σ n q c
  | treeHeight => exact eval_treeHeight_perm σ n c
  | totalTreeHeight => exact eval_totalTreeHeight_perm σ n c
  | totalBranchLength => exact eval_totalBranchLength_perm σ n c
  | lineage j => exact eval_lineage_perm σ n j c
  | unit => exact eval_unit_perm σ n c
  | prod_nil => simp only [Reward.eval, Reward.evalProd]
  | prod_cons _ _ ih1 ih2 =>
    simp only [Reward.eval, Reward.evalProd] at ih2 ⊢
    rw [ih1, ih2]
  | sum_nil => simp only [Reward.eval, Reward.evalSum]
  | sum_cons _ _ ih1 ih2 =>
    simp only [Reward.eval, Reward.evalSum] at ih2 ⊢
    rw [ih1, ih2]

end Rewards

section Moments
variable {K : Type} [Field K] [LinearOrder K] [IsStrictOrderedRing K]
variable {ι : Type} [Fintype ι] [DecidableEq ι] {ι' : Type} [Fintype ι'] [DecidableEq ι']
variable {k : ℕ}

open Marginal

/-- transporting a point mass along the state map gives the point mass at the image -/
theorem vecMul_projMat_point (p : ι → ι') (hp : Function.Injective p) (i₀ : ι) :
    Matrix.vecMul (fun i => if i = i₀ then (1 : K) else 0) (projMat p)
      = fun j => if j = p i₀ then 1 else 0 := by
  funext j
  rw [vecMul_projMat]
  by_cases hj : j = p i₀
  · subst hj
    rw [sum_eq_single i₀]
    · simp
    · intro i _ hi; simp [hi, hp.ne hi]
    · intro h; exact absurd (mem_univ _) h
  · rw [if_neg hj]
    refine sum_eq_zero fun i _ => ?_
    by_cases hi : i = i₀
    · subst hi; simp [Ne.symm hj]
    · simp [hi]

/-- transporting an initial vector along a bijective state map is reindexing -/
theorem vecMul_projMat_equiv (p : ι ≃ ι') (α : ι → K) :
    Matrix.vecMul α (projMat p) = fun j => α (p.symm j) := by
  funext j
  rw [vecMul_projMat, sum_eq_single (p.symm j)]
  · simp
  · intro i _ hi
    have : p i ≠ j := fun h => hi (by rw [← h]; simp)
    simp [this]
  · intro h; exact absurd (mem_univ _) h

variable (L : ExpLaw K) {D : ℕ} (σ : Equiv.Perm (Fin D))
variable (lam : ℕ → ℕ → K) (ts : ℕ → Fin D → K) (mig : ℕ → Fin D → Fin D → K)
variable (dec : ι → (Fin D → ℕ)) (dec' : ι' → (Fin D → ℕ))
variable (S : ℕ → Matrix ι ι K) (S' : ℕ → Matrix ι' ι' K)

/-- **C08 (matrix level).**  The rate matrices of the two listings are intertwined by the 0/1
matrix of the relabelling of states. -/
theorem demePerm_intertwine (hinj : Function.Injective dec') (e : ℕ)
    (h : ∀ f i, ∑ j, S e i j * f (dec j)
      = QCs (linRate lam (ts e) (mig e)) linRes f (dec i))
    (h' : ∀ f i, ∑ j, S' e i j * f (dec' j)
      = QCs (linRate lam (permTs σ (ts e)) (permMig σ (mig e))) linRes f (dec' i))
    (p : ι → ι') (hp : ∀ i, dec' (p i) = permC σ (dec i)) :
    S e * (projMat p : Matrix ι ι' K) = projMat p * S' e :=
  intertwine_of_rep (QCs (linRate lam (ts e) (mig e)) linRes)
    (QCs (linRate lam (permTs σ (ts e)) (permMig σ (mig e))) linRes) (permC σ)
    (lineage_equivariant σ lam (ts e) (mig e)) dec dec' hinj (S e) (S' e) h h' p hp

/-- **C08 (moments).**  `S e` represents the count generator of the original listing on the
states `dec i`, `S' e` that of the relabelled listing on the states `dec' j`, and `p` sends each
state to its relabelling.  Then every (cross-)moment -- any order `k`, any epoch/factor list, any
`ExpLaw` -- computed in the relabelled listing with rewards `R'` and the transported initial vector
equals the moment computed in the original listing with the rewards read through `p`. -/
theorem demePerm_moments (hinj : Function.Injective dec')
    (h : ∀ e f i, ∑ j, S e i j * f (dec j)
      = QCs (linRate lam (ts e) (mig e)) linRes f (dec i))
    (h' : ∀ e f i, ∑ j, S' e i j * f (dec' j)
      = QCs (linRate lam (permTs σ (ts e)) (permMig σ (mig e))) linRes f (dec' i))
    (p : ι → ι') (hp : ∀ i, dec' (p i) = permC σ (dec i))
    (R' : Fin k → ι' → K) (α : ι → K) (fs : List (ℕ × K)) :
    accumVal L S' R' (Matrix.vecMul α (projMat p)) fs
      = accumVal L S (fun a i => R' a (p i)) α fs :=
  (lumped_accum L (fun e => QCs (linRate lam (ts e) (mig e)) linRes)
    (fun e => QCs (linRate lam (permTs σ (ts e)) (permMig σ (mig e))) linRes) (permC σ)
    (fun e => lineage_equivariant σ lam (ts e) (mig e)) dec dec' hinj S S' h h' p hp R' α fs).symm

/-- **C08 (cdf).** -/
theorem demePerm_cdf (hinj : Function.Injective dec')
    (h : ∀ e f i, ∑ j, S e i j * f (dec j)
      = QCs (linRate lam (ts e) (mig e)) linRes f (dec i))
    (h' : ∀ e f i, ∑ j, S' e i j * f (dec' j)
      = QCs (linRate lam (permTs σ (ts e)) (permMig σ (mig e))) linRes f (dec' i))
    (p : ι → ι') (hp : ∀ i, dec' (p i) = permC σ (dec i))
    (exitVec : ι' → K) (α : ι → K) (fs : List (ℕ × K)) :
    cdfVal L S' (Matrix.vecMul α (projMat p)) exitVec fs
      = cdfVal L S α (fun i => exitVec (p i)) fs :=
  (lumped_cdf L (fun e => QCs (linRate lam (ts e) (mig e)) linRes)
    (fun e => QCs (linRate lam (permTs σ (ts e)) (permMig σ (mig e))) linRes) (permC σ)
    (fun e => lineage_equivariant σ lam (ts e) (mig e)) dec dec' hinj S S' h h' p hp exitVec α
    fs).symm

/-- **C08 (moments, rewards given on count vectors).**  If the reward `h' a` of the relabelled
listing reads the relabelled count vector as `h a` reads the original one, the moments agree. -/
theorem demePerm_moments_rewards (hinj : Function.Injective dec')
    (h : ∀ e f i, ∑ j, S e i j * f (dec j)
      = QCs (linRate lam (ts e) (mig e)) linRes f (dec i))
    (h' : ∀ e f i, ∑ j, S' e i j * f (dec' j)
      = QCs (linRate lam (permTs σ (ts e)) (permMig σ (mig e))) linRes f (dec' i))
    (p : ι → ι') (hp : ∀ i, dec' (p i) = permC σ (dec i))
    (rw rw' : Fin k → (Fin D → ℕ) → K) (hrw : ∀ a c, rw' a (permC σ c) = rw a c)
    (α : ι → K) (fs : List (ℕ × K)) :
    accumVal L S' (fun a j => rw' a (dec' j)) (Matrix.vecMul α (projMat p)) fs
      = accumVal L S (fun a i => rw a (dec i)) α fs := by
  rw [demePerm_moments L σ lam ts mig dec dec' S S' hinj h h' p hp _ α fs]
  simp only [hp, hrw]

/-- **C08 (moments of the deme rewards).**  The `a`-th reward is the fraction of lineages in the
deme NAMED `q a` -- axis position `q a` in the original listing, `σ (q a)` in the relabelled one.
All moments and cross-moments agree. -/
theorem demePerm_moments_demeFrac (hinj : Function.Injective dec')
    (h : ∀ e f i, ∑ j, S e i j * f (dec j)
      = QCs (linRate lam (ts e) (mig e)) linRes f (dec i))
    (h' : ∀ e f i, ∑ j, S' e i j * f (dec' j)
      = QCs (linRate lam (permTs σ (ts e)) (permMig σ (mig e))) linRes f (dec' i))
    (p : ι → ι') (hp : ∀ i, dec' (p i) = permC σ (dec i))
    (q : Fin k → Fin D) (α : ι → K) (fs : List (ℕ × K)) :
    accumVal L S' (fun a j => demeFrac (σ (q a)) (dec' j)) (Matrix.vecMul α (projMat p)) fs
      = accumVal L S (fun a i => demeFrac (q a) (dec i)) α fs :=
  demePerm_moments_rewards L σ lam ts mig dec dec' S S' hinj h h' p hp
    (fun a => demeFrac (q a)) (fun a => demeFrac (σ (q a))) (fun a c => demeFrac_perm σ (q a) c)
    α fs

/-- **C08 (moments of the total rewards).**  Rewards which depend on the state only through the
total number of lineages (tree height: `if 1 < n then 1 else 0`; total branch length:
`if 1 < n then n else 0`; `LineageReward`) are blind to the listing order. -/
theorem demePerm_moments_total (hinj : Function.Injective dec')
    (h : ∀ e f i, ∑ j, S e i j * f (dec j)
      = QCs (linRate lam (ts e) (mig e)) linRes f (dec i))
    (h' : ∀ e f i, ∑ j, S' e i j * f (dec' j)
      = QCs (linRate lam (permTs σ (ts e)) (permMig σ (mig e))) linRes f (dec' i))
    (p : ι → ι') (hp : ∀ i, dec' (p i) = permC σ (dec i))
    (ht : Fin k → ℕ → K) (α : ι → K) (fs : List (ℕ × K)) :
    accumVal L S' (fun a j => ht a (∑ d, dec' j d)) (Matrix.vecMul α (projMat p)) fs
      = accumVal L S (fun a i => ht a (∑ d, dec i d)) α fs :=
  demePerm_moments_rewards L σ lam ts mig dec dec' S S' hinj h h' p hp
    (fun a c => ht a (∑ d, c d)) (fun a c => ht a (∑ d, c d))
    (fun a c => by rw [sum_permC]) α fs

/-- **C08 (mixed moments).**  Each reward is either the fraction in a NAMED deme, possibly times a
function of the total (`DemeReward * TreeHeightReward`), or a function of the total alone. -/
theorem demePerm_moments_mixed (hinj : Function.Injective dec')
    (h : ∀ e f i, ∑ j, S e i j * f (dec j)
      = QCs (linRate lam (ts e) (mig e)) linRes f (dec i))
    (h' : ∀ e f i, ∑ j, S' e i j * f (dec' j)
      = QCs (linRate lam (permTs σ (ts e)) (permMig σ (mig e))) linRes f (dec' i))
    (p : ι → ι') (hp : ∀ i, dec' (p i) = permC σ (dec i))
    (q : Fin k → Option (Fin D)) (ht : Fin k → ℕ → K) (α : ι → K) (fs : List (ℕ × K)) :
    accumVal L S'
        (fun a j => ((q a).map σ).elim 1 (fun d => demeFrac d (dec' j)) * ht a (∑ d, dec' j d))
        (Matrix.vecMul α (projMat p)) fs
      = accumVal L S
        (fun a i => (q a).elim 1 (fun d => demeFrac d (dec i)) * ht a (∑ d, dec i d)) α fs :=
  demePerm_moments_rewards L σ lam ts mig dec dec' S S' hinj h h' p hp
    (fun a c => (q a).elim 1 (fun d => demeFrac d c) * ht a (∑ d, c d))
    (fun a c => ((q a).map σ).elim 1 (fun d => demeFrac d c) * ht a (∑ d, c d))
    (fun a c => by
      rw [sum_permC]
      cases q a with
      | none => rfl
      | some d => simp only [Option.map_some, Option.elim_some, demeFrac_perm]) α fs

/-- **C08 (tree-height cdf).**  The exit vector depends on the state only through the total. -/
theorem demePerm_cdf_total (hinj : Function.Injective dec')
    (h : ∀ e f i, ∑ j, S e i j * f (dec j)
      = QCs (linRate lam (ts e) (mig e)) linRes f (dec i))
    (h' : ∀ e f i, ∑ j, S' e i j * f (dec' j)
      = QCs (linRate lam (permTs σ (ts e)) (permMig σ (mig e))) linRes f (dec' i))
    (p : ι → ι') (hp : ∀ i, dec' (p i) = permC σ (dec i))
    (ht : ℕ → K) (α : ι → K) (fs : List (ℕ × K)) :
    cdfVal L S' (Matrix.vecMul α (projMat p)) (fun j => ht (∑ d, dec' j d)) fs
      = cdfVal L S α (fun i => ht (∑ d, dec i d)) fs := by
  rw [demePerm_cdf L σ lam ts mig dec dec' S S' hinj h h' p hp _ α fs]
  simp only [hp, sum_permC]

end Moments

section MomentsBlock
variable {K : Type} [Field K] [LinearOrder K] [IsStrictOrderedRing K]
variable {ι : Type} [Fintype ι] [DecidableEq ι] {ι' : Type} [Fintype ι'] [DecidableEq ι']
variable {k : ℕ}

open Marginal

variable (L : ExpLaw K) {D n : ℕ} [NeZero n] (σ : Equiv.Perm (Fin D))
variable (lam : ℕ → ℕ → K) (ts : ℕ → Fin D → K) (mig : ℕ → Fin D → Fin D → K)
variable (dec : ι → (Fin D × Fin n → ℕ)) (dec' : ι' → (Fin D × Fin n → ℕ))
variable (S : ℕ → Matrix ι ι K) (S' : ℕ → Matrix ι' ι' K)

/-- **C08 (moments, block counting / SFS).** -/
theorem demePerm_moments_block (hinj : Function.Injective dec')
    (h : ∀ e f i, ∑ j, S e i j * f (dec j)
      = QCs (blkRate lam (ts e) (mig e)) blkRes f (dec i))
    (h' : ∀ e f i, ∑ j, S' e i j * f (dec' j)
      = QCs (blkRate lam (permTs σ (ts e)) (permMig σ (mig e))) blkRes f (dec' i))
    (p : ι → ι') (hp : ∀ i, dec' (p i) = permB σ (dec i))
    (R' : Fin k → ι' → K) (α : ι → K) (fs : List (ℕ × K)) :
    accumVal L S' R' (Matrix.vecMul α (projMat p)) fs
      = accumVal L S (fun a i => R' a (p i)) α fs :=
  (lumped_accum L (fun e => QCs (blkRate lam (ts e) (mig e)) blkRes)
    (fun e => QCs (blkRate lam (permTs σ (ts e)) (permMig σ (mig e))) blkRes) (permB σ)
    (fun e => block_equivariant σ lam (ts e) (mig e)) dec dec' hinj S S' h h' p hp R' α fs).symm

/-- the number of blocks of size `i+1`, summed over demes (the SFS reward), is blind to the
listing order -/
theorem blockCount_permB (c : Fin D × Fin n → ℕ) (i : Fin n) :
    ∑ d, permB σ c (d, i) = ∑ d, c (d, i) :=
  (Fintype.sum_equiv σ _ _ fun d => by simp only [permB_apply]).symm

/-- **C08 (SFS moments).**  Rewards which read the block-count state only through the per-size
block totals (every SFS reward, tree height, total branch length). -/
theorem demePerm_moments_sfs (hinj : Function.Injective dec')
    (h : ∀ e f i, ∑ j, S e i j * f (dec j)
      = QCs (blkRate lam (ts e) (mig e)) blkRes f (dec i))
    (h' : ∀ e f i, ∑ j, S' e i j * f (dec' j)
      = QCs (blkRate lam (permTs σ (ts e)) (permMig σ (mig e))) blkRes f (dec' i))
    (p : ι → ι') (hp : ∀ i, dec' (p i) = permB σ (dec i))
    (hb : Fin k → (Fin n → ℕ) → K) (α : ι → K) (fs : List (ℕ × K)) :
    accumVal L S' (fun a j => hb a fun i => ∑ d, dec' j (d, i)) (Matrix.vecMul α (projMat p)) fs
      = accumVal L S (fun a x => hb a fun i => ∑ d, dec x (d, i)) α fs := by
  rw [demePerm_moments_block L σ lam ts mig dec dec' S S' hinj h h' p hp _ α fs]
  simp only [hp, blockCount_permB]

end MomentsBlock

/-! ## 4. The historic defect: looking a deme up in the SORTED name list -/

section Defect

/-- the sample configuration lists the populations as `{'b': 3, 'a': 1}`: axis 0 is `'b'` -/
def sampleOrder : List Char := ['b', 'a']

/-- the sorted list of population names -/
def sortedNames : List Char := sampleOrder.insertionSort (· ≤ ·)

theorem sortedNames_eq : sortedNames = ['a', 'b'] := by decide

/-- the correct axis position of a population: its position in the sample configuration -/
def axisOf (name : Char) : ℕ := sampleOrder.idxOf name

/-- the historic defect: the position of the name in the sorted name list -/
def sortedIdxOf (name : Char) : ℕ := sortedNames.idxOf name

/-- 3 lineages in `'b'` (axis 0), 1 lineage in `'a'` (axis 1) -/
def sDefect : State := encLC (D := 2) ![3, 1]

theorem axisOf_b : axisOf 'b' = 0 := by decide
theorem sortedIdxOf_b : sortedIdxOf 'b' = 1 := by decide

theorem defect_demeTotal :
    sDefect.demeTotal (axisOf 'b') = 3 ∧ sDefect.demeTotal (sortedIdxOf 'b') = 1 := by
  decide

/-- **The historic defect.**  With the state axis in sample-configuration order, looking `'b'` up
in the sorted name list yields the reward of population `'a'`. -/
theorem defect_counterexample :
    Reward.eval 4 sDefect (.deme (axisOf 'b')) = 3 / 4 ∧
    Reward.eval 4 sDefect (.deme (sortedIdxOf 'b')) = 1 / 4 ∧
    Reward.eval 4 sDefect (.deme (sortedIdxOf 'b')) = Reward.eval 4 sDefect (.deme (axisOf 'a')) ∧
    Reward.eval 4 sDefect (.deme (sortedIdxOf 'b')) ≠ Reward.eval 4 sDefect (.deme (axisOf 'b')) := by
  have h0 : Reward.eval 4 sDefect (.deme 0) = 3 / 4 := by
    have := eval_deme_enc (D := 2) 4 0 ![3, 1]
    simpa [sDefect, demeFrac, Fin.sum_univ_two] using this
  have h1 : Reward.eval 4 sDefect (.deme 1) = 1 / 4 := by
    have := eval_deme_enc (D := 2) 4 1 ![3, 1]
    simpa [sDefect, demeFrac, Fin.sum_univ_two] using this
  have ha : axisOf 'a' = 1 := by decide
  rw [axisOf_b, sortedIdxOf_b, ha, h0, h1]
  norm_num

end Defect

/-! ## 5. End to end: the matrices which the code builds for the two listings -/

section Keys
variable {D : ℕ} (σ : Equiv.Perm (Fin D))

/-- every merger outcome in one deme removes `k-1` lineages, for a `k ≥ 2` allowed by the model -/
theorem coalesceBlocks_single_k (m : Model) (b : ℕ) (q : List ℕ × ℚ)
    (hq : q ∈ coalesceBlocks m [b]) :
    ∃ k, 2 ≤ k ∧ k ≤ b ∧ (m = .kingman → k = 2) ∧ q.1 = [b - (k - 1)] := by
  by_cases hm : m = .kingman
  · subst hm
    rw [coalesceBlocks_kingman_single] at hq
    split_ifs at hq with hb
    · simp only [List.mem_singleton] at hq
      subst hq
      exact ⟨2, le_rfl, hb, fun _ => rfl, rfl⟩
    · simp at hq
  · rw [coalesceBlocks_mm_single m hm, List.mem_map] at hq
    obtain ⟨j, hj, rfl⟩ := hq
    rw [List.mem_range] at hj
    exact ⟨j + 2, by omega, by omega, fun h => absurd h hm, rfl⟩

/-- the migration edges out of a count state, whatever their rates -/
theorem keys_migrate_cases (ts : Fin D → ℚ) (mig : Fin D → Fin D → ℚ) (r : ℚ) (c : Fin D → ℕ)
    (t : State) (ht : t ∈ keys (migrate (mkEpoch ts mig r) (encLC c))) :
    ∃ d d', d ≠ d' ∧ 0 < c d ∧ t = encLC (c - e1 d + e1 d') := by
  rw [migrate_enc, mem_keys_addAll] at ht
  rcases ht with ht | ht
  · simp at ht
  · unfold migList keys at ht
    rw [List.map_map, List.mem_map] at ht
    obtain ⟨p, hp, rfl⟩ := ht
    rw [List.mem_filter] at hp
    have h2 := hp.2
    simp only [Bool.and_eq_true, decide_eq_true_eq] at h2
    exact ⟨p.1, p.2, h2.1, h2.2, rfl⟩

/-- the merger edges out of a count state, whatever their rates -/
theorem keys_coalesce1_cases (m : Model) (ts : Fin D → ℚ) (mig : Fin D → Fin D → ℚ) (r : ℚ)
    (c : Fin D → ℕ) (t : State) (ht : t ∈ keys (coalesce1 m (mkEpoch ts mig r) (encLC c))) :
    ∃ d k, 2 ≤ k ∧ k ≤ c d ∧ (m = .kingman → k = 2) ∧ t = encLC (c - (k - 1) • e1 d) := by
  rw [coalesce1_enc, mem_keys_addAll] at ht
  rcases ht with ht | ht
  · simp at ht
  · unfold coalList keys at ht
    rw [List.mem_map] at ht
    obtain ⟨p, hp, rfl⟩ := ht
    rw [List.mem_flatMap] at hp
    obtain ⟨d, _, hp⟩ := hp
    rw [List.mem_map] at hp
    obtain ⟨q, hq, rfl⟩ := hp
    obtain ⟨k, h2, hk, hm, hq1⟩ := coalesceBlocks_single_k m (c d) q hq
    refine ⟨d, k, h2, hk, hm, ?_⟩
    simp only [hq1]
    rw [coalTarget_enc, update_eq_sub]

/-- **Equivariance of the edge sets of the search.**  Every target which `transit` lists at the
count state `c` is a count state `c'`, and `transit` for the relabelled listing (any rates) lists
the relabelled target at the relabelled state. -/
theorem keys_transit_perm (m : Model) (ts ts' : Fin D → ℚ) (mig mig' : Fin D → Fin D → ℚ)
    (r r' : ℚ) (c : Fin D → ℕ) (t : State)
    (ht : t ∈ keys (transit m (mkEpoch ts mig r) (encLC c))) :
    ∃ c' : Fin D → ℕ, t = encLC c' ∧
      encLC (permC σ c') ∈ keys (transit m (mkEpoch ts' mig' r') (encLC (permC σ c))) := by
  have hmigr : t ∈ keys (migrate (mkEpoch ts mig r) (encLC c)) →
      ∃ c' : Fin D → ℕ, t = encLC c' ∧
        encLC (permC σ c') ∈ keys (transit m (mkEpoch ts' mig' r') (encLC (permC σ c))) := by
    intro h
    obtain ⟨d, d', hdd, hpos, rfl⟩ := keys_migrate_cases ts mig r c t h
    refine ⟨_, rfl, ?_⟩
    have := Assembly.mem_keys_transit_mig m ts' mig' r' (permC σ c) (σ d) (σ d')
      (σ.injective.ne hdd) (by rwa [permC_apply])
    rwa [permC_add, permC_sub, permC_e1, permC_e1]
  by_cases hc : ∑ d, c d = 1
  · rw [transit_enc_absorbing m ts mig r c hc] at ht
    exact hmigr ht
  · rw [transit_enc m ts mig r c hc, keys_append, List.mem_append] at ht
    rcases ht with ht | ht
    · exact hmigr ht
    · obtain ⟨d, k, h2, hk, hm, rfl⟩ := keys_coalesce1_cases m ts mig r c t ht
      refine ⟨_, rfl, ?_⟩
      have := Assembly.mem_keys_transit_coal m ts' mig' r' (permC σ c) (σ d) k h2
        (by rwa [permC_apply]) hm
      rwa [permC_sub, permC_smul, permC_e1]

end Keys

section EndToEnd
variable {D : ℕ} {K : Type} [Field K] [LinearOrder K] [IsStrictOrderedRing K]
variable (σ : Equiv.Perm (Fin D))

open Marginal Assembly

/-- read the count vector off a lineage-counting state -/
def decLC (D : ℕ) (s : State) : Fin D → ℕ := fun d => get3 s.lin 0 d.val 0

theorem decLC_encLC (c : Fin D → ℕ) : decLC D (encLC c) = c := by
  funext d
  unfold decLC
  simp only [encLC]
  exact get3_enc c d

theorem projMat_map {ι ι' : Type} [Fintype ι] [DecidableEq ι] [Fintype ι'] [DecidableEq ι']
    (p : ι → ι') :
    (projMat p : Matrix ι ι' ℚ).map (Rat.castHom K) = (projMat p : Matrix ι ι' K) := by
  ext i j
  simp only [projMat, Matrix.map_apply, Matrix.of_apply]
  split_ifs <;> simp

theorem map_intertwine {ι ι' : Type} [Fintype ι] [DecidableEq ι] [Fintype ι'] [DecidableEq ι']
    (A : Matrix ι ι ℚ) (B : Matrix ι' ι' ℚ) (p : ι → ι')
    (h : A * (projMat p : Matrix ι ι' ℚ) = projMat p * B) :
    A.map (fun q : ℚ => (q : K)) * (projMat p : Matrix ι ι' K)
      = projMat p * B.map (fun q : ℚ => (q : K)) := by
  have h' := congrArg (fun M => M.map (Rat.castHom K)) h
  simp only [Matrix.map_mul, projMat_map] at h'
  exact h'

variable {m : Model} {cinit cinit' : Fin D → ℕ} {ts : ℕ → Fin D → ℚ}
  {mig : ℕ → Fin D → Fin D → ℚ} {r r' : ℕ → ℚ} {fuel fuel' : ℕ → ℕ} {G G' : ℕ → Graph}

/-- **The two searches visit the same states up to relabelling.**  (The initial state of the
search of the relabelled listing may be any state with the same number of lineages, e.g. the
code's `_get_initial`, which puts all lineages on axis position 0 in both listings.) -/
theorem visited_perm {ts' : ℕ → Fin D → ℚ} {mig' : ℕ → Fin D → Fin D → ℚ}
    (hG : ∀ e, bfs (transit m (mkEpoch (ts e) (mig e) (r e))) (encLC cinit) (fuel e) = some (G e))
    (hG' : ∀ e, bfs (transit m (mkEpoch (ts' e) (mig' e) (r' e))) (encLC cinit') (fuel' e)
      = some (G' e))
    (hsum : ∑ d, cinit' d = ∑ d, cinit d)
    (c : Fin D → ℕ) (hc : encLC c ∈ (G 0).visited) : encLC (permC σ c) ∈ (G' 0).visited := by
  obtain ⟨_, _, _, _, hreach⟩ := bfs_spec _ _ _ _ (hG 0)
  obtain ⟨_, _, hcl', _, _⟩ := bfs_spec _ _ _ _ (hG' 0)
  have key : ∀ s, Reach (transit m (mkEpoch (ts 0) (mig 0) (r 0))) (encLC cinit) s →
      ∃ c : Fin D → ℕ, s = encLC c ∧ encLC (permC σ c) ∈ (G' 0).visited := by
    intro s hs
    unfold Reach at hs
    induction hs with
    | refl => exact ⟨cinit, rfl, lineage_all_configs_visited hG' _ (by rw [sum_permC, hsum])⟩
    | tail _ hbc ih =>
      obtain ⟨c₁, rfl, hmem⟩ := ih
      obtain ⟨c₂, rfl, hk⟩ := keys_transit_perm σ m _ (ts' 0) _ (mig' 0) _ (r' 0) c₁ _ hbc
      refine ⟨c₂, rfl, ?_⟩
      unfold keys at hk
      rw [List.mem_map] at hk
      obtain ⟨q, hq, hq1⟩ := hk
      rw [← hq1]
      exact hcl' _ hmem q hq
  obtain ⟨c', h1, h2⟩ := key _ (hreach _ hc)
  rw [encLC_injective h1]
  exact h2

/-- **The state map between the two runs of the code.**  There is an injective map `p` from the
states found for the original listing to the states found for the relabelled listing which sends
every state to its relabelling, and it intertwines the rate matrices (`_graph_to_matrix`) of every
epoch. -/
theorem perm_state_map
    (hG : ∀ e, bfs (transit m (mkEpoch (ts e) (mig e) (r e))) (encLC cinit) (fuel e) = some (G e))
    (hG' : ∀ e, bfs (transit m (mkEpoch (permTs σ (ts e)) (permMig σ (mig e)) (r' e)))
      (encLC cinit') (fuel' e) = some (G' e))
    (hsum : ∑ d, cinit' d = ∑ d, cinit d) :
    ∃ p : Fin (G 0).visited.length → Fin (G' 0).visited.length, Function.Injective p ∧
      (∀ i (c : Fin D → ℕ), (G 0).visited[i] = encLC c → (G' 0).visited[p i] = encLC (permC σ c)) ∧
      ∀ e, (codeMat G e).map (fun q : ℚ => (q : K)) * (projMat p : Matrix _ _ K)
        = projMat p * (codeMat G' e).map (fun q : ℚ => (q : K)) := by
  classical
  -- the states
  have hst : ∀ i : Fin (G 0).visited.length,
      (G 0).visited[i] = encLC (decLC D (G 0).visited[i]) := by
    intro i
    obtain ⟨c, h1, _⟩ := lineage_hrow hG 0 i
    rw [h1, decLC_encLC]
  have hst' : ∀ j : Fin (G' 0).visited.length,
      (G' 0).visited[j] = encLC (decLC D (G' 0).visited[j]) := by
    intro j
    obtain ⟨c, h1, _⟩ := lineage_hrow hG' 0 j
    rw [h1, decLC_encLC]
  -- the state map
  have hex : ∀ i : Fin (G 0).visited.length, ∃ j : Fin (G' 0).visited.length,
      (G' 0).visited[j] = encLC (permC σ (decLC D (G 0).visited[i])) := fun i =>
    exists_idx (visited_perm σ hG hG' hsum _ (by rw [← hst i]; exact List.getElem_mem i.isLt))
  choose p hp using hex
  have hpdec : ∀ i, decLC D (G' 0).visited[p i] = permC σ (decLC D (G 0).visited[i]) := fun i => by
    rw [hp i, decLC_encLC]
  have hinj' : Function.Injective fun j : Fin (G' 0).visited.length =>
      decLC D (G' 0).visited[j] := by
    intro j j' h
    apply idx_inj (lineage_nodup hG')
    rw [hst' j, hst' j']
    exact congrArg encLC h
  have hpinj : Function.Injective p := by
    intro i i' h
    apply idx_inj (lineage_nodup hG)
    rw [hst i, hst i']
    have h3 : decLC D (G' 0).visited[p i] = decLC D (G' 0).visited[p i'] :=
      congrArg (fun j : Fin (G' 0).visited.length => decLC D (G' 0).visited[j]) h
    exact congrArg encLC (permC_injective σ ((hpdec i).symm.trans (h3.trans (hpdec i'))))
  -- the matrices represent the count generators
  have hrep : ∀ e (f : (Fin D → ℕ) → ℚ) (i : Fin (G 0).visited.length),
      ∑ j, codeMat G e i j * f (decLC D (G 0).visited[j])
        = QCs (linRate (lam m) (ts e) (mig e)) linRes f (decLC D (G 0).visited[i]) := by
    intro e f i
    obtain ⟨c, h1, h3⟩ := lineage_hrow hG e i
    have := h3 fun s => f (decLC D s)
    simp only [decLC_encLC] at this
    rw [this, h1, decLC_encLC]
  have hrep' : ∀ e (f : (Fin D → ℕ) → ℚ) (j : Fin (G' 0).visited.length),
      ∑ j', codeMat G' e j j' * f (decLC D (G' 0).visited[j'])
        = QCs (linRate (lam m) (permTs σ (ts e)) (permMig σ (mig e))) linRes f
            (decLC D (G' 0).visited[j]) := by
    intro e f j
    obtain ⟨c, h1, h3⟩ := lineage_hrow hG' e j
    have := h3 fun s => f (decLC D s)
    simp only [decLC_encLC] at this
    rw [this, h1, decLC_encLC]
  refine ⟨p, hpinj, fun i c hc => ?_, fun e => ?_⟩
  · rw [hp i, hc, decLC_encLC]
  · exact map_intertwine _ _ p
      (demePerm_intertwine σ (lam m) ts mig (fun i => decLC D (G 0).visited[i])
        (fun j => decLC D (G' 0).visited[j]) (codeMat G) (codeMat G') hinj' e (hrep e) (hrep' e) p
        hpdec)

/-- the initial vector `alpha` of the relabelled run (sample configuration `permC σ c0`) is the
initial vector of the original run (sample configuration `c0`) transported along the state map -/
theorem alpha_perm
    (hG : ∀ e, bfs (transit m (mkEpoch (ts e) (mig e) (r e))) (encLC cinit) (fuel e) = some (G e))
    {ts' : ℕ → Fin D → ℚ} {mig' : ℕ → Fin D → Fin D → ℚ}
    (hG' : ∀ e, bfs (transit m (mkEpoch (ts' e) (mig' e) (r' e))) (encLC cinit') (fuel' e)
      = some (G' e))
    (hsum : ∑ d, cinit' d = ∑ d, cinit d)
    (p : Fin (G 0).visited.length → Fin (G' 0).visited.length) (hpinj : Function.Injective p)
    (hp : ∀ i (c : Fin D → ℕ), (G 0).visited[i] = encLC c →
      (G' 0).visited[p i] = encLC (permC σ c))
    (c0 : Fin D → ℕ) (hc0 : ∑ d, c0 d = ∑ d, cinit d) :
    (fun j : Fin (G' 0).visited.length =>
        (((alphaVec (G' 0).visited (List.ofFn (permC σ c0)) 1 0).getD j.val 0 : ℚ) : K))
      = Matrix.vecMul (fun i : Fin (G 0).visited.length =>
          (((alphaVec (G 0).visited (List.ofFn c0) 1 0).getD i.val 0 : ℚ) : K)) (projMat p) := by
  have hmem0 : encLC c0 ∈ (G 0).visited := lineage_all_configs_visited hG c0 hc0
  have hmem0' : encLC (permC σ c0) ∈ (G' 0).visited :=
    lineage_all_configs_visited hG' _ (by rw [sum_permC, hc0, hsum])
  obtain ⟨i₀, hi₀⟩ := exists_idx hmem0
  have hα : (fun i : Fin (G 0).visited.length =>
        (((alphaVec (G 0).visited (List.ofFn c0) 1 0).getD i.val 0 : ℚ) : K))
      = fun i => if i = i₀ then 1 else 0 := by
    funext i
    rw [lineage_alpha hG c0 hmem0 i]
    by_cases h : i = i₀
    · subst h; simp [hi₀]
    · have : (G 0).visited[i] ≠ encLC c0 := fun h' =>
        h (idx_inj (lineage_nodup hG) (h'.trans hi₀.symm))
      rw [if_neg this, if_neg h, Rat.cast_zero]
  have hp₀ : (G' 0).visited[p i₀] = encLC (permC σ c0) := hp i₀ c0 hi₀
  rw [hα, vecMul_projMat_point p hpinj i₀]
  funext j
  rw [lineage_alpha hG' (permC σ c0) hmem0' j]
  by_cases h : j = p i₀
  · subst h; simp [hp₀]
  · have : (G' 0).visited[j] ≠ encLC (permC σ c0) := fun h' =>
      h (idx_inj (lineage_nodup hG') (h'.trans hp₀.symm))
    rw [if_neg this, if_neg h, Rat.cast_zero]

/-- **C08, assembled (lineage counting, moments).**  Run the code on a listing of the populations
(`ts`, `mig`, sample configuration `c0`, rewards `rs`) and on the relabelled listing
(`permTs σ ts`, `permMig σ mig`, `permC σ c0`, rewards `rs'` which read the relabelled states as
`rs` reads the original ones -- e.g. `DemeReward` of the same NAMED population, tree height,
total branch length).  The (cross-)moments computed from the rate matrices `_graph_to_matrix`
builds, the reward vectors and the initial vectors `alpha` are equal: all orders `k`, all three
coalescent models, any number of demes and epochs, any `ExpLaw`. -/
theorem C08_moments_perm
    (hG : ∀ e, bfs (transit m (mkEpoch (ts e) (mig e) (r e))) (encLC cinit) (fuel e) = some (G e))
    (hG' : ∀ e, bfs (transit m (mkEpoch (permTs σ (ts e)) (permMig σ (mig e)) (r' e)))
      (encLC cinit') (fuel' e) = some (G' e))
    (hsum : ∑ d, cinit' d = ∑ d, cinit d)
    (L : ExpLaw K) (n : ℕ) {k : ℕ} (rs rs' : Fin k → Reward)
    (hrs : ∀ a (c : Fin D → ℕ),
      Reward.eval n (encLC (permC σ c)) (rs' a) = Reward.eval n (encLC c) (rs a))
    (c0 : Fin D → ℕ) (hc0 : ∑ d, c0 d = ∑ d, cinit d) (fs : List (ℕ × K)) :
    accumVal L (fun e => (codeMat G' e).map (fun q : ℚ => (q : K)))
        (fun a j => ((Reward.eval n (G' 0).visited[j] (rs' a) : ℚ) : K))
        (fun j => (((alphaVec (G' 0).visited (List.ofFn (permC σ c0)) 1 0).getD j.val 0 : ℚ) : K))
        fs
      = accumVal L (fun e => (codeMat G e).map (fun q : ℚ => (q : K)))
        (fun a i => ((Reward.eval n (G 0).visited[i] (rs a) : ℚ) : K))
        (fun i => (((alphaVec (G 0).visited (List.ofFn c0) 1 0).getD i.val 0 : ℚ) : K)) fs := by
  obtain ⟨p, hpinj, hp, hS⟩ := perm_state_map (K := K) σ hG hG' hsum
  have hR : (fun (a : Fin k) (i : Fin (G 0).visited.length) =>
        ((Reward.eval n (G 0).visited[i] (rs a) : ℚ) : K))
      = fun a i => (fun (a : Fin k) (j : Fin (G' 0).visited.length) =>
          ((Reward.eval n (G' 0).visited[j] (rs' a) : ℚ) : K)) a (p i) := by
    funext a i
    show _ = ((Reward.eval n (G' 0).visited[p i] (rs' a) : ℚ) : K)
    obtain ⟨c, h1, _⟩ := lineage_hrow hG 0 i
    rw [hp i c h1, hrs, ← h1]
  rw [alpha_perm σ hG hG' hsum p hpinj hp c0 hc0, hR]
  exact (lump_accum L _ _ _ _ _ _ (projMat p) hS (fun a => projMat_reward p _)
    (projMat_rowsum p) rfl fs).symm

/-- **C08, assembled (lineage counting, cdf of the tree height).** -/
theorem C08_cdf_perm
    (hG : ∀ e, bfs (transit m (mkEpoch (ts e) (mig e) (r e))) (encLC cinit) (fuel e) = some (G e))
    (hG' : ∀ e, bfs (transit m (mkEpoch (permTs σ (ts e)) (permMig σ (mig e)) (r' e)))
      (encLC cinit') (fuel' e) = some (G' e))
    (hsum : ∑ d, cinit' d = ∑ d, cinit d)
    (L : ExpLaw K) (n : ℕ) (c0 : Fin D → ℕ) (hc0 : ∑ d, c0 d = ∑ d, cinit d)
    (fs : List (ℕ × K)) :
    cdfVal L (fun e => (codeMat G' e).map (fun q : ℚ => (q : K)))
        (fun j => (((alphaVec (G' 0).visited (List.ofFn (permC σ c0)) 1 0).getD j.val 0 : ℚ) : K))
        (fun j => ((Reward.eval n (G' 0).visited[j] .treeHeight : ℚ) : K)) fs
      = cdfVal L (fun e => (codeMat G e).map (fun q : ℚ => (q : K)))
        (fun i => (((alphaVec (G 0).visited (List.ofFn c0) 1 0).getD i.val 0 : ℚ) : K))
        (fun i => ((Reward.eval n (G 0).visited[i] .treeHeight : ℚ) : K)) fs := by
  obtain ⟨p, hpinj, hp, hS⟩ := perm_state_map (K := K) σ hG hG' hsum
  have hE : (fun i : Fin (G 0).visited.length =>
        ((Reward.eval n (G 0).visited[i] .treeHeight : ℚ) : K))
      = Matrix.mulVec (projMat p : Matrix _ _ K) (fun j : Fin (G' 0).visited.length =>
          ((Reward.eval n (G' 0).visited[j] .treeHeight : ℚ) : K)) := by
    funext i
    rw [projMat_mulVec]
    obtain ⟨c, h1, _⟩ := lineage_hrow hG 0 i
    rw [hp i c h1, eval_treeHeight_perm, ← h1]
  rw [alpha_perm σ hG hG' hsum p hpinj hp c0 hc0, hE]
  exact (lump_cdf L _ _ _ _ _ (projMat p) hS rfl fs).symm

/-- **C08, assembled, for the reward classes of the code.**  Every `DemeReward` is attached to the
population NAME: in the relabelled run it points to the position `σ q` of the same population.
Tree height, total branch length, `LineageReward`, products and sums are carried along. -/
theorem C08_moments_named
    (hG : ∀ e, bfs (transit m (mkEpoch (ts e) (mig e) (r e))) (encLC cinit) (fuel e) = some (G e))
    (hG' : ∀ e, bfs (transit m (mkEpoch (permTs σ (ts e)) (permMig σ (mig e)) (r' e)))
      (encLC cinit') (fuel' e) = some (G' e))
    (hsum : ∑ d, cinit' d = ∑ d, cinit d)
    (L : ExpLaw K) (n : ℕ) {k : ℕ} (rs rs' : Fin k → Reward)
    (hrs : ∀ a, RewardPerm σ (rs a) (rs' a))
    (c0 : Fin D → ℕ) (hc0 : ∑ d, c0 d = ∑ d, cinit d) (fs : List (ℕ × K)) :
    accumVal L (fun e => (codeMat G' e).map (fun q : ℚ => (q : K)))
        (fun a j => ((Reward.eval n (G' 0).visited[j] (rs' a) : ℚ) : K))
        (fun j => (((alphaVec (G' 0).visited (List.ofFn (permC σ c0)) 1 0).getD j.val 0 : ℚ) : K))
        fs
      = accumVal L (fun e => (codeMat G e).map (fun q : ℚ => (q : K)))
        (fun a i => ((Reward.eval n (G 0).visited[i] (rs a) : ℚ) : K))
        (fun i => (((alphaVec (G 0).visited (List.ofFn c0) 1 0).getD i.val 0 : ℚ) : K)) fs :=
  C08_moments_perm σ hG hG' hsum L n rs rs' (fun a c => (hrs a).eval_eq n c) c0 hc0 fs

/-- **C08: the mean (and every moment) of `DemeReward('name')` does not depend on the listing
order.**  `q a` is the position of the `a`-th named population in the original listing. -/
theorem C08_moments_deme
    (hG : ∀ e, bfs (transit m (mkEpoch (ts e) (mig e) (r e))) (encLC cinit) (fuel e) = some (G e))
    (hG' : ∀ e, bfs (transit m (mkEpoch (permTs σ (ts e)) (permMig σ (mig e)) (r' e)))
      (encLC cinit') (fuel' e) = some (G' e))
    (hsum : ∑ d, cinit' d = ∑ d, cinit d)
    (L : ExpLaw K) (n : ℕ) {k : ℕ} (q : Fin k → Fin D)
    (c0 : Fin D → ℕ) (hc0 : ∑ d, c0 d = ∑ d, cinit d) (fs : List (ℕ × K)) :
    accumVal L (fun e => (codeMat G' e).map (fun q : ℚ => (q : K)))
        (fun a j => ((Reward.eval n (G' 0).visited[j] (.deme (σ (q a)).val) : ℚ) : K))
        (fun j => (((alphaVec (G' 0).visited (List.ofFn (permC σ c0)) 1 0).getD j.val 0 : ℚ) : K))
        fs
      = accumVal L (fun e => (codeMat G e).map (fun q : ℚ => (q : K)))
        (fun a i => ((Reward.eval n (G 0).visited[i] (.deme (q a).val) : ℚ) : K))
        (fun i => (((alphaVec (G 0).visited (List.ofFn c0) 1 0).getD i.val 0 : ℚ) : K)) fs :=
  C08_moments_named σ hG hG' hsum L n _ _ (fun a => RewardPerm.deme (q a)) c0 hc0 fs

end EndToEnd

end DemePerm
end PG

#print axioms PG.DemePerm.lineage_equivariant
#print axioms PG.DemePerm.lineage_equivariant'
#print axioms PG.DemePerm.block_equivariant
#print axioms PG.DemePerm.block_equivariant'
#print axioms PG.DemePerm.relabelState_encLC
#print axioms PG.DemePerm.relabelState_encBC
#print axioms PG.DemePerm.transit_lineage_equivariant
#print axioms PG.DemePerm.transit_lineage_relabel
#print axioms PG.DemePerm.transit_block_equivariant
#print axioms PG.DemePerm.transit_block_relabel
#print axioms PG.DemePerm.demeFrac_perm
#print axioms PG.DemePerm.eval_deme_perm
#print axioms PG.DemePerm.RewardPerm.eval_eq
#print axioms PG.DemePerm.demePerm_intertwine
#print axioms PG.DemePerm.demePerm_moments
#print axioms PG.DemePerm.demePerm_cdf
#print axioms PG.DemePerm.demePerm_moments_rewards
#print axioms PG.DemePerm.demePerm_moments_demeFrac
#print axioms PG.DemePerm.demePerm_moments_total
#print axioms PG.DemePerm.demePerm_moments_mixed
#print axioms PG.DemePerm.demePerm_cdf_total
#print axioms PG.DemePerm.demePerm_moments_block
#print axioms PG.DemePerm.demePerm_moments_sfs
#print axioms PG.DemePerm.defect_demeTotal
#print axioms PG.DemePerm.defect_counterexample
#print axioms PG.DemePerm.keys_transit_perm
#print axioms PG.DemePerm.visited_perm
#print axioms PG.DemePerm.perm_state_map
#print axioms PG.DemePerm.alpha_perm
#print axioms PG.DemePerm.C08_moments_perm
#print axioms PG.DemePerm.C08_cdf_perm
#print axioms PG.DemePerm.C08_moments_named
#print axioms PG.DemePerm.C08_moments_deme
