/-
  PGProofs/ExpLaw.lean

  The external call `scipy.linalg.expm` is modelled as a parameter `E` obeying four algebraic laws
  (`ExpLaw`).  The laws are instantiated with Mathlib's real matrix exponential (`realExpLaw`), and
  a number of consequences are derived from the four laws only.
-/
import Mathlib.Analysis.Normed.Algebra.MatrixExponential
import Mathlib.Analysis.SpecialFunctions.Exponential

namespace PG

open Matrix

/-- The four laws of the matrix exponential that the verification relies on. -/
structure ExpLaw (K : Type) [Field K] [LinearOrder K] [IsStrictOrderedRing K] where
  /-- the "matrix exponential" -/
  E : ∀ {ι : Type} [Fintype ι] [DecidableEq ι], Matrix ι ι K → Matrix ι ι K
  E_zero : ∀ {ι : Type} [Fintype ι] [DecidableEq ι], E (0 : Matrix ι ι K) = 1
  E_add : ∀ {ι : Type} [Fintype ι] [DecidableEq ι] (A B : Matrix ι ι K),
      Commute A B → E (A + B) = E A * E B
  E_intertwine : ∀ {ι κ : Type} [Fintype ι] [DecidableEq ι] [Fintype κ] [DecidableEq κ]
      (A : Matrix ι ι K) (B : Matrix κ κ K) (P : Matrix ι κ K),
      A * P = P * B → E A * P = P * E B
  E_nonneg : ∀ {ι : Type} [Fintype ι] [DecidableEq ι] (A : Matrix ι ι K),
      (∀ i j, i ≠ j → 0 ≤ A i j) → ∀ i j, 0 ≤ E A i j

/-! ## The real matrix exponential satisfies the laws -/

section Real

open NormedSpace

variable {m n : Type*} [Fintype m] [DecidableEq m] [Fintype n] [DecidableEq n]

theorem pow_intertwine (A : Matrix m m ℝ) (B : Matrix n n ℝ) (P : Matrix m n ℝ)
    (h : A * P = P * B) (k : ℕ) : A ^ k * P = P * B ^ k := by
  induction k with
  | zero => simp
  | succ k ih =>
    rw [pow_succ, Matrix.mul_assoc, h, ← Matrix.mul_assoc, ih, Matrix.mul_assoc, ← pow_succ]

set_option backward.isDefEq.respectTransparency false in
theorem hasSum_exp_mat (A : Matrix m m ℝ) :
    HasSum (fun k : ℕ => ((k.factorial : ℝ)⁻¹) • A ^ k) (exp A) :=
  open scoped Matrix.Norms.Operator in NormedSpace.exp_series_hasSum_exp' (𝕂 := ℝ) A

/-- `A P = P B ⇒ exp A · P = P · exp B` for the real matrix exponential. -/
theorem real_exp_intertwine (A : Matrix m m ℝ) (B : Matrix n n ℝ) (P : Matrix m n ℝ)
    (h : A * P = P * B) : exp A * P = P * exp B := by
  have hA := hasSum_exp_mat A
  have hB := hasSum_exp_mat B
  let f : Matrix m m ℝ →+ Matrix m n ℝ :=
    { toFun := fun X => X * P, map_zero' := by simp
      map_add' := by intro X Y; simp [Matrix.add_mul] }
  have hf : Continuous f := by
    show Continuous fun X : Matrix m m ℝ => X * P
    exact Continuous.matrix_mul continuous_id continuous_const
  let g : Matrix n n ℝ →+ Matrix m n ℝ :=
    { toFun := fun X => P * X, map_zero' := by simp
      map_add' := by intro X Y; simp [Matrix.mul_add] }
  have hg : Continuous g := by
    show Continuous fun X : Matrix n n ℝ => P * X
    exact Continuous.matrix_mul continuous_const continuous_id
  have h1 := hA.map f hf
  have h2 := hB.map g hg
  have heq : (f ∘ fun k : ℕ => ((k.factorial : ℝ)⁻¹) • A ^ k)
      = (g ∘ fun k : ℕ => ((k.factorial : ℝ)⁻¹) • B ^ k) := by
    funext k
    show ((k.factorial : ℝ)⁻¹ • A ^ k) * P = P * ((k.factorial : ℝ)⁻¹ • B ^ k)
    rw [Matrix.smul_mul, Matrix.mul_smul, pow_intertwine A B P h k]
  rw [heq] at h1
  exact h1.unique h2

theorem pow_nonneg_entry (B : Matrix m m ℝ) (hB : ∀ i j, 0 ≤ B i j) (k : ℕ) :
    ∀ i j, 0 ≤ (B ^ k) i j := by
  induction k with
  | zero => intro i j; simp [Matrix.one_apply]; split_ifs <;> norm_num
  | succ k ih =>
    intro i j
    rw [pow_succ, Matrix.mul_apply]
    exact Finset.sum_nonneg fun l _ => mul_nonneg (ih i l) (hB l j)

/-- An entrywise non-negative real matrix has an entrywise non-negative exponential. -/
theorem real_exp_nonneg_of_nonneg (B : Matrix m m ℝ) (hB : ∀ i j, 0 ≤ B i j) :
    ∀ i j, 0 ≤ (exp B) i j := by
  intro i j
  have h := hasSum_exp_mat B
  let f : Matrix m m ℝ →+ ℝ :=
    { toFun := fun X => X i j, map_zero' := rfl, map_add' := fun _ _ => rfl }
  have hf : Continuous f := by
    show Continuous fun X : Matrix m m ℝ => X i j
    exact (continuous_apply j).comp (continuous_apply i)
  have h1 := h.map f hf
  refine HasSum.nonneg ?_ h1
  intro k
  show 0 ≤ (((k.factorial : ℝ)⁻¹) • B ^ k) i j
  rw [Matrix.smul_apply, smul_eq_mul]
  exact mul_nonneg (inv_nonneg.mpr (Nat.cast_nonneg _)) (pow_nonneg_entry B hB k i j)

/-- Metzler (off-diagonal non-negative) ⇒ the real exponential is entrywise non-negative. -/
theorem real_exp_nonneg_of_metzler (A : Matrix m m ℝ) (hA : ∀ i j, i ≠ j → 0 ≤ A i j) :
    ∀ i j, 0 ≤ (exp A) i j := by
  classical
  obtain ⟨c, hc⟩ : ∃ c : ℝ, ∀ i, 0 ≤ A i i + c := by
    refine ⟨Finset.univ.sum fun i => |A i i|, fun i => ?_⟩
    have : |A i i| ≤ Finset.univ.sum fun i => |A i i| :=
      Finset.single_le_sum (f := fun i => |A i i|) (fun _ _ => abs_nonneg _) (Finset.mem_univ i)
    have := neg_abs_le (A i i)
    linarith
  let B : Matrix m m ℝ := A + c • (1 : Matrix m m ℝ)
  have hB : ∀ i j, 0 ≤ B i j := by
    intro i j
    by_cases hij : i = j
    · subst hij; simp [B, Matrix.add_apply, Matrix.smul_apply]; exact hc i
    · simp [B, Matrix.add_apply, Matrix.smul_apply, Matrix.one_apply_ne hij]; exact hA i j hij
  have hcomm : Commute B ((-c) • (1 : Matrix m m ℝ)) := by
    apply Commute.smul_right; exact Commute.one_right _
  have hAB : A = B + (-c) • (1 : Matrix m m ℝ) := by
    simp [B, neg_smul]
  have hexp : exp A = exp B * exp ((-c) • (1 : Matrix m m ℝ)) := by
    rw [hAB]; exact Matrix.exp_add_of_commute _ _ hcomm
  have hscal : exp ((-c) • (1 : Matrix m m ℝ)) = Real.exp (-c) • (1 : Matrix m m ℝ) := by
    have : ((-c) • (1 : Matrix m m ℝ)) = Matrix.diagonal (fun _ => -c) := by
      ext i j; simp [Matrix.diagonal_apply, Matrix.one_apply]
    rw [this, Matrix.exp_diagonal]
    ext i j
    by_cases hij : i = j
    · subst hij; simp [Pi.coe_exp, Real.exp_eq_exp_ℝ]
    · simp [hij]
  intro i j
  rw [hexp, hscal, Matrix.mul_smul, Matrix.mul_one, Matrix.smul_apply, smul_eq_mul]
  exact mul_nonneg (Real.exp_pos _).le (real_exp_nonneg_of_nonneg B hB i j)

/-- Mathlib's real matrix exponential is a model of the four laws. -/
noncomputable def realExpLaw : ExpLaw ℝ where
  E := fun A => NormedSpace.exp A
  E_zero := NormedSpace.exp_zero
  E_add := fun A B h => Matrix.exp_add_of_commute A B h
  E_intertwine := fun A B P h => real_exp_intertwine A B P h
  E_nonneg := fun A h => real_exp_nonneg_of_metzler A h

end Real

/-! ## Consequences of the four laws (no reference to the real exponential) -/

namespace ExpLaw

variable {K : Type} [Field K] [LinearOrder K] [IsStrictOrderedRing K] (L : ExpLaw K)
variable {ι κ : Type} [Fintype ι] [DecidableEq ι] [Fintype κ] [DecidableEq κ]

theorem E_smul_add (A : Matrix ι ι K) (s t : K) :
    L.E ((s + t) • A) = L.E (s • A) * L.E (t • A) := by
  rw [add_smul]
  exact L.E_add _ _ (((Commute.refl A).smul_left s).smul_right t)

theorem E_zero_smul (A : Matrix ι ι K) : L.E ((0 : K) • A) = 1 := by
  rw [zero_smul]; exact L.E_zero

/-- Intertwining, scaled by a duration. -/
theorem E_smul_intertwine (A : Matrix ι ι K) (B : Matrix κ κ K) (P : Matrix ι κ K)
    (h : A * P = P * B) (τ : K) : L.E (τ • A) * P = P * L.E (τ • B) := by
  apply L.E_intertwine
  rw [Matrix.smul_mul, Matrix.mul_smul, h]

/-- Vector form of intertwining (right): `A P = P B` gives `E A (P w) = P (E B w)`. -/
theorem E_mulVec_intertwine (A : Matrix ι ι K) (B : Matrix κ κ K) (P : Matrix ι κ K)
    (h : A * P = P * B) (w : κ → K) : L.E A *ᵥ (P *ᵥ w) = P *ᵥ (L.E B *ᵥ w) := by
  rw [Matrix.mulVec_mulVec, Matrix.mulVec_mulVec, L.E_intertwine A B P h]

/-- A vector in the kernel of `A` is fixed by `E A`. -/
theorem E_mulVec_fixed (A : Matrix ι ι K) (v : ι → K) (h : A *ᵥ v = 0) : L.E A *ᵥ v = v := by
  have hP : A * Matrix.replicateCol Unit v = Matrix.replicateCol Unit v * (0 : Matrix Unit Unit K) := by
    ext i u
    have := congrFun h i
    simpa [Matrix.mul_apply, Matrix.mulVec, dotProduct] using this
  have h2 := L.E_intertwine A (0 : Matrix Unit Unit K) (Matrix.replicateCol Unit v) hP
  rw [L.E_zero, Matrix.mul_one] at h2
  funext i
  have := congrFun (congrFun h2 i) ()
  simpa [Matrix.mul_apply, Matrix.mulVec, dotProduct] using this

/-- Zero row sums are turned into unit row sums. -/
theorem E_rowsum (A : Matrix ι ι K) (h : ∀ i, ∑ j, A i j = 0) : ∀ i, ∑ j, L.E A i j = 1 := by
  intro i
  have h1 : A *ᵥ (1 : ι → K) = 0 := by
    funext i; simpa [Matrix.mulVec, dotProduct] using h i
  have := congrFun (L.E_mulVec_fixed A 1 h1) i
  simpa [Matrix.mulVec, dotProduct] using this

theorem E_mulVec_one (A : Matrix ι ι K) (h : ∀ i, ∑ j, A i j = 0) :
    L.E A *ᵥ (1 : ι → K) = 1 := by
  funext i; simpa [Matrix.mulVec, dotProduct] using L.E_rowsum A h i

/-- Conjugation by an invertible matrix commutes with `E`. -/
theorem E_conj (A : Matrix ι ι K) (P : Matrix κ ι K) (P' : Matrix ι κ K)
    (h1 : P * P' = 1) (h2 : P' * P = 1) : L.E (P * A * P') = P * L.E A * P' := by
  have hi : (P * A * P') * P = P * A := by
    rw [Matrix.mul_assoc, h2, Matrix.mul_one]
  have := L.E_intertwine (P * A * P') A P hi
  calc L.E (P * A * P') = L.E (P * A * P') * (P * P') := by rw [h1, Matrix.mul_one]
    _ = (L.E (P * A * P') * P) * P' := (Matrix.mul_assoc _ _ _).symm
    _ = P * L.E A * P' := by rw [this]

/-- Relabelling the states commutes with `E`. -/
theorem E_reindex (A : Matrix ι ι K) (σ : ι ≃ κ) :
    L.E (Matrix.reindex σ σ A) = Matrix.reindex σ σ (L.E A) := by
  let P : Matrix κ ι K := Matrix.of fun (x : κ) (c : ι) => if σ c = x then (1 : K) else 0
  have hi : Matrix.reindex σ σ A * P = P * A := by
    ext x c
    simp only [P, Matrix.of_apply, Matrix.mul_apply, Matrix.reindex_apply, Matrix.submatrix_apply, mul_ite, mul_one,
      mul_zero, ite_mul, one_mul, zero_mul]
    rw [Finset.sum_eq_single (σ c) (by intro b _ hb; rw [if_neg (Ne.symm hb)]) (by simp),
      Finset.sum_eq_single (σ.symm x) (by
        intro b _ hb; rw [if_neg]; intro h; exact hb (by rw [← h]; simp)) (by simp)]
    simp
  have := L.E_intertwine _ _ _ hi
  ext x y
  have h3 := congrFun (congrFun this x) (σ.symm y)
  simp only [P, Matrix.of_apply, Matrix.mul_apply, mul_ite, mul_one, mul_zero, ite_mul, one_mul,
    zero_mul] at h3
  rw [Finset.sum_eq_single y (by
      intro b _ hb; rw [if_neg]; intro h; exact hb (by rw [← h]; simp)) (by simp),
    Finset.sum_eq_single (σ.symm x) (by
      intro b _ hb; rw [if_neg]; intro h; exact hb (by rw [← h]; simp)) (by simp)] at h3
  simpa using h3

/-- Metzler generator, non-negative duration ⇒ entrywise non-negative `E (τ • A)`. -/
theorem E_smul_nonneg (A : Matrix ι ι K) (hA : ∀ i j, i ≠ j → 0 ≤ A i j) (τ : K) (hτ : 0 ≤ τ) :
    ∀ i j, 0 ≤ L.E (τ • A) i j := by
  apply L.E_nonneg
  intro i j hij
  rw [Matrix.smul_apply, smul_eq_mul]
  exact mul_nonneg hτ (hA i j hij)

/-- `E (τ • A)` has unit row sums when `A` has zero row sums. -/
theorem E_smul_rowsum (A : Matrix ι ι K) (h : ∀ i, ∑ j, A i j = 0) (τ : K) :
    ∀ i, ∑ j, L.E (τ • A) i j = 1 := by
  apply L.E_rowsum
  intro i
  simp only [Matrix.smul_apply, smul_eq_mul, ← Finset.mul_sum, h i, mul_zero]

end ExpLaw

end PG

#print axioms PG.realExpLaw
#print axioms PG.ExpLaw.E_smul_add
#print axioms PG.ExpLaw.E_zero_smul
#print axioms PG.ExpLaw.E_smul_intertwine
#print axioms PG.ExpLaw.E_mulVec_fixed
#print axioms PG.ExpLaw.E_rowsum
#print axioms PG.ExpLaw.E_conj
#print axioms PG.ExpLaw.E_reindex
#print axioms PG.ExpLaw.E_smul_nonneg
#print axioms PG.ExpLaw.E_smul_rowsum
