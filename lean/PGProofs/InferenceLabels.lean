/-
PGProofs.InferenceLabels — theorems about the LABELLED part of `PGModel.Inference` (property C19):
which parameter name every coordinate of scipy's positional optimiser gets in `Inference._optimize` /
`Inference._run` (/repo/phasegen/inference.py l.294-414).

* `C19_labels_within_bounds`                 repaired `_run`: the reported dict lists `x0`'s keys, every
                                             value lies in the box of ITS OWN key, the reported loss is
                                             the loss at the reported dict and the minimum of `loss_runs`
* `C19_labels_lookup_within_bounds`          … read through `lookup`: every bounded key has a value in its box
* `C19_labels_pinned_counterexample`         the pinned `_run` (sampled starts kept in `bounds` order) does not
* `C19_labels_boundsValues_counterexample`   nor does `_optimize` with `list(bounds.values())`
* `C19_labels_order_irrelevant`              repaired `_run`, permutation-equivariant optimiser, loss that
                                             only depends on the dict's content: the order in which the user
                                             lists `x0` does not matter
* `runLabelled_eq_labelResults`, `boxes_eq_boxKeyOrder`   relation with the driver command `inferlab`
-/
import PGModel.Inference
import PGProofs.InferenceThm
import Mathlib.Data.List.Perm.Basic
import Mathlib.Data.List.Zip
import Mathlib.Data.List.Forall2
import Mathlib.Data.List.Nodup
import Mathlib.Algebra.BigOperators.Group.List.Basic
import Mathlib.Data.Rat.Defs
import Mathlib.Algebra.Order.Ring.Rat

namespace PG.InfLab

open PG.Inference

/-! ### association lists -/

theorem allSome_map {α β} (f : α → Option β) (g : α → β) (l : List α)
    (h : ∀ a ∈ l, f a = some (g a)) : allSome (l.map f) = some (l.map g) := by
  induction l with
  | nil => rfl
  | cons a t ih =>
    have ha := h a (by simp)
    have ht := ih (fun b hb => h b (by simp [hb]))
    simp only [List.map_cons, ha, allSome, ht]

theorem lookup_of_mem_keys {α} (d : KV α) (k : String) (h : k ∈ d.map Prod.fst) :
    ∃ v, lookup d k = some v := by
  induction d with
  | nil => simp at h
  | cons p t ih =>
    obtain ⟨k', v'⟩ := p
    by_cases hk : k' = k
    · exact ⟨v', by simp [lookup, hk]⟩
    · have : k ∈ t.map Prod.fst := by
        simp only [List.map_cons, List.mem_cons] at h
        rcases h with h | h
        · exact absurd h.symm hk
        · exact h
      obtain ⟨v, hv⟩ := ih this
      exact ⟨v, by simp [lookup, hk, hv]⟩

theorem mem_of_lookup {α} (d : KV α) (k : String) (v : α) (h : lookup d k = some v) : (k, v) ∈ d := by
  induction d with
  | nil => simp [lookup] at h
  | cons p t ih =>
    obtain ⟨k', v'⟩ := p
    by_cases hk : k' = k
    · simp only [lookup, hk, if_true, Option.some.injEq] at h
      simp [hk, h]
    · simp only [lookup, hk, if_false] at h
      exact List.mem_cons_of_mem _ (ih h)

theorem lookup_of_mem_nodup {α} (d : KV α) (k : String) (v : α) (hnd : (d.map Prod.fst).Nodup)
    (h : (k, v) ∈ d) : lookup d k = some v := by
  induction d with
  | nil => simp at h
  | cons p t ih =>
    obtain ⟨k', v'⟩ := p
    simp only [List.map_cons, List.nodup_cons] at hnd
    simp only [List.mem_cons, Prod.mk.injEq] at h
    rcases h with ⟨rfl, rfl⟩ | h
    · simp [lookup]
    · have hne : k' ≠ k := by
        rintro rfl
        exact hnd.1 (List.mem_map.2 ⟨(k', v), h, rfl⟩)
      simp only [lookup, hne, if_false]
      exact ih hnd.2 h

/-- The box of `k`, with a junk default (only used where `k` has a box). -/
def getBox (bounds : KV (Rat × Rat)) (k : String) : Rat × Rat := (lookup bounds k).getD (0, 0)

/-- The value of `k` in `s`, with a junk default. -/
def getVal (s : KV Rat) (k : String) : Rat := (lookup s k).getD 0

theorem lookup_getBox (bounds : KV (Rat × Rat)) (k : String) (h : k ∈ bounds.map Prod.fst) :
    lookup bounds k = some (getBox bounds k) := by
  obtain ⟨v, hv⟩ := lookup_of_mem_keys bounds k h
  simp [getBox, hv]

theorem boxesFor_of_subset (bounds : KV (Rat × Rat)) (ks : List String)
    (h : ∀ k ∈ ks, k ∈ bounds.map Prod.fst) :
    boxesFor bounds ks = some (ks.map (getBox bounds)) :=
  allSome_map _ _ _ fun k hk => lookup_getBox bounds k (h k hk)

/-- `{k: s[k] for k in ks}` as a total function. -/
def relistD (ks : List String) (s : KV Rat) : KV Rat := ks.map fun k => (k, getVal s k)

theorem relist_of_subset (ks : List String) (s : KV Rat) (h : ∀ k ∈ ks, k ∈ s.map Prod.fst) :
    relist ks s = some (relistD ks s) := by
  refine allSome_map _ _ _ fun k hk => ?_
  obtain ⟨v, hv⟩ := lookup_of_mem_keys s k (h k hk)
  simp [getVal, hv]

@[simp] theorem relistD_keys (ks : List String) (s : KV Rat) : (relistD ks s).map Prod.fst = ks := by
  simp [relistD, Function.comp_def]

/-! ### the repaired `_run` as a total function -/

/-- The optimiser never leaves the boxes it is given (positionally) and returns a point of the
dimension of the box list — whenever that is possible at all: the start vector has one coordinate
per box and no box is empty.  (Without these two provisos NO function satisfies the condition: no
point lies in an empty box.) -/
def RespectsBoxes (opt : Optimizer) : Prop :=
  ∀ (start : List Rat) (bs : List (Rat × Rat)) (obj : List Rat → Rat),
    start.length = bs.length → (∀ b ∈ bs, b.1 ≤ b.2) →
    (opt start bs obj).length = bs.length ∧
    ∀ p ∈ bs.zip (opt start bs obj), p.1.1 ≤ p.2 ∧ p.2 ≤ p.1.2

/-- "Project the start point onto the box" respects boxes. -/
theorem clampOpt_respectsBoxes : RespectsBoxes clampOpt := by
  intro start bs obj hlen hne
  induction start generalizing bs with
  | nil =>
    cases bs with
    | nil => simp [clampOpt]
    | cons b t => simp at hlen
  | cons s st ih =>
    cases bs with
    | nil => simp at hlen
    | cons b t =>
      have hb : b.1 ≤ b.2 := hne b (by simp)
      obtain ⟨h1, h2⟩ := ih t (by simpa using hlen) (fun b' hb' => hne b' (by simp [hb']))
      simp only [clampOpt] at h1 h2 ⊢
      refine ⟨by simpa using h1, ?_⟩
      intro p hp
      simp only [List.zipWith_cons_cons, List.zip_cons_cons, List.mem_cons] at hp
      rcases hp with rfl | hp
      · simp only
        split_ifs with h3 h4
        · exact ⟨le_refl _, hb⟩
        · exact ⟨hb, le_refl _⟩
        · exact ⟨not_lt.1 h3, not_lt.1 h4⟩
      · exact h2 p hp

/-- The optimiser result of the repaired code from the start dict `d`. -/
def runD (opt : Optimizer) (L : KV Rat → Rat) (bounds : KV (Rat × Rat)) (d : KV Rat) : Run :=
  let x := opt (d.map Prod.snd) ((d.map Prod.fst).map (getBox bounds)) (fun y => L ((d.map Prod.fst).zip y))
  { x := x, f := L ((d.map Prod.fst).zip x) }

theorem runOne_repaired (opt : Optimizer) (L : KV Rat → Rat) (bounds : KV (Rat × Rat)) (d : KV Rat)
    (h : ∀ k ∈ d.map Prod.fst, k ∈ bounds.map Prod.fst) :
    runOne .repaired opt L bounds d = some (runD opt L bounds d) := by
  simp [runOne, optimizeArgs, boxesFor_of_subset bounds _ h, runD]

/-- The start points of the repaired code. -/
def startsD (x0 : KV Rat) (samples : List (KV Rat)) : List (KV Rat) :=
  x0 :: samples.map (relistD (x0.map Prod.fst))

theorem startPoints_repaired (x0 : KV Rat) (samples : List (KV Rat))
    (h : ∀ s ∈ samples, ∀ k ∈ x0.map Prod.fst, k ∈ s.map Prod.fst) :
    startPoints .repaired x0 samples = some (startsD x0 samples) := by
  have := allSome_map (relist (x0.map Prod.fst)) (relistD (x0.map Prod.fst)) samples
    (fun s hs => relist_of_subset _ s (h s hs))
  simp [startPoints, this, startsD]

theorem startsD_keys (x0 : KV Rat) (samples : List (KV Rat)) :
    ∀ d ∈ startsD x0 samples, d.map Prod.fst = x0.map Prod.fst := by
  intro d hd
  simp only [startsD, List.mem_cons, List.mem_map] at hd
  rcases hd with rfl | ⟨s, _, rfl⟩
  · rfl
  · exact relistD_keys _ _

theorem runLabelled_repaired (opt : Optimizer) (L : KV Rat → Rat) (bounds : KV (Rat × Rat))
    (x0 : KV Rat) (samples : List (KV Rat))
    (hx : ∀ k ∈ x0.map Prod.fst, k ∈ bounds.map Prod.fst)
    (hs : ∀ s ∈ samples, ∀ k ∈ x0.map Prod.fst, k ∈ s.map Prod.fst) :
    runLabelled .repaired opt L bounds x0 samples
      = labelResults (x0.map Prod.fst) ((startsD x0 samples).map (runD opt L bounds)) := by
  have h2 := allSome_map (runOne .repaired opt L bounds) (runD opt L bounds) (startsD x0 samples)
    (fun d hd => runOne_repaired opt L bounds d (by rw [startsD_keys x0 samples d hd]; exact hx))
  simp only [runLabelled, startPoints_repaired x0 samples hs, h2]

theorem mem_zip_map_left {α β γ} (f : α → γ) (l : List α) (l' : List β) (a : α) (b : β)
    (h : (a, b) ∈ l.zip l') : (f a, b) ∈ (l.map f).zip l' := by
  induction l generalizing l' with
  | nil => simp at h
  | cons a' t ih =>
    cases l' with
    | nil => simp at h
    | cons b' t' =>
      simp only [List.zip_cons_cons, List.mem_cons, Prod.mk.injEq] at h
      rcases h with ⟨rfl, rfl⟩ | h
      · simp
      · simp only [List.map_cons, List.zip_cons_cons, List.mem_cons]
        exact Or.inr (ih t' h)

/-- Everything about the repaired `_run`, for key lists `x0.keys ⊆ bounds.keys ⊆ sample.keys`. -/
theorem labels_within_bounds_of_subset (opt : Optimizer) (L : KV Rat → Rat) (bounds : KV (Rat × Rat))
    (x0 : KV Rat) (samples : List (KV Rat))
    (hx : ∀ k ∈ x0.map Prod.fst, k ∈ bounds.map Prod.fst)
    (hs : ∀ s ∈ samples, ∀ k ∈ x0.map Prod.fst, k ∈ s.map Prod.fst)
    (hbne : ∀ kb ∈ bounds, kb.2.1 ≤ kb.2.2)
    (hopt : RespectsBoxes opt) :
    ∃ p f runs, runLabelled .repaired opt L bounds x0 samples = some (p, f, runs) ∧
      p.map Prod.fst = x0.map Prod.fst ∧
      (∀ kv ∈ p, ∃ b, lookup bounds kv.1 = some b ∧ b.1 ≤ kv.2 ∧ kv.2 ≤ b.2) ∧
      f = L p ∧
      runs.length = samples.length + 1 ∧
      (∀ r ∈ runs, f ≤ r) ∧ f ∈ runs := by
  rw [runLabelled_repaired opt L bounds x0 samples hx hs]
  set results := (startsD x0 samples).map (runD opt L bounds) with hres
  have hne : results ≠ [] := by simp [hres, startsD]
  obtain ⟨b, hb⟩ := bestOf_ne_nil hne
  have hmin := bestOf_spec hb
  have hmem : b ∈ results := hmin.mem
  obtain ⟨d, hd, rfl⟩ := List.mem_map.1 hmem
  have hk := startsD_keys x0 samples d hd
  obtain ⟨hlen, hbox⟩ := hopt (d.map Prod.snd) ((d.map Prod.fst).map (getBox bounds))
    (fun y => L ((d.map Prod.fst).zip y)) (by simp) (by
      intro b hb
      obtain ⟨k, hk', rfl⟩ := List.mem_map.1 hb
      rw [hk] at hk'
      exact hbne (k, getBox bounds k) (mem_of_lookup bounds k _ (lookup_getBox bounds k (hx k hk'))))
  refine ⟨(x0.map Prod.fst).zip (runD opt L bounds d).x, (runD opt L bounds d).f, results.map (·.f),
    by simp [labelResults, hb], ?_, ?_, ?_, ?_, ?_, ?_⟩
  · apply List.map_fst_zip
    simp only [runD, hk] at hlen ⊢
    simp only [List.length_map] at hlen ⊢
    exact le_of_eq hlen.symm
  · rintro ⟨k, v⟩ hkv
    have hkmem : k ∈ x0.map Prod.fst := (List.of_mem_zip hkv).1
    refine ⟨getBox bounds k, lookup_getBox bounds k (hx k hkmem), ?_⟩
    rw [← hk] at hkv
    exact hbox (getBox bounds k, v) (mem_zip_map_left (getBox bounds) _ _ k v hkv)
  · simp only [runD, hk]
  · simp [hres, startsD]
  · intro r hr
    obtain ⟨r', hr', rfl⟩ := List.mem_map.1 hr
    exact hmin.le r' hr'
  · exact List.mem_map.2 ⟨_, hmem, rfl⟩


/-! ### relation with the driver command `inferlab` (`labelResults`, `boxKeyOrder`) -/

theorem allSome_eq_some {α} (l : List (Option α)) (r : List α) (h : allSome l = some r) :
    l = r.map some := by
  induction l generalizing r with
  | nil => simp only [allSome, Option.some.injEq] at h; subst h; rfl
  | cons a t ih =>
    cases a with
    | none => simp [allSome] at h
    | some a =>
      cases ht : allSome t with
      | none => simp [allSome, ht] at h
      | some r' =>
        simp only [allSome, ht, Option.some.injEq] at h
        subst h
        simp [ih r' ht]

theorem relist_keys (ks : List String) (s d : KV Rat) (h : relist ks s = some d) :
    d.map Prod.fst = ks := by
  have h' := allSome_eq_some _ _ h
  clear h
  induction ks generalizing d with
  | nil => cases d with
    | nil => rfl
    | cons _ _ => simp at h'
  | cons k t ih =>
    cases d with
    | nil => simp at h'
    | cons p d' =>
      simp only [List.map_cons, List.cons.injEq] at h' ⊢
      refine ⟨?_, ih d' h'.2⟩
      cases hl : lookup s k with
      | none => simp [hl] at h'
      | some v =>
        have := h'.1
        simp only [hl, Option.map_some, Option.some.injEq] at this
        rw [← this]

theorem boxesFor_own_keys (bounds : KV (Rat × Rat)) (hnd : (bounds.map Prod.fst).Nodup) :
    boxesFor bounds (bounds.map Prod.fst) = some (bounds.map Prod.snd) := by
  rw [boxesFor_of_subset bounds _ (fun k hk => hk), List.map_map]
  congr 1
  apply List.map_congr_left
  rintro ⟨k, b⟩ hkb
  simp [getBox, lookup_of_mem_nodup bounds k b hnd hkb]

/-- `_run` is: build the start points, optimise from each, label the results (`labelResults`). -/
theorem runLabelled_eq_labelResults (v : Variant) (opt : Optimizer) (L : KV Rat → Rat)
    (bounds : KV (Rat × Rat)) (x0 : KV Rat) (samples : List (KV Rat)) :
    runLabelled v opt L bounds x0 samples =
      (startPoints v x0 samples).bind fun starts =>
        (allSome (starts.map (runOne v opt L bounds))).bind (labelResults (x0.map Prod.fst)) := by
  unfold runLabelled
  cases startPoints v x0 samples with
  | none => rfl
  | some starts =>
    simp only [Option.bind_some]
    cases allSome (starts.map (runOne v opt L bounds)) <;> rfl

/-- In particular a successful `_run` reports `labelResults` of one optimiser result per start point. -/
theorem runLabelled_some (v : Variant) (opt : Optimizer) (L : KV Rat → Rat)
    (bounds : KV (Rat × Rat)) (x0 : KV Rat) (samples : List (KV Rat)) (out : KV Rat × Rat × List Rat)
    (h : runLabelled v opt L bounds x0 samples = some out) :
    ∃ starts results, startPoints v x0 samples = some starts ∧ starts.length = samples.length + 1 ∧
      starts.map (runOne v opt L bounds) = results.map some ∧
      labelResults (x0.map Prod.fst) results = some out := by
  rw [runLabelled_eq_labelResults] at h
  cases hs : startPoints v x0 samples with
  | none => simp [hs] at h
  | some starts =>
    simp only [hs, Option.bind_some] at h
    cases hr : allSome (starts.map (runOne v opt L bounds)) with
    | none => simp [hr] at h
    | some results =>
      simp only [hr, Option.bind_some] at h
      refine ⟨starts, results, rfl, ?_, allSome_eq_some _ _ hr, h⟩
      cases v <;> simp only [startPoints] at hs
      · cases hss : allSome (samples.map (relist (x0.map Prod.fst))) with
        | none => simp [hss] at hs
        | some ss =>
          simp only [hss, Option.some.injEq] at hs
          have := congrArg List.length (allSome_eq_some _ _ hss)
          simp only [List.length_map] at this
          rw [← hs, List.length_cons, ← this]
      · simp only [Option.some.injEq] at hs
        rw [← hs, List.length_cons]
      · cases hss : allSome (samples.map (relist (x0.map Prod.fst))) with
        | none => simp [hss] at hs
        | some ss =>
          simp only [hss, Option.some.injEq] at hs
          have := congrArg List.length (allSome_eq_some _ _ hss)
          simp only [List.length_map] at this
          rw [← hs, List.length_cons, ← this]

theorem startPoints_keys (v : Variant) (bounds : KV (Rat × Rat)) (x0 : KV Rat) (samples starts : List (KV Rat))
    (hsamples : ∀ s ∈ samples, s.map Prod.fst = bounds.map Prod.fst)
    (hstarts : startPoints v x0 samples = some starts) (i : Nat) (d : KV Rat) (hd : starts[i]? = some d) :
    d.map Prod.fst = if v = .pinned ∧ i ≠ 0 then bounds.map Prod.fst else x0.map Prod.fst := by
  have relisted : ∀ ss, allSome (samples.map (relist (x0.map Prod.fst))) = some ss →
      (x0 :: ss)[i]? = some d → d.map Prod.fst = x0.map Prod.fst := by
    intro ss hss hd
    cases i with
    | zero => simp only [List.getElem?_cons_zero, Option.some.injEq] at hd; rw [hd]
    | succ j =>
      simp only [List.getElem?_cons_succ] at hd
      have h1 := allSome_eq_some _ _ hss
      have h2 := congrArg (fun l => l[j]?) h1
      simp only [List.getElem?_map, hd, Option.map_some] at h2
      cases hsj : samples[j]? with
      | none => simp [hsj] at h2
      | some s =>
        simp only [hsj, Option.map_some, Option.some.injEq] at h2
        exact relist_keys _ s d h2
  cases v with
  | pinned =>
    simp only [startPoints, Option.some.injEq] at hstarts
    subst hstarts
    cases i with
    | zero => simp only [List.getElem?_cons_zero, Option.some.injEq] at hd; simp [hd]
    | succ j =>
      simp only [List.getElem?_cons_succ] at hd
      simp [hsamples d (List.mem_of_getElem? hd)]
  | repaired =>
    simp only [startPoints] at hstarts
    cases hss : allSome (samples.map (relist (x0.map Prod.fst))) with
    | none => simp [hss] at hstarts
    | some ss =>
      simp only [hss, Option.some.injEq] at hstarts
      subst hstarts
      simpa using relisted ss hss hd
  | boundsValues =>
    simp only [startPoints] at hstarts
    cases hss : allSome (samples.map (relist (x0.map Prod.fst))) with
    | none => simp [hss] at hstarts
    | some ss =>
      simp only [hss, Option.some.injEq] at hstarts
      subst hstarts
      simpa using relisted ss hss hd

/-- **What `inferlab` prints as `labels=`**: the `i`-th start dict (whose keys label the positional
objective of the `i`-th optimisation) lists the keys `labelKeyOrder v bounds.keys x0.keys i`. -/
theorem labels_eq_labelKeyOrder (v : Variant) (bounds : KV (Rat × Rat)) (x0 : KV Rat)
    (samples starts : List (KV Rat))
    (hsamples : ∀ s ∈ samples, s.map Prod.fst = bounds.map Prod.fst)
    (hstarts : startPoints v x0 samples = some starts) (i : Nat) (d : KV Rat) (hd : starts[i]? = some d) :
    d.map Prod.fst = labelKeyOrder v (bounds.map Prod.fst) (x0.map Prod.fst) i := by
  rw [startPoints_keys v bounds x0 samples starts hsamples hstarts i d hd]
  cases v <;> cases i <;> simp [labelKeyOrder]

/-- **What `inferlab` prints as `boxes=`**: the boxes the `i`-th optimisation is given are the boxes of
the keys `boxKeyOrder v bounds.keys x0.keys i`, in that order — `x0`'s order for every run of the
repaired code, `bounds` order from the second run on in the pinned code, `bounds` order throughout in
the seeded `boundsValues` code — while the vector is always labelled with the start dict's keys. -/
theorem boxes_eq_boxKeyOrder (v : Variant) (bounds : KV (Rat × Rat)) (x0 : KV Rat)
    (samples starts : List (KV Rat))
    (hnd : (bounds.map Prod.fst).Nodup)
    (hsamples : ∀ s ∈ samples, s.map Prod.fst = bounds.map Prod.fst)
    (hstarts : startPoints v x0 samples = some starts)
    (i : Nat) (d : KV Rat) (hd : starts[i]? = some d) (start : List Rat) (bs : List (Rat × Rat))
    (hargs : optimizeArgs v d bounds = some (start, bs)) :
    start = d.map Prod.snd ∧
    boxesFor bounds (boxKeyOrder v (bounds.map Prod.fst) (x0.map Prod.fst) i) = some bs := by
  have hk := startPoints_keys v bounds x0 samples starts hsamples hstarts i d hd
  cases v with
  | boundsValues =>
    simp only [optimizeArgs, Option.some.injEq, Prod.mk.injEq] at hargs
    obtain ⟨rfl, rfl⟩ := hargs
    exact ⟨rfl, by simpa [boxKeyOrder] using boxesFor_own_keys bounds hnd⟩
  | repaired =>
    simp only [optimizeArgs] at hargs
    cases hb : boxesFor bounds (d.map Prod.fst) with
    | none => simp [hb] at hargs
    | some bs' =>
      simp only [hb, Option.some.injEq, Prod.mk.injEq] at hargs
      obtain ⟨rfl, rfl⟩ := hargs
      refine ⟨rfl, ?_⟩
      simp only [reduceCtorEq, false_and, if_false] at hk
      rw [← hb, hk]
      cases i <;> rfl
  | pinned =>
    simp only [optimizeArgs] at hargs
    cases hb : boxesFor bounds (d.map Prod.fst) with
    | none => simp [hb] at hargs
    | some bs' =>
      simp only [hb, Option.some.injEq, Prod.mk.injEq] at hargs
      obtain ⟨rfl, rfl⟩ := hargs
      refine ⟨rfl, ?_⟩
      rw [← hb, hk]
      cases i with
      | zero => simp [boxKeyOrder]
      | succ j => simp [boxKeyOrder]


/-! ### the order in which the user lists `x0` is irrelevant -/

/-- **Equivariance of the optimiser under simultaneous permutation of the coordinates.**
A box-constrained problem is a list `t` of coordinates (name, start value, box) and an objective that
is a function `L` of the LABELLED point and does not depend on the order in which the labelled point is
listed.  Listing the coordinates in another order `t'` (so start vector, box list and the positional
objective `y ↦ L (names.zip y)` are permuted simultaneously) permutes the result in the same way:
as labelled points the two results have the same entries.
(For distinct names every objective on vectors of the right length is of the form `y ↦ L (names.zip y)`
with such an `L`.)  Exact-arithmetic L-BFGS-B has this property; so has `clampOpt`
(`clampOpt_labelEquivariant`). -/
def LabelEquivariant (opt : Optimizer) : Prop :=
  ∀ (L : KV Rat → Rat), (∀ a b : KV Rat, a.Perm b → L a = L b) →
  ∀ (t t' : List (String × Rat × (Rat × Rat))), t.Perm t' → (t.map (·.1)).Nodup →
    ((t.map (·.1)).zip (opt (t.map (·.2.1)) (t.map (·.2.2)) (fun y => L ((t.map (·.1)).zip y)))).Perm
    ((t'.map (·.1)).zip (opt (t'.map (·.2.1)) (t'.map (·.2.2)) (fun y => L ((t'.map (·.1)).zip y))))

theorem clampOpt_labelEquivariant : LabelEquivariant clampOpt := by
  intro L _ t t' hp _
  have key : ∀ u : List (String × Rat × (Rat × Rat)),
      (u.map (·.1)).zip (clampOpt (u.map (·.2.1)) (u.map (·.2.2)) (fun y => L ((u.map (·.1)).zip y)))
        = u.map (fun c => (c.1, if c.2.1 < c.2.2.1 then c.2.2.1 else if c.2.2.2 < c.2.1 then c.2.2.2 else c.2.1)) := by
    intro u
    simp only [clampOpt]
    induction u with
    | nil => rfl
    | cons c u ih => simp only [List.map_cons, List.zipWith_cons_cons, List.zip_cons_cons, ih]
  rw [key t, key t']
  exact hp.map _

theorem nodup_keys_zip {α} (ks : List String) (x : List α) (h : ks.Nodup) :
    ((ks.zip x).map Prod.fst).Nodup := by
  induction ks generalizing x with
  | nil => simp
  | cons k t ih =>
    cases x with
    | nil => simp
    | cons a x' =>
      simp only [List.nodup_cons] at h
      simp only [List.zip_cons_cons, List.map_cons, List.nodup_cons]
      refine ⟨fun hk => h.1 ?_, ih x' h.2⟩
      obtain ⟨⟨k', a'⟩, hmem, rfl⟩ := List.mem_map.1 hk
      exact (List.of_mem_zip hmem).1

theorem lookup_perm {α} (p p' : KV α) (hp : p.Perm p') (hnd : (p.map Prod.fst).Nodup) (k : String) :
    lookup p k = lookup p' k := by
  have hnd' : (p'.map Prod.fst).Nodup := (hp.map Prod.fst).nodup_iff.1 hnd
  cases h : lookup p k with
  | some v =>
    exact (lookup_of_mem_nodup p' k v hnd' (hp.subset (mem_of_lookup p k v h))).symm
  | none =>
    cases h' : lookup p' k with
    | none => rfl
    | some v =>
      have := lookup_of_mem_nodup p k v hnd (hp.symm.subset (mem_of_lookup p' k v h'))
      rw [h] at this
      exact absurd this (by simp)

/-- Permuting the start dict permutes the labelled result of one optimisation and keeps its loss. -/
theorem runD_perm (opt : Optimizer) (L : KV Rat → Rat) (bounds : KV (Rat × Rat))
    (hL : ∀ a b : KV Rat, a.Perm b → L a = L b) (hopt : LabelEquivariant opt)
    (d d' : KV Rat) (hp : d.Perm d') (hnd : (d.map Prod.fst).Nodup) :
    (runD opt L bounds d).f = (runD opt L bounds d').f ∧
    ((d.map Prod.fst).zip (runD opt L bounds d).x).Perm ((d'.map Prod.fst).zip (runD opt L bounds d').x) := by
  have h := hopt L hL (d.map fun kv => (kv.1, kv.2, getBox bounds kv.1))
    (d'.map fun kv => (kv.1, kv.2, getBox bounds kv.1)) (hp.map _)
    (by simpa [Function.comp_def] using hnd)
  simp only [List.map_map, Function.comp_def] at h
  have e : ∀ u : KV Rat, u.map (fun kv => getBox bounds kv.1) = (u.map Prod.fst).map (getBox bounds) := by
    intro u; simp [Function.comp_def]
  rw [e d, e d'] at h
  exact ⟨hL _ _ h, h⟩

theorem bestOf_rel (R : Run → Run → Prop) (hR : ∀ r r', R r r' → r.f = r'.f)
    (rs rs' : List Run) (h : List.Forall₂ R rs rs') :
    (bestOf rs = none ∧ bestOf rs' = none) ∨
    ∃ b b', bestOf rs = some b ∧ bestOf rs' = some b' ∧ R b b' := by
  induction h with
  | nil => exact Or.inl ⟨rfl, rfl⟩
  | @cons r r' t t' hrr' _ ih =>
    right
    rcases ih with ⟨h1, h2⟩ | ⟨b, b', h1, h2, hbb'⟩
    · exact ⟨r, r', by simp [bestOf, h1], by simp [bestOf, h2], hrr'⟩
    · by_cases hlt : b.f < r.f
      · have hlt' : b'.f < r'.f := by rw [← hR _ _ hbb', ← hR _ _ hrr']; exact hlt
        exact ⟨b, b', by simp [bestOf, h1, hlt], by simp [bestOf, h2, hlt'], hbb'⟩
      · have hlt' : ¬ b'.f < r'.f := by rw [← hR _ _ hbb', ← hR _ _ hrr']; exact hlt
        exact ⟨r, r', by simp [bestOf, h1, hlt], by simp [bestOf, h2, hlt'], hrr'⟩

theorem map_f_eq_of_rel (R : Run → Run → Prop) (hR : ∀ r r', R r r' → r.f = r'.f)
    (rs rs' : List Run) (h : List.Forall₂ R rs rs') : rs.map (·.f) = rs'.map (·.f) := by
  induction h with
  | nil => rfl
  | cons hrr' _ ih => simp only [List.map_cons, hR _ _ hrr', ih]

/-- Repaired `_run` for two listings `x0`, `x0'` of the same start values. -/
theorem order_irrelevant_of_subset (opt : Optimizer) (L : KV Rat → Rat) (bounds : KV (Rat × Rat))
    (x0 x0' : KV Rat) (samples : List (KV Rat))
    (hnd : (x0.map Prod.fst).Nodup)
    (hx : ∀ k ∈ x0.map Prod.fst, k ∈ bounds.map Prod.fst)
    (hs : ∀ s ∈ samples, ∀ k ∈ x0.map Prod.fst, k ∈ s.map Prod.fst)
    (hxx : x0.Perm x0')
    (hL : ∀ a b : KV Rat, a.Perm b → L a = L b) (hopt : LabelEquivariant opt) :
    ∃ p p' f runs,
      runLabelled .repaired opt L bounds x0 samples = some (p, f, runs) ∧
      runLabelled .repaired opt L bounds x0' samples = some (p', f, runs) ∧
      p.Perm p' ∧ ∀ k, lookup p k = lookup p' k := by
  have hks : (x0.map Prod.fst).Perm (x0'.map Prod.fst) := hxx.map _
  have hx' : ∀ k ∈ x0'.map Prod.fst, k ∈ bounds.map Prod.fst := fun k hk => hx k (hks.symm.subset hk)
  have hs' : ∀ s ∈ samples, ∀ k ∈ x0'.map Prod.fst, k ∈ s.map Prod.fst :=
    fun s hs0 k hk => hs s hs0 k (hks.symm.subset hk)
  rw [runLabelled_repaired opt L bounds x0 samples hx hs,
    runLabelled_repaired opt L bounds x0' samples hx' hs']
  set ks := x0.map Prod.fst with hksdef
  set ks' := x0'.map Prod.fst with hksdef'
  let R : Run → Run → Prop := fun r r' => r.f = r'.f ∧ (ks.zip r.x).Perm (ks'.zip r'.x)
  have hR : ∀ r r', R r r' → r.f = r'.f := fun _ _ h => h.1
  have hall : List.Forall₂ R ((startsD x0 samples).map (runD opt L bounds))
      ((startsD x0' samples).map (runD opt L bounds)) := by
    simp only [startsD, List.map_cons, List.map_map]
    refine List.Forall₂.cons (runD_perm opt L bounds hL hopt x0 x0' hxx hnd) ?_
    rw [List.forall₂_map_left_iff, List.forall₂_map_right_iff, List.forall₂_same]
    intro s _
    have h := runD_perm opt L bounds hL hopt (relistD ks s) (relistD ks' s)
      (by simpa [relistD] using hks.map _) (by rw [relistD_keys]; exact hnd)
    rw [relistD_keys, relistD_keys] at h
    exact h
  have hruns := map_f_eq_of_rel R hR _ _ hall
  rcases bestOf_rel R hR _ _ hall with ⟨h1, _⟩ | ⟨b, b', h1, h2, hf, hp⟩
  · exact absurd h1 (by
      obtain ⟨b, hb⟩ := bestOf_ne_nil (rs := (startsD x0 samples).map (runD opt L bounds))
        (by simp [startsD])
      simp [hb])
  · refine ⟨ks.zip b.x, ks'.zip b'.x, b.f, ((startsD x0 samples).map (runD opt L bounds)).map (·.f),
      by simp [labelResults, h1], by simp [labelResults, h2, hf, hruns], hp, ?_⟩
    exact lookup_perm _ _ hp (nodup_keys_zip ks b.x hnd)

end PG.InfLab

namespace PG.Inference

open PG.InfLab

/-- **C19, labels (repaired `_run`)**.  `bounds` is a dict (distinct keys), the user's `x0` lists the
same parameters in ANY order, the sampled start points are dicts in the key order of `bounds`, and the
optimiser respects the boxes it is given positionally.  Then `_run` succeeds and
* `params_inferred` lists the keys of `x0`, in the order of `x0`;
* every reported value lies in the box that `bounds` has for ITS OWN key;
* `loss_inferred` is the loss at `params_inferred`;
* `loss_runs` has one entry per run, and `loss_inferred` is its minimum. -/
theorem C19_labels_within_bounds (opt : Optimizer) (L : KV Rat → Rat) (bounds : KV (Rat × Rat))
    (x0 : KV Rat) (samples : List (KV Rat))
    (_hnd : (bounds.map Prod.fst).Nodup)
    (hperm : (x0.map Prod.fst).Perm (bounds.map Prod.fst))
    (hsamples : ∀ s ∈ samples, s.map Prod.fst = bounds.map Prod.fst)
    (hne : ∀ kb ∈ bounds, kb.2.1 ≤ kb.2.2)
    (hopt : ∀ (start : List Rat) (bs : List (Rat × Rat)) (obj : List Rat → Rat),
      start.length = bs.length → (∀ b ∈ bs, b.1 ≤ b.2) →
      (opt start bs obj).length = bs.length ∧
      ∀ p ∈ bs.zip (opt start bs obj), p.1.1 ≤ p.2 ∧ p.2 ≤ p.1.2) :
    ∃ p f runs, runLabelled .repaired opt L bounds x0 samples = some (p, f, runs) ∧
      p.map Prod.fst = x0.map Prod.fst ∧
      (∀ kv ∈ p, ∃ b, lookup bounds kv.1 = some b ∧ b.1 ≤ kv.2 ∧ kv.2 ≤ b.2) ∧
      f = L p ∧
      runs.length = samples.length + 1 ∧
      (∀ r ∈ runs, f ≤ r) ∧ f ∈ runs :=
  labels_within_bounds_of_subset opt L bounds x0 samples
    (fun k hk => hperm.subset hk)
    (fun s hs k hk => by rw [hsamples s hs]; exact hperm.subset hk)
    hne hopt

/-- The same read through `lookup`: under the hypotheses of `C19_labels_within_bounds` every key of
`bounds` has a reported value, and it lies in that key's box. -/
theorem C19_labels_lookup_within_bounds (opt : Optimizer) (L : KV Rat → Rat) (bounds : KV (Rat × Rat))
    (x0 : KV Rat) (samples : List (KV Rat))
    (hnd : (bounds.map Prod.fst).Nodup)
    (hperm : (x0.map Prod.fst).Perm (bounds.map Prod.fst))
    (hsamples : ∀ s ∈ samples, s.map Prod.fst = bounds.map Prod.fst)
    (hne : ∀ kb ∈ bounds, kb.2.1 ≤ kb.2.2)
    (hopt : RespectsBoxes opt) :
    ∃ p f runs, runLabelled .repaired opt L bounds x0 samples = some (p, f, runs) ∧
      ∀ kb ∈ bounds, ∃ v, lookup p kb.1 = some v ∧ kb.2.1 ≤ v ∧ v ≤ kb.2.2 := by
  obtain ⟨p, f, runs, hrun, hkeys, hin, -⟩ :=
    C19_labels_within_bounds opt L bounds x0 samples hnd hperm hsamples hne hopt
  refine ⟨p, f, runs, hrun, ?_⟩
  rintro ⟨k, b⟩ hkb
  have hk : k ∈ p.map Prod.fst := by
    rw [hkeys]; exact hperm.symm.subset (List.mem_map.2 ⟨(k, b), hkb, rfl⟩)
  obtain ⟨v, hv⟩ := lookup_of_mem_keys p k hk
  obtain ⟨b', hb', h1, h2⟩ := hin (k, v) (mem_of_lookup p k v hv)
  have : b' = b := by
    have := lookup_of_mem_nodup bounds k b hnd hkb
    simp only at hb'
    rw [this] at hb'
    exact (Option.some.inj hb').symm
  subst this
  exact ⟨v, hv, h1, h2⟩


/-- **C19, labels: the order in which the user lists `x0` is irrelevant (repaired `_run`).**
`x0` and `x0'` list the same start values in two orders (`x0.Perm x0'`), everything else as in
`C19_labels_within_bounds`; the loss only depends on the content of the labelled dict, and the optimiser
is equivariant under simultaneous permutation of coordinates (`LabelEquivariant`).  Then both `_run`s
succeed, report the same `loss_inferred` and `loss_runs`, and their `params_inferred` have the same
entries: `lookup` agrees on every key. -/
theorem C19_labels_order_irrelevant (opt : Optimizer) (L : KV Rat → Rat) (bounds : KV (Rat × Rat))
    (x0 x0' : KV Rat) (samples : List (KV Rat))
    (hnd : (bounds.map Prod.fst).Nodup)
    (hperm : (x0.map Prod.fst).Perm (bounds.map Prod.fst))
    (hsamples : ∀ s ∈ samples, s.map Prod.fst = bounds.map Prod.fst)
    (hxx : x0.Perm x0')
    (hL : ∀ a b : KV Rat, a.Perm b → L a = L b)
    (hopt : LabelEquivariant opt) :
    ∃ p p' f runs,
      runLabelled .repaired opt L bounds x0 samples = some (p, f, runs) ∧
      runLabelled .repaired opt L bounds x0' samples = some (p', f, runs) ∧
      p.Perm p' ∧ ∀ k, lookup p k = lookup p' k :=
  order_irrelevant_of_subset opt L bounds x0 x0' samples
    (hperm.nodup_iff.2 hnd)
    (fun k hk => hperm.subset hk)
    (fun s hs k hk => by rw [hsamples s hs]; exact hperm.subset hk)
    hxx hL hopt

/-! ### the two defective variants, on one closed instance

Two parameters `N ∈ [10, 20]` and `m ∈ [0, 1]` (disjoint boxes), `bounds` lists `N, m`, the user lists
`x0 = {m: 1/2, N: 15}`, one sampled start point `{N: 12, m: 1/4}`, the optimiser projects its start
point onto the boxes it is given, the loss is `(N - 12)² + (m - 1/4)²` (so the sampled start wins). -/

def exBounds : KV (Rat × Rat) := [("N", (10, 20)), ("m", (0, 1))]
def exX0 : KV Rat := [("m", 1/2), ("N", 15)]
def exSamples : List (KV Rat) := [[("N", 12), ("m", 1/4)]]
def exLoss : KV Rat → Rat := fun d =>
  ((lookup d "N").getD 0 - 12) ^ 2 + ((lookup d "m").getD 0 - 1/4) ^ 2

/-- The instance satisfies every hypothesis of `C19_labels_within_bounds` (non-vacuity). -/
theorem ex_hypotheses :
    (exBounds.map Prod.fst).Nodup ∧
    (exX0.map Prod.fst).Perm (exBounds.map Prod.fst) ∧
    (∀ s ∈ exSamples, s.map Prod.fst = exBounds.map Prod.fst) ∧
    (∀ kb ∈ exBounds, kb.2.1 ≤ kb.2.2) ∧
    RespectsBoxes clampOpt := by
  refine ⟨by decide +kernel, List.Perm.swap _ _ _, by decide +kernel, by decide +kernel,
    clampOpt_respectsBoxes⟩

/-- … and the repaired `_run` reports `{m: 1/4, N: 12}`, both inside their own boxes, with the loss
`0` that the loss function has there. -/
theorem ex_repaired :
    runLabelled .repaired clampOpt exLoss exBounds exX0 exSamples
      = some ([("m", 1/4), ("N", 12)], 0, [145/16, 0]) ∧
    inOwnBox exBounds "m" (1/4) = true ∧ inOwnBox exBounds "N" 12 = true ∧
    exLoss [("m", 1/4), ("N", 12)] = 0 := by
  decide +kernel

/-- **The defect of the pinned `_run`**: on the instance above (which satisfies all hypotheses of
`C19_labels_within_bounds`) the sampled start point wins; its vector `(N, m) = (12, 1/4)` is in
`bounds` order but gets labelled with `x0`'s keys `(m, N)`: `params_inferred = {m: 12, N: 1/4}` —
the names are swapped, BOTH values lie outside their own boxes, and `loss_inferred = 0` is not the loss
`2209/8` at `params_inferred`.  So the conclusion of `C19_labels_within_bounds` fails for `.pinned`
(while it holds for `.repaired`, `ex_repaired`). -/
theorem C19_labels_pinned_counterexample :
    runLabelled .pinned clampOpt exLoss exBounds exX0 exSamples
      = some ([("m", 12), ("N", 1/4)], 0, [145/16, 0]) ∧
    inOwnBox exBounds "m" 12 = false ∧ inOwnBox exBounds "N" (1/4) = false ∧
    exLoss [("m", 12), ("N", 1/4)] = 2209/8 ∧
    ¬ ∃ p f runs, runLabelled .pinned clampOpt exLoss exBounds exX0 exSamples = some (p, f, runs) ∧
      (∀ kv ∈ p, ∃ b, lookup exBounds kv.1 = some b ∧ b.1 ≤ kv.2 ∧ kv.2 ≤ b.2) := by
  have h : runLabelled .pinned clampOpt exLoss exBounds exX0 exSamples
      = some ([("m", 12), ("N", 1/4)], 0, [145/16, 0]) := by decide +kernel
  refine ⟨h, by decide +kernel, by decide +kernel, by decide +kernel, ?_⟩
  rintro ⟨p, f, runs, hrun, hin⟩
  rw [h] at hrun
  obtain ⟨rfl, -, -⟩ := Prod.mk.inj (Option.some.inj hrun)
  obtain ⟨b, hb, -, h2⟩ := hin ("m", 12) (by simp)
  have hb' : lookup exBounds "m" = some ((0 : Rat), (1 : Rat)) := by decide +kernel
  rw [hb'] at hb
  obtain rfl := Option.some.inj hb
  exact absurd h2 (by decide +kernel)

/-- … and the reported loss is not the loss at the reported parameters. -/
theorem C19_labels_pinned_loss_mismatch :
    ¬ ∃ p f runs, runLabelled .pinned clampOpt exLoss exBounds exX0 exSamples = some (p, f, runs) ∧
      f = exLoss p := by
  rintro ⟨p, f, runs, hrun, hf⟩
  rw [C19_labels_pinned_counterexample.1] at hrun
  obtain ⟨rfl, hrest⟩ := Prod.mk.inj (Option.some.inj hrun)
  obtain ⟨rfl, -⟩ := Prod.mk.inj hrest
  rw [C19_labels_pinned_counterexample.2.2.2.1] at hf
  exact absurd hf (by decide +kernel)

/-- **The seeded `_optimize` with `list(bounds.values())`**: same instance; every run is given the
boxes in `bounds` order `(N, m)` for a vector in `x0` order `(m, N)`, so the optimiser confines `m` to
`[10, 20]` and `N` to `[0, 1]`: `params_inferred = {m: 10, N: 1}`, both outside their own boxes. -/
theorem C19_labels_boundsValues_counterexample :
    runLabelled .boundsValues clampOpt exLoss exBounds exX0 exSamples
      = some ([("m", 10), ("N", 1)], 3457/16, [3457/16, 3457/16]) ∧
    inOwnBox exBounds "m" 10 = false ∧ inOwnBox exBounds "N" 1 = false ∧
    ¬ ∃ p f runs, runLabelled .boundsValues clampOpt exLoss exBounds exX0 exSamples = some (p, f, runs) ∧
      (∀ kv ∈ p, ∃ b, lookup exBounds kv.1 = some b ∧ b.1 ≤ kv.2 ∧ kv.2 ≤ b.2) := by
  have h : runLabelled .boundsValues clampOpt exLoss exBounds exX0 exSamples
      = some ([("m", 10), ("N", 1)], 3457/16, [3457/16, 3457/16]) := by decide +kernel
  refine ⟨h, by decide +kernel, by decide +kernel, ?_⟩
  rintro ⟨p, f, runs, hrun, hin⟩
  rw [h] at hrun
  obtain ⟨rfl, -, -⟩ := Prod.mk.inj (Option.some.inj hrun)
  obtain ⟨b, hb, -, h2⟩ := hin ("m", 10) (by simp)
  have hb' : lookup exBounds "m" = some ((0 : Rat), (1 : Rat)) := by decide +kernel
  rw [hb'] at hb
  obtain rfl := Option.some.inj hb
  exact absurd h2 (by decide +kernel)

/-- The general theorem instantiated at the example (its hypotheses are satisfiable). -/
theorem ex_theorem_applies :
    ∃ p f runs, runLabelled .repaired clampOpt exLoss exBounds exX0 exSamples = some (p, f, runs) ∧
      p.map Prod.fst = exX0.map Prod.fst ∧
      (∀ kv ∈ p, ∃ b, lookup exBounds kv.1 = some b ∧ b.1 ≤ kv.2 ∧ kv.2 ≤ b.2) ∧
      f = exLoss p ∧
      runs.length = exSamples.length + 1 ∧
      (∀ r ∈ runs, f ≤ r) ∧ f ∈ runs :=
  C19_labels_within_bounds clampOpt exLoss exBounds exX0 exSamples
    ex_hypotheses.1 ex_hypotheses.2.1 ex_hypotheses.2.2.1 ex_hypotheses.2.2.2.1 ex_hypotheses.2.2.2.2

/-- A loss that only depends on the content of the dict (for EVERY association list, also with
repeated keys): the sum of one term per entry; on dicts with keys `N`, `m` it equals `exLoss`. -/
def exLossSum : KV Rat → Rat := fun d =>
  (d.map fun kv => if kv.1 = "N" then (kv.2 - 12) ^ 2 else (kv.2 - 1/4) ^ 2).sum

/-- The hypotheses of `C19_labels_order_irrelevant` are satisfiable (`clampOpt`, `exLossSum`, the
instance above and its listing in `bounds` order), and both listings report `N = 12`, `m = 1/4`. -/
theorem ex_order_irrelevant :
    (∀ a b : KV Rat, a.Perm b → exLossSum a = exLossSum b) ∧ LabelEquivariant clampOpt ∧
    exX0.Perm [("N", 15), ("m", 1/2)] ∧
    runLabelled .repaired clampOpt exLossSum exBounds exX0 exSamples
      = some ([("m", 1/4), ("N", 12)], 0, [145/16, 0]) ∧
    runLabelled .repaired clampOpt exLossSum exBounds [("N", 15), ("m", 1/2)] exSamples
      = some ([("N", 12), ("m", 1/4)], 0, [145/16, 0]) :=
  ⟨fun _ _ h => (h.map _).sum_eq, clampOpt_labelEquivariant, List.Perm.swap _ _ _,
    by decide +kernel, by decide +kernel⟩

end PG.Inference

#print axioms PG.Inference.C19_labels_within_bounds
#print axioms PG.Inference.C19_labels_lookup_within_bounds
#print axioms PG.Inference.C19_labels_pinned_counterexample
#print axioms PG.Inference.C19_labels_pinned_loss_mismatch
#print axioms PG.Inference.C19_labels_boundsValues_counterexample
#print axioms PG.Inference.C19_labels_order_irrelevant
#print axioms PG.Inference.ex_hypotheses
#print axioms PG.Inference.ex_repaired
#print axioms PG.Inference.ex_theorem_applies
#print axioms PG.Inference.ex_order_irrelevant
#print axioms PG.InfLab.clampOpt_respectsBoxes
#print axioms PG.InfLab.clampOpt_labelEquivariant
#print axioms PG.InfLab.runLabelled_eq_labelResults
#print axioms PG.InfLab.runLabelled_some
#print axioms PG.InfLab.boxes_eq_boxKeyOrder
#print axioms PG.InfLab.labels_eq_labelKeyOrder
