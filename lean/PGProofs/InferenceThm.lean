/-
PGProofs.InferenceThm — theorems about `PGModel.Inference` (property C19).

* `bestOf_spec`, `bestOf_eq_fold`   `bestOf` is the first minimum, and equals CPython's left-to-right `min`
* `C19_best`                        what `_run` stores
* `addRuns_spec`, `C19_merge`       merging is order independent and keeps the global minimum
* `addRun_not_run`                  merging an object that was not run raises and changes nothing
* `C19_bootstrap_rows`              every successful `add_bootstrap` appends exactly one row
* `C19_create_run`                  repaired `create_run` starts from the given values, rejected iff out of bounds
* `create_run_pinned_defect`        the pinned version does not
-/
import PGModel.Inference
import Mathlib.Data.List.Perm.Basic
import Mathlib.Data.List.Perm.Lattice
import Mathlib.Data.Rat.Defs
import Mathlib.Algebra.Order.Ring.Rat
import Mathlib.Order.Basic

namespace PG.Inference

/-- `b` is the first element of `rs` attaining the minimal objective value. -/
def FirstMin (rs : List Run) (b : Run) : Prop :=
  ∃ pre post, rs = pre ++ b :: post ∧ (∀ r ∈ pre, b.f < r.f) ∧ (∀ r ∈ post, b.f ≤ r.f)

theorem FirstMin.mem {rs : List Run} {b : Run} (h : FirstMin rs b) : b ∈ rs := by
  obtain ⟨pre, post, rfl, _, _⟩ := h; simp

theorem FirstMin.le {rs : List Run} {b : Run} (h : FirstMin rs b) : ∀ r ∈ rs, b.f ≤ r.f := by
  obtain ⟨pre, post, rfl, h1, h2⟩ := h
  intro r hr
  simp only [List.mem_append, List.mem_cons] at hr
  rcases hr with hr | rfl | hr
  · exact le_of_lt (h1 r hr)
  · exact le_refl _
  · exact h2 r hr

theorem bestOf_ne_nil {rs : List Run} (h : rs ≠ []) : ∃ b, bestOf rs = some b := by
  cases rs with
  | nil => exact absurd rfl h
  | cons r rs =>
    simp only [bestOf]
    cases bestOf rs with
    | none => exact ⟨r, rfl⟩
    | some b => by_cases hb : b.f < r.f <;> simp [hb]

/-- `bestOf` returns the first minimum (what Python's `min(results, key=…)` returns). -/
theorem bestOf_spec {rs : List Run} {b : Run} (h : bestOf rs = some b) : FirstMin rs b := by
  induction rs generalizing b with
  | nil => simp [bestOf] at h
  | cons r rs ih =>
    simp only [bestOf] at h
    cases hb : bestOf rs with
    | none =>
      rw [hb] at h
      simp only [Option.some.injEq] at h
      subst h
      have : rs = [] := by
        by_contra hne
        obtain ⟨c, hc⟩ := bestOf_ne_nil hne
        rw [hc] at hb; exact absurd hb (by simp)
      subst this
      exact ⟨[], [], rfl, by simp, by simp⟩
    | some c =>
      rw [hb] at h
      obtain ⟨pre, post, hrs, h1, h2⟩ := ih hb
      by_cases hlt : c.f < r.f
      · simp only [hlt, if_true, Option.some.injEq] at h
        subst h
        refine ⟨r :: pre, post, by rw [hrs]; rfl, ?_, h2⟩
        intro x hx
        rcases List.mem_cons.1 hx with rfl | hx
        · exact hlt
        · exact h1 x hx
      · simp only [hlt, if_false, Option.some.injEq] at h
        subst h
        have hle : r.f ≤ c.f := not_lt.1 hlt
        refine ⟨[], rs, rfl, by simp, ?_⟩
        intro x hx
        exact le_trans hle ((FirstMin.le ⟨pre, post, hrs, h1, h2⟩) x hx)

/-! ### `bestOf` is CPython's left fold -/

private def g (b c : Run) : Run := if c.f < b.f then c else b

private theorem foldl_g_le (rs : List Run) (a : Run) : (rs.foldl g a).f ≤ a.f := by
  induction rs generalizing a with
  | nil => exact le_refl _
  | cons c rs ih =>
    simp only [List.foldl_cons]
    refine le_trans (ih _) ?_
    unfold g
    by_cases h : c.f < a.f
    · simp only [h, if_true]; exact le_of_lt h
    · simp [h]

private theorem foldl_g_shift (rs : List Run) (a a' : Run) (h : a.f ≤ a'.f) :
    rs.foldl g a = if (rs.foldl g a').f < a.f then rs.foldl g a' else a := by
  induction rs generalizing a a' with
  | nil => simp [not_lt.2 h]
  | cons c rs ih =>
    simp only [List.foldl_cons]
    by_cases hc : c.f < a.f
    · have hc' : c.f < a'.f := lt_of_lt_of_le hc h
      have e1 : g a c = c := by simp [g, hc]
      have e2 : g a' c = c := by simp [g, hc']
      have : (rs.foldl g c).f < a.f := lt_of_le_of_lt (foldl_g_le rs c) hc
      simp only [e1, e2, this, if_true]
    · have e1 : g a c = a := by simp [g, hc]
      rw [e1]
      apply ih
      unfold g
      by_cases hc' : c.f < a'.f
      · simp only [hc', if_true]; exact not_lt.1 hc
      · simp only [hc', if_false]; exact h

/-- The recursive `bestOf` is the left-to-right iteration `min` performs. -/
theorem bestOf_eq_fold (rs : List Run) : bestOf rs = bestOfFold rs := by
  induction rs with
  | nil => rfl
  | cons r rs ih =>
    cases rs with
    | nil => simp [bestOf, bestOfFold]
    | cons r' rs =>
      rw [bestOf, ih]
      simp only [bestOfFold, List.foldl_cons]
      show (if (rs.foldl g r').f < r.f then some (rs.foldl g r') else some r) = some (rs.foldl g (g r r'))
      by_cases h : r'.f < r.f
      · have e : g r r' = r' := by simp [g, h]
        rw [e]
        have : (rs.foldl g r').f < r.f := lt_of_le_of_lt (foldl_g_le rs r') h
        simp [this]
      · have e : g r r' = r := by simp [g, h]
        rw [e, foldl_g_shift rs r r' (not_lt.1 h)]
        by_cases h2 : (rs.foldl g r').f < r.f <;> simp [h2]

/-! ### C19: `_run` -/

/-- **C19 (best run)**: after `_run` with a non-empty list of optimiser results, the stored result
is the first element of the list attaining the minimal objective; `loss_inferred` is that minimum,
`params_inferred` its point, `loss_runs` the list of all objective values, bootstraps untouched. -/
theorem C19_best (s : State) (rs : List Run) (hne : rs ≠ []) :
    ∃ s' b, runWith s rs = .ok s' ∧ s'.best = some b ∧
      FirstMin rs b ∧ b ∈ rs ∧ (∀ r ∈ rs, b.f ≤ r.f) ∧
      s'.lossInferred = some b.f ∧ b.f ∈ rs.map (·.f) ∧ (∀ y ∈ rs.map (·.f), b.f ≤ y) ∧
      s'.paramsInferred = some b.x ∧
      s'.lossRuns = rs.map (·.f) ∧ s'.bootstraps = s.bootstraps ∧ s'.ran = true := by
  obtain ⟨b, hb⟩ := bestOf_ne_nil hne
  have hf := bestOf_spec hb
  refine ⟨{ s with best := some b, lossRuns := rs.map (·.f) }, b, ?_, rfl, hf, hf.mem, hf.le,
    rfl, List.mem_map.2 ⟨b, hf.mem, rfl⟩, ?_, rfl, rfl, rfl, rfl⟩
  · simp [runWith, hb]
  · intro y hy
    obtain ⟨r, hr, rfl⟩ := List.mem_map.1 hy
    exact hf.le r hr

theorem runWith_nil (s : State) : runWith s [] = .error .valueError := rfl

/-! ### C19: merging -/

/-- All results that take part in a merge: the one already stored and those of the merged objects. -/
def candidates (s : State) (l : List State) : List Run :=
  s.best.toList ++ l.filterMap (·.best)

/-- `b` has the least objective value among `cs`. -/
def IsGlobalMin (cs : List Run) (b : Run) : Prop := b ∈ cs ∧ ∀ c ∈ cs, b.f ≤ c.f

theorem addRun_ok (s o : State) (r : Run) (h : o.best = some r) :
    ∃ s', addRun s o = .ok s' ∧ s'.lossRuns = s.lossRuns ++ o.lossRuns ∧
      s'.bootstraps = s.bootstraps ∧
      ∃ b, s'.best = some b ∧ IsGlobalMin (s.best.toList ++ [r]) b := by
  unfold addRun
  rw [h]
  refine ⟨_, rfl, rfl, rfl, ?_⟩
  cases hs : s.best with
  | none => exact ⟨r, rfl, by simp [IsGlobalMin]⟩
  | some b0 =>
    by_cases hlt : r.f < b0.f
    · refine ⟨r, by simp [hlt], by simp, ?_⟩
      intro c hc
      simp only [Option.toList_some, List.cons_append, List.nil_append, List.mem_cons,
        List.not_mem_nil, or_false] at hc
      rcases hc with rfl | rfl
      · exact le_of_lt hlt
      · exact le_refl _
    · refine ⟨b0, by simp [hlt], by simp, ?_⟩
      intro c hc
      simp only [Option.toList_some, List.cons_append, List.nil_append, List.mem_cons,
        List.not_mem_nil, or_false] at hc
      rcases hc with rfl | rfl
      · exact le_refl _
      · exact not_lt.1 hlt

/-- Folding `add_run` over objects that have all been run succeeds; `loss_runs` is the concatenation
and the stored result is a global minimum over everything that took part. -/
theorem addRuns_spec (s : State) (l : List State) (hran : ∀ o ∈ l, o.ran = true) :
    ∃ s', addRuns s l = .ok s' ∧
      s'.lossRuns = s.lossRuns ++ l.flatMap (·.lossRuns) ∧
      s'.bootstraps = s.bootstraps ∧
      (candidates s l = [] → s'.best = none) ∧
      (candidates s l ≠ [] → ∃ b, s'.best = some b ∧ IsGlobalMin (candidates s l) b) := by
  induction l generalizing s with
  | nil =>
    refine ⟨s, rfl, by simp, rfl, ?_, ?_⟩
    · intro h
      cases hb : s.best with
      | none => rfl
      | some b => simp [candidates, hb] at h
    · intro h
      cases hb : s.best with
      | none => simp [candidates, hb] at h
      | some b => exact ⟨b, rfl, by simp [candidates, hb, IsGlobalMin]⟩
  | cons o l ih =>
    have ho : o.ran = true := hran o List.mem_cons_self
    obtain ⟨r, hr⟩ : ∃ r, o.best = some r := by
      simp only [State.ran] at ho
      exact Option.isSome_iff_exists.1 ho
    obtain ⟨s1, h1, hl1, hb1, b1, hbest1, hmin1⟩ := addRun_ok s o r hr
    obtain ⟨s2, h2, hl2, hb2, _, hsome2⟩ := ih s1 (fun o' ho' => hran o' (List.mem_cons_of_mem _ ho'))
    have hc1 : candidates s1 l = b1 :: l.filterMap (·.best) := by simp [candidates, hbest1]
    have hc : candidates s (o :: l) = s.best.toList ++ r :: l.filterMap (·.best) := by
      simp [candidates, hr]
    obtain ⟨b2, hbest2, hmem2, hle2⟩ := hsome2 (by rw [hc1]; simp)
    refine ⟨s2, ?_, ?_, by rw [hb2, hb1], ?_, ?_⟩
    · simp only [addRuns, List.foldlM_cons, h1]; exact h2
    · rw [hl2, hl1]; simp
    · intro h; rw [hc] at h; simp at h
    · intro _
      refine ⟨b2, hbest2, ?_, ?_⟩
      · rw [hc1] at hmem2
        rw [hc]
        rcases List.mem_cons.1 hmem2 with rfl | hm
        · have := hmin1.1
          simp only [List.mem_append, List.mem_cons, List.not_mem_nil, or_false] at this ⊢
          rcases this with h | h
          · exact Or.inl h
          · exact Or.inr (Or.inl h)
        · simp only [List.mem_append, List.mem_cons]; exact Or.inr (Or.inr hm)
      · intro c hcm
        rw [hc] at hcm
        have hb2b1 : b2.f ≤ b1.f := hle2 b1 (by rw [hc1]; exact List.mem_cons_self)
        simp only [List.mem_append, List.mem_cons] at hcm
        rcases hcm with h | rfl | h
        · exact le_trans hb2b1 (hmin1.2 c (by simp [h]))
        · exact le_trans hb2b1 (hmin1.2 c (by simp))
        · exact hle2 c (by rw [hc1]; exact List.mem_cons_of_mem _ h)

theorem IsGlobalMin.unique_value {cs cs' : List Run} {b b' : Run} (hp : cs.Perm cs')
    (h : IsGlobalMin cs b) (h' : IsGlobalMin cs' b') : b.f = b'.f :=
  le_antisymm (h.2 b' (hp.mem_iff.2 h'.1)) (h'.2 b (hp.mem_iff.1 h.1))

/-- **C19 (merge)**: merging the same run objects in any two orders succeeds in both, gives the same
`loss_inferred` — the global minimum over the object's own result and all merged results, attained
by the stored point — and `loss_runs` that are permutations of each other (each the concatenation
in its own order). -/
theorem C19_merge (s : State) (l₁ l₂ : List State) (hp : l₁.Perm l₂)
    (hran : ∀ o ∈ l₁, o.ran = true) :
    ∃ s₁ s₂, addRuns s l₁ = .ok s₁ ∧ addRuns s l₂ = .ok s₂ ∧
      s₁.lossInferred = s₂.lossInferred ∧
      s₁.lossRuns.Perm s₂.lossRuns ∧
      s₁.lossRuns = s.lossRuns ++ l₁.flatMap (·.lossRuns) ∧
      (candidates s l₁ ≠ [] → ∃ b, s₁.best = some b ∧ IsGlobalMin (candidates s l₁) b) ∧
      s₁.bootstraps = s.bootstraps ∧ s₂.bootstraps = s.bootstraps := by
  have hran₂ : ∀ o ∈ l₂, o.ran = true := fun o ho => hran o (hp.mem_iff.2 ho)
  obtain ⟨s₁, h1, hl1, hb1, hn1, hs1⟩ := addRuns_spec s l₁ hran
  obtain ⟨s₂, h2, hl2, hb2, hn2, hs2⟩ := addRuns_spec s l₂ hran₂
  have hcp : (candidates s l₁).Perm (candidates s l₂) :=
    List.Perm.append_left _ (hp.filterMap _)
  refine ⟨s₁, s₂, h1, h2, ?_, ?_, hl1, hs1, hb1, hb2⟩
  · by_cases hc : candidates s l₁ = []
    · have hc2 : candidates s l₂ = [] := by
        have := hcp.length_eq; rw [hc] at this
        exact List.length_eq_zero_iff.1 this.symm
      simp [State.lossInferred, hn1 hc, hn2 hc2]
    · have hc2 : candidates s l₂ ≠ [] := by
        intro h; apply hc
        have := hcp.length_eq; rw [h] at this
        exact List.length_eq_zero_iff.1 this
      obtain ⟨b, hb, hm⟩ := hs1 hc
      obtain ⟨b', hb', hm'⟩ := hs2 hc2
      simp only [State.lossInferred, hb, hb', Option.map_some, Option.some.injEq]
      exact IsGlobalMin.unique_value hcp hm hm'
  · rw [hl1, hl2]
    exact List.Perm.append_left _ (hp.flatMap_right _)

/-- Merging an object that has not been run raises `RuntimeError`; a harness that catches it sees
the object unchanged. -/
theorem addRun_not_run (s o : State) (h : o.ran = false) :
    addRun s o = .error .runtimeError ∧ replay s [.addRun none] = (s, [0]) := by
  constructor
  · have : o.best = none := by simpa [State.ran] using h
    simp [addRun, this]
  · rfl

/-- `add_runs` over a list containing an object that has not been run fails. -/
theorem addRuns_not_run (s : State) (l : List State) (o : State) (ho : o ∈ l) (h : o.ran = false) :
    addRuns s l = .error .runtimeError := by
  induction l generalizing s with
  | nil => simp at ho
  | cons a l ih =>
    simp only [addRuns, List.foldlM_cons]
    cases ha : a.best with
    | none => simp [addRun, ha]; rfl
    | some r =>
      rcases List.mem_cons.1 ho with rfl | ho'
      · simp [State.ran, ha] at h
      · obtain ⟨s', hs', _⟩ := addRun_ok s a r ha
        rw [hs']
        exact ih s' ho'

/-! ### C19: bootstraps -/

/-- **C19 (bootstrap rows)**: `add_bootstrap(dict)` appends exactly that row; `add_bootstrap(other)`
raises iff `other` was not run and otherwise appends exactly the row of `other`'s inferred
parameters; neither touches the stored result or `loss_runs`. -/
theorem C19_bootstrap_rows (s o : State) (p : List Rat) :
    ((addBootstrapDict s p).bootstraps = s.bootstraps ++ [p] ∧
      (addBootstrapDict s p).bootstraps.length = s.bootstraps.length + 1 ∧
      (addBootstrapDict s p).best = s.best ∧ (addBootstrapDict s p).lossRuns = s.lossRuns) ∧
    (o.ran = false → addBootstrapInf s o = .error .runtimeError) ∧
    (∀ s', addBootstrapInf s o = .ok s' →
      ∃ r, o.best = some r ∧ s'.bootstraps = s.bootstraps ++ [r.x] ∧
        s'.bootstraps.length = s.bootstraps.length + 1 ∧
        s'.best = s.best ∧ s'.lossRuns = s.lossRuns) := by
  refine ⟨⟨rfl, by simp [addBootstrapDict], rfl, rfl⟩, ?_, ?_⟩
  · intro h
    have : o.best = none := by simpa [State.ran] using h
    simp [addBootstrapInf, this]
  · intro s' hs'
    unfold addBootstrapInf at hs'
    cases hb : o.best with
    | none => rw [hb] at hs'; simp at hs'
    | some r =>
      rw [hb] at hs'
      simp only [Except.ok.injEq] at hs'
      subst hs'
      exact ⟨r, rfl, rfl, by simp [addBootstrapDict], rfl, rfl⟩

/-- Along any replayed history the number of bootstrap rows grows by one per successful
`add_bootstrap` and by nothing else. -/
theorem step_rows (s s' : State) (op : Op) (h : step s op = .ok s') :
    s'.bootstraps.length = s.bootstraps.length +
      (match op with | .bootDict _ => 1 | .bootInf _ => 1 | _ => 0) := by
  cases op with
  | runWith rs =>
    simp only [step, runWith] at h
    split at h
    · simp at h
    · simp only [Except.ok.injEq] at h; subst h; rfl
  | addRun o =>
    simp only [step, addRun] at h
    split at h
    · simp at h
    · simp only [Except.ok.injEq] at h; subst h; rfl
  | bootDict p =>
    simp only [step, Except.ok.injEq] at h; subst h; simp [addBootstrapDict]
  | bootInf o =>
    obtain ⟨r, _, _, hl, _⟩ := (C19_bootstrap_rows s (otherOf o) []).2.2 s' h
    exact hl

/-! ### C19: `create_run` -/

/-- **C19 (create_run, repaired)**: with start values given, the child starts exactly there when they
are within the bounds and `create_run` raises `ValueError` otherwise — whatever the parent had cached
and whatever a fresh sample would have been.  Without given values the child starts from a fresh
sample.  The parent's cached value is never used. -/
theorem C19_create_run (bounds : List (Rat × Rat)) (g : X0) (cached : Option X0) (smp : X0) :
    (inBounds bounds g = true → createRun true bounds (some g) cached smp = .ok g) ∧
    (inBounds bounds g = false → createRun true bounds (some g) cached smp = .error .valueError) ∧
    (∀ x, createRun true bounds (some g) cached smp = .ok x → x = g ∧ inBounds bounds g = true) ∧
    (createRun true bounds none cached smp
      = if inBounds bounds smp then .ok smp else .error .valueError) ∧
    (∀ given cached', createRun true bounds given cached smp = createRun true bounds given cached' smp) := by
  refine ⟨?_, ?_, ?_, ?_, ?_⟩
  · intro h; simp [createRun, startOf, h]
  · intro h; simp [createRun, startOf, h]
  · intro x hx
    by_cases h : inBounds bounds g = true
    · simp [createRun, startOf, h] at hx; exact ⟨hx.symm, h⟩
    · simp [createRun, startOf, h] at hx
  · simp [createRun, startOf]
  · intro given cached'; cases given <;> rfl

/-- **The defect of the pinned `create_run`**: bounds `[0, 1]`, the parent has cached `x0 = 1`
(it has been run), the caller asks for a child starting at `5` (out of bounds) or at `0`:
the pinned version accepts both and starts both children at the parent's `1`;
the repaired version rejects the first and starts the second at `0`. -/
theorem create_run_pinned_defect :
    createRun false [(0, 1)] (some [5]) (some [1]) [0] = .ok [1] ∧
    createRun true [(0, 1)] (some [5]) (some [1]) [0] = .error .valueError ∧
    createRun false [(0, 1)] (some [0]) (some [1]) [1] = .ok [1] ∧
    createRun true [(0, 1)] (some [0]) (some [1]) [1] = .ok [0] := by
  decide

/-- Small concrete histories (`decide`): first minimum on ties, strict improvement on merge. -/
theorem examples :
    bestOf [⟨[1], 3⟩, ⟨[2], 1⟩, ⟨[3], 1⟩] = some ⟨[2], 1⟩ ∧
    (replay State.fresh [.runWith [⟨[1], 3⟩, ⟨[2], 2⟩], .addRun (some [⟨[7], 2⟩]),
        .addRun none, .addRun (some [⟨[8], 1⟩, ⟨[9], 4⟩]), .bootDict [5], .bootInf none]).1
      = { best := some ⟨[8], 1⟩, lossRuns := [3, 2, 2, 1, 4], bootstraps := [[5]] } ∧
    (replay State.fresh [.runWith [⟨[1], 3⟩, ⟨[2], 2⟩], .addRun (some [⟨[7], 2⟩]),
        .addRun none, .addRun (some [⟨[8], 1⟩, ⟨[9], 4⟩]), .bootDict [5], .bootInf none]).2
      = [2, 5] := by
  decide

end PG.Inference

#print axioms PG.Inference.bestOf_spec
#print axioms PG.Inference.bestOf_eq_fold
#print axioms PG.Inference.C19_best
#print axioms PG.Inference.addRuns_spec
#print axioms PG.Inference.C19_merge
#print axioms PG.Inference.addRun_not_run
#print axioms PG.Inference.addRuns_not_run
#print axioms PG.Inference.C19_bootstrap_rows
#print axioms PG.Inference.step_rows
#print axioms PG.Inference.C19_create_run
#print axioms PG.Inference.create_run_pinned_defect
#print axioms PG.Inference.examples
