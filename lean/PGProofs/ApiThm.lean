/-
PGProofs.ApiThm — the call layer of `PhaseTypeDistribution.moment` / `accumulate` (`PGModel/Api.lean`):

0. normal form: `accumulateCall` = (an exception that depends on the end times only through "some time is
   negative") or (the per-time value `accAt` at every end time);
1. a reward tuple whose length differs from the order is rejected (every flag, every list of times, order 0
   with a non-empty tuple, negative orders);
2. an explicit `end_time = 0` / `start_time = 0` is honoured;
3. `None` is the default, for defaults of any value;
4. window arithmetic: `moment[a, b] = acc(b) - acc(a)` for `a > 0`, additivity over adjacent windows, the
   boundary `a = 0`;
5. the three end-time routes agree;
6. order 0 returns ones without looking at the times;
7. closed instances: the seeded variants `noLengthCheck` / `falsyTimes` violate 1. / 2., every hypothesis
   above is satisfiable.
All statements quantify over every `raw`, every reward type, every order and every flag.
-/
import Mathlib.Tactic.Ring
import Mathlib.Tactic.Linarith
import PGModel.Api
import PGProofs.MomentsThm

namespace PG.Api

variable {ρ : Type}

/-- decidable equality of results (for the closed instances of section 7); a named instance inside the namespace -/
instance instDecEqExcept {ε α : Type} [DecidableEq ε] [DecidableEq α] : DecidableEq (Except ε α)
  | .ok a, .ok b => if h : a = b then isTrue (by rw [h]) else isFalse (fun h' => h (Except.ok.inj h'))
  | .error a, .error b => if h : a = b then isTrue (by rw [h]) else isFalse (fun h' => h (Except.error.inj h'))
  | .ok _, .error _ => isFalse (fun h => by cases h)
  | .error _, .ok _ => isFalse (fun h => by cases h)

/-! ## 0. normal form -/

/-- The exception raised by `accumulate`, as a function of the variant, the order `k`, the number `n` of
rewards after resolution of `None`, the `center` flag and of whether some end time is negative. -/
def accErr (v : Variant) (k : Int) (n : Nat) (center neg : Bool) : Option ApiErr :=
  if v ≠ .noLengthCheck ∧ (n : Int) ≠ k then some .valueError
  else if k = 0 then none
  else if center = true ∧ k > 1 then
    if n = 0 then some .indexError
    else if neg then some .valueError
    else if n < k.toNat then some .indexError
    else none
  else if neg then some .valueError
  else if (n : Int) ≠ k then some .valueError
  else none

theorem accAt_order0 (ctx : DistCtx ρ) (rs : List ρ) (center permute : Bool) (t : Rat) :
    accAt ctx 0 rs center permute t = 1 := by
  simp [accAt, accumulateModel, uncentred]

theorem accAt_order0_fun (ctx : DistCtx ρ) (rs : List ρ) (center permute : Bool) :
    accAt ctx 0 rs center permute = fun _ => 1 :=
  funext (accAt_order0 ctx rs center permute)

theorem accumulateCall_eq (v : Variant) (ctx : DistCtx ρ) (k : Int) (rewards : Option (List ρ))
    (ts : List Rat) (center permute : Bool) :
    accumulateCall v ctx k rewards ts center permute =
      match accErr v k (resolveRewards ctx k rewards).length center (negTimes ts) with
      | some e => .error e
      | none => .ok (ts.map (accAt ctx k (resolveRewards ctx k rewards) center permute)) := by
  unfold accumulateCall accErr
  simp only []
  cases hrs : resolveRewards ctx k rewards with
  | nil =>
    split_ifs <;> simp_all [accAt_order0_fun]
  | cons r rs' =>
    split_ifs <;> simp_all [accAt_order0_fun]

/-- a negative end time can only add an exception -/
theorem accErr_mono {v : Variant} {k : Int} {n : Nat} {center neg : Bool}
    (h : accErr v k n center neg = none) : accErr v k n center false = none := by
  cases neg
  · exact h
  · unfold accErr at h ⊢
    split_ifs at h ⊢ <;> simp_all

theorem accumulateCall_ok_iff (v : Variant) (ctx : DistCtx ρ) (k : Int) (rewards : Option (List ρ))
    (ts : List Rat) (center permute : Bool) (l : List Rat) :
    accumulateCall v ctx k rewards ts center permute = .ok l ↔
      accErr v k (resolveRewards ctx k rewards).length center (negTimes ts) = none ∧
      l = ts.map (accAt ctx k (resolveRewards ctx k rewards) center permute) := by
  rw [accumulateCall_eq]
  cases accErr v k (resolveRewards ctx k rewards).length center (negTimes ts) <;> simp [eq_comm]

/-- a successful `accumulate` has one value per end time -/
theorem accumulateCall_length {v : Variant} {ctx : DistCtx ρ} {k : Int} {rewards : Option (List ρ)}
    {ts : List Rat} {center permute : Bool} {l : List Rat}
    (h : accumulateCall v ctx k rewards ts center permute = .ok l) : l.length = ts.length := by
  rw [accumulateCall_ok_iff] at h
  simp [h.2]

/-- `accumulate` treats its end times independently: entry `i` of `accumulate(…, ts)` is the single entry
of `accumulate(…, [ts[i]])`, which does not raise either. -/
theorem api_accumulate_pointwise {v : Variant} {ctx : DistCtx ρ} {k : Int} {rewards : Option (List ρ)}
    {ts : List Rat} {center permute : Bool} {l : List Rat}
    (h : accumulateCall v ctx k rewards ts center permute = .ok l) (i : Nat) (hi : i < ts.length) :
    accumulateCall v ctx k rewards [ts.getD i 0] center permute = .ok [l.getD i 0] := by
  rw [accumulateCall_ok_iff] at h ⊢
  obtain ⟨he, rfl⟩ := h
  refine ⟨?_, ?_⟩
  · cases hn : negTimes [ts.getD i 0]
    · exact accErr_mono he
    · have : negTimes ts = true := by
        simp only [negTimes, List.any_cons, List.any_nil, Bool.or_false, decide_eq_true_eq] at hn
        simp only [negTimes, List.any_eq_true, decide_eq_true_eq]
        exact ⟨ts.getD i 0, by simp [List.getD_eq_getElem?_getD, hi], hn⟩
      rw [this] at he
      exact he
  · simp [List.getD_eq_getElem?_getD, hi]

/-! ## 1. length mismatch -/

/-- A reward tuple whose length differs from the order is rejected with `ValueError` by `accumulate` and
by `moment`, whatever the flags, the times and the defaults (in particular order 0 with a non-empty
tuple, and any tuple with a negative order) — in every variant that kept the check of l.734. -/
theorem api_length_mismatch_rejected (v : Variant) (hv : v ≠ .noLengthCheck) (ctx : DistCtx ρ) (k : Int)
    (rs : List ρ) (h : (rs.length : Int) ≠ k) :
    (∀ (ts : List Rat) (center permute : Bool),
      accumulateCall v ctx k (some rs) ts center permute = .error .valueError) ∧
    (∀ (startTime endTime : Option Rat) (center permute : Bool),
      momentCall v ctx ⟨k, some rs, startTime, endTime, center, permute⟩ = .error .valueError) := by
  have hacc : ∀ (ts : List Rat) (center permute : Bool),
      accumulateCall v ctx k (some rs) ts center permute = .error .valueError := by
    intro ts center permute
    simp [accumulateCall, resolveRewards, hv, h]
  refine ⟨hacc, ?_⟩
  intro s e center permute
  unfold momentCall
  simp only []
  split_ifs <;> rw [hacc] <;> rfl

/-- Python: `[self.reward] * k` is `[]` for `k < 0` and no tuple has a negative length, so a negative
order is a `ValueError` in EVERY variant (l.734, or the length check of `_accumulate`, l.810). -/
theorem api_negative_order_rejected (v : Variant) (ctx : DistCtx ρ) (k : Int) (hk : k < 0)
    (rewards : Option (List ρ)) :
    (∀ (ts : List Rat) (center permute : Bool),
      accumulateCall v ctx k rewards ts center permute = .error .valueError) ∧
    (∀ (startTime endTime : Option Rat) (center permute : Bool),
      momentCall v ctx ⟨k, rewards, startTime, endTime, center, permute⟩ = .error .valueError) := by
  have hacc : ∀ (ts : List Rat) (center permute : Bool),
      accumulateCall v ctx k rewards ts center permute = .error .valueError := by
    intro ts center permute
    rw [accumulateCall_eq]
    have hne : ((resolveRewards ctx k rewards).length : Int) ≠ k := by omega
    have h0 : k ≠ 0 := by omega
    have h1 : ¬ k > 1 := by omega
    unfold accErr
    split_ifs <;> simp_all
  refine ⟨hacc, ?_⟩
  intro s e center permute
  unfold momentCall
  simp only []
  split_ifs <;> rw [hacc] <;> rfl

/-! ## 2. explicit zeros -/

theorem resolveTime_some {v : Variant} (hv : v ≠ .falsyTimes) (x d : Rat) :
    resolveTime v (some x) d = x := by
  simp [resolveTime, hv]

theorem resolveTime_none (v : Variant) (d : Rat) : resolveTime v none d = d := rfl

/-- nothing accumulated at time `t` for non-empty tuples ⇒ every moment of order ≥ 1 is 0 at `t`,
uncentred or centred, permuted or not -/
theorem accAt_eq_zero (ctx : DistCtx ρ) (t : Rat) (h0 : ∀ l : List ρ, l ≠ [] → ctx.raw l t = 0)
    (k : Int) (rs : List ρ) (hne : rs.take k.toNat ≠ []) (center permute : Bool) :
    accAt ctx k rs center permute t = 0 := by
  let _ : Inhabited ρ := ⟨ctx.defaultReward⟩
  have hunc : ∀ (p : Bool) (l : List ρ), l ≠ [] → uncentred (fun l => ctx.raw l t) p l = 0 := by
    intro p l hl
    unfold uncentred
    have : l.isEmpty = false := by cases l <;> simp_all
    rw [this]
    cases p
    · simpa using h0 l hl
    · simp only [Bool.false_eq_true, if_false, if_true, permuted, sumV_eq_sum, smul_rat]
      have : ((perms l).map fun l => ctx.raw l t).sum = 0 := by
        apply List.sum_eq_zero
        intro x hx
        obtain ⟨q, hq, rfl⟩ := List.mem_map.mp hx
        apply h0
        intro hq0
        have := (mem_perms.mp hq).length_eq
        rw [hq0] at this
        exact hl (List.eq_nil_of_length_eq_zero this.symm)
      rw [this, mul_zero]
  show accumulateModel (fun l => ctx.raw l t) center permute (rs.take k.toNat) = 0
  generalize rs.take k.toNat = l at hne
  by_cases hc : center = true ∧ l.length > 1
  · obtain ⟨rfl, hk⟩ := hc
    rw [accumulate_center_eq _ permute l hk]
    apply Finset.sum_eq_zero
    intro A _
    by_cases hA : A = ∅
    · subst hA
      have : ∏ j ∈ Finset.range l.length \ ∅,
          uncentred (fun l => ctx.raw l t) true [l.getD j default] = 0 := by
        apply Finset.prod_eq_zero (i := 0)
        · simp; omega
        · exact hunc true _ (by simp)
      rw [this, mul_zero]
    · have : uncentred (fun l => ctx.raw l t) permute (subTuple l A) = 0 := by
        apply hunc
        intro h
        have hlen := congrArg List.length h
        simp [subTuple] at hlen
        exact hA hlen
      rw [this, mul_zero, zero_mul]
  · unfold accumulateModel
    simp only [hc, if_false]
    exact hunc permute l hne

/-- An explicit `end_time = 0` is honoured: with a resolved start time `≤ 0` the result is the accumulation at
end time 0 (not at the default horizon) … -/
theorem api_explicit_zero_end (v : Variant) (hv : v ≠ .falsyTimes) (ctx : DistCtx ρ) (c : MomentCall ρ)
    (he : c.endTime = some 0) (hs : resolveTime v c.startTime ctx.startDefault ≤ 0) :
    momentCall v ctx c =
      (accumulateCall v ctx c.k c.rewards [0] c.center c.permute).map fun l => l.getD 0 0 := by
  unfold momentCall
  simp only [he, resolveTime_some hv]
  rw [if_neg (not_lt.mpr hs)]

/-- … and when nothing is accumulated at time 0 (`raw rs 0 = 0` for non-empty `rs`) a moment of order
`k ≥ 1` with a tuple of the right length is exactly 0 there, centred or not. -/
theorem api_explicit_zero_end_value (ctx : DistCtx ρ) (c : MomentCall ρ)
    (he : c.endTime = some 0) (hs : resolveTime .current c.startTime ctx.startDefault ≤ 0)
    (hk : 1 ≤ c.k) (hlen : ∀ rs, c.rewards = some rs → (rs.length : Int) = c.k)
    (h0 : ∀ l : List ρ, l ≠ [] → ctx.raw l 0 = 0) :
    momentCall .current ctx c = .ok 0 := by
  rw [api_explicit_zero_end .current (by decide) ctx c he hs, accumulateCall_eq]
  have hn : ((resolveRewards ctx c.k c.rewards).length : Int) = c.k := by
    cases hr : c.rewards with
    | none => simp [resolveRewards]; omega
    | some rs => simpa [resolveRewards] using hlen rs hr
  have herr : accErr .current c.k (resolveRewards ctx c.k c.rewards).length c.center (negTimes [0]) = none := by
    have hneg : negTimes [0] = false := by decide
    have h1 : ¬ ((resolveRewards ctx c.k c.rewards).length < c.k.toNat) := by omega
    have h2 : (resolveRewards ctx c.k c.rewards).length ≠ 0 := by omega
    have h3 : c.k ≠ 0 := by omega
    rw [hneg]
    unfold accErr
    split_ifs <;> simp_all
  rw [herr]
  have hne : (resolveRewards ctx c.k c.rewards).take c.k.toNat ≠ [] := by
    intro h
    have := congrArg List.length h
    rw [List.length_take, List.length_nil] at this
    omega
  simp [Except.map, accAt_eq_zero ctx 0 h0 c.k _ hne]

/-- `accumulate` does not look at the default start time / horizon of the distribution -/
theorem accumulateCall_ctx_times (v : Variant) (ctx : DistCtx ρ) (d m : Rat) (k : Int)
    (rewards : Option (List ρ)) (ts : List Rat) (center permute : Bool) :
    accumulateCall v { ctx with startDefault := d, tMax := m } k rewards ts center permute =
      accumulateCall v ctx k rewards ts center permute := rfl

/-- An explicit `start_time = 0` overrides the start time of the distribution: the answer is the one of
a distribution whose default start time is 0 and does not depend on `startDefault`. -/
theorem api_explicit_zero_start (v : Variant) (hv : v ≠ .falsyTimes) (ctx : DistCtx ρ) (c : MomentCall ρ)
    (d : Rat) :
    momentCall v { ctx with startDefault := d } { c with startTime := some 0 } =
      momentCall v { ctx with startDefault := 0 } { c with startTime := none } := by
  unfold momentCall
  simp only [resolveTime_some hv, resolveTime_none]
  rfl

/-- a non-positive explicit start time (also a NEGATIVE one: `moment` has no check) is the start time 0 -/
theorem api_nonpositive_start_is_zero (v : Variant) (hv : v ≠ .falsyTimes) (ctx : DistCtx ρ)
    (c : MomentCall ρ) (s : Rat) (hs : s ≤ 0) :
    momentCall v ctx { c with startTime := some s } = momentCall v ctx { c with startTime := some 0 } := by
  unfold momentCall
  simp only [resolveTime_some hv]
  rw [if_neg (not_lt.mpr hs), if_neg (lt_irrefl 0)]

/-! ## 3. `None` is the default -/

theorem resolveTime_default (v : Variant) (d : Rat) : resolveTime v (some d) d = d := by
  simp [resolveTime]

/-- Passing `None` is passing the default explicitly — for every default (also 0), every variant. -/
theorem api_none_is_default (v : Variant) (ctx : DistCtx ρ) (c : MomentCall ρ) :
    momentCall v ctx { c with startTime := none } =
      momentCall v ctx { c with startTime := some ctx.startDefault } ∧
    momentCall v ctx { c with endTime := none } =
      momentCall v ctx { c with endTime := some ctx.tMax } ∧
    momentCall v ctx { c with rewards := none } =
      momentCall v ctx { c with rewards := some (List.replicate c.k.toNat ctx.defaultReward) } ∧
    (∀ (ts : List Rat), accumulateCall v ctx c.k none ts c.center c.permute =
      accumulateCall v ctx c.k (some (List.replicate c.k.toNat ctx.defaultReward)) ts c.center c.permute) := by
  refine ⟨?_, ?_, ?_, ?_⟩
  · unfold momentCall; simp only [resolveTime_none, resolveTime_default]; rfl
  · unfold momentCall; simp only [resolveTime_none, resolveTime_default]
  · rfl
  · intro ts; rfl

/-! ## 4. window arithmetic -/

/-- the call `moment(k, rewards, start_time=a, end_time=b, center, permute)` -/
abbrev MomentCall.window (c : MomentCall ρ) (a b : Rat) : MomentCall ρ :=
  { c with startTime := some a, endTime := some b }

/-- `moment[a, b]` with `a > 0` is literally `acc(b) - acc(a)` of ONE call `accumulate(…, [a, b])`. -/
theorem api_window_difference (v : Variant) (hv : v ≠ .falsyTimes) (ctx : DistCtx ρ) (c : MomentCall ρ)
    (a b : Rat) (ha : 0 < a) :
    momentCall v ctx (c.window a b) =
      (accumulateCall v ctx c.k c.rewards [a, b] c.center c.permute).map fun l => l.getD 1 0 - l.getD 0 0 := by
  unfold momentCall
  simp only [resolveTime_some hv]
  rw [if_pos ha]

theorem momentCall_window_zero (v : Variant) (hv : v ≠ .falsyTimes) (ctx : DistCtx ρ) (c : MomentCall ρ)
    (b : Rat) :
    momentCall v ctx (c.window 0 b) =
      (accumulateCall v ctx c.k c.rewards [b] c.center c.permute).map fun l => l.getD 0 0 := by
  unfold momentCall
  simp only [resolveTime_some hv]
  rw [if_neg (lt_irrefl 0)]

theorem negTimes_pair {a b : Rat} (ha : 0 < a) : negTimes [a, b] = negTimes [b] := by
  have : ¬ a < 0 := not_lt.mpr ha.le
  simp [negTimes, this]

theorem negTimes_single_pos {a : Rat} (ha : 0 < a) : negTimes [a] = false := by
  have : ¬ a < 0 := not_lt.mpr ha.le
  simp [negTimes, this]

/-- Adjacent windows add up, for every order, every flag (also centred), every variant with `is None`
resolution: `moment[0, a] + moment[a, b] = moment[0, b]` for `a > 0` (no relation between `a` and `b` is needed:
`moment` does not require `a ≤ b`, and for `b < a` the middle term is the negative `acc(b) - acc(a)`). -/
theorem api_window_additive (v : Variant) (hv : v ≠ .falsyTimes) (ctx : DistCtx ρ) (c : MomentCall ρ)
    (a b : Rat) (ha : 0 < a) (x y : Rat)
    (hx : momentCall v ctx (c.window 0 a) = .ok x) (hy : momentCall v ctx (c.window a b) = .ok y) :
    momentCall v ctx (c.window 0 b) = .ok (x + y) := by
  rw [momentCall_window_zero v hv] at hx ⊢
  rw [api_window_difference v hv ctx c a b ha] at hy
  rw [accumulateCall_eq] at hx hy ⊢
  rw [negTimes_pair ha] at hy
  cases he : accErr v c.k (resolveRewards ctx c.k c.rewards).length c.center (negTimes [b]) with
  | some e => rw [he] at hy; simp [Except.map] at hy
  | none =>
    rw [he] at hy
    cases he' : accErr v c.k (resolveRewards ctx c.k c.rewards).length c.center (negTimes [a]) with
    | some e => rw [he'] at hx; simp [Except.map] at hx
    | none =>
      rw [he'] at hx
      simp only [Except.map, List.map_cons, List.map_nil, List.getD_cons_zero, List.getD_cons_succ,
        Except.ok.injEq] at hx hy ⊢
      rw [← hx, ← hy]; ring

/-- the same, solved for the inner window: when the two moments from time 0 exist, so does the window
moment, and it is their difference -/
theorem api_window_is_difference_of_moments (v : Variant) (hv : v ≠ .falsyTimes) (ctx : DistCtx ρ)
    (c : MomentCall ρ) (a b : Rat) (ha : 0 < a) (x z : Rat)
    (hx : momentCall v ctx (c.window 0 a) = .ok x) (hz : momentCall v ctx (c.window 0 b) = .ok z) :
    momentCall v ctx (c.window a b) = .ok (z - x) := by
  rw [momentCall_window_zero v hv] at hx hz
  rw [api_window_difference v hv ctx c a b ha]
  rw [accumulateCall_eq] at hx hz ⊢
  rw [negTimes_pair ha]
  cases he : accErr v c.k (resolveRewards ctx c.k c.rewards).length c.center (negTimes [b]) with
  | some e => rw [he] at hz; simp [Except.map] at hz
  | none =>
    rw [he] at hz
    cases he' : accErr v c.k (resolveRewards ctx c.k c.rewards).length c.center (negTimes [a]) with
    | some e => rw [he'] at hx; simp [Except.map] at hx
    | none =>
      rw [he'] at hx
      simp only [Except.map, List.map_cons, List.map_nil, List.getD_cons_zero, List.getD_cons_succ,
        Except.ok.injEq] at hx hz ⊢
      rw [← hx, ← hz]

/-- The boundary `a = 0`: `start_time = 0` takes the single-`accumulate` route, so
`moment[0, 0] + moment[0, b] = moment[0, b]` holds iff `moment[0, 0] = acc(0) = 0` — true for orders `k ≥ 1`
when nothing is accumulated at time 0 … -/
theorem api_window_additive_at_zero (ctx : DistCtx ρ) (c : MomentCall ρ) (b : Rat)
    (hk : 1 ≤ c.k) (hlen : ∀ rs, c.rewards = some rs → (rs.length : Int) = c.k)
    (h0 : ∀ l : List ρ, l ≠ [] → ctx.raw l 0 = 0) (y : Rat)
    (hy : momentCall .current ctx (c.window 0 b) = .ok y) :
    momentCall .current ctx (c.window 0 0) = .ok 0 ∧
    momentCall .current ctx (c.window 0 b) = .ok (0 + y) := by
  refine ⟨?_, by rw [zero_add]; exact hy⟩
  apply api_explicit_zero_end_value ctx (c.window 0 0) rfl _ hk hlen h0
  simp [resolveTime]

/-- … and FALSE for order 0 (`accumulate` returns ones): `moment(0, start_time=0, end_time=0) = 1`, so the two
windows `[0,0]`, `[0,b]` give `1 + 1 ≠ 1`; while for `a > 0` order 0 is additive with `moment[a, b] = 0`. -/
theorem api_window_order0 (v : Variant) (hv : v ≠ .falsyTimes) (ctx : DistCtx ρ) (c : MomentCall ρ)
    (hk : c.k = 0) (hr : c.rewards = none ∨ c.rewards = some []) (a b : Rat) :
    momentCall v ctx (c.window 0 b) = .ok 1 ∧ (0 < a → momentCall v ctx (c.window a b) = .ok 0) := by
  have hacc : ∀ ts, accumulateCall v ctx c.k c.rewards ts c.center c.permute = .ok (ts.map fun _ => 1) := by
    intro ts
    rcases hr with hr | hr <;> simp [accumulateCall, resolveRewards, hk, hr]
  refine ⟨?_, fun ha => ?_⟩
  · rw [momentCall_window_zero v hv, hacc]; rfl
  · rw [api_window_difference v hv ctx c a b ha, hacc]; simp [Except.map]

/-! ## 5. the end-time routes -/

/-- The three ways of asking for an end time `T` agree: `moment(end_time=T)`, the `end_time=T` given to the
distribution (`t_max = T`) with `moment(end_time=None)`, and the single entry of `accumulate([T])` — whenever
the resolved start time is `≤ 0`. -/
theorem api_routes_agree (v : Variant) (hv : v ≠ .falsyTimes) (ctx : DistCtx ρ) (c : MomentCall ρ) (T : Rat)
    (hs : resolveTime v c.startTime ctx.startDefault ≤ 0) :
    momentCall v ctx { c with endTime := some T } =
      (accumulateCall v ctx c.k c.rewards [T] c.center c.permute).map (fun l => l.getD 0 0) ∧
    momentCall v { ctx with tMax := T } { c with endTime := none } =
      (accumulateCall v ctx c.k c.rewards [T] c.center c.permute).map (fun l => l.getD 0 0) := by
  constructor
  · unfold momentCall
    simp only [resolveTime_some hv]
    rw [if_neg (not_lt.mpr hs)]
  · unfold momentCall
    simp only [resolveTime_none]
    rw [if_neg (not_lt.mpr hs)]
    rfl

/-! ## 6. order 0 -/

/-- Order 0 with no rewards (`None` or the empty tuple) returns ones for EVERY list of end times — negative
ones included: the return of l.737-738 comes before any check of the times (cf. `Validate.order0_escapes`). -/
theorem api_order0 (v : Variant) (ctx : DistCtx ρ) (rewards : Option (List ρ))
    (hr : rewards = none ∨ rewards = some []) (ts : List Rat) (center permute : Bool) :
    accumulateCall v ctx 0 rewards ts center permute = .ok (ts.map fun _ => 1) := by
  rcases hr with hr | hr <;> simp [accumulateCall, resolveRewards, hr]

/-! ## 6b. the seeded variants differ from the current code only where they were seeded -/

/-- `falsyTimes` is the current code on every call without an explicit zero time -/
theorem api_falsyTimes_agrees (ctx : DistCtx ρ) (c : MomentCall ρ)
    (hs : c.startTime ≠ some 0) (he : c.endTime ≠ some 0) :
    momentCall .falsyTimes ctx c = momentCall .current ctx c := by
  have hr : ∀ (a : Option Rat) (d : Rat), a ≠ some 0 →
      resolveTime .falsyTimes a d = resolveTime .current a d := by
    intro a d ha
    cases a with
    | none => rfl
    | some x =>
      have : x ≠ 0 := fun h => ha (by rw [h])
      simp [resolveTime, this]
  have hacc : ∀ ts, accumulateCall .falsyTimes ctx c.k c.rewards ts c.center c.permute =
      accumulateCall .current ctx c.k c.rewards ts c.center c.permute := by
    intro ts; simp [accumulateCall]
  simp only [momentCall, hr _ _ hs, hr _ _ he, hacc]

/-- `noLengthCheck` is the current code on every call whose (resolved) reward tuple has the right length -/
theorem api_noLengthCheck_agrees (ctx : DistCtx ρ) (k : Int) (rewards : Option (List ρ))
    (h : ((resolveRewards ctx k rewards).length : Int) = k) (ts : List Rat) (center permute : Bool) :
    accumulateCall .noLengthCheck ctx k rewards ts center permute =
      accumulateCall .current ctx k rewards ts center permute := by
  simp [accumulateCall, h]

/-! ## 7. closed instances -/

/-- a distribution with default reward id 0, start time 1/2, horizon 4 and the driver's fake `_accumulate` -/
def ctxEx : DistCtx Nat := { defaultReward := 0, startDefault := 1 / 2, tMax := 4, raw := fakeRaw }

/-- variant `noLengthCheck`: a centred second moment with THREE rewards is answered with the value for the
first two (`30 t²` for rewards 1, 2), where the current code raises `ValueError` … -/
theorem api_centred_reads_prefix_noLengthCheck_counterexample :
    accumulateCall .noLengthCheck ctxEx 2 (some [1, 2, 3]) [1 / 2, 2] true true = .ok [15 / 2, 120] ∧
    accumulateCall .noLengthCheck ctxEx 2 (some [1, 2]) [1 / 2, 2] true true = .ok [15 / 2, 120] ∧
    accumulateCall .current ctxEx 2 (some [1, 2, 3]) [1 / 2, 2] true true = .error .valueError ∧
    -- order 0 with a non-empty tuple returns ones
    accumulateCall .noLengthCheck ctxEx 0 (some [1]) [1 / 2, -2] true true = .ok [1, 1] ∧
    accumulateCall .current ctxEx 0 (some [1]) [1 / 2, -2] true true = .error .valueError ∧
    -- a too SHORT tuple: `IndexError` instead of `ValueError`
    accumulateCall .noLengthCheck ctxEx 3 (some [1, 2]) [1 / 2] true true = .error .indexError ∧
    -- `moment` inherits it
    momentCall .noLengthCheck ctxEx ⟨2, some [1, 2, 3], some 0, some 2, true, true⟩ = .ok 120 ∧
    momentCall .current ctxEx ⟨2, some [1, 2, 3], some 0, some 2, true, true⟩ = .error .valueError := by
  decide +kernel

/-- variant `falsyTimes`: `moment(1, end_time=0)` returns the moment up to the default horizon (`2·4 = 8` from
start time 0, `2·4 - 2·(1/2) = 7` from the default start 1/2) instead of 0, and an explicit `start_time=0`
no longer overrides the default start time 1/2. -/
theorem api_falsyTimes_counterexample :
    momentCall .falsyTimes { ctxEx with startDefault := 0 } ⟨1, none, none, some 0, false, true⟩ = .ok 8 ∧
    momentCall .current { ctxEx with startDefault := 0 } ⟨1, none, none, some 0, false, true⟩ = .ok 0 ∧
    momentCall .falsyTimes ctxEx ⟨1, none, some 0, none, false, true⟩ = .ok 7 ∧
    momentCall .current ctxEx ⟨1, none, some 0, none, false, true⟩ = .ok 8 ∧
    momentCall .current { ctxEx with startDefault := 0 } ⟨1, none, none, none, false, true⟩ = .ok 8 := by
  decide +kernel

/-- the hypotheses of the theorems above hold for a concrete non-trivial instance -/
theorem fakeRaw_zero (l : List Nat) (hl : l ≠ []) : fakeRaw l 0 = 0 := by
  unfold fakeRaw
  have : l.length ≠ 0 := fun h => hl (List.eq_nil_of_length_eq_zero h)
  rw [zero_pow this, zero_mul]

-- `api_length_mismatch_rejected`: a tuple of another length exists for every order
example : ((([1, 2, 3] : List Nat).length : Int) ≠ 2) ∧ Variant.current ≠ .noLengthCheck := by decide

-- `api_explicit_zero_end_value` with `ctxEx` moved to start time 0, a second cross moment:
example : momentCall .current { ctxEx with startDefault := 0 } ⟨2, some [1, 2], none, some 0, true, true⟩ = .ok 0 :=
  api_explicit_zero_end_value _ _ rfl (by decide +kernel) (by decide) (by simp) fakeRaw_zero

-- `api_window_additive` with non-trivial values: 30·(1/2)² + (30·2² - 30·(1/2)²) = 30·2²
example :
    momentCall .current ctxEx ((⟨2, some [1, 2], none, none, true, true⟩ : MomentCall Nat).window 0 (1 / 2))
      = .ok (15 / 2) ∧
    momentCall .current ctxEx ((⟨2, some [1, 2], none, none, true, true⟩ : MomentCall Nat).window (1 / 2) 2)
      = .ok (225 / 2) ∧
    momentCall .current ctxEx ((⟨2, some [1, 2], none, none, true, true⟩ : MomentCall Nat).window 0 2)
      = .ok (15 / 2 + 225 / 2) := by
  decide +kernel

-- `api_routes_agree`: a start time `≤ 0` exists (explicit 0 over the default 1/2)
example : resolveTime .current (some 0) ctxEx.startDefault ≤ 0 := by decide +kernel

-- the order-0 boundary of `api_window_order0`: 1 + 1 ≠ 1
example :
    momentCall .current ctxEx ((⟨0, none, none, none, true, true⟩ : MomentCall Nat).window 0 0) = .ok 1 ∧
    momentCall .current ctxEx ((⟨0, none, none, none, true, true⟩ : MomentCall Nat).window 0 3) = .ok 1 ∧
    (1 : Rat) + 1 ≠ 1 := by
  decide +kernel

-- `moment` does not require `start ≤ end`: the window [2, 1/2] is the NEGATIVE of the window [1/2, 2]
example :
    momentCall .current ctxEx ((⟨1, none, none, none, false, true⟩ : MomentCall Nat).window 2 (1 / 2))
      = .ok (-3) := by
  decide +kernel

end PG.Api

#print axioms PG.Api.accumulateCall_eq
#print axioms PG.Api.accumulateCall_ok_iff
#print axioms PG.Api.accumulateCall_length
#print axioms PG.Api.api_accumulate_pointwise
#print axioms PG.Api.api_length_mismatch_rejected
#print axioms PG.Api.api_negative_order_rejected
#print axioms PG.Api.accAt_eq_zero
#print axioms PG.Api.api_explicit_zero_end
#print axioms PG.Api.api_explicit_zero_end_value
#print axioms PG.Api.api_explicit_zero_start
#print axioms PG.Api.api_nonpositive_start_is_zero
#print axioms PG.Api.api_none_is_default
#print axioms PG.Api.api_window_difference
#print axioms PG.Api.api_window_additive
#print axioms PG.Api.api_window_is_difference_of_moments
#print axioms PG.Api.api_window_additive_at_zero
#print axioms PG.Api.api_window_order0
#print axioms PG.Api.api_routes_agree
#print axioms PG.Api.api_order0
#print axioms PG.Api.api_centred_reads_prefix_noLengthCheck_counterexample
#print axioms PG.Api.api_falsyTimes_counterexample
#print axioms PG.Api.fakeRaw_zero
#print axioms PG.Api.api_falsyTimes_agrees
#print axioms PG.Api.api_noLengthCheck_agrees
