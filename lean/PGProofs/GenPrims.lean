/-
PGProofs.GenPrims — the primitives used by the machine-generated `Generated/Rates.lean`
(the translation of `phasegen/coalescent_models.py` written by `harness/extract_rates.py`).

* `PG.betaFn`     — `scipy.special.beta`.  It is NOT redefined here: it is the constant of
                    `PGProofs.RatesThm` (`betaFn x y = Γ x · Γ y / Γ (x + y)`), re-exported by the
                    import, so that every theorem of `RatesThm` applies to the generated code.
* `PG.binomPmfR`  — `scipy.stats.binom.pmf(k, n, p)` over the reals.
* `Nat.choose`    — `scipy.special.comb(exact=True)`  (Mathlib).
* `Real.rpow`     — float `**`                        (Mathlib).
-/
import PGProofs.RatesThm

namespace PG

/-- `betaFn` is the constant of `PGProofs.RatesThm`. -/
theorem betaFn_def (x y : ℝ) : betaFn x y = Real.Gamma x * Real.Gamma y / Real.Gamma (x + y) := rfl

/-- `scipy.stats.binom.pmf(k, n, p)`. -/
noncomputable def binomPmfR (k n : ℕ) (p : ℝ) : ℝ :=
  if k > n then 0 else (Nat.choose n k : ℝ) * p ^ k * (1 - p) ^ (n - k)

theorem binomPmfR_eq (k n : ℕ) (p : ℝ) :
    binomPmfR k n p = (Nat.choose n k : ℝ) * p ^ k * (1 - p) ^ (n - k) := by
  unfold binomPmfR
  split_ifs with h
  · rw [Nat.choose_eq_zero_of_lt h]; simp
  · rfl

/-- The model's rational `binomPmf`, read in `ℝ`, is `binomPmfR`. -/
theorem binomPmf_cast (k n : ℕ) (p : ℚ) :
    ((binomPmf k n p : ℚ) : ℝ) = binomPmfR k n (p : ℝ) := by
  rw [binomPmf_eq, binomPmfR_eq]
  push_cast
  rfl

end PG

#print axioms PG.binomPmf_cast
