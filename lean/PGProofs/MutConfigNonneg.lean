/-
  PGProofs/MutConfigNonneg.lean

  The numbers of `PGProofs.MutConfig` (Part A) are probabilities: non-negative and at most 1.

  1. minimum principle for Z-matrices with strictly positive row sums (M-matrix property),
     over any linearly ordered field, by a purely algebraic argument (no analysis);
  2. a right inverse of such a matrix is entrywise non-negative; such a matrix is injective;
  3. the resolvent `G = (θD - S)⁻¹` of a sub-generator `S` (off-diagonals `≥ 0`, row sums `≤ 0`),
     `θ > 0`, rewards `≥ 0` with `r_total > 0`, is entrywise non-negative; so are `P_total`,
     every `P_i`, and `p_total`; rows of `P_total` sum to at most 1;
  4. the probability of every word / every configuration is `≥ 0`;
  5. the total mass of all configurations with at most `M` mutations lies in `[0, Σα] ⊆ [0, 1]`,
     every single configuration has probability `≤ 1`;
  6. the same for the numbers the executable `mutConfigProb` returns;
  7. a concrete rational instance (Kingman, 3 lineages: 2 transient states, 2 reward vectors).
-/
import PGProofs.MutConfig
import PGProofs.DriverPath
import Mathlib.Algebra.Order.BigOperators.Group.Finset
import Mathlib.Algebra.Order.BigOperators.Group.List
import Mathlib.Algebra.Order.Field.Basic
import Mathlib.Algebra.Order.Field.Rat
import Mathlib.LinearAlgebra.Matrix.NonsingularInverse
import Mathlib.LinearAlgebra.Matrix.Notation
import Mathlib.Tactic.FinCases
import Mathlib.Tactic.NormNum
import Mathlib.Tactic.Linarith

set_option linter.unusedSectionVars false
set_option linter.unusedVariables false

namespace PG

open Matrix

section Ordered

variable {K : Type*} [Field K] [LinearOrder K] [IsStrictOrderedRing K]
variable {ι : Type*} [Fintype ι] [DecidableEq ι]
variable {n : ℕ}

/-! ## 0. entrywise non-negativity is preserved by the matrix operations -/

theorem matNonneg_mul {A B : Matrix ι ι K} (hA : ∀ i j, 0 ≤ A i j) (hB : ∀ i j, 0 ≤ B i j) :
    ∀ i j, 0 ≤ (A * B) i j := by
  intro i j
  rw [Matrix.mul_apply]
  exact Finset.sum_nonneg fun k _ => mul_nonneg (hA i k) (hB k j)

theorem matNonneg_mulVec {A : Matrix ι ι K} {v : ι → K} (hA : ∀ i j, 0 ≤ A i j)
    (hv : ∀ i, 0 ≤ v i) : ∀ i, 0 ≤ (A *ᵥ v) i := by
  intro i
  rw [Matrix.mulVec, dotProduct]
  exact Finset.sum_nonneg fun k _ => mul_nonneg (hA i k) (hv k)

theorem vecNonneg_dotProduct {u v : ι → K} (hu : ∀ i, 0 ≤ u i) (hv : ∀ i, 0 ≤ v i) :
    0 ≤ u ⬝ᵥ v := by
  rw [dotProduct]
  exact Finset.sum_nonneg fun k _ => mul_nonneg (hu k) (hv k)

theorem matNonneg_mulVec_mono {A : Matrix ι ι K} {v w : ι → K} (hA : ∀ i j, 0 ≤ A i j)
    (hvw : ∀ i, v i ≤ w i) : ∀ i, (A *ᵥ v) i ≤ (A *ᵥ w) i := by
  intro i
  rw [Matrix.mulVec, Matrix.mulVec, dotProduct, dotProduct]
  exact Finset.sum_le_sum fun k _ => mul_le_mul_of_nonneg_left (hvw k) (hA i k)

theorem vecNonneg_dotProduct_mono {u v w : ι → K} (hu : ∀ i, 0 ≤ u i) (hvw : ∀ i, v i ≤ w i) :
    u ⬝ᵥ v ≤ u ⬝ᵥ w := by
  rw [dotProduct, dotProduct]
  exact Finset.sum_le_sum fun k _ => mul_le_mul_of_nonneg_left (hvw k) (hu k)

theorem matNonneg_diagonal {d : ι → K} (hd : ∀ s, 0 ≤ d s) :
    ∀ i j, 0 ≤ (diagonal d : Matrix ι ι K) i j := by
  intro i j
  rw [diagonal_apply]
  split_ifs
  · exact hd i
  · exact le_rfl

theorem matNonneg_one : ∀ i j, 0 ≤ (1 : Matrix ι ι K) i j := by
  intro i j
  rw [Matrix.one_apply]
  split_ifs
  · exact zero_le_one
  · exact le_rfl

theorem matNonneg_zero : ∀ i j, 0 ≤ (0 : Matrix ι ι K) i j := fun _ _ => le_rfl

theorem matNonneg_smul {c : K} {A : Matrix ι ι K} (hc : 0 ≤ c) (hA : ∀ i j, 0 ≤ A i j) :
    ∀ i j, 0 ≤ (c • A) i j := by
  intro i j
  rw [Matrix.smul_apply, smul_eq_mul]
  exact mul_nonneg hc (hA i j)

theorem matNonneg_add {A B : Matrix ι ι K} (hA : ∀ i j, 0 ≤ A i j) (hB : ∀ i j, 0 ≤ B i j) :
    ∀ i j, 0 ≤ (A + B) i j := by
  intro i j
  rw [Matrix.add_apply]
  exact add_nonneg (hA i j) (hB i j)

theorem matNonneg_list_prod {l : List (Matrix ι ι K)} (hl : ∀ A ∈ l, ∀ i j, 0 ≤ A i j) :
    ∀ i j, 0 ≤ l.prod i j := by
  induction l with
  | nil => simpa using matNonneg_one (K := K) (ι := ι)
  | cons A l ih =>
    rw [List.prod_cons]
    exact matNonneg_mul (hl A List.mem_cons_self)
      (ih fun B hB => hl B (List.mem_cons_of_mem _ hB))

theorem matNonneg_list_sum {l : List (Matrix ι ι K)} (hl : ∀ A ∈ l, ∀ i j, 0 ≤ A i j) :
    ∀ i j, 0 ≤ l.sum i j := by
  induction l with
  | nil => simp
  | cons A l ih =>
    rw [List.sum_cons]
    exact matNonneg_add (hl A List.mem_cons_self)
      (ih fun B hB => hl B (List.mem_cons_of_mem _ hB))

theorem matNonneg_pow {A : Matrix ι ι K} (hA : ∀ i j, 0 ≤ A i j) (m : ℕ) :
    ∀ i j, 0 ≤ (A ^ m) i j := by
  induction m with
  | zero => simpa using matNonneg_one (K := K) (ι := ι)
  | succ m ih =>
    rw [pow_succ]
    exact matNonneg_mul ih hA

/-! ## 1. minimum principle for Z-matrices with strictly positive row sums -/

/-- **Minimum principle.** `M` has non-positive off-diagonal entries and strictly positive row sums.
If `M x ≥ 0` entrywise then `x ≥ 0` entrywise. -/
theorem zmatrix_minimum_principle {M : Matrix ι ι K} (hoff : ∀ i j, i ≠ j → M i j ≤ 0)
    (hrow : ∀ i, 0 < ∑ j, M i j) {x : ι → K} (hx : ∀ i, 0 ≤ (M *ᵥ x) i) : ∀ i, 0 ≤ x i := by
  intro i0
  obtain ⟨i, -, hi⟩ := Finset.exists_min_image Finset.univ x ⟨i0, Finset.mem_univ _⟩
  have hmin : ∀ j, x i ≤ x j := fun j => hi j (Finset.mem_univ _)
  by_contra hneg
  have hxi : x i < 0 := lt_of_le_of_lt (hmin i0) (not_le.mp hneg)
  have h1 : (M *ᵥ x) i ≤ x i * ∑ j, M i j := by
    rw [Matrix.mulVec, dotProduct, Finset.mul_sum]
    refine Finset.sum_le_sum fun j _ => ?_
    by_cases hij : i = j
    · subst hij
      rw [mul_comm]
    · rw [mul_comm (x i)]
      exact mul_le_mul_of_nonpos_left (hmin j) (hoff i j hij)
  have h2 : x i * ∑ j, M i j < 0 := mul_neg_of_neg_of_pos hxi (hrow i)
  exact absurd (hx i) (not_le.mpr (lt_of_le_of_lt h1 h2))

/-- dual form: `M x ≤ 0` entrywise implies `x ≤ 0` entrywise -/
theorem zmatrix_maximum_principle {M : Matrix ι ι K} (hoff : ∀ i j, i ≠ j → M i j ≤ 0)
    (hrow : ∀ i, 0 < ∑ j, M i j) {x : ι → K} (hx : ∀ i, (M *ᵥ x) i ≤ 0) : ∀ i, x i ≤ 0 := by
  have h := zmatrix_minimum_principle hoff hrow (x := -x) (by
    intro i
    rw [Matrix.mulVec_neg, Pi.neg_apply]
    exact neg_nonneg.mpr (hx i))
  intro i
  have := h i
  rwa [Pi.neg_apply, neg_nonneg] at this

/-- such a matrix is injective -/
theorem zmatrix_injective {M : Matrix ι ι K} (hoff : ∀ i j, i ≠ j → M i j ≤ 0)
    (hrow : ∀ i, 0 < ∑ j, M i j) {x : ι → K} (hx : M *ᵥ x = 0) : x = 0 := by
  funext i
  have h1 := zmatrix_minimum_principle hoff hrow (x := x) (fun i => by rw [hx]; exact le_rfl) i
  have h2 := zmatrix_maximum_principle hoff hrow (x := x) (fun i => by rw [hx]; exact le_rfl) i
  exact le_antisymm h2 h1

/-! ## 2. the inverse of such a matrix is entrywise non-negative -/

/-- a right inverse of a Z-matrix with strictly positive row sums is entrywise non-negative -/
theorem zmatrix_inverse_nonneg {M G : Matrix ι ι K} (hoff : ∀ i j, i ≠ j → M i j ≤ 0)
    (hrow : ∀ i, 0 < ∑ j, M i j) (hMG : M * G = 1) : ∀ i j, 0 ≤ G i j := by
  intro i j
  refine zmatrix_minimum_principle hoff hrow (x := fun k => G k j) (fun k => ?_) i
  have : (M *ᵥ fun k => G k j) k = (M * G) k j := by
    rw [Matrix.mulVec, dotProduct, Matrix.mul_apply]
  rw [this, hMG]
  exact matNonneg_one k j

/-- the same for a left inverse (over a field, a one-sided inverse of a square matrix is two-sided) -/
theorem zmatrix_inverse_nonneg' {M G : Matrix ι ι K} (hoff : ∀ i j, i ≠ j → M i j ≤ 0)
    (hrow : ∀ i, 0 < ∑ j, M i j) (hGM : G * M = 1) : ∀ i j, 0 ≤ G i j :=
  zmatrix_inverse_nonneg hoff hrow (mul_eq_one_comm.mp hGM)

/-- such a matrix is invertible: its determinant does not vanish -/
theorem zmatrix_det_ne_zero {M : Matrix ι ι K} (hoff : ∀ i j, i ≠ j → M i j ≤ 0)
    (hrow : ∀ i, 0 < ∑ j, M i j) : M.det ≠ 0 := by
  intro h
  obtain ⟨v, hv, hMv⟩ := Matrix.exists_mulVec_eq_zero_iff.mpr h
  exact hv (zmatrix_injective hoff hrow hMv)

/-! ## 3. the resolvent of a sub-generator -/

variable {θ : K} {R : Fin n → ι → K} {S G : Matrix ι ι K}

/-- `θD - S` is a Z-matrix … -/
theorem resolvent_offdiag_nonpos (hS_off : ∀ i j, i ≠ j → 0 ≤ S i j) :
    ∀ i j, i ≠ j → (θ • mcD R - S) i j ≤ 0 := by
  intro i j hij
  rw [Matrix.sub_apply, Matrix.smul_apply, mcD, diagonal_apply_ne _ hij, smul_zero, zero_sub]
  exact neg_nonpos.mpr (hS_off i j hij)

theorem resolvent_rowsum_eq (i : ι) :
    ∑ j, (θ • mcD R - S) i j = θ * mcRtot R i - ∑ j, S i j := by
  simp only [Matrix.sub_apply, Matrix.smul_apply, smul_eq_mul, Finset.sum_sub_distrib, mcD]
  congr 1
  rw [Finset.sum_eq_single i]
  · rw [diagonal_apply_eq]
  · intro j _ hji
    rw [diagonal_apply_ne _ (Ne.symm hji), mul_zero]
  · intro h
    exact absurd (Finset.mem_univ i) h

/-- … with strictly positive row sums -/
theorem resolvent_rowsum_pos (hS_row : ∀ i, ∑ j, S i j ≤ 0) (hθ : 0 < θ)
    (hr : ∀ s, 0 < mcRtot R s) : ∀ i, 0 < ∑ j, (θ • mcD R - S) i j := by
  intro i
  rw [resolvent_rowsum_eq]
  have := mul_pos hθ (hr i)
  linarith [hS_row i]

/-- under the sign hypotheses, `θD - S` is invertible (so the `G` of the hypotheses exists) -/
theorem resolvent_det_ne_zero (hS_off : ∀ i j, i ≠ j → 0 ≤ S i j) (hS_row : ∀ i, ∑ j, S i j ≤ 0)
    (hθ : 0 < θ) (hr : ∀ s, 0 < mcRtot R s) : (θ • mcD R - S).det ≠ 0 :=
  zmatrix_det_ne_zero (resolvent_offdiag_nonpos hS_off) (resolvent_rowsum_pos hS_row hθ hr)

/-- the resolvent `(θD - S)⁻¹` is entrywise non-negative -/
theorem resolvent_nonneg (hS_off : ∀ i j, i ≠ j → 0 ≤ S i j) (hS_row : ∀ i, ∑ j, S i j ≤ 0)
    (hθ : 0 < θ) (hr : ∀ s, 0 < mcRtot R s) (hGr : (θ • mcD R - S) * G = 1) :
    ∀ i j, 0 ≤ G i j :=
  zmatrix_inverse_nonneg (resolvent_offdiag_nonpos hS_off) (resolvent_rowsum_pos hS_row hθ hr) hGr

/-- every entry of `P_total = (θD - S)⁻¹ θD` is non-negative -/
theorem mcPtot_nonneg (hS_off : ∀ i j, i ≠ j → 0 ≤ S i j) (hS_row : ∀ i, ∑ j, S i j ≤ 0)
    (hθ : 0 < θ) (hr : ∀ s, 0 < mcRtot R s) (hGr : (θ • mcD R - S) * G = 1) :
    ∀ i j, 0 ≤ mcPtot G θ R i j := by
  unfold mcPtot
  exact matNonneg_mul (resolvent_nonneg hS_off hS_row hθ hr hGr)
    (matNonneg_smul hθ.le (matNonneg_diagonal fun s => (hr s).le))

/-- every entry of every `P_i` is non-negative -/
theorem mcP_nonneg (hS_off : ∀ i j, i ≠ j → 0 ≤ S i j) (hS_row : ∀ i, ∑ j, S i j ≤ 0)
    (hθ : 0 < θ) (hR : ∀ i s, 0 ≤ R i s) (hr : ∀ s, 0 < mcRtot R s)
    (hGr : (θ • mcD R - S) * G = 1) (k : Fin n) : ∀ i j, 0 ≤ mcP G θ R k i j := by
  unfold mcP
  exact matNonneg_mul (mcPtot_nonneg hS_off hS_row hθ hr hGr)
    (matNonneg_diagonal fun s => div_nonneg (hR k s) (hr s).le)

/-- `(-S) 1 ≥ 0`: the exit rates to absorption -/
theorem exitRate_nonneg (hS_row : ∀ i, ∑ j, S i j ≤ 0) : ∀ i, 0 ≤ ((-S) *ᵥ (1 : ι → K)) i := by
  intro i
  rw [Matrix.mulVec, dotProduct]
  simp only [Matrix.neg_apply, Pi.one_apply, mul_one, Finset.sum_neg_distrib]
  exact neg_nonneg.mpr (hS_row i)

/-- every entry of `p_total = (I - P_total) 1` is non-negative -/
theorem mcptot_nonneg (hS_off : ∀ i j, i ≠ j → 0 ≤ S i j) (hS_row : ∀ i, ∑ j, S i j ≤ 0)
    (hθ : 0 < θ) (hr : ∀ s, 0 < mcRtot R s) (hGr : (θ • mcD R - S) * G = 1) :
    ∀ s, 0 ≤ mcptot G θ R s := by
  rw [C16_empty (mul_eq_one_comm.mp hGr)]
  exact matNonneg_mulVec (resolvent_nonneg hS_off hS_row hθ hr hGr) (exitRate_nonneg hS_row)

/-- rows of `P_total` sum to at most 1 -/
theorem mcPtot_row_sum_le_one (hS_off : ∀ i j, i ≠ j → 0 ≤ S i j) (hS_row : ∀ i, ∑ j, S i j ≤ 0)
    (hθ : 0 < θ) (hr : ∀ s, 0 < mcRtot R s) (hGr : (θ • mcD R - S) * G = 1) :
    ∀ s, (mcPtot G θ R *ᵥ 1) s ≤ 1 := by
  intro s
  have h := mcptot_nonneg hS_off hS_row hθ hr hGr s
  rw [mcptot_eq, Pi.sub_apply, Pi.one_apply] at h
  linarith

/-- rows of `P_total` sum to at least 0 -/
theorem mcPtot_row_sum_nonneg (hS_off : ∀ i j, i ≠ j → 0 ≤ S i j) (hS_row : ∀ i, ∑ j, S i j ≤ 0)
    (hθ : 0 < θ) (hr : ∀ s, 0 < mcRtot R s) (hGr : (θ • mcD R - S) * G = 1) :
    ∀ s, 0 ≤ (mcPtot G θ R *ᵥ 1) s :=
  matNonneg_mulVec (mcPtot_nonneg hS_off hS_row hθ hr hGr) fun _ => zero_le_one

/-- every entry of `p_total` is at most 1 -/
theorem mcptot_le_one (hS_off : ∀ i j, i ≠ j → 0 ≤ S i j) (hS_row : ∀ i, ∑ j, S i j ≤ 0)
    (hθ : 0 < θ) (hr : ∀ s, 0 < mcRtot R s) (hGr : (θ • mcD R - S) * G = 1) :
    ∀ s, mcptot G θ R s ≤ 1 := by
  intro s
  have h := mcPtot_row_sum_nonneg hS_off hS_row hθ hr hGr s
  rw [mcptot_eq, Pi.sub_apply, Pi.one_apply]
  linarith

/-- every single entry of `P_total` lies in `[0, 1]` -/
theorem mcPtot_entry_le_one (hS_off : ∀ i j, i ≠ j → 0 ≤ S i j) (hS_row : ∀ i, ∑ j, S i j ≤ 0)
    (hθ : 0 < θ) (hr : ∀ s, 0 < mcRtot R s) (hGr : (θ • mcD R - S) * G = 1) :
    ∀ i j, mcPtot G θ R i j ≤ 1 := by
  intro i j
  refine le_trans ?_ (mcPtot_row_sum_le_one hS_off hS_row hθ hr hGr i)
  rw [Matrix.mulVec, dotProduct]
  simp only [Pi.one_apply, mul_one]
  exact Finset.single_le_sum (f := fun j => mcPtot G θ R i j)
    (fun k _ => mcPtot_nonneg hS_off hS_row hθ hr hGr i k) (Finset.mem_univ j)

/-- rows of every power of `P_total` sum to at most 1 -/
theorem mcPtot_pow_row_sum_le_one (hS_off : ∀ i j, i ≠ j → 0 ≤ S i j)
    (hS_row : ∀ i, ∑ j, S i j ≤ 0) (hθ : 0 < θ) (hr : ∀ s, 0 < mcRtot R s)
    (hGr : (θ • mcD R - S) * G = 1) (m : ℕ) : ∀ s, ((mcPtot G θ R ^ m) *ᵥ 1) s ≤ 1 := by
  induction m with
  | zero =>
    intro s
    rw [pow_zero, Matrix.one_mulVec]
    exact le_rfl
  | succ m ih =>
    intro s
    rw [pow_succ, ← Matrix.mulVec_mulVec]
    exact le_trans
      (matNonneg_mulVec_mono (matNonneg_pow (mcPtot_nonneg hS_off hS_row hθ hr hGr) m)
        (mcPtot_row_sum_le_one hS_off hS_row hθ hr hGr) s) (ih s)

/-! ## 4. the probability of every word and of every configuration is non-negative -/

/-- `α · P_{w₁} ⋯ P_{w_m} · p_total ≥ 0` for every word `w` -/
theorem config_prob_nonneg (hS_off : ∀ i j, i ≠ j → 0 ≤ S i j) (hS_row : ∀ i, ∑ j, S i j ≤ 0)
    (hθ : 0 < θ) (hR : ∀ i s, 0 ≤ R i s) (hr : ∀ s, 0 < mcRtot R s)
    (hGr : (θ • mcD R - S) * G = 1) {α : ι → K} (hα : ∀ s, 0 ≤ α s) (w : List (Fin n)) :
    0 ≤ α ⬝ᵥ ((w.map (mcP G θ R)).prod *ᵥ mcptot G θ R) := by
  refine vecNonneg_dotProduct hα (matNonneg_mulVec (matNonneg_list_prod fun A hA => ?_)
    (mcptot_nonneg hS_off hS_row hθ hr hGr))
  obtain ⟨k, -, rfl⟩ := List.mem_map.mp hA
  exact mcP_nonneg hS_off hS_row hθ hR hr hGr k

/-- the sum over any list of words is non-negative -/
theorem config_prob_words_nonneg (hS_off : ∀ i j, i ≠ j → 0 ≤ S i j)
    (hS_row : ∀ i, ∑ j, S i j ≤ 0) (hθ : 0 < θ) (hR : ∀ i s, 0 ≤ R i s)
    (hr : ∀ s, 0 < mcRtot R s) (hGr : (θ • mcD R - S) * G = 1) {α : ι → K}
    (hα : ∀ s, 0 ≤ α s) (ws : List (List (Fin n))) :
    0 ≤ (ws.map fun w => α ⬝ᵥ ((w.map (mcP G θ R)).prod *ᵥ mcptot G θ R)).sum := by
  refine List.sum_nonneg fun x hx => ?_
  obtain ⟨w, -, rfl⟩ := List.mem_map.mp hx
  exact config_prob_nonneg hS_off hS_row hθ hR hr hGr hα w

/-- the `P` of `mutConfigProb` (`mcPnat`, indexed by the 1-based letters) are entrywise `≥ 0` -/
theorem mcPnat_nonneg (hS_off : ∀ i j, i ≠ j → 0 ≤ S i j) (hS_row : ∀ i, ∑ j, S i j ≤ 0)
    (hθ : 0 < θ) (hR : ∀ i s, 0 ≤ R i s) (hr : ∀ s, 0 < mcRtot R s)
    (hGr : (θ • mcD R - S) * G = 1) (x : ℕ) : ∀ i j, 0 ≤ mcPnat G θ R x i j := by
  unfold mcPnat
  split_ifs with h
  · exact mcP_nonneg hS_off hS_row hθ hR hr hGr _
  · exact matNonneg_zero

/-- `U(q) = Σ_{orderings w of q} P(w₁) ⋯ P(w_m)` is entrywise non-negative when the `P x` are -/
theorem orderingsSum_nonneg {P : ℕ → Matrix ι ι K} (hP : ∀ x i j, 0 ≤ P x i j) (q : List ℕ) :
    ∀ i j, 0 ≤ orderingsSum P q i j := by
  unfold orderingsSum
  refine matNonneg_list_sum fun A hA => ?_
  obtain ⟨w, -, rfl⟩ := List.mem_map.mp hA
  refine matNonneg_list_prod fun B hB => ?_
  obtain ⟨x, -, rfl⟩ := List.mem_map.mp hB
  exact hP x

/-- the probability `α · U(q) · p_total` of the configuration with sorted word `q`, in the terms of
`C16_orderings_recursion` / `C16_config_mass` / `mutConfigProb_spec`, is non-negative -/
theorem config_orderings_prob_nonneg (hS_off : ∀ i j, i ≠ j → 0 ≤ S i j)
    (hS_row : ∀ i, ∑ j, S i j ≤ 0) (hθ : 0 < θ) (hR : ∀ i s, 0 ≤ R i s)
    (hr : ∀ s, 0 < mcRtot R s) (hGr : (θ • mcD R - S) * G = 1) {α : ι → K}
    (hα : ∀ s, 0 ≤ α s) (q : List ℕ) :
    0 ≤ α ⬝ᵥ (orderingsSum (mcPnat G θ R) q *ᵥ mcptot G θ R) :=
  vecNonneg_dotProduct hα (matNonneg_mulVec
    (orderingsSum_nonneg (mcPnat_nonneg hS_off hS_row hθ hR hr hGr) q)
    (mcptot_nonneg hS_off hS_row hθ hr hGr))

/-! ## 5. masses are at most 1 -/

/-- the mass of all configurations with exactly `m` mutations is non-negative -/
theorem config_level_mass_nonneg (hS_off : ∀ i j, i ≠ j → 0 ≤ S i j)
    (hS_row : ∀ i, ∑ j, S i j ≤ 0) (hθ : 0 < θ) (hr : ∀ s, 0 < mcRtot R s)
    (hGr : (θ • mcD R - S) * G = 1) {α : ι → K} (hα : ∀ s, 0 ≤ α s) (m : ℕ) :
    0 ≤ α ⬝ᵥ ((mcPtot G θ R ^ m) *ᵥ mcptot G θ R) :=
  vecNonneg_dotProduct hα (matNonneg_mulVec
    (matNonneg_pow (mcPtot_nonneg hS_off hS_row hθ hr hGr) m)
    (mcptot_nonneg hS_off hS_row hθ hr hGr))

/-- the total mass of all configurations with at most `M` mutations is non-negative -/
theorem config_mass_nonneg (hS_off : ∀ i j, i ≠ j → 0 ≤ S i j)
    (hS_row : ∀ i, ∑ j, S i j ≤ 0) (hθ : 0 < θ) (hr : ∀ s, 0 < mcRtot R s)
    (hGr : (θ • mcD R - S) * G = 1) {α : ι → K} (hα : ∀ s, 0 ≤ α s) (M : ℕ) :
    0 ≤ ∑ m' ∈ Finset.range (M + 1), α ⬝ᵥ ((mcPtot G θ R ^ m') *ᵥ mcptot G θ R) :=
  Finset.sum_nonneg fun m _ => config_level_mass_nonneg hS_off hS_row hθ hr hGr hα m

/-- the mass still missing after `M` mutations, `α · P_total^(M+1) · 1`, lies in `[0, Σα]` -/
theorem config_tail_mass_bounds (hS_off : ∀ i j, i ≠ j → 0 ≤ S i j)
    (hS_row : ∀ i, ∑ j, S i j ≤ 0) (hθ : 0 < θ) (hr : ∀ s, 0 < mcRtot R s)
    (hGr : (θ • mcD R - S) * G = 1) {α : ι → K} (hα : ∀ s, 0 ≤ α s) (m : ℕ) :
    0 ≤ α ⬝ᵥ ((mcPtot G θ R ^ m) *ᵥ 1) ∧ α ⬝ᵥ ((mcPtot G θ R ^ m) *ᵥ 1) ≤ ∑ s, α s := by
  constructor
  · exact vecNonneg_dotProduct hα (matNonneg_mulVec
      (matNonneg_pow (mcPtot_nonneg hS_off hS_row hθ hr hGr) m) fun _ => zero_le_one)
  · have := vecNonneg_dotProduct_mono hα (mcPtot_pow_row_sum_le_one hS_off hS_row hθ hr hGr m)
    refine le_trans this (le_of_eq ?_)
    simp [dotProduct]

/-- the total mass of all configurations with at most `M` mutations is at most `Σα` -/
theorem config_mass_le_sum (hS_off : ∀ i j, i ≠ j → 0 ≤ S i j)
    (hS_row : ∀ i, ∑ j, S i j ≤ 0) (hθ : 0 < θ) (hr : ∀ s, 0 < mcRtot R s)
    (hGr : (θ • mcD R - S) * G = 1) {α : ι → K} (hα : ∀ s, 0 ≤ α s) (M : ℕ) :
    ∑ m' ∈ Finset.range (M + 1), α ⬝ᵥ ((mcPtot G θ R ^ m') *ᵥ mcptot G θ R) ≤ ∑ s, α s := by
  rw [C16_mass]
  have := (config_tail_mass_bounds hS_off hS_row hθ hr hGr hα (M + 1)).1
  linarith

/-- **Total mass.** For a sub-probability initial vector `α`, the total mass of all configurations
with at most `M` mutations is at most 1 -/
theorem config_mass_le_one (hS_off : ∀ i j, i ≠ j → 0 ≤ S i j)
    (hS_row : ∀ i, ∑ j, S i j ≤ 0) (hθ : 0 < θ) (hr : ∀ s, 0 < mcRtot R s)
    (hGr : (θ • mcD R - S) * G = 1) {α : ι → K} (hα : ∀ s, 0 ≤ α s) (hα1 : ∑ s, α s ≤ 1)
    (M : ℕ) :
    ∑ m' ∈ Finset.range (M + 1), α ⬝ᵥ ((mcPtot G θ R ^ m') *ᵥ mcptot G θ R) ≤ 1 :=
  le_trans (config_mass_le_sum hS_off hS_row hθ hr hGr hα M) hα1

/-- the mass of all configurations with exactly `m` mutations is at most 1 -/
theorem config_level_mass_le_one (hS_off : ∀ i j, i ≠ j → 0 ≤ S i j)
    (hS_row : ∀ i, ∑ j, S i j ≤ 0) (hθ : 0 < θ) (hr : ∀ s, 0 < mcRtot R s)
    (hGr : (θ • mcD R - S) * G = 1) {α : ι → K} (hα : ∀ s, 0 ≤ α s) (hα1 : ∑ s, α s ≤ 1)
    (m : ℕ) : α ⬝ᵥ ((mcPtot G θ R ^ m) *ᵥ mcptot G θ R) ≤ 1 := by
  refine le_trans ?_ (config_mass_le_one hS_off hS_row hθ hr hGr hα hα1 m)
  exact Finset.single_le_sum
    (f := fun m' => α ⬝ᵥ ((mcPtot G θ R ^ m') *ᵥ mcptot G θ R))
    (fun m' _ => config_level_mass_nonneg hS_off hS_row hθ hr hGr hα m')
    (Finset.mem_range.mpr (Nat.lt_succ_self m))

/-- the word-level statement: every single word has probability at most 1 (it is one of the
non-negative summands of `α · P_total^m · p_total`, by `C16_words`) -/
theorem config_prob_le_one (hS_off : ∀ i j, i ≠ j → 0 ≤ S i j) (hS_row : ∀ i, ∑ j, S i j ≤ 0)
    (hθ : 0 < θ) (hR : ∀ i s, 0 ≤ R i s) (hr : ∀ s, 0 < mcRtot R s)
    (hGr : (θ • mcD R - S) * G = 1) {α : ι → K} (hα : ∀ s, 0 ≤ α s) (hα1 : ∑ s, α s ≤ 1)
    (w : List (Fin n)) :
    α ⬝ᵥ ((w.map (mcP G θ R)).prod *ᵥ mcptot G θ R) ≤ 1 := by
  have hr' : ∀ s, mcRtot R s ≠ 0 := fun s => (hr s).ne'
  refine le_trans ?_ (config_level_mass_le_one hS_off hS_row hθ hr hGr hα hα1 w.length)
  rw [← C16_words hr' w.length, Matrix.sum_mulVec, dotProduct_sum]
  have hw : (w.map (mcP G θ R)).prod
      = (List.ofFn fun j : Fin w.length => mcP G θ R (w.get j)).prod := by
    congr 1
    conv_lhs => rw [← List.ofFn_get w, List.map_ofFn]
    rfl
  rw [hw]
  exact Finset.single_le_sum
    (f := fun v : Fin w.length → Fin n =>
      α ⬝ᵥ ((List.ofFn fun j => mcP G θ R (v j)).prod *ᵥ mcptot G θ R))
    (fun v _ => by
      have := config_prob_nonneg hS_off hS_row hθ hR hr hGr hα (List.ofFn v)
      rwa [List.map_ofFn] at this)
    (Finset.mem_univ (fun j => w.get j))

/-- **Single configuration.** The probability `α · U(q_c) · p_total` of every configuration `c`
(of length `n`, the number of reward vectors) is at most 1 -/
theorem config_orderings_prob_le_one (hS_off : ∀ i j, i ≠ j → 0 ≤ S i j)
    (hS_row : ∀ i, ∑ j, S i j ≤ 0) (hθ : 0 < θ) (hR : ∀ i s, 0 ≤ R i s)
    (hr : ∀ s, 0 < mcRtot R s) (hGr : (θ • mcD R - S) * G = 1) {α : ι → K}
    (hα : ∀ s, 0 ≤ α s) (hα1 : ∑ s, α s ≤ 1) (hn : 1 ≤ n) {c : List ℕ} (hc : c.length = n) :
    α ⬝ᵥ (orderingsSum (mcPnat G θ R) (configWord c) *ᵥ mcptot G θ R) ≤ 1 := by
  have hr' : ∀ s, mcRtot R s ≠ 0 := fun s => (hr s).ne'
  refine le_trans ?_ (config_level_mass_le_one hS_off hS_row hθ hr hGr hα hα1 c.sum)
  rw [← C16_config_mass hr' hn α c.sum]
  refine List.single_le_sum (fun x hx => ?_) _ (List.mem_map.mpr ⟨c, ?_, rfl⟩)
  · obtain ⟨c', -, rfl⟩ := List.mem_map.mp hx
    exact config_orderings_prob_nonneg hS_off hS_row hθ hR hr hGr hα _
  · exact ((partitionsOf_spec c.sum n hn).2 c).mpr ⟨hc, rfl⟩

end Ordered

/-! ## 6. the numbers the executable `mutConfigProb` returns are probabilities -/

section Driver

/-- **`mutConfigProb ≥ 0`.** If the rational generator block `S` is a sub-generator, `θ > 0`, the
rewards are non-negative with positive total in every transient state and `α ≥ 0`, then whatever
`mutConfigProb` returns is non-negative. -/
theorem mutConfigProb_nonneg {S : RMat} {R : List (Array ℚ)} {alpha : Array ℚ} {θ : ℚ}
    {config : List ℕ} {p : ℚ} (h : mutConfigProb S R alpha θ config = some p)
    (hS_off : ∀ i j, i ≠ j → 0 ≤ toMatrix S.size S i j)
    (hS_row : ∀ i, ∑ j, toMatrix S.size S i j ≤ 0) (hθ : 0 < θ)
    (hR : ∀ i s, 0 ≤ rFun S.size R i s) (hr : ∀ s, 0 < mcRtot (rFun S.size R) s)
    (hα : ∀ s, 0 ≤ toVec S.size alpha s) (hc : config.length ≤ R.length) : 0 ≤ p := by
  obtain ⟨G, hGr, -, rfl⟩ := mutConfigProb_spec h hθ.ne' (fun s => (hr s).ne') hc
  exact config_orderings_prob_nonneg hS_off hS_row hθ hR hr hGr hα _

/-- **`mutConfigProb ≤ 1`** for a configuration with one entry per reward vector and a
sub-probability initial vector. -/
theorem mutConfigProb_le_one {S : RMat} {R : List (Array ℚ)} {alpha : Array ℚ} {θ : ℚ}
    {config : List ℕ} {p : ℚ} (h : mutConfigProb S R alpha θ config = some p)
    (hS_off : ∀ i j, i ≠ j → 0 ≤ toMatrix S.size S i j)
    (hS_row : ∀ i, ∑ j, toMatrix S.size S i j ≤ 0) (hθ : 0 < θ)
    (hR : ∀ i s, 0 ≤ rFun S.size R i s) (hr : ∀ s, 0 < mcRtot (rFun S.size R) s)
    (hα : ∀ s, 0 ≤ toVec S.size alpha s) (hα1 : ∑ s, toVec S.size alpha s ≤ 1)
    (hn : 1 ≤ R.length) (hc : config.length = R.length) : p ≤ 1 := by
  obtain ⟨G, hGr, -, rfl⟩ := mutConfigProb_spec h hθ.ne' (fun s => (hr s).ne') hc.le
  exact config_orderings_prob_le_one hS_off hS_row hθ hR hr hGr hα hα1 hn hc

/-- the numbers `mutConfigProb` returns for all configurations with at most `M` mutations sum to a
number in `[0, 1]` -/
theorem mutConfigProb_total_mass_bounds {S : RMat} {R : List (Array ℚ)} {θ : ℚ} {P : List RMat}
    {pTot : Array ℚ} (hg : getP S R θ = some (P, pTot))
    (hS_off : ∀ i j, i ≠ j → 0 ≤ toMatrix S.size S i j)
    (hS_row : ∀ i, ∑ j, toMatrix S.size S i j ≤ 0) (hθ : 0 < θ)
    (hR : ∀ i s, 0 ≤ rFun S.size R i s) (hr : ∀ s, 0 < mcRtot (rFun S.size R) s)
    (hn : 1 ≤ R.length) (alpha : Array ℚ)
    (hα : ∀ s, 0 ≤ toVec S.size alpha s) (hα1 : ∑ s, toVec S.size alpha s ≤ 1) (M : ℕ) :
    0 ≤ ∑ m ∈ Finset.range (M + 1),
        ((partitionsOf m R.length).map fun c => (mutConfigProb S R alpha θ c).getD 0).sum ∧
    ∑ m ∈ Finset.range (M + 1),
        ((partitionsOf m R.length).map fun c => (mutConfigProb S R alpha θ c).getD 0).sum ≤ 1 := by
  obtain ⟨G, hGr, -, hall⟩ := mutConfigProb_mass hg hθ.ne' (fun s => (hr s).ne') hn alpha
  simp only [hall]
  exact ⟨config_mass_nonneg hS_off hS_row hθ hr hGr hα M,
    config_mass_le_one hS_off hS_row hθ hr hGr hα hα1 M⟩

end Driver

/-! ## 7. a concrete instance: the hypotheses are simultaneously satisfiable

Kingman coalescent with 3 lineages: transient states "3 lineages" and "2 lineages";
`S = [[-3, 3], [0, -1]]`; rewards: singleton branches `(3, 1)`, doubleton branches `(0, 1)`;
`θ = 1`; `θD - S = [[6, -3], [0, 3]]` with inverse `[[1/6, 1/6], [0, 1/3]]`. -/

section Example

def exS : Matrix (Fin 2) (Fin 2) ℚ := !![-3, 3; 0, -1]
def exG : Matrix (Fin 2) (Fin 2) ℚ := !![1/6, 1/6; 0, 1/3]
def exR : Fin 2 → Fin 2 → ℚ := ![![3, 1], ![0, 1]]
def exα : Fin 2 → ℚ := ![1, 0]

theorem ex_S_off : ∀ i j, i ≠ j → 0 ≤ exS i j := by
  intro i j hij
  fin_cases i <;> fin_cases j <;> simp [exS] at hij ⊢

theorem ex_S_row : ∀ i, ∑ j, exS i j ≤ 0 := by
  intro i
  fin_cases i <;> simp [exS, Fin.sum_univ_two]

theorem ex_R_nonneg : ∀ i s, 0 ≤ exR i s := by
  intro i s
  fin_cases i <;> fin_cases s <;> simp [exR]

theorem ex_Rtot : mcRtot exR = ![3, 2] := by
  funext s
  fin_cases s
  · simp [mcRtot, exR, Fin.sum_univ_two]
  · simp [mcRtot, exR, Fin.sum_univ_two]
    norm_num

theorem ex_Rtot_pos : ∀ s, 0 < mcRtot exR s := by
  intro s
  rw [ex_Rtot]
  fin_cases s <;> simp

theorem ex_M : (1 : ℚ) • mcD exR - exS = !![6, -3; 0, 3] := by
  rw [one_smul, mcD, ex_Rtot]
  ext i j
  fin_cases i <;> fin_cases j <;> simp [exS] <;> norm_num

theorem ex_Gr : ((1 : ℚ) • mcD exR - exS) * exG = 1 := by
  rw [ex_M]
  ext i j
  fin_cases i <;> fin_cases j <;> simp [exG, Matrix.mul_apply, Fin.sum_univ_two]

theorem ex_Gl : exG * ((1 : ℚ) • mcD exR - exS) = 1 := by
  rw [ex_M]
  ext i j
  fin_cases i <;> fin_cases j <;> simp [exG, Matrix.mul_apply, Fin.sum_univ_two]

theorem ex_α : (∀ s, 0 ≤ exα s) ∧ ∑ s, exα s = 1 := by
  refine ⟨fun s => ?_, ?_⟩
  · fin_cases s <;> simp [exα]
  · simp [exα, Fin.sum_univ_two]

/-- all hypotheses of the theorems of this file hold simultaneously for the instance -/
example :
    (∀ i j, i ≠ j → 0 ≤ exS i j) ∧ (∀ i, ∑ j, exS i j ≤ 0) ∧ (0 : ℚ) < 1 ∧
    (∀ i s, 0 ≤ exR i s) ∧ (∀ s, 0 < mcRtot exR s) ∧
    ((1 : ℚ) • mcD exR - exS) * exG = 1 ∧ exG * ((1 : ℚ) • mcD exR - exS) = 1 ∧
    (∀ s, 0 ≤ exα s) ∧ ∑ s, exα s = 1 :=
  ⟨ex_S_off, ex_S_row, one_pos, ex_R_nonneg, ex_Rtot_pos, ex_Gr, ex_Gl, ex_α.1, ex_α.2⟩

/-- and the theorems apply: e.g. every word has a probability in `[0, 1]` -/
example (w : List (Fin 2)) :
    0 ≤ exα ⬝ᵥ ((w.map (mcP exG 1 exR)).prod *ᵥ mcptot exG 1 exR) ∧
    exα ⬝ᵥ ((w.map (mcP exG 1 exR)).prod *ᵥ mcptot exG 1 exR) ≤ 1 :=
  ⟨config_prob_nonneg ex_S_off ex_S_row one_pos ex_R_nonneg ex_Rtot_pos ex_Gr ex_α.1 w,
   config_prob_le_one ex_S_off ex_S_row one_pos ex_R_nonneg ex_Rtot_pos ex_Gr ex_α.1
     ex_α.2.le w⟩

/-- the value for the empty configuration: `p_total = (1/6, 1/3)`, so `P(no mutation) = 1/6` -/
theorem ex_ptot : mcptot exG 1 exR = ![1/6, 1/3] := by
  rw [C16_empty ex_Gl]
  funext s
  fin_cases s <;> simp [exG, exS, Matrix.mulVec, dotProduct, Fin.sum_univ_two]

example : exα ⬝ᵥ (((([] : List (Fin 2)).map (mcP exG 1 exR)).prod) *ᵥ mcptot exG 1 exR) = 1/6 := by
  rw [List.map_nil, List.prod_nil, Matrix.one_mulVec, ex_ptot]
  simp [exα, dotProduct, Fin.sum_univ_two]

end Example

end PG

#print axioms PG.zmatrix_minimum_principle
#print axioms PG.zmatrix_maximum_principle
#print axioms PG.zmatrix_injective
#print axioms PG.zmatrix_inverse_nonneg
#print axioms PG.zmatrix_inverse_nonneg'
#print axioms PG.zmatrix_det_ne_zero
#print axioms PG.resolvent_det_ne_zero
#print axioms PG.resolvent_nonneg
#print axioms PG.mcPtot_nonneg
#print axioms PG.mcP_nonneg
#print axioms PG.mcptot_nonneg
#print axioms PG.mcptot_le_one
#print axioms PG.mcPtot_row_sum_le_one
#print axioms PG.mcPtot_entry_le_one
#print axioms PG.mcPtot_pow_row_sum_le_one
#print axioms PG.config_prob_nonneg
#print axioms PG.config_prob_words_nonneg
#print axioms PG.config_prob_le_one
#print axioms PG.orderingsSum_nonneg
#print axioms PG.config_orderings_prob_nonneg
#print axioms PG.config_orderings_prob_le_one
#print axioms PG.config_level_mass_nonneg
#print axioms PG.config_level_mass_le_one
#print axioms PG.config_tail_mass_bounds
#print axioms PG.config_mass_nonneg
#print axioms PG.config_mass_le_sum
#print axioms PG.config_mass_le_one
#print axioms PG.mutConfigProb_nonneg
#print axioms PG.mutConfigProb_le_one
#print axioms PG.mutConfigProb_total_mass_bounds
#print axioms PG.ex_Gr
#print axioms PG.ex_Gl
#print axioms PG.ex_ptot
