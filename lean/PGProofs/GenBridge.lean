/-
PGProofs.GenBridge — **generated = model**.

`Generated/Rates.lean` is the machine translation (by `harness/extract_rates.py`) of the Python AST
of the merger-rate functions of `phasegen/coalescent_models.py` into real-valued Lean definitions
(`PG.Gen.*`).  `PGModel/Rates.lean` is the hand-written executable model over `ℚ`.
This file proves that the two agree (after the cast `ℚ → ℝ`), function by function, and states
exactly on which arguments.

Hypotheses needed (and why):
* Kingman / Dirac `_get_rate`, all `_get_timescale`: none.
* Kingman / Dirac `_get_rate_block_counting`: `ks.length ≤ bs.length`
  (the Python reads `k[0]`, `k[1]`, resp. loops over `range(len(k))`, the model pattern-matches on
  both lists resp. zips them; they disagree when `ks` is LONGER than `bs`, see
  `gen_standard_rate_bc_ne`, `gen_dirac_rate_bc_ne`).
* Beta rates: `0 < α < 2`, `2 ≤ k ≤ b` (the model stores the polynomial which the ratio of Beta
  functions equals on that range; for `k = 1` they differ, see `gen_beta_rate_one_ne`).
-/
import Generated.Rates
import PGProofs.RatesThm
import PGProofs.GenPrims

namespace PG

open PG.Gen

/-! ## Kingman (`StandardCoalescent`) -/

theorem gen_standard_rate (b k : ℕ) :
    Gen.StandardCoalescent__get_rate b k = ((getRate .kingman b k : ℚ) : ℝ) := by
  unfold Gen.StandardCoalescent__get_rate
  simp only [getRate, kingmanRate]
  split_ifs <;> push_cast <;> rfl

/-- The model's pattern match, written with lengths and `getD` as in the Python code. -/
theorem kingmanRateBC_eq_getD (bs ks : List ℕ) (h : ks.length ≤ bs.length) :
    kingmanRateBC bs ks =
      if bs.length = 1 then kingmanRate (bs.getD 0 0) (ks.getD 0 0)
      else if bs.length = 2 then
        (if ks.getD 0 0 = 1 ∧ ks.getD 1 0 = 1 then ((bs.getD 0 0 : ℕ) : ℚ) * ((bs.getD 1 0 : ℕ) : ℚ)
         else 0)
      else 0 := by
  match bs, ks, h with
  | [], _, _ => simp [kingmanRateBC]
  | [b], [], _ => simp [kingmanRateBC, kingmanRate]
  | [b], [k], _ => simp [kingmanRateBC]
  | [b], _ :: _ :: _, h => simp at h
  | [b0, b1], [], _ => simp [kingmanRateBC]
  | [b0, b1], [k], _ => simp [kingmanRateBC]
  | [b0, b1], [k0, k1], _ =>
    by_cases hk : k0 = 1 ∧ k1 = 1
    · obtain ⟨rfl, rfl⟩ := hk
      simp [kingmanRateBC]
    · have : kingmanRateBC [b0, b1] [k0, k1] = 0 := by
        unfold kingmanRateBC
        split
        · simp_all
        · simp_all
        · rfl
      simp [this, hk]
  | [b0, b1], _ :: _ :: _ :: _, h => simp at h
  | b0 :: b1 :: b2 :: bs', ks, _ =>
    have : kingmanRateBC (b0 :: b1 :: b2 :: bs') ks = 0 := by
      unfold kingmanRateBC
      split
      · simp_all
      · simp_all
      · rfl
    simp [this]

/-- `_get_rate_block_counting` of the standard coalescent.  The hypothesis `ks.length ≤ bs.length`
cannot be dropped (`gen_standard_rate_bc_ne`). -/
theorem gen_standard_rate_bc (n : ℕ) (bs ks : List ℕ) (h : ks.length ≤ bs.length) :
    Gen.StandardCoalescent__get_rate_block_counting n bs ks
      = ((getRateBC .kingman n bs ks : ℚ) : ℝ) := by
  unfold Gen.StandardCoalescent__get_rate_block_counting
  simp only [getRateBC, kingmanRateBC_eq_getD bs ks h, gen_standard_rate, getRate]
  split_ifs <;> push_cast <;> rfl

theorem gen_standard_rate_bc' (n : ℕ) (bs ks : List ℕ) (h : ks.length = bs.length) :
    Gen.StandardCoalescent__get_rate_block_counting n bs ks
      = ((getRateBC .kingman n bs ks : ℚ) : ℝ) :=
  gen_standard_rate_bc n bs ks h.le

/-- Without the length hypothesis the two differ: `b = [2]`, `k = [2, 0]` (the Python code only
looks at `k[0]`, the model matches `[b], [k]`). Such arguments are never produced by `coalesce`. -/
theorem gen_standard_rate_bc_ne (n : ℕ) :
    Gen.StandardCoalescent__get_rate_block_counting n [2] [2, 0] = 1 ∧
      ((getRateBC .kingman n [2] [2, 0] : ℚ) : ℝ) = 0 := by
  constructor
  · unfold Gen.StandardCoalescent__get_rate_block_counting Gen.StandardCoalescent__get_rate
    norm_num
  · simp [getRateBC, kingmanRateBC]

theorem gen_standard_timescale (N : ℚ) :
    Gen.StandardCoalescent__get_timescale (N : ℝ) = ((N : ℚ) : ℝ) ∧
      timescaleRat .kingman N = some N :=
  ⟨rfl, rfl⟩

/-- real-valued form -/
theorem gen_standard_timescale_real (N : ℝ) : Gen.StandardCoalescent__get_timescale N = N := rfl

/-! ## Beta coalescent -/

theorem gen_beta_base_rate (a : ℚ) (st : Bool) (b k : ℕ) (h0 : 0 < a) (h2 : a < 2) (hk : 2 ≤ k)
    (hkb : k ≤ b) :
    Gen.BetaCoalescent__get_base_rate (a : ℝ) st b k = ((betaBase a b k : ℚ) : ℝ) := by
  rw [betaBase_eq_Beta a h0 h2 b k hk hkb]
  unfold Gen.BetaCoalescent__get_base_rate
  simp only [Nat.cast_ofNat]

/-- real-valued form: the generated base rate is `betaBaseR` for every real `0 < α < 2`. -/
theorem gen_beta_base_rate_real (α : ℝ) (st : Bool) (b k : ℕ) (h0 : 0 < α) (h2 : α < 2)
    (hk : 2 ≤ k) (hkb : k ≤ b) :
    Gen.BetaCoalescent__get_base_rate α st b k = betaBaseR α b k := by
  rw [betaBaseR_eq_betaFn α h0 h2 b k hk hkb]
  unfold Gen.BetaCoalescent__get_base_rate
  simp only [Nat.cast_ofNat]

theorem gen_beta_rate (a : ℚ) (st : Bool) (b k : ℕ) (h0 : 0 < a) (h2 : a < 2) (hk : 2 ≤ k)
    (hkb : k ≤ b) :
    Gen.BetaCoalescent__get_rate (a : ℝ) st b k = ((getRate (.beta a st) b k : ℚ) : ℝ) := by
  have h : ¬ (k < 1 ∨ k > b) := by omega
  unfold Gen.BetaCoalescent__get_rate
  simp only [getRate, if_neg h, gen_beta_base_rate a st b k h0 h2 hk hkb, choose_eq]
  push_cast
  rfl

/-- Outside `1 ≤ k ≤ b` both are zero (no hypothesis on `α`). -/
theorem gen_beta_rate_out (α : ℝ) (a : ℚ) (st : Bool) (b k : ℕ) (h : k < 1 ∨ k > b) :
    Gen.BetaCoalescent__get_rate α st b k = 0 ∧ getRate (.beta a st) b k = 0 := by
  unfold Gen.BetaCoalescent__get_rate
  simp only [getRate, if_pos h]
  exact ⟨Nat.cast_zero, trivial⟩

theorem gen_beta_rate_out' (a : ℚ) (st : Bool) (b k : ℕ) (h : k < 1 ∨ k > b) :
    Gen.BetaCoalescent__get_rate (a : ℝ) st b k = ((getRate (.beta a st) b k : ℚ) : ℝ) := by
  obtain ⟨h1, h2⟩ := gen_beta_rate_out (a : ℝ) a st b k h
  rw [h1, h2, Rat.cast_zero]

/-- The remaining case `k = 1` (a "merger" of one lineage, never requested by `coalesce`) is a
genuine difference: the model stores the polynomial `∏_{j<b-1}(j+α)/(b-1)!`, the Python code
evaluates `B(1-α, b-1+α)/B(α, 2-α)`, which is `1/(1-α)` times that.  E.g. `α = 1/2`, `b = k = 1`:
generated `= 2`, model `= 1`. -/
theorem gen_beta_rate_one_ne (st : Bool) :
    Gen.BetaCoalescent__get_rate (((1 / 2 : ℚ)) : ℝ) st 1 1 = 2 ∧
      ((getRate (.beta (1 / 2) st) 1 1 : ℚ) : ℝ) = 1 := by
  constructor
  · unfold Gen.BetaCoalescent__get_rate Gen.BetaCoalescent__get_base_rate betaFn
    have hG : Real.Gamma (1 / 2 : ℝ) ≠ 0 := (Real.Gamma_pos_of_pos (by norm_num)).ne'
    have h32 : Real.Gamma (3 / 2 : ℝ) = 1 / 2 * Real.Gamma (1 / 2) := by
      rw [show (3 / 2 : ℝ) = 1 / 2 + 1 by norm_num, Real.Gamma_add_one (by norm_num)]
    norm_num
    rw [h32]
    field_simp
  · simp [getRate, betaBase, prodRange, prodRat, choose, factorial]

theorem gen_beta_rate_bc (a : ℚ) (st : Bool) (n : ℕ) (bs ks : List ℕ) (h0 : 0 < a) (h2 : a < 2)
    (hk : 2 ≤ ks.sum) (hkn : ks.sum ≤ n) :
    Gen.BetaCoalescent__get_rate_block_counting (a : ℝ) st n bs ks
      = ((getRateBC (.beta a st) n bs ks : ℚ) : ℝ) := by
  unfold Gen.BetaCoalescent__get_rate_block_counting
  simp only [getRateBC, prodNat_eq, sumNat_eq, zipWith_choose_eq,
    gen_beta_base_rate a st n ks.sum h0 h2 hk hkn]
  push_cast
  congr 2
  induction bs generalizing ks with
  | nil => simp
  | cons b bs ih =>
    cases ks with
    | nil => simp
    | cons k ks => simp [List.zipWith_cons_cons]

theorem gen_beta_timescale (α : ℝ) (st : Bool) (N : ℝ) :
    Gen.BetaCoalescent__get_timescale α st N = if st then betaTimescale α N else N := by
  unfold Gen.BetaCoalescent__get_timescale betaTimescale
  cases st
  · simp
  · simp only [not_true_eq_false, if_false, if_true, Nat.cast_one, Nat.cast_ofNat]
    rfl

/-- Link to the rational model: without time scaling the time scale is `N`; with time scaling the
model has no rational value (`none`) and the generated code is `betaTimescale`. -/
theorem gen_beta_timescale_model (a : ℚ) (N : ℚ) :
    (Gen.BetaCoalescent__get_timescale (a : ℝ) false (N : ℝ) = ((N : ℚ) : ℝ) ∧
      timescaleRat (.beta a false) N = some N) ∧
    (Gen.BetaCoalescent__get_timescale (a : ℝ) true (N : ℝ) = betaTimescale (a : ℝ) (N : ℝ) ∧
      timescaleRat (.beta a true) N = none) := by
  refine ⟨⟨?_, rfl⟩, ?_, rfl⟩
  · rw [gen_beta_timescale]; rfl
  · rw [gen_beta_timescale]; rfl

/-! ## Dirac coalescent -/

theorem gen_dirac_rate (psi c : ℚ) (st : Bool) (b k : ℕ) :
    Gen.DiracCoalescent__get_rate (psi : ℝ) (c : ℝ) st b k
      = ((getRate (.dirac psi c st) b k : ℚ) : ℝ) := by
  unfold Gen.DiracCoalescent__get_rate
  simp only [getRate, gen_standard_rate]
  push_cast
  rw [binomPmf_cast]

/-- `[f (k[i], b[i]) for i in range(len(k))]` is `zipWith` when `k` is not longer than `b`. -/
theorem map_range_getD_eq_zipWith {β : Type*} (f : ℕ → ℕ → β) (bs ks : List ℕ)
    (h : ks.length ≤ bs.length) :
    (List.range ks.length).map (fun i => f (ks.getD i 0) (bs.getD i 0))
      = List.zipWith (fun b k => f k b) bs ks := by
  induction ks generalizing bs with
  | nil => simp
  | cons k ks ih =>
    cases bs with
    | nil => simp at h
    | cons b bs =>
      have h' : ks.length ≤ bs.length := by simpa using h
      rw [List.length_cons, List.range_succ_eq_map, List.map_cons, List.map_map,
        List.zipWith_cons_cons, ← ih bs h']
      simp [Function.comp_def]

theorem gen_dirac_rate_bc (psi c : ℚ) (st : Bool) (n : ℕ) (bs ks : List ℕ)
    (h : ks.length ≤ bs.length) :
    Gen.DiracCoalescent__get_rate_block_counting (psi : ℝ) (c : ℝ) st n bs ks
      = ((getRateBC (.dirac psi c st) n bs ks : ℚ) : ℝ) := by
  unfold Gen.DiracCoalescent__get_rate_block_counting
  have hK := gen_standard_rate_bc n bs ks h
  simp only [getRateBC] at hK
  simp only [getRateBC, hK, prodRat_eq, sumNat_eq,
    map_range_getD_eq_zipWith (fun k b => binomPmfR k b (psi : ℝ)) bs ks h]
  have hP : ((List.zipWith (fun b k => binomPmf k b psi) bs ks).prod : ℚ)
      = ((List.zipWith (fun b k => binomPmfR k b (psi : ℝ)) bs ks).prod : ℝ) := by
    clear hK h
    induction bs generalizing ks with
    | nil => simp
    | cons b bs ih =>
      cases ks with
      | nil => simp
      | cons k ks => simp [List.zipWith_cons_cons, ih ks, binomPmf_cast]
  split_ifs
  · rw [Rat.cast_add, Rat.cast_mul, Rat.cast_mul, hP, binomPmf_cast]
  · rw [Rat.cast_add, Rat.cast_mul, hP]

theorem gen_dirac_rate_bc' (psi c : ℚ) (st : Bool) (n : ℕ) (bs ks : List ℕ)
    (h : bs.length = ks.length) :
    Gen.DiracCoalescent__get_rate_block_counting (psi : ℝ) (c : ℝ) st n bs ks
      = ((getRateBC (.dirac psi c st) n bs ks : ℚ) : ℝ) :=
  gen_dirac_rate_bc psi c st n bs ks h.ge

/-- Without the length hypothesis the two differ: `b = []`, `k = [1]`, `c = 1` (the Python loop
over `range(len(k))` would index `b` out of range; the translation reads 0 and gets
`binom.pmf(1, 0, ψ) = 0`, the model's `zipWith` gives the empty product 1). -/
theorem gen_dirac_rate_bc_ne (psi : ℚ) (st : Bool) :
    Gen.DiracCoalescent__get_rate_block_counting (psi : ℝ) ((1 : ℚ) : ℝ) st 0 [] [1] = 0 ∧
      ((getRateBC (.dirac psi 1 st) 0 [] [1] : ℚ) : ℝ) = 1 := by
  constructor
  · unfold Gen.DiracCoalescent__get_rate_block_counting
      Gen.StandardCoalescent__get_rate_block_counting
    simp [binomPmfR]
  · simp [getRateBC, kingmanRateBC, prodRat, sumNat]

theorem gen_dirac_timescale (psi c : ℝ) (st : Bool) (N : ℝ) :
    Gen.DiracCoalescent__get_timescale psi c st N = if st then N ^ 2 else N := by
  unfold Gen.DiracCoalescent__get_timescale
  cases st <;> simp

theorem gen_dirac_timescale_model (psi c : ℚ) (st : Bool) (N : ℚ) :
    timescaleRat (.dirac psi c st) N = some (if st then N ^ 2 else N) ∧
      Gen.DiracCoalescent__get_timescale (psi : ℝ) (c : ℝ) st (N : ℝ)
        = (((if st then N ^ 2 else N : ℚ)) : ℝ) := by
  rw [gen_dirac_timescale]
  cases st
  · exact ⟨rfl, rfl⟩
  · refine ⟨?_, ?_⟩
    · simp only [timescaleRat, if_true, pow_two]
    · simp

/-! ## Summaries: one theorem per coalescent model -/

/-- **`StandardCoalescent`: generated = model.** -/
theorem gen_standard_eq_model :
    (∀ b k : ℕ, Gen.StandardCoalescent__get_rate b k = ((getRate .kingman b k : ℚ) : ℝ)) ∧
    (∀ (n : ℕ) (bs ks : List ℕ), ks.length ≤ bs.length →
      Gen.StandardCoalescent__get_rate_block_counting n bs ks
        = ((getRateBC .kingman n bs ks : ℚ) : ℝ)) ∧
    (∀ N : ℚ, some (Gen.StandardCoalescent__get_timescale (N : ℝ))
        = (timescaleRat .kingman N).map (fun q : ℚ => (q : ℝ))) :=
  ⟨gen_standard_rate, gen_standard_rate_bc, fun _ => rfl⟩

/-- **`BetaCoalescent`: generated = model** for `0 < α < 2`. -/
theorem gen_beta_eq_model (a : ℚ) (st : Bool) (h0 : 0 < a) (h2 : a < 2) :
    (∀ b k : ℕ, 2 ≤ k → k ≤ b →
      Gen.BetaCoalescent__get_base_rate (a : ℝ) st b k = ((betaBase a b k : ℚ) : ℝ)) ∧
    (∀ b k : ℕ, k ≠ 1 →
      Gen.BetaCoalescent__get_rate (a : ℝ) st b k = ((getRate (.beta a st) b k : ℚ) : ℝ)) ∧
    (∀ (n : ℕ) (bs ks : List ℕ), 2 ≤ ks.sum → ks.sum ≤ n →
      Gen.BetaCoalescent__get_rate_block_counting (a : ℝ) st n bs ks
        = ((getRateBC (.beta a st) n bs ks : ℚ) : ℝ)) ∧
    (∀ N : ℚ, Gen.BetaCoalescent__get_timescale (a : ℝ) st (N : ℝ)
        = if st then betaTimescale (a : ℝ) (N : ℝ) else ((N : ℚ) : ℝ)) ∧
    (∀ N : ℚ, timescaleRat (.beta a st) N = if st then none else some N) := by
  refine ⟨fun b k hk hkb => gen_beta_base_rate a st b k h0 h2 hk hkb, fun b k hk1 => ?_,
    fun n bs ks hk hkn => gen_beta_rate_bc a st n bs ks h0 h2 hk hkn,
    fun N => gen_beta_timescale _ _ _, fun N => by cases st <;> rfl⟩
  by_cases h : k < 1 ∨ k > b
  · exact gen_beta_rate_out' a st b k h
  · exact gen_beta_rate a st b k h0 h2 (by omega) (by omega)

/-- **`DiracCoalescent`: generated = model.** -/
theorem gen_dirac_eq_model (psi c : ℚ) (st : Bool) :
    (∀ b k : ℕ, Gen.DiracCoalescent__get_rate (psi : ℝ) (c : ℝ) st b k
        = ((getRate (.dirac psi c st) b k : ℚ) : ℝ)) ∧
    (∀ (n : ℕ) (bs ks : List ℕ), ks.length ≤ bs.length →
      Gen.DiracCoalescent__get_rate_block_counting (psi : ℝ) (c : ℝ) st n bs ks
        = ((getRateBC (.dirac psi c st) n bs ks : ℚ) : ℝ)) ∧
    (∀ N : ℚ, some (Gen.DiracCoalescent__get_timescale (psi : ℝ) (c : ℝ) st (N : ℝ))
        = (timescaleRat (.dirac psi c st) N).map (fun q : ℚ => (q : ℝ))) := by
  refine ⟨gen_dirac_rate psi c st, gen_dirac_rate_bc psi c st, fun N => ?_⟩
  obtain ⟨h1, h2⟩ := gen_dirac_timescale_model psi c st N
  rw [h1, h2, Option.map_some]

end PG

#print axioms PG.gen_standard_rate
#print axioms PG.gen_standard_rate_bc
#print axioms PG.gen_standard_rate_bc_ne
#print axioms PG.gen_standard_timescale
#print axioms PG.gen_beta_base_rate
#print axioms PG.gen_beta_rate
#print axioms PG.gen_beta_rate_out
#print axioms PG.gen_beta_rate_one_ne
#print axioms PG.gen_beta_rate_bc
#print axioms PG.gen_beta_timescale
#print axioms PG.gen_beta_timescale_model
#print axioms PG.gen_dirac_rate
#print axioms PG.gen_dirac_rate_bc
#print axioms PG.gen_dirac_rate_bc_ne
#print axioms PG.gen_dirac_timescale
#print axioms PG.gen_dirac_timescale_model
#print axioms PG.gen_standard_eq_model
#print axioms PG.gen_beta_eq_model
#print axioms PG.gen_dirac_eq_model
