/-
PGProofs.EndToEnd2 — the compositions `EndToEnd.lean` lists as NOT composed.

G. **cdf route** (`cdf_call_eq_labelled`): `TreeHeightDistribution.cdf(times)` of the code model
   -- negative-time `ValueError` guard (`cdf_call_negative`, `cdf_call_error_iff`; the same
   condition as `PGModel/Validate.lean`, query `cdf:`), sort, sweep, `1 - alpha @ T @ e`, scatter
   back -- is entrywise the cdf of the LABELLED process, for ANY list of non-negative times.
   [`Glue.code_cdf_pointwise` ∘ `Assembly.C03_cdf_eq_labelled`]
H. the call layer on ANY distribution object, well-formed calls (`accumulateCallK_wellformed`,
   `momentCallK_wellformed`): the part of `moment_call_eq_labelled` which does not depend on the
   state space.
I. **SFS route** (`sfs_moment_call_eq_labelled`): `SFSDistribution.moment(k, rewards, …)` -- one
   `PhaseTypeDistribution.moment` per frequency bin with the rewards
   `CombinedReward([r_a, sfs_reward(i)])`, the padding `padSFS` -- on the block-counting graph
   equals the padded vector of the same combinations of LABELLED typed-block moments; all orders
   `k ≥ 1`, any rewards `r_a`, centring / permutation, windows; unfolded AND folded (`indices`,
   `sfsReward` are parameters).  `codeRaw` of `EndToEnd.lean` is reused as it is: it does not
   mention the kind of state space.  [`Assembly.C02_sfs_eq_labelled_alpha`]
J. **two-locus route** (`two_locus_moment_call_eq_labelled`).  [`Assembly.C06_arg_eq_labelled_alpha`]
K. **demography ↔ glue**: the translation `toEvents : Config.Input → List Event` (names ↦ position
   on the sorted name list), `config_value_is_specValue`, `epoch_tables_from_demography`,
   `demo_tables_eq_glue`.
L. `capstone_with_demography`: `moment_call_eq_labelled` with `eps`, `ts`, `mig` instantiated
   from the demography model applied to the translated input; `cdf_with_demography`;
   `named_invariant_with_demography`.
M. closed instances (graphs, event lists, epochs, tables evaluated by the kernel).

NOT composed here:
  * the model's time scale `tsOf : ℚ → ℚ` (size ↦ coalescence time scale; `id` for Kingman) stays a
    parameter, as in `EndToEnd.lean`.
  * demography events other than the `pop_sizes=` / `migration_rates=` dicts of `Demography(...)`
    (user-supplied `events=[…]`: `PopulationSplit`, `DiscretizedRateChange(s)`) are not in the
    translation: `Config.Input` has no field for them.
  * in `named_invariant_with_demography` only the run on `I` is driven by the demography model; that
    `toEvents I'` of a re-listed input generates the same epochs is not proved.
  * the cdf of the block-counting / two-locus distributions (`C02_cdf_eq_labelled`,
    `C06_cdf_eq_labelled`), `SFSDistribution.accumulate` / `cov` (`covSFS`) and the two-locus SFS.
  * of the real `cdf`: the `NotImplementedError` for a non-default reward (`self.reward` of a
    `TreeHeightDistribution` IS `TreeHeightReward`) and the NaN log message are not modelled.
-/
import PGModel.ConfigDemo
import PGProofs.EndToEnd
import PGProofs.DemographyThm

set_option linter.unusedSectionVars false
set_option linter.unusedSimpArgs false
set_option linter.unusedVariables false

namespace PG
namespace EndToEnd

open PG.Api

/-! ## G. the cdf route -/

section Cdf
open Assembly Finset
variable {D : ℕ} {K : Type} [Field K] [LinearOrder K] [IsStrictOrderedRing K]

/-- the evaluator of a factor list which `TreeHeightDistribution.cdf` applies after every update
of the running product: `1 - alpha @ T @ e` with `e` the reward vector of `TreeHeightReward` -/
noncomputable def codeCdfEv (L : ExpLaw K) (G : ℕ → Graph) (n : ℕ) (c0 : Fin D → ℕ)
    (fs : List Factor) : K :=
  cdfVal L (fun e => (codeMat G e).map (fun q : ℚ => (q : K)))
    (fun j => (((alphaVec (G 0).visited (List.ofFn c0) 1 0).getD j.val 0 : ℚ) : K))
    (fun j => ((Reward.eval n (G 0).visited[j] .treeHeight : ℚ) : K))
    (castF fs)

/-- **`TreeHeightDistribution.cdf(t)` for an array `t`** (distributions.py l.1024-1075):
`if np.any(t < 0): raise ValueError`, then the sorted sweep with a running product and an epoch
cursor, `probs[i] = 1 - alpha @ T @ e`, and the scatter back `probs[argsort(argsort(t))]`
(`codeVectorised` of `PGModel/Accumulate.lean`). -/
noncomputable def cdfCallK (L : ExpLaw K) (G : ℕ → Graph) (n : ℕ) (c0 : Fin D → ℕ)
    (eps : List EpochT) (times : List ℚ) : Except ApiErr (List K) :=
  if negTimes times then .error .valueError
  else .ok (codeVectorised (codeCdfEv L G n c0) eps times)

/-- the scalar route `if not isinstance(t, Iterable): return self.cdf(np.array([t]))[0]` -/
noncomputable def cdfCallScalarK (L : ExpLaw K) (G : ℕ → Graph) (n : ℕ) (c0 : Fin D → ℕ)
    (eps : List EpochT) (t : ℚ) : Except ApiErr K :=
  (cdfCallK L G n c0 eps [t]).map fun l => l.getD 0 0

/-- the cdf of the LABELLED structured coalescent at time `t`: `1 - P(not yet absorbed at t)`,
generator `QLmat` of the labelled particle system, started in the labelled configuration `x0` -/
noncomputable def labCdf (L : ExpLaw K) (m : Model) (ts : ℕ → Fin D → ℚ)
    (mig : ℕ → Fin D → Fin D → ℚ) (G : ℕ → Graph) (cinit : Fin D → ℕ) (n : ℕ)
    (x0 : LabS (encLC (D := D)) (G 0).visited (∑ d, cinit d))
    (eps : List EpochT) (t : ℚ) : K :=
  cdfVal L
    (fun e => QLmat (castRate (K := K) (linRate (lam m) (ts e) (mig e))) linNew
      (LabP.val : LabS (encLC (D := D)) (G 0).visited (∑ d, cinit d) → List (Fin D)))
    (fun x => if x = x0 then 1 else 0)
    (fun x => ((Reward.eval n (encLC (cntF x.val)) .treeHeight : ℚ) : K))
    (castF (specFactors eps t))

variable {m : Model} {cinit : Fin D → ℕ} {ts : ℕ → Fin D → ℚ} {mig : ℕ → Fin D → Fin D → ℚ}
  {r : ℕ → ℚ} {fuel : ℕ → ℕ} {G : ℕ → Graph}


theorem negTimes_iff (times : List ℚ) : negTimes times = true ↔ ∃ t ∈ times, t < 0 := by
  simp [negTimes]

/-- the sweep of `cdf` returns, for ANY vector of times (unsorted, repeated), the direct evaluation
at every entry [`Glue.code_cdf_pointwise`] -/
theorem cdf_sweep_pointwise (L : ExpLaw K) (G : ℕ → Graph) (n : ℕ) (c0 : Fin D → ℕ)
    (eps : List EpochT) (times : List ℚ) :
    codeVectorised (codeCdfEv L G n c0) eps times
      = times.map fun t => codeCdfEv L G n c0 (specFactors eps t) :=
  code_cdf_pointwise L _ _ _ eps times

/-- [`Assembly.C03_cdf_eq_labelled` at the factor list of the time `t`] -/
theorem codeCdf_eq_labCdf
    (hG : ∀ e, bfs (transit m (mkEpoch (ts e) (mig e) (r e))) (encLC cinit) (fuel e) = some (G e))
    (L : ExpLaw K) (n : ℕ) (c0 : Fin D → ℕ)
    (x0 : LabS (encLC (D := D)) (G 0).visited (∑ d, cinit d)) (hx0 : cntF x0.val = c0)
    (eps : List EpochT) (t : ℚ) :
    codeCdfEv L G n c0 (specFactors eps t) = labCdf L m ts mig G cinit n x0 eps t :=
  (C03_cdf_eq_labelled hG L n c0 x0 hx0 _).symm

/-- **The cdf route.**  For ANY list of non-negative times (unsorted, repeated), the vector which
`tree_height.cdf(times)` returns on the code model -- negative-time guard, sort, sweep with a
running product of `expm(S_e · τ)` and an epoch cursor, `1 - alpha @ T @ e`, scatter back -- is,
entry by entry, the cdf of the LABELLED structured coalescent at that time. -/
theorem cdf_call_eq_labelled
    (hG : ∀ e, bfs (transit m (mkEpoch (ts e) (mig e) (r e))) (encLC cinit) (fuel e) = some (G e))
    (L : ExpLaw K) (n : ℕ) (c0 : Fin D → ℕ)
    (x0 : LabS (encLC (D := D)) (G 0).visited (∑ d, cinit d)) (hx0 : cntF x0.val = c0)
    (eps : List EpochT) (times : List ℚ) (hnn : ∀ t ∈ times, 0 ≤ t) :
    cdfCallK L G n c0 eps times = .ok (times.map (labCdf L m ts mig G cinit n x0 eps)) := by
  unfold cdfCallK
  rw [negTimes_eq_false hnn, cdf_sweep_pointwise]
  simp only [Bool.false_eq_true, if_false]
  congr 1
  exact List.map_congr_left fun t _ => codeCdf_eq_labCdf hG L n c0 x0 hx0 eps t

/-- the guard: one negative entry anywhere in the vector and `cdf` raises `ValueError` (the same
condition `∃ t ∈ ts, t < 0` as the request-level model `PGModel/Validate.lean`, query `cdf:`) -/
theorem cdf_call_negative (L : ExpLaw K) (G : ℕ → Graph) (n : ℕ) (c0 : Fin D → ℕ)
    (eps : List EpochT) (times : List ℚ) (h : ∃ t ∈ times, t < 0) :
    cdfCallK L G n c0 eps times = .error .valueError := by
  unfold cdfCallK
  rw [(negTimes_iff times).2 h]
  rfl

/-- it raises in no other case -/
theorem cdf_call_error_iff (L : ExpLaw K) (G : ℕ → Graph) (n : ℕ) (c0 : Fin D → ℕ)
    (eps : List EpochT) (times : List ℚ) :
    (∃ err, cdfCallK L G n c0 eps times = .error err) ↔ ∃ t ∈ times, t < 0 := by
  constructor
  · rintro ⟨err, h⟩
    by_contra hne
    have hnn : ∀ t ∈ times, 0 ≤ t := fun t ht => not_lt.1 fun hlt => hne ⟨t, ht, hlt⟩
    unfold cdfCallK at h
    rw [negTimes_eq_false hnn] at h
    simp at h
  · exact fun h => ⟨_, cdf_call_negative L G n c0 eps times h⟩

/-- entry `i`, spelled out -/
theorem cdf_call_entry_eq_labelled
    (hG : ∀ e, bfs (transit m (mkEpoch (ts e) (mig e) (r e))) (encLC cinit) (fuel e) = some (G e))
    (L : ExpLaw K) (n : ℕ) (c0 : Fin D → ℕ)
    (x0 : LabS (encLC (D := D)) (G 0).visited (∑ d, cinit d)) (hx0 : cntF x0.val = c0)
    (eps : List EpochT) (times : List ℚ) (hnn : ∀ t ∈ times, 0 ≤ t) :
    ∃ out : List K, cdfCallK L G n c0 eps times = .ok out ∧ out.length = times.length ∧
      ∀ (i : ℕ) (hi : i < times.length),
        out.getD i 0 = labCdf L m ts mig G cinit n x0 eps times[i] := by
  refine ⟨_, cdf_call_eq_labelled hG L n c0 x0 hx0 eps times hnn, by simp, fun i hi => ?_⟩
  simp [List.getD_eq_getElem?_getD, hi]

/-- the scalar route `cdf(t)` -/
theorem cdf_call_scalar_eq_labelled
    (hG : ∀ e, bfs (transit m (mkEpoch (ts e) (mig e) (r e))) (encLC cinit) (fuel e) = some (G e))
    (L : ExpLaw K) (n : ℕ) (c0 : Fin D → ℕ)
    (x0 : LabS (encLC (D := D)) (G 0).visited (∑ d, cinit d)) (hx0 : cntF x0.val = c0)
    (eps : List EpochT) (t : ℚ) (ht : 0 ≤ t) :
    cdfCallScalarK L G n c0 eps t = .ok (labCdf L m ts mig G cinit n x0 eps t) := by
  unfold cdfCallScalarK
  rw [cdf_call_eq_labelled hG L n c0 x0 hx0 eps [t] (by simpa using ht)]
  rfl

/-- never vacuous: a labelled start configuration with the counts `c0` exists -/
theorem cdf_call_eq_labelled_exists
    (hG : ∀ e, bfs (transit m (mkEpoch (ts e) (mig e) (r e))) (encLC cinit) (fuel e) = some (G e))
    (L : ExpLaw K) (n : ℕ) (c0 : Fin D → ℕ) (hc0 : ∑ d, c0 d = ∑ d, cinit d)
    (eps : List EpochT) (times : List ℚ) (hnn : ∀ t ∈ times, 0 ≤ t) :
    ∃ x0 : LabS (encLC (D := D)) (G 0).visited (∑ d, cinit d), cntF x0.val = c0 ∧
      cdfCallK L G n c0 eps times = .ok (times.map (labCdf L m ts mig G cinit n x0 eps)) := by
  obtain ⟨x, hx⟩ := exists_list_cntF c0
  have hlx : x.length = ∑ d, cinit d := by rw [← hc0, ← hx, sum_cntF]
  obtain ⟨x0, hx0⟩ := exists_labInit hG x hlx
  have h0 : cntF x0.val = c0 := by rw [hx0]; exact hx
  exact ⟨x0, h0, cdf_call_eq_labelled hG L n c0 x0 h0 eps times hnn⟩

/-- **Non-vacuity** (n = 2, one deme, Kingman, one epoch, the REAL matrix exponential): the
unsorted vector with a repeated entry `[3, 1/2, 3]`. -/
theorem cdf_instance :
    ∃ x0 : LabS (encLC (D := 1)) ((fun _ : ℕ => exG) 0).visited (∑ _d : Fin 1, 2),
      x0.val = [0, 0] ∧
      cdfCallK realExpLaw (fun _ => exG) 2 (cntF ([0, 0] : List (Fin 1)))
          [{ start := 0, stop := none }] [3, 1/2, 3]
        = .ok [labCdf realExpLaw .kingman (fun _ _ => 1) (fun _ _ _ => 0) (fun _ => exG)
                (fun _ => 2) 2 x0 [{ start := 0, stop := none }] 3,
              labCdf realExpLaw .kingman (fun _ _ => 1) (fun _ _ _ => 0) (fun _ => exG)
                (fun _ => 2) 2 x0 [{ start := 0, stop := none }] (1/2),
              labCdf realExpLaw .kingman (fun _ _ => 1) (fun _ _ _ => 0) (fun _ => exG)
                (fun _ => 2) 2 x0 [{ start := 0, stop := none }] 3] := by
  have hG : ∀ e : ℕ, bfs (transit .kingman (mkEpoch (D := 1) ((fun _ _ => 1) e)
      ((fun _ _ _ => 0) e) ((fun _ => 0) e))) (encLC (D := 1) fun _ => 2) ((fun _ => 5) e)
      = some ((fun _ => exG) e) := fun _ => exG_spec
  obtain ⟨x0, hx0⟩ := exists_labInit hG ([0, 0] : List (Fin 1)) (by simp)
  refine ⟨x0, hx0, ?_⟩
  rw [cdf_call_eq_labelled hG realExpLaw 2 (cntF ([0, 0] : List (Fin 1))) x0 (by rw [hx0])
    [{ start := 0, stop := none }] [3, 1/2, 3] (by
      intro t ht
      simp only [List.mem_cons, List.not_mem_nil, or_false] at ht
      rcases ht with rfl | rfl | rfl <;> norm_num)]
  rfl

end Cdf


/-! ## H. the call layer on ANY distribution object, well-formed calls -/

section GenericCall
variable {ρ K : Type} [Field K]

attribute [local instance] momValK

theorem resolveRewardsK_length' (dr : ρ) (k : Int) (rewards : Option (List ρ))
    (hk : 0 ≤ k) (hlen : ∀ rs, rewards = some rs → (rs.length : Int) = k) :
    ((resolveRewardsK dr k rewards).length : Int) = k := by
  cases hr : rewards with
  | none => simp [resolveRewardsK]; omega
  | some rs => simpa [resolveRewardsK] using hlen rs hr

/-- `accumulate(k, rewards, [t], center, permute)[0]` of a well-formed call on the distribution
object `ctx`: the centring / permutation combination of `ctx.raw · t` on the resolved tuple -/
def accOf (ctx : DistCtxK ρ K) (k : Int) (rewards : Option (List ρ)) (center permute : Bool)
    (t : ℚ) : K :=
  haveI : Inhabited ρ := ⟨ctx.defaultReward⟩
  accumulateModel (fun l => ctx.raw l t) center permute
    (resolveRewardsK ctx.defaultReward k rewards)

/-- `accumulate` on ANY list of end times, well-formed call, ANY distribution object -/
theorem accumulateCallK_wellformed (ctx : DistCtxK ρ K) (k : Int) (rewards : Option (List ρ))
    (times : List ℚ) (center permute : Bool) (hk : 1 ≤ k)
    (hlen : ∀ rs, rewards = some rs → (rs.length : Int) = k) (hnn : ∀ t ∈ times, 0 ≤ t) :
    accumulateCallK .current ctx k rewards times center permute
      = .ok (times.map (accOf ctx k rewards center permute)) := by
  have hn := resolveRewardsK_length' ctx.defaultReward k rewards (by omega) hlen
  rw [accumulateCallK_eq]
  show (match accErr .current k (resolveRewardsK ctx.defaultReward k rewards).length center
      (negTimes times) with
    | some e => Except.error e
    | none => Except.ok (times.map
        (accAtK ctx k (resolveRewardsK ctx.defaultReward k rewards) center permute))) = _
  rw [negTimes_eq_false hnn, accErr_wellformed k _ center hk hn]
  simp only []
  congr 1
  refine List.map_congr_left fun t _ => ?_
  unfold accAtK accOf
  rw [List.take_of_length_le (by omega)]

/-- `moment(k, rewards, start_time, end_time, center, permute)` of a well-formed call, ANY
distribution object: `acc(end) - acc(start)` resp. `acc(end)` -/
theorem momentCallK_wellformed (ctx : DistCtxK ρ K) (c : MomentCall ρ) (hk : 1 ≤ c.k)
    (hlen : ∀ rs, c.rewards = some rs → (rs.length : Int) = c.k)
    (he : 0 ≤ resolveTime .current c.endTime ctx.tMax) :
    momentCallK .current ctx c
      = .ok (if 0 < resolveTime .current c.startTime ctx.startDefault then
          accOf ctx c.k c.rewards c.center c.permute (resolveTime .current c.endTime ctx.tMax)
            - accOf ctx c.k c.rewards c.center c.permute
                (resolveTime .current c.startTime ctx.startDefault)
        else
          accOf ctx c.k c.rewards c.center c.permute (resolveTime .current c.endTime ctx.tMax)) := by
  unfold momentCallK
  show (if resolveTime .current c.startTime ctx.startDefault > 0 then _ else _) = _
  split_ifs with hpos
  · rw [accumulateCallK_wellformed ctx c.k c.rewards _ c.center c.permute hk hlen (by
        intro t ht
        simp only [List.mem_cons, List.not_mem_nil, or_false] at ht
        rcases ht with rfl | rfl
        · exact le_of_lt hpos
        · exact he)]
    rfl
  · rw [accumulateCallK_wellformed ctx c.k c.rewards _ c.center c.permute hk hlen (by
        intro t ht
        simp only [List.mem_cons, List.not_mem_nil, or_false] at ht
        rcases ht with rfl
        exact he)]
    rfl

/-- two distribution objects with the same `raw` on the tuples made of the resolved rewards -/
theorem accOf_congr (ctx ctx' : DistCtxK ρ K) (hd : ctx'.defaultReward = ctx.defaultReward)
    (k : Int) (rewards : Option (List ρ)) (center permute : Bool) (t : ℚ)
    (h : ∀ l, ctx'.raw l t = ctx.raw l t) :
    accOf ctx' k rewards center permute t = accOf ctx k rewards center permute t := by
  unfold accOf
  rw [hd]
  exact @accumulateModel_congr' ρ K _ ⟨ctx.defaultReward⟩ _ _ center permute _ h

end GenericCall

/-! ## I. the SFS route (block-counting state space) -/

section SFS
open Assembly Finset
variable {D n : ℕ} [NeZero n] {K : Type} [Field K] [LinearOrder K] [IsStrictOrderedRing K]

attribute [local instance] momValK

/-- `PGModel/Moments.lean` `padSFS` with `K`-valued moments:
`SFS([0] + list(moments) + [0] * (n - len(moments)))` -/
def padSFSK (n : ℕ) (moments : List K) : List K :=
  [0] ++ moments ++ List.replicate (n - moments.length) 0

theorem padSFSK_rat : padSFSK (K := ℚ) = padSFS := rfl

/-- `SFSDistribution._moment(k, i, rewards, …)`, distributions.py l.1417-1425: the call
`PhaseTypeDistribution.moment(k, rewards=tuple(CombinedReward([r, self._get_sfs_reward(i)]) for r
in rewards), start_time, end_time, center, permute)`; `rewards` was resolved by
`SFSDistribution.moment` (l.1377: `(self.reward,) * k` if `None`) -/
def sfsBinCall (sfsReward : ℕ → Reward) (dr : Reward) (c : MomentCall Reward) (i : ℕ) :
    MomentCall Reward :=
  { c with rewards := some ((resolveRewardsK dr c.k c.rewards).map
      fun r => Reward.combined [r, sfsReward i]) }

/-- `SFSDistribution.moment(k, rewards, start_time, end_time, center, permute)`, l.1377-1389: one
call of `_moment` per frequency bin `i ∈ _get_indices()` (sequentially: the first exception
propagates), then the padding.  `indices` / `sfsReward` are `np.arange(1, n)` /
`UnfoldedSFSReward` for the unfolded, `np.arange(1, n // 2 + 1)` / `FoldedSFSReward` for the
folded spectrum. -/
def sfsMomentCallK (v : Variant) (ctx : DistCtxK Reward K) (n : ℕ) (indices : List ℕ)
    (sfsReward : ℕ → Reward) (c : MomentCall Reward) : Except ApiErr (List K) :=
  (indices.mapM fun i => momentCallK v ctx (sfsBinCall sfsReward ctx.defaultReward c i)).map
    (padSFSK n)

/-- `_get_indices` of `UnfoldedSFSDistribution` -/
def unfoldedIndices (n : ℕ) : List ℕ := List.range' 1 (n - 1)

/-- `CombinedReward([r, UnfoldedSFSReward(i)])`: the substitution of `CombinedReward.__init__`
(`TotalBranchLengthReward` + `LocusReward` ↦ `TotalBranchLengthLocusReward`) never fires on such a
pair, the reward is the plain product -/
theorem combined_pair_unfolded (r : Reward) (i : ℕ) :
    Reward.combined [r, .unfoldedSFS i] = .prod [r, .unfoldedSFS i] := by
  cases r <;> rfl

theorem combined_pair_folded (r : Reward) (i : ℕ) :
    Reward.combined [r, .foldedSFS i] = .prod [r, .foldedSFS i] := by
  cases r <;> rfl

/-- the same moment for the LABELLED process of typed blocks (a particle = a block, its type =
(deme, size)): generator `QLmat` with the rates `blkRate` of epoch `e`, rewards read on the
labelled configuration through its counts, started in the labelled configuration `x0` -/
noncomputable def labRawBC (L : ExpLaw K) (m : Model) (ts : ℕ → Fin D → ℚ)
    (mig : ℕ → Fin D → Fin D → ℚ) (G : ℕ → Graph) (n' : ℕ)
    (x0 : LabS (encBC (D := D) (n := n)) (G 0).visited n)
    (eps : List EpochT) (rs : List Reward) (t : ℚ) : K :=
  accumVal L
    (fun e => QLmat (castRate (K := K) (blkRate (lam m) (ts e) (mig e))) blkNew
      (LabP.val : LabS (encBC (D := D) (n := n)) (G 0).visited n → List (Fin D × Fin n)))
    (fun (a : Fin rs.length) x => ((Reward.eval n' (encBC (cntF x.val)) rs[a] : ℚ) : K))
    (fun x => if x = x0 then 1 else 0)
    (castF (specFactors eps t))

/-- the labelled process of typed blocks as a distribution object -/
noncomputable def labCtxBC (L : ExpLaw K) (m : Model) (ts : ℕ → Fin D → ℚ)
    (mig : ℕ → Fin D → Fin D → ℚ) (G : ℕ → Graph) (n' : ℕ)
    (x0 : LabS (encBC (D := D) (n := n)) (G 0).visited n)
    (eps : List EpochT) (dr : Reward) (sd tm : ℚ) : DistCtxK Reward K :=
  ⟨dr, sd, tm, labRawBC L m ts mig G n' x0 eps⟩

variable {m : Model} {cinit : Fin D × Fin n → ℕ} {ts : ℕ → Fin D → ℚ}
  {mig : ℕ → Fin D → Fin D → ℚ} {r : ℕ → ℚ} {fuel : ℕ → ℕ} {G : ℕ → Graph}

/-- **`raw` on the block-counting graph.**  `codeRaw` -- rate matrices `_graph_to_matrix` of the
graphs `G e`, reward vectors over the visited states, `alpha` of the sample configuration `nv`,
the sweep over the epochs -- does not mention the kind of state space; on the graphs found from a
block-counting state it is the moment of the labelled process of typed blocks
[`Assembly.C02_sfs_eq_labelled_alpha`] -/
theorem codeRaw_eq_labRawBC (hn : 2 ≤ n) (hmass : massBC cinit ≤ n)
    (hG : ∀ e, bfs (transit m (mkEpoch (ts e) (mig e) (r e))) (encBC cinit) (fuel e) = some (G e))
    (L : ExpLaw K) (n' : ℕ) (nv : Fin D → ℕ) (hnv : ∑ d, nv d = massBC cinit)
    (x0 : LabS (encBC (D := D) (n := n)) (G 0).visited n) (hx0 : cntF x0.val = sampleBC nv)
    (eps : List EpochT) :
    codeRaw L G n' nv eps = labRawBC L m ts mig G n' x0 eps := by
  funext rs t
  exact (C02_sfs_eq_labelled_alpha hn hmass hG L n' (fun a : Fin rs.length => rs[a]) nv hnv x0
    hx0 _).symm

/-- **All calls, all variants, exceptions included**: `SFSDistribution.moment(...)` on the code
model and on the labelled process of typed blocks return the same result. -/
theorem sfsMomentCallK_code_eq_lab (hn : 2 ≤ n) (hmass : massBC cinit ≤ n)
    (hG : ∀ e, bfs (transit m (mkEpoch (ts e) (mig e) (r e))) (encBC cinit) (fuel e) = some (G e))
    (L : ExpLaw K) (n' : ℕ) (nv : Fin D → ℕ) (hnv : ∑ d, nv d = massBC cinit)
    (x0 : LabS (encBC (D := D) (n := n)) (G 0).visited n) (hx0 : cntF x0.val = sampleBC nv)
    (eps : List EpochT) (dr : Reward) (sd tm : ℚ) (v : Variant) (N : ℕ) (indices : List ℕ)
    (sfsReward : ℕ → Reward) (c : MomentCall Reward) :
    sfsMomentCallK v (codeCtx L G n' nv eps dr sd tm) N indices sfsReward c
      = sfsMomentCallK v (labCtxBC L m ts mig G n' x0 eps dr sd tm) N indices sfsReward c := by
  unfold codeCtx labCtxBC
  rw [codeRaw_eq_labRawBC hn hmass hG L n' nv hnv x0 hx0 eps]

theorem mapM_ok {α β : Type} (f : α → β) (l : List α) :
    (l.mapM fun a => (Except.ok (f a) : Except ApiErr β)) = .ok (l.map f) := by
  induction l with
  | nil => rfl
  | cons a l ih =>
    rw [List.mapM_cons, ih]
    rfl

/-- bin `i` of the LABELLED spectrum moment: the centring / permutation combination of the moments
of the labelled typed-block process with the rewards `CombinedReward([r_a, sfs_reward(i)])` -/
noncomputable def labAccBC (L : ExpLaw K) (m : Model) (ts : ℕ → Fin D → ℚ)
    (mig : ℕ → Fin D → Fin D → ℚ) (G : ℕ → Graph) (n' : ℕ)
    (x0 : LabS (encBC (D := D) (n := n)) (G 0).visited n)
    (eps : List EpochT) (sfsReward : ℕ → Reward) (rs : List Reward) (center permute : Bool)
    (i : ℕ) (t : ℚ) : K :=
  accumulateModel (fun l => labRawBC L m ts mig G n' x0 eps l t) center permute
    (rs.map fun r => Reward.combined [r, sfsReward i])

/-- **The SFS route.**  A well-formed call `sfs.moment(k, rewards, start_time, end_time, center,
permute)` of the current code (order `k ≥ 1`, `rewards` = `None` or a tuple of length `k`, resolved
end time `≥ 0`) on the code model of the block-counting state space returns without exception the
padded vector `[0] + [bin i for i in indices] + [0] * (N - len(indices))`, where bin `i` is
`acc_i(end) - acc_i(start)` (resolved start time `> 0`) resp. `acc_i(end)` and `acc_i(t)` is the
centring / permutation combination `accumulateModel · center permute` of the moments, accumulated
up to `t`, of the LABELLED process of typed blocks with the rewards
`CombinedReward([r_a, sfs_reward(i)])`, `a = 1..k`. -/
theorem sfs_moment_call_eq_labelled (hn : 2 ≤ n) (hmass : massBC cinit ≤ n)
    (hG : ∀ e, bfs (transit m (mkEpoch (ts e) (mig e) (r e))) (encBC cinit) (fuel e) = some (G e))
    (L : ExpLaw K) (n' : ℕ) (nv : Fin D → ℕ) (hnv : ∑ d, nv d = massBC cinit)
    (x0 : LabS (encBC (D := D) (n := n)) (G 0).visited n) (hx0 : cntF x0.val = sampleBC nv)
    (eps : List EpochT) (dr : Reward) (sd tm : ℚ) (N : ℕ) (indices : List ℕ)
    (sfsReward : ℕ → Reward) (c : MomentCall Reward)
    (hk : 1 ≤ c.k) (hlen : ∀ rs, c.rewards = some rs → (rs.length : Int) = c.k)
    (he : 0 ≤ resolveTime .current c.endTime tm) :
    sfsMomentCallK .current (codeCtx L G n' nv eps dr sd tm) N indices sfsReward c
      = .ok (padSFSK N (indices.map fun i =>
          if 0 < resolveTime .current c.startTime sd then
            labAccBC L m ts mig G n' x0 eps sfsReward (resolveRewardsK dr c.k c.rewards)
                c.center c.permute i (resolveTime .current c.endTime tm)
              - labAccBC L m ts mig G n' x0 eps sfsReward (resolveRewardsK dr c.k c.rewards)
                c.center c.permute i (resolveTime .current c.startTime sd)
          else
            labAccBC L m ts mig G n' x0 eps sfsReward (resolveRewardsK dr c.k c.rewards)
              c.center c.permute i (resolveTime .current c.endTime tm))) := by
  rw [sfsMomentCallK_code_eq_lab hn hmass hG L n' nv hnv x0 hx0 eps dr sd tm .current N indices
    sfsReward c]
  unfold sfsMomentCallK
  have hn0 := resolveRewardsK_length' dr c.k c.rewards (by omega) hlen
  have hbin : ∀ i, momentCallK .current (labCtxBC L m ts mig G n' x0 eps dr sd tm)
      (sfsBinCall sfsReward (labCtxBC L m ts mig G n' x0 eps dr sd tm).defaultReward c i)
      = .ok (if 0 < resolveTime .current c.startTime sd then
            labAccBC L m ts mig G n' x0 eps sfsReward (resolveRewardsK dr c.k c.rewards)
                c.center c.permute i (resolveTime .current c.endTime tm)
              - labAccBC L m ts mig G n' x0 eps sfsReward (resolveRewardsK dr c.k c.rewards)
                c.center c.permute i (resolveTime .current c.startTime sd)
          else
            labAccBC L m ts mig G n' x0 eps sfsReward (resolveRewardsK dr c.k c.rewards)
              c.center c.permute i (resolveTime .current c.endTime tm)) := by
    intro i
    have := momentCallK_wellformed (labCtxBC L m ts mig G n' x0 eps dr sd tm)
      (sfsBinCall sfsReward dr c i) hk (by
        intro rs hrs
        simp only [sfsBinCall, Option.some.injEq] at hrs
        rw [← hrs, List.length_map]
        exact hn0) he
    have key : ∀ t, accOf (labCtxBC L m ts mig G n' x0 eps dr sd tm) c.k
        (some ((resolveRewardsK dr c.k c.rewards).map fun r => Reward.combined [r, sfsReward i]))
        c.center c.permute t
        = labAccBC L m ts mig G n' x0 eps sfsReward (resolveRewardsK dr c.k c.rewards)
          c.center c.permute i t := by
      intro t
      unfold accOf labAccBC
      exact accumulateModel_inhabited_irrel _ _ _ _ _ _
    rw [show (labCtxBC L m ts mig G n' x0 eps dr sd tm).defaultReward = dr from rfl, this]
    show Except.ok (if 0 < resolveTime .current c.startTime sd then
        accOf (labCtxBC L m ts mig G n' x0 eps dr sd tm) c.k
          (some ((resolveRewardsK dr c.k c.rewards).map
            fun r => Reward.combined [r, sfsReward i])) c.center c.permute
          (resolveTime .current c.endTime tm)
        - accOf (labCtxBC L m ts mig G n' x0 eps dr sd tm) c.k
          (some ((resolveRewardsK dr c.k c.rewards).map
            fun r => Reward.combined [r, sfsReward i])) c.center c.permute
          (resolveTime .current c.startTime sd)
      else accOf (labCtxBC L m ts mig G n' x0 eps dr sd tm) c.k
          (some ((resolveRewardsK dr c.k c.rewards).map
            fun r => Reward.combined [r, sfsReward i])) c.center c.permute
          (resolveTime .current c.endTime tm)) = _
    rw [key, key]
  simp only [hbin, mapM_ok]
  rfl


/-- what the reward `CombinedReward([r, UnfoldedSFSReward(i + 1)])` reads on a labelled
configuration `x` of typed blocks: `r` times the number of blocks of size `i + 1` -/
theorem eval_combined_unfolded_lab (n' : ℕ) (r : Reward) (i : Fin n) (x : List (Fin D × Fin n)) :
    Reward.eval n' (encBC (cntF x)) (Reward.combined [r, .unfoldedSFS (i.val + 1)])
      = Reward.eval n' (encBC (cntF x)) r * ((∑ d, cntF x (d, i) : ℕ) : ℚ) := by
  rw [combined_pair_unfolded]
  simp only [Reward.eval, Reward.evalProd, mul_one, Nat.add_sub_cancel, blockTotal_encBC]

/-- the unfolded spectrum: bins `1 .. n-1`, rewards `CombinedReward([r_a, UnfoldedSFSReward(i)])` -/
theorem unfolded_sfs_moment_call_eq_labelled (hn : 2 ≤ n) (hmass : massBC cinit ≤ n)
    (hG : ∀ e, bfs (transit m (mkEpoch (ts e) (mig e) (r e))) (encBC cinit) (fuel e) = some (G e))
    (L : ExpLaw K) (nv : Fin D → ℕ) (hnv : ∑ d, nv d = massBC cinit)
    (x0 : LabS (encBC (D := D) (n := n)) (G 0).visited n) (hx0 : cntF x0.val = sampleBC nv)
    (eps : List EpochT) (dr : Reward) (sd tm : ℚ) (c : MomentCall Reward)
    (hk : 1 ≤ c.k) (hlen : ∀ rs, c.rewards = some rs → (rs.length : Int) = c.k)
    (he : 0 ≤ resolveTime .current c.endTime tm) :
    sfsMomentCallK .current (codeCtx L G n nv eps dr sd tm) n (unfoldedIndices n) .unfoldedSFS c
      = .ok (padSFSK n ((unfoldedIndices n).map fun i =>
          if 0 < resolveTime .current c.startTime sd then
            labAccBC L m ts mig G n x0 eps .unfoldedSFS (resolveRewardsK dr c.k c.rewards)
                c.center c.permute i (resolveTime .current c.endTime tm)
              - labAccBC L m ts mig G n x0 eps .unfoldedSFS (resolveRewardsK dr c.k c.rewards)
                c.center c.permute i (resolveTime .current c.startTime sd)
          else
            labAccBC L m ts mig G n x0 eps .unfoldedSFS (resolveRewardsK dr c.k c.rewards)
              c.center c.permute i (resolveTime .current c.endTime tm))) :=
  sfs_moment_call_eq_labelled hn hmass hG L n nv hnv x0 hx0 eps dr sd tm n _ _ c hk hlen he

/-- the padded vector has `n + 1` entries (frequencies `0 .. n`) -/
theorem padSFSK_unfolded_length (hn : 1 ≤ n) (f : ℕ → K) :
    (padSFSK n ((unfoldedIndices n).map f)).length = n + 1 := by
  simp [padSFSK, unfoldedIndices]

/-- never vacuous: when the search starts from singleton blocks (as `_get_initial` does), a
labelled start configuration of `nv d` singleton blocks in deme `d` exists -/
theorem sfs_moment_call_eq_labelled_exists (hn : 2 ≤ n) (nv0 : Fin D → ℕ) (hmass : ∑ d, nv0 d ≤ n)
    (hG : ∀ e, bfs (transit m (mkEpoch (ts e) (mig e) (r e))) (encBC (sampleBC (n := n) nv0))
      (fuel e) = some (G e))
    (L : ExpLaw K) (n' : ℕ) (nv : Fin D → ℕ) (hnv : ∑ d, nv d = ∑ d, nv0 d)
    (eps : List EpochT) (dr : Reward) (sd tm : ℚ) (N : ℕ) (indices : List ℕ)
    (sfsReward : ℕ → Reward) (c : MomentCall Reward)
    (hk : 1 ≤ c.k) (hlen : ∀ rs, c.rewards = some rs → (rs.length : Int) = c.k)
    (he : 0 ≤ resolveTime .current c.endTime tm) :
    ∃ x0 : LabS (encBC (D := D) (n := n)) (G 0).visited n, cntF x0.val = sampleBC nv ∧
    sfsMomentCallK .current (codeCtx L G n' nv eps dr sd tm) N indices sfsReward c
      = .ok (padSFSK N (indices.map fun i =>
          if 0 < resolveTime .current c.startTime sd then
            labAccBC L m ts mig G n' x0 eps sfsReward (resolveRewardsK dr c.k c.rewards)
                c.center c.permute i (resolveTime .current c.endTime tm)
              - labAccBC L m ts mig G n' x0 eps sfsReward (resolveRewardsK dr c.k c.rewards)
                c.center c.permute i (resolveTime .current c.startTime sd)
          else
            labAccBC L m ts mig G n' x0 eps sfsReward (resolveRewardsK dr c.k c.rewards)
              c.center c.permute i (resolveTime .current c.endTime tm))) := by
  obtain ⟨x, hx⟩ := exists_list_cntF (sampleBC (n := n) nv)
  obtain ⟨x0, hx0⟩ := exists_labInit_bc hn nv0 hmass hG nv hnv x hx
  have h0 : cntF x0.val = sampleBC nv := by rw [hx0]; exact hx
  have hmass' : massBC (sampleBC (n := n) nv0) ≤ n := by rw [massBC_sampleBC]; exact hmass
  exact ⟨x0, h0, sfs_moment_call_eq_labelled hn hmass' hG L n' nv
    (by rw [massBC_sampleBC]; exact hnv) x0 h0 eps dr sd tm N indices sfsReward c hk hlen he⟩

/-! ### a closed instance -/

/-- block counting, one deme, `n = 3`, Kingman, size 1 -/
def exStepBC : State → Targets :=
  transit .kingman (mkEpoch (D := 1) (fun _ => 1) (fun _ _ => 0) 0)

def exGBC : Graph :=
  (bfs exStepBC (encBC (D := 1) (n := 3) (sampleBC fun _ => 3)) 10).getD default

theorem exGBC_spec :
    bfs exStepBC (encBC (D := 1) (n := 3) (sampleBC fun _ => 3)) 10 = some exGBC := by
  have h : (bfs exStepBC (encBC (D := 1) (n := 3) (sampleBC fun _ => 3)) 10).isSome = true := by
    decide +kernel
  unfold exGBC
  cases hb : bfs exStepBC (encBC (D := 1) (n := 3) (sampleBC fun _ => 3)) 10 with
  | none => rw [hb] at h; cases h
  | some g => rfl

/-- the search finds the three states `3 singletons`, `singleton + pair`, `one block of 3` -/
theorem exGBC_length : exGBC.visited.length = 3 := by decide +kernel

/-- **Non-vacuity of the SFS route** (n = 3, one deme, Kingman, one epoch, the REAL matrix
exponential): `sfs.moment(2, center=True, permute=True)` (the variance of every bin, default
reward `UnitReward`) returns `[0, bin 1, bin 2, 0]` with the LABELLED centred second moments of
`Unit · UnfoldedSFS(i)`. -/
theorem sfs_instance (sd tm : ℚ) (htm : 0 ≤ tm) :
    ∃ x0 : LabS (encBC (D := 1) (n := 3)) ((fun _ : ℕ => exGBC) 0).visited 3,
      cntF x0.val = sampleBC (fun _ => 3) ∧
      sfsMomentCallK .current
          (codeCtx realExpLaw (fun _ => exGBC) 3 (fun _ : Fin 1 => 3)
            [{ start := 0, stop := none }] .unit sd tm) 3 (unfoldedIndices 3) .unfoldedSFS
          ⟨2, none, some 0, none, true, true⟩
        = .ok [0,
            labAccBC realExpLaw .kingman (fun _ _ => 1) (fun _ _ _ => 0) (fun _ => exGBC) 3 x0
              [{ start := 0, stop := none }] .unfoldedSFS [.unit, .unit] true true 1 tm,
            labAccBC realExpLaw .kingman (fun _ _ => 1) (fun _ _ _ => 0) (fun _ => exGBC) 3 x0
              [{ start := 0, stop := none }] .unfoldedSFS [.unit, .unit] true true 2 tm,
            0] := by
  have hG : ∀ e : ℕ, bfs (transit .kingman (mkEpoch (D := 1) ((fun _ _ => 1) e)
      ((fun _ _ _ => 0) e) ((fun _ => 0) e))) (encBC (D := 1) (n := 3) (sampleBC fun _ => 3))
      ((fun _ => 10) e) = some ((fun _ => exGBC) e) := fun _ => exGBC_spec
  obtain ⟨x0, hx0, h⟩ := sfs_moment_call_eq_labelled_exists (n := 3) (by norm_num)
    (fun _ : Fin 1 => 3) (by simp) hG realExpLaw 3 (fun _ : Fin 1 => 3) rfl
    [{ start := 0, stop := none }] .unit sd tm 3 (unfoldedIndices 3) .unfoldedSFS
    ⟨2, none, some 0, none, true, true⟩ (by decide) (by intro rs h; cases h)
    (by simpa [resolveTime] using htm)
  refine ⟨x0, hx0, ?_⟩
  rw [h]
  simp [resolveTime, resolveRewardsK, padSFSK, unfoldedIndices, List.range']

end SFS

/-! ## J. the two-locus route -/

section TwoLocus
open Assembly Finset LCls
variable {D : ℕ} {K : Type} [Field K] [LinearOrder K] [IsStrictOrderedRing K]

attribute [local instance] momValK

/-- **The instance of the call layer's `raw` for two loci**: as `codeRaw`, with the initial vector
`alpha` of a fully linked sample `nv` of two loci (`alphaVec … 2 0`: `n_loci = 2`,
`n_unlinked = 0`). -/
noncomputable def codeRaw2 (L : ExpLaw K) (G : ℕ → Graph) (n' : ℕ) (nv : Fin D → ℕ)
    (eps : List EpochT) (rs : List Reward) (t : ℚ) : K :=
  accumVal L (fun e => (codeMat G e).map (fun q : ℚ => (q : K)))
    (fun (a : Fin rs.length) j => ((Reward.eval n' (G 0).visited[j] rs[a] : ℚ) : K))
    (fun j => (((alphaVec (G 0).visited (List.ofFn nv) 2 0).getD j.val 0 : ℚ) : K))
    (castF (specFactors eps t))

/-- `codeRaw2` IS the numerical part of `_accumulate` on the two-locus state space, for ANY vector
of end times [`Glue.code_accumulate_pointwise`] -/
theorem raw2_of_code (L : ExpLaw K) (G : ℕ → Graph) (n' : ℕ) (nv : Fin D → ℕ) (eps : List EpochT)
    (rs : List Reward) (times : List ℚ) :
    codeVectorised (fun fs =>
        accumVal L (fun e => (codeMat G e).map (fun q : ℚ => (q : K)))
          (fun (a : Fin rs.length) j => ((Reward.eval n' (G 0).visited[j] rs[a] : ℚ) : K))
          (fun j => (((alphaVec (G 0).visited (List.ofFn nv) 2 0).getD j.val 0 : ℚ) : K))
          (castF fs)) eps times
      = times.map (codeRaw2 L G n' nv eps rs) :=
  code_accumulate_pointwise L _ _ _ eps times

noncomputable def codeCtx2 (L : ExpLaw K) (G : ℕ → Graph) (n' : ℕ) (nv : Fin D → ℕ)
    (eps : List EpochT) (dr : Reward) (sd tm : ℚ) : DistCtxK Reward K :=
  ⟨dr, sd, tm, codeRaw2 L G n' nv eps⟩

/-- the same moment for the LABELLED ancestral recombination graph stopped at absorption (a
particle = a lineage, its type = (deme, linked / locus 1 only / locus 2 only)): generator `QLmat`
with the rates `argRateStop` of epoch `e`, started in the labelled configuration `x0` -/
noncomputable def labRaw2 (L : ExpLaw K) (ts : ℕ → Fin D → ℚ)
    (mig : ℕ → Fin D → Fin D → ℚ) (r : ℕ → ℚ) (G : ℕ → Graph) (n' : ℕ)
    (x0 : LabS (enc2 (D := D)) (G 0).visited (bound2 (G 0).visited))
    (eps : List EpochT) (rs : List Reward) (t : ℚ) : K :=
  accumVal L
    (fun e => QLmat (castRate (K := K) (argRateStop (r e) (ts e) (mig e))) argNew
      (LabP.val : LabS (enc2 (D := D)) (G 0).visited (bound2 (G 0).visited)
        → List (Fin D × LCls)))
    (fun (a : Fin rs.length) x => ((Reward.eval n' (enc2 (cntF x.val)) rs[a] : ℚ) : K))
    (fun x => if x = x0 then 1 else 0)
    (castF (specFactors eps t))

noncomputable def labCtx2 (L : ExpLaw K) (ts : ℕ → Fin D → ℚ)
    (mig : ℕ → Fin D → Fin D → ℚ) (r : ℕ → ℚ) (G : ℕ → Graph) (n' : ℕ)
    (x0 : LabS (enc2 (D := D)) (G 0).visited (bound2 (G 0).visited))
    (eps : List EpochT) (dr : Reward) (sd tm : ℚ) : DistCtxK Reward K :=
  ⟨dr, sd, tm, labRaw2 L ts mig r G n' x0 eps⟩

variable {cinit : Fin D × LCls → ℕ} {ts : ℕ → Fin D → ℚ}
  {mig : ℕ → Fin D → Fin D → ℚ} {r : ℕ → ℚ} {fuel : ℕ → ℕ} {G : ℕ → Graph}

/-- [`Assembly.C06_arg_eq_labelled_alpha` at the reward tuple `rs` and the factor list of `t`] -/
theorem codeRaw2_eq_labRaw2
    (hG : ∀ e, bfs (transit .kingman (mkEpoch (ts e) (mig e) (r e))) (enc2 cinit) (fuel e)
      = some (G e))
    (L : ExpLaw K) (n' : ℕ) (nv : Fin D → ℕ)
    (x0 : LabS (enc2 (D := D)) (G 0).visited (bound2 (G 0).visited))
    (hx0 : cntF x0.val = sample2 nv) (eps : List EpochT) :
    codeRaw2 L G n' nv eps = labRaw2 L ts mig r G n' x0 eps := by
  funext rs t
  exact (C06_arg_eq_labelled_alpha hG L n' (fun a : Fin rs.length => rs[a]) nv x0 hx0 _).symm

/-- **All calls, all variants, exceptions included** (two loci) -/
theorem momentCallK_code2_eq_lab2
    (hG : ∀ e, bfs (transit .kingman (mkEpoch (ts e) (mig e) (r e))) (enc2 cinit) (fuel e)
      = some (G e))
    (L : ExpLaw K) (n' : ℕ) (nv : Fin D → ℕ)
    (x0 : LabS (enc2 (D := D)) (G 0).visited (bound2 (G 0).visited))
    (hx0 : cntF x0.val = sample2 nv) (eps : List EpochT) (dr : Reward) (sd tm : ℚ) (v : Variant)
    (c : MomentCall Reward) :
    momentCallK v (codeCtx2 L G n' nv eps dr sd tm) c
      = momentCallK v (labCtx2 L ts mig r G n' x0 eps dr sd tm) c := by
  unfold codeCtx2 labCtx2
  rw [codeRaw2_eq_labRaw2 hG L n' nv x0 hx0 eps]

/-- **The two-locus route.**  A well-formed call `moment(k, rewards, start_time, end_time, center,
permute)` of the current code on the code model of the two-locus state space (Kingman, fully
linked sample `nv`, recombination rate `r e`) returns without exception `acc(end) - acc(start)`
(resolved start time `> 0`) resp. `acc(end)`, where `acc(t)` is the centring / permutation
combination of the moments of the LABELLED stopped ancestral recombination graph accumulated up
to `t`. -/
theorem two_locus_moment_call_eq_labelled
    (hG : ∀ e, bfs (transit .kingman (mkEpoch (ts e) (mig e) (r e))) (enc2 cinit) (fuel e)
      = some (G e))
    (L : ExpLaw K) (n' : ℕ) (nv : Fin D → ℕ)
    (x0 : LabS (enc2 (D := D)) (G 0).visited (bound2 (G 0).visited))
    (hx0 : cntF x0.val = sample2 nv) (eps : List EpochT) (dr : Reward) (sd tm : ℚ)
    (c : MomentCall Reward)
    (hk : 1 ≤ c.k) (hlen : ∀ rs, c.rewards = some rs → (rs.length : Int) = c.k)
    (he : 0 ≤ resolveTime .current c.endTime tm) :
    momentCallK .current (codeCtx2 L G n' nv eps dr sd tm) c
      = .ok (if 0 < resolveTime .current c.startTime sd then
          accumulateModel (fun l => labRaw2 L ts mig r G n' x0 eps l
              (resolveTime .current c.endTime tm)) c.center c.permute
              (resolveRewardsK dr c.k c.rewards)
            - accumulateModel (fun l => labRaw2 L ts mig r G n' x0 eps l
              (resolveTime .current c.startTime sd)) c.center c.permute
              (resolveRewardsK dr c.k c.rewards)
        else
          accumulateModel (fun l => labRaw2 L ts mig r G n' x0 eps l
              (resolveTime .current c.endTime tm)) c.center c.permute
              (resolveRewardsK dr c.k c.rewards)) := by
  rw [momentCallK_code2_eq_lab2 hG L n' nv x0 hx0 eps dr sd tm .current c,
    momentCallK_wellformed (labCtx2 L ts mig r G n' x0 eps dr sd tm) c hk hlen he]
  have key : ∀ t, accOf (labCtx2 L ts mig r G n' x0 eps dr sd tm) c.k c.rewards c.center c.permute t
      = accumulateModel (fun l => labRaw2 L ts mig r G n' x0 eps l t) c.center c.permute
          (resolveRewardsK dr c.k c.rewards) := by
    intro t
    unfold accOf
    exact accumulateModel_inhabited_irrel _ _ _ _ _ _
  show Except.ok (if 0 < resolveTime .current c.startTime sd then
      accOf (labCtx2 L ts mig r G n' x0 eps dr sd tm) c.k c.rewards c.center c.permute
        (resolveTime .current c.endTime tm)
      - accOf (labCtx2 L ts mig r G n' x0 eps dr sd tm) c.k c.rewards c.center c.permute
        (resolveTime .current c.startTime sd)
    else accOf (labCtx2 L ts mig r G n' x0 eps dr sd tm) c.k c.rewards c.center c.permute
        (resolveTime .current c.endTime tm)) = _
  rw [key, key]

/-- `accumulate` on ANY list of end times (two loci) -/
theorem two_locus_accumulate_call_vector_eq_labelled
    (hG : ∀ e, bfs (transit .kingman (mkEpoch (ts e) (mig e) (r e))) (enc2 cinit) (fuel e)
      = some (G e))
    (L : ExpLaw K) (n' : ℕ) (nv : Fin D → ℕ)
    (x0 : LabS (enc2 (D := D)) (G 0).visited (bound2 (G 0).visited))
    (hx0 : cntF x0.val = sample2 nv) (eps : List EpochT) (dr : Reward) (sd tm : ℚ)
    (k : Int) (rewards : Option (List Reward)) (times : List ℚ) (center permute : Bool)
    (hk : 1 ≤ k) (hlen : ∀ rs, rewards = some rs → (rs.length : Int) = k)
    (hnn : ∀ t ∈ times, 0 ≤ t) :
    accumulateCallK .current (codeCtx2 L G n' nv eps dr sd tm) k rewards times center permute
      = .ok (times.map fun t =>
          accumulateModel (fun l => labRaw2 L ts mig r G n' x0 eps l t) center permute
            (resolveRewardsK dr k rewards)) := by
  rw [accumulateCallK_wellformed _ k rewards times center permute hk hlen hnn]
  congr 1
  refine List.map_congr_left fun t _ => ?_
  unfold accOf codeCtx2
  rw [codeRaw2_eq_labRaw2 hG L n' nv x0 hx0 eps]
  exact accumulateModel_inhabited_irrel _ _ _ _ _ _

/-- never vacuous: when the search starts from the fully linked sample `nv` (as `_get_initial`
does), a labelled start configuration with these counts exists -/
theorem two_locus_exists_labInit (nv : Fin D → ℕ)
    (hG : ∀ e, bfs (transit .kingman (mkEpoch (ts e) (mig e) (r e))) (enc2 (sample2 nv)) (fuel e)
      = some (G e)) :
    ∃ x0 : LabS (enc2 (D := D)) (G 0).visited (bound2 (G 0).visited),
      cntF x0.val = sample2 nv := by
  obtain ⟨x, hx⟩ := exists_list_cntF (sample2 nv)
  have hmem : enc2 (cntF x) ∈ (G 0).visited := by
    rw [hx]; exact (bfs_spec _ _ _ _ (hG 0)).2.1
  refine ⟨⟨x, ?_, hmem⟩, hx⟩
  rw [length_eq_sum_cntF]
  exact sum_le_bound2 _ _ hmem

/-! ### a closed instance -/

/-- two loci, one deme, 2 linked lineages, Kingman, size 1, recombination rate 1/2 -/
def exStep2 : State → Targets :=
  transit .kingman (mkEpoch (D := 1) (fun _ => 1) (fun _ _ => 0) (1/2))

def exG2 : Graph := (bfs exStep2 (enc2 (D := 1) (sample2 fun _ => 2)) 30).getD default

theorem exG2_spec : bfs exStep2 (enc2 (D := 1) (sample2 fun _ => 2)) 30 = some exG2 := by
  have h : (bfs exStep2 (enc2 (D := 1) (sample2 fun _ => 2)) 30).isSome = true := by
    decide +kernel
  unfold exG2
  cases hb : bfs exStep2 (enc2 (D := 1) (sample2 fun _ => 2)) 30 with
  | none => rw [hb] at h; cases h
  | some g => rfl

/-- **Non-vacuity of the two-locus route** (n = 2, one deme, recombination rate 1/2, one epoch,
the REAL matrix exponential): the covariance of the two marginal tree heights,
`moment(2, rewards=(LocusReward(0), LocusReward(1)), center=True, permute=True)`. -/
theorem two_locus_instance (sd tm : ℚ) (htm : 0 ≤ tm) :
    ∃ x0 : LabS (enc2 (D := 1)) ((fun _ : ℕ => exG2) 0).visited
        (bound2 ((fun _ : ℕ => exG2) 0).visited),
      cntF x0.val = sample2 (fun _ => 2) ∧
      momentCallK .current
          (codeCtx2 realExpLaw (fun _ => exG2) 2 (fun _ : Fin 1 => 2)
            [{ start := 0, stop := none }] .treeHeight sd tm)
          ⟨2, some [.locus 0, .locus 1], some 0, none, true, true⟩
        = .ok (accumulateModel
            (fun l => labRaw2 realExpLaw (fun _ _ => 1) (fun _ _ _ => 0) (fun _ => 1/2)
              (fun _ => exG2) 2 x0 [{ start := 0, stop := none }] l tm)
            true true [.locus 0, .locus 1]) := by
  have hG : ∀ e : ℕ, bfs (transit .kingman (mkEpoch (D := 1) ((fun _ _ => 1) e)
      ((fun _ _ _ => 0) e) ((fun _ => 1/2) e))) (enc2 (D := 1) (sample2 fun _ => 2))
      ((fun _ => 30) e) = some ((fun _ => exG2) e) := fun _ => exG2_spec
  obtain ⟨x0, hx0⟩ := two_locus_exists_labInit (fun _ : Fin 1 => 2) hG
  refine ⟨x0, hx0, ?_⟩
  rw [two_locus_moment_call_eq_labelled hG realExpLaw 2 (fun _ : Fin 1 => 2) x0 hx0
    [{ start := 0, stop := none }] .treeHeight sd tm
    ⟨2, some [.locus 0, .locus 1], some 0, none, true, true⟩ (by decide)
    (by intro rs h; cases h; rfl) (by simpa [resolveTime] using htm)]
  simp [resolveTime, resolveRewardsK]

end TwoLocus

/-! ## K. the demography model applied to the translated input -/

section Demog
open Config

/-! ### K.1 the translation `Config.Input ↦ List Event`

The computable definitions (`insertTime`, `sortDedupQ`, `nameIdx`, `changeTimesOf`, `sizeEntries`,
`migEntries`, `mainEvent`, `sampleOnly`, `extraEvent`, `toEvents`, `tableOfEpoch`, `demoEpochs`) live in
`PGModel/ConfigDemo.lean` (same names `PG.EndToEnd.*`), where they are linked into `pgdriver`
(command `cfgepochs`) and compared with the real `coal.demography.epochs`. -/

theorem mem_insertTime (x y : ℚ) (l : List ℚ) : y ∈ insertTime x l ↔ y = x ∨ y ∈ l := by
  induction l with
  | nil => simp [insertTime]
  | cons a l ih =>
    unfold insertTime
    split_ifs with h1 h2
    · simp
    · subst h2; simp
    · rw [List.mem_cons, ih, List.mem_cons]; tauto

theorem mem_sortDedupQ (y : ℚ) (l : List ℚ) : y ∈ sortDedupQ l ↔ y ∈ l := by
  induction l with
  | nil => simp [sortDedupQ]
  | cons a l ih =>
    have : sortDedupQ (a :: l) = insertTime a (sortDedupQ l) := rfl
    rw [this, mem_insertTime, ih, List.mem_cons]

theorem insertTime_sorted (x : ℚ) (l : List ℚ) (h : l.Pairwise (· < ·)) :
    (insertTime x l).Pairwise (· < ·) := by
  induction l with
  | nil => simp [insertTime]
  | cons a l ih =>
    rw [List.pairwise_cons] at h
    unfold insertTime
    split_ifs with h1 h2
    · refine List.pairwise_cons.2 ⟨?_, List.pairwise_cons.2 h⟩
      intro b hb
      rcases List.mem_cons.1 hb with rfl | hb
      · exact h1
      · exact lt_trans h1 (h.1 b hb)
    · exact List.pairwise_cons.2 h
    · refine List.pairwise_cons.2 ⟨?_, ih h.2⟩
      intro b hb
      rcases (mem_insertTime x b l).1 hb with rfl | hb
      · exact lt_of_le_of_ne (not_lt.1 h1) (Ne.symm h2)
      · exact h.1 b hb

theorem sortDedupQ_sorted (l : List ℚ) : (sortDedupQ l).Pairwise (· < ·) := by
  induction l with
  | nil => simp [sortDedupQ]
  | cons a l ih => exact insertTime_sorted a _ ih

/-- what a Python `dict` guarantees (distinct keys, on both levels), what
`DiscreteRateChanges.__init__` checks (`ValueError` for a negative time), and -- needed because
`PGModel/Demography.lean` derives the population names of an event from its entries
(`Event.pops`) whereas Python reads `pop_sizes.keys()` -- no EMPTY change dict -/
structure DictInput (I : Input) : Prop where
  sizeKeys : (I.sizes.map (·.1)).Nodup
  migKeys : (I.mig.map (·.1)).Nodup
  sizeTimes : ∀ e ∈ I.sizes, (e.2.map (·.1)).Nodup
  migTimes : ∀ e ∈ I.mig, (e.2.map (·.1)).Nodup
  sizeNonempty : ∀ e ∈ I.sizes, e.2 ≠ []
  migNonempty : ∀ e ∈ I.mig, e.2 ≠ []
  sizeNonneg : ∀ e ∈ I.sizes, ∀ b ∈ e.2, 0 ≤ b.1
  migNonneg : ∀ e ∈ I.mig, ∀ b ∈ e.2, 0 ≤ b.1

/-- the timed changes the translated events perform -/
inductive IsChange (I : Input) : Change → Prop
  | size (p : Name) (ch : Changes) (t v : ℚ) : (p, ch) ∈ I.sizes → (t, v) ∈ ch →
      IsChange I (t, .size (nameIdx I p), v)
  | mig (p q : Name) (ch : Changes) (t v : ℚ) : ((p, q), ch) ∈ I.mig → (t, v) ∈ ch →
      IsChange I (t, .mig (nameIdx I p) (nameIdx I q), v)
  | extra (p : Name) : p ∈ I.linNames → p ∉ rawDemNames I.sizes I.mig →
      IsChange I (0, .size (nameIdx I p), 1)

theorem lookup_bind_iff {κ : Type} [BEq κ] [LawfulBEq κ] (d : List (κ × Changes))
    (hk : (d.map (·.1)).Nodup) (ht : ∀ e ∈ d, (e.2.map (·.1)).Nodup) (k : κ) (t v : ℚ) :
    ((d.lookup k).bind fun ch => ch.lookup t) = some v ↔ ∃ ch, (k, ch) ∈ d ∧ (t, v) ∈ ch := by
  constructor
  · intro h
    cases hl : d.lookup k with
    | none => rw [hl] at h; cases h
    | some ch =>
      rw [hl] at h
      exact ⟨ch, mem_of_lookup_eq_some hl, mem_of_lookup_eq_some h⟩
  · rintro ⟨ch, h1, h2⟩
    rw [lookup_eq_some_of_mem hk h1]
    exact lookup_eq_some_of_mem (ht _ h1) h2

theorem mem_changeTimesOf_size {I : Input} {p : Name} {ch : Changes} {t v : ℚ}
    (h1 : (p, ch) ∈ I.sizes) (h2 : (t, v) ∈ ch) : t ∈ changeTimesOf I := by
  unfold changeTimesOf
  rw [mem_sortDedupQ, List.mem_append]
  left
  rw [List.mem_flatMap]
  exact ⟨(p, ch), h1, List.mem_map.2 ⟨(t, v), h2, rfl⟩⟩

theorem mem_changeTimesOf_mig {I : Input} {pq : Name × Name} {ch : Changes} {t v : ℚ}
    (h1 : (pq, ch) ∈ I.mig) (h2 : (t, v) ∈ ch) : t ∈ changeTimesOf I := by
  unfold changeTimesOf
  rw [mem_sortDedupQ, List.mem_append]
  right
  rw [List.mem_flatMap]
  exact ⟨(pq, ch), h1, List.mem_map.2 ⟨(t, v), h2, rfl⟩⟩

theorem mem_rawDemNames_size {I : Input} {p : Name} {ch : Changes} (h : (p, ch) ∈ I.sizes) :
    p ∈ rawDemNames I.sizes I.mig := by
  unfold rawDemNames
  exact List.mem_append_left _ (List.mem_map.2 ⟨(p, ch), h, rfl⟩)

theorem mem_rawDemNames_mig {I : Input} {p q : Name} {ch : Changes} (h : ((p, q), ch) ∈ I.mig) :
    p ∈ rawDemNames I.sizes I.mig ∧ q ∈ rawDemNames I.sizes I.mig := by
  unfold rawDemNames
  constructor <;>
  · refine List.mem_append_right _ (List.mem_flatMap.2 ⟨((p, q), ch), h, ?_⟩)
    simp

theorem mem_sampleOnly (I : Input) (p : Name) :
    p ∈ sampleOnly I ↔ p ∈ I.linNames ∧ p ∉ rawDemNames I.sizes I.mig := by
  unfold sampleOnly
  rw [mem_sortDedup, List.mem_filter]
  simp [mem_demographyNames]

/-- **The changes of the translated events**: exactly the entries of the user's dicts, keyed by
`nameIdx`, plus "size 1 from time 0" for the populations only the sample configuration mentions. -/
theorem mem_allChanges_toEvents (I : Input) (hD : DictInput I) (c : Change) :
    c ∈ allChanges (toEvents I) ↔ IsChange I c := by
  unfold toEvents allChanges
  rw [List.flatMap_append, List.mem_append]
  constructor
  · rintro (h | h)
    · unfold mainEvent at h
      split_ifs at h with hc
      · simp at h
      · simp only [List.flatMap_cons, List.flatMap_nil, List.append_nil, Event.changes,
          List.mem_flatMap, List.mem_map] at h
        obtain ⟨tc, ⟨t, ht, rfl⟩, kv, hkv, rfl⟩ := h
        rcases List.mem_append.1 hkv with hkv | hkv
        · unfold sizeEntries at hkv
          rw [List.mem_filterMap] at hkv
          obtain ⟨p, hp, hpv⟩ := hkv
          rw [Option.map_eq_some_iff] at hpv
          obtain ⟨v, hv, rfl⟩ := hpv
          obtain ⟨ch, h1, h2⟩ := (lookup_bind_iff _ hD.sizeKeys hD.sizeTimes p t v).1 hv
          exact IsChange.size p ch t v h1 h2
        · unfold migEntries at hkv
          rw [List.mem_flatMap] at hkv
          obtain ⟨p, hp, hkv⟩ := hkv
          rw [List.mem_filterMap] at hkv
          obtain ⟨q, hq, hpv⟩ := hkv
          rw [Option.map_eq_some_iff] at hpv
          obtain ⟨v, hv, rfl⟩ := hpv
          obtain ⟨ch, h1, h2⟩ := (lookup_bind_iff _ hD.migKeys hD.migTimes (p, q) t v).1 hv
          exact IsChange.mig p q ch t v h1 h2
    · unfold extraEvent at h
      split_ifs at h with hc
      · simp at h
      · simp only [List.flatMap_cons, List.flatMap_nil, List.append_nil, Event.changes,
          List.mem_map] at h
        obtain ⟨kv, ⟨p, hp, rfl⟩, rfl⟩ := h
        obtain ⟨h1, h2⟩ := (mem_sampleOnly I p).1 hp
        exact IsChange.extra p h1 h2
  · intro h
    cases h with
    | size p ch t v h1 h2 =>
      left
      unfold mainEvent
      rw [if_neg (fun hc => by rw [hc.1] at h1; cases h1)]
      simp only [List.flatMap_cons, List.flatMap_nil, List.append_nil, Event.changes,
        List.mem_flatMap, List.mem_map]
      refine ⟨(t, sizeEntries I t ++ migEntries I t), ⟨t, mem_changeTimesOf_size h1 h2, rfl⟩,
        (Key.size (nameIdx I p), v), List.mem_append_left _ ?_, rfl⟩
      unfold sizeEntries
      rw [List.mem_filterMap]
      refine ⟨p, (mem_demographyNames _ _ _).2 (mem_rawDemNames_size h1), ?_⟩
      rw [(lookup_bind_iff _ hD.sizeKeys hD.sizeTimes p t v).2 ⟨ch, h1, h2⟩]
      rfl
    | mig p q ch t v h1 h2 =>
      left
      unfold mainEvent
      rw [if_neg (fun hc => by rw [hc.2] at h1; cases h1)]
      simp only [List.flatMap_cons, List.flatMap_nil, List.append_nil, Event.changes,
        List.mem_flatMap, List.mem_map]
      refine ⟨(t, sizeEntries I t ++ migEntries I t), ⟨t, mem_changeTimesOf_mig h1 h2, rfl⟩,
        (Key.mig (nameIdx I p) (nameIdx I q), v), List.mem_append_right _ ?_, rfl⟩
      unfold migEntries
      rw [List.mem_flatMap]
      refine ⟨p, (mem_demographyNames _ _ _).2 (mem_rawDemNames_mig h1).1, ?_⟩
      rw [List.mem_filterMap]
      refine ⟨q, (mem_demographyNames _ _ _).2 (mem_rawDemNames_mig h1).2, ?_⟩
      rw [(lookup_bind_iff _ hD.migKeys hD.migTimes (p, q) t v).2 ⟨ch, h1, h2⟩]
      rfl
    | extra p h1 h2 =>
      right
      have hp : p ∈ sampleOnly I := (mem_sampleOnly I p).2 ⟨h1, h2⟩
      unfold extraEvent
      rw [if_neg (fun hc => by rw [hc] at hp; cases hp)]
      simp only [List.flatMap_cons, List.flatMap_nil, List.append_nil, Event.changes,
        List.mem_map]
      exact ⟨(Key.size (nameIdx I p), 1), ⟨p, hp, rfl⟩, rfl⟩


/-! ### K.2 `Config.valueAt` and `specValue` are the same function -/

/-- `specValue` from a maximal change: if `c` is a change to `k` at a time `≤ t`, no change to `k`
at a time `≤ t` is later, and all changes to `k` at the time of `c` set the same value -/
theorem specValue_eq_of_max (cs : List Change) (names : List ℕ) (k : Key) (t : ℚ) (c : Change)
    (hc : c ∈ cs) (hk : c.2.1 = k) (ht : c.1 ≤ t)
    (hmax : ∀ c' ∈ cs, c'.2.1 = k → c'.1 ≤ t → c'.1 ≤ c.1)
    (huniq : ∀ c' ∈ cs, c'.2.1 = k → c'.1 = c.1 → c'.2.2 = c.2.2) :
    specValue cs names k t = some c.2.2 := by
  unfold specValue
  cases hr : lastChange? k t cs with
  | none => exact absurd ht (lastChange?_none k t cs hr c hc hk)
  | some ib =>
    obtain ⟨i, b⟩ := ib
    obtain ⟨g1, g2, g3, g4⟩ := lastChange?_some k t cs i b hr
    have hb : b ∈ cs := List.mem_of_getElem? g1
    obtain ⟨j, hj⟩ := List.getElem?_of_mem hc
    have h1 : c.1 ≤ b.1 := by
      rcases g4 j c hj hk ht with h | h
      · exact h.le
      · exact h.1.le
    have h2 : b.1 ≤ c.1 := hmax b hb g2 g3
    simp only []
    rw [huniq b hb g2 (le_antisymm h2 h1)]

theorem specValue_eq_default (cs : List Change) (names : List ℕ) (k : Key) (t : ℚ)
    (h : ∀ c ∈ cs, c.2.1 = k → ¬ c.1 ≤ t) : specValue cs names k t = defaultValue names k := by
  unfold specValue
  cases hr : lastChange? k t cs with
  | none => rfl
  | some ib =>
    obtain ⟨i, b⟩ := ib
    obtain ⟨g1, g2, g3, _⟩ := lastChange?_some k t cs i b hr
    exact absurd g3 (h b (List.mem_of_getElem? g1) g2)

/-- what the scan `Config.lastLE` returns -/
theorem lastLE_spec (t : ℚ) : ∀ (ch : Changes) (best : Option (ℚ × ℚ)),
    (∀ b, lastLE t ch best = some b →
      ((b ∈ ch ∧ b.1 ≤ t) ∨ best = some b) ∧ (∀ b' ∈ ch, b'.1 ≤ t → b'.1 ≤ b.1) ∧
      (∀ b0, best = some b0 → b0.1 ≤ b.1)) ∧
    (lastLE t ch best = none → best = none ∧ ∀ b ∈ ch, ¬ b.1 ≤ t)
  | [], best => by
    refine ⟨fun b hb => ⟨Or.inr hb, fun b' hb' => (by cases hb'), fun b0 h0 => ?_⟩,
      fun h => ⟨h, fun b hb => by cases hb⟩⟩
    simp only [lastLE] at hb
    rw [hb] at h0
    cases h0
    exact le_rfl
  | c :: cs, best => by
    have ih := lastLE_spec t cs
    unfold lastLE
    by_cases hct : c.1 ≤ t
    · rw [if_pos hct]
      cases best with
      | none =>
        simp only []
        obtain ⟨i1, i2⟩ := ih (some c)
        refine ⟨fun b hb => ?_, fun h => ?_⟩
        · obtain ⟨j1, j2, j3⟩ := i1 b hb
          refine ⟨?_, ?_, fun b0 h0 => by cases h0⟩
          · rcases j1 with ⟨h, h'⟩ | h
            · exact Or.inl ⟨List.mem_cons_of_mem _ h, h'⟩
            · cases h; exact Or.inl ⟨List.mem_cons_self, hct⟩
          · intro b' hb' hb't
            rcases List.mem_cons.1 hb' with rfl | hb'
            · exact j3 _ rfl
            · exact j2 b' hb' hb't
        · exact absurd (i2 h).1 (by simp)
      | some b0 =>
        simp only []
        by_cases hle : b0.1 ≤ c.1
        · rw [if_pos hle]
          obtain ⟨i1, i2⟩ := ih (some c)
          refine ⟨fun b hb => ?_, fun h => ?_⟩
          · obtain ⟨j1, j2, j3⟩ := i1 b hb
            refine ⟨?_, ?_, fun b1 h1 => ?_⟩
            · rcases j1 with ⟨h, h'⟩ | h
              · exact Or.inl ⟨List.mem_cons_of_mem _ h, h'⟩
              · cases h; exact Or.inl ⟨List.mem_cons_self, hct⟩
            · intro b' hb' hb't
              rcases List.mem_cons.1 hb' with rfl | hb'
              · exact j3 _ rfl
              · exact j2 b' hb' hb't
            · cases h1
              exact le_trans hle (j3 _ rfl)
          · exact absurd (i2 h).1 (by simp)
        · rw [if_neg hle]
          obtain ⟨i1, i2⟩ := ih (some b0)
          refine ⟨fun b hb => ?_, fun h => ?_⟩
          · obtain ⟨j1, j2, j3⟩ := i1 b hb
            refine ⟨?_, ?_, fun b1 h1 => ?_⟩
            · rcases j1 with ⟨h, h'⟩ | h
              · exact Or.inl ⟨List.mem_cons_of_mem _ h, h'⟩
              · exact Or.inr h
            · intro b' hb' hb't
              rcases List.mem_cons.1 hb' with rfl | hb'
              · exact le_trans (le_of_lt (not_le.1 hle)) (j3 _ rfl)
              · exact j2 b' hb' hb't
            · cases h1
              exact j3 _ rfl
          · exact absurd (i2 h).1 (by simp)
    · rw [if_neg hct]
      obtain ⟨i1, i2⟩ := ih best
      refine ⟨fun b hb => ?_, fun h => ?_⟩
      · obtain ⟨j1, j2, j3⟩ := i1 b hb
        refine ⟨?_, ?_, j3⟩
        · rcases j1 with ⟨h, h'⟩ | h
          · exact Or.inl ⟨List.mem_cons_of_mem _ h, h'⟩
          · exact Or.inr h
        · intro b' hb' hb't
          rcases List.mem_cons.1 hb' with rfl | hb'
          · exact absurd hb't hct
          · exact j2 b' hb' hb't
      · obtain ⟨j1, j2⟩ := i2 h
        refine ⟨j1, fun b hb => ?_⟩
        rcases List.mem_cons.1 hb with rfl | hb
        · exact hct
        · exact j2 b hb

theorem valueAt_eq_of_max (ch : Changes) (t dflt : ℚ) (b : ℚ × ℚ) (hb : b ∈ ch) (hbt : b.1 ≤ t)
    (hmax : ∀ b' ∈ ch, b'.1 ≤ t → b'.1 ≤ b.1)
    (huniq : ∀ b' ∈ ch, b'.1 = b.1 → b'.2 = b.2) : valueAt ch t dflt = b.2 := by
  unfold valueAt
  obtain ⟨i1, i2⟩ := lastLE_spec t ch none
  cases hr : lastLE t ch none with
  | none => exact absurd hbt ((i2 hr).2 b hb)
  | some b' =>
    obtain ⟨j1, j2, _⟩ := i1 b' hr
    rcases j1 with ⟨h, h'⟩ | h
    · simp only [Option.map_some, Option.getD_some]
      exact huniq b' h (le_antisymm (hmax b' h h') (j2 b hb hbt))
    · cases h

theorem valueAt_eq_default (ch : Changes) (t dflt : ℚ) (h : ∀ b ∈ ch, ¬ b.1 ≤ t) :
    valueAt ch t dflt = dflt := by
  unfold valueAt
  obtain ⟨i1, _⟩ := lastLE_spec t ch none
  cases hr : lastLE t ch none with
  | none => rfl
  | some b' =>
    obtain ⟨j1, _, _⟩ := i1 b' hr
    rcases j1 with ⟨h1, h2⟩ | h1
    · exact absurd h2 (h b' h1)
    · cases h1

/-- **The two "value in force" functions agree.**  `cs` a list of timed changes (in any order),
`ch` a change dict `{time: value}` (in any listing order) such that the changes of `cs` to the key
`k` are exactly the entries of `ch`, and -- THE TIE-BREAKING HYPOTHESIS -- no two entries of `ch` set
different values at the same time.  (`specValue` resolves equal times by the position in `cs`,
`Config.valueAt` by the position in `ch`; without the hypothesis the two can differ.) -/
theorem specValue_eq_valueAt (cs : List Change) (names : List ℕ) (k : Key) (ch : Changes)
    (dflt : ℚ) (t : ℚ)
    (h1 : ∀ c ∈ cs, c.2.1 = k → (c.1, c.2.2) ∈ ch)
    (h2 : ∀ b ∈ ch, (b.1, k, b.2) ∈ cs)
    (h3 : ∀ b ∈ ch, ∀ b' ∈ ch, b.1 = b'.1 → b.2 = b'.2)
    (h4 : defaultValue names k = some dflt) :
    specValue cs names k t = some (valueAt ch t dflt) := by
  by_cases hex : ∃ b ∈ ch, b.1 ≤ t
  · obtain ⟨b0, hb0, hb0t⟩ := hex
    obtain ⟨i1, i2⟩ := lastLE_spec t ch none
    cases hr : lastLE t ch none with
    | none => exact absurd hb0t ((i2 hr).2 b0 hb0)
    | some b =>
      obtain ⟨j1, j2, _⟩ := i1 b hr
      rcases j1 with ⟨hb, hbt⟩ | h
      · rw [valueAt_eq_of_max ch t dflt b hb hbt j2 (fun b' hb' he => h3 b' hb' b hb he)]
        exact specValue_eq_of_max cs names k t (b.1, k, b.2) (h2 b hb) rfl hbt
          (fun c' hc' hk' ht' => j2 _ (h1 c' hc' hk') ht')
          (fun c' hc' hk' he => h3 _ (h1 c' hc' hk') b hb he)
      · cases h
  · have hno : ∀ b ∈ ch, ¬ b.1 ≤ t := fun b hb hbt => hex ⟨b, hb, hbt⟩
    rw [valueAt_eq_default ch t dflt hno, specValue_eq_default cs names k t
      (fun c hc hk hct => hno _ (h1 c hc hk) hct), h4]


/-! ### K.3 `config_value_is_specValue` -/

theorem nameIdx_inj {I : Input} {p q : Name} (hp : p ∈ allNames I)
    (h : nameIdx I p = nameIdx I q) : p = q :=
  (List.idxOf_inj hp).1 h

theorem mem_allChanges_sorted (I : Input) (hD : DictInput I) (c : Change) :
    c ∈ allChanges (sortEvents (toEvents I)) ↔ IsChange I c :=
  ((allChanges_perm (sortEvents_perm (toEvents I))).mem_iff).trans (mem_allChanges_toEvents I hD c)

/-- the populations a key mentions -/
def keyPops : Key → List ℕ
  | .size p => [p]
  | .mig a b => [a, b]

theorem mem_pops_of_change {evs : List Event} {c : Change} (hc : c ∈ allChanges evs) {x : ℕ}
    (hx : x ∈ keyPops c.2.1) : x ∈ evs.flatMap Event.pops := by
  unfold allChanges at hc
  rw [List.mem_flatMap] at hc ⊢
  obtain ⟨ev, hev, hcev⟩ := hc
  refine ⟨ev, hev, ?_⟩
  cases ev with
  | discrete ch =>
    simp only [Event.changes, List.mem_flatMap, List.mem_map] at hcev
    obtain ⟨tc, htc, kv, hkv, rfl⟩ := hcev
    simp only [Event.pops, List.mem_flatMap]
    refine ⟨tc, htc, kv, hkv, ?_⟩
    cases hk : kv.1 with
    | size p => simpa [keyPops, hk] using hx
    | mig a b => simpa [keyPops, hk] using hx
  | split t d a mlt => simp [Event.changes] at hcev
  | discretised parts => simp [Event.changes] at hcev

/-- every name of the input is a population of the translated demography -/
theorem nameIdx_mem_popNames (I : Input) (hD : DictInput I) {p : Name} (hp : p ∈ allNames I) :
    nameIdx I p ∈ popNames (sortEvents (toEvents I)) := by
  rw [mem_popNames_perm (sortEvents_perm (toEvents I))]
  unfold popNames
  rw [mem_dedupSorted]
  suffices h : ∃ c, IsChange I c ∧ nameIdx I p ∈ keyPops c.2.1 by
    obtain ⟨c, hc, hx⟩ := h
    exact mem_pops_of_change ((mem_allChanges_toEvents I hD c).2 hc) hx
  by_cases hraw : p ∈ rawDemNames I.sizes I.mig
  · unfold rawDemNames at hraw
    rcases List.mem_append.1 hraw with h | h
    · obtain ⟨⟨p', ch⟩, hmem, rfl⟩ := List.mem_map.1 h
      obtain ⟨b, hb⟩ := List.exists_mem_of_ne_nil ch (hD.sizeNonempty _ hmem)
      exact ⟨_, IsChange.size p' ch b.1 b.2 hmem hb, by simp [keyPops]⟩
    · obtain ⟨⟨⟨a, b⟩, ch⟩, hmem, hp'⟩ := List.mem_flatMap.1 h
      obtain ⟨x, hx⟩ := List.exists_mem_of_ne_nil ch (hD.migNonempty _ hmem)
      refine ⟨_, IsChange.mig a b ch x.1 x.2 hmem hx, ?_⟩
      simp only [List.mem_cons, List.not_mem_nil, or_false] at hp'
      rcases hp' with rfl | rfl <;> simp [keyPops]
  · have hl : p ∈ I.linNames := by
      rcases (mem_allNames I p).1 hp with h | h
      · exact absurd h hraw
      · exact h
    exact ⟨_, IsChange.extra p hl hraw, by simp [keyPops]⟩

/-- the change dict in force for the size of the population NAMED `p`: the user's, or
`{0: 1}` added by `AbstractCoalescent.__init__` for a population only the sample mentions -/
def effSizeChanges (I : Input) (p : Name) : Changes :=
  match I.sizes.lookup p with
  | some ch => ch
  | none => if p ∈ sampleOnly I then [(0, 1)] else []

theorem valueAt_effSizeChanges (I : Input) (p : Name) (t : ℚ) :
    valueAt (effSizeChanges I p) t 1 = sizeAt I.sizes p t := by
  unfold effSizeChanges sizeAt
  cases I.sizes.lookup p with
  | some ch => rfl
  | none =>
    simp only [Option.getD_none]
    split_ifs
    · by_cases ht : (0 : ℚ) ≤ t <;> simp [valueAt, lastLE, ht]
    · rfl

/-- **`config_value_is_specValue`.**  For every input with dict-like containers, every time `t`
and every population name `p` (resp. pair of names) known to the coalescent -- in particular every
name on the deme axis -- the value the input glue reads BY NAME (`Config.sizeAt` / `Config.rateAt`:
last change at a time `≤ t` in the user's dict, default 1 / 0) is the value `specValue` which the
demography model (`DemographyThm.value_in_force'`) assigns to the key `nameIdx p` (resp.
`(nameIdx p, nameIdx q)`) of the translated events.  Ties: `specValue` breaks equal times by the
stable event order, `Config` by the listing order; under `DictInput` (no two changes of the same
key at the same time: distinct dict keys) no tie occurs. -/
theorem config_value_is_specValue (I : Input) (hD : DictInput I) (t : ℚ) :
    (∀ p ∈ allNames I,
      specValue (allChanges (sortEvents (toEvents I))) (popNames (sortEvents (toEvents I)))
        (.size (nameIdx I p)) t = some (sizeAt I.sizes p t)) ∧
    (∀ p ∈ allNames I, ∀ q ∈ allNames I,
      specValue (allChanges (sortEvents (toEvents I))) (popNames (sortEvents (toEvents I)))
        (.mig (nameIdx I p) (nameIdx I q)) t = some (rateAt I.mig (p, q) t)) := by
  have hallS : ∀ {p' : Name} {ch : Changes}, (p', ch) ∈ I.sizes → p' ∈ allNames I :=
    fun h => (mem_allNames I _).2 (Or.inl (mem_rawDemNames_size h))
  have hallM : ∀ {p' q' : Name} {ch : Changes}, ((p', q'), ch) ∈ I.mig →
      p' ∈ allNames I ∧ q' ∈ allNames I :=
    fun h => ⟨(mem_allNames I _).2 (Or.inl (mem_rawDemNames_mig h).1),
      (mem_allNames I _).2 (Or.inl (mem_rawDemNames_mig h).2)⟩
  constructor
  · intro p hp
    rw [← valueAt_effSizeChanges]
    refine specValue_eq_valueAt _ _ _ (effSizeChanges I p) 1 t ?_ ?_ ?_ ?_
    · intro c hc hk
      have hI := (mem_allChanges_sorted I hD c).1 hc
      cases hI with
      | size p' ch t' v h1 h2 =>
        simp only [Key.size.injEq] at hk
        have : p' = p := nameIdx_inj (hallS h1) hk
        subst this
        unfold effSizeChanges
        rw [lookup_eq_some_of_mem hD.sizeKeys h1]
        exact h2
      | mig p' q' ch t' v h1 h2 => cases hk
      | extra p' h1 h2 =>
        simp only [Key.size.injEq] at hk
        have : p' = p := nameIdx_inj ((mem_allNames I _).2 (Or.inr h1)) hk
        subst this
        unfold effSizeChanges
        rw [lookup_eq_none_of_not_mem (fun hm => h2 (List.mem_append_left _ hm)),
          if_pos ((mem_sampleOnly I p').2 ⟨h1, h2⟩)]
        exact List.mem_singleton.2 rfl
    · intro b hb
      rw [mem_allChanges_sorted I hD]
      unfold effSizeChanges at hb
      cases hl : I.sizes.lookup p with
      | some ch =>
        rw [hl] at hb
        exact IsChange.size p ch b.1 b.2 (mem_of_lookup_eq_some hl) hb
      | none =>
        rw [hl] at hb
        simp only [] at hb
        split_ifs at hb with hs
        · rw [List.mem_singleton] at hb
          subst hb
          obtain ⟨h1, h2⟩ := (mem_sampleOnly I p).1 hs
          exact IsChange.extra p h1 h2
        · cases hb
    · intro b hb b' hb' he
      unfold effSizeChanges at hb hb'
      cases hl : I.sizes.lookup p with
      | some ch =>
        rw [hl] at hb hb'
        have hnd := hD.sizeTimes _ (mem_of_lookup_eq_some hl)
        have e1 := lookup_eq_some_of_mem hnd (k := b.1) (v := b.2) hb
        have e2 := lookup_eq_some_of_mem hnd (k := b'.1) (v := b'.2) hb'
        rw [he] at e1
        rw [e1] at e2
        exact Option.some.inj e2
      | none =>
        rw [hl] at hb hb'
        simp only [] at hb hb'
        split_ifs at hb hb' with hs
        · rw [List.mem_singleton] at hb hb'
          rw [hb, hb']
        · cases hb
    · simp only [defaultValue, if_pos (nameIdx_mem_popNames I hD hp)]
  · intro p hp q hq
    have hr : rateAt I.mig (p, q) t = valueAt ((I.mig.lookup (p, q)).getD []) t 0 := rfl
    rw [hr]
    refine specValue_eq_valueAt _ _ _ _ 0 t ?_ ?_ ?_ ?_
    · intro c hc hk
      have hI := (mem_allChanges_sorted I hD c).1 hc
      cases hI with
      | size p' ch t' v h1 h2 => cases hk
      | mig p' q' ch t' v h1 h2 =>
        simp only [Key.mig.injEq] at hk
        have e1 : p' = p := nameIdx_inj (hallM h1).1 hk.1
        have e2 : q' = q := nameIdx_inj (hallM h1).2 hk.2
        subst e1 e2
        rw [lookup_eq_some_of_mem hD.migKeys h1]
        exact h2
      | extra p' h1 h2 => cases hk
    · intro b hb
      rw [mem_allChanges_sorted I hD]
      cases hl : I.mig.lookup (p, q) with
      | some ch =>
        rw [hl] at hb
        exact IsChange.mig p q ch b.1 b.2 (mem_of_lookup_eq_some hl) hb
      | none =>
        rw [hl] at hb
        cases hb
    · intro b hb b' hb' he
      cases hl : I.mig.lookup (p, q) with
      | some ch =>
        rw [hl] at hb hb'
        have hnd := hD.migTimes _ (mem_of_lookup_eq_some hl)
        have e1 := lookup_eq_some_of_mem hnd (k := b.1) (v := b.2) hb
        have e2 := lookup_eq_some_of_mem hnd (k := b'.1) (v := b'.2) hb'
        rw [he] at e1
        rw [e1] at e2
        exact Option.some.inj e2
      | none =>
        rw [hl] at hb
        cases hb
    · simp only [defaultValue, if_pos (⟨nameIdx_mem_popNames I hD hp,
        nameIdx_mem_popNames I hD hq⟩ : _ ∧ _)]


/-- the same for the names ON THE DEME AXIS (positions of the state vector, of `DemeReward`) -/
theorem config_value_is_specValue_axis (I : Input) (hD : DictInput I) (hV : ValidSetOrder I)
    (t : ℚ) :
    (∀ p ∈ axis I,
      specValue (allChanges (sortEvents (toEvents I))) (popNames (sortEvents (toEvents I)))
        (.size (nameIdx I p)) t = some (sizeAt I.sizes p t)) ∧
    (∀ p ∈ axis I, ∀ q ∈ axis I,
      specValue (allChanges (sortEvents (toEvents I))) (popNames (sortEvents (toEvents I)))
        (.mig (nameIdx I p) (nameIdx I q)) t = some (rateAt I.mig (p, q) t)) := by
  obtain ⟨c1, c2⟩ := config_value_is_specValue I hD t
  have hax : ∀ p ∈ axis I, p ∈ allNames I := fun p hp => (mem_axis_iff_allNames hV p).1 hp
  exact ⟨fun p hp => c1 p (hax p hp), fun p hp q hq => c2 p (hax p hp) q (hax q hq)⟩

/-- **The tie-breaking hypothesis is needed.**  A change list with the same time twice (not a
Python dict): `Config.valueAt` lets the LATER listed entry win (`5`), the flattening
`rates[t][key] = r[t]` of the translation keeps ONE entry per (time, key) -- here the first -- and
`specValue` returns `1`. -/
theorem tie_counterexample :
    let I : Input := { n := .dict [("a", 2)], sizes := [("a", [(0, 1), (0, 5)])], mig := [],
                       setOrder := [] }
    sizeAt I.sizes "a" 0 = 5 ∧
    specValue (allChanges (sortEvents (toEvents I))) (popNames (sortEvents (toEvents I)))
      (.size (nameIdx I "a")) 0 = some 1 := by
  decide +kernel

/-! ### K.4 the translated events are what `DemographyThm` asks for -/

theorem toEvents_discrete (I : Input) : ∀ ev ∈ toEvents I, ev.IsDiscrete := by
  intro ev hev
  unfold toEvents mainEvent extraEvent at hev
  rcases List.mem_append.1 hev with h | h
  · split_ifs at h
    · cases h
    · rw [List.mem_singleton] at h; subst h; trivial
  · split_ifs at h
    · cases h
    · rw [List.mem_singleton] at h; subst h; trivial

theorem changeTimesOf_nonneg (I : Input) (hD : DictInput I) : ∀ t ∈ changeTimesOf I, 0 ≤ t := by
  intro t ht
  unfold changeTimesOf at ht
  rw [mem_sortDedupQ, List.mem_append] at ht
  rcases ht with h | h
  · obtain ⟨e, he, hte⟩ := List.mem_flatMap.1 h
    obtain ⟨b, hb, rfl⟩ := List.mem_map.1 hte
    exact hD.sizeNonneg e he b hb
  · obtain ⟨e, he, hte⟩ := List.mem_flatMap.1 h
    obtain ⟨b, hb, rfl⟩ := List.mem_map.1 hte
    exact hD.migNonneg e he b hb

theorem toEvents_WF (I : Input) (hD : DictInput I) : ∀ ev ∈ toEvents I, ev.WF := by
  intro ev hev
  unfold toEvents mainEvent extraEvent at hev
  rcases List.mem_append.1 hev with h | h
  · split_ifs at h
    · cases h
    · rw [List.mem_singleton] at h
      subst h
      refine ⟨fun c hc => ?_, ?_⟩
      · obtain ⟨t, ht, rfl⟩ := List.mem_map.1 hc
        exact changeTimesOf_nonneg I hD t ht
      · rw [List.map_map]
        have : ((fun x : ℚ × List (Key × ℚ) => x.1) ∘ fun t =>
            (t, sizeEntries I t ++ migEntries I t)) = id := rfl
        rw [this, List.map_id]
        exact sortDedupQ_sorted _
  · split_ifs at h
    · cases h
    · rw [List.mem_singleton] at h
      subst h
      exact ⟨fun c hc => by rw [List.mem_singleton] at hc; subst hc; exact le_rfl, by simp⟩

/-! ### K.5 the epochs of the demography model carry the tables of the glue -/

/-- the value of the population NAMED `p` (resp. the pair) in an epoch of the demography model
applied to the translated input, at any time `t` of the epoch, is the value the glue reads by
name at `t` [`DemographyThm.value_in_force'` + `config_value_is_specValue`] -/
theorem epoch_value_is_config_value (I : Input) (hD : DictInput I) (o : DemoOpts) (count : ℕ)
    (e : Epoch) (he : e ∈ epochsUpTo o (toEvents I) count) (t : ℚ) (h1 : e.start ≤ t)
    (h2 : ltInf t e.stop = true) :
    (∀ p ∈ allNames I, e.value (.size (nameIdx I p)) = some (sizeAt I.sizes p t)) ∧
    (∀ p ∈ allNames I, ∀ q ∈ allNames I,
      e.value (.mig (nameIdx I p) (nameIdx I q)) = some (rateAt I.mig (p, q) t)) := by
  have hv := value_in_force' o (toEvents I) (toEvents_discrete I) (toEvents_WF I hD) count e he t
    h1 h2
  obtain ⟨c1, c2⟩ := config_value_is_specValue I hD t
  exact ⟨fun p hp => (hv _).trans (c1 p hp), fun p hp q hq => (hv _).trans (c2 p hp q hq)⟩

/-- **`epoch_tables_from_demography`.**  For every epoch `e` which the demography model generates
from the translated input and every time `t` inside it, the size vector and the migration matrix
IN AXIS ORDER which the glue derives at `t` (`Config.epochTable`) are the tables read off the
epoch object `e`. -/
theorem epoch_tables_from_demography (I : Input) (hD : DictInput I) (hV : ValidSetOrder I)
    (o : DemoOpts) (count : ℕ) (e : Epoch) (he : e ∈ epochsUpTo o (toEvents I) count) (t : ℚ)
    (h1 : e.start ≤ t) (h2 : ltInf t e.stop = true) :
    epochTable .current I t = tableOfEpoch I e := by
  obtain ⟨c1, c2⟩ := epoch_value_is_config_value I hD o count e he t h1 h2
  have hax : ∀ p ∈ axis I, p ∈ allNames I := fun p hp => (mem_axis_iff_allNames hV p).1 hp
  unfold epochTable tableOfEpoch sizeVec migMat migNames
  simp only []
  congr 1
  · refine List.map_congr_left fun p hp => ?_
    rw [epochSizes_lookup (hax p hp), c1 p (hax p hp)]
  · refine List.map_congr_left fun p hp => List.map_congr_left fun q hq => ?_
    rw [epochMig_lookup (hax p hp) (hax q hq), c2 p (hax p hp) q (hax q hq)]

/-- epoch number `e` of a generated list; the last (infinite) epoch persists beyond the list -/
def epochAt (E : List Epoch) (e : ℕ) : Epoch := E.getD e (E.getLast?.getD default)

theorem epochAt_mem {E : List Epoch} (hE : E ≠ []) (e : ℕ) : epochAt E e ∈ E := by
  unfold epochAt
  rw [List.getD_eq_getElem?_getD]
  by_cases h : e < E.length
  · rw [List.getElem?_eq_getElem h, Option.getD_some]
    exact List.getElem_mem h
  · rw [List.getElem?_eq_none (by omega), Option.getD_none]
    rw [List.getLast?_eq_some_getLast hE, Option.getD_some]
    exact List.getLast_mem hE

theorem epochAt_lt {E : List Epoch} {e : ℕ} (h : e < E.length) : epochAt E e = E[e] := by
  unfold epochAt
  rw [List.getD_eq_getElem?_getD, List.getElem?_eq_getElem h, Option.getD_some]

/-- the per-epoch time scales `ts e` of the capstone, from the demography model: the model's
time scale `tsOf` of the size read off epoch number `e` at axis position `d` -/
def demoTs (tsOf : ℚ → ℚ) (I : Input) (E : List Epoch) (D : ℕ) (e : ℕ) (d : Fin D) : ℚ :=
  tsOf ((tableOfEpoch I (epochAt E e)).1.getD d.val 0)

/-- the per-epoch migration matrices `mig e` of the capstone, from the demography model -/
def demoMig (I : Input) (E : List Epoch) (D : ℕ) (e : ℕ) (a b : Fin D) : ℚ :=
  ((tableOfEpoch I (epochAt E e)).2.getD a.val []).getD b.val 0

/-- the schedule of the translated input: an infinite last epoch, a tiling of `[0, ∞)` in the form
`PGProofs.Schedule` consumes, epoch boundaries = the positive change times of the user's dicts -/
theorem demography_schedule (I : Input) (hD : DictInput I) (o : DemoOpts) (count : ℕ)
    (hcount : (changeTimes (toEvents I)).length < count) :
    epochsUpTo o (toEvents I) count ≠ [] ∧
    WF ((epochsUpTo o (toEvents I) count).map Epoch.toT) 0 ∧
    (∀ t ∈ changeTimes (toEvents I), 0 < t →
      ∃ e ∈ epochsUpTo o (toEvents I) count, e.start = t) ∧
    (∀ e ∈ epochsUpTo o (toEvents I) count,
      e.start = 0 ∨ (e.start ∈ changeTimes (toEvents I) ∧ 0 < e.start)) := by
  obtain ⟨⟨e, he, _⟩, h2, h3, h4⟩ := change_time_is_boundary o (toEvents I)
    (fun ev h => (toEvents_discrete I ev h).notDiscretised) (toEvents_WF I hD) count hcount
  exact ⟨List.ne_nil_of_mem he, h2, h3, h4⟩

/-- **The `ts e` / `mig e` of the demography model are the glue's tables** at every time of epoch
`e`, and at the representative time `te e := start of epoch e` for EVERY `e : ℕ` (so that every
statement of `EndToEnd.lean` phrased with `sizesFn .current I (te e)` / `migFn .current I (te e)` is
a statement about `demoTs` / `demoMig`). -/
theorem demo_tables_eq_glue (I : Input) (hD : DictInput I) (hV : ValidSetOrder I)
    (o : DemoOpts) (count : ℕ) (hcount : (changeTimes (toEvents I)).length < count)
    (tsOf : ℚ → ℚ) (D : ℕ) :
    (∀ (e : ℕ) (he : e < (epochsUpTo o (toEvents I) count).length) (t : ℚ),
      (epochsUpTo o (toEvents I) count)[e].start ≤ t →
      ltInf t (epochsUpTo o (toEvents I) count)[e].stop = true →
      demoTs tsOf I (epochsUpTo o (toEvents I) count) D e
          = (fun d => tsOf (sizesFn .current I t D d)) ∧
      demoMig I (epochsUpTo o (toEvents I) count) D e = migFn .current I t D) ∧
    (demoTs tsOf I (epochsUpTo o (toEvents I) count) D
        = fun e d => tsOf (sizesFn .current I
            (epochAt (epochsUpTo o (toEvents I) count) e).start D d)) ∧
    (demoMig I (epochsUpTo o (toEvents I) count) D
        = fun e => migFn .current I (epochAt (epochsUpTo o (toEvents I) count) e).start D) := by
  obtain ⟨hne, hwf, _, _⟩ := demography_schedule I hD o count hcount
  have key : ∀ (e : ℕ) (t : ℚ), (epochAt (epochsUpTo o (toEvents I) count) e).start ≤ t →
      ltInf t (epochAt (epochsUpTo o (toEvents I) count) e).stop = true →
      demoTs tsOf I (epochsUpTo o (toEvents I) count) D e
          = (fun d => tsOf (sizesFn .current I t D d)) ∧
      demoMig I (epochsUpTo o (toEvents I) count) D e = migFn .current I t D := by
    intro e t h1 h2
    have := epoch_tables_from_demography I hD hV o count _ (epochAt_mem hne e) t h1 h2
    unfold demoTs demoMig sizesFn migFn
    rw [this]
    exact ⟨rfl, rfl⟩
  have hprop : ∀ e, ltInf (epochAt (epochsUpTo o (toEvents I) count) e).start
      (epochAt (epochsUpTo o (toEvents I) count) e).stop = true :=
    fun e => Tiled.proper hwf _ (epochAt_mem hne e)
  refine ⟨fun e he t h1 h2 => ?_, ?_, ?_⟩
  · rw [← epochAt_lt he] at h1 h2
    exact key e t h1 h2
  · funext e
    exact (key e _ le_rfl (hprop e)).1
  · funext e
    exact (key e _ le_rfl (hprop e)).2

end Demog

/-! ## L. the capstone with `eps`, `ts`, `mig` from the demography model -/

section DemogCapstone
open Assembly Finset Config
variable {K : Type} [Field K] [LinearOrder K] [IsStrictOrderedRing K]

attribute [local instance] momValK

/-- **`capstone_with_demography`.**  `moment_call_eq_labelled` with nothing left free on the
demography side: the epoch list of the sweep is the list `(start, stop)` of the epochs which the
demography model generates from the user's size / migration dicts (translated by `toEvents`), the
rate tables of epoch `e` -- for the state-space construction `hG` AND for the labelled process --
are the tables read off that epoch object in axis order (`demoTs`, `demoMig`).  Moreover
(ii) this epoch list is a tiling of `[0, ∞)` (the hypothesis under which the sweep is the direct
evaluation), and (iii) at EVERY time `t` of epoch `e` these tables are the named values the glue
reads at `t` (`Config.sizesFn` / `Config.migFn`, i.e. `sizeAt I.sizes (axis[d]) t`,
`rateAt I.mig (axis[a], axis[b]) t` by `config_named_semantics`). -/
theorem capstone_with_demography (I : Input) (hD : DictInput I) (hV : ValidSetOrder I)
    (o : DemoOpts) (count : ℕ) (hcount : (changeTimes (toEvents I)).length < count)
    {m : Model} (tsOf : ℚ → ℚ) {cinit : Fin (axis I).length → ℕ} {r : ℕ → ℚ} {fuel : ℕ → ℕ}
    {G : ℕ → Graph}
    (hG : ∀ e, bfs (transit m (mkEpoch
        (demoTs tsOf I (demoEpochs o I count) (axis I).length e)
        (demoMig I (demoEpochs o I count) (axis I).length e) (r e))) (encLC cinit) (fuel e)
        = some (G e))
    (L : ExpLaw K) (n : ℕ) (c0 : Fin (axis I).length → ℕ)
    (x0 : LabS (encLC (D := (axis I).length)) (G 0).visited (∑ d, cinit d))
    (hx0 : cntF x0.val = c0)
    (dr : Reward) (sd tm : ℚ) (c : MomentCall Reward)
    (hk : 1 ≤ c.k) (hlen : ∀ rs, c.rewards = some rs → (rs.length : Int) = c.k)
    (he : 0 ≤ resolveTime .current c.endTime tm) :
    momentCallK .current
        (codeCtx L G n c0 ((demoEpochs o I count).map Epoch.toT) dr sd tm) c
      = .ok (if 0 < resolveTime .current c.startTime sd then
          accumulateModel (fun l => labRaw L m
              (demoTs tsOf I (demoEpochs o I count) (axis I).length)
              (demoMig I (demoEpochs o I count) (axis I).length) G cinit n x0
              ((demoEpochs o I count).map Epoch.toT) l
              (resolveTime .current c.endTime tm)) c.center c.permute
              (resolveRewardsK dr c.k c.rewards)
            - accumulateModel (fun l => labRaw L m
              (demoTs tsOf I (demoEpochs o I count) (axis I).length)
              (demoMig I (demoEpochs o I count) (axis I).length) G cinit n x0
              ((demoEpochs o I count).map Epoch.toT) l
              (resolveTime .current c.startTime sd)) c.center c.permute
              (resolveRewardsK dr c.k c.rewards)
        else
          accumulateModel (fun l => labRaw L m
              (demoTs tsOf I (demoEpochs o I count) (axis I).length)
              (demoMig I (demoEpochs o I count) (axis I).length) G cinit n x0
              ((demoEpochs o I count).map Epoch.toT) l
              (resolveTime .current c.endTime tm)) c.center c.permute
              (resolveRewardsK dr c.k c.rewards)) ∧
    WF ((demoEpochs o I count).map Epoch.toT) 0 ∧
    ∀ (e : ℕ) (hlt : e < (demoEpochs o I count).length) (t : ℚ),
      (demoEpochs o I count)[e].start ≤ t → ltInf t (demoEpochs o I count)[e].stop = true →
      demoTs tsOf I (demoEpochs o I count) (axis I).length e
          = (fun d => tsOf (sizesFn .current I t (axis I).length d)) ∧
      demoMig I (demoEpochs o I count) (axis I).length e = migFn .current I t (axis I).length :=
  ⟨moment_call_eq_labelled hG L n c0 x0 hx0 _ dr sd tm c hk hlen he,
    (demography_schedule I hD o count hcount).2.1,
    (demo_tables_eq_glue I hD hV o count hcount tsOf (axis I).length).1⟩

/-- the cdf route with the demography model plugged in -/
theorem cdf_with_demography (I : Input) (o : DemoOpts) (count : ℕ)
    {m : Model} (tsOf : ℚ → ℚ) {cinit : Fin (axis I).length → ℕ} {r : ℕ → ℚ} {fuel : ℕ → ℕ}
    {G : ℕ → Graph}
    (hG : ∀ e, bfs (transit m (mkEpoch
        (demoTs tsOf I (demoEpochs o I count) (axis I).length e)
        (demoMig I (demoEpochs o I count) (axis I).length e) (r e))) (encLC cinit) (fuel e)
        = some (G e))
    (L : ExpLaw K) (n : ℕ) (c0 : Fin (axis I).length → ℕ)
    (x0 : LabS (encLC (D := (axis I).length)) (G 0).visited (∑ d, cinit d))
    (hx0 : cntF x0.val = c0) (times : List ℚ) (hnn : ∀ t ∈ times, 0 ≤ t) :
    cdfCallK L G n c0 ((demoEpochs o I count).map Epoch.toT) times
      = .ok (times.map (labCdf L m
          (demoTs tsOf I (demoEpochs o I count) (axis I).length)
          (demoMig I (demoEpochs o I count) (axis I).length) G cinit n x0
          ((demoEpochs o I count).map Epoch.toT))) :=
  cdf_call_eq_labelled hG L n c0 x0 hx0 _ times hnn

/-- **The named-input invariance of `EndToEnd.lean`, with the demography model plugged in** for
the run on `I`: its state spaces are built from the tables of the demography model's epochs, the
epoch list is the demography model's, the representative time of epoch `e` is its start.  (The run
on the re-listed input `I'` keeps the phrasing of `moment_call_named_invariant`: the glue's tables
of `I'` at those times.) -/
theorem named_invariant_with_demography (I I' : Input) (hD : DictInput I)
    (hN : I.linNames.Nodup) (hV : ValidSetOrder I)
    (hN' : I'.linNames.Nodup) (hV' : ValidSetOrder I')
    (hsz : I'.sizes.Perm I.sizes) (hmg : I'.mig.Perm I.mig)
    (hcnt : (I'.n.toDict.filter fun e => e.2 ≠ 0).Perm (I.n.toDict.filter fun e => e.2 ≠ 0))
    (hz : ∀ p ∈ I.linNames, nOf I p = 0 → p ∈ I'.linNames ∨ p ∈ rawDemNames I.sizes I.mig)
    (hz' : ∀ p ∈ I'.linNames, nOf I' p = 0 → p ∈ I.linNames ∨ p ∈ rawDemNames I.sizes I.mig)
    (o : DemoOpts) (count : ℕ) (hcount : (changeTimes (toEvents I)).length < count)
    {m : Model} (tsOf : ℚ → ℚ)
    {cinit cinit' : Fin (axis I).length → ℕ} {r r' : ℕ → ℚ} {fuel fuel' : ℕ → ℕ}
    {G G' : ℕ → Graph}
    (hG : ∀ e, bfs (transit m (mkEpoch
        (demoTs tsOf I (demoEpochs o I count) (axis I).length e)
        (demoMig I (demoEpochs o I count) (axis I).length e) (r e))) (encLC cinit) (fuel e)
        = some (G e))
    (hG' : ∀ e, bfs (transit m (mkEpoch
        (fun d => tsOf (sizesFn .current I' (epochAt (demoEpochs o I count) e).start
          (axis I).length d))
        (migFn .current I' (epochAt (demoEpochs o I count) e).start (axis I).length) (r' e)))
        (encLC cinit') (fuel' e) = some (G' e))
    (hsum : ∑ d, cinit' d = ∑ d, cinit d)
    (L : ExpLaw K) (n : ℕ)
    (hc0 : ∑ d, initFn I (axis I).length d = ∑ d, cinit d)
    (dr : NamedReward) (sd tm : ℚ) (v : Api.Variant) (c : MomentCall NamedReward)
    (hdr : dr.OnAxis I) (hc : ∀ rs, c.rewards = some rs → ∀ nr ∈ rs, nr.OnAxis I) :
    momentCallK v (codeCtx L G' n (initFn I' (axis I).length)
          ((demoEpochs o I count).map Epoch.toT) (dr.resolve I') sd tm)
        (mapRewards (NamedReward.resolve I') c)
      = momentCallK v (codeCtx L G n (initFn I (axis I).length)
          ((demoEpochs o I count).map Epoch.toT) (dr.resolve I) sd tm)
        (mapRewards (NamedReward.resolve I) c) := by
  obtain ⟨_, h2, h3⟩ := demo_tables_eq_glue I hD hV o count hcount tsOf (axis I).length
  have hG2 : ∀ e, bfs (transit m (mkEpoch
      (fun d => tsOf (sizesFn .current I (epochAt (demoEpochs o I count) e).start
        (axis I).length d))
      (migFn .current I (epochAt (demoEpochs o I count) e).start (axis I).length) (r e)))
      (encLC cinit) (fuel e) = some (G e) := by
    intro e
    have := hG e
    rw [h2, h3] at this
    exact this
  exact moment_call_named_invariant I I' hN hV hN' hV' hsz hD.sizeKeys hmg hD.migKeys hcnt hz hz'
    tsOf (fun e => (epochAt (demoEpochs o I count) e).start) hG2 hG' hsum L n hc0 _ dr sd tm v c
    hdr hc

end DemogCapstone

/-! ## M. a closed instance of the demography composition -/

section DemogInstance
open Assembly Finset Config

attribute [local instance] momValK

/-- `n = {'b': 1, 'a': 1}` (the deme axis `["b", "a"]` is NOT the sorted order),
`pop_sizes = {'a': {0: 1, 1: 3}, 'b': {0: 2}}`,
`migration_rates = {('a','b'): {0: 1/2}, ('b','a'): {0: 1/2, 1: 1/4}}`: two epochs `[0,1)`, `[1,∞)` -/
def exI2 : Config.Input where
  n := .dict [("b", 1), ("a", 1)]
  sizes := [("a", [(0, 1), (1, 3)]), ("b", [(0, 2)])]
  mig := [(("a", "b"), [(0, 1/2)]), (("b", "a"), [(0, 1/2), (1, 1/4)])]
  setOrder := []

theorem exI2_dict : DictInput exI2 :=
  ⟨by decide, by decide, by decide, by decide, by decide, by decide, by decide, by decide⟩

theorem exI2_valid : ValidSetOrder exI2 := (validSetOrder_iff _).1 (by decide)

/-- the changes of the translated events and the epochs the demography model generates from them; the tables
read off the epoch objects in axis order `["b", "a"]` -/
theorem exI2_epochs :
    axis exI2 = ["b", "a"] ∧ allNames exI2 = ["a", "b"] ∧
    allChanges (toEvents exI2)
      = [(0, .size 0, 1), (0, .size 1, 2), (0, .mig 0 1, 1/2), (0, .mig 1 0, 1/2),
         (1, .size 0, 3), (1, .mig 1 0, 1/4)] ∧
    (demoEpochs {} exI2 5).map (fun e => (e.start, e.stop)) = [(0, some 1), (1, none)] ∧
    (demoEpochs {} exI2 5).map (tableOfEpoch exI2)
      = [([2, 1], [[0, 1/2], [1/2, 0]]), ([2, 3], [[0, 1/4], [1/2, 0]])] := by
  decide +kernel

def exStepOf (ep : Epoch) : State → Targets :=
  transit .kingman (mkEpoch (D := (axis exI2).length)
    (fun d => (tableOfEpoch exI2 ep).1.getD d.val 0)
    (fun a b => ((tableOfEpoch exI2 ep).2.getD a.val []).getD b.val 0) 0)

def exGOf (ep : Epoch) : Graph :=
  (bfs (exStepOf ep) (encLC (initFn exI2 (axis exI2).length)) 10).getD default

theorem exGOf_spec : ∀ ep ∈ demoEpochs {} exI2 5,
    bfs (exStepOf ep) (encLC (initFn exI2 (axis exI2).length)) 10 = some (exGOf ep) := by
  have h : ∀ ep ∈ demoEpochs {} exI2 5,
      (bfs (exStepOf ep) (encLC (initFn exI2 (axis exI2).length)) 10).isSome = true := by
    decide +kernel
  intro ep hep
  have h' := h ep hep
  unfold exGOf
  cases hb : bfs (exStepOf ep) (encLC (initFn exI2 (axis exI2).length)) 10 with
  | none => rw [hb] at h'; cases h'
  | some g => rfl

/-- **Non-vacuity of `capstone_with_demography`**: all its hypotheses hold for `exI2` (Kingman,
time scale = size, the REAL matrix exponential); e.g. the covariance of the time spent in `a`
(`DemeReward` resolved to axis position 1) and the tree height, accumulated over the window
`[1/2, 2]` which straddles the epoch boundary at 1. -/
theorem demography_instance (sd tm : ℚ) :
    ∃ x0 : LabS (encLC (D := (axis exI2).length))
        ((fun e => exGOf (epochAt (demoEpochs {} exI2 5) e)) 0).visited
        (∑ d, initFn exI2 (axis exI2).length d),
      cntF x0.val = initFn exI2 (axis exI2).length ∧
      momentCallK .current
          (codeCtx realExpLaw (fun e => exGOf (epochAt (demoEpochs {} exI2 5) e)) 2
            (initFn exI2 (axis exI2).length) ((demoEpochs {} exI2 5).map Epoch.toT)
            .treeHeight sd tm)
          ⟨2, some [.deme 1, .treeHeight], some (1/2), some 2, true, true⟩
        = .ok (accumulateModel (fun l => labRaw realExpLaw .kingman
              (demoTs id exI2 (demoEpochs {} exI2 5) (axis exI2).length)
              (demoMig exI2 (demoEpochs {} exI2 5) (axis exI2).length)
              (fun e => exGOf (epochAt (demoEpochs {} exI2 5) e))
              (initFn exI2 (axis exI2).length) 2 x0
              ((demoEpochs {} exI2 5).map Epoch.toT) l 2) true true [.deme 1, .treeHeight]
            - accumulateModel (fun l => labRaw realExpLaw .kingman
              (demoTs id exI2 (demoEpochs {} exI2 5) (axis exI2).length)
              (demoMig exI2 (demoEpochs {} exI2 5) (axis exI2).length)
              (fun e => exGOf (epochAt (demoEpochs {} exI2 5) e))
              (initFn exI2 (axis exI2).length) 2 x0
              ((demoEpochs {} exI2 5).map Epoch.toT) l (1/2)) true true
              [.deme 1, .treeHeight]) := by
  have hcount : (changeTimes (toEvents exI2)).length < 5 := by decide +kernel
  have hne := (demography_schedule exI2 exI2_dict {} 5 hcount).1
  have hG : ∀ e : ℕ, bfs (transit .kingman (mkEpoch
      (demoTs id exI2 (demoEpochs {} exI2 5) (axis exI2).length e)
      (demoMig exI2 (demoEpochs {} exI2 5) (axis exI2).length e) ((fun _ => 0) e)))
      (encLC (initFn exI2 (axis exI2).length)) ((fun _ => 10) e)
      = some ((fun e => exGOf (epochAt (demoEpochs {} exI2 5) e)) e) :=
    fun e => exGOf_spec _ (epochAt_mem hne e)
  obtain ⟨x, hx⟩ := exists_list_cntF (initFn exI2 (axis exI2).length)
  obtain ⟨x0, hx0⟩ := exists_labInit hG x (by rw [← hx, sum_cntF])
  have h0 : cntF x0.val = initFn exI2 (axis exI2).length := by rw [hx0]; exact hx
  refine ⟨x0, h0, ?_⟩
  have := (capstone_with_demography exI2 exI2_dict exI2_valid {} 5 hcount (m := .kingman) id hG
    realExpLaw 2 (initFn exI2 (axis exI2).length) x0 h0 .treeHeight sd tm
    ⟨2, some [.deme 1, .treeHeight], some (1/2), some 2, true, true⟩ (by decide)
    (by intro rs h; cases h; rfl) (by simp [resolveTime])).1
  rw [this]
  simp [resolveTime, resolveRewardsK]

end DemogInstance
end EndToEnd
end PG

#print axioms PG.EndToEnd.negTimes_iff
#print axioms PG.EndToEnd.cdf_sweep_pointwise
#print axioms PG.EndToEnd.codeCdf_eq_labCdf
#print axioms PG.EndToEnd.cdf_call_eq_labelled
#print axioms PG.EndToEnd.cdf_call_negative
#print axioms PG.EndToEnd.cdf_call_error_iff
#print axioms PG.EndToEnd.cdf_call_entry_eq_labelled
#print axioms PG.EndToEnd.cdf_call_scalar_eq_labelled
#print axioms PG.EndToEnd.cdf_call_eq_labelled_exists
#print axioms PG.EndToEnd.cdf_instance
#print axioms PG.EndToEnd.accumulateCallK_wellformed
#print axioms PG.EndToEnd.momentCallK_wellformed
#print axioms PG.EndToEnd.accOf_congr
#print axioms PG.EndToEnd.padSFSK_rat
#print axioms PG.EndToEnd.combined_pair_unfolded
#print axioms PG.EndToEnd.combined_pair_folded
#print axioms PG.EndToEnd.codeRaw_eq_labRawBC
#print axioms PG.EndToEnd.sfsMomentCallK_code_eq_lab
#print axioms PG.EndToEnd.sfs_moment_call_eq_labelled
#print axioms PG.EndToEnd.eval_combined_unfolded_lab
#print axioms PG.EndToEnd.unfolded_sfs_moment_call_eq_labelled
#print axioms PG.EndToEnd.padSFSK_unfolded_length
#print axioms PG.EndToEnd.sfs_moment_call_eq_labelled_exists
#print axioms PG.EndToEnd.exGBC_spec
#print axioms PG.EndToEnd.exGBC_length
#print axioms PG.EndToEnd.sfs_instance
#print axioms PG.EndToEnd.raw2_of_code
#print axioms PG.EndToEnd.codeRaw2_eq_labRaw2
#print axioms PG.EndToEnd.momentCallK_code2_eq_lab2
#print axioms PG.EndToEnd.two_locus_moment_call_eq_labelled
#print axioms PG.EndToEnd.two_locus_accumulate_call_vector_eq_labelled
#print axioms PG.EndToEnd.two_locus_exists_labInit
#print axioms PG.EndToEnd.exG2_spec
#print axioms PG.EndToEnd.two_locus_instance
#print axioms PG.EndToEnd.sortDedupQ_sorted
#print axioms PG.EndToEnd.mem_sortDedupQ
#print axioms PG.EndToEnd.mem_allChanges_toEvents
#print axioms PG.EndToEnd.specValue_eq_of_max
#print axioms PG.EndToEnd.specValue_eq_default
#print axioms PG.EndToEnd.lastLE_spec
#print axioms PG.EndToEnd.valueAt_eq_of_max
#print axioms PG.EndToEnd.valueAt_eq_default
#print axioms PG.EndToEnd.specValue_eq_valueAt
#print axioms PG.EndToEnd.nameIdx_mem_popNames
#print axioms PG.EndToEnd.config_value_is_specValue
#print axioms PG.EndToEnd.config_value_is_specValue_axis
#print axioms PG.EndToEnd.tie_counterexample
#print axioms PG.EndToEnd.toEvents_discrete
#print axioms PG.EndToEnd.toEvents_WF
#print axioms PG.EndToEnd.epoch_value_is_config_value
#print axioms PG.EndToEnd.epoch_tables_from_demography
#print axioms PG.EndToEnd.demography_schedule
#print axioms PG.EndToEnd.demo_tables_eq_glue
#print axioms PG.EndToEnd.capstone_with_demography
#print axioms PG.EndToEnd.cdf_with_demography
#print axioms PG.EndToEnd.named_invariant_with_demography
#print axioms PG.EndToEnd.exI2_dict
#print axioms PG.EndToEnd.exI2_valid
#print axioms PG.EndToEnd.exI2_epochs
#print axioms PG.EndToEnd.exGOf_spec
#print axioms PG.EndToEnd.demography_instance
